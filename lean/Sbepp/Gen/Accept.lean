/-
  C07: the necessary conditions for sbeppc to accept a schema that the C07
  theorems assume (names, uniqueness, explicit values, attribute ranges, layout,
  and the validator rules of bf3e3ae / ceb9ad3 / c7e26c2: header members used as
  integers have an integer or char type; every value a header filler writes is
  representable in the member it is written to; the valid values of an enum are
  pairwise distinct), and the two problem classes those rules exclude.

  The three new conditions are mirrored in the terms of this model (the header
  member primitive `headerMemberPrim?`, the block lengths of `Schema.Resolve`
  that the filler sites carry, enumerator values as numbers); the validator's own
  formulation (`Sbepp.Spec.Rules`, proved equivalent to the validator model in
  C08) is evaluated next to them by the driver (`rulesHold`), and
  `Lemmas/C07Accept.lean` proves that for an integer member "in range" here is
  `representable member_prim (toString value)` there.
-/
import Sbepp.Gen.Literals
import Sbepp.Gen.Scope
import Sbepp.Spec.Rules

namespace Sbepp.Gen
open Sbepp Sbepp.Schema

namespace Literals

/-- every site below the `<messageSchema>` element itself -/
def bodySites (s : SchemaDef) : List Site :=
  s.types.flatMap (elemSites s.types "types." false) ++ s.messages.flatMap (messageSites s)

/-- a header-filler constant (`header.member({n})`, the only sites that brace an unsigned number into the type
    of a primitive): the member has an integer or char type (bf3e3ae) that can hold the value (ceb9ad3) -/
def Site.fillerOk (site : Site) : Bool :=
  match site.target, site.text with
  | .prim p, .nat n => !p.isFloat && inPrimRange p (n : Int)
  | _, _ => true

/-- schema id, version, template ids, the block length of every level, the numbers of groups and data members
    (where the header has the optional counters) fit the header members they are written to -/
def fillersAccepted (s : SchemaDef) : Bool := (bodySites s).all Site.fillerOk

end Literals

/-! ### header members used as integers -/

/-- a member of a level header the generated code or the runtime uses as an integer; `breaks`: generated code
    is ill-formed when the member has a floating-point type (pointer arithmetic with the block length,
    `make_signed` of the group size, `size()` of a data member) -/
structure HeaderUse where
  entity : String
  header : String
  member : String
  breaks : Bool
  deriving Repr

mutual
  def groupHeaderUses (path : String) : GroupDef → List HeaderUse
    | .mk n _ dim _ _ inner datas _ =>
      [⟨path ++ n, dim, "blockLength", true⟩, ⟨path ++ n, dim, "numInGroup", true⟩,
       ⟨path ++ n, dim, "numGroups", false⟩, ⟨path ++ n, dim, "numVarDataFields", false⟩] ++
      datas.map (fun d => ⟨path ++ n ++ "." ++ d.name, d.type, "length", true⟩) ++
      groupsHeaderUses (path ++ n ++ ".") inner
  def groupsHeaderUses (path : String) : List GroupDef → List HeaderUse
    | [] => []
    | g :: gs => groupHeaderUses path g ++ groupsHeaderUses path gs
end

def messageHeaderUses (s : SchemaDef) (m : MessageDef) : List HeaderUse :=
  let entity := "messages." ++ m.name
  -- the wire block length of a message is only added to a pointer where a member follows the header
  let follows := m.fields.any (fun f => !Scope.constField s.types f) || !m.groups.isEmpty || !m.datas.isEmpty
  [⟨entity, s.headerType, "schemaId", false⟩, ⟨entity, s.headerType, "templateId", false⟩,
   ⟨entity, s.headerType, "version", false⟩, ⟨entity, s.headerType, "blockLength", follows⟩,
   ⟨entity, s.headerType, "numGroups", false⟩, ⟨entity, s.headerType, "numVarDataFields", false⟩] ++
  m.datas.map (fun d => ⟨entity ++ "." ++ d.name, d.type, "length", true⟩) ++
  groupsHeaderUses (entity ++ ".") m.groups

def headerUses (s : SchemaDef) : List HeaderUse := s.messages.flatMap (messageHeaderUses s)

def HeaderUse.isFloat (types : List Elem) (u : HeaderUse) : Bool :=
  match Literals.headerMemberPrim? types u.header u.member with
  | some p => p.isFloat
  | none => false

/-- bf3e3ae: no header member used as an integer has type `float` / `double` -/
def headerTypesAccepted (s : SchemaDef) : Bool := (headerUses s).all (fun u => !u.isFloat s.types)

/-- header members whose type cannot be used where the runtime does arithmetic with it -/
def headerTypeProblems (s : SchemaDef) : List Scope.Problem :=
  ((headerUses s).filter (fun u => u.breaks && u.isFloat s.types)).map
    (fun u => ⟨"floating-point-header-member", u.entity, u.member, "all"⟩)

/-! ### enumerators of one enum with the same value -/

/-- the first number that occurs twice -/
def dupInt : List Int → Bool
  | [] => false
  | x :: xs => xs.contains x || dupInt xs

/-- the values the enumerators of an enum over `enc` denote (the character code for `char`) -/
def enumValues (types : List Elem) (enc : String) (values : List ValidValue) : List Int :=
  let pn := match encPrim types enc with | .ok x => x | .error _ => ""
  match Literals.primOf? pn with
  | some p => values.filterMap (fun v => Literals.enumeratorValue (pn == "char") p v.value)
  | none => []

mutual
  /-- two enumerators of one enum with the same value: duplicate `case` in the generated `switch` -/
  def elemDuplicateCases (types : List Elem) (path : String) : Elem → List Scope.Problem
    | .enum n enc _ values _ =>
      if dupInt (enumValues types enc values) then [⟨"duplicate-case", path ++ n, n, "all"⟩] else []
    | .composite n _ elems _ => elemsDuplicateCases types (path ++ n ++ ".") elems
    | _ => []
  def elemsDuplicateCases (types : List Elem) (path : String) : List Elem → List Scope.Problem
    | [] => []
    | e :: es => elemDuplicateCases types path e ++ elemsDuplicateCases types path es
end

def duplicateCaseProblems (s : SchemaDef) : List Scope.Problem := elemsDuplicateCases s.types "types." s.types

/-- c7e26c2: the valid values of every enum are pairwise distinct (as numbers / characters) -/
def enumValuesDistinct (s : SchemaDef) : Bool := (duplicateCaseProblems s).isEmpty

/-! ### acceptance -/

def acceptedB (s : SchemaDef) : Bool :=
  Scope.namesAccepted s && Scope.uniqueAccepted s && Literals.valuesAccepted s && Literals.rangesAccepted s &&
  Literals.layoutAccepted s && headerTypesAccepted s && Literals.fillersAccepted s && enumValuesDistinct s

/-- the validator's rules as C08 states and proves them (`violations s = [] ↔ check s = .ok ()`), evaluated by the
    driver next to `acceptedB`: a schema they reject is not called accepted either -/
def rulesHold (s : SchemaDef) : Bool := Spec.Rules.rulesB s

end Sbepp.Gen
