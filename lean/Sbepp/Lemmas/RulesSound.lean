/-
  C08 — soundness of the diagnostics: the class and the entity the model reports are a
  rule of the specification that is broken at that entity (`check_error_sound`).
  Continues `Lemmas/Rules.lean` / `Lemmas/RulesAccept.lean`.
-/
import Sbepp.Lemmas.RulesAccept

namespace Sbepp.Schema.Rules
set_option linter.unusedSectionVars false
set_option linter.unusedSimpArgs false
open Sbepp Sbepp.Schema
open Sbepp.Spec.Rules

/-! ### diagnostics name a rule that is broken where they say -/

theorem need_bind_err {β} (c : Bool) (cls : DiagClass) (p : Path) (f : Unit → R β) (d : Diag) :
    (need c cls p >>= f) = .error d ↔ (c = false ∧ d = { cls := cls, loc := p }) ∨ (c = true ∧ f () = .error d) := by
  cases c <;> simp [need, fail, bind, Except.bind, eq_comm]

theorem vName_err (n : String) (p : Path) (d : Diag) :
    vName n p = .error d ↔ symbolicName n = false ∧ d = { cls := .invalidName, loc := p } := by
  unfold vName; rw [need_err, symbolic_eq]

theorem vName_bind_err {β} (n : String) (p : Path) (f : Unit → R β) (d : Diag) :
    (vName n p >>= f) = .error d ↔
      (symbolicName n = false ∧ d = { cls := .invalidName, loc := p }) ∨ (symbolicName n = true ∧ f () = .error d) := by
  unfold vName; rw [need_bind_err, symbolic_eq]

/-- the pair the specification lists for a diagnostic -/
def Diag.viol (d : Diag) : Viol := (d.cls, d.loc)

theorem vOptionalValue_err (hfp : FpAgree) (v : Option String) (prim : String) (p : Path) (hp : isPrim prim = true) (d : Diag)
    (h : vOptionalValue v prim p = .error d) : litViol prim p v = some d.viol := by
  unfold vOptionalValue at h
  cases v with
  | none => cases h
  | some x =>
    simp only [need_err, valueFits_eq hfp _ _ hp] at h
    obtain ⟨h1, rfl⟩ := h
    simp [litViol, h1, Diag.viol]

theorem vConstantValue_err (hfp : FpAgree) (types : List Elem) (p : Path) (t : TypeDef)
    (hp : isPrim t.prim = true) (d : Diag) (h : vConstantValue types p t = .error d) : d.viol ∈ constViols types p t := by
  unfold vConstantValue at h
  unfold constViols
  rw [need_bind_err] at h
  rcases h with ⟨h1, rfl⟩ | ⟨h1, h⟩
  · -- both or neither
    cases hv : t.valueRef <;> cases hc : t.constValue <;> simp [hv, hc, Diag.viol] at h1 ⊢
  · rcases (bind_err _ _ d).mp h with h | ⟨_, hok, h⟩
    · cases hv : t.valueRef with
      | some r =>
        cases hc : t.constValue with
        | some c => simp [hv, hc] at h1
        | none =>
          simp only [hv] at h
          rw [findValueRef_eq] at h
          simp only [List.mem_append]
          left
          unfold valueRefViols
          cases hr : resolveValueRef types r with
          | error c =>
            simp only [hr, fail, bind, Except.bind, Except.error.injEq] at h
            subst h
            simp [Diag.viol]
          | ok x =>
            obtain ⟨n, enc, v⟩ := x
            simp only [hr, bind, Except.bind, need_err] at h
            obtain ⟨h2, rfl⟩ := h
            rw [valueRefFits_eq hfp types r n enc t.prim v hr hp] at h2
            simp [h2, Diag.viol]
      | none =>
        cases hc : t.constValue with
        | none => simp [hv, hc] at h1
        | some c =>
          simp only [hv, hc, Option.getD_some] at h
          simp only [List.mem_append]
          left
          by_cases hch : t.prim = "char"
          · simp only [hch, beq_self_eq_true, ↓reduceIte, need_err] at h ⊢
            obtain ⟨h2, rfl⟩ := h
            simp only [Bool.not_eq_eq_eq_not, Bool.not_false, decide_eq_true_eq] at h2
            simp [h2, Diag.viol]
          · have hne : (t.prim == "char") = false := by simpa using hch
            simp only [hne, Bool.false_eq_true, ↓reduceIte, need_err, valueFits_eq hfp _ _ hp] at h ⊢
            obtain ⟨h2, rfl⟩ := h
            simp [h2, Diag.viol]
    · rw [need_err] at h
      obtain ⟨h2, rfl⟩ := h
      simp only [List.mem_append]
      right
      simp only [Bool.not_eq_eq_eq_not, Bool.not_false] at h2
      simp [h2, Diag.viol]

theorem vType_err (hfp : FpAgree) (types : List Elem) (p : Path) (t : TypeDef) (d : Diag)
    (h : vType types p t = .error d) :
    (symbolicName t.name = false ∧ d.viol = (.invalidName, p)) ∨ d.viol ∈ typeViols types p t := by
  unfold vType at h
  rw [vName_bind_err] at h
  rcases h with ⟨h1, rfl⟩ | ⟨_, h⟩
  · exact Or.inl ⟨h1, rfl⟩
  · right
    rw [need_bind_err, isPrimitive_eq] at h
    unfold typeViols
    rcases h with ⟨h1, rfl⟩ | ⟨hp, h⟩
    · simp [h1, Diag.viol]
    · simp only [hp, Bool.not_true, Bool.false_eq_true, ↓reduceIte]
      rcases (bind_err _ _ d).mp h with h | ⟨_, _, h⟩
      · by_cases hc : (t.presence == Presence.constant) = true
        · simp only [hc, ↓reduceIte] at h ⊢
          exact vConstantValue_err hfp types p t hp d h
        · simp only [hc, Bool.false_eq_true, ↓reduceIte] at h ⊢
          by_cases hl : (t.length == 1) = true
          · simp only [hl, ↓reduceIte] at h ⊢
            rw [List.mem_filterMap]
            rcases (bind_err _ _ d).mp h with h | ⟨_, _, h⟩
            · exact ⟨t.minValue, by simp, vOptionalValue_err hfp _ _ _ hp d h⟩
            · rcases (bind_err _ _ d).mp h with h | ⟨_, _, h⟩
              · exact ⟨t.maxValue, by simp, vOptionalValue_err hfp _ _ _ hp d h⟩
              · by_cases ho : (t.presence == Presence.optional) = true
                · simp only [ho, ↓reduceIte] at h ⊢
                  exact ⟨t.nullValue, by simp, vOptionalValue_err hfp _ _ _ hp d h⟩
                · simp [ho] at h
          · simp only [hl, Bool.false_eq_true, ↓reduceIte, need_err, singleByte_eq _ hp] at h ⊢
            obtain ⟨h2, rfl⟩ := h
            simp [h2, Diag.viol]
      · cases h


/-- `w` is a rule of the encoding `x` (at path `q`) that `x` breaks -/
def ElemBad (types : List Elem) (q : Path) (x : Elem) (w : Viol) : Prop :=
  (symbolicName x.name = false ∧ w = (.invalidName, q)) ∨
  (match x with
   | .enum _ _ _ vs _ => ∃ v ∈ vs, symbolicName v.name = false ∧ w = (.invalidName, q ++ [v.name])
   | .set _ _ _ cs _ => ∃ c ∈ cs, symbolicName c.name = false ∧ w = (.invalidName, q ++ [c.name])
   | _ => False) ∨
  w ∈ elemViols types q x

theorem vValidValue_err (hfp : FpAgree) (prim : String) (hi : isIntegralPrim prim = true) (p : Path) (v : ValidValue)
    (d : Diag) (h : vValidValue prim p v = .error d) :
    (symbolicName v.name = false ∧ d.viol = (.invalidName, p ++ [v.name])) ∨ validValueViol prim p v = some d.viol := by
  unfold vValidValue at h
  rw [vName_bind_err] at h
  rcases h with ⟨h1, rfl⟩ | ⟨_, h⟩
  · exact Or.inl ⟨h1, rfl⟩
  · right
    rw [need_err, valueFits_eq hfp _ _ (integral_isPrim _ hi)] at h
    obtain ⟨h2, rfl⟩ := h
    unfold validValueViol
    by_cases hc : prim = "char"
    · subst hc
      simp only [beq_self_eq_true, Bool.true_and, Bool.not_true, Bool.false_and, Bool.or_false, Bool.not_eq_eq_eq_not,
        Bool.not_false, bne_iff_ne, ne_eq] at h2
      simp [h2, Diag.viol]
    · have hne : (prim == "char") = false := by simpa using hc
      simp only [hne, Bool.false_and, Bool.not_false, Bool.true_and, Bool.false_or, Bool.not_eq_eq_eq_not, Bool.not_true] at h2
      simp [hne, h2, Diag.viol]

theorem vValidValues_err (prim : String) (p : Path) : ∀ (vs : List ValidValue) (seen : List String) (d : Diag),
    vValidValues prim p seen vs = .error d →
      (∃ v ∈ vs, vValidValue prim p v = .error d) ∨
      (∃ v ∈ repeats (enumValueKey prim) seen vs, d.viol = (.duplicateEnumValue, p ++ [v.name])) := by
  intro vs
  induction vs with
  | nil => intro seen d h; simp [vValidValues] at h
  | cons v rest ih =>
    intro seen d h
    unfold vValidValues at h
    rcases (bind_err _ _ d).mp h with h | ⟨_, _, h⟩
    · exact Or.inl ⟨v, by simp, h⟩
    · rw [need_bind_err, normalized_eq] at h
      rcases h with ⟨h1, rfl⟩ | ⟨h1, h⟩
      · right
        have h1' : enumValueKey prim v ∈ seen := by simpa using h1
        exact ⟨v, by simp [repeats, h1'], rfl⟩
      · have h1' : enumValueKey prim v ∉ seen := by simpa using h1
        rcases ih _ d h with ⟨v', hv', hh⟩ | ⟨v', hv', hh⟩
        · exact Or.inl ⟨v', by simp [hv'], hh⟩
        · exact Or.inr ⟨v', by simpa [repeats, h1'] using hv', hh⟩

theorem vEnum_err (hfp : FpAgree) (types : List Elem) (p : Path) (n enc : String) (o : Option Nat) (vs : List ValidValue)
    (a : Attrs) (d : Diag) (h : vEnum types p n enc vs = .error d) : ElemBad types p (.enum n enc o vs a) d.viol := by
  unfold vEnum at h
  rw [vName_bind_err] at h
  rcases h with ⟨h1, rfl⟩ | ⟨_, h⟩
  · exact Or.inl ⟨h1, rfl⟩
  · rw [vEncodingType_eq] at h
    cases hr : resolveEncodingType types enc with
    | error c =>
      simp only [hr, fail, bind, Except.bind, Except.error.injEq] at h
      subst h
      exact Or.inr (Or.inr (by simp [elemViols, hr, Diag.viol]))
    | ok prim =>
      simp only [hr, bind, Except.bind] at h
      change (need (isIntegralType prim) DiagClass.enumTypeNotIntegral p >>= fun _ => _) = _ at h
      rw [need_bind_err, isIntegral_eq] at h
      rcases h with ⟨h1, rfl⟩ | ⟨hi, h⟩
      · exact Or.inr (Or.inr (by simp [elemViols, hr, h1, Diag.viol]))
      · rcases (bind_err _ _ d).mp h with h | ⟨_, _, h⟩
        · rcases vValidValues_err prim p vs [] d h with ⟨v, hv, hvd⟩ | ⟨v, hv, hvd⟩
          · rcases vValidValue_err hfp prim hi p v d hvd with h2 | h2
            · exact Or.inr (Or.inl ⟨v, hv, h2⟩)
            · exact Or.inr (Or.inr (by
                simp only [elemViols, hr, hi, Bool.not_true, Bool.false_eq_true, ↓reduceIte, List.mem_append,
                  List.mem_filterMap]
                exact Or.inl ⟨v, hv, h2⟩))
          · exact Or.inr (Or.inr (by
              simp only [elemViols, hr, hi, Bool.not_true, Bool.false_eq_true, ↓reduceIte, List.mem_append,
                List.mem_map]
              exact Or.inr ⟨v, hv, hvd.symm⟩))
        · cases h

theorem vChoice_err (prim : String) (k : Nat) (hk : primBytes prim = some k) (hk1 : 1 ≤ k) (p : Path) (c : Choice) (d : Diag)
    (h : vChoice (k * 8 - 1) p c = .error d) :
    (symbolicName c.name = false ∧ d.viol = (.invalidName, p ++ [c.name])) ∨ choiceViol prim p c = some d.viol := by
  unfold vChoice at h
  rw [vName_bind_err] at h
  rcases h with ⟨h1, rfl⟩ | ⟨_, h⟩
  · exact Or.inl ⟨h1, rfl⟩
  · right
    rw [need_err] at h
    obtain ⟨h2, rfl⟩ := h
    unfold choiceViol
    simp only [hk, Option.getD_some]
    simp only [Bool.not_eq_eq_eq_not, Bool.not_false, decide_eq_true_eq] at h2
    have : ¬ c.index < 8 * k := by omega
    simp [this, Diag.viol]

theorem vSet_err (types : List Elem) (p : Path) (n enc : String) (o : Option Nat) (cs : List Choice)
    (a : Attrs) (d : Diag) (h : vSet types p n enc cs = .error d) : ElemBad types p (.set n enc o cs a) d.viol := by
  unfold vSet at h
  rw [vName_bind_err] at h
  rcases h with ⟨h1, rfl⟩ | ⟨_, h⟩
  · exact Or.inl ⟨h1, rfl⟩
  · rw [vEncodingType_eq] at h
    cases hr : resolveEncodingType types enc with
    | error c =>
      simp only [hr, fail, bind, Except.bind, Except.error.injEq] at h
      subst h
      exact Or.inr (Or.inr (by simp [elemViols, hr, Diag.viol]))
    | ok prim =>
      simp only [hr, bind, Except.bind] at h
      change (need (isUnsignedPrimitiveType prim) DiagClass.setTypeNotUnsigned p >>= fun _ => _) = _ at h
      rw [need_bind_err, isUnsigned_eq] at h
      rcases h with ⟨h1, rfl⟩ | ⟨hi, h⟩
      · exact Or.inr (Or.inr (by simp [elemViols, hr, h1, Diag.viol]))
      · obtain ⟨k, hk, hk1⟩ := unsigned_size prim hi
        rw [primSize_eq, hk] at h
        simp only [Option.getD_some] at h
        rcases (bind_err _ _ d).mp h with h | ⟨_, _, h⟩
        · obtain ⟨c, hc, hcd⟩ := allOk_err _ _ d h
          rcases vChoice_err prim k hk hk1 p c d hcd with h2 | h2
          · exact Or.inr (Or.inl ⟨c, hc, h2⟩)
          · exact Or.inr (Or.inr (by
              simp only [elemViols, hr, hi, Bool.not_true, Bool.false_eq_true, ↓reduceIte, List.mem_filterMap]
              exact ⟨c, hc, h2⟩))
        · cases h


theorem subElems_self (p : Path) (e : Elem) : (p, e) ∈ subElems p e := by
  cases e <;> simp [subElems]

mutual
  theorem subElems_trans : ∀ (e : Elem) (p q : Path) (y : Elem) (q' : Path) (y' : Elem),
      (q, y) ∈ subElems p e → (q', y') ∈ subElems q y → (q', y') ∈ subElems p e
    | .composite n o elems a, p, q, y, q', y', h1, h2 => by
      simp only [subElems, List.mem_cons, Prod.mk.injEq] at h1 ⊢
      rcases h1 with ⟨rfl, rfl⟩ | h1
      · simpa [subElems] using h2
      · exact Or.inr (subElemsL_trans elems p q y q' y' h1 h2)
    | .type t, p, q, y, q', y', h1, h2 => by
      simp only [subElems, List.mem_singleton, Prod.mk.injEq] at h1
      obtain ⟨rfl, rfl⟩ := h1; exact h2
    | .enum _ _ _ _ _, p, q, y, q', y', h1, h2 => by
      simp only [subElems, List.mem_singleton, Prod.mk.injEq] at h1
      obtain ⟨rfl, rfl⟩ := h1; exact h2
    | .set _ _ _ _ _, p, q, y, q', y', h1, h2 => by
      simp only [subElems, List.mem_singleton, Prod.mk.injEq] at h1
      obtain ⟨rfl, rfl⟩ := h1; exact h2
    | .ref _ _ _ _, p, q, y, q', y', h1, h2 => by
      simp only [subElems, List.mem_singleton, Prod.mk.injEq] at h1
      obtain ⟨rfl, rfl⟩ := h1; exact h2
  theorem subElemsL_trans : ∀ (elems : List Elem) (p q : Path) (y : Elem) (q' : Path) (y' : Elem),
      (q, y) ∈ subElemsL p elems → (q', y') ∈ subElems q y → (q', y') ∈ subElemsL p elems
    | [], p, q, y, q', y', h1, _ => by simp [subElemsL] at h1
    | e :: rest, p, q, y, q', y', h1, h2 => by
      simp only [subElemsL, List.mem_append] at h1 ⊢
      rcases h1 with h1 | h1
      · exact Or.inl (subElems_trans e _ q y q' y' h1 h2)
      · exact Or.inr (subElemsL_trans rest p q y q' y' h1 h2)
end

theorem subElemsL_child (p : Path) : ∀ (elems : List Elem) (x : Elem), x ∈ elems → (p ++ [x.name], x) ∈ subElemsL p elems := by
  intro elems
  induction elems with
  | nil => intro x hx; simp at hx
  | cons e rest ih =>
    intro x hx
    simp only [subElemsL, List.mem_append]
    rcases List.mem_cons.mp hx with rfl | hx
    · exact Or.inl (subElems_self _ _)
    · exact Or.inr (ih x hx)

/-- `w` is listed by the specification for some encoding of some public type -/
def TypesBad (types : List Elem) (w : Viol) : Prop :=
  ∃ T ∈ types, ∃ q x, (q, x) ∈ subElems ["types", T.name] T ∧ ElemBad types q x w

section ErrSound
variable (hfp : FpAgree) (types : List Elem) (kf : Nat) (hkf : kf ≤ types.length)
  (ih : ∀ vis T d, T ∈ types → vPublic types kf vis T = .error d →
    d.cls = .cyclicReference ∨ d.cls = .fuelExhausted ∨ TypesBad types d.viol)
include hfp hkf ih

mutual
  theorem vElemWith_err : ∀ (e : Elem) (vis : List String) (p : Path) (T : Elem) (d : Diag),
      T ∈ types → (p, e) ∈ subElems ["types", T.name] T →
      vElemWith types (vPublic types kf) vis p e = .error d →
      d.cls = .cyclicReference ∨ d.cls = .fuelExhausted ∨ TypesBad types d.viol
    | .type t, vis, p, T, d, hT, hm, h => by
      simp only [vElemWith] at h
      refine Or.inr (Or.inr ⟨T, hT, p, _, hm, ?_⟩)
      rcases vType_err hfp types p t d h with h1 | h1
      · exact Or.inl h1
      · exact Or.inr (Or.inr (by simpa [elemViols] using h1))
    | .enum n enc o vs a, vis, p, T, d, hT, hm, h => by
      simp only [vElemWith] at h
      exact Or.inr (Or.inr ⟨T, hT, p, _, hm, vEnum_err hfp types p n enc o vs a d h⟩)
    | .set n enc o cs a, vis, p, T, d, hT, hm, h => by
      simp only [vElemWith] at h
      exact Or.inr (Or.inr ⟨T, hT, p, _, hm, vSet_err types p n enc o cs a d h⟩)
    | .ref nm ty o a, vis, p, T, d, hT, hm, h => by
      simp only [vElemWith] at h
      rw [vName_bind_err] at h
      rcases h with ⟨h1, rfl⟩ | ⟨_, h⟩
      · exact Or.inr (Or.inr ⟨T, hT, p, _, hm, Or.inl ⟨h1, rfl⟩⟩)
      · rw [lookup_eq] at h
        cases hf : findType types ty with
        | none =>
          simp only [hf, fail, Except.error.injEq] at h
          subst h
          exact Or.inr (Or.inr ⟨T, hT, p, _, hm, Or.inr (Or.inr (by simp [elemViols, hf, Diag.viol]))⟩)
        | some target =>
          simp only [hf] at h
          by_cases hcont : vis.contains target.name = true
          · simp only [hcont, ↓reduceIte, fail, Except.error.injEq] at h
            subst h; exact Or.inl rfl
          · simp only [hcont, Bool.false_eq_true, ↓reduceIte] at h
            exact ih _ target d (findType_mem types ty target hf) h
    | .composite nm o elems a, vis, p, T, d, hT, hm, h => by
      simp only [vElemWith] at h
      rw [vName_bind_err] at h
      rcases h with ⟨h1, rfl⟩ | ⟨_, h⟩
      · exact Or.inr (Or.inr ⟨T, hT, p, _, hm, Or.inl ⟨h1, rfl⟩⟩)
      · refine vElemsWith_err elems vis p 0 T d hT ?_ ?_ h
        · intro x hx
          exact subElems_trans T _ p _ _ _ hm (by simp [subElems, subElemsL_child p elems x hx])
        · intro w hw
          exact ⟨T, hT, p, _, hm, Or.inr (Or.inr (by simpa [elemViols] using hw))⟩
  theorem vElemsWith_err : ∀ (elems : List Elem) (vis : List String) (p : Path) (cur : Nat) (T : Elem) (d : Diag),
      T ∈ types → (∀ x ∈ elems, (p ++ [x.name], x) ∈ subElems ["types", T.name] T) →
      (∀ w ∈ (memberMinima types cur elems).filterMap (offsetViol types p), TypesBad types w) →
      vElemsWith types (vPublic types kf) vis p cur elems = .error d →
      d.cls = .cyclicReference ∨ d.cls = .fuelExhausted ∨ TypesBad types d.viol
    | [], vis, p, cur, T, d, _, _, _, h => by simp [vElemsWith] at h
    | e :: rest, vis, p, cur, T, d, hT, hch, hoff, h => by
      simp only [vElemsWith] at h
      rcases (bind_err _ _ d).mp h with h | ⟨sz, hsz, h⟩
      · exact vElemWith_err e vis _ T d hT (hch e (by simp)) h
      · have hsizeOf : Spec.Rules.sizeOf types e = some sz := by
          unfold Spec.Rules.sizeOf
          have := vElemWith_size types kf (vPublic_size types kf) e vis _ sz hsz
          exact sizeK_mono types (kf + 1) (types.length + 1) (by omega) e sz (by simpa [sizeK] using this)
        rcases (bind_err _ _ d).mp h with h | ⟨cur', hcur', h⟩
        · -- `validate_element_offset` failed
          unfold vElementOffset at h
          rw [isConst_eq, offset_eq] at h
          by_cases hc : Spec.Rules.isConstElem types e = true
          · simp [hc] at h
          · simp only [hc, Bool.false_eq_true, ↓reduceIte] at h
            cases ho : elemOffset e with
            | none =>
              simp only [ho] at h
              obtain ⟨hov, rfl⟩ := (vAdvance_err _ _ _ _).mp h
              refine Or.inr (Or.inr (hoff _ ?_))
              simp only [memberMinima, hc, Bool.false_eq_true, ↓reduceIte, List.filterMap_cons]
              have : offsetViol types p (e, cur) = some (DiagClass.offsetOverflow, p ++ [e.name]) :=
                offsetViol_overflow types p e cur sz hsizeOf (by simp [ho]) (by simpa [ho] using hov)
              simp [this, Diag.viol]
            | some ov =>
              simp only [ho] at h
              by_cases hlt : ov < cur
              · simp only [hlt, ↓reduceIte, fail, Except.error.injEq] at h
                subst h
                refine Or.inr (Or.inr (hoff _ ?_))
                simp only [memberMinima, hc, Bool.false_eq_true, ↓reduceIte, List.filterMap_cons]
                have : offsetViol types p (e, cur) = some (DiagClass.offsetTooSmall, p ++ [e.name]) := by
                  simp [offsetViol, ho, hlt]
                simp [this, Diag.viol]
              · simp only [hlt, ↓reduceIte] at h
                obtain ⟨hov, rfl⟩ := (vAdvance_err _ _ _ _).mp h
                refine Or.inr (Or.inr (hoff _ ?_))
                simp only [memberMinima, hc, Bool.false_eq_true, ↓reduceIte, List.filterMap_cons]
                have : offsetViol types p (e, cur) = some (DiagClass.offsetOverflow, p ++ [e.name]) :=
                  offsetViol_overflow types p e cur sz hsizeOf
                    (by intro x hx; rw [ho] at hx; cases hx; omega) (by simpa [ho] using hov)
                simp [this, Diag.viol]
        · rw [vElementOffset_ok] at hcur'
          refine vElemsWith_err rest vis p cur' T d hT (fun x hx => hch x (by simp [hx])) ?_ h
          intro w hw
          apply hoff
          by_cases hc : Spec.Rules.isConstElem types e = true
          · simp only [hc, ↓reduceIte] at hcur'
            subst hcur'
            simpa [memberMinima, hc] using hw
          · simp only [hc, Bool.false_eq_true, ↓reduceIte] at hcur'
            obtain ⟨_, _, rfl⟩ := hcur'
            simp only [memberMinima, hc, Bool.false_eq_true, ↓reduceIte, hsizeOf, List.filterMap_cons]
            cases offsetViol types p (e, cur) with
            | none => simpa using hw
            | some v => simp only [List.mem_cons]; exact Or.inr hw
end
end ErrSound

theorem vPublic_err (hfp : FpAgree) (types : List Elem) :
    ∀ kf, kf ≤ types.length + 1 → ∀ vis T d, T ∈ types → vPublic types kf vis T = .error d →
      d.cls = .cyclicReference ∨ d.cls = .fuelExhausted ∨ TypesBad types d.viol := by
  intro kf
  induction kf with
  | zero =>
    intro _ vis T d _ h
    simp only [vPublic, fail, Except.error.injEq] at h
    subst h; exact Or.inr (Or.inl rfl)
  | succ kf ih =>
    intro hk vis T d hT h
    simp only [vPublic] at h
    exact vElemWith_err hfp types kf (by omega) (fun vis T d hT h => ih (by omega) vis T d hT h) T vis _ T d hT
      (subElems_self _ _) h


/-! ### a public encoding on a reference cycle never unfolds -/

mutual
  theorem unfoldsWith_refs (types : List Elem) (u : Elem → Bool) :
      ∀ (e : Elem), unfoldsWith types u e = true → ∀ ty ∈ directRefs e, ∀ t, findType types ty = some t → u t = true
    | .type _, _, ty, hm, _, _ => by simp [directRefs] at hm
    | .enum _ _ _ _ _, _, ty, hm, _, _ => by simp [directRefs] at hm
    | .set _ _ _ _ _, _, ty, hm, _, _ => by simp [directRefs] at hm
    | .ref _ r _ _, h, ty, hm, t, hf => by
      simp only [directRefs, List.mem_singleton] at hm
      subst hm
      simpa [unfoldsWith, hf] using h
    | .composite _ _ elems _, h, ty, hm, t, hf => by
      simp only [unfoldsWith] at h
      simp only [directRefs] at hm
      exact unfoldsWithL_refs types u elems h ty hm t hf
  theorem unfoldsWithL_refs (types : List Elem) (u : Elem → Bool) :
      ∀ (elems : List Elem), unfoldsWithL types u elems = true →
        ∀ ty ∈ directRefsL elems, ∀ t, findType types ty = some t → u t = true
    | [], _, ty, hm, _, _ => by simp [directRefsL] at hm
    | e :: rest, h, ty, hm, t, hf => by
      simp only [unfoldsWithL, Bool.and_eq_true] at h
      simp only [directRefsL, List.mem_append] at hm
      rcases hm with hm | hm
      · exact unfoldsWith_refs types u e h.1 ty hm t hf
      · exact unfoldsWithL_refs types u rest h.2 ty hm t hf
end

theorem reach_unfold_depth (types : List Elem) (x : Elem) (ty : String) (h : ReachTy types x ty) :
    ∀ k, unfoldsK types k x = true → ∀ u, findType types ty = some u → ∃ k', k' < k ∧ unfoldsK types k' u = true := by
  induction h with
  | direct hm =>
    intro k hk u hf
    cases k with
    | zero => simp [unfoldsK] at hk
    | succ k =>
      simp only [unfoldsK] at hk
      exact ⟨k, by omega, unfoldsWith_refs types _ x hk _ hm u hf⟩
  | @step a v ty' _ hfa hm ih =>
    intro k hk u hf
    obtain ⟨k', hk', hv⟩ := ih k hk v hfa
    cases k' with
    | zero => simp [unfoldsK] at hv
    | succ k' =>
      simp only [unfoldsK] at hv
      exact ⟨k', by omega, unfoldsWith_refs types _ v hv _ hm u hf⟩

theorem cycle_no_unfold (types : List Elem) (x : Elem) (ty : String) (hr : ReachTy types x ty)
    (hf : findType types ty = some x) : ∀ k, unfoldsK types k x = false := by
  intro k
  induction k using Nat.strongRecOn with
  | _ k ih =>
    cases hk : unfoldsK types k x with
    | false => rfl
    | true =>
      obtain ⟨k', hk', hu⟩ := reach_unfold_depth types x ty hr k hk x hf
      rw [ih k' hk'] at hu
      cases hu

/-! ### where a broken rule sits in `violations` -/

theorem viol_of_attr (s : SchemaDef) (w : Viol) (h : w ∈ attrViols s) : w ∈ violations s := by
  unfold violations; simp only [List.mem_append]; simp [h]
theorem viol_of_dup (s : SchemaDef) (w : Viol) (h : w ∈ dupViols s) : w ∈ violations s := by
  unfold violations; simp only [List.mem_append]; simp [h]
theorem viol_of_name (s : SchemaDef) (w : Viol) (h : w ∈ nameViols s) : w ∈ violations s := by
  unfold violations; simp only [List.mem_append]; simp [h]
theorem viol_of_elem (s : SchemaDef) (w : Viol) (q : Path) (x : Elem) (hm : (q, x) ∈ allElems s)
    (h : w ∈ elemViols s.types q x) : w ∈ violations s := by
  have : w ∈ (allElems s).flatMap (fun (p, e) => elemViols s.types p e) := List.mem_flatMap.mpr ⟨(q, x), hm, h⟩
  unfold violations; simp only [List.mem_append]; simp only [this, true_or, or_true]
theorem viol_of_cycle (s : SchemaDef) (w : Viol) (h : w ∈ cycleViols s) : w ∈ violations s := by
  unfold violations; simp only [List.mem_append]; simp [h]
theorem viol_of_header (s : SchemaDef) (w : Viol)
    (h : w ∈ headerViols s.types ["schema"] s.headerType ["schemaId", "templateId", "version", "blockLength"] false) :
    w ∈ violations s := by
  unfold violations; simp only [List.mem_append]; simp [h]
theorem viol_of_schemaId (s : SchemaDef) (w : Viol)
    (h : w ∈ headerValueViols s.types s.headerType "schemaId" s.id ["schema"]) : w ∈ violations s := by
  unfold violations; simp only [List.mem_append]; simp [h]
theorem viol_of_version (s : SchemaDef) (w : Viol)
    (h : w ∈ headerValueViols s.types s.headerType "version" s.version ["schema"]) : w ∈ violations s := by
  unfold violations; simp only [List.mem_append]; simp [h]
theorem viol_of_templateId (s : SchemaDef) (w : Viol) (m : MessageDef) (hm : m ∈ s.messages)
    (h : w ∈ headerValueViols s.types s.headerType "templateId" m.id (msgPath m)) : w ∈ violations s := by
  have : w ∈ s.messages.flatMap (fun m => headerValueViols s.types s.headerType "templateId" m.id (msgPath m)) :=
    List.mem_flatMap.mpr ⟨m, hm, h⟩
  unfold violations; simp only [List.mem_append]; simp only [this, true_or, or_true]
theorem viol_of_level (s : SchemaDef) (w : Viol) (l : LevelView) (hl : l ∈ allLevels s)
    (h : w ∈ levelViols s.types l) : w ∈ violations s := by
  have : w ∈ (allLevels s).flatMap (levelViols s.types) := List.mem_flatMap.mpr ⟨l, hl, h⟩
  unfold violations; simp only [List.mem_append]; simp only [this, or_true]
theorem viol_of_invalidName (s : SchemaDef) (n : String) (p : Path) (hm : (n, p) ∈ entityNames s)
    (hs : symbolicName n = false) : (DiagClass.invalidName, p) ∈ violations s := by
  apply viol_of_name
  unfold nameViols
  refine List.mem_append.mpr (Or.inl (List.mem_filterMap.mpr ⟨(n, p), hm, ?_⟩))
  simp [hs]

/-! ### `validate_types` -/

theorem typesBad_enforced (s : SchemaDef) (w : Viol) (h : TypesBad s.types w) : w ∈ violations s := by
  obtain ⟨T, hT, q, x, hm, hbad⟩ := h
  have hall : (q, x) ∈ allElems s := by unfold allElems; exact List.mem_flatMap.mpr ⟨T, hT, hm⟩
  rcases hbad with ⟨h1, rfl⟩ | hsub | hel
  · exact viol_of_invalidName s _ _ (entityNames_elem s q x hall) h1
  · cases x with
    | enum nm enc o vs a =>
      obtain ⟨v, hv, h1, rfl⟩ := hsub
      exact viol_of_invalidName s _ _ (entityNames_vv s q nm enc o vs a hall v hv) h1
    | set nm enc o cs a =>
      obtain ⟨c, hc, h1, rfl⟩ := hsub
      exact viol_of_invalidName s _ _ (entityNames_choice s q nm enc o cs a hall c hc) h1
    | type t => exact absurd hsub (by simp)
    | ref nm ty o a => exact absurd hsub (by simp)
    | composite nm o elems a => exact absurd hsub (by simp)
  · exact viol_of_elem s w q x hall hel

/-- every candidate first diagnostic of `validate_types` is a violation the specification lists -/
theorem vRoot_sound (hfp : FpAgree) (s : SchemaDef) (hnd : (lowerNames s.types).Nodup)
    (t : Elem) (ht : t ∈ s.types) (d : Diag) (h : vRoot s.types t = .error d) : d.viol ∈ violations s := by
  rcases vPublic_err hfp s.types _ (Nat.le_refl _) _ t d ht h with hc | hf | hb
  · obtain ⟨x, ty, hx, hloc, hr, hfx⟩ := cyclic_diag_sound s.types hnd t ht d h hc
    have hcyc : (DiagClass.cyclicReference, typePath x) ∈ cycleViols s := by
      unfold cycleViols
      refine List.mem_filterMap.mpr ⟨x, hx, ?_⟩
      have : acyclicBelow s.types x = false := cycle_no_unfold s.types x ty hr hfx _
      simp [this]
    have hd : d.viol = (DiagClass.cyclicReference, typePath x) := by
      simp [Diag.viol, hc, hloc, typePath]
    rw [hd]
    exact viol_of_cycle s _ hcyc
  · exact absurd hf (fuel_never_exhausted s.types t ht d h)
  · exact typesBad_enforced s _ hb

theorem anyOrder_err (errs : List Diag) (d : Diag) (h : anyOrder errs = .error d) :
    (∃ d0 ∈ errs, d.cls = d0.cls ∧ d.loc = d0.loc) ∧ ∀ w ∈ d.alts, ∃ e ∈ errs, w = (e.cls, e.loc) := by
  unfold anyOrder at h
  cases errs with
  | nil => cases h
  | cons d0 rest =>
    simp only [Except.error.injEq] at h
    subst h
    refine ⟨⟨d0, by simp, rfl, rfl⟩, ?_⟩
    intro w hw
    simp only [List.mem_eraseDups, List.mem_map] at hw
    obtain ⟨e, he, rfl⟩ := hw
    exact ⟨e, he, rfl⟩

theorem firstErrors_mem {α} (f : α → R Nat) (l : List α) (d : Diag) (h : d ∈ firstErrors f l) :
    ∃ x ∈ l, f x = .error d := by
  unfold firstErrors at h
  rw [List.mem_filterMap] at h
  obtain ⟨x, hx, hfx⟩ := h
  cases hf : f x with
  | ok n => simp [hf] at hfx
  | error d' =>
    simp only [hf, Option.some.injEq] at hfx
    subst hfx
    exact ⟨x, hx, hf⟩

theorem typesPhase_sound (hfp : FpAgree) (s : SchemaDef)
    (hnd : (lowerNames s.types).Nodup) (d : Diag) (h : typesPhase s = .error d) :
    d.viol ∈ violations s ∧ ∀ w ∈ d.alts, w ∈ violations s := by
  unfold typesPhase at h
  obtain ⟨⟨d0, hd0, hc, hl⟩, halts⟩ := anyOrder_err _ d h
  constructor
  · obtain ⟨t, ht, hr⟩ := firstErrors_mem _ _ d0 hd0
    have := vRoot_sound hfp s hnd t ht d0 hr
    simpa [Diag.viol, hc, hl] using this
  · intro w hw
    obtain ⟨e, he, rfl⟩ := halts w hw
    obtain ⟨t, ht, hr⟩ := firstErrors_mem _ _ e he
    exact vRoot_sound hfp s hnd t ht e hr

/-! ### `validate_messages` -/

theorem levelHeaderElement_err (types : List Elem) (hp : Path) (elems : List Elem) (name : String) (d : Diag)
    (h : levelHeaderElement types hp elems name = .error d) : headerMemberType types hp elems name = .error d.viol := by
  rw [levelHeaderElement_eq] at h
  cases hm : headerMemberType types hp elems name with
  | ok x => simp [hm] at h
  | error v =>
    simp only [hm, fail, Except.error.injEq] at h
    subst h
    rfl

theorem vLevelHeaderElement_err (types : List Elem) (hp : Path) (elems : List Elem) (name : String) (d : Diag)
    (h : vLevelHeaderElement types hp elems name = .error d) : d.viol ∈ headerMemberViols types hp elems name false := by
  unfold vLevelHeaderElement at h
  unfold headerMemberViols
  rcases (bind_err _ _ d).mp h with h | ⟨x, hx, h⟩
  · rw [levelHeaderElement_err types hp elems name d h]; simp
  · obtain ⟨t, ep⟩ := x
    rw [levelHeaderElement_eq] at hx
    cases hm : headerMemberType types hp elems name with
    | error v => simp [hm, fail] at hx
    | ok y =>
      simp only [hm, Except.ok.injEq] at hx
      subst hx
      simp only [Bool.false_eq_true, ↓reduceIte]
      rw [need_bind_err] at h
      rcases h with ⟨h1, rfl⟩ | ⟨h1, h⟩
      · simp only [beq_eq_false_iff_ne, ne_eq] at h1
        simp [h1, Diag.viol]
      · simp only [beq_iff_eq] at h1
        rw [need_bind_err] at h
        rcases h with ⟨h2, rfl⟩ | ⟨h2, h⟩
        · simp only [bne_eq_false_iff_eq] at h2
          simp [h1, h2, Diag.viol]
        · rw [need_err, isIntegral_eq] at h
          obtain ⟨h3, rfl⟩ := h
          have h2' : (t.presence == Presence.constant) = false := by
            cases hpc : t.presence == Presence.constant
            · rfl
            · simp [bne, hpc] at h2
          simp [h1, h2', h3, Diag.viol]

theorem vLevelHeader_err (types : List Elem) (user : Path) (hdr : String) (required : List String) (d : Diag)
    (h : vLevelHeader types user hdr required = .error d) : d.viol ∈ headerViols types user hdr required false := by
  unfold vLevelHeader at h
  unfold headerViols
  rw [lookup_eq] at h
  cases hf : findType types hdr with
  | none =>
    simp only [hf, fail, Except.error.injEq] at h
    subst h; simp [Diag.viol]
  | some e =>
    cases e with
    | composite n o elems a =>
      simp only [hf] at h ⊢
      simp only [Bool.false_eq_true, ↓reduceIte, List.mem_append, List.mem_flatMap]
      rcases (bind_err _ _ d).mp h with h | ⟨_, _, h⟩
      · obtain ⟨r, hr, hrd⟩ := allOk_err _ _ d h
        exact Or.inl ⟨r, hr, vLevelHeaderElement_err types _ elems r d hrd⟩
      · obtain ⟨r, hr, hrd⟩ := allOk_err _ _ d h
        refine Or.inr ⟨r, by simpa [optionalCounters] using hr, ?_⟩
        split at hrd
        · rename_i hpres
          simp only [hpres, ↓reduceIte]
          exact vLevelHeaderElement_err types _ elems r d hrd
        · cases hrd
    | _ =>
      simp only [hf, fail, Except.error.injEq] at h
      subst h; simp [Diag.viol, typePath, Elem.name]

theorem headerMember_good (types : List Elem) (hp : Path) (elems : List Elem) (name : String)
    (h : headerMemberViols types hp elems name false = []) :
    ∃ t ep, headerMemberType types hp elems name = .ok (t, ep) ∧ t.length = 1 ∧
      (t.presence == Presence.constant) = false := by
  unfold headerMemberViols at h
  cases hm : headerMemberType types hp elems name with
  | error v => simp [hm] at h
  | ok x =>
    obtain ⟨t, ep⟩ := x
    simp only [hm, Bool.false_eq_true, ↓reduceIte] at h
    have hl1 : t.length = 1 := by
      by_cases h1 : t.length = 1
      · exact h1
      · simp [h1] at h
    refine ⟨t, ep, rfl, hl1, ?_⟩
    cases hx : (t.presence == Presence.constant) with
    | false => rfl
    | true => simp [hl1, hx] at h

theorem vDataHeader_err (types : List Elem) (hsz : SizesAgree types) (user : Path) (hdr : String) (d : Diag)
    (h : vDataHeader types user hdr = .error d) : d.viol ∈ headerViols types user hdr ["length"] true := by
  unfold vDataHeader at h
  unfold headerViols
  rw [lookup_eq] at h
  cases hf : findType types hdr with
  | none =>
    simp only [hf, fail, Except.error.injEq] at h
    subst h; simp [Diag.viol]
  | some e =>
    cases e with
    | composite n o elems a =>
      have hc := findType_mem types hdr _ hf
      simp only [hf] at h ⊢
      simp only [List.flatMap_cons, List.flatMap_nil, List.append_nil, ↓reduceIte, List.mem_append]
      rcases (bind_err _ _ d).mp h with h | ⟨_, hlenok, h⟩
      · exact Or.inl (vLevelHeaderElement_err types _ elems "length" d h)
      · right
        rcases (bind_err _ _ d).mp h with h | ⟨x, hx, h⟩
        · left
          unfold headerMemberViols
          rw [levelHeaderElement_err types _ elems "varData" d h]; simp
        · obtain ⟨t, ep⟩ := x
          rw [levelHeaderElement_eq] at hx
          cases hm : headerMemberType types ["types", n] elems "varData" with
          | error v => simp [hm, fail] at hx
          | ok y =>
            simp only [hm, Except.ok.injEq] at hx
            subst hx
            rw [need_bind_err] at h
            rcases h with ⟨h1, rfl⟩ | ⟨_, h⟩
            · left
              unfold headerMemberViols
              simp only [beq_eq_false_iff_ne, ne_eq] at h1
              simp [hm, h1, Diag.viol]
            · -- `validate_data_header_layout`
              right
              obtain ⟨lt, lp, hml, hl1, hnc⟩ :=
                headerMember_good types _ elems "length" ((vLevelHeaderElement_ok types _ elems "length" _).mp hlenok)
              rw [levelHeaderElement_eq, hml] at h
              simp only [bind, Except.bind, need_err] at h
              obtain ⟨hcond, rfl⟩ := h
              have key := dataLayout_iff types hsz n o elems a hc lt lp hml hl1 hnc
              have hne : dataLayoutViols types ["types", n] elems ≠ [] := by
                intro hnil
                obtain ⟨k1, k2⟩ := key.mpr hnil
                simp [k1, k2] at hcond
              unfold dataLayoutViols at hne ⊢
              rw [hml] at hne ⊢
              cases hcs : compositeSize types elems with
              | none => simp [hcs] at hne
              | some sz =>
                simp only [hcs] at hne ⊢
                by_cases heq : (some sz == primBytes lt.prim) = true
                · simp [heq] at hne
                · simp [heq, Diag.viol]
    | _ =>
      simp only [hf, fail, Except.error.injEq] at h
      subst h; simp [Diag.viol, typePath, Elem.name]

theorem fieldInfo_err (types : List Elem) (hnr : NoTopLevelRef types) (p : Path) (f : FieldDef) (d : Diag)
    (h : fieldInfo types p f = .error d) :
    (!isPrim f.type && (findType types f.type).isNone) = true ∧ d.viol = (.unknownFieldType, p) := by
  unfold fieldInfo at h
  rw [isPrimitive_eq] at h
  by_cases hp : isPrim f.type = true
  · simp [hp] at h
  · simp only [hp, Bool.not_false, ↓reduceIte, lookup_eq] at h
    cases hf : findType types f.type with
    | none =>
      simp only [hf, fail, Except.error.injEq] at h
      subst h
      simp [hp, Diag.viol]
    | some enc =>
      exfalso
      simp only [hf] at h
      unfold actualPresence at h
      rw [isPrimitive_eq] at h
      simp only [hp, Bool.false_eq_true, ↓reduceIte, lookup_eq, hf] at h
      cases enc with
      | ref n ty o a => exact hnr n ty o a (findType_mem types _ _ hf)
      | _ => simp at h

theorem vConstantField_err (hfp : FpAgree) (types : List Elem) (p : Path) (f : FieldDef)
    (d : Diag) (h : vConstantField types p f = .error d) : d.viol ∈ constFieldViols types p f := by
  unfold vConstantField at h
  unfold constFieldViols
  rw [isPrimitive_eq] at h
  by_cases hp : isPrim f.type = true
  · simp only [hp, ↓reduceIte] at h ⊢
    cases hv : f.valueRef with
    | none =>
      simp only [hv, fail, Except.error.injEq] at h
      subst h; simp [Diag.viol]
    | some r =>
      simp only [hv] at h ⊢
      rw [findValueRef_eq] at h
      unfold valueRefViols
      cases hr : resolveValueRef types r with
      | error c =>
        simp only [hr, fail, bind, Except.bind, Except.error.injEq] at h
        subst h; simp [Diag.viol]
      | ok x =>
        obtain ⟨n, enc, v⟩ := x
        simp only [hr, bind, Except.bind, need_err] at h
        obtain ⟨h2, rfl⟩ := h
        rw [valueRefFits_eq hfp types r n enc f.type v hr hp] at h2
        simp [h2, Diag.viol]
  · simp only [hp, Bool.false_eq_true, ↓reduceIte, lookup_eq] at h ⊢
    cases hf : findType types f.type with
    | none => simp [hf] at h
    | some enc =>
      cases enc with
      | composite n o els a =>
        simp only [hf, fail, Except.error.injEq] at h
        subst h; simp [Diag.viol]
      | enum n e o vs a =>
        simp only [hf] at h ⊢
        cases hv : f.valueRef with
        | none =>
          simp only [hv, fail, Except.error.injEq] at h
          subst h; simp [Diag.viol]
        | some r =>
          simp only [hv] at h ⊢
          rw [findValueRef_eq] at h
          cases hr : resolveValueRef types r with
          | error c =>
            simp only [hr, fail, bind, Except.bind, Except.error.injEq] at h
            subst h; simp [Diag.viol]
          | ok x =>
            obtain ⟨n', enc', v⟩ := x
            simp only [hr, bind, Except.bind, need_err] at h
            obtain ⟨h2, rfl⟩ := h
            simp [h2, Diag.viol]
      | type t => simp [hf] at h
      | set n e o cs a => simp [hf] at h
      | ref n ty o a => simp [hf] at h

/-- `w` is a rule of the level `l` that `l` breaks -/
def LevelBad (types : List Elem) (l : LevelView) (w : Viol) : Prop :=
  (∃ f ∈ l.fields, symbolicName f.name = false ∧ w = (.invalidName, l.path ++ [f.name])) ∨
  (∃ g ∈ l.groups, symbolicName (gName g) = false ∧ w = (.invalidName, l.path ++ [gName g])) ∨
  (∃ d ∈ l.datas, symbolicName d.name = false ∧ w = (.invalidName, l.path ++ [d.name])) ∨
  w ∈ levelViols types l

theorem vFields_err (hfp : FpAgree) (types : List Elem) (hnr : NoTopLevelRef types)
    (hsz : SizesAgree types) (lp : Path) :
    ∀ (fields : List FieldDef) (cur : Nat) (d : Diag), vFields types lp cur fields = .error d →
      (∃ f ∈ fields, symbolicName f.name = false ∧ d.viol = (.invalidName, lp ++ [f.name])) ∨
      (∃ f ∈ fields, d.viol ∈ fieldViols types lp f) ∨
      d.viol ∈ (fieldMinima types cur fields).filterMap (fieldOffsetViol types lp) := by
  intro fields
  induction fields with
  | nil => intro cur d h; simp [vFields] at h
  | cons f rest ih =>
    intro cur d h
    simp only [vFields] at h
    rw [vName_bind_err] at h
    rcases h with ⟨h1, rfl⟩ | ⟨_, h⟩
    · exact Or.inl ⟨f, by simp, h1, rfl⟩
    · rcases (bind_err _ _ d).mp h with h | ⟨info, hinfo, h⟩
      · obtain ⟨g1, g2⟩ := fieldInfo_err types hnr _ f d h
        exact Or.inr (Or.inl ⟨f, by simp, by simp [fieldViols, g1, g2]⟩)
      · obtain ⟨sz, pr⟩ := info
        obtain ⟨g1, g2, g3⟩ := fieldInfo_ok types hsz _ f sz pr hinfo
        subst g2
        simp only at h
        by_cases hc : (fieldPresence types f == Presence.constant) = true
        · simp only [hc, ↓reduceIte] at h
          rcases (bind_err _ _ d).mp h with h | ⟨_, _, h⟩
          · exact Or.inr (Or.inl ⟨f, by simp, by
              simp only [fieldViols, g1, Bool.false_eq_true, ↓reduceIte, hc]
              exact vConstantField_err hfp types _ f d h⟩)
          · rcases ih cur d h with ⟨f', hf', hh⟩ | ⟨f', hf', hh⟩ | hh
            · exact Or.inl ⟨f', by simp [hf'], hh⟩
            · exact Or.inr (Or.inl ⟨f', by simp [hf'], hh⟩)
            · exact Or.inr (Or.inr (by simpa [fieldMinima, hc] using hh))
        · simp only [hc, Bool.false_eq_true, ↓reduceIte] at h
          have tailcase : ∀ cur', cur' = f.offset.getD cur + sz → vFields types lp cur' rest = .error d →
              ((∃ f' ∈ f :: rest, symbolicName f'.name = false ∧ d.viol = (DiagClass.invalidName, lp ++ [f'.name])) ∨
              (∃ f' ∈ f :: rest, d.viol ∈ fieldViols types lp f') ∨
              d.viol ∈ (fieldMinima types cur (f :: rest)).filterMap (fieldOffsetViol types lp)) := by
            intro cur' hcur' h'
            rcases ih cur' d h' with ⟨f', hf', hh⟩ | ⟨f', hf', hh⟩ | hh
            · exact Or.inl ⟨f', by simp [hf'], hh⟩
            · exact Or.inr (Or.inl ⟨f', by simp [hf'], hh⟩)
            · refine Or.inr (Or.inr ?_)
              simp only [fieldMinima, hc, Bool.false_eq_true, ↓reduceIte, g3, List.filterMap_cons]
              subst hcur'
              cases fieldOffsetViol types lp (f, cur) with
              | none => simpa using hh
              | some v => simp only [List.mem_cons]; exact Or.inr hh
          have overflowcase : (∀ x, f.offset = some x → cur ≤ x) →
              vAdvance (lp ++ [f.name]) (f.offset.getD cur) sz = .error d →
              d.viol ∈ (fieldMinima types cur (f :: rest)).filterMap (fieldOffsetViol types lp) := by
            intro hmin h'
            obtain ⟨hov, rfl⟩ := (vAdvance_err _ _ _ _).mp h'
            simp only [fieldMinima, hc, Bool.false_eq_true, ↓reduceIte, List.filterMap_cons]
            have := fieldOffsetViol_overflow types lp f cur sz g3 hmin hov
            simp [this, Diag.viol]
          cases ho : f.offset with
          | none =>
            simp only [ho] at h
            rcases (bind_err _ _ d).mp h with h | ⟨next, hnext, h⟩
            · exact Or.inr (Or.inr (overflowcase (by simp [ho]) (by simpa [ho] using h)))
            · obtain ⟨_, rfl⟩ := (vAdvance_ok _ _ _ _).mp hnext
              exact tailcase _ (by simp [ho]) h
          | some o =>
            simp only [ho] at h
            by_cases hlt : o < cur
            · simp only [hlt, ↓reduceIte, fail, Except.error.injEq] at h
              subst h
              refine Or.inr (Or.inr ?_)
              simp only [fieldMinima, hc, Bool.false_eq_true, ↓reduceIte, List.filterMap_cons]
              have : fieldOffsetViol types lp (f, cur) = some (DiagClass.offsetTooSmall, lp ++ [f.name]) := by
                simp [fieldOffsetViol, ho, hlt]
              simp [this, Diag.viol]
            · simp only [hlt, ↓reduceIte] at h
              rcases (bind_err _ _ d).mp h with h | ⟨next, hnext, h⟩
              · exact Or.inr (Or.inr (overflowcase (by intro x hx; rw [ho] at hx; cases hx; omega)
                  (by simpa [ho] using h)))
              · obtain ⟨_, rfl⟩ := (vAdvance_ok _ _ _ _).mp hnext
                exact tailcase _ (by simp [ho]) h


theorem vDatas_err (types : List Elem) (hsz : SizesAgree types) (lp : Path) :
    ∀ (datas : List DataDef) (d : Diag), vDatas types lp datas = .error d →
      ∃ x ∈ datas, (symbolicName x.name = false ∧ d.viol = (.invalidName, lp ++ [x.name])) ∨
        d.viol ∈ headerViols types (lp ++ [x.name]) x.type ["length"] true := by
  intro datas
  induction datas with
  | nil => intro d h; simp [vDatas] at h
  | cons x rest ih =>
    intro d h
    simp only [vDatas] at h
    rw [vName_bind_err] at h
    rcases h with ⟨h1, rfl⟩ | ⟨_, h⟩
    · exact ⟨x, by simp, Or.inl ⟨h1, rfl⟩⟩
    · rcases (bind_err _ _ d).mp h with h | ⟨_, _, h⟩
      · exact ⟨x, by simp, Or.inr (vDataHeader_err types hsz _ _ d h)⟩
      · obtain ⟨y, hy, hh⟩ := ih d h
        exact ⟨y, by simp [hy], hh⟩

theorem vHeaderValue_err (hfp : FpAgree) (types : List Elem) (hdr name : String) (value : Nat) (loc : Path)
    (hres : HdrResolves types hdr name) (d : Diag) (h : vHeaderValue types hdr name value loc = .error d) :
    d.viol ∈ headerValueViols types hdr name value loc := by
  unfold vHeaderValue at h
  unfold headerValueViols
  rw [lookup_eq] at h
  cases hf : findType types hdr with
  | none => simp [hf] at h
  | some e =>
    cases e with
    | composite n o elems a =>
      simp only [hf] at h ⊢
      by_cases hpres : (elems.find? (fun e => e.name == name)).isNone = true
      · simp [hpres] at h
      · simp only [hpres, Bool.false_eq_true, ↓reduceIte] at h
        obtain ⟨t, ep, hm⟩ := hres n o elems a hf (by
          cases hx : elems.find? (fun e => e.name == name) with
          | none => simp [hx] at hpres
          | some _ => rfl)
        rw [levelHeaderElement_eq, hm] at h
        simp only [hm]
        change need _ _ _ = _ at h
        rw [need_err, valueFits_all hfp] at h
        obtain ⟨h1, rfl⟩ := h
        simp only at h1
        simp only [h1, Bool.false_eq_true, ↓reduceIte, List.mem_singleton]
        rfl
    | _ => simp [hf] at h

theorem vLevelValues_err (hfp : FpAgree) (types : List Elem) (hdr : String) (hv : HdrValid types hdr) (p : Path)
    (bl : Option Nat) (fields : List FieldDef) (off ng nd : Nat) (hend : fieldsEnd types 0 fields = some off) (d : Diag)
    (h : vLevelValues types hdr p bl off ng nd = .error d) : d.viol ∈ levelValueViols types hdr p bl fields ng nd := by
  obtain ⟨r1, r2, r3⟩ := hv
  unfold vLevelValues Schema.blockLength at h
  unfold levelValueViols blockLengthViols
  rw [hend]
  simp only [List.mem_append]
  have key : ∀ b, bl.getD off = b →
      (do vHeaderValue types hdr "blockLength" b p
          vHeaderValue types hdr "numGroups" ng p
          vHeaderValue types hdr "numVarDataFields" nd p) = Except.error d →
      (d.viol ∈ headerValueViols types hdr "blockLength" (bl.getD off) p ∨
        d.viol ∈ headerValueViols types hdr "numGroups" ng p) ∨
        d.viol ∈ headerValueViols types hdr "numVarDataFields" nd p := by
    intro b hb h
    subst hb
    rcases (bind_err _ _ d).mp h with h | ⟨_, _, h⟩
    · exact Or.inl (Or.inl (vHeaderValue_err hfp types hdr _ _ _ r1 d h))
    · rcases (bind_err _ _ d).mp h with h | ⟨_, _, h⟩
      · exact Or.inl (Or.inr (vHeaderValue_err hfp types hdr _ _ _ r2 d h))
      · exact Or.inr (vHeaderValue_err hfp types hdr _ _ _ r3 d h)
  cases bl with
  | none =>
    rcases key off rfl h with (hh | hh) | hh
    · exact Or.inl (Or.inl (Or.inr hh))
    · exact Or.inl (Or.inr hh)
    · exact Or.inr hh
  | some b =>
    simp only at h ⊢
    by_cases hlt : b < off
    · simp only [hlt, ↓reduceIte, fail, Except.error.injEq] at h
      subst h
      simp [hlt, Diag.viol]
    · simp only [hlt, ↓reduceIte] at h
      rcases key b rfl h with (hh | hh) | hh
      · exact Or.inl (Or.inl (Or.inr hh))
      · exact Or.inl (Or.inr hh)
      · exact Or.inr hh

/-! where a broken rule sits in `levelViols` -/

theorem lv_field (types : List Elem) (l : LevelView) (w : Viol) (f : FieldDef) (hf : f ∈ l.fields)
    (h : w ∈ fieldViols types l.path f) : w ∈ levelViols types l := by
  have : w ∈ l.fields.flatMap (fieldViols types l.path) := List.mem_flatMap.mpr ⟨f, hf, h⟩
  unfold levelViols; simp only [List.mem_append]; simp only [this, true_or]
theorem lv_offset (types : List Elem) (l : LevelView) (w : Viol)
    (h : w ∈ (fieldMinima types 0 l.fields).filterMap (fieldOffsetViol types l.path)) : w ∈ levelViols types l := by
  unfold levelViols; simp only [List.mem_append]; simp only [h, true_or, or_true]
theorem lv_value (types : List Elem) (l : LevelView) (w : Viol)
    (h : w ∈ levelValueViols types l.hdr l.path l.blockLength l.fields l.groups.length l.datas.length) :
    w ∈ levelViols types l := by
  unfold levelValueViols at h
  unfold levelViols
  simp only [List.mem_append] at h ⊢
  rcases h with ((h | h) | h) | h
  · exact Or.inl (Or.inl (Or.inl (Or.inl (Or.inl (Or.inr h)))))
  · exact Or.inl (Or.inl (Or.inl (Or.inl (Or.inr h))))
  · exact Or.inl (Or.inl (Or.inl (Or.inr h)))
  · exact Or.inl (Or.inl (Or.inr h))
theorem lv_group (types : List Elem) (l : LevelView) (w : Viol) (g : GroupDef) (hg : g ∈ l.groups)
    (h : w ∈ headerViols types (l.path ++ [gName g]) (gDim g) ["numInGroup", "blockLength"] false) :
    w ∈ levelViols types l := by
  unfold levelViols
  simp only [List.mem_append, List.mem_flatMap]
  exact Or.inl (Or.inr ⟨g, hg, h⟩)
theorem lv_data (types : List Elem) (l : LevelView) (w : Viol) (x : DataDef) (hx : x ∈ l.datas)
    (h : w ∈ headerViols types (l.path ++ [x.name]) x.type ["length"] true) : w ∈ levelViols types l := by
  unfold levelViols
  simp only [List.mem_append, List.mem_flatMap]
  exact Or.inr ⟨x, hx, h⟩

/-- the part of `validate_members` that concerns one level (not its sub-groups' bodies) -/
theorem level_err (hfp : FpAgree) (types : List Elem) (hnr : NoTopLevelRef types)
    (hsz : SizesAgree types) (hdr : String) (hv : HdrValid types hdr) (lp : Path) (bl : Option Nat)
    (fields : List FieldDef) (groups : List GroupDef) (datas : List DataDef) (d : Diag) :
    (vFields types lp 0 fields = .error d → LevelBad types ⟨lp, bl, fields, groups, datas, hdr⟩ d.viol) ∧
    (∀ off, vFields types lp 0 fields = .ok off →
      vLevelValues types hdr lp bl off groups.length datas.length = .error d →
        LevelBad types ⟨lp, bl, fields, groups, datas, hdr⟩ d.viol) ∧
    (vDatas types lp datas = .error d → LevelBad types ⟨lp, bl, fields, groups, datas, hdr⟩ d.viol) := by
  refine ⟨?_, ?_, ?_⟩
  · intro h
    rcases vFields_err hfp types hnr hsz lp fields 0 d h with ⟨f, hf, hh⟩ | ⟨f, hf, hh⟩ | hh
    · exact Or.inl ⟨f, hf, hh⟩
    · exact Or.inr (Or.inr (Or.inr (lv_field types ⟨lp, bl, fields, groups, datas, hdr⟩ _ f hf hh)))
    · exact Or.inr (Or.inr (Or.inr (lv_offset types ⟨lp, bl, fields, groups, datas, hdr⟩ _ hh)))
  · intro off hoff h
    have hend := (vFields_ok hfp types hsz lp fields 0 off hoff).2.2
    exact Or.inr (Or.inr (Or.inr (lv_value types ⟨lp, bl, fields, groups, datas, hdr⟩ _
      (vLevelValues_err hfp types hdr hv lp bl fields off _ _ hend d h))))
  · intro h
    obtain ⟨x, hx, hh⟩ := vDatas_err types hsz lp datas d h
    rcases hh with hh | hh
    · exact Or.inr (Or.inr (Or.inl ⟨x, hx, hh⟩))
    · exact Or.inr (Or.inr (Or.inr (lv_data types ⟨lp, bl, fields, groups, datas, hdr⟩ _ x hx hh)))

section LevelsSound
variable (hfp : FpAgree) (types : List Elem) (hnr : NoTopLevelRef types)
  (hsz : SizesAgree types)
include hfp hnr hsz

mutual
  /-- an error inside a group: a rule of the group's own level or of a level below; the group's
      name and header are rules of the enclosing level `parent` -/
  theorem vGroup_err : ∀ (g : GroupDef) (lp : Path) (d : Diag), vGroup types lp g = .error d →
      (symbolicName (gName g) = false ∧ d.viol = (.invalidName, lp ++ [gName g])) ∨
      d.viol ∈ headerViols types (lp ++ [gName g]) (gDim g) ["numInGroup", "blockLength"] false ∨
      ∃ l ∈ groupLevels lp g, LevelBad types l d.viol
    | .mk n id dim bl fields groups datas a, lp, d, h => by
      simp only [vGroup] at h
      rw [vName_bind_err] at h
      rcases h with ⟨h1, rfl⟩ | ⟨_, h⟩
      · exact Or.inl ⟨h1, rfl⟩
      · rcases (bind_err _ _ d).mp h with h | ⟨_, hhdr, h⟩
        · exact Or.inr (Or.inl (vLevelHeader_err types _ dim _ d h))
        · refine Or.inr (Or.inr ?_)
          have hv := hdrValid_of_valid types _ dim _ (by simp) ((vLevelHeader_ok types _ dim _ _).mp hhdr)
          obtain ⟨e1, e2, e3⟩ := level_err hfp types hnr hsz dim hv (lp ++ [n]) bl fields groups datas d
          have hself : (⟨lp ++ [n], bl, fields, groups, datas, dim⟩ : LevelView) ∈
              groupLevels lp (.mk n id dim bl fields groups datas a) := by simp [groupLevels]
          rcases (bind_err _ _ d).mp h with h | ⟨off, hoff, h⟩
          · exact ⟨_, hself, e1 h⟩
          · rcases (bind_err _ _ d).mp h with h | ⟨_, _, h⟩
            · exact ⟨_, hself, e2 off hoff h⟩
            · rcases (bind_err _ _ d).mp h with h | ⟨_, _, h⟩
              · rcases vGroups_err groups (lp ++ [n]) d h with ⟨g', hg', hh⟩ | ⟨l, hl, hh⟩
                · refine ⟨_, hself, ?_⟩
                  rcases hh with hh | hh
                  · exact Or.inr (Or.inl ⟨g', hg', hh⟩)
                  · exact Or.inr (Or.inr (Or.inr (lv_group types ⟨lp ++ [n], bl, fields, groups, datas, dim⟩ _ g' hg' hh)))
                · exact ⟨l, by simp [groupLevels, hl], hh⟩
              · exact ⟨_, hself, e3 h⟩
  theorem vGroups_err : ∀ (gs : List GroupDef) (lp : Path) (d : Diag), vGroups types lp gs = .error d →
      (∃ g ∈ gs, (symbolicName (gName g) = false ∧ d.viol = (.invalidName, lp ++ [gName g])) ∨
        d.viol ∈ headerViols types (lp ++ [gName g]) (gDim g) ["numInGroup", "blockLength"] false) ∨
      ∃ l ∈ groupLevelsL lp gs, LevelBad types l d.viol
    | [], lp, d, h => by simp [vGroups] at h
    | g :: rest, lp, d, h => by
      simp only [vGroups] at h
      rcases (bind_err _ _ d).mp h with h | ⟨_, _, h⟩
      · rcases vGroup_err g lp d h with hh | hh | ⟨l, hl, hh⟩
        · exact Or.inl ⟨g, by simp, Or.inl hh⟩
        · exact Or.inl ⟨g, by simp, Or.inr hh⟩
        · exact Or.inr ⟨l, by simp [groupLevelsL, hl], hh⟩
      · rcases vGroups_err rest lp d h with ⟨g', hg', hh⟩ | ⟨l, hl, hh⟩
        · exact Or.inl ⟨g', by simp [hg'], hh⟩
        · exact Or.inr ⟨l, by simp [groupLevelsL, hl], hh⟩
end

theorem vMessage_err (hdr : String) (hv : HdrValid types hdr) (ht : HdrResolves types hdr "templateId")
    (m : MessageDef) (d : Diag) (h : vMessage types hdr m = .error d) :
    (symbolicName m.name = false ∧ d.viol = (.invalidName, msgPath m)) ∨
    d.viol ∈ headerValueViols types hdr "templateId" m.id (msgPath m) ∨
    ∃ l ∈ messageLevels hdr m, LevelBad types l d.viol := by
  simp only [vMessage] at h
  rw [vName_bind_err] at h
  rcases h with ⟨h1, rfl⟩ | ⟨_, h⟩
  · exact Or.inl ⟨h1, rfl⟩
  · right
    rcases (bind_err _ _ d).mp h with h | ⟨_, _, h⟩
    · exact Or.inl (vHeaderValue_err hfp types hdr _ _ _ ht d h)
    · right
      obtain ⟨e1, e2, e3⟩ := level_err hfp types hnr hsz hdr hv (msgPath m) m.blockLength m.fields m.groups m.datas d
      have hself : (⟨msgPath m, m.blockLength, m.fields, m.groups, m.datas, hdr⟩ : LevelView) ∈ messageLevels hdr m := by
        simp [messageLevels]
      rcases (bind_err _ _ d).mp h with h | ⟨off, hoff, h⟩
      · exact ⟨_, hself, e1 h⟩
      · rcases (bind_err _ _ d).mp h with h | ⟨_, _, h⟩
        · exact ⟨_, hself, e2 off hoff h⟩
        · rcases (bind_err _ _ d).mp h with h | ⟨_, _, h⟩
          · rcases vGroups_err hfp types hnr hsz m.groups (msgPath m) d h with ⟨g', hg', hh⟩ | ⟨l, hl, hh⟩
            · refine ⟨_, hself, ?_⟩
              rcases hh with hh | hh
              · exact Or.inr (Or.inl ⟨g', hg', hh⟩)
              · exact Or.inr (Or.inr (Or.inr (lv_group types
                  ⟨msgPath m, m.blockLength, m.fields, m.groups, m.datas, hdr⟩ _ g' hg' hh)))
            · exact ⟨l, by simp [messageLevels, hl], hh⟩
          · exact ⟨_, hself, e3 h⟩

end LevelsSound

theorem levelBad_enforced (s : SchemaDef) (l : LevelView) (hl : l ∈ allLevels s) (w : Viol)
    (h : LevelBad s.types l w) : w ∈ violations s := by
  have hname := viol_of_invalidName s
  rcases h with ⟨f, hf, h1, rfl⟩ | ⟨g, hg, h1, rfl⟩ | ⟨d, hd, h1, rfl⟩ | h
  · exact hname _ _ (entityNames_field s l hl f hf) h1
  · exact hname _ _ (entityNames_group s l hl g hg) h1
  · exact hname _ _ (entityNames_data s l hl d hd) h1
  · exact viol_of_level s w l hl h

theorem messagesPhase_sound (hfp : FpAgree) (s : SchemaDef)
    (hnr : NoTopLevelRef s.types) (hsz : SizesAgree s.types) (d : Diag) (h : messagesPhase s = .error d) :
    d.viol ∈ violations s := by
  simp only [messagesPhase] at h
  rcases (bind_err _ _ d).mp h with h | ⟨_, hhdr, h⟩
  · exact viol_of_header s _ (vLevelHeader_err s.types _ _ _ d h)
  · have h1 := (vLevelHeader_ok s.types _ s.headerType _ _).mp hhdr
    have hr := fun name hn => hdrResolves_of_valid s.types ["schema"] s.headerType _ h1 name (Or.inl hn)
    have hv := hdrValid_of_valid s.types _ s.headerType _ (by simp) h1
    rcases (bind_err _ _ d).mp h with h | ⟨_, _, h⟩
    · exact viol_of_schemaId s _ (vHeaderValue_err hfp s.types _ _ _ _ (hr _ (by simp)) d h)
    · rcases (bind_err _ _ d).mp h with h | ⟨_, _, h⟩
      · exact viol_of_version s _ (vHeaderValue_err hfp s.types _ _ _ _ (hr _ (by simp)) d h)
      · obtain ⟨m, hm, hmd⟩ := allOk_err _ _ d h
        rcases vMessage_err hfp s.types hnr hsz s.headerType hv (hr _ (by simp)) m d hmd with
          ⟨h1, hv⟩ | htid | ⟨l, hl, hb⟩
        · rw [hv]
          exact viol_of_invalidName s _ _ (entityNames_msg s m hm) h1
        · exact viol_of_templateId s _ m hm htid
        · exact levelBad_enforced s l (by unfold allLevels; exact List.mem_flatMap.mpr ⟨m, hm, hl⟩) _ hb


end Sbepp.Schema.Rules
