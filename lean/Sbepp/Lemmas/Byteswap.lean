/-
  Symbolic evaluation of the extracted `byteswap` kernels (portable branch and
  the `__builtin_bswap32`-based 16-bit variant) and the arithmetic behind
  "mask, shift, or = byte reversal".
-/
import Sbepp.Extracted.Kernels
import Sbepp.Lemmas.Bits
import Sbepp.Base.Bytes

namespace Sbepp
open CVal

/-- the specification: reverse the `w` bytes of the object representation -/
def bswapSpec (w v : Nat) : Nat := getLE (putBE w v)

/-! ### operations on concrete unsigned types of rank ≥ int -/

def WideU (t : CTy) : Prop := t = .u32 ∨ t = .u64

theorem wideU_facts (t : CTy) (h : WideU t) :
    t.isPtr = false ∧ t.signed = false ∧ t.promote = t ∧ t ≠ .bool ∧ 32 ≤ t.bits ∧ t.bits ≤ 64
    ∧ CTy.common t t = t := by
  rcases h with h | h <;> subst h <;> decide

theorem promote_wideU (t : CTy) (h : WideU t) (a : Nat) (ha : a < 2 ^ t.bits) :
    promote ⟨t, a⟩ = ⟨t, a⟩ := by
  obtain ⟨_, _, hp, hb, _, _, _⟩ := wideU_facts t h
  rw [promote_mk, hp]; exact conv_self t a hb ha

theorem promote_i32_small (k : Nat) (hk : k < 2 ^ 31) : promote ⟨.i32, k⟩ = ⟨.i32, k⟩ := by
  rw [promote_mk]; exact conv_self .i32 k (by decide) (by simp [CTy.bits]; omega)

theorem band_wideU (t : CTy) (h : WideU t) (a m : Nat) (ha : a < 2 ^ t.bits) (hm : m < 2 ^ t.bits) :
    CVal.binop .band ⟨t, a⟩ ⟨t, m⟩ = some ⟨t, a &&& m⟩ := by
  obtain ⟨hptr, _, _, hb, _, _, hc⟩ := wideU_facts t h
  simp only [binop, hptr, Bool.or_self, Bool.false_eq_true, if_false, intBinop,
    promote_wideU t h a ha, promote_wideU t h m hm, hc, arithOp, conv_self t _ hb ha, conv_self t _ hb hm]
  simp

theorem bor_wideU (t : CTy) (h : WideU t) (a m : Nat) (ha : a < 2 ^ t.bits) (hm : m < 2 ^ t.bits) :
    CVal.binop .bor ⟨t, a⟩ ⟨t, m⟩ = some ⟨t, a ||| m⟩ := by
  obtain ⟨hptr, _, _, hb, _, _, hc⟩ := wideU_facts t h
  simp only [binop, hptr, Bool.or_self, Bool.false_eq_true, if_false, intBinop,
    promote_wideU t h a ha, promote_wideU t h m hm, hc, arithOp, conv_self t _ hb ha, conv_self t _ hb hm]
  simp

theorem shl_wideU (t : CTy) (h : WideU t) (a k : Nat) (ha : a < 2 ^ t.bits) (hk : k < t.bits) :
    CVal.binop .shl ⟨t, a⟩ ⟨.i32, k⟩ = some ⟨t, (a * 2 ^ k) % 2 ^ t.bits⟩ := by
  obtain ⟨hptr, hs, _, _, h32, h64, _⟩ := wideU_facts t h
  have hk' : toInt ⟨.i32, k⟩ = (k : Int) := toInt_mk_small _ _ (by simp [CTy.bits]; omega)
  simp only [binop, hptr, show CTy.isPtr .i32 = false from rfl, Bool.or_self, Bool.false_eq_true, if_false,
    intBinop, if_true, promote_wideU t h a ha, promote_i32_small k (by omega), shlOp, hk', hs]
  rw [if_neg (by omega)]
  simp

theorem shr_wideU (t : CTy) (h : WideU t) (a k : Nat) (ha : a < 2 ^ t.bits) (hk : k < t.bits) :
    CVal.binop .shr ⟨t, a⟩ ⟨.i32, k⟩ = some ⟨t, a / 2 ^ k⟩ := by
  obtain ⟨hptr, hs, _, _, h32, h64, _⟩ := wideU_facts t h
  have hk' : toInt ⟨.i32, k⟩ = (k : Int) := toInt_mk_small _ _ (by simp [CTy.bits]; omega)
  have hdiv : a / 2 ^ k < 2 ^ t.bits := Nat.lt_of_le_of_lt (Nat.div_le_self _ _) ha
  simp only [binop, hptr, show CTy.isPtr .i32 = false from rfl, Bool.or_self, Bool.false_eq_true, if_false,
    intBinop, if_true, promote_wideU t h a ha, promote_i32_small k (by omega), shrOp, hk',
    show (BinOp.shr = BinOp.shl) = False from by decide, toInt_mk_unsigned t a hs]
  rw [if_neg (by omega)]
  have : ((a : Int) / (((2 ^ (k : Int).toNat : Nat)) : Int)) = ((a / 2 ^ k : Nat) : Int) := by
    simp
  rw [this, wrap_nat t _ hdiv]

/-! ### mask / shift / or arithmetic -/

theorem mask_byte (v k : Nat) : v &&& (255 * 2 ^ k) = (v / 2 ^ k % 256) * 2 ^ k := by
  apply Nat.eq_of_testBit_eq
  intro i
  rw [Nat.testBit_and, Nat.testBit_mul_two_pow, Nat.testBit_mul_two_pow,
    show (256 : Nat) = 2 ^ 8 from rfl, Nat.testBit_mod_two_pow, Nat.testBit_div_two_pow,
    show (255 : Nat) = 2 ^ 8 - 1 from rfl, Nat.testBit_two_pow_sub_one]
  by_cases h : k ≤ i
  · have : i - k + k = i := by omega
    simp [h, this, Bool.and_comm]
  · simp [h]

theorem or_eq_add_of_dvd (hi lo i : Nat) (hlo : lo < 2 ^ i) (hhi : 2 ^ i ∣ hi) : hi ||| lo = hi + lo := by
  obtain ⟨a, rfl⟩ := hhi
  exact (Nat.two_pow_add_eq_or_of_lt hlo a).symm

theorem bswap16_arith (v : Nat) :
    (((v &&& 255) * 2 ^ 8) ||| ((v &&& 65280) / 2 ^ 8)) = bswapSpec 2 v := by
  have h0 : v &&& 255 = v % 256 := by simpa using mask_byte v 0
  have h1 : v &&& 65280 = (v / 256 % 256) * 256 := by simpa using mask_byte v 8
  have hs : bswapSpec 2 v = v % 256 * 256 + v / 256 % 256 := by
    simp only [bswapSpec, putBE, putLE, List.reverse_cons, List.reverse_nil, List.nil_append, List.cons_append, getLE,
      Nat.div_div_eq_div_mul, Nat.reduceMul]
    omega
  rw [h0, h1, hs]
  simp only [Nat.reducePow]
  generalize hb0 : v % 256 = b0
  generalize hb1 : v / 256 % 256 = b1
  have l0 : b0 < 256 := by omega
  have l1 : b1 < 256 := by omega
  clear hb0 hb1 h0 h1 hs
  have e1 : ∀ b : Nat, b < 256 → b * 256 / 256 = b := by intro b hb; omega
  rw [e1 b1 l1]
  clear e1
  rw [or_eq_add_of_dvd (b0 * 256) (b1) 8 (by simp only [Nat.reducePow]; omega) (by simp only [Nat.reducePow]; omega)]

theorem bswap32_arith (v : Nat) :
    (((((v &&& 255) * 2 ^ 24 % 2 ^ 32) ||| ((v &&& 65280) * 2 ^ 8 % 2 ^ 32)) ||| ((v &&& 16711680) / 2 ^ 8)) ||| ((v &&& 4278190080) / 2 ^ 24)) = bswapSpec 4 v := by
  have h0 : v &&& 255 = v % 256 := by simpa using mask_byte v 0
  have h1 : v &&& 65280 = (v / 256 % 256) * 256 := by simpa using mask_byte v 8
  have h2 : v &&& 16711680 = (v / 65536 % 256) * 65536 := by simpa using mask_byte v 16
  have h3 : v &&& 4278190080 = (v / 16777216 % 256) * 16777216 := by simpa using mask_byte v 24
  have hs : bswapSpec 4 v = v % 256 * 16777216 + v / 256 % 256 * 65536 + v / 65536 % 256 * 256 + v / 16777216 % 256 := by
    simp only [bswapSpec, putBE, putLE, List.reverse_cons, List.reverse_nil, List.nil_append, List.cons_append, getLE,
      Nat.div_div_eq_div_mul, Nat.reduceMul]
    omega
  rw [h0, h1, h2, h3, hs]
  simp only [Nat.reducePow]
  generalize hb0 : v % 256 = b0
  generalize hb1 : v / 256 % 256 = b1
  generalize hb2 : v / 65536 % 256 = b2
  generalize hb3 : v / 16777216 % 256 = b3
  have l0 : b0 < 256 := by omega
  have l1 : b1 < 256 := by omega
  have l2 : b2 < 256 := by omega
  have l3 : b3 < 256 := by omega
  clear hb0 hb1 hb2 hb3 h0 h1 h2 h3 hs
  have e0 : ∀ b : Nat, b < 256 → b * 16777216 % 4294967296 = b * 16777216 := by intro b hb; omega
  have e1 : ∀ b : Nat, b < 256 → b * 256 * 256 % 4294967296 = b * 65536 := by intro b hb; omega
  have e2 : ∀ b : Nat, b < 256 → b * 65536 / 256 = b * 256 := by intro b hb; omega
  have e3 : ∀ b : Nat, b < 256 → b * 16777216 / 16777216 = b := by intro b hb; omega
  rw [e0 b0 l0, e1 b1 l1, e2 b2 l2, e3 b3 l3]
  clear e0 e1 e2 e3
  rw [or_eq_add_of_dvd (b0 * 16777216) (b1 * 65536) 24 (by simp only [Nat.reducePow]; omega) (by simp only [Nat.reducePow]; omega),
    or_eq_add_of_dvd (b0 * 16777216 + b1 * 65536) (b2 * 256) 16 (by simp only [Nat.reducePow]; omega) (by simp only [Nat.reducePow]; omega),
    or_eq_add_of_dvd (b0 * 16777216 + b1 * 65536 + b2 * 256) (b3) 8 (by simp only [Nat.reducePow]; omega) (by simp only [Nat.reducePow]; omega)]

theorem bswap64_arith (v : Nat) :
    (((((((((v &&& 255) * 2 ^ 56 % 2 ^ 64) ||| ((v &&& 65280) * 2 ^ 40 % 2 ^ 64)) ||| ((v &&& 16711680) * 2 ^ 24 % 2 ^ 64)) ||| ((v &&& 4278190080) * 2 ^ 8 % 2 ^ 64)) ||| ((v &&& 1095216660480) / 2 ^ 8)) ||| ((v &&& 280375465082880) / 2 ^ 24)) ||| ((v &&& 71776119061217280) / 2 ^ 40)) ||| ((v &&& 18374686479671623680) / 2 ^ 56)) = bswapSpec 8 v := by
  have h0 : v &&& 255 = v % 256 := by simpa using mask_byte v 0
  have h1 : v &&& 65280 = (v / 256 % 256) * 256 := by simpa using mask_byte v 8
  have h2 : v &&& 16711680 = (v / 65536 % 256) * 65536 := by simpa using mask_byte v 16
  have h3 : v &&& 4278190080 = (v / 16777216 % 256) * 16777216 := by simpa using mask_byte v 24
  have h4 : v &&& 1095216660480 = (v / 4294967296 % 256) * 4294967296 := by simpa using mask_byte v 32
  have h5 : v &&& 280375465082880 = (v / 1099511627776 % 256) * 1099511627776 := by simpa using mask_byte v 40
  have h6 : v &&& 71776119061217280 = (v / 281474976710656 % 256) * 281474976710656 := by simpa using mask_byte v 48
  have h7 : v &&& 18374686479671623680 = (v / 72057594037927936 % 256) * 72057594037927936 := by simpa using mask_byte v 56
  have hs : bswapSpec 8 v = v % 256 * 72057594037927936 + v / 256 % 256 * 281474976710656 + v / 65536 % 256 * 1099511627776 + v / 16777216 % 256 * 4294967296 + v / 4294967296 % 256 * 16777216 + v / 1099511627776 % 256 * 65536 + v / 281474976710656 % 256 * 256 + v / 72057594037927936 % 256 := by
    simp only [bswapSpec, putBE, putLE, List.reverse_cons, List.reverse_nil, List.nil_append, List.cons_append, getLE,
      Nat.div_div_eq_div_mul, Nat.reduceMul]
    omega
  rw [h0, h1, h2, h3, h4, h5, h6, h7, hs]
  simp only [Nat.reducePow]
  generalize hb0 : v % 256 = b0
  generalize hb1 : v / 256 % 256 = b1
  generalize hb2 : v / 65536 % 256 = b2
  generalize hb3 : v / 16777216 % 256 = b3
  generalize hb4 : v / 4294967296 % 256 = b4
  generalize hb5 : v / 1099511627776 % 256 = b5
  generalize hb6 : v / 281474976710656 % 256 = b6
  generalize hb7 : v / 72057594037927936 % 256 = b7
  have l0 : b0 < 256 := by omega
  have l1 : b1 < 256 := by omega
  have l2 : b2 < 256 := by omega
  have l3 : b3 < 256 := by omega
  have l4 : b4 < 256 := by omega
  have l5 : b5 < 256 := by omega
  have l6 : b6 < 256 := by omega
  have l7 : b7 < 256 := by omega
  clear hb0 hb1 hb2 hb3 hb4 hb5 hb6 hb7 h0 h1 h2 h3 h4 h5 h6 h7 hs
  have e0 : ∀ b : Nat, b < 256 → b * 72057594037927936 % 18446744073709551616 = b * 72057594037927936 := by intro b hb; omega
  have e1 : ∀ b : Nat, b < 256 → b * 256 * 1099511627776 % 18446744073709551616 = b * 281474976710656 := by intro b hb; omega
  have e2 : ∀ b : Nat, b < 256 → b * 65536 * 16777216 % 18446744073709551616 = b * 1099511627776 := by intro b hb; omega
  have e3 : ∀ b : Nat, b < 256 → b * 16777216 * 256 % 18446744073709551616 = b * 4294967296 := by intro b hb; omega
  have e4 : ∀ b : Nat, b < 256 → b * 4294967296 / 256 = b * 16777216 := by intro b hb; omega
  have e5 : ∀ b : Nat, b < 256 → b * 1099511627776 / 16777216 = b * 65536 := by intro b hb; omega
  have e6 : ∀ b : Nat, b < 256 → b * 281474976710656 / 1099511627776 = b * 256 := by intro b hb; omega
  have e7 : ∀ b : Nat, b < 256 → b * 72057594037927936 / 72057594037927936 = b := by intro b hb; omega
  rw [e0 b0 l0, e1 b1 l1, e2 b2 l2, e3 b3 l3, e4 b4 l4, e5 b5 l5, e6 b6 l6, e7 b7 l7]
  clear e0 e1 e2 e3 e4 e5 e6 e7
  rw [or_eq_add_of_dvd (b0 * 72057594037927936) (b1 * 281474976710656) 56 (by simp only [Nat.reducePow]; omega) (by simp only [Nat.reducePow]; omega),
    or_eq_add_of_dvd (b0 * 72057594037927936 + b1 * 281474976710656) (b2 * 1099511627776) 48 (by simp only [Nat.reducePow]; omega) (by simp only [Nat.reducePow]; omega),
    or_eq_add_of_dvd (b0 * 72057594037927936 + b1 * 281474976710656 + b2 * 1099511627776) (b3 * 4294967296) 40 (by simp only [Nat.reducePow]; omega) (by simp only [Nat.reducePow]; omega),
    or_eq_add_of_dvd (b0 * 72057594037927936 + b1 * 281474976710656 + b2 * 1099511627776 + b3 * 4294967296) (b4 * 16777216) 32 (by simp only [Nat.reducePow]; omega) (by simp only [Nat.reducePow]; omega),
    or_eq_add_of_dvd (b0 * 72057594037927936 + b1 * 281474976710656 + b2 * 1099511627776 + b3 * 4294967296 + b4 * 16777216) (b5 * 65536) 24 (by simp only [Nat.reducePow]; omega) (by simp only [Nat.reducePow]; omega),
    or_eq_add_of_dvd (b0 * 72057594037927936 + b1 * 281474976710656 + b2 * 1099511627776 + b3 * 4294967296 + b4 * 16777216 + b5 * 65536) (b6 * 256) 16 (by simp only [Nat.reducePow]; omega) (by simp only [Nat.reducePow]; omega),
    or_eq_add_of_dvd (b0 * 72057594037927936 + b1 * 281474976710656 + b2 * 1099511627776 + b3 * 4294967296 + b4 * 16777216 + b5 * 65536 + b6 * 256) (b7) 8 (by simp only [Nat.reducePow]; omega) (by simp only [Nat.reducePow]; omega)]


open Extracted

theorem and_lt_of_lt {a b n : Nat} (h : a < n) : a &&& b < n := Nat.lt_of_le_of_lt Nat.and_le_left h
theorem div_lt_of_lt {a b n : Nat} (h : a < n) : a / b < n := Nat.lt_of_le_of_lt (Nat.div_le_self _ _) h

theorem byteswap_portable_u32_eval (v : Nat) (hv : v < 2 ^ 32) :
    byteswap_portable_u32.retBits [v] = some (bswapSpec 4 v) := by
  have hW : WideU .u32 := Or.inl rfl
  have hv' : v < 2 ^ CTy.bits .u32 := hv
  have hp : 0 < 2 ^ CTy.bits .u32 := Nat.two_pow_pos _
  have band := fun m hm => band_wideU .u32 hW v m hv' hm
  have shl := fun m k hk => shl_wideU .u32 hW (v &&& m) k (and_lt_of_lt hv') hk
  have shr := fun m k hk => shr_wideU .u32 hW (v &&& m) k (and_lt_of_lt hv') hk
  have litT : ∀ n : Nat, n < 2 ^ 32 → wrap .u32 (n : Int) = ⟨.u32, n⟩ := fun n hn => wrap_nat .u32 n hn
  have lit : ∀ n : Nat, n < 2 ^ 32 → wrap .i32 (n : Int) = ⟨.i32, n⟩ := fun n hn => wrap_nat .i32 n hn
  have bor := fun a b ha hb => bor_wideU .u32 hW a b ha hb
  simp only [byteswap_portable_u32, Kernel.retBits, Kernel.run, execStmts, mkEnv, CExpr.eval, Env.get?,
    mod_of_lt hv', if_true, Option.map,
    show ((255 : Int)) = ((255 : Nat) : Int) from rfl, show ((65280 : Int)) = ((65280 : Nat) : Int) from rfl, show ((16711680 : Int)) = ((16711680 : Nat) : Int) from rfl, show ((4278190080 : Int)) = ((4278190080 : Nat) : Int) from rfl, show ((8 : Int)) = ((8 : Nat) : Int) from rfl, show ((24 : Int)) = ((24 : Nat) : Int) from rfl,
    litT 255 (by decide), litT 65280 (by decide), litT 16711680 (by decide), litT 4278190080 (by decide),
    lit 8 (by decide), lit 24 (by decide),
    band 255 (by decide), band 65280 (by decide), band 16711680 (by decide), band 4278190080 (by decide),
    shl 255 24 (by decide), shl 65280 8 (by decide), shr 16711680 8 (by decide), shr 4278190080 24 (by decide)]
  have b0 : (v &&& 255) * 2 ^ 24 % 2 ^ CTy.bits .u32 < 2 ^ CTy.bits .u32 := Nat.mod_lt _ hp
  have b1 : (v &&& 65280) * 2 ^ 8 % 2 ^ CTy.bits .u32 < 2 ^ CTy.bits .u32 := Nat.mod_lt _ hp
  have b2 : (v &&& 16711680) / 2 ^ 8 < 2 ^ CTy.bits .u32 := div_lt_of_lt (and_lt_of_lt hv')
  have b3 : (v &&& 4278190080) / 2 ^ 24 < 2 ^ CTy.bits .u32 := div_lt_of_lt (and_lt_of_lt hv')
  have o1 := Nat.or_lt_two_pow b0 b1
  have o2 := Nat.or_lt_two_pow o1 b2
  have o3 := Nat.or_lt_two_pow o2 b3
  simp only [bor _ _ b0 b1, bor _ _ o1 b2, bor _ _ o2 b3, conv_self .u32 _ (by decide) o3]
  exact congrArg some (bswap32_arith v)

theorem byteswap_portable_u64_eval (v : Nat) (hv : v < 2 ^ 64) :
    byteswap_portable_u64.retBits [v] = some (bswapSpec 8 v) := by
  have hW : WideU .u64 := Or.inr rfl
  have hv' : v < 2 ^ CTy.bits .u64 := hv
  have hp : 0 < 2 ^ CTy.bits .u64 := Nat.two_pow_pos _
  have band := fun m hm => band_wideU .u64 hW v m hv' hm
  have shl := fun m k hk => shl_wideU .u64 hW (v &&& m) k (and_lt_of_lt hv') hk
  have shr := fun m k hk => shr_wideU .u64 hW (v &&& m) k (and_lt_of_lt hv') hk
  have litT : ∀ n : Nat, n < 2 ^ 64 → wrap .u64 (n : Int) = ⟨.u64, n⟩ := fun n hn => wrap_nat .u64 n hn
  have lit : ∀ n : Nat, n < 2 ^ 32 → wrap .i32 (n : Int) = ⟨.i32, n⟩ := fun n hn => wrap_nat .i32 n hn
  have bor := fun a b ha hb => bor_wideU .u64 hW a b ha hb
  simp only [byteswap_portable_u64, Kernel.retBits, Kernel.run, execStmts, mkEnv, CExpr.eval, Env.get?,
    mod_of_lt hv', if_true, Option.map,
    show ((255 : Int)) = ((255 : Nat) : Int) from rfl, show ((65280 : Int)) = ((65280 : Nat) : Int) from rfl, show ((16711680 : Int)) = ((16711680 : Nat) : Int) from rfl, show ((4278190080 : Int)) = ((4278190080 : Nat) : Int) from rfl, show ((1095216660480 : Int)) = ((1095216660480 : Nat) : Int) from rfl, show ((280375465082880 : Int)) = ((280375465082880 : Nat) : Int) from rfl, show ((71776119061217280 : Int)) = ((71776119061217280 : Nat) : Int) from rfl, show ((18374686479671623680 : Int)) = ((18374686479671623680 : Nat) : Int) from rfl, show ((8 : Int)) = ((8 : Nat) : Int) from rfl, show ((24 : Int)) = ((24 : Nat) : Int) from rfl, show ((40 : Int)) = ((40 : Nat) : Int) from rfl, show ((56 : Int)) = ((56 : Nat) : Int) from rfl,
    litT 255 (by decide), litT 65280 (by decide), litT 16711680 (by decide), litT 4278190080 (by decide), litT 1095216660480 (by decide), litT 280375465082880 (by decide), litT 71776119061217280 (by decide), litT 18374686479671623680 (by decide),
    lit 8 (by decide), lit 24 (by decide), lit 40 (by decide), lit 56 (by decide),
    band 255 (by decide), band 65280 (by decide), band 16711680 (by decide), band 4278190080 (by decide), band 1095216660480 (by decide), band 280375465082880 (by decide), band 71776119061217280 (by decide), band 18374686479671623680 (by decide),
    shl 255 56 (by decide), shl 65280 40 (by decide), shl 16711680 24 (by decide), shl 4278190080 8 (by decide), shr 1095216660480 8 (by decide), shr 280375465082880 24 (by decide), shr 71776119061217280 40 (by decide), shr 18374686479671623680 56 (by decide)]
  have b0 : (v &&& 255) * 2 ^ 56 % 2 ^ CTy.bits .u64 < 2 ^ CTy.bits .u64 := Nat.mod_lt _ hp
  have b1 : (v &&& 65280) * 2 ^ 40 % 2 ^ CTy.bits .u64 < 2 ^ CTy.bits .u64 := Nat.mod_lt _ hp
  have b2 : (v &&& 16711680) * 2 ^ 24 % 2 ^ CTy.bits .u64 < 2 ^ CTy.bits .u64 := Nat.mod_lt _ hp
  have b3 : (v &&& 4278190080) * 2 ^ 8 % 2 ^ CTy.bits .u64 < 2 ^ CTy.bits .u64 := Nat.mod_lt _ hp
  have b4 : (v &&& 1095216660480) / 2 ^ 8 < 2 ^ CTy.bits .u64 := div_lt_of_lt (and_lt_of_lt hv')
  have b5 : (v &&& 280375465082880) / 2 ^ 24 < 2 ^ CTy.bits .u64 := div_lt_of_lt (and_lt_of_lt hv')
  have b6 : (v &&& 71776119061217280) / 2 ^ 40 < 2 ^ CTy.bits .u64 := div_lt_of_lt (and_lt_of_lt hv')
  have b7 : (v &&& 18374686479671623680) / 2 ^ 56 < 2 ^ CTy.bits .u64 := div_lt_of_lt (and_lt_of_lt hv')
  have o1 := Nat.or_lt_two_pow b0 b1
  have o2 := Nat.or_lt_two_pow o1 b2
  have o3 := Nat.or_lt_two_pow o2 b3
  have o4 := Nat.or_lt_two_pow o3 b4
  have o5 := Nat.or_lt_two_pow o4 b5
  have o6 := Nat.or_lt_two_pow o5 b6
  have o7 := Nat.or_lt_two_pow o6 b7
  simp only [bor _ _ b0 b1, bor _ _ o1 b2, bor _ _ o2 b3, bor _ _ o3 b4, bor _ _ o4 b5, bor _ _ o5 b6, bor _ _ o6 b7, conv_self .u64 _ (by decide) o7]
  exact congrArg some (bswap64_arith v)

/-! ### the 16-bit variants: arithmetic happens in `int` after promotion -/

theorem promote_u16 (v : Nat) (hv : v < 2 ^ 16) : promote ⟨.u16, v⟩ = ⟨.i32, v⟩ := by
  rw [promote_mk]
  exact conv_mk_nonneg _ _ _ (by decide) (Or.inl rfl) (by simp [CTy.promote, CTy.rank, CTy.bits]; omega)

theorem conv_i32_self (a : Nat) (ha : a < 2 ^ 31) : conv .i32 ⟨.i32, a⟩ = ⟨.i32, a⟩ :=
  conv_self .i32 a (by decide) (by simp [CTy.bits]; omega)

theorem band_u16_i32 (v m : Nat) (hv : v < 2 ^ 16) (hm : m < 2 ^ 31) :
    CVal.binop .band ⟨.u16, v⟩ ⟨.i32, m⟩ = some ⟨.i32, v &&& m⟩ := by
  simp only [binop, show CTy.isPtr .u16 = false from rfl, show CTy.isPtr .i32 = false from rfl, Bool.or_self,
    Bool.false_eq_true, if_false, intBinop, promote_u16 v hv, promote_i32_small m hm, common_self, arithOp,
    conv_i32_self m hm, conv_i32_self v (by omega)]
  simp

theorem bor_i32 (a b : Nat) (ha : a < 2 ^ 31) (hb : b < 2 ^ 31) :
    CVal.binop .bor ⟨.i32, a⟩ ⟨.i32, b⟩ = some ⟨.i32, a ||| b⟩ := by
  simp only [binop, show CTy.isPtr .i32 = false from rfl, Bool.or_self,
    Bool.false_eq_true, if_false, intBinop, promote_i32_small a ha, promote_i32_small b hb, common_self, arithOp,
    conv_i32_self a ha, conv_i32_self b hb]
  simp

theorem shl_i32 (a k : Nat) (hk : k < 32) (h : a * 2 ^ k < 2 ^ 31) :
    CVal.binop .shl ⟨.i32, a⟩ ⟨.i32, k⟩ = some ⟨.i32, a * 2 ^ k⟩ := by
  have hpos : 0 < 2 ^ k := Nat.two_pow_pos k
  have ha : a < 2 ^ 31 := Nat.lt_of_le_of_lt (Nat.le_mul_of_pos_right a hpos) h
  have hk' : toInt ⟨.i32, k⟩ = (k : Int) := toInt_mk_small _ _ (by simp [CTy.bits]; omega)
  have ha' : toInt ⟨.i32, a⟩ = (a : Int) := toInt_mk_small _ _ (by simp [CTy.bits]; omega)
  simp only [binop, show CTy.isPtr .i32 = false from rfl, Bool.or_self, Bool.false_eq_true, if_false,
    intBinop, if_true, promote_i32_small a ha, promote_i32_small k (by omega), shlOp, hk', ha',
    show CTy.signed .i32 = true from rfl, show CTy.bits .i32 = 32 from rfl, Int.toNat_natCast]
  rw [if_neg (by omega), if_neg (by omega), if_pos (by omega)]

theorem shr_i32 (a k : Nat) (ha : a < 2 ^ 31) (hk : k < 32) :
    CVal.binop .shr ⟨.i32, a⟩ ⟨.i32, k⟩ = some ⟨.i32, a / 2 ^ k⟩ := by
  have hk' : toInt ⟨.i32, k⟩ = (k : Int) := toInt_mk_small _ _ (by simp [CTy.bits]; omega)
  have ha' : toInt ⟨.i32, a⟩ = (a : Int) := toInt_mk_small _ _ (by simp [CTy.bits]; omega)
  have hdiv : a / 2 ^ k < 2 ^ CTy.bits .i32 := by
    have : a / 2 ^ k ≤ a := Nat.div_le_self _ _
    simp [CTy.bits]; omega
  simp only [binop, show CTy.isPtr .i32 = false from rfl, Bool.or_self, Bool.false_eq_true, if_false,
    intBinop, if_true, promote_i32_small a ha, promote_i32_small k (by omega), shrOp, hk', ha',
    show (BinOp.shr = BinOp.shl) = False from by decide, show CTy.bits .i32 = 32 from rfl]
  rw [if_neg (by omega)]
  have : ((a : Int) / (((2 ^ (k : Int).toNat : Nat)) : Int)) = ((a / 2 ^ k : Nat) : Int) := by simp
  rw [this, wrap_nat .i32 _ hdiv]

theorem byteswap_portable_u16_eval (v : Nat) (hv : v < 2 ^ 16) :
    byteswap_portable_u16.retBits [v] = some (bswapSpec 2 v) := by
  have hv' : v < 2 ^ CTy.bits .u16 := hv
  have lit : ∀ n : Nat, n < 2 ^ 32 → wrap .i32 (n : Int) = ⟨.i32, n⟩ := fun n hn => wrap_nat .i32 n hn
  have a0 : v &&& 255 < 2 ^ 16 := and_lt_of_lt hv
  have a0' : v &&& 255 ≤ 255 := Nat.and_le_right
  have a1 : v &&& 65280 < 2 ^ 16 := and_lt_of_lt hv
  have s0 : (v &&& 255) * 2 ^ 8 < 2 ^ 16 := by omega
  have s1 : (v &&& 65280) / 2 ^ 8 < 2 ^ 16 := div_lt_of_lt a1
  have o : ((v &&& 255) * 2 ^ 8) ||| ((v &&& 65280) / 2 ^ 8) < 2 ^ 16 := Nat.or_lt_two_pow s0 s1
  have o31 : ((v &&& 255) * 2 ^ 8) ||| ((v &&& 65280) / 2 ^ 8) < 2 ^ (CTy.bits .i32 - 1) := by
    have : (2 : Nat) ^ 16 ≤ 2 ^ (CTy.bits .i32 - 1) := by decide
    omega
  have hc := conv_mk_nonneg .i32 .u16 _ (by decide) (Or.inr o31) (show _ < 2 ^ CTy.bits .u16 from o)
  simp only [byteswap_portable_u16, Kernel.retBits, Kernel.run, execStmts, mkEnv, CExpr.eval, Env.get?,
    mod_of_lt hv', if_true, Option.map,
    show ((255 : Int)) = ((255 : Nat) : Int) from rfl, show ((65280 : Int)) = ((65280 : Nat) : Int) from rfl,
    show ((8 : Int)) = ((8 : Nat) : Int) from rfl,
    lit 255 (by decide), lit 65280 (by decide), lit 8 (by decide),
    band_u16_i32 v 255 hv (by decide), band_u16_i32 v 65280 hv (by decide),
    shl_i32 (v &&& 255) 8 (by decide) (by omega), shr_i32 (v &&& 65280) 8 (by omega) (by decide),
    bor_i32 _ _ (show (v &&& 255) * 2 ^ 8 < 2 ^ 31 by omega) (show (v &&& 65280) / 2 ^ 8 < 2 ^ 31 by omega),
    hc]
  exact congrArg some (bswap16_arith v)

/-- `bswapSpec 4` of a zero-extended 16-bit value, shifted down -/
theorem bswap32_high_half (v : Nat) (hv : v < 2 ^ 16) : bswapSpec 4 v / 2 ^ 16 = bswapSpec 2 v := by
  simp only [bswapSpec, putBE, putLE, List.reverse_cons, List.reverse_nil, List.nil_append, List.cons_append, getLE,
    Nat.div_div_eq_div_mul, Nat.reduceMul, Nat.reducePow]
  omega

theorem bswapSpec_lt (w v : Nat) : bswapSpec w v < 256 ^ w := by
  have h := getLE_lt (putBE w v) (fun b hb => putLE_isBytes w v b (by simpa [putBE] using hb))
  simpa [bswapSpec] using h

/-- the GCC 4.3–4.7 / clang-without-`__builtin_bswap16` variant: the kernel's input is the value
    returned by `__builtin_bswap32(v)` for the zero-extended `v` -/
theorem byteswap_u16_via_bswap32_eval (v : Nat) (hv : v < 2 ^ 16) :
    byteswap_u16_via_bswap32.retBits [bswapSpec 4 v] = some (bswapSpec 2 v) := by
  have hW : WideU .u32 := Or.inl rfl
  have hx : bswapSpec 4 v < 2 ^ CTy.bits .u32 := by
    have := bswapSpec_lt 4 v
    simpa [CTy.bits] using this
  have lit : ∀ n : Nat, n < 2 ^ 32 → wrap .i32 (n : Int) = ⟨.i32, n⟩ := fun n hn => wrap_nat .i32 n hn
  have hr : bswapSpec 4 v / 2 ^ 16 < 2 ^ CTy.bits .u16 := by
    rw [bswap32_high_half v hv]
    have := bswapSpec_lt 2 v
    simpa [CTy.bits] using this
  have hc := conv_mk_nonneg .u32 .u16 _ (by decide) (Or.inl rfl) hr
  simp only [byteswap_u16_via_bswap32, Kernel.retBits, Kernel.run, execStmts, mkEnv, CExpr.eval, Env.get?,
    mod_of_lt hx, if_true, Option.map, show ((16 : Int)) = ((16 : Nat) : Int) from rfl, lit 16 (by decide),
    shr_wideU .u32 hW _ 16 hx (by decide), hc]
  exact congrArg some (bswap32_high_half v hv)

end Sbepp
