/-
  C08 — the acceptance direction: a schema without violation of an enforced rule is
  accepted by the model (`no_violation_check_ok`).  Continues `Lemmas/Rules.lean`.
-/
import Sbepp.Lemmas.Rules

namespace Sbepp.Schema.Rules
set_option linter.unusedSectionVars false
set_option linter.unusedSimpArgs false
open Sbepp Sbepp.Schema
open Sbepp.Spec.Rules

/-! ### messages -/

/-- the AST comes from the parser: `<ref>` occurs only inside composites -/
def NoTopLevelRef (types : List Elem) : Prop := ∀ n ty o a, Elem.ref n ty o a ∉ types

theorem fieldInfo_complete (types : List Elem) (hnr : NoTopLevelRef types) (hsz : SizesAgree types) (p : Path) (f : FieldDef)
    (h : (!isPrim f.type && (findType types f.type).isNone) = false) :
    ∃ sz, fieldInfo types p f = .ok (sz, fieldPresence types f) := by
  unfold fieldInfo fieldPresence
  rw [isPrimitive_eq]
  by_cases hp : isPrim f.type = true
  · simp [hp]
  · simp only [hp, Bool.not_false, Bool.true_and, Option.isNone_eq_false_iff, Option.isSome_iff_exists] at h
    obtain ⟨enc, hf⟩ := h
    simp only [hp, Bool.not_false, ↓reduceIte, lookup_eq, hf, Bool.false_eq_true]
    unfold actualPresence
    rw [isPrimitive_eq]
    simp only [hp, Bool.false_eq_true, ↓reduceIte, lookup_eq, hf]
    cases enc with
    | ref n ty o a => exact absurd (findType_mem types _ _ hf) (hnr n ty o a)
    | _ => exact ⟨_, rfl⟩

theorem vConstantField_complete (hfp : FpAgree) (types : List Elem) (p : Path) (f : FieldDef)
    (h : constFieldViols types p f = []) : vConstantField types p f = .ok () := by
  unfold vConstantField
  unfold constFieldViols at h
  rw [isPrimitive_eq]
  by_cases hp : isPrim f.type = true
  · simp only [hp, ↓reduceIte] at h ⊢
    cases hv : f.valueRef with
    | none => simp [hv] at h
    | some r =>
      simp only [hv] at h ⊢
      rw [findValueRef_eq]
      unfold valueRefViols at h
      cases hr : resolveValueRef types r with
      | error c => simp [hr] at h
      | ok x =>
        obtain ⟨n, enc, v⟩ := x
        simp only [hr] at h
        simp only [bind_ok, Except.ok.injEq, exists_eq_left', need_ok]
        rw [valueRefFits_eq hfp types r n enc f.type v hr hp]
        cases hrep : representable f.type (enumValueLiteral ((underlyingPrim types enc).getD enc) v.value) with
        | true => rfl
        | false => simp [hrep] at h
  · simp only [hp, Bool.false_eq_true, ↓reduceIte, lookup_eq] at h ⊢
    cases hf : findType types f.type with
    | none => rfl
    | some enc =>
      cases enc with
      | composite n o els a => simp [hf] at h
      | enum n e o vs a =>
        simp only [hf] at h ⊢
        cases hv : f.valueRef with
        | none => simp [hv] at h
        | some r =>
          simp only [hv] at h ⊢
          rw [findValueRef_eq]
          cases hr : resolveValueRef types r with
          | error c => simp [hr] at h
          | ok x =>
            obtain ⟨n', enc', v⟩ := x
            simp only [hr] at h
            simp only [bind_ok, Except.ok.injEq, exists_eq_left', need_ok]
            by_cases heq : (f.type.toLower == n'.toLower) = true
            · exact heq
            · simp [heq] at h
      | _ => rfl

theorem vFields_complete (hfp : FpAgree) (types : List Elem) (hnr : NoTopLevelRef types)
    (hsz : SizesAgree types) (lp : Path) :
    ∀ (fields : List FieldDef) (cur : Nat),
      (∀ f ∈ fields, symbolicName f.name = true ∧ fieldViols types lp f = []) →
      (fieldMinima types cur fields).filterMap (fieldOffsetViol types lp) = [] →
      ∃ e, vFields types lp cur fields = .ok e := by
  intro fields
  induction fields with
  | nil => intro cur _ _; exact ⟨cur, by simp [vFields]⟩
  | cons f rest ih =>
    intro cur hf hoff
    obtain ⟨hname, hfv⟩ := hf f (by simp)
    have hrest : ∀ f' ∈ rest, symbolicName f'.name = true ∧ fieldViols types lp f' = [] :=
      fun f' h' => hf f' (by simp [h'])
    unfold fieldViols at hfv
    have g1 : (!isPrim f.type && (findType types f.type).isNone) = false := by
      cases hx : (!isPrim f.type && (findType types f.type).isNone) with
      | false => rfl
      | true => simp [hx] at hfv
    simp only [g1, Bool.false_eq_true, ↓reduceIte] at hfv
    obtain ⟨sz, hinfo⟩ := fieldInfo_complete types hnr hsz (lp ++ [f.name]) f g1
    obtain ⟨_, _, g3⟩ := fieldInfo_ok types hsz _ f sz _ hinfo
    simp only [vFields, bind_ok, vName_ok, exists_const]
    by_cases hc : (fieldPresence types f == Presence.constant) = true
    · simp only [hc, ↓reduceIte] at hfv
      simp only [fieldMinima, hc, ↓reduceIte] at hoff
      obtain ⟨e, he⟩ := ih cur hrest hoff
      refine ⟨e, hname, _, hinfo, ?_⟩
      simp only [hc, ↓reduceIte, bind_ok]
      exact ⟨(), vConstantField_complete hfp types _ f hfv, he⟩
    · simp only [fieldMinima, hc, Bool.false_eq_true, ↓reduceIte, g3, List.filterMap_cons] at hoff
      have hov : fieldOffsetViol types lp (f, cur) = none := by
        cases hx : fieldOffsetViol types lp (f, cur) with
        | none => rfl
        | some v => simp [hx] at hoff
      have hoff' : (fieldMinima types (f.offset.getD cur + sz) rest).filterMap (fieldOffsetViol types lp) = [] := by
        simpa [hov] using hoff
      obtain ⟨e, he⟩ := ih _ hrest hoff'
      refine ⟨e, hname, _, hinfo, ?_⟩
      simp only [hc, Bool.false_eq_true, ↓reduceIte]
      obtain ⟨hmin, hfit⟩ := (fieldOffsetViol_none types lp f cur sz g3).mp hov
      cases ho : f.offset with
      | none =>
        simp only [ho, Option.getD_none] at he hfit
        simp only [bind_ok, vAdvance_ok]
        exact ⟨_, ⟨hfit, rfl⟩, he⟩
      | some o =>
        simp only [ho, Option.getD_some] at he hfit
        have hlt : ¬ o < cur := by have := hmin o ho; omega
        simp only [hlt, ↓reduceIte, bind_ok, vAdvance_ok]
        exact ⟨_, ⟨hfit, rfl⟩, he⟩

theorem vDatas_complete (types : List Elem) (hsz : SizesAgree types) (lp : Path) :
    ∀ (datas : List DataDef),
      (∀ d ∈ datas, symbolicName d.name = true ∧ headerViols types (lp ++ [d.name]) d.type ["length"] true = []) →
      vDatas types lp datas = .ok () := by
  intro datas
  induction datas with
  | nil => intro _; simp [vDatas]
  | cons d rest ih =>
    intro h
    simp only [vDatas, bind_ok, vName_ok, vDataHeader_ok types hsz, exists_const]
    exact ⟨(h d (by simp)).1, (h d (by simp)).2, ih (fun d' h' => h d' (by simp [h']))⟩

theorem levelGood_parts (types : List Elem) (l : LevelView) (h : LevelGood types l) :
    (∀ f ∈ l.fields, symbolicName f.name = true ∧ fieldViols types l.path f = []) ∧
    (fieldMinima types 0 l.fields).filterMap (fieldOffsetViol types l.path) = [] ∧
    levelValueViols types l.hdr l.path l.blockLength l.fields l.groups.length l.datas.length = [] ∧
    (∀ g ∈ l.groups, symbolicName (gName g) = true ∧
      headerViols types (l.path ++ [gName g]) (gDim g) ["numInGroup", "blockLength"] false = []) ∧
    (∀ d ∈ l.datas, symbolicName d.name = true ∧ headerViols types (l.path ++ [d.name]) d.type ["length"] true = []) := by
  obtain ⟨h1, h2, h3, h4⟩ := h
  unfold levelViols at h4
  unfold levelValueViols
  simp only [List.append_eq_nil_iff, List.flatMap_eq_nil_iff] at h4 ⊢
  obtain ⟨⟨⟨⟨⟨⟨⟨a, b⟩, c1⟩, c2⟩, c3⟩, c4⟩, d⟩, e⟩ := h4
  exact ⟨fun f hf => ⟨h1 f hf, a f hf⟩, b, ⟨⟨⟨c1, c2⟩, c3⟩, c4⟩, fun g hg => ⟨h2 g hg, d g hg⟩,
    fun x hx => ⟨h3 x hx, e x hx⟩⟩

section LevelsComplete
variable (hfp : FpAgree) (types : List Elem) (hnr : NoTopLevelRef types)
  (hsz : SizesAgree types)
include hfp hnr hsz

theorem level_complete (hdr : String) (hv : HdrValid types hdr) (lp : Path) (bl : Option Nat) (fields : List FieldDef)
    (groups : List GroupDef) (datas : List DataDef) (hl : LevelGood types ⟨lp, bl, fields, groups, datas, hdr⟩) :
    ∃ off, vFields types lp 0 fields = .ok off ∧
      vLevelValues types hdr lp bl off groups.length datas.length = .ok () ∧ vDatas types lp datas = .ok () := by
  obtain ⟨a, b, c, _, e⟩ := levelGood_parts types _ hl
  obtain ⟨off, hoff⟩ := vFields_complete hfp types hnr hsz lp fields 0 a b
  have hend := (vFields_ok hfp types hsz lp fields 0 off hoff).2.2
  exact ⟨off, hoff, (vLevelValues_ok hfp types hdr hv lp bl fields off _ _ hend ()).mpr c,
    vDatas_complete types hsz lp datas e⟩

mutual
  theorem vGroup_complete : ∀ (g : GroupDef) (lp : Path),
      symbolicName (gName g) = true →
      headerViols types (lp ++ [gName g]) (gDim g) ["numInGroup", "blockLength"] false = [] →
      (∀ l ∈ groupLevels lp g, LevelGood types l) → vGroup types lp g = .ok ()
    | .mk n id dim bl fields groups datas a, lp, hn, hh, hl => by
      have hself := hl ⟨lp ++ [n], bl, fields, groups, datas, dim⟩ (by simp [groupLevels])
      have hv := hdrValid_of_valid types _ dim _ (by simp) hh
      obtain ⟨off, h1, h2, h3⟩ := level_complete hfp types hnr hsz dim hv _ bl fields groups datas hself
      obtain ⟨_, _, _, hgs, _⟩ := levelGood_parts types _ hself
      have hsub := vGroups_complete groups (lp ++ [n]) hgs (fun l hm => hl l (by simp [groupLevels, hm]))
      simp only [vGroup, bind_ok, vName_ok, vLevelHeader_ok, exists_const]
      exact ⟨hn, hh, off, h1, (), h2, (), hsub, h3⟩
  theorem vGroups_complete : ∀ (gs : List GroupDef) (lp : Path),
      (∀ g ∈ gs, symbolicName (gName g) = true ∧
        headerViols types (lp ++ [gName g]) (gDim g) ["numInGroup", "blockLength"] false = []) →
      (∀ l ∈ groupLevelsL lp gs, LevelGood types l) → vGroups types lp gs = .ok ()
    | [], lp, _, _ => by simp [vGroups]
    | g :: rest, lp, hg, hl => by
      simp only [vGroups, bind_ok, exists_const]
      refine ⟨(), vGroup_complete g lp (hg g (by simp)).1 (hg g (by simp)).2
        (fun l hm => hl l (by simp [groupLevelsL, hm])), ?_⟩
      exact vGroups_complete rest lp (fun g' h' => hg g' (by simp [h']))
        (fun l hm => hl l (by simp [groupLevelsL, hm]))
end

theorem vMessage_complete (hdr : String) (hv : HdrValid types hdr) (ht : HdrResolves types hdr "templateId")
    (m : MessageDef) (hn : symbolicName m.name = true)
    (htid : headerValueViols types hdr "templateId" m.id (msgPath m) = [])
    (hl : ∀ l ∈ messageLevels hdr m, LevelGood types l) : vMessage types hdr m = .ok () := by
  have hself := hl ⟨msgPath m, m.blockLength, m.fields, m.groups, m.datas, hdr⟩ (by simp [messageLevels])
  obtain ⟨off, h1, h2, h3⟩ := level_complete hfp types hnr hsz hdr hv _ m.blockLength m.fields m.groups m.datas hself
  obtain ⟨_, _, _, hgs, _⟩ := levelGood_parts types _ hself
  have hsub := vGroups_complete hfp types hnr hsz m.groups (msgPath m) hgs
    (fun l hm => hl l (by simp [messageLevels, hm]))
  simp only [vMessage, bind_ok, vName_ok, exists_const, vHeaderValue_ok hfp types hdr _ _ _ _ ht]
  exact ⟨hn, htid, off, h1, (), h2, (), hsub, h3⟩

end LevelsComplete

theorem messagesPhase_complete (hfp : FpAgree) (s : SchemaDef)
    (hnr : NoTopLevelRef s.types) (hsz : SizesAgree s.types)
    (hh : headerViols s.types ["schema"] s.headerType ["schemaId", "templateId", "version", "blockLength"] false = [])
    (hid : headerValueViols s.types s.headerType "schemaId" s.id ["schema"] = [])
    (hver : headerValueViols s.types s.headerType "version" s.version ["schema"] = [])
    (htid : ∀ m ∈ s.messages, headerValueViols s.types s.headerType "templateId" m.id (msgPath m) = [])
    (hm : ∀ m ∈ s.messages, symbolicName m.name = true) (hl : ∀ l ∈ allLevels s, LevelGood s.types l) :
    messagesPhase s = .ok () := by
  have hr := fun name hn => hdrResolves_of_valid s.types ["schema"] s.headerType _ hh name (Or.inl hn)
  have hv := hdrValid_of_valid s.types _ s.headerType _ (by simp) hh
  simp only [messagesPhase, bind_ok, vLevelHeader_ok, exists_const, allOk_ok,
    vHeaderValue_ok hfp _ _ _ _ _ _ (hr "schemaId" (by simp)), vHeaderValue_ok hfp _ _ _ _ _ _ (hr "version" (by simp))]
  refine ⟨hh, hid, hver, fun m hmm => ?_⟩
  exact vMessage_complete hfp s.types hnr hsz s.headerType hv (hr _ (by simp)) m (hm m hmm) (htid m hmm)
    (fun l hlm => hl l (by unfold allLevels; exact List.mem_flatMap.mpr ⟨m, hmm, hlm⟩))


/-! ### parser -/

theorem ite_nil_iff {α} (c : Prop) [Decidable c] (x : α) : (if c then [x] else []) = [] ↔ ¬ c := by
  by_cases h : c <;> simp [h]

theorem pVersions_complete (a : Attrs) (p : Path) (h : attrsNumeric a = true) : pVersions a p = .ok () :=
  (pVersions_ok a p ()).mpr h

theorem pValidValues_complete (p : Path) : ∀ (vs : List ValidValue) (seen : List String),
    (∀ v ∈ vs, vvAttrViols p v = []) → repeats ValidValue.name seen vs = [] → pValidValues p seen vs = .ok () := by
  intro vs
  induction vs with
  | nil => intro seen _ _; simp [pValidValues]
  | cons v rest ih =>
    intro seen ha hr
    have hv := ha v (by simp)
    simp only [vvAttrViols, List.append_eq_nil_iff, ite_nil_iff, Bool.not_eq_true, Bool.not_eq_eq_eq_not,
      Bool.not_true, Bool.not_false] at hv
    obtain ⟨⟨h1, h2⟩, h3⟩ := hv
    obtain ⟨hns, hr'⟩ := (repeats_cons_nil _ _ _ _).mp hr
    simp only [pValidValues, bind_ok, need_ok, pVersions_ok, exists_const]
    refine ⟨by simp [h1], by simpa using h2, by simp [h3], not_contains _ _ hns, ?_⟩
    exact ih _ (fun v' h' => ha v' (by simp [h'])) hr'

theorem pChoices_complete (p : Path) : ∀ (cs : List Choice) (seen : List String),
    (∀ c ∈ cs, choiceAttrViols p c = []) → repeats Choice.name seen cs = [] → pChoices p seen cs = .ok () := by
  intro cs
  induction cs with
  | nil => intro seen _ _; simp [pChoices]
  | cons c rest ih =>
    intro seen ha hr
    have hv := ha c (by simp)
    simp only [choiceAttrViols, List.append_eq_nil_iff, ite_nil_iff, Bool.not_eq_true, Bool.not_eq_eq_eq_not,
      Bool.not_true, Bool.not_false] at hv
    obtain ⟨⟨h1, h2⟩, h3⟩ := hv
    obtain ⟨hns, hr'⟩ := (repeats_cons_nil _ _ _ _).mp hr
    simp only [pChoices, bind_ok, need_ok, pVersions_ok, exists_const, fitsBits8]
    refine ⟨by simp [h1], by simpa using h2, by omega, not_contains _ _ hns, ?_⟩
    exact ih _ (fun c' h' => ha c' (by simp [h'])) hr'


theorem attrViolsElem_parts (p : Path) (e : Elem) (h : attrViolsElem p e = []) :
    e.name.isEmpty = false ∧ optU64 (elemOffset e) = true ∧ attrsNumeric (elemAttrs e) = true := by
  simp only [attrViolsElem, List.append_eq_nil_iff, ite_nil_iff, Bool.not_eq_true, Bool.not_eq_eq_eq_not, Bool.not_true,
    Bool.and_eq_false_iff, not_or, Bool.not_eq_false] at h
  exact ⟨h.1.1, h.1.2.1, h.1.2.2⟩

mutual
  theorem pElem_complete : ∀ (e : Elem) (p : Path), (∀ q x, (q, x) ∈ subElems p e → ParsedOk q x) → pElem p e = .ok ()
    | .type t, p, h => by
      obtain ⟨ha, _⟩ := h p (.type t) (by simp [subElems])
      obtain ⟨h1, h2, h3⟩ := attrViolsElem_parts _ _ ha
      simp only [attrViolsElem, List.append_eq_nil_iff, ite_nil_iff, Bool.not_eq_true] at ha
      obtain ⟨_, h4, h5⟩ := ha
      simp only [pElem, pType, bind_ok, need_ok, pVersions_ok, exists_const, fitsBits64, optFits64]
      simp only [Elem.name] at h1
      simp only [elemOffset] at h2
      simp only [elemAttrs] at h3
      exact ⟨by simp [h1], by omega, h2, by simp [h4], h3⟩
    | .enum n enc o vs a, p, h => by
      obtain ⟨ha, hd⟩ := h p (.enum n enc o vs a) (by simp [subElems])
      obtain ⟨h1, h2, h3⟩ := attrViolsElem_parts _ _ ha
      simp only [attrViolsElem, List.append_eq_nil_iff, ite_nil_iff, Bool.not_eq_true, List.flatMap_eq_nil_iff] at ha
      obtain ⟨_, h4, h5⟩ := ha
      simp only [dupViolsElem, List.map_eq_nil_iff] at hd
      simp only [pElem, bind_ok, need_ok, pVersions_ok, exists_const, optFits64]
      simp only [Elem.name] at h1
      simp only [elemOffset] at h2
      simp only [elemAttrs] at h3
      exact ⟨by simp [h1], by simp [h4], h3, h2, pValidValues_complete p vs [] h5 hd⟩
    | .set n enc o cs a, p, h => by
      obtain ⟨ha, hd⟩ := h p (.set n enc o cs a) (by simp [subElems])
      obtain ⟨h1, h2, h3⟩ := attrViolsElem_parts _ _ ha
      simp only [attrViolsElem, List.append_eq_nil_iff, ite_nil_iff, Bool.not_eq_true, List.flatMap_eq_nil_iff] at ha
      obtain ⟨_, h4, h5⟩ := ha
      simp only [dupViolsElem, List.map_eq_nil_iff] at hd
      simp only [pElem, bind_ok, need_ok, pVersions_ok, exists_const, optFits64]
      simp only [Elem.name] at h1
      simp only [elemOffset] at h2
      simp only [elemAttrs] at h3
      exact ⟨by simp [h1], by simp [h4], h3, h2, pChoices_complete p cs [] h5 hd⟩
    | .ref n ty o a, p, h => by
      obtain ⟨ha, _⟩ := h p (.ref n ty o a) (by simp [subElems])
      obtain ⟨h1, h2, h3⟩ := attrViolsElem_parts _ _ ha
      simp only [attrViolsElem, List.append_eq_nil_iff, ite_nil_iff, Bool.not_eq_true] at ha
      obtain ⟨_, h4⟩ := ha
      simp only [pElem, bind_ok, need_ok, pVersions_ok, exists_const, optFits64]
      simp only [Elem.name] at h1
      simp only [elemOffset] at h2
      simp only [elemAttrs] at h3
      exact ⟨by simp [h1], by simp [h4], h2, h3⟩
    | .composite n o elems a, p, h => by
      obtain ⟨ha, hd⟩ := h p (.composite n o elems a) (by simp [subElems])
      obtain ⟨h1, h2, h3⟩ := attrViolsElem_parts _ _ ha
      simp only [dupViolsElem, List.map_eq_nil_iff] at hd
      simp only [pElem, bind_ok, need_ok, pVersions_ok, exists_const, optFits64]
      simp only [Elem.name] at h1
      simp only [elemOffset] at h2
      simp only [elemAttrs] at h3
      exact ⟨by simp [h1], h2, h3, pElems_complete elems p [] (fun q x hm => h q x (by simp [subElems, hm])) hd⟩
  theorem pElems_complete : ∀ (elems : List Elem) (p : Path) (seen : List String),
      (∀ q x, (q, x) ∈ subElemsL p elems → ParsedOk q x) → repeats Elem.name seen elems = [] →
      pElems p seen elems = .ok ()
    | [], p, seen, _, _ => by simp [pElems]
    | e :: rest, p, seen, h, hr => by
      obtain ⟨hns, hr'⟩ := (repeats_cons_nil _ _ _ _).mp hr
      simp only [pElems, bind_ok, need_ok, exists_const]
      exact ⟨(), pElem_complete e _ (fun q x hm => h q x (by simp [subElemsL, hm])), not_contains _ _ hns,
        pElems_complete rest p _ (fun q x hm => h q x (by simp [subElemsL, hm])) hr'⟩
end


theorem repeats_prefix {α} (key : α → String) : ∀ (a b : List α) (seen : List String),
    repeats key seen (a ++ b) = [] → repeats key seen a = [] := by
  intro a
  induction a with
  | nil => intro b seen _; simp [repeats]
  | cons x xs ih =>
    intro b seen h
    rw [List.cons_append, repeats_cons_nil] at h
    rw [repeats_cons_nil]
    exact ⟨h.1, ih b _ h.2⟩

theorem fieldAttrViols_nil (lp : Path) (f : FieldDef) :
    fieldAttrViols lp f = [] ↔ f.name.isEmpty = false ∧ f.type.isEmpty = false ∧ f.id ≤ u16Max ∧
      optU64 f.offset = true ∧ attrsNumeric f.attrs = true := by
  unfold fieldAttrViols
  by_cases hid : f.id ≤ u16Max <;>
  cases f.name.isEmpty <;> cases f.type.isEmpty <;> cases optU64 f.offset <;> cases attrsNumeric f.attrs <;> simp [hid]

theorem dataAttrViols_nil (lp : Path) (d : DataDef) :
    dataAttrViols lp d = [] ↔ d.name.isEmpty = false ∧ d.type.isEmpty = false ∧ d.id ≤ u16Max ∧
      attrsNumeric d.attrs = true := by
  unfold dataAttrViols
  by_cases hid : d.id ≤ u16Max <;>
  cases d.name.isEmpty <;> cases d.type.isEmpty <;> cases attrsNumeric d.attrs <;> simp [hid]

theorem groupAttrViols_nil (lp : Path) (g : GroupDef) :
    groupAttrViols lp g = [] ↔ (gName g).isEmpty = false ∧ gId g ≤ u16Max ∧ attrsNumeric (gAttrs g) = true := by
  unfold groupAttrViols
  by_cases hid : gId g ≤ u16Max <;>
  cases (gName g).isEmpty <;> cases attrsNumeric (gAttrs g) <;> simp [hid]

theorem msgAttrViols_nil (m : MessageDef) :
    msgAttrViols m = [] ↔ m.name.isEmpty = false ∧ m.id ≤ u32Max ∧ attrsNumeric m.attrs = true := by
  unfold msgAttrViols
  by_cases hid : m.id ≤ u32Max <;>
  cases m.name.isEmpty <;> cases attrsNumeric m.attrs <;> simp [hid]

theorem pFields_complete (lp : Path) : ∀ (fields : List FieldDef) (seen : List String),
    (∀ f ∈ fields, fieldAttrViols lp f = []) → repeats id seen (fields.map FieldDef.name) = [] →
    pFields lp seen fields = .ok ((fields.map FieldDef.name).reverse ++ seen) := by
  intro fields
  induction fields with
  | nil => intro seen _ _; simp [pFields]
  | cons f rest ih =>
    intro seen ha hr
    obtain ⟨h1, h2, h3, h4, h5⟩ := (fieldAttrViols_nil lp f).mp (ha f (by simp))
    rw [List.map_cons, repeats_cons_nil] at hr
    simp only [id] at hr
    simp only [pFields, pField, bind_ok, need_ok, pVersions_ok, exists_const, fitsBits16, optFits64]
    refine ⟨⟨by simp [h1], h3, by simp [h2], h4, h5⟩, not_contains _ _ hr.1, ?_⟩
    rw [ih _ (fun f' h' => ha f' (by simp [h'])) hr.2]
    simp

theorem pDatas_complete (lp : Path) : ∀ (datas : List DataDef) (seen : List String),
    (∀ d ∈ datas, dataAttrViols lp d = []) → repeats id seen (datas.map DataDef.name) = [] →
    pDatas lp seen datas = .ok () := by
  intro datas
  induction datas with
  | nil => intro seen _ _; simp [pDatas]
  | cons d rest ih =>
    intro seen ha hr
    obtain ⟨h1, h2, h3, h4⟩ := (dataAttrViols_nil lp d).mp (ha d (by simp))
    rw [List.map_cons, repeats_cons_nil] at hr
    simp only [id] at hr
    simp only [pDatas, pData, bind_ok, need_ok, pVersions_ok, exists_const, fitsBits16]
    exact ⟨⟨by simp [h1], h3, by simp [h2], h4⟩, not_contains _ _ hr.1,
      ih _ (fun d' h' => ha d' (by simp [h'])) hr.2⟩

theorem levelParsed_parts (l : LevelView) (h : LevelParsed l) :
    optU64 l.blockLength = true ∧ (∀ f ∈ l.fields, fieldAttrViols l.path f = []) ∧
    (∀ g ∈ l.groups, groupAttrViols l.path g = []) ∧ (∀ d ∈ l.datas, dataAttrViols l.path d = []) ∧
    repeats id [] (l.fields.map FieldDef.name) = [] ∧
    repeats id ((l.fields.map FieldDef.name).reverse ++ []) (l.groups.map gName) = [] ∧
    repeats id ((l.groups.map gName).reverse ++ ((l.fields.map FieldDef.name).reverse ++ []))
      (l.datas.map DataDef.name) = [] := by
  obtain ⟨ha, hd⟩ := h
  simp only [attrViolsLevel, List.append_eq_nil_iff, ite_nil_iff, Bool.not_eq_true, Bool.not_eq_eq_eq_not,
    Bool.not_true, List.flatMap_eq_nil_iff] at ha
  obtain ⟨⟨⟨a1, a2⟩, a3⟩, a4⟩ := ha
  simp only [dupViolsLevel, List.map_eq_nil_iff] at hd
  rw [List.append_assoc] at hd
  have r1 := repeats_prefix id _ _ _ hd
  rw [repeats_append id _ _ _ r1] at hd
  simp only [List.map_id] at hd
  have r2 := repeats_prefix id _ _ _ hd
  rw [repeats_append id _ _ _ r2] at hd
  simp only [List.map_id] at hd
  exact ⟨by simpa using a1, a2, a3, a4, r1, r2, hd⟩

mutual
  theorem pGroup_complete : ∀ (g : GroupDef) (lp : Path), groupAttrViols lp g = [] →
      (∀ l ∈ groupLevels lp g, LevelParsed l) → pGroup lp g = .ok ()
    | .mk n id dim bl fields groups datas a, lp, hg, hl => by
      obtain ⟨b1, b2, b3, b4, r1, r2, r3⟩ :=
        levelParsed_parts _ (hl ⟨lp ++ [n], bl, fields, groups, datas, dim⟩ (by simp [groupLevels]))
      obtain ⟨g1, g2, g3⟩ := (groupAttrViols_nil _ _).mp hg
      simp only [gName, gId, gAttrs] at g1 g2 g3
      simp only at b1 b2 b3 b4 r1 r2 r3
      simp only [pGroup, bind_ok, need_ok, pVersions_ok, exists_const, fitsBits16, optFits64]
      refine ⟨by simp [g1], g2, b1, g3, _, pFields_complete _ fields [] b2 r1, _,
        pGroups_complete groups _ _ b3 r2 (fun l hm => hl l (by simp [groupLevels, hm])), ?_⟩
      exact pDatas_complete _ datas _ b4 r3
  theorem pGroups_complete : ∀ (gs : List GroupDef) (lp : Path) (seen : List String),
      (∀ g ∈ gs, groupAttrViols lp g = []) → repeats id seen (gs.map gName) = [] →
      (∀ l ∈ groupLevelsL lp gs, LevelParsed l) → pGroups lp seen gs = .ok ((gs.map gName).reverse ++ seen)
    | [], lp, seen, _, _, _ => by simp [pGroups]
    | g :: rest, lp, seen, ha, hr, hl => by
      rw [List.map_cons, repeats_cons_nil] at hr
      simp only [id] at hr
      simp only [pGroups, bind_ok, need_ok, exists_const]
      refine ⟨(), pGroup_complete g lp (ha g (by simp)) (fun l hm => hl l (by simp [groupLevelsL, hm])),
        not_contains _ _ hr.1, ?_⟩
      rw [pGroups_complete rest lp _ (fun g' h' => ha g' (by simp [h'])) hr.2
        (fun l hm => hl l (by simp [groupLevelsL, hm]))]
      simp
end

theorem pMessages_complete : ∀ (ms : List MessageDef) (names : List String) (ids : List Nat),
    repeats MessageDef.name names ms = [] → repeatsNat MessageDef.id ids ms = [] →
    (∀ m ∈ ms, msgAttrViols m = [] ∧ ∀ l ∈ messageLevels hdr m, LevelParsed l) →
    pMessages names ids ms = .ok () := by
  intro ms
  induction ms with
  | nil => intro names ids _ _ _; simp [pMessages]
  | cons m rest ih =>
    intro names ids hn hi hm
    rw [repeats_cons_nil] at hn
    rw [repeatsNat_cons_nil] at hi
    obtain ⟨ma, ml⟩ := hm m (by simp)
    obtain ⟨b1, b2, b3, b4, r1, r2, r3⟩ :=
      levelParsed_parts _ (ml ⟨msgPath m, m.blockLength, m.fields, m.groups, m.datas, hdr⟩ (by simp [messageLevels]))
    obtain ⟨g1, g2, g3⟩ := (msgAttrViols_nil m).mp ma
    simp only at b1 b2 b3 b4 r1 r2 r3
    simp only [pMessages, bind_ok, need_ok, pVersions_ok, exists_const, fitsBits32, optFits64]
    refine ⟨by simp [g1], g2, b1, g3, _, pFields_complete _ m.fields [] b2 r1, _,
      pGroups_complete m.groups _ _ b3 r2 (fun l hm' => ml l (by simp [messageLevels, msgPath, hm'])), (),
      pDatas_complete _ m.datas _ b4 r3, not_contains _ _ hn.1, not_contains _ _ hi.1, ?_⟩
    exact ih _ _ hn.2 hi.2 (fun m' h' => hm m' (by simp [h']))

theorem pTypes_complete : ∀ (types : List Elem) (seen : List String),
    repeats (fun (e : Elem) => e.name.toLower) seen types = [] →
    (∀ t ∈ types, pElem ["types", t.name] t = .ok ()) → pTypes seen types = .ok () := by
  intro types
  induction types with
  | nil => intro seen _ _; simp [pTypes]
  | cons x xs ih =>
    intro seen hr ht
    rw [repeats_cons_nil] at hr
    simp only [pTypes, bind_ok, need_ok, exists_const]
    exact ⟨(), ht x (by simp), not_contains _ _ hr.1, ih _ hr.2 (fun t h' => ht t (by simp [h']))⟩

/-- numeric attributes in range, required strings non-empty, names unique per scope ⇒ the parser accepts -/
theorem parsePhase_complete (s : SchemaDef) (ha : attrViols s = []) (hd : dupViols s = []) : parsePhase s = .ok () := by
  simp only [attrViols, List.append_eq_nil_iff, ite_nil_iff, Bool.not_eq_true, Bool.not_eq_eq_eq_not, Bool.not_true,
    Bool.and_eq_false_iff, not_or, Bool.not_eq_false, decide_eq_true_eq, List.flatMap_eq_nil_iff] at ha
  obtain ⟨⟨⟨⟨a1, a2⟩, a3⟩, a4⟩, a5⟩ := ha
  simp only [dupViols, List.append_eq_nil_iff, List.map_eq_nil_iff, List.flatMap_eq_nil_iff] at hd
  obtain ⟨⟨⟨⟨d1, d2⟩, d3⟩, d4⟩, d5⟩ := hd
  simp only [parsePhase, bind_ok, need_ok, exists_const, fitsBits32, fitsBits64]
  refine ⟨a1, a2, (), ?_, ?_⟩
  · apply pTypes_complete _ _ d1
    intro t ht
    apply pElem_complete
    intro q x hm
    have hmem : (q, x) ∈ allElems s := by unfold allElems; exact List.mem_flatMap.mpr ⟨t, ht, hm⟩
    exact ⟨a3 (q, x) hmem, d2 (q, x) hmem⟩
  · apply pMessages_complete _ _ _ d3 d4
    intro m hm
    refine ⟨a4 m hm, ?_⟩
    intro l hl
    have hmem : l ∈ allLevels s := by unfold allLevels; exact List.mem_flatMap.mpr ⟨m, hm, hl⟩
    exact ⟨a5 l hmem, d5 l hmem⟩


/-! ### C++ validator -/

mutual
  theorem cElem_complete : ∀ (e : Elem) (p : Path),
      (∀ q x, (q, x) ∈ subElems p e → isKeyword x.name = false ∧ subNamesNotKw x) → ∃ n, cElem p e = .ok n
    | .type t, p, h => by
      obtain ⟨h1, _⟩ := h p (.type t) (by simp [subElems])
      exact ⟨0, by simp [cElem, bind_ok, cName_ok]; simpa [Elem.name] using h1⟩
    | .enum nm enc o vs a, p, h => by
      obtain ⟨h1, h2⟩ := h p (.enum nm enc o vs a) (by simp [subElems])
      refine ⟨0, ?_⟩
      simp only [cElem, bind_ok, cName_ok, exists_const, allOk_ok]
      exact ⟨by simpa [Elem.name] using h1, h2, by first | trivial | rfl⟩
    | .set nm enc o cs a, p, h => by
      obtain ⟨h1, h2⟩ := h p (.set nm enc o cs a) (by simp [subElems])
      refine ⟨0, ?_⟩
      simp only [cElem, bind_ok, cName_ok, exists_const, allOk_ok]
      exact ⟨by simpa [Elem.name] using h1, h2, by first | trivial | rfl⟩
    | .ref nm ty o a, p, h => by
      obtain ⟨h1, _⟩ := h p (.ref nm ty o a) (by simp [subElems])
      exact ⟨0, by simp [cElem, bind_ok, cName_ok]; simpa [Elem.name] using h1⟩
    | .composite nm o elems a, p, h => by
      obtain ⟨h1, _⟩ := h p (.composite nm o elems a) (by simp [subElems])
      obtain ⟨n, hn⟩ := cElems_complete elems p (fun q x hm => h q x (by simp [subElems, hm]))
      refine ⟨n, ?_⟩
      simp only [cElem, bind_ok, cName_ok, exists_const]
      exact ⟨by simpa [Elem.name] using h1, hn⟩
  theorem cElems_complete : ∀ (elems : List Elem) (p : Path),
      (∀ q x, (q, x) ∈ subElemsL p elems → isKeyword x.name = false ∧ subNamesNotKw x) → ∃ n, cElems p elems = .ok n
    | [], p, _ => ⟨0, by simp [cElems]⟩
    | e :: rest, p, h => by
      obtain ⟨m, hm⟩ := cElem_complete e (p ++ [e.name]) (fun q x hx => h q x (by simp [subElemsL, hx]))
      obtain ⟨n, hn⟩ := cElems_complete rest p (fun q x hx => h q x (by simp [subElemsL, hx]))
      exact ⟨n, by simp only [cElems, bind_ok]; exact ⟨m, hm, hn⟩⟩
end

mutual
  theorem cGroup_complete : ∀ (g : GroupDef) (lp : Path), isKeyword (gName g) = false →
      (∀ l ∈ groupLevels lp g, LevelNotKw l) → cGroup lp g = .ok ()
    | .mk n id dim bl fields groups datas a, lp, hn, hl => by
      obtain ⟨k1, k2, k3⟩ := hl ⟨lp ++ [n], bl, fields, groups, datas, dim⟩ (by simp [groupLevels])
      simp only [cGroup, bind_ok, cName_ok, exists_const, allOk_ok]
      exact ⟨by simpa [gName] using hn, k1, (),
        cGroups_complete groups _ k2 (fun l hm => hl l (by simp [groupLevels, hm])), k3⟩
  theorem cGroups_complete : ∀ (gs : List GroupDef) (lp : Path), (∀ g ∈ gs, isKeyword (gName g) = false) →
      (∀ l ∈ groupLevelsL lp gs, LevelNotKw l) → cGroups lp gs = .ok ()
    | [], lp, _, _ => by simp [cGroups]
    | g :: rest, lp, hg, hl => by
      simp only [cGroups, bind_ok, exists_const]
      exact ⟨(), cGroup_complete g lp (hg g (by simp)) (fun l hm => hl l (by simp [groupLevelsL, hm])),
        cGroups_complete rest lp (fun g' h' => hg g' (by simp [h'])) (fun l hm => hl l (by simp [groupLevelsL, hm]))⟩
end

theorem cMessage_complete (m : MessageDef) (hn : isKeyword m.name = false)
    (hl : ∀ l ∈ messageLevels hdr m, LevelNotKw l) : cMessage m = .ok () := by
  obtain ⟨k1, k2, k3⟩ := hl ⟨msgPath m, m.blockLength, m.fields, m.groups, m.datas, hdr⟩ (by simp [messageLevels])
  simp only [cMessage, bind_ok, cName_ok, exists_const, allOk_ok]
  exact ⟨hn, k1, (), cGroups_complete m.groups _ k2 (fun l hm => hl l (by simp [messageLevels, msgPath, hm])), k3⟩

theorem cppPhase_complete (s : SchemaDef) (hns : validNamespace s.package = true)
    (hE : ∀ q x, (q, x) ∈ allElems s → isKeyword x.name = false ∧ subNamesNotKw x)
    (hM : ∀ m ∈ s.messages, isKeyword m.name = false) (hL : ∀ l ∈ allLevels s, LevelNotKw l) :
    cppPhase s = .ok () := by
  simp only [cppPhase, bind_ok, need_ok, exists_const, anyOrder_ok, firstErrors_nil, allOk_ok]
  refine ⟨?_, ?_, ?_⟩
  · unfold validNamespace at hns
    rw [symbolic_eq, keyword_eq]
    unfold isReservedCppNamespace
    simp only [Bool.and_eq_true, Bool.not_eq_eq_eq_not, Bool.not_true, bne_iff_ne, ne_eq] at hns
    obtain ⟨⟨⟨a, b⟩, c⟩, d⟩ := hns
    simp [a, b, c, d]
  · intro t ht
    exact cElem_complete t _ (fun q x hm => hE q x (by unfold allElems; exact List.mem_flatMap.mpr ⟨t, ht, hm⟩))
  · intro m hm
    exact cMessage_complete m (hM m hm)
      (fun l hl => hL l (by unfold allLevels; exact List.mem_flatMap.mpr ⟨m, hm, hl⟩))

/-! ### assembly -/

theorem nameViols_parts (s : SchemaDef) (h : nameViols s = []) :
    validNamespace s.package = true ∧ ∀ n p, (n, p) ∈ entityNames s → symbolicName n = true ∧ isKeyword n = false := by
  unfold nameViols at h
  simp only [List.append_eq_nil_iff, ite_nil_iff, Bool.not_eq_true, Bool.not_eq_eq_eq_not, Bool.not_true,
    Bool.not_eq_false, List.filterMap_eq_nil_iff] at h
  refine ⟨h.2, ?_⟩
  intro n p hm
  have := h.1 (n, p) hm
  simp only at this
  cases hs : symbolicName n with
  | false => simp [hs] at this
  | true =>
    cases hk : isKeyword n with
    | false => exact ⟨rfl, rfl⟩
    | true => simp [hs, hk] at this

theorem entityNames_elem (s : SchemaDef) (q : Path) (x : Elem) (hm : (q, x) ∈ allElems s) :
    (x.name, q) ∈ entityNames s := by
  unfold entityNames
  refine List.mem_append.mpr (Or.inl (List.mem_append.mpr (Or.inl (List.mem_flatMap.mpr ⟨(q, x), hm, ?_⟩))))
  exact List.mem_cons_self

theorem entityNames_vv (s : SchemaDef) (q : Path) (nm enc : String) (o : Option Nat) (vs : List ValidValue) (a : Attrs)
    (hm : (q, Elem.enum nm enc o vs a) ∈ allElems s) (v : ValidValue) (hv : v ∈ vs) :
    (v.name, q ++ [v.name]) ∈ entityNames s := by
  unfold entityNames
  refine List.mem_append.mpr (Or.inl (List.mem_append.mpr (Or.inl (List.mem_flatMap.mpr ⟨(q, _), hm, ?_⟩))))
  exact List.mem_cons_of_mem _ (List.mem_map.mpr ⟨v, hv, rfl⟩)

theorem entityNames_choice (s : SchemaDef) (q : Path) (nm enc : String) (o : Option Nat) (cs : List Choice) (a : Attrs)
    (hm : (q, Elem.set nm enc o cs a) ∈ allElems s) (c : Choice) (hc : c ∈ cs) :
    (c.name, q ++ [c.name]) ∈ entityNames s := by
  unfold entityNames
  refine List.mem_append.mpr (Or.inl (List.mem_append.mpr (Or.inl (List.mem_flatMap.mpr ⟨(q, _), hm, ?_⟩))))
  exact List.mem_cons_of_mem _ (List.mem_map.mpr ⟨c, hc, rfl⟩)

theorem entityNames_msg (s : SchemaDef) (m : MessageDef) (hm : m ∈ s.messages) : (m.name, msgPath m) ∈ entityNames s := by
  unfold entityNames
  exact List.mem_append.mpr (Or.inl (List.mem_append.mpr (Or.inr (List.mem_map.mpr ⟨m, hm, rfl⟩))))

theorem entityNames_field (s : SchemaDef) (l : LevelView) (hl : l ∈ allLevels s) (f : FieldDef) (hf : f ∈ l.fields) :
    (f.name, l.path ++ [f.name]) ∈ entityNames s := by
  unfold entityNames
  refine List.mem_append.mpr (Or.inr (List.mem_flatMap.mpr ⟨l, hl, ?_⟩))
  exact List.mem_append.mpr (Or.inl (List.mem_append.mpr (Or.inl (List.mem_map.mpr ⟨f, hf, rfl⟩))))

theorem entityNames_group (s : SchemaDef) (l : LevelView) (hl : l ∈ allLevels s) (g : GroupDef) (hg : g ∈ l.groups) :
    (gName g, l.path ++ [gName g]) ∈ entityNames s := by
  unfold entityNames
  refine List.mem_append.mpr (Or.inr (List.mem_flatMap.mpr ⟨l, hl, ?_⟩))
  exact List.mem_append.mpr (Or.inl (List.mem_append.mpr (Or.inr (List.mem_map.mpr ⟨g, hg, rfl⟩))))

theorem entityNames_data (s : SchemaDef) (l : LevelView) (hl : l ∈ allLevels s) (d : DataDef) (hd : d ∈ l.datas) :
    (d.name, l.path ++ [d.name]) ∈ entityNames s := by
  unfold entityNames
  refine List.mem_append.mpr (Or.inr (List.mem_flatMap.mpr ⟨l, hl, ?_⟩))
  exact List.mem_append.mpr (Or.inr (List.mem_map.mpr ⟨d, hd, rfl⟩))

/-- **acceptance**: a schema (as produced by the parser: `<ref>` only inside composites) that breaks
    none of the rules sbeppc has a diagnostic for is accepted by the model -/
theorem no_violation_check_ok (hfp : FpAgree) (s : SchemaDef)
    (hnr : NoTopLevelRef s.types) (h : violations s = []) : check s = .ok () := by
  unfold violations at h
  simp only [List.append_eq_nil_iff, List.flatMap_eq_nil_iff] at h
  obtain ⟨⟨⟨⟨⟨⟨⟨⟨⟨va, vd⟩, vn⟩, ve⟩, vc⟩, vh⟩, vid⟩, vver⟩, vtid⟩, vl⟩ := h
  obtain ⟨hns, hnames⟩ := nameViols_parts s vn
  have hp := parsePhase_complete s va vd
  obtain ⟨_, _, hnd⟩ := parsePhase_good s hp
  -- names of the parts of each encoding
  have hsubE : ∀ q x, (q, x) ∈ allElems s → subNamesOk x ∧ subNamesNotKw x := by
    intro q x hm
    cases x with
    | enum nm enc o vs a =>
      exact ⟨fun v hv => (hnames _ _ (entityNames_vv s q nm enc o vs a hm v hv)).1,
             fun v hv => (hnames _ _ (entityNames_vv s q nm enc o vs a hm v hv)).2⟩
    | set nm enc o cs a =>
      exact ⟨fun c hc => (hnames _ _ (entityNames_choice s q nm enc o cs a hm c hc)).1,
             fun c hc => (hnames _ _ (entityNames_choice s q nm enc o cs a hm c hc)).2⟩
    | type t => exact ⟨trivial, trivial⟩
    | ref nm ty o a => exact ⟨trivial, trivial⟩
    | composite nm o elems a => exact ⟨trivial, trivial⟩
  have hgood : ∀ q x, (q, x) ∈ allElems s → ElemGood s.types q x := fun q x hm =>
    ⟨(hnames _ _ (entityNames_elem s q x hm)).1, (hsubE q x hm).1, ve (q, x) hm⟩
  have ht := typesPhase_complete hfp s hnd hgood vc
  have hsz : SizesAgree s.types := sizesAgree_of_phase hfp s ht
  have hmsgN : ∀ m ∈ s.messages, symbolicName m.name = true ∧ isKeyword m.name = false :=
    fun m hm => hnames _ _ (entityNames_msg s m hm)
  have hlevN : ∀ l ∈ allLevels s,
      (∀ f ∈ l.fields, symbolicName f.name = true ∧ isKeyword f.name = false) ∧
      (∀ g ∈ l.groups, symbolicName (gName g) = true ∧ isKeyword (gName g) = false) ∧
      (∀ d ∈ l.datas, symbolicName d.name = true ∧ isKeyword d.name = false) :=
    fun l hl => ⟨fun f hf => hnames _ _ (entityNames_field s l hl f hf),
                 fun g hg => hnames _ _ (entityNames_group s l hl g hg),
                 fun d hd => hnames _ _ (entityNames_data s l hl d hd)⟩
  have hlev : ∀ l ∈ allLevels s, LevelGood s.types l := fun l hl =>
    ⟨fun f hf => ((hlevN l hl).1 f hf).1, fun g hg => ((hlevN l hl).2.1 g hg).1,
     fun d hd => ((hlevN l hl).2.2 d hd).1, vl l hl⟩
  have hm := messagesPhase_complete hfp s hnr hsz vh vid vver vtid (fun m hmm => (hmsgN m hmm).1) hlev
  have hc := cppPhase_complete s hns
    (fun q x hx => ⟨(hnames _ _ (entityNames_elem s q x hx)).2, (hsubE q x hx).2⟩)
    (fun m hmm => (hmsgN m hmm).2)
    (fun l hl => ⟨fun f hf => ((hlevN l hl).1 f hf).2, fun g hg => ((hlevN l hl).2.1 g hg).2,
      fun d hd => ((hlevN l hl).2.2 d hd).2⟩)
  exact (check_phases s).mpr ⟨hp, ht, hm, hc⟩

/-- **check_ok_iff_rules** (enforced rules): accepted ⇔ no enforced rule is broken -/
theorem check_ok_iff_enforced (hfp : FpAgree) (s : SchemaDef)
    (hnr : NoTopLevelRef s.types) : check s = .ok () ↔ violations s = [] :=
  ⟨check_ok_no_violation hfp s, no_violation_check_ok hfp s hnr⟩

end Sbepp.Schema.Rules
