/-
  The walk over a buffer that contains a well-formed image ends exactly at the
  end of the image, for any nesting depth, any entry counts, any data lengths and
  any wire block lengths ≥ the compiled ones (schema extension).
-/
import Sbepp.Rt.Walk

namespace Sbepp

theorem slice_mid (pre mid post : List Nat) (off n : Nat) (h : off + n ≤ mid.length) :
    slice (pre ++ mid ++ post) (pre.length + off) n = slice mid off n := by
  unfold slice
  rw [List.append_assoc, ← List.drop_drop, List.drop_left, List.drop_append_of_le_length (by omega)]
  rw [List.take_append_of_le_length (by simp [List.length_drop]; omega)]

theorem rd_mid (bo : ByteOrder) (pre mid post : List Nat) (off w : Nat) (h : off + w ≤ mid.length) :
    rd bo (pre ++ mid ++ post) (pre.length + off) w = get bo (slice mid off w) := by
  unfold rd; rw [slice_mid pre mid post off w h]

theorem slice_zero_full (bs : List Nat) : slice bs 0 bs.length = bs := by simp [slice]

theorem rd_put (bo : ByteOrder) (pre rest : List Nat) (w n : Nat) (h : n < 256 ^ w) :
    rd bo (pre ++ put bo w n ++ rest) pre.length w = n := by
  have := rd_mid bo pre (put bo w n) rest 0 w (by simp)
  simp only [Nat.add_zero] at this
  rw [this]
  have h2 : slice (put bo w n) 0 w = put bo w n := by
    have := slice_zero_full (put bo w n); simpa using this
  rw [h2, get_put bo w n h]

theorem endDs_spec (bo : ByteOrder) (ds : List DataL) (dvs : List (List Nat)) (buf pre post : List Nat)
    (hc : ConfDs ds dvs) (hbuf : buf = pre ++ flattenDs bo ds dvs ++ post) :
    endDs bo buf ds pre.length = pre.length + (flattenDs bo ds dvs).length := by
  induction ds generalizing dvs pre with
  | nil => cases dvs <;> simp [endDs, flattenDs]
  | cons d ds ih =>
    cases dvs with
    | nil => simp [ConfDs] at hc
    | cons p ps =>
      obtain ⟨⟨hlen, _⟩, hrest⟩ := hc
      simp only [endDs, flattenDs, flattenD]
      have hb1 : buf = pre ++ put bo d.lenSize p.length ++ (p ++ flattenDs bo ds ps ++ post) := by
        rw [hbuf]; simp [flattenDs, flattenD, List.append_assoc]
      have hrd : rd bo buf pre.length d.lenSize = p.length := by
        rw [hb1]; exact rd_put bo pre _ d.lenSize p.length hlen
      rw [hrd]
      have hb2 : buf = (pre ++ put bo d.lenSize p.length ++ p) ++ flattenDs bo ds ps ++ post := by
        rw [hbuf]; simp [flattenDs, flattenD, List.append_assoc]
      have := ih ps (pre ++ put bo d.lenSize p.length ++ p) hrest hb2
      simp only [List.length_append, put_length] at this ⊢
      rw [this]; omega

mutual
  theorem endL_spec (bo : ByteOrder) (l : Level) (v : LVal) (wbl : Nat) (buf pre post : List Nat)
      (hc : ConfL bo l v wbl) (hbuf : buf = pre ++ flattenL bo l v ++ post) :
      endL bo buf l pre.length wbl = pre.length + (flattenL bo l v).length := by
    match l, v with
    | .mk bl lv gs ds, .mk block gvs dvs =>
      obtain ⟨hblk, _, hgs, hds⟩ := hc
      simp only [endL, flattenL]
      have hb1 : buf = (pre ++ block) ++ flattenGs bo gs gvs ++ (flattenDs bo ds dvs ++ post) := by
        rw [hbuf]; simp [flattenL, List.append_assoc]
      have h1 := endGs_spec bo gs gvs buf (pre ++ block) (flattenDs bo ds dvs ++ post) hgs hb1
      simp only [List.length_append, hblk] at h1
      rw [h1]
      have hb2 : buf = (pre ++ block ++ flattenGs bo gs gvs) ++ flattenDs bo ds dvs ++ post := by
        rw [hbuf]; simp [flattenL, List.append_assoc]
      have h2 := endDs_spec bo ds dvs buf (pre ++ block ++ flattenGs bo gs gvs) post hds hb2
      simp only [List.length_append, hblk] at h2
      rw [h2]; simp only [List.length_append, hblk]; omega
  theorem endGs_spec (bo : ByteOrder) (gs : List Group) (gvs : List GVal) (buf pre post : List Nat)
      (hc : ConfGs bo gs gvs) (hbuf : buf = pre ++ flattenGs bo gs gvs ++ post) :
      endGs bo buf gs pre.length = pre.length + (flattenGs bo gs gvs).length := by
    match gs, gvs with
    | [], [] => simp [endGs, flattenGs]
    | [], _ :: _ => simp [ConfGs] at hc
    | _ :: _, [] => simp [ConfGs] at hc
    | g :: gs, v :: vs =>
      obtain ⟨hg, hrest⟩ := hc
      simp only [endGs, flattenGs]
      have hb1 : buf = pre ++ flattenG bo g v ++ (flattenGs bo gs vs ++ post) := by
        rw [hbuf]; simp [flattenGs, List.append_assoc]
      rw [endG_spec bo g v buf pre (flattenGs bo gs vs ++ post) hg hb1]
      have hb2 : buf = (pre ++ flattenG bo g v) ++ flattenGs bo gs vs ++ post := by
        rw [hbuf]; simp [flattenGs, List.append_assoc]
      have := endGs_spec bo gs vs buf (pre ++ flattenG bo g v) post hrest hb2
      simp only [List.length_append] at this ⊢
      rw [this]; omega
  theorem endG_spec (bo : ByteOrder) (g : Group) (v : GVal) (buf pre post : List Nat)
      (hc : ConfG bo g v) (hbuf : buf = pre ++ flattenG bo g v ++ post) :
      endG bo buf g pre.length = pre.length + (flattenG bo g v).length := by
    match g, v with
    | .mk dim l, .mk hdr es =>
      obtain ⟨hlen, hbl, hnum, hn, hes⟩ := hc
      simp only [endG, flattenG]
      have hb1 : buf = pre ++ hdr ++ (flattenEs bo l es ++ post) := by
        rw [hbuf]; simp [flattenG, List.append_assoc]
      have hrn : rd bo buf (pre.length + dim.numOff) dim.numSize = es.length := by
        rw [hb1, rd_mid bo pre hdr _ dim.numOff dim.numSize (by omega), hn]
      have hrb : rd bo buf (pre.length + dim.blOff) dim.blSize = get bo (slice hdr dim.blOff dim.blSize) := by
        rw [hb1, rd_mid bo pre hdr _ dim.blOff dim.blSize (by omega)]
      rw [hrn, hrb]
      have hb2 : buf = (pre ++ hdr) ++ flattenEs bo l es ++ post := by
        rw [hbuf]; simp [flattenG, List.append_assoc]
      have := endEs_spec bo l es _ buf (pre ++ hdr) post hes hb2
      simp only [List.length_append, hlen] at this ⊢
      rw [this]; omega
  theorem endEs_spec (bo : ByteOrder) (l : Level) (es : List LVal) (wbl : Nat) (buf pre post : List Nat)
      (hc : ConfEs bo l es wbl) (hbuf : buf = pre ++ flattenEs bo l es ++ post) :
      iter (fun q => endL bo buf l q wbl) es.length pre.length = pre.length + (flattenEs bo l es).length := by
    match es with
    | [] => simp [iter, flattenEs]
    | e :: es =>
      obtain ⟨he, hrest⟩ := hc
      simp only [List.length_cons, iter, flattenEs]
      have hb1 : buf = pre ++ flattenL bo l e ++ (flattenEs bo l es ++ post) := by
        rw [hbuf]; simp [flattenEs, List.append_assoc]
      rw [endL_spec bo l e wbl buf pre (flattenEs bo l es ++ post) he hb1]
      have hb2 : buf = (pre ++ flattenL bo l e) ++ flattenEs bo l es ++ post := by
        rw [hbuf]; simp [flattenEs, List.append_assoc]
      have := endEs_spec bo l es wbl buf (pre ++ flattenL bo l e) post hrest hb2
      simp only [List.length_append] at this ⊢
      rw [this]; omega
end

end Sbepp
