/-
  The entity enumeration of the model (`Gen.Traits.entities`, recursive
  functions) enumerates exactly the entities of the declarative specification
  (`Spec.Traits.EntityAt`, inductive predicates).
-/
import Sbepp.Lemmas.Traits

namespace Sbepp.Gen.Traits
open Sbepp Sbepp.Schema Sbepp.Spec.Traits

theorem splitAt_head {α : Type} (x : α) (rest : List α) : SplitAt (x :: rest) [] x := ⟨rest, rfl⟩

theorem splitAt_tail {α : Type} (y : α) (rest b : List α) (x : α) (h : SplitAt rest b x) : SplitAt (y :: rest) (y :: b) x := by
  obtain ⟨after, rfl⟩ := h
  exact ⟨after, rfl⟩

theorem splitAt_cons {α : Type} (y : α) (rest b : List α) (x : α) (h : SplitAt (y :: rest) b x) :
    (b = [] ∧ x = y) ∨ ∃ b', b = y :: b' ∧ SplitAt rest b' x := by
  obtain ⟨after, h⟩ := h
  cases b with
  | nil =>
    simp only [List.nil_append, List.cons.injEq] at h
    exact Or.inl ⟨rfl, h.1.symm⟩
  | cons z b' =>
    simp only [List.cons_append, List.cons.injEq] at h
    exact Or.inr ⟨b', by rw [h.1], ⟨after, h.2⟩⟩

theorem splitAt_mem {α : Type} (l b : List α) (x : α) (h : SplitAt l b x) : x ∈ l := by
  obtain ⟨after, rfl⟩ := h
  simp

theorem mem_splitAt {α : Type} (l : List α) (x : α) (h : x ∈ l) : ∃ b, SplitAt l b x := by
  obtain ⟨b, after, rfl⟩ := List.append_of_mem h
  exact ⟨b, after, rfl⟩

/-! ### fields -/

theorem mem_fieldEntities (pfx : Path) : ∀ (fs b : List FieldDef) (x : Path × Entity),
    x ∈ fieldEntities pfx b fs ↔ ∃ b' f, SplitAt fs b' f ∧ x = (pfx ++ [f.name], Entity.field f (b ++ b')) := by
  intro fs
  induction fs with
  | nil =>
    intro b x
    simp only [fieldEntities, List.not_mem_nil, false_iff]
    rintro ⟨b', f, ⟨after, h⟩, _⟩
    simp at h
  | cons f0 rest ih =>
    intro b x
    simp only [fieldEntities, List.mem_cons]
    constructor
    · rintro (h | h)
      · exact ⟨[], f0, splitAt_head _ _, by simpa using h⟩
      · obtain ⟨b', f, hs, hx⟩ := (ih _ _).mp h
        exact ⟨f0 :: b', f, splitAt_tail _ _ _ _ hs, by simpa using hx⟩
    · rintro ⟨b', f, hs, hx⟩
      rcases splitAt_cons _ _ _ _ hs with ⟨rfl, rfl⟩ | ⟨b'', rfl, hs'⟩
      · left; simpa using hx
      · right
        exact (ih _ _).mpr ⟨b'', f, hs', by simpa using hx⟩

/-! ### encodings -/

theorem mem_elemsEntities_of_split (pfx : Path) (y : Path × Entity) : ∀ (es b b' : List Elem) (x : Elem),
    SplitAt es b' x → y ∈ elemEntities pfx (some (b ++ b')) x → y ∈ elemsEntities pfx b es := by
  intro es
  induction es with
  | nil =>
    intro b b' x hs
    obtain ⟨after, h⟩ := hs
    simp at h
  | cons e0 rest ih =>
    intro b b' x hs hy
    simp only [elemsEntities, List.mem_append]
    rcases splitAt_cons _ _ _ _ hs with ⟨rfl, rfl⟩ | ⟨b'', rfl, hs'⟩
    · left; simpa using hy
    · right
      exact ih (b ++ [e0]) b'' x hs' (by simpa using hy)

theorem elem_self_mem (pfx : Path) (ctx : Option (List Elem)) (e : Elem) :
    (pfx ++ [e.name], Entity.elem e ctx) ∈ elemEntities pfx ctx e := by
  cases e <;> simp [elemEntities, Elem.name]

/-- completeness for encodings -/
theorem elemAt_mem {pfx : Path} {ctx : Option (List Elem)} {e : Elem} {p : Path} {ent : Entity}
    (h : ElemAt pfx ctx e p ent) : (p, ent) ∈ elemEntities pfx ctx e := by
  induction h with
  | self pfx ctx e => exact elem_self_mem pfx ctx e
  | value pfx ctx n enc o vs a v hv =>
    simp only [elemEntities, leafEntities, List.mem_cons, List.mem_map]
    right
    exact ⟨v, hv, by simp⟩
  | choice pfx ctx n enc o cs a c hc =>
    simp only [elemEntities, leafEntities, List.mem_cons, List.mem_map]
    right
    exact ⟨c, hc, by simp⟩
  | nested pfx ctx n o elems a before x p ent hs _ ih =>
    simp only [elemEntities, List.mem_cons]
    right
    exact mem_elemsEntities_of_split _ _ elems [] before x hs (by simpa using ih)

mutual
  /-- soundness for encodings -/
  theorem elem_sound : ∀ (e : Elem) (pfx : Path) (ctx : Option (List Elem)) (p : Path) (ent : Entity),
      (p, ent) ∈ elemEntities pfx ctx e → ElemAt pfx ctx e p ent
    | .type t, pfx, ctx, p, ent, h => by
      simp only [elemEntities, List.mem_singleton, Prod.mk.injEq] at h
      obtain ⟨rfl, rfl⟩ := h
      exact ElemAt.self pfx ctx (.type t)
    | .ref n ty o a, pfx, ctx, p, ent, h => by
      simp only [elemEntities, List.mem_singleton, Prod.mk.injEq] at h
      obtain ⟨rfl, rfl⟩ := h
      exact ElemAt.self pfx ctx (.ref n ty o a)
    | .enum n enc o vs a, pfx, ctx, p, ent, h => by
      simp only [elemEntities, leafEntities, List.mem_cons, List.mem_map, Prod.mk.injEq] at h
      rcases h with ⟨rfl, rfl⟩ | ⟨v, hv, rfl, rfl⟩
      · exact ElemAt.self pfx ctx (.enum n enc o vs a)
      · exact ElemAt.value pfx ctx n enc o vs a v hv
    | .set n enc o cs a, pfx, ctx, p, ent, h => by
      simp only [elemEntities, leafEntities, List.mem_cons, List.mem_map, Prod.mk.injEq] at h
      rcases h with ⟨rfl, rfl⟩ | ⟨c, hc, rfl, rfl⟩
      · exact ElemAt.self pfx ctx (.set n enc o cs a)
      · exact ElemAt.choice pfx ctx n enc o cs a c hc
    | .composite n o elems a, pfx, ctx, p, ent, h => by
      simp only [elemEntities, List.mem_cons, Prod.mk.injEq] at h
      rcases h with ⟨rfl, rfl⟩ | h
      · exact ElemAt.self pfx ctx (.composite n o elems a)
      · obtain ⟨b', x, hs, hx⟩ := elems_sound elems (pfx ++ [n]) [] p ent h
        exact ElemAt.nested pfx ctx n o elems a b' x p ent hs (by simpa using hx)
  theorem elems_sound : ∀ (es : List Elem) (pfx : Path) (b : List Elem) (p : Path) (ent : Entity),
      (p, ent) ∈ elemsEntities pfx b es → ∃ b' x, SplitAt es b' x ∧ ElemAt pfx (some (b ++ b')) x p ent
    | [], pfx, b, p, ent, h => by simp [elemsEntities] at h
    | e :: rest, pfx, b, p, ent, h => by
      simp only [elemsEntities, List.mem_append] at h
      rcases h with h | h
      · exact ⟨[], e, splitAt_head _ _, by simpa using elem_sound e pfx (some b) p ent h⟩
      · obtain ⟨b', x, hs, hx⟩ := elems_sound rest pfx (b ++ [e]) p ent h
        exact ⟨e :: b', x, splitAt_tail _ _ _ _ hs, by simpa using hx⟩
end

/-! ### levels -/

theorem mem_groupsEntities_of_mem (pfx : Path) (y : Path × Entity) : ∀ (gs : List GroupDef) (g : GroupDef),
    g ∈ gs → y ∈ groupEntities pfx g → y ∈ groupsEntities pfx gs := by
  intro gs
  induction gs with
  | nil => intro g hg; simp at hg
  | cons g0 rest ih =>
    intro g hg hy
    simp only [groupsEntities, List.mem_append]
    rcases List.mem_cons.mp hg with rfl | hg'
    · exact Or.inl hy
    · exact Or.inr (ih g hg' hy)

theorem groupEntities_eq (pfx : Path) (g : GroupDef) :
    groupEntities pfx g = (pfx ++ [gName g], Entity.group g) ::
      (fieldEntities (pfx ++ [gName g]) [] (gFields g) ++
        (groupsEntities (pfx ++ [gName g]) (gGroups g) ++ dataEntities (pfx ++ [gName g]) (gDatas g))) := by
  cases g
  simp [groupEntities, gName, gFields, gGroups, gDatas]

/-- the entities below a level, as the model enumerates them -/
def levelEntities (pfx : Path) (fs : List FieldDef) (gs : List GroupDef) (ds : List DataDef) : List (Path × Entity) :=
  fieldEntities pfx [] fs ++ (groupsEntities pfx gs ++ dataEntities pfx ds)

/-- completeness for levels -/
theorem levelAt_mem {pfx : Path} {fs : List FieldDef} {gs : List GroupDef} {ds : List DataDef} {p : Path} {ent : Entity}
    (h : LevelAt pfx fs gs ds p ent) : (p, ent) ∈ levelEntities pfx fs gs ds := by
  induction h with
  | field pfx fs gs ds before f hs =>
    simp only [levelEntities, List.mem_append]
    left
    exact (mem_fieldEntities pfx fs [] _).mpr ⟨before, f, hs, by simp⟩
  | group pfx fs gs ds g hg =>
    simp only [levelEntities, List.mem_append]
    right; left
    exact mem_groupsEntities_of_mem pfx _ gs g hg (by rw [groupEntities_eq]; simp)
  | data pfx fs gs ds d hd =>
    simp only [levelEntities, List.mem_append, dataEntities, List.mem_map]
    right; right
    exact ⟨d, hd, rfl⟩
  | nested pfx fs gs ds g p ent hg _ ih =>
    simp only [levelEntities, List.mem_append]
    right; left
    refine mem_groupsEntities_of_mem pfx _ gs g hg ?_
    rw [groupEntities_eq]
    exact List.mem_cons_of_mem _ ih

mutual
  theorem group_sound : ∀ (g : GroupDef) (pfx : Path) (p : Path) (ent : Entity),
      (p, ent) ∈ groupEntities pfx g →
        (p = pfx ++ [gName g] ∧ ent = Entity.group g) ∨
          LevelAt (pfx ++ [gName g]) (gFields g) (gGroups g) (gDatas g) p ent
    | .mk n i d b fs gs ds a, pfx, p, ent, h => by
      simp only [groupEntities, List.mem_cons, Prod.mk.injEq, List.mem_append] at h
      simp only [gName, gFields, gGroups, gDatas]
      rcases h with ⟨rfl, rfl⟩ | h | h | h
      · exact Or.inl ⟨rfl, rfl⟩
      · right
        obtain ⟨b', f, hs, hx⟩ := (mem_fieldEntities _ _ _ _).mp h
        simp only [List.nil_append, Prod.mk.injEq] at hx
        obtain ⟨rfl, rfl⟩ := hx
        exact LevelAt.field _ _ _ _ b' f hs
      · right
        obtain ⟨g, hg, hx⟩ := groups_sound gs (pfx ++ [n]) p ent h
        rcases hx with ⟨rfl, rfl⟩ | hx
        · exact LevelAt.group _ _ _ _ g hg
        · exact LevelAt.nested _ _ _ _ g p ent hg hx
      · right
        simp only [dataEntities, List.mem_map, Prod.mk.injEq] at h
        obtain ⟨d', hd, rfl, rfl⟩ := h
        exact LevelAt.data _ _ _ _ d' hd
  theorem groups_sound : ∀ (gs : List GroupDef) (pfx : Path) (p : Path) (ent : Entity),
      (p, ent) ∈ groupsEntities pfx gs → ∃ g, g ∈ gs ∧
        ((p = pfx ++ [gName g] ∧ ent = Entity.group g) ∨
          LevelAt (pfx ++ [gName g]) (gFields g) (gGroups g) (gDatas g) p ent)
    | [], pfx, p, ent, h => by simp [groupsEntities] at h
    | g :: rest, pfx, p, ent, h => by
      simp only [groupsEntities, List.mem_append] at h
      rcases h with h | h
      · exact ⟨g, by simp, group_sound g pfx p ent h⟩
      · obtain ⟨g', hg, hx⟩ := groups_sound rest pfx p ent h
        exact ⟨g', List.mem_cons_of_mem _ hg, hx⟩
end

/-- soundness for levels -/
theorem level_sound (pfx : Path) (fs : List FieldDef) (gs : List GroupDef) (ds : List DataDef) (p : Path) (ent : Entity)
    (h : (p, ent) ∈ levelEntities pfx fs gs ds) : LevelAt pfx fs gs ds p ent := by
  simp only [levelEntities, List.mem_append] at h
  rcases h with h | h | h
  · obtain ⟨b', f, hs, hx⟩ := (mem_fieldEntities _ _ _ _).mp h
    simp only [List.nil_append, Prod.mk.injEq] at hx
    obtain ⟨rfl, rfl⟩ := hx
    exact LevelAt.field _ _ _ _ b' f hs
  · obtain ⟨g, hg, hx⟩ := groups_sound gs pfx p ent h
    rcases hx with ⟨rfl, rfl⟩ | hx
    · exact LevelAt.group _ _ _ _ g hg
    · exact LevelAt.nested _ _ _ _ g p ent hg hx
  · simp only [dataEntities, List.mem_map, Prod.mk.injEq] at h
    obtain ⟨d', hd, rfl, rfl⟩ := h
    exact LevelAt.data _ _ _ _ d' hd

/-! ### the schema -/

theorem mem_typesEntities (y : Path × Entity) : ∀ (ts : List Elem),
    y ∈ typesEntities ts ↔ ∃ e, e ∈ ts ∧ y ∈ elemEntities ["types"] none e := by
  intro ts
  induction ts with
  | nil => simp [typesEntities]
  | cons e rest ih => simp [typesEntities, ih]

theorem messageEntities_eq (m : MessageDef) :
    messageEntities m = (["messages", m.name], Entity.message m) ::
      levelEntities ["messages", m.name] m.fields m.groups m.datas := rfl

theorem mem_messagesEntities (y : Path × Entity) : ∀ (ms : List MessageDef),
    y ∈ messagesEntities ms ↔ ∃ m, m ∈ ms ∧ y ∈ messageEntities m := by
  intro ms
  induction ms with
  | nil => simp [messagesEntities]
  | cons m rest ih => simp [messagesEntities, ih]

theorem entities_iff (s : SchemaDef) (p : Path) (ent : Entity) : (p, ent) ∈ entities s ↔ EntityAt s p ent := by
  simp only [entities, List.mem_cons, List.mem_append, mem_typesEntities, mem_messagesEntities, Prod.mk.injEq]
  constructor
  · rintro (⟨rfl, rfl⟩ | ⟨e, he, h⟩ | ⟨m, hm, h⟩)
    · exact EntityAt.schema
    · exact EntityAt.type e p ent he (elem_sound e _ _ p ent h)
    · rw [messageEntities_eq] at h
      rcases List.mem_cons.mp h with heq | h
      · simp only [Prod.mk.injEq] at heq
        obtain ⟨rfl, rfl⟩ := heq
        exact EntityAt.message m hm
      · exact EntityAt.member m p ent hm (level_sound _ _ _ _ p ent h)
  · intro h
    cases h with
    | schema => exact Or.inl ⟨rfl, rfl⟩
    | type e p ent he h => exact Or.inr (Or.inl ⟨e, he, elemAt_mem h⟩)
    | message m hm => exact Or.inr (Or.inr ⟨m, hm, by rw [messageEntities_eq]; simp⟩)
    | member m p ent hm h =>
      exact Or.inr (Or.inr ⟨m, hm, by rw [messageEntities_eq]; exact List.mem_cons_of_mem _ (levelAt_mem h)⟩)

end Sbepp.Gen.Traits
