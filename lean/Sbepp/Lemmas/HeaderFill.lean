import Sbepp.Gen.HeaderFill
import Sbepp.Lemmas.Frame
import Sbepp.Lemmas.Walk

namespace Sbepp.Gen
open Sbepp Sbepp.Spec

/-- byte ranges of two members do not overlap -/
def Disj (a b : Leaf) : Prop := a.off + a.size ≤ b.off ∨ b.off + b.size ≤ a.off

/-- every two members at different list positions are disjoint -/
def PairwiseDisj : List (Leaf × Nat) → Prop
  | [] => True
  | x :: rest => (∀ y ∈ rest, Disj x.1 y.1) ∧ PairwiseDisj rest

theorem writeExtras_frame (bo : ByteOrder) (buf : List Nat) (xs : List (Leaf × Nat)) (i : Nat)
    (hp : ∀ x ∈ xs, x.1.off + x.1.size ≤ buf.length)
    (hout : ∀ x ∈ xs, i < x.1.off ∨ x.1.off + x.1.size ≤ i) :
    (writeExtras bo buf 0 xs)[i]? = buf[i]? := by
  induction xs generalizing buf with
  | nil => rfl
  | cons x rest ih =>
    obtain ⟨lf, v⟩ := x
    simp only [writeExtras, Nat.zero_add]
    have h1 : lf.off + lf.size ≤ buf.length := hp (lf, v) (by simp)
    have hw : (writeAt buf lf.off (put bo lf.size v)).length = buf.length :=
      writeAt_len _ _ _ (by simp only [put_length]; exact h1)
    rw [ih _ (fun y hy => by rw [hw]; exact hp y (by simp [hy])) (fun y hy => hout y (by simp [hy]))]
    rw [getElem?_writeAt _ _ _ _ (by simp only [put_length]; exact h1)]
    have hq : i < lf.off ∨ lf.off + lf.size ≤ i := hout (lf, v) (by simp)
    simp only [put_length]
    rw [if_neg (by omega)]

theorem writeExtras_len (bo : ByteOrder) (buf : List Nat) (xs : List (Leaf × Nat))
    (hp : ∀ x ∈ xs, x.1.off + x.1.size ≤ buf.length) : (writeExtras bo buf 0 xs).length = buf.length :=
  writeExtras_length bo buf 0 xs (fun x hx => by simpa using hp x hx)

/-- every member reads back the value written to it (members pairwise disjoint) -/
theorem writeExtras_readback (bo : ByteOrder) (buf : List Nat) (xs : List (Leaf × Nat)) (x : Leaf × Nat)
    (hmem : x ∈ xs) (hd : PairwiseDisj xs) (hp : ∀ y ∈ xs, y.1.off + y.1.size ≤ buf.length) :
    slice (writeExtras bo buf 0 xs) x.1.off x.1.size = put bo x.1.size x.2 := by
  induction xs generalizing buf with
  | nil => simp at hmem
  | cons a rest ih =>
    obtain ⟨lf, v⟩ := a
    simp only [writeExtras, Nat.zero_add]
    have h1 : lf.off + lf.size ≤ buf.length := hp (lf, v) (by simp)
    have hw : (writeAt buf lf.off (put bo lf.size v)).length = buf.length :=
      writeAt_len _ _ _ (by simp only [put_length]; exact h1)
    obtain ⟨hdx, hdrest⟩ := hd
    have hp' : ∀ y ∈ rest, y.1.off + y.1.size ≤ (writeAt buf lf.off (put bo lf.size v)).length :=
      fun y hy => by rw [hw]; exact hp y (by simp [hy])
    rcases List.mem_cons.mp hmem with heq | hin
    · subst heq
      apply List.ext_getElem?
      intro i
      rw [slice_getElem?]
      by_cases hi : i < lf.size
      · rw [if_pos hi]
        rw [writeExtras_frame bo _ rest (lf.off + i) hp'
          (fun y hy => by
            have hq : lf.off + lf.size ≤ y.1.off ∨ y.1.off + y.1.size ≤ lf.off := hdx y hy
            omega)]
        rw [getElem?_writeAt _ _ _ _ (by simp only [put_length]; exact h1)]
        simp only [put_length]
        rw [if_pos (by omega)]
        congr 1; omega
      · rw [if_neg hi]
        symm; apply List.getElem?_eq_none; simp only [put_length]; omega
    · exact ih _ hin hdrest hp'

/-- as a number: the member holds the value whenever it fits the member type -/
theorem writeExtras_value (bo : ByteOrder) (buf : List Nat) (xs : List (Leaf × Nat)) (x : Leaf × Nat)
    (hmem : x ∈ xs) (hd : PairwiseDisj xs) (hp : ∀ y ∈ xs, y.1.off + y.1.size ≤ buf.length)
    (hfit : x.2 < 256 ^ x.1.size) :
    rd bo (writeExtras bo buf 0 xs) x.1.off x.1.size = x.2 := by
  unfold rd
  rw [writeExtras_readback bo buf xs x hmem hd hp, get_put bo _ _ hfit]

end Sbepp.Gen
