/-
  Tie between the definitions regenerated from the C++ text on every check
  (`Sbepp.Extracted.OptionalMethods`, written by `extract/methods_optional.py`)
  and the hand transliteration `Sbepp.Rt.Scalar` (`Rt/Optional.lean`): one
  theorem per constructor / member function / friend operator of
  `sbepp::detail::required_base` and `sbepp::detail::optional_base`, in both
  comparison configurations (`SBEPP_HAS_THREE_WAY_COMPARISON` = 0: the six
  hand-written operators; = 1: `operator==` and `operator<=>`), plus `rel_tie`
  (which function evaluates `a OP b`).

  Every tie is an equality of functions with no hypothesis: all primitive
  types, all `min/max/null` triples (NaN nulls included), all bit patterns.

  A change of the C++ text that changes the meaning of a member function
  changes its regenerated definition, and the theorem of that function (and
  `rel_tie`) stops checking; a member that can no longer be translated gets no
  definition and its theorem stops elaborating.
-/
import Sbepp.Rt.Optional
import Sbepp.Extracted.OptionalMethods

namespace Sbepp.Lemmas.OptionalTie
open Sbepp Sbepp.Ieee Sbepp.Rt.Scalar
open Sbepp.Extracted.Optional

/-! ### `required_base` -/
namespace Required

theorem ctorDefault_tie : RequiredBase.ctorDefault = Required.default := rfl
theorem ctorValue_tie : RequiredBase.ctorValue = Required.fromValue := rfl
/-- `operator*() const` (the hand model inlines `*x` as the stored value, like `value()`) -/
theorem deref_tie : RequiredBase.deref = Required.value := rfl
/-- `operator*()` (non-const, returns a reference to the stored value) -/
theorem derefRef_tie : RequiredBase.derefRef = Required.value := rfl
theorem value_tie : RequiredBase.value = Required.value := rfl
theorem inRange_tie : RequiredBase.inRange = Required.inRange := rfl

/-- the defaulted `operator<=>` -/
theorem opCmp3_tie : RequiredBase.opCmp3 = Required.cmp3 := rfl
/-- the defaulted `operator==` it implicitly declares -/
theorem opEqDefaulted_tie (T : Ty) (a b : Nat) :
    Res.val (RequiredBase.opEqDefaulted T a b) = Required.rel .spaceship T .eq a b := rfl

theorem opEq_tie (T : Ty) (a b : Nat) : Res.val (RequiredBase.opEq T a b) = Required.rel .ops T .eq a b := rfl
theorem opNe_tie (T : Ty) (a b : Nat) : Res.val (RequiredBase.opNe T a b) = Required.rel .ops T .ne a b := rfl
theorem opLt_tie (T : Ty) (a b : Nat) : Res.val (RequiredBase.opLt T a b) = Required.rel .ops T .lt a b := rfl
theorem opLe_tie (T : Ty) (a b : Nat) : Res.val (RequiredBase.opLe T a b) = Required.rel .ops T .le a b := rfl
theorem opGt_tie (T : Ty) (a b : Nat) : Res.val (RequiredBase.opGt T a b) = Required.rel .ops T .gt a b := rfl
theorem opGe_tie (T : Ty) (a b : Nat) : Res.val (RequiredBase.opGe T a b) = Required.rel .ops T .ge a b := rfl

/-- every relation, both configurations -/
theorem rel_tie : RequiredBase.rel = Required.rel := by
  funext impl T r a b
  cases impl <;> cases r <;> rfl

end Required

/-! ### `optional_base` -/
namespace Optional

theorem ctorDefault_tie : OptionalBase.ctorDefault = Optional.default := rfl
theorem ctorNullopt_tie : OptionalBase.ctorNullopt = Optional.fromNullopt := rfl
theorem ctorValue_tie : OptionalBase.ctorValue = Optional.fromValue := rfl
theorem deref_tie : OptionalBase.deref = Optional.value := rfl
theorem derefRef_tie : OptionalBase.derefRef = Optional.value := rfl
theorem value_tie : OptionalBase.value = Optional.value := rfl
theorem inRange_tie : OptionalBase.inRange = Optional.inRange := rfl
theorem hasValue_tie : OptionalBase.hasValue = Optional.hasValue := rfl
theorem toBool_tie : OptionalBase.toBool = Optional.toBool := rfl
theorem valueOr_tie : OptionalBase.valueOr = Optional.valueOr := rfl
theorem opEq_tie : OptionalBase.opEq = Optional.eq := rfl

/-- the declared return type of `operator<=>` -/
theorem opCmp3Ret_tie : OptionalBase.opCmp3Ret = Optional.spaceshipRet := rfl
theorem opCmp3_tie : OptionalBase.opCmp3 = Optional.spaceship := rfl

theorem opNe_tie (T : Ty) (a b : Nat) : Res.val (OptionalBase.opNe T a b) = Optional.rel .ops T .ne a b := rfl
theorem opLt_tie (T : Ty) (a b : Nat) : Res.val (OptionalBase.opLt T a b) = Optional.rel .ops T .lt a b := rfl
theorem opLe_tie (T : Ty) (a b : Nat) : Res.val (OptionalBase.opLe T a b) = Optional.rel .ops T .le a b := rfl
theorem opGt_tie (T : Ty) (a b : Nat) : Res.val (OptionalBase.opGt T a b) = Optional.rel .ops T .gt a b := rfl
theorem opGe_tie (T : Ty) (a b : Nat) : Res.val (OptionalBase.opGe T a b) = Optional.rel .ops T .ge a b := rfl

/-- every relation, both configurations -/
theorem rel_tie : OptionalBase.rel = Optional.rel := by
  funext impl T r a b
  cases impl <;> cases r <;> rfl

end Optional

end Sbepp.Lemmas.OptionalTie
