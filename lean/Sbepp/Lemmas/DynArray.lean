/-
  Helper lemmas for C13: execution of the `dynamic_array_ref` model
  (`Sbepp.Rt.DynArray`) on a memory block written as `hdr ++ body`, where `hdr`
  is the length prefix and `body` everything after it.
-/
import Sbepp.Rt.DynArray
import Sbepp.Base.CInt

set_option linter.unusedSimpArgs false

namespace Sbepp.Rt.DynArray
open Sbepp.Spec.Vec (Op)

/-! ### monad plumbing -/

theorem bind_apply {α β} (m : M α) (f : α → M β) (s : List Nat) :
    (m >>= f) s = (m s).andThen f := rfl

theorem pure_apply {α} (a : α) (s : List Nat) : (pure a : M α) s = .ok a s := rfl

theorem andThen_ok {α β} (a : α) (s : List Nat) (f : α → List Nat → Res β) :
    (Res.ok a s).andThen f = f a s := rfl

theorem assert_true (s : List Nat) : assert true s = .ok () s := rfl

theorem assert_of {c : Bool} (h : c = true) (s : List Nat) : assert c s = .ok () s := by
  subst h; rfl

/-! ### length-type arithmetic -/

theorem wrapLen_nat (P : Params) (m : Nat) (h : m < 256 ^ P.w) : wrapLen P (m : Int) = m := by
  unfold wrapLen
  have h2 : ((m : Int) % ((256 ^ P.w : Nat) : Int)) = (m : Int) :=
    Int.emod_eq_of_lt (Int.natCast_nonneg m) (Int.ofNat_lt.mpr h)
  rw [h2]
  exact Int.toNat_natCast m

theorem wrapLen_of_eq (P : Params) (i : Int) (m : Nat) (hi : i = (m : Int)) (h : m < 256 ^ P.w) :
    wrapLen P i = m := by
  subst hi; exact wrapLen_nat P m h

/-- `wrapLen` is `CVal.wrap` of the unsigned length type -/
theorem wrapLen_eq_wrap (be : Bool) (a : Nat) (i : Int) :
    wrapLen ⟨1, be, a⟩ i = (CVal.wrap .u8 i).bits
    ∧ wrapLen ⟨2, be, a⟩ i = (CVal.wrap .u16 i).bits
    ∧ wrapLen ⟨4, be, a⟩ i = (CVal.wrap .u32 i).bits
    ∧ wrapLen ⟨8, be, a⟩ i = (CVal.wrap .u64 i).bits := by
  refine ⟨rfl, rfl, rfl, rfl⟩

theorem sizeT_le (x : Nat) : sizeT x ≤ x := Nat.mod_le _ _

/-! ### the canonical shape of the memory -/

/-- `hdr` is a length prefix that encodes `n` -/
def Hdr (P : Params) (hdr : List Nat) (n : Nat) : Prop := hdr.length = P.w ∧ getN P.be hdr = n

theorem hdr_putN (P : Params) (n : Nat) (h : n < 256 ^ P.w) : Hdr P (putN P.w P.be n) n :=
  ⟨length_putN _ _ _, getN_putN _ _ _ h⟩

variable {P : Params} {hdr body : List Nat} {n : Nat}

theorem sizeCheck_ok (P : Params) (offset size : Nat) (h : offset + size ≤ P.avail) (s : List Nat) :
    sizeCheck P offset size s = .ok () s := by
  unfold sizeCheck
  apply assert_of
  exact decide_eq_true (Nat.le_trans (sizeT_le _) h)

theorem size_exec (hH : Hdr P hdr n) (hfit : P.w + n ≤ P.avail) :
    size P (hdr ++ body) = .ok n (hdr ++ body) := by
  obtain ⟨hl, hg⟩ := hH
  have h0 : 0 + P.w ≤ P.avail := by omega
  unfold size
  simp only [bind_apply, sizeCheck_ok P 0 P.w h0, andThen_ok, readBytes, Nat.zero_add,
    List.length_append, hl, Nat.le_add_right, if_true, List.drop_zero, pure_apply]
  rw [← hl, List.take_left', hg]
  rfl

theorem dataUnchecked_exec (hw : P.w ≤ P.avail) (s : List Nat) :
    dataUnchecked P s = .ok P.w s := by
  have h0 : 0 + P.w ≤ P.avail := by omega
  unfold dataUnchecked
  simp only [bind_apply, sizeCheck_ok P 0 P.w h0, andThen_ok, pure_apply]

theorem dataChecked_exec (hH : Hdr P hdr n) (hfit : P.w + n ≤ P.avail) :
    dataChecked P (hdr ++ body) = .ok P.w (hdr ++ body) := by
  have h0 : 0 + sizeT (P.w + n) ≤ P.avail := by have := sizeT_le (P.w + n); omega
  have h1 : P.w ≤ P.avail := by omega
  unfold dataChecked
  simp only [bind_apply, size_exec hH hfit, andThen_ok, sizeCheck_ok P 0 (sizeT (P.w + n)) h0,
    dataUnchecked_exec h1]

theorem begin_exec (hH : Hdr P hdr n) (hfit : P.w + n ≤ P.avail) :
    begin_ P (hdr ++ body) = .ok P.w (hdr ++ body) := dataChecked_exec hH hfit

theorem end_exec (hH : Hdr P hdr n) (hfit : P.w + n ≤ P.avail) :
    end_ P (hdr ++ body) = .ok (P.w + n) (hdr ++ body) := by
  unfold end_
  simp only [bind_apply, begin_exec hH hfit, size_exec hH hfit, andThen_ok, pure_apply]

theorem resizeDI_exec (hl : hdr.length = P.w) (m : Nat) (hfit : P.w + m ≤ P.avail) :
    resizeDI P m (hdr ++ body) = .ok () (putN P.w P.be m ++ body) := by
  have h0 : 0 + sizeT (P.w + m) ≤ P.avail := by have := sizeT_le (P.w + m); omega
  unfold resizeDI
  simp only [bind_apply, sizeCheck_ok P 0 (sizeT (P.w + m)) h0,
    andThen_ok, writeBytes, writeAt, length_putN, Nat.zero_add, List.length_append, hl,
    Nat.le_add_right, if_true, List.take_zero, List.nil_append]
  rw [← hl, List.drop_left']
  rfl

theorem elemRef_exec (hH : Hdr P hdr n) (hfit : P.w + n ≤ P.avail) (i : Nat) (hi : i < n) :
    elemRef P i (hdr ++ body) = .ok (P.w + i) (hdr ++ body) := by
  unfold elemRef
  simp only [bind_apply, size_exec hH hfit, andThen_ok, assert_of (decide_eq_true hi),
    dataChecked_exec hH hfit, pure_apply]

theorem writeBytes_body (hl : hdr.length = P.w) (o : Nat) (bs : List Nat)
    (h : o + bs.length ≤ body.length) :
    writeBytes (P.w + o) bs (hdr ++ body) = .ok () (hdr ++ writeAt body o bs) := by
  unfold writeBytes
  have h1 : P.w + o + bs.length ≤ (hdr ++ body).length := by
    simp only [List.length_append, hl]; omega
  simp only [h1, if_true, writeAt]
  congr 1
  rw [← hl]
  simp only [List.take_append, List.take_of_length_le (Nat.le_add_right _ _),
    Nat.add_sub_cancel_left, List.append_assoc]
  congr 2
  rw [Nat.add_assoc, List.drop_append]
  simp only [List.drop_of_length_le (Nat.le_add_right _ _), Nat.add_sub_cancel_left,
    List.nil_append]

theorem readBytes_body (hl : hdr.length = P.w) (o k : Nat) (h : o + k ≤ body.length) :
    readBytes (P.w + o) k (hdr ++ body) = .ok ((body.drop o).take k) (hdr ++ body) := by
  unfold readBytes
  have h1 : P.w + o + k ≤ (hdr ++ body).length := by
    simp only [List.length_append, hl]; omega
  simp only [h1, if_true]
  congr 2
  rw [← hl, List.drop_append]
  simp only [List.drop_of_length_le (Nat.le_add_right _ _), Nat.add_sub_cancel_left,
    List.nil_append]

theorem stdCopy_body (hl : hdr.length = P.w) (a b d : Nat) (hab : a ≤ b) (hov : ¬ (a < d ∧ d < b))
    (hb : b ≤ body.length) (hd : d + (b - a) ≤ body.length) :
    stdCopy (P.w + a) (P.w + b) (P.w + d) (hdr ++ body)
      = .ok () (hdr ++ writeAt body d ((body.drop a).take (b - a))) := by
  have hc : P.w + a ≤ P.w + b ∧ ¬ (P.w + a < P.w + d ∧ P.w + d < P.w + b) := by omega
  have hk : P.w + b - (P.w + a) = b - a := by omega
  have hr : a + (b - a) ≤ body.length := by omega
  have hlen : ((body.drop a).take (b - a)).length = b - a := by
    simp only [List.length_take, List.length_drop]; omega
  unfold stdCopy
  rw [if_pos hc]
  simp only [bind_apply, hk, readBytes_body hl a (b - a) hr, andThen_ok]
  have hfin : d + ((body.drop a).take (b - a)).length ≤ body.length := by omega
  exact writeBytes_body hl d ((body.drop a).take (b - a)) hfin

theorem stdCopyBackward_body (hl : hdr.length = P.w) (a b e : Nat) (hab : a ≤ b)
    (hov : ¬ (a < e ∧ e < b)) (hb : b ≤ body.length) (hk : b - a ≤ e) (he : e ≤ body.length) :
    stdCopyBackward (P.w + a) (P.w + b) (P.w + e) (hdr ++ body)
      = .ok () (hdr ++ writeAt body (e - (b - a)) ((body.drop a).take (b - a))) := by
  have hc : P.w + a ≤ P.w + b ∧ ¬ (P.w + a < P.w + e ∧ P.w + e < P.w + b)
      ∧ P.w + b - (P.w + a) ≤ P.w + e := by omega
  have hk' : P.w + b - (P.w + a) = b - a := by omega
  have hdst : P.w + e - (b - a) = P.w + (e - (b - a)) := by omega
  have hr : a + (b - a) ≤ body.length := by omega
  have hlen : ((body.drop a).take (b - a)).length = b - a := by
    simp only [List.length_take, List.length_drop]; omega
  unfold stdCopyBackward
  rw [if_pos hc]
  simp only [bind_apply, hk', hdst, readBytes_body hl a (b - a) hr, andThen_ok]
  have hfin : e - (b - a) + ((body.drop a).take (b - a)).length ≤ body.length := by omega
  exact writeBytes_body hl (e - (b - a)) ((body.drop a).take (b - a)) hfin

/-! ### what the data movements do to the payload -/

theorem length_writeAt (s : List Nat) (o : Nat) (bs : List Nat) (h : o + bs.length ≤ s.length) :
    (writeAt s o bs).length = s.length := by
  unfold writeAt
  simp only [List.length_append, List.length_take, List.length_drop]
  omega

/-- bytes at and after the end of the written block are unchanged -/
theorem drop_writeAt (s : List Nat) (o : Nat) (bs : List Nat) (k : Nat) (h : o + bs.length ≤ s.length)
    (hk : o + bs.length ≤ k) : (writeAt s o bs).drop k = s.drop k := by
  unfold writeAt
  have h1 : (s.take o ++ bs).length = o + bs.length := by
    simp only [List.length_append, List.length_take]; omega
  obtain ⟨j, rfl⟩ : ∃ j, k = o + bs.length + j := ⟨k - (o + bs.length), by omega⟩
  rw [← h1, List.drop_length_add_append, List.drop_drop, h1]

/-- bytes before the written block are unchanged -/
theorem take_writeAt (s : List Nat) (o : Nat) (bs : List Nat) (k : Nat) (h : o + bs.length ≤ s.length)
    (hk : k ≤ o) : (writeAt s o bs).take k = s.take k := by
  unfold writeAt
  rw [List.append_assoc, List.take_append_of_le_length (by simp only [List.length_take]; omega),
    List.take_take]
  congr 1
  omega

/-- prefix up to the end of the written block -/
theorem take_writeAt_end (s : List Nat) (o : Nat) (bs : List Nat) (h : o + bs.length ≤ s.length) :
    (writeAt s o bs).take (o + bs.length) = s.take o ++ bs := by
  unfold writeAt
  have h1 : (s.take o ++ bs).length = o + bs.length := by
    simp only [List.length_append, List.length_take]; omega
  exact List.take_left' h1

/-! ### member functions on the canonical shape -/

theorem clear_exec (hl : hdr.length = P.w) (hw : P.w ≤ P.avail) :
    clear P (hdr ++ body) = .ok () (putN P.w P.be 0 ++ body) :=
  resizeDI_exec hl 0 (by omega)

theorem pushBack_exec (hH : Hdr P hdr n) (v : Nat) (hfit : P.w + (n + 1) ≤ P.avail)
    (hav : P.avail ≤ P.w + body.length) (hmax : n + 1 < 256 ^ P.w) :
    pushBack P v (hdr ++ body) = .ok () (putN P.w P.be (n + 1) ++ writeAt body n [v]) := by
  have hfit0 : P.w + n ≤ P.avail := by omega
  have hwrap : wrapLen P ((n : Int) + 1) = n + 1 :=
    wrapLen_of_eq P _ (n + 1) (by omega) hmax
  have hH' := hdr_putN P (n + 1) hmax
  have hb : n + [v].length ≤ body.length := by simp only [List.length_cons, List.length_nil]; omega
  unfold pushBack
  simp only [bind_apply, size_exec hH hfit0, andThen_ok, hwrap, resizeDI_exec hH.1 (n + 1) hfit,
    elemRef_exec hH' hfit n (Nat.lt_succ_self n), writeBytes_body hH'.1 n [v] hb]

theorem popBack_exec (hH : Hdr P hdr n) (hfit : P.w + n ≤ P.avail) (hpos : 0 < n)
    (hmax : n < 256 ^ P.w) :
    popBack P (hdr ++ body) = .ok () (putN P.w P.be (n - 1) ++ body) := by
  have hwrap : wrapLen P ((n : Int) - 1) = n - 1 :=
    wrapLen_of_eq P _ (n - 1) (by omega) (by omega)
  have hne : (n != 0) = true := by simp only [bne_iff_ne, ne_eq]; omega
  unfold popBack
  simp only [bind_apply, size_exec hH hfit, andThen_ok, assert_of hne, hwrap,
    resizeDI_exec hH.1 (n - 1) (by omega)]

theorem assertPos_exec (hH : Hdr P hdr n) (hfit : P.w + n ≤ P.avail) (i : Nat) (hi : i ≤ n) :
    assertPos P (P.w + i) (hdr ++ body) = .ok () (hdr ++ body) := by
  have h1 : P.w + i ≥ P.w := by omega
  have h2 : decide (P.w + i ≤ P.w + n) = true := decide_eq_true (by omega)
  unfold assertPos
  simp only [bind_apply, begin_exec hH hfit, andThen_ok, h1, if_true, end_exec hH hfit, assert_of h2]

theorem assertPosStrict_exec (hH : Hdr P hdr n) (hfit : P.w + n ≤ P.avail) (i : Nat) (hi : i < n) :
    assertPosStrict P (P.w + i) (hdr ++ body) = .ok () (hdr ++ body) := by
  have h1 : P.w + i ≥ P.w := by omega
  have h2 : decide (P.w + i < P.w + n) = true := decide_eq_true (by omega)
  unfold assertPosStrict
  simp only [bind_apply, begin_exec hH hfit, andThen_ok, h1, if_true, end_exec hH hfit, assert_of h2]

theorem erase_exec (hH : Hdr P hdr n) (hfit : P.w + n ≤ P.avail) (hav : P.avail ≤ P.w + body.length)
    (hmax : n < 256 ^ P.w) (i : Nat) (hi : i < n) :
    erase P (P.w + i) (hdr ++ body)
      = .ok (P.w + i) (putN P.w P.be (n - 1)
          ++ writeAt body i ((body.drop (i + 1)).take (n - (i + 1)))) := by
  have hwrap : wrapLen P ((n : Int) - 1) = n - 1 :=
    wrapLen_of_eq P _ (n - 1) (by omega) (by omega)
  have hcopy := stdCopy_body (P := P) (hdr := hdr) (body := body) hH.1 (i + 1) n i (by omega)
    (by omega) (by omega) (by omega)
  unfold erase
  simp only [bind_apply, assertPosStrict_exec hH hfit i hi, andThen_ok, end_exec hH hfit,
    ← Nat.add_assoc]
  rw [Nat.add_assoc, hcopy]
  simp only [bind_apply, andThen_ok, size_exec hH hfit, hwrap, resizeDI_exec hH.1 (n - 1) (by omega),
    pure_apply]

theorem eraseRange_exec (hH : Hdr P hdr n) (hfit : P.w + n ≤ P.avail)
    (hav : P.avail ≤ P.w + body.length) (hmax : n < 256 ^ P.w) (i j : Nat) (hij : i ≤ j) (hj : j ≤ n) :
    eraseRange P (P.w + i) (P.w + j) (hdr ++ body)
      = .ok (P.w + i) (putN P.w P.be (n - (j - i)) ++ writeAt body i ((body.drop j).take (n - j))) := by
  have hwrap : wrapLen P ((n : Int) - (((P.w + j : Nat) : Int) - ((P.w + i : Nat) : Int))) = n - (j - i) :=
    wrapLen_of_eq P _ (n - (j - i)) (by omega) (by omega)
  have hcopy := stdCopy_body (P := P) (hdr := hdr) (body := body) hH.1 j n i hj
    (by omega) (by omega) (by omega)
  have h1 : P.w + i ≥ P.w := by omega
  have h2 : decide (P.w + j ≤ P.w + n) = true := decide_eq_true (by omega)
  unfold eraseRange
  simp only [bind_apply, begin_exec hH hfit, andThen_ok, h1, if_true, end_exec hH hfit, assert_of h2,
    hcopy]
  simp only [bind_apply, andThen_ok, size_exec hH hfit, hwrap,
    resizeDI_exec hH.1 (n - (j - i)) (by omega), pure_apply]

/-- the memory after `resize(n + k); copy_backward(pos, old_end, end()); write ys at pos` -/
def insBody (body : List Nat) (n i : Nat) (ys : List Nat) : List Nat :=
  writeAt (writeAt body (n + ys.length - (n - i)) ((body.drop i).take (n - i))) i ys

/-- common tail of `insert(pos, value)`, `insert(pos, count, value)` and
    `insert_impl(…, forward_iterator_tag)` -/
theorem insert_tail (hH : Hdr P hdr n) (hfit : P.w + n ≤ P.avail) (hav : P.avail ≤ P.w + body.length)
    (i : Nat) (hi : i ≤ n) (ys : List Nat) (hfit' : P.w + (n + ys.length) ≤ P.avail)
    (hmax : n + ys.length < 256 ^ P.w) :
    (do
      let oldEnd ← end_ P
      let m ← size P
      resizeDI P (wrapLen P (m + ys.length))
      let e ← end_ P
      stdCopyBackward (P.w + i) oldEnd e
      writeBytes (P.w + i) ys
      (pure (P.w + i) : M Nat)) (hdr ++ body)
      = .ok (P.w + i) (putN P.w P.be (n + ys.length) ++ insBody body n i ys) := by
  have hwrap : wrapLen P ((n : Int) + (ys.length : Int)) = n + ys.length :=
    wrapLen_of_eq P _ (n + ys.length) (by omega) hmax
  have hH' := hdr_putN P (n + ys.length) hmax
  have hcb := stdCopyBackward_body (P := P) (hdr := putN P.w P.be (n + ys.length)) (body := body)
    hH'.1 i n (n + ys.length) hi (by omega) (by omega) (by omega) (by omega)
  have hl1 : (writeAt body (n + ys.length - (n - i)) ((body.drop i).take (n - i))).length
      = body.length := by
    rw [length_writeAt]
    simp only [List.length_take, List.length_drop]; omega
  have hwb := writeBytes_body (P := P) (hdr := putN P.w P.be (n + ys.length))
    (body := writeAt body (n + ys.length - (n - i)) ((body.drop i).take (n - i))) hH'.1 i ys
    (by rw [hl1]; omega)
  simp only [bind_apply, end_exec hH hfit, size_exec hH hfit, andThen_ok, Int.natCast_add, hwrap,
    resizeDI_exec hH.1 (n + ys.length) hfit', end_exec hH' hfit', hcb, hwb, pure_apply, insBody]

theorem insertFwd_exec (hH : Hdr P hdr n) (hfit : P.w + n ≤ P.avail) (hav : P.avail ≤ P.w + body.length)
    (i : Nat) (hi : i ≤ n) (ys : List Nat) (hfit' : P.w + (n + ys.length) ≤ P.avail)
    (hmax : n + ys.length < 256 ^ P.w) :
    insertFwd P (P.w + i) ys (hdr ++ body)
      = .ok (P.w + i) (putN P.w P.be (n + ys.length) ++ insBody body n i ys) :=
  insert_tail hH hfit hav i hi ys hfit' hmax

theorem insertN_exec (hH : Hdr P hdr n) (hfit : P.w + n ≤ P.avail) (hav : P.avail ≤ P.w + body.length)
    (i : Nat) (hi : i ≤ n) (k v : Nat) (hfit' : P.w + (n + k) ≤ P.avail) (hmax : n + k < 256 ^ P.w) :
    insertN P (P.w + i) k v (hdr ++ body)
      = .ok (P.w + i) (putN P.w P.be (n + k) ++ insBody body n i (List.replicate k v)) := by
  have hlen : (List.replicate k v).length = k := List.length_replicate
  have ht := insert_tail hH hfit hav i hi (List.replicate k v) (by rw [hlen]; exact hfit')
    (by rw [hlen]; exact hmax)
  rw [hlen] at ht
  unfold insertN
  rw [bind_apply, assertPos_exec hH hfit i hi, andThen_ok]
  exact ht

theorem insert_exec (hH : Hdr P hdr n) (hfit : P.w + n ≤ P.avail) (hav : P.avail ≤ P.w + body.length)
    (i : Nat) (hi : i ≤ n) (v : Nat) (hfit' : P.w + (n + 1) ≤ P.avail) (hmax : n + 1 < 256 ^ P.w) :
    insert P (P.w + i) v (hdr ++ body)
      = .ok (P.w + i) (putN P.w P.be (n + 1) ++ insBody body n i [v]) := by
  have ht := insert_tail hH hfit hav i hi [v] hfit' hmax
  unfold insert
  rw [bind_apply, assertPos_exec hH hfit i hi, andThen_ok]
  exact ht

theorem insertRange_fwd_exec (hH : Hdr P hdr n) (hfit : P.w + n ≤ P.avail)
    (hav : P.avail ≤ P.w + body.length) (i : Nat) (hi : i ≤ n) (ys : List Nat)
    (hfit' : P.w + (n + ys.length) ≤ P.avail) (hmax : n + ys.length < 256 ^ P.w) :
    insertRange P false (P.w + i) ys (hdr ++ body)
      = .ok (P.w + i) (putN P.w P.be (n + ys.length) ++ insBody body n i ys) := by
  unfold insertRange
  rw [bind_apply, assertPos_exec hH hfit i hi, andThen_ok]
  exact insertFwd_exec hH hfit hav i hi ys hfit' hmax

/-- normal form of the insert data movement -/
theorem insBody_eq (body : List Nat) (n i : Nat) (ys : List Nat) (hi : i ≤ n)
    (hb : n + ys.length ≤ body.length) :
    insBody body n i ys
      = body.take i ++ ys ++ (body.drop i).take (n - i) ++ body.drop (n + ys.length) := by
  have hm : ((body.drop i).take (n - i)).length = n - i := by
    simp only [List.length_take, List.length_drop]; omega
  have hd : n + ys.length - (n - i) = i + ys.length := by omega
  have hl1 : (body.take (i + ys.length)).length = i + ys.length := by
    simp only [List.length_take]; omega
  unfold insBody writeAt
  rw [hd, hm]
  have e1 : i + ys.length + (n - i) = n + ys.length := by omega
  rw [e1]
  -- prefix of the intermediate image
  have t1 : (body.take (i + ys.length) ++ (body.drop i).take (n - i) ++ body.drop (n + ys.length)).take i
      = body.take i := by
    rw [List.append_assoc, List.take_append_of_le_length (by omega), List.take_take]
    congr 1; omega
  have t2 : (body.take (i + ys.length) ++ (body.drop i).take (n - i) ++ body.drop (n + ys.length)).drop
      (i + ys.length) = (body.drop i).take (n - i) ++ body.drop (n + ys.length) := by
    rw [List.append_assoc]
    exact List.drop_left' hl1
  rw [t1, t2]
  simp only [List.append_assoc]

theorem length_insBody (body : List Nat) (n i : Nat) (ys : List Nat) (hi : i ≤ n)
    (hb : n + ys.length ≤ body.length) : (insBody body n i ys).length = body.length := by
  rw [insBody_eq body n i ys hi hb]
  simp only [List.length_append, List.length_take, List.length_drop]
  omega

theorem take_insBody (body : List Nat) (n i : Nat) (ys : List Nat) (hi : i ≤ n)
    (hb : n + ys.length ≤ body.length) :
    (insBody body n i ys).take (n + ys.length)
      = Sbepp.Spec.Vec.insertAt (body.take n) i ys := by
  rw [insBody_eq body n i ys hi hb]
  have hlen : (body.take i ++ ys ++ (body.drop i).take (n - i)).length = n + ys.length := by
    simp only [List.length_append, List.length_take, List.length_drop]; omega
  rw [List.take_left' hlen]
  unfold Sbepp.Spec.Vec.insertAt
  rw [List.take_take, List.drop_take]
  congr 3
  omega

theorem drop_insBody (body : List Nat) (n i : Nat) (ys : List Nat) (hi : i ≤ n)
    (hb : n + ys.length ≤ body.length) :
    (insBody body n i ys).drop (n + ys.length) = body.drop (n + ys.length) := by
  rw [insBody_eq body n i ys hi hb]
  have hlen : (body.take i ++ ys ++ (body.drop i).take (n - i)).length = n + ys.length := by
    simp only [List.length_append, List.length_take, List.length_drop]; omega
  exact List.drop_left' hlen

theorem insBody_nil (body : List Nat) (n i : Nat) (hi : i ≤ n) (hb : n ≤ body.length) :
    insBody body n i [] = body := by
  rw [insBody_eq body n i [] hi (by simpa using hb)]
  simp only [List.append_nil, List.length_nil, Nat.add_zero]
  rw [← List.drop_take]
  have : body.take i = (body.take n).take i := by
    rw [List.take_take]; congr 1; omega
  rw [this, List.take_append_drop, List.take_append_drop]

theorem insBody_cons (body : List Nat) (n i y : Nat) (ys : List Nat) (hi : i ≤ n)
    (hb : n + (ys.length + 1) ≤ body.length) :
    insBody (insBody body n i [y]) (n + 1) (i + 1) ys = insBody body n i (y :: ys) := by
  have hb1 : n + [y].length ≤ body.length := by simp only [List.length_cons, List.length_nil]; omega
  have hl1 := length_insBody body n i [y] hi hb1
  rw [insBody_eq (insBody body n i [y]) (n + 1) (i + 1) ys (by omega) (by rw [hl1]; omega),
    insBody_eq body n i (y :: ys) hi (by simpa using hb)]
  have e := insBody_eq body n i [y] hi hb1
  -- pieces of the intermediate image
  have hA : (body.take i ++ [y]).length = i + 1 := by
    simp only [List.length_append, List.length_take, List.length_cons, List.length_nil]; omega
  have p1 : (insBody body n i [y]).take (i + 1) = body.take i ++ [y] := by
    rw [e, List.append_assoc, List.append_assoc, ← List.append_assoc]
    exact List.take_left' hA
  have p2 : (insBody body n i [y]).drop (i + 1)
      = (body.drop i).take (n - i) ++ body.drop (n + 1) := by
    rw [e, List.append_assoc, List.append_assoc, ← List.append_assoc]
    simp only [List.length_cons, List.length_nil]
    exact List.drop_left' hA
  have hM : ((body.drop i).take (n - i)).length = n - i := by
    simp only [List.length_take, List.length_drop]; omega
  have p3 : ((insBody body n i [y]).drop (i + 1)).take (n + 1 - (i + 1)) = (body.drop i).take (n - i) := by
    rw [p2]
    have : n + 1 - (i + 1) = n - i := by omega
    rw [this]
    exact List.take_left' hM
  have p4 : (insBody body n i [y]).drop (n + 1 + ys.length) = body.drop (n + (ys.length + 1)) := by
    have h1 := drop_insBody body n i [y] hi hb1
    simp only [List.length_cons, List.length_nil, Nat.zero_add] at h1
    have : n + 1 + ys.length = (n + 1) + ys.length := rfl
    rw [← List.drop_drop, h1, List.drop_drop]
    congr 1
    omega
  rw [p1, p3, p4]
  simp only [List.append_assoc, List.cons_append, List.nil_append, List.length_cons]

theorem insertLoop_exec (ys : List Nat) : ∀ (hdr body : List Nat) (n i : Nat), Hdr P hdr n →
    P.w + n ≤ P.avail → P.avail ≤ P.w + body.length → i ≤ n → P.w + (n + ys.length) ≤ P.avail →
    n + ys.length < 256 ^ P.w →
    ∃ hdr', Hdr P hdr' (n + ys.length)
      ∧ insertLoop P (P.w + i) ys (hdr ++ body) = .ok () (hdr' ++ insBody body n i ys) := by
  induction ys with
  | nil =>
    intro hdr body n i hH hfit hav hi _ _
    refine ⟨hdr, hH, ?_⟩
    rw [insBody_nil body n i hi (by omega)]
    rfl
  | cons y ys ih =>
    intro hdr body n i hH hfit hav hi hfit' hmax
    simp only [List.length_cons] at hfit' hmax
    have hb1 : n + [y].length ≤ body.length := by
      simp only [List.length_cons, List.length_nil]; omega
    have hl1 := length_insBody body n i [y] hi hb1
    have hH1 := hdr_putN P (n + 1) (by omega)
    obtain ⟨hdr', hH', hrun⟩ := ih (putN P.w P.be (n + 1)) (insBody body n i [y]) (n + 1) (i + 1) hH1
      (by omega) (by rw [hl1]; exact hav) (by omega) (by omega) (by omega)
    refine ⟨hdr', ?_, ?_⟩
    · have : n + (ys.length + 1) = n + 1 + ys.length := by omega
      simp only [List.length_cons]
      rw [this]; exact hH'
    · unfold insertLoop
      simp only [bind_apply, insert_exec hH hfit hav i hi y (by omega) (by omega), andThen_ok]
      rw [Nat.add_assoc, hrun, insBody_cons body n i y ys hi (by omega)]

theorem insertRange_input_exec (hH : Hdr P hdr n) (hfit : P.w + n ≤ P.avail)
    (hav : P.avail ≤ P.w + body.length) (i : Nat) (hi : i ≤ n) (ys : List Nat)
    (hfit' : P.w + (n + ys.length) ≤ P.avail) (hmax : n + ys.length < 256 ^ P.w) :
    ∃ hdr', Hdr P hdr' (n + ys.length)
      ∧ insertRange P true (P.w + i) ys (hdr ++ body) = .ok (P.w + i) (hdr' ++ insBody body n i ys) := by
  obtain ⟨hdr', hH', hrun⟩ := insertLoop_exec ys hdr body n i hH hfit hav hi hfit' hmax
  refine ⟨hdr', hH', ?_⟩
  unfold insertRange
  simp only [bind_apply, assertPos_exec hH hfit i hi, andThen_ok, if_true, hrun, pure_apply]

theorem insertList_exec (hH : Hdr P hdr n) (hfit : P.w + n ≤ P.avail)
    (hav : P.avail ≤ P.w + body.length) (i : Nat) (hi : i ≤ n) (ys : List Nat)
    (hfit' : P.w + (n + ys.length) ≤ P.avail) (hmax : n + ys.length < 256 ^ P.w) :
    insertList P (P.w + i) ys (hdr ++ body)
      = .ok (P.w + i) (putN P.w P.be (n + ys.length) ++ insBody body n i ys) :=
  insertRange_fwd_exec hH hfit hav i hi ys hfit' hmax

/-! assign family -/

theorem assignN_exec (hl : hdr.length = P.w) (k v : Nat) (hfit : P.w + k ≤ P.avail)
    (hav : P.avail ≤ P.w + body.length) (hmax : k < 256 ^ P.w) :
    assignN P k v (hdr ++ body)
      = .ok () (putN P.w P.be k ++ writeAt body 0 (List.replicate k v)) := by
  have hH' := hdr_putN P k hmax
  have hb : 0 + (List.replicate k v).length ≤ body.length := by
    simp only [List.length_replicate]; omega
  have hwb := writeBytes_body (P := P) (hdr := putN P.w P.be k) (body := body) hH'.1 0
    (List.replicate k v) hb
  rw [Nat.add_zero] at hwb
  unfold assignN
  simp only [bind_apply, resizeDI_exec hl k hfit, andThen_ok, begin_exec hH' hfit, hwb]

theorem assignRange_exec (hl : hdr.length = P.w) (ys : List Nat) (hfit : P.w + ys.length ≤ P.avail)
    (hav : P.avail ≤ P.w + body.length) (hmax : ys.length < 256 ^ P.w) :
    assignRange P ys (hdr ++ body) = .ok () (putN P.w P.be ys.length ++ writeAt body 0 ys) := by
  have hw : P.w ≤ P.avail := by omega
  have hb : 0 + ys.length ≤ body.length := by omega
  have hwb := writeBytes_body (P := P) (hdr := hdr) (body := body) hl 0 ys hb
  rw [Nat.add_zero] at hwb
  have hwrap : wrapLen P (((P.w + ys.length : Nat) : Int) - (P.w : Int)) = ys.length :=
    wrapLen_of_eq P _ ys.length (by omega) hmax
  unfold assignRange
  simp only [bind_apply, dataUnchecked_exec hw, andThen_ok, hwb, hwrap,
    resizeDI_exec hl ys.length hfit]

theorem assignRangeR_exec (hl : hdr.length = P.w) (ys : List Nat) (hfit : P.w + ys.length ≤ P.avail)
    (hav : P.avail ≤ P.w + body.length) (hmax : ys.length < 256 ^ P.w) :
    assignRangeR P ys (hdr ++ body) = .ok () (putN P.w P.be ys.length ++ writeAt body 0 ys) :=
  assignRange_exec hl ys hfit hav hmax

theorem assignList_exec (hl : hdr.length = P.w) (ys : List Nat) (hfit : P.w + ys.length ≤ P.avail)
    (hav : P.avail ≤ P.w + body.length) (hmax : ys.length < 256 ^ P.w) :
    assignList P ys (hdr ++ body) = .ok () (putN P.w P.be ys.length ++ writeAt body 0 ys) := by
  have h0 : 0 + sizeT (P.w + ys.length) ≤ P.avail := by have := sizeT_le (P.w + ys.length); omega
  unfold assignList
  simp only [bind_apply, sizeCheck_ok P 0 (sizeT (P.w + ys.length)) h0, andThen_ok,
    assignRange_exec hl ys hfit hav hmax]

theorem assignString_exec (hl : hdr.length = P.w) (s : List Nat)
    (hfit : P.w + (Sbepp.Spec.Vec.cstr s).length ≤ P.avail)
    (hav : P.avail ≤ P.w + body.length) (hmax : (Sbepp.Spec.Vec.cstr s).length < 256 ^ P.w) :
    assignString P s (hdr ++ body)
      = .ok () (putN P.w P.be (Sbepp.Spec.Vec.cstr s).length
          ++ writeAt body 0 (Sbepp.Spec.Vec.cstr s)) := by
  have hH' := hdr_putN P (Sbepp.Spec.Vec.cstr s).length hmax
  have hb : 0 + (Sbepp.Spec.Vec.cstr s).length ≤ body.length := by omega
  have hwb := writeBytes_body (P := P) (hdr := putN P.w P.be (Sbepp.Spec.Vec.cstr s).length)
    (body := body) hH'.1 0 (Sbepp.Spec.Vec.cstr s) hb
  rw [Nat.add_zero] at hwb
  have hwrap := wrapLen_nat P (Sbepp.Spec.Vec.cstr s).length hmax
  unfold assignString
  simp only [bind_apply, hwrap, resizeDI_exec hl _ hfit, andThen_ok, begin_exec hH' hfit, hwb]

/-! resize family -/

theorem writeAt_nil (s : List Nat) (i : Nat) : writeAt s i [] = s := by
  unfold writeAt
  simp only [List.append_nil, List.length_nil, Nat.add_zero, List.take_append_drop]

theorem writeAt_cons_succ (s : List Nat) (i v : Nat) (bs : List Nat) (h : i + 1 + bs.length ≤ s.length) :
    writeAt (writeAt s i [v]) (i + 1) bs = writeAt s i (v :: bs) := by
  have hA : (s.take i ++ [v]).length = i + 1 := by
    simp only [List.length_append, List.length_take, List.length_cons, List.length_nil]; omega
  unfold writeAt
  simp only [List.length_cons, List.length_nil, Nat.zero_add]
  rw [List.take_left' hA]
  have hd : (s.take i ++ [v] ++ s.drop (i + 1)).drop (i + 1 + bs.length)
      = s.drop (i + (bs.length + 1)) := by
    rw [show i + 1 + bs.length = (s.take i ++ [v]).length + bs.length from by rw [hA],
      List.drop_length_add_append, List.drop_drop]
    congr 1
    omega
  rw [hd]
  simp only [List.append_assoc, List.cons_append, List.nil_append]

theorem fillLoop_exec (v m : Nat) (hH : Hdr P hdr m) (hfit : P.w + m ≤ P.avail) :
    ∀ (k i : Nat) (body : List Nat), P.avail ≤ P.w + body.length → i + k ≤ m →
    fillLoop P v i k (hdr ++ body) = .ok () (hdr ++ writeAt body i (List.replicate k v)) := by
  intro k
  induction k with
  | zero =>
    intro i body _ _
    simp only [List.replicate_zero, writeAt_nil]
    rfl
  | succ k ih =>
    intro i body hav hik
    have hb : i + [v].length ≤ body.length := by simp only [List.length_cons, List.length_nil]; omega
    have hl1 : (writeAt body i [v]).length = body.length := length_writeAt body i [v] hb
    have hrec := ih (i + 1) (writeAt body i [v]) (by rw [hl1]; exact hav) (by omega)
    unfold fillLoop
    simp only [bind_apply, elemRef_exec hH hfit i (by omega), andThen_ok,
      writeBytes_body hH.1 i [v] hb, hrec]
    rw [writeAt_cons_succ body i v (List.replicate k v) (by simp only [List.length_replicate]; omega)]
    rfl

theorem resize_exec (hH : Hdr P hdr n) (hfit : P.w + n ≤ P.avail) (m v : Nat)
    (hfit' : P.w + m ≤ P.avail) (hav : P.avail ≤ P.w + body.length) (hmax : m < 256 ^ P.w) :
    resize P m v (hdr ++ body)
      = .ok () (putN P.w P.be m ++ writeAt body n (List.replicate (m - n) v)) := by
  have hH' := hdr_putN P m hmax
  unfold resize
  simp only [bind_apply, size_exec hH hfit, andThen_ok, resizeDI_exec hH.1 m hfit']
  by_cases hgt : m > n
  · simp only [hgt, if_true]
    exact fillLoop_exec v m hH' hfit' (m - n) n body hav (by omega)
  · simp only [hgt, if_false, pure_apply]
    have : m - n = 0 := by omega
    rw [this, List.replicate_zero, writeAt_nil]

theorem take_resize_body (body : List Nat) (n m v : Nat) (hn : n ≤ body.length) (hm : m ≤ body.length) :
    (writeAt body n (List.replicate (m - n) v)).take m = Sbepp.Spec.Vec.resize (body.take n) m v := by
  have hlen : (body.take n).length = n := by simp only [List.length_take]; omega
  unfold Sbepp.Spec.Vec.resize
  rw [hlen, List.take_take]
  by_cases h : n ≤ m
  · have h1 := take_writeAt_end body n (List.replicate (m - n) v)
      (by simp only [List.length_replicate]; omega)
    simp only [List.length_replicate] at h1
    have : n + (m - n) = m := by omega
    rw [this] at h1
    rw [h1]
    congr 2
    omega
  · have : m - n = 0 := by omega
    rw [this, List.replicate_zero, writeAt_nil, List.append_nil]
    congr 1
    omega

/-! erase data movement -/

theorem length_eraseBody (body : List Nat) (n i j : Nat) (hij : i ≤ j) (hj : j ≤ n) (hn : n ≤ body.length) :
    (writeAt body i ((body.drop j).take (n - j))).length = body.length := by
  rw [length_writeAt]
  simp only [List.length_take, List.length_drop]; omega

theorem take_eraseBody (body : List Nat) (n i j : Nat) (hij : i ≤ j) (hj : j ≤ n) (hn : n ≤ body.length) :
    (writeAt body i ((body.drop j).take (n - j))).take (n - (j - i))
      = Sbepp.Spec.Vec.eraseRange (body.take n) i j := by
  have hlen : ((body.drop j).take (n - j)).length = n - j := by
    simp only [List.length_take, List.length_drop]; omega
  have h1 := take_writeAt_end body i ((body.drop j).take (n - j)) (by rw [hlen]; omega)
  rw [hlen] at h1
  have : i + (n - j) = n - (j - i) := by omega
  rw [this] at h1
  rw [h1]
  unfold Sbepp.Spec.Vec.eraseRange
  rw [List.take_take, List.drop_take]
  congr 2
  omega

theorem drop_eraseBody (body : List Nat) (n i j : Nat) (hij : i ≤ j) (hj : j ≤ n) (hn : n ≤ body.length) :
    (writeAt body i ((body.drop j).take (n - j))).drop n = body.drop n := by
  have hlen : ((body.drop j).take (n - j)).length = n - j := by
    simp only [List.length_take, List.length_drop]; omega
  exact drop_writeAt body i _ n (by rw [hlen]; omega) (by rw [hlen]; omega)

/-- all bytes `< 256` ⇒ the decoded length fits the length type -/
theorem getLE_lt (bs : List Nat) (h : ∀ b ∈ bs, b < 256) : getLE bs < 256 ^ bs.length := by
  induction bs with
  | nil => simp only [getLE, List.length_nil, Nat.pow_zero]; omega
  | cons b bs ih =>
    have hb := h b (List.mem_cons_self)
    have ih' := ih (fun x hx => h x (List.mem_cons_of_mem _ hx))
    simp only [getLE, List.length_cons, Nat.pow_succ]
    omega

theorem getN_lt (be : Bool) (bs : List Nat) (h : ∀ b ∈ bs, b < 256) : getN be bs < 256 ^ bs.length := by
  unfold getN
  cases be
  · simpa using getLE_lt bs h
  · have := getLE_lt bs.reverse (fun b hb => h b (List.mem_reverse.mp hb))
    simpa using this

/-! ### one operation refines the vector operation -/

/-- what one successful operation establishes, relative to the memory
    `hdr ++ body` (length `n`) before it -/
def StepPost (P : Params) (body : List Nat) (n : Nat) (op : Op) (r : Res (Option Nat)) : Prop :=
  ∃ hdr' body', r = .ok op.ret (hdr' ++ body') ∧ Hdr P hdr' (op.newLen n)
    ∧ body'.length = body.length
    ∧ op.post (body.take n) (body'.take (op.newLen n))
    ∧ body'.drop (max n (op.newLen n)) = body.drop (max n (op.newLen n))

theorem stepPost_ins {ys : List Nat} (hH' : Hdr P hdr (n + ys.length)) (i : Nat) (hi : i ≤ n)
    (hb : n + ys.length ≤ body.length) :
    Hdr P hdr (n + ys.length) ∧ (insBody body n i ys).length = body.length
      ∧ (insBody body n i ys).take (n + ys.length) = Sbepp.Spec.Vec.insertAt (body.take n) i ys
      ∧ (insBody body n i ys).drop (max n (n + ys.length)) = body.drop (max n (n + ys.length)) := by
  refine ⟨hH', length_insBody body n i ys hi hb, take_insBody body n i ys hi hb, ?_⟩
  rw [Nat.max_eq_right (Nat.le_add_right _ _)]
  exact drop_insBody body n i ys hi hb

theorem step_refines (hH : Hdr P hdr n) (hn : n < 256 ^ P.w) (hfit : P.w + n ≤ P.avail)
    (hav : P.avail ≤ P.w + body.length) (op : Op) (hpre : op.pre n)
    (hcap : P.w + op.newLen n ≤ P.avail) (hmax : op.newLen n < 256 ^ P.w) :
    StepPost P body n op (step P op (hdr ++ body)) := by
  have hnb : n ≤ body.length := by omega
  cases op with
  | pushBack v =>
    simp only [Op.newLen] at hcap hmax
    refine ⟨putN P.w P.be (n + 1), writeAt body n [v], ?_, hdr_putN P (n + 1) hmax, ?_, ?_, ?_⟩
    · simp only [step, retVoid, bind_apply, pushBack_exec hH v hcap hav hmax, andThen_ok, pure_apply,
        Op.ret]
    · exact length_writeAt body n [v] (by simp only [List.length_cons, List.length_nil]; omega)
    · show _ = _
      simp only [Op.newLen, Op.apply, Sbepp.Spec.Vec.pushBack]
      have h1 := take_writeAt_end body n [v] (by simp only [List.length_cons, List.length_nil]; omega)
      simpa using h1
    · simp only [Op.newLen]
      rw [Nat.max_eq_right (Nat.le_add_right _ _)]
      exact drop_writeAt body n [v] (n + 1)
        (by simp only [List.length_cons, List.length_nil]; omega)
        (by simp only [List.length_cons, List.length_nil]; omega)
  | popBack =>
    simp only [Op.newLen] at hcap hmax
    simp only [Op.pre] at hpre
    refine ⟨putN P.w P.be (n - 1), body, ?_, hdr_putN P (n - 1) hmax, rfl, ?_, rfl⟩
    · simp only [step, retVoid, bind_apply, popBack_exec hH hfit hpre hn, andThen_ok, pure_apply, Op.ret]
    · show _ = _
      simp only [Op.newLen, Op.apply, Sbepp.Spec.Vec.popBack, List.take_take, List.length_take]
      congr 1
      omega
  | clear =>
    refine ⟨putN P.w P.be 0, body, ?_, hdr_putN P 0 hmax, rfl, ?_, rfl⟩
    · simp only [step, retVoid, bind_apply, clear_exec hH.1 (show P.w ≤ P.avail by omega), andThen_ok,
        pure_apply, Op.ret]
    · show _ = _
      simp only [Op.newLen, Op.apply, Sbepp.Spec.Vec.clear, List.take_zero]
  | erase i =>
    simp only [Op.newLen] at hcap hmax
    simp only [Op.pre] at hpre
    refine ⟨putN P.w P.be (n - 1), writeAt body i ((body.drop (i + 1)).take (n - (i + 1))), ?_, hdr_putN P (n - 1) hmax, ?_, ?_, ?_⟩
    · simp only [step, retIdx, bind_apply, erase_exec hH hfit hav hn i hpre, andThen_ok, pure_apply,
        Op.ret, Nat.add_sub_cancel_left]
    · exact length_eraseBody body n i (i + 1) (by omega) (by omega) hnb
    · show _ = _
      simp only [Op.newLen, Op.apply, Sbepp.Spec.Vec.erase]
      have h1 := take_eraseBody body n i (i + 1) (by omega) (by omega) hnb
      simp only [Sbepp.Spec.Vec.eraseRange, Nat.add_sub_cancel_left] at h1
      exact h1
    · simp only [Op.newLen]
      rw [Nat.max_eq_left (Nat.sub_le _ _)]
      exact drop_eraseBody body n i (i + 1) (by omega) (by omega) hnb
  | eraseRange i j =>
    simp only [Op.newLen] at hcap hmax
    simp only [Op.pre] at hpre
    refine ⟨putN P.w P.be (n - (j - i)), writeAt body i ((body.drop j).take (n - j)), ?_, hdr_putN P (n - (j - i)) hmax, ?_, ?_, ?_⟩
    · simp only [step, retIdx, bind_apply, eraseRange_exec hH hfit hav hn i j hpre.1 hpre.2, andThen_ok,
        pure_apply, Op.ret, Nat.add_sub_cancel_left]
    · exact length_eraseBody body n i j hpre.1 hpre.2 hnb
    · show _ = _
      simp only [Op.newLen, Op.apply]
      exact take_eraseBody body n i j hpre.1 hpre.2 hnb
    · simp only [Op.newLen]
      rw [Nat.max_eq_left (Nat.sub_le _ _)]
      exact drop_eraseBody body n i j hpre.1 hpre.2 hnb
  | insert i v =>
    simp only [Op.newLen] at hcap hmax
    simp only [Op.pre] at hpre
    obtain ⟨h1, h2, h3, h4⟩ := stepPost_ins (P := P) (ys := [v]) (hdr_putN P (n + 1) hmax) i hpre
      (body := body) (by simp only [List.length_cons, List.length_nil]; omega)
    refine ⟨putN P.w P.be (n + 1), insBody body n i [v], ?_, h1, h2, h3, h4⟩
    simp only [step, retIdx, bind_apply, insert_exec hH hfit hav i hpre v hcap hmax, andThen_ok,
      pure_apply, Op.ret, Nat.add_sub_cancel_left]
  | insertN i k v =>
    simp only [Op.newLen] at hcap hmax
    simp only [Op.pre] at hpre
    have hlen : (List.replicate k v).length = k := List.length_replicate
    obtain ⟨h1, h2, h3, h4⟩ := stepPost_ins (P := P) (ys := List.replicate k v)
      (by rw [hlen]; exact hdr_putN P (n + k) hmax) i hpre (body := body) (by rw [hlen]; omega)
    rw [hlen] at h1 h3 h4
    refine ⟨putN P.w P.be (n + k), insBody body n i (List.replicate k v), ?_, h1, h2, h3, h4⟩
    simp only [step, retIdx, bind_apply, insertN_exec hH hfit hav i hpre k v hcap hmax, andThen_ok,
      pure_apply, Op.ret, Nat.add_sub_cancel_left]
  | insertRange i ys =>
    simp only [Op.newLen] at hcap hmax
    simp only [Op.pre] at hpre
    obtain ⟨h1, h2, h3, h4⟩ := stepPost_ins (P := P) (ys := ys) (hdr_putN P (n + ys.length) hmax) i hpre
      (body := body) (by omega)
    refine ⟨putN P.w P.be (n + ys.length), insBody body n i ys, ?_, h1, h2, h3, h4⟩
    simp only [step, retIdx, bind_apply, insertRange_fwd_exec hH hfit hav i hpre ys hcap hmax, andThen_ok,
      pure_apply, Op.ret, Nat.add_sub_cancel_left]
  | insertInput i ys =>
    simp only [Op.newLen] at hcap hmax
    simp only [Op.pre] at hpre
    obtain ⟨hdr', hH', hrun⟩ := insertRange_input_exec hH hfit hav i hpre ys hcap hmax
    obtain ⟨h1, h2, h3, h4⟩ := stepPost_ins (P := P) (ys := ys) hH' i hpre (body := body) (by omega)
    refine ⟨hdr', insBody body n i ys, ?_, h1, h2, h3, h4⟩
    simp only [step, retIdx, bind_apply, hrun, andThen_ok, pure_apply, Op.ret, Nat.add_sub_cancel_left]
  | insertList i ys =>
    simp only [Op.newLen] at hcap hmax
    simp only [Op.pre] at hpre
    obtain ⟨h1, h2, h3, h4⟩ := stepPost_ins (P := P) (ys := ys) (hdr_putN P (n + ys.length) hmax) i hpre
      (body := body) (by omega)
    refine ⟨putN P.w P.be (n + ys.length), insBody body n i ys, ?_, h1, h2, h3, h4⟩
    simp only [step, retIdx, bind_apply, insertList_exec hH hfit hav i hpre ys hcap hmax, andThen_ok,
      pure_apply, Op.ret, Nat.add_sub_cancel_left]
  | resize m =>
    simp only [Op.newLen] at hcap hmax
    have hwl : n + (List.replicate (m - n) 0).length ≤ body.length := by
      simp only [List.length_replicate]; omega
    refine ⟨putN P.w P.be m, writeAt body n (List.replicate (m - n) 0), ?_, hdr_putN P m hmax, length_writeAt body n _ hwl, ?_, ?_⟩
    · simp only [step, retVoid, bind_apply, resize_exec hH hfit m 0 hcap hav hmax, andThen_ok,
        pure_apply, Op.ret]
    · show _ = _
      simp only [Op.newLen, Op.apply]
      exact take_resize_body body n m 0 hnb (by omega)
    · simp only [Op.newLen]
      exact drop_writeAt body n _ (max n m) hwl (by simp only [List.length_replicate]; omega)
  | resizeV m v =>
    simp only [Op.newLen] at hcap hmax
    have hwl : n + (List.replicate (m - n) v).length ≤ body.length := by
      simp only [List.length_replicate]; omega
    refine ⟨putN P.w P.be m, writeAt body n (List.replicate (m - n) v), ?_, hdr_putN P m hmax, length_writeAt body n _ hwl, ?_, ?_⟩
    · simp only [step, retVoid, bind_apply, resize_exec hH hfit m v hcap hav hmax, andThen_ok,
        pure_apply, Op.ret]
    · show _ = _
      simp only [Op.newLen, Op.apply]
      exact take_resize_body body n m v hnb (by omega)
    · simp only [Op.newLen]
      exact drop_writeAt body n _ (max n m) hwl (by simp only [List.length_replicate]; omega)
  | resizeDI m =>
    simp only [Op.newLen] at hcap hmax
    refine ⟨putN P.w P.be m, body, ?_, hdr_putN P m hmax, rfl, ?_, rfl⟩
    · simp only [step, retVoid, bind_apply, resizeDI_exec hH.1 m hcap, andThen_ok, pure_apply, Op.ret]
    · show _ ∧ _
      simp only [Op.newLen, List.length_take, List.take_take]
      refine ⟨by omega, ?_⟩
      congr 1
      omega
  | assignN k v =>
    simp only [Op.newLen] at hcap hmax
    have hwl : 0 + (List.replicate k v).length ≤ body.length := by
      simp only [List.length_replicate]; omega
    refine ⟨putN P.w P.be k, writeAt body 0 (List.replicate k v), ?_, hdr_putN P k hmax, length_writeAt body 0 _ hwl, ?_, ?_⟩
    · simp only [step, retVoid, bind_apply, assignN_exec hH.1 k v hcap hav hmax, andThen_ok,
        pure_apply, Op.ret]
    · show _ = _
      simp only [Op.newLen, Op.apply, Sbepp.Spec.Vec.assignN]
      have h1 := take_writeAt_end body 0 (List.replicate k v) hwl
      simpa using h1
    · simp only [Op.newLen]
      exact drop_writeAt body 0 _ (max n k) hwl (by simp only [List.length_replicate]; omega)
  | assignRange ys =>
    simp only [Op.newLen] at hcap hmax
    have hwl : 0 + ys.length ≤ body.length := by omega
    refine ⟨putN P.w P.be ys.length, writeAt body 0 ys, ?_, hdr_putN P ys.length hmax, length_writeAt body 0 _ hwl, ?_, ?_⟩
    · simp only [step, retVoid, bind_apply, assignRange_exec hH.1 ys hcap hav hmax, andThen_ok,
        pure_apply, Op.ret]
    · show _ = _
      simp only [Op.newLen, Op.apply]
      have h1 := take_writeAt_end body 0 ys hwl
      simpa using h1
    · simp only [Op.newLen]
      exact drop_writeAt body 0 _ (max n ys.length) hwl (by omega)
  | assignList ys =>
    simp only [Op.newLen] at hcap hmax
    have hwl : 0 + ys.length ≤ body.length := by omega
    refine ⟨putN P.w P.be ys.length, writeAt body 0 ys, ?_, hdr_putN P ys.length hmax, length_writeAt body 0 _ hwl, ?_, ?_⟩
    · simp only [step, retVoid, bind_apply, assignList_exec hH.1 ys hcap hav hmax, andThen_ok,
        pure_apply, Op.ret]
    · show _ = _
      simp only [Op.newLen, Op.apply]
      have h1 := take_writeAt_end body 0 ys hwl
      simpa using h1
    · simp only [Op.newLen]
      exact drop_writeAt body 0 _ (max n ys.length) hwl (by omega)
  | assignString s =>
    simp only [Op.newLen] at hcap hmax
    have hwl : 0 + (Sbepp.Spec.Vec.cstr s).length ≤ body.length := by omega
    refine ⟨putN P.w P.be (Sbepp.Spec.Vec.cstr s).length, writeAt body 0 (Sbepp.Spec.Vec.cstr s), ?_, hdr_putN P _ hmax, length_writeAt body 0 _ hwl, ?_, ?_⟩
    · simp only [step, retVoid, bind_apply, assignString_exec hH.1 s hcap hav hmax, andThen_ok,
        pure_apply, Op.ret]
    · show _ = _
      simp only [Op.newLen, Op.apply]
      have h1 := take_writeAt_end body 0 (Sbepp.Spec.Vec.cstr s) hwl
      simpa using h1
    · simp only [Op.newLen]
      exact drop_writeAt body 0 _ (max n (Sbepp.Spec.Vec.cstr s).length) hwl (by omega)
  | assignRangeR ys =>
    simp only [Op.newLen] at hcap hmax
    have hwl : 0 + ys.length ≤ body.length := by omega
    refine ⟨putN P.w P.be ys.length, writeAt body 0 ys, ?_, hdr_putN P ys.length hmax, length_writeAt body 0 _ hwl, ?_, ?_⟩
    · simp only [step, retVoid, bind_apply, assignRangeR_exec hH.1 ys hcap hav hmax, andThen_ok,
        pure_apply, Op.ret]
    · show _ = _
      simp only [Op.newLen, Op.apply]
      have h1 := take_writeAt_end body 0 ys hwl
      simpa using h1
    · simp only [Op.newLen]
      exact drop_writeAt body 0 _ (max n ys.length) hwl (by omega)

/-! ### abstraction, well-formedness, frame -/

/-- the encoded length -/
def len (P : Params) (buf : List Nat) : Nat := getN P.be (buf.take P.w)

/-- abstraction function: the vector a memory image represents -/
def abs (P : Params) (buf : List Nat) : List Nat := (buf.drop P.w).take (len P buf)

/-- the view (prefix + payload in use) lies inside `[begin, end)`, which lies inside the memory
    block, and the prefix holds a value of the length type -/
structure WF (P : Params) (buf : List Nat) : Prop where
  fit : P.w + len P buf ≤ P.avail
  blk : P.avail ≤ buf.length
  lenOk : len P buf < 256 ^ P.w

/-- nothing at or after payload index `k` changed, and the block keeps its size -/
def Frame (P : Params) (buf buf' : List Nat) (k : Nat) : Prop :=
  buf'.length = buf.length ∧ buf'.drop (P.w + k) = buf.drop (P.w + k)

theorem Frame.getElem? {P : Params} {buf buf' : List Nat} {k : Nat} (h : Frame P buf buf' k) (i : Nat)
    (hi : P.w + k ≤ i) : buf'[i]? = buf[i]? := by
  obtain ⟨j, rfl⟩ : ∃ j, i = P.w + k + j := ⟨i - (P.w + k), by omega⟩
  rw [← List.getElem?_drop, ← List.getElem?_drop, h.2]

theorem Frame.refl (P : Params) (buf : List Nat) (k : Nat) : Frame P buf buf k := ⟨rfl, rfl⟩

theorem Frame.mono {P : Params} {buf buf' : List Nat} {k k' : Nat} (h : Frame P buf buf' k)
    (hk : k ≤ k') : Frame P buf buf' k' := by
  refine ⟨h.1, ?_⟩
  obtain ⟨d, rfl⟩ : ∃ d, k' = k + d := ⟨k' - k, by omega⟩
  rw [← Nat.add_assoc]
  have e1 : buf'.drop (P.w + k + d) = (buf'.drop (P.w + k)).drop d := by rw [List.drop_drop]
  have e2 : buf.drop (P.w + k + d) = (buf.drop (P.w + k)).drop d := by rw [List.drop_drop]
  rw [e1, e2, h.2]

theorem Frame.trans {P : Params} {a b c : List Nat} {k : Nat} (h1 : Frame P a b k) (h2 : Frame P b c k) :
    Frame P a c k := ⟨h2.1.trans h1.1, h2.2.trans h1.2⟩

theorem len_canon (hH : Hdr P hdr n) : len P (hdr ++ body) = n := by
  unfold len
  rw [List.take_left' hH.1, hH.2]

theorem abs_canon (hH : Hdr P hdr n) : abs P (hdr ++ body) = body.take n := by
  unfold abs
  rw [len_canon hH, List.drop_left' hH.1]

theorem canon {buf : List Nat} (hwf : WF P buf) :
    Hdr P (buf.take P.w) (len P buf) ∧ buf = buf.take P.w ++ buf.drop P.w
      ∧ P.avail ≤ P.w + (buf.drop P.w).length := by
  have h1 := hwf.fit
  have h2 := hwf.blk
  refine ⟨⟨?_, rfl⟩, (List.take_append_drop _ _).symm, ?_⟩
  · simp only [List.length_take]; omega
  · simp only [List.length_drop]; omega

theorem length_abs {buf : List Nat} (hwf : WF P buf) : (abs P buf).length = len P buf := by
  have h1 := hwf.fit
  have h2 := hwf.blk
  unfold abs
  simp only [List.length_take, List.length_drop]
  omega

/-- one operation, on any well-formed memory image -/
theorem step_refines_wf {buf : List Nat} (hwf : WF P buf) (op : Op) (hpre : op.pre (abs P buf).length)
    (hcap : P.w + op.newLen (abs P buf).length ≤ P.avail)
    (hmax : op.newLen (abs P buf).length < 256 ^ P.w) :
    ∃ buf', step P op buf = .ok op.ret buf' ∧ WF P buf'
      ∧ op.post (abs P buf) (abs P buf')
      ∧ (abs P buf').length = op.newLen (abs P buf).length
      ∧ Frame P buf buf' (max (abs P buf).length (op.newLen (abs P buf).length)) := by
  rw [length_abs hwf] at hpre hcap hmax ⊢
  obtain ⟨hH, hsplit, hav⟩ := canon hwf
  obtain ⟨hdr', body', hrun, hH', hlen, hpost, hdrop⟩ :=
    step_refines (body := buf.drop P.w) hH hwf.lenOk hwf.fit hav op hpre hcap hmax
  rw [← hsplit] at hrun
  have hwf' : WF P (hdr' ++ body') := by
    refine ⟨by rw [len_canon hH']; exact hcap, ?_, by rw [len_canon hH']; exact hmax⟩
    have := hwf.blk
    simp only [List.length_append, hH'.1, hlen, List.length_drop]
    have := hwf.fit
    omega
  refine ⟨hdr' ++ body', hrun, hwf', ?_, ?_, ?_, ?_⟩
  · rw [abs_canon hH']
    have : abs P buf = (buf.drop P.w).take (len P buf) := rfl
    rw [this]
    exact hpost
  · rw [length_abs hwf', len_canon hH']
  · have h1 := hwf.fit
    have h2 := hwf.blk
    simp only [List.length_append, hH'.1, hlen, List.length_drop]
    omega
  · rw [← hH'.1, List.drop_length_add_append, hdrop, List.drop_drop, hH'.1]

theorem peak_ge (n : Nat) (ops : List Op) : n ≤ Sbepp.Spec.Vec.peak n ops := by
  cases ops with
  | nil => exact Nat.le_refl _
  | cons op rest => exact Nat.le_max_left _ _

/-- all operation sequences, by induction over the history -/
theorem runOps_refines (ops : List Op) : ∀ {buf : List Nat}, WF P buf →
    Sbepp.Spec.Vec.ValidSeq (P.avail - P.w) (256 ^ P.w) (abs P buf).length ops →
    ∃ rets buf', runOps P ops buf = .ok rets buf' ∧ WF P buf'
      ∧ Sbepp.Spec.Vec.Steps (abs P buf) ops (abs P buf') rets
      ∧ Frame P buf buf' (Sbepp.Spec.Vec.peak (abs P buf).length ops) := by
  induction ops with
  | nil =>
    intro buf hwf _
    exact ⟨[], buf, rfl, hwf, Sbepp.Spec.Vec.Steps.nil _, Frame.refl _ _ _⟩
  | cons op rest ih =>
    intro buf hwf hv
    obtain ⟨hpre, hcap, hmax, hrest⟩ := hv
    have hw : P.w ≤ P.avail := by have := hwf.fit; omega
    obtain ⟨buf1, hrun1, hwf1, hpost1, hlen1, hfr1⟩ :=
      step_refines_wf hwf op hpre (by omega) hmax
    rw [← hlen1] at hrest
    obtain ⟨rets, buf', hrun, hwf', hsteps, hfr⟩ := ih hwf1 hrest
    refine ⟨op.ret :: rets, buf', ?_, hwf', Sbepp.Spec.Vec.Steps.cons hpost1 hsteps, ?_⟩
    · unfold runOps
      simp only [bind_apply, hrun1, andThen_ok, hrun, pure_apply]
    · unfold Sbepp.Spec.Vec.peak
      rw [← hlen1]
      have hp := peak_ge (abs P buf1).length rest
      refine Frame.trans (hfr1.mono ?_) (hfr.mono ?_)
      · rw [hlen1] at hp ⊢; omega
      · omega

/-! ### the bound: the checked build refuses what does not fit the view -/

theorem resizeDI_bounded (buf : List Nat) (m : Nat) (h : P.avail < P.w + m) (h64 : P.w + m < 2 ^ 64) :
    resizeDI P m buf = .assertFailed buf := by
  have e1 : sizeT (P.w + m) = P.w + m := Nat.mod_eq_of_lt h64
  have e2 : sizeT (0 + (P.w + m)) = P.w + m := by rw [Nat.zero_add]; exact e1
  have hd : decide (P.w + m ≤ P.avail) = false := decide_eq_false (by omega)
  unfold resizeDI sizeCheck
  simp only [bind_apply, e1, e2, hd]
  rfl

theorem pushBack_bounded {buf : List Nat} (hwf : WF P buf) (v : Nat)
    (hmax : len P buf + 1 < 256 ^ P.w) (h : P.avail < P.w + (len P buf + 1))
    (h64 : P.w + (len P buf + 1) < 2 ^ 64) :
    step P (.pushBack v) buf = .assertFailed buf := by
  obtain ⟨hH, hsplit, _⟩ := canon hwf
  have hwrap : wrapLen P ((len P buf : Int) + 1) = len P buf + 1 :=
    wrapLen_of_eq P _ (len P buf + 1) (by omega) hmax
  have hs := size_exec (body := buf.drop P.w) hH hwf.fit
  rw [← hsplit] at hs
  simp only [step, retVoid, pushBack, bind_apply, hs, andThen_ok, hwrap,
    resizeDI_bounded buf (len P buf + 1) h h64]
  rfl

end Sbepp.Rt.DynArray
