/-
  Helper lemmas for C14: what the loops of `Rt.StaticArray` compute on a buffer
  framed as `pre ++ arr ++ post`.  All by induction, no bound on lengths.
-/
import Sbepp.Rt.StaticArray
import Sbepp.Spec.StaticArray

namespace Sbepp.Lemmas.StaticArray
open Sbepp.Rt.StaticArray
open Sbepp

/-! ### writing -/

theorem set_at_prefix (pre : List Nat) (x y : Nat) (t : List Nat) :
    (pre ++ x :: t).set pre.length y = pre ++ y :: t := by
  rw [List.set_append_right _ _ (Nat.le_refl _)]
  simp

/-- `copy` of `src` to position `|pre|` of `pre ++ tail`, when it fits -/
theorem copyLoop_framed (src : List Nat) :
    ∀ (pre tail : List Nat), src.length ≤ tail.length →
      copyLoop (pre ++ tail) pre.length src
        = some (pre ++ src ++ tail.drop src.length, pre.length + src.length) := by
  induction src with
  | nil => intro pre tail _; simp [copyLoop]
  | cons x xs ih =>
    intro pre tail h
    cases tail with
    | nil => simp at h
    | cons t ts =>
      simp only [List.length_cons] at h
      have hlt : pre.length < (pre ++ t :: ts).length := by
        simp only [List.length_append, List.length_cons]; omega
      simp only [copyLoop, hlt, if_true]
      rw [set_at_prefix]
      have e : pre ++ x :: ts = (pre ++ [x]) ++ ts := by simp
      have el : pre.length + 1 = (pre ++ [x]).length := by simp
      rw [e, el, ih (pre ++ [x]) ts (by omega)]
      simp only [List.length_append, List.length_cons, List.length_nil, List.drop_succ_cons,
        List.append_assoc, List.singleton_append]
      congr 2
      omega

/-- `copy` of more than fits leaves the modelled memory -/
theorem copyLoop_oob (src : List Nat) :
    ∀ (pre tail : List Nat), tail.length < src.length →
      copyLoop (pre ++ tail) pre.length src = none := by
  induction src with
  | nil => intro pre tail h; simp at h
  | cons x xs ih =>
    intro pre tail h
    cases tail with
    | nil => simp [copyLoop]
    | cons t ts =>
      simp only [List.length_cons] at h
      have hlt : pre.length < (pre ++ t :: ts).length := by
        simp only [List.length_append, List.length_cons]; omega
      simp only [copyLoop, hlt, if_true]
      rw [set_at_prefix]
      have e : pre ++ x :: ts = (pre ++ [x]) ++ ts := by simp
      have el : pre.length + 1 = (pre ++ [x]).length := by simp
      rw [e, el, ih (pre ++ [x]) ts (by omega)]

theorem fillLoop_eq_copyLoop (value : Nat) (n : Nat) :
    ∀ (buf : List Nat) (pos : Nat),
      fillLoop buf pos value n = copyLoop buf pos (List.replicate n value) := by
  induction n with
  | zero => intro buf pos; rfl
  | succ k ih =>
    intro buf pos
    simp only [fillLoop, List.replicate_succ, copyLoop]
    split
    · exact ih _ _
    · rfl

/-- a write into the array part of `pre ++ arr ++ post` -/
theorem copyLoop_array (pre arr post src : List Nat) (h : src.length ≤ arr.length) :
    copyLoop (pre ++ arr ++ post) pre.length src
      = some (pre ++ (src ++ arr.drop src.length) ++ post, pre.length + src.length) := by
  rw [List.append_assoc, copyLoop_framed src pre (arr ++ post)
    (by simp only [List.length_append]; omega)]
  rw [List.drop_append_of_le_length h]
  simp [List.append_assoc]

/-- a write that runs over the end of the array into `post` -/
theorem copyLoop_overflow (pre arr post src : List Nat) (h1 : arr.length < src.length)
    (h2 : src.length ≤ arr.length + post.length) :
    copyLoop (pre ++ arr ++ post) pre.length src
      = some (pre ++ src ++ post.drop (src.length - arr.length), pre.length + src.length) := by
  rw [List.append_assoc, copyLoop_framed src pre (arr ++ post)
    (by simp only [List.length_append]; omega)]
  rw [List.drop_append, List.drop_of_length_le (Nat.le_of_lt h1)]
  simp

/-! ### reading -/

theorem scanNul_prefix (s rest : List Nat) (hs : ∀ c ∈ s, c ≠ 0) :
    scanNul (s ++ 0 :: rest) = some s.length := by
  induction s with
  | nil => simp [scanNul]
  | cons c cs ih =>
    have hc : c ≠ 0 := hs c (by simp)
    have := ih (fun d hd => hs d (by simp [hd]))
    simp [scanNul, hc, this]

/-- the unbounded scan over `a ++ b`: inside `a` if `a` contains a NUL,
    otherwise it continues into `b` -/
theorem scanNul_append (a b : List Nat) :
    scanNul (a ++ b)
      = if 0 ∈ a then some (Spec.StaticArray.strlen a)
        else (scanNul b).map (a.length + ·) := by
  induction a with
  | nil =>
    simp only [List.nil_append, List.not_mem_nil, if_false, List.length_nil, Nat.zero_add]
    cases scanNul b <;> simp
  | cons c cs ih =>
    simp only [List.cons_append, scanNul, Spec.StaticArray.strlen_cons]
    by_cases hc : c = 0
    · subst hc; simp
    · have hc' : ¬ 0 = c := fun e => hc e.symm
      simp only [hc, if_false, ih, List.mem_cons, hc', false_or]
      by_cases hm : 0 ∈ cs
      · simp [hm]
      · simp only [hm, if_false, List.length_cons]
        cases scanNul b with
        | none => simp
        | some k => simp; omega

theorem getElem?_framed_head (pre : List Nat) (b : Nat) (bs post : List Nat) :
    (pre ++ (b :: bs) ++ post)[pre.length]? = some b := by
  rw [List.append_assoc, List.getElem?_append_right (Nat.le_refl _)]
  simp

/-- `memchr` over exactly the array: the first NUL of the array, or null -/
theorem memchrNul_framed (arr : List Nat) :
    ∀ (pre post : List Nat),
      memchrNul (pre ++ arr ++ post) pre.length arr.length
        = some (if Spec.StaticArray.strlen arr < arr.length
                then some (pre.length + Spec.StaticArray.strlen arr) else none) := by
  induction arr with
  | nil => intro pre post; simp [memchrNul, Spec.StaticArray.strlen]
  | cons b bs ih =>
    intro pre post
    simp only [List.length_cons, memchrNul, getElem?_framed_head, Spec.StaticArray.strlen_cons]
    by_cases hb : b = 0
    · simp [hb]
    · simp only [hb, if_false]
      have e : pre ++ b :: bs ++ post = (pre ++ [b]) ++ bs ++ post := by simp
      have el : pre.length + 1 = (pre ++ [b]).length := by simp
      rw [e, el, ih (pre ++ [b]) post]
      simp only [List.length_append, List.length_cons, List.length_nil, Nat.add_lt_add_iff_right]
      split
      · congr 2; omega
      · rfl

/-- the bounded scan over exactly the array -/
theorem scanNulBounded_framed (arr : List Nat) :
    ∀ (pre post : List Nat),
      scanNulBounded (pre ++ arr ++ post) pre.length arr.length
        = some (Spec.StaticArray.strlen arr) := by
  induction arr with
  | nil => intro pre post; simp [scanNulBounded, Spec.StaticArray.strlen]
  | cons b bs ih =>
    intro pre post
    simp only [List.length_cons, scanNulBounded, getElem?_framed_head, Spec.StaticArray.strlen_cons]
    by_cases hb : b = 0
    · simp [hb]
    · simp only [hb, if_false]
      have e : pre ++ b :: bs ++ post = (pre ++ [b]) ++ bs ++ post := by simp
      have el : pre.length + 1 = (pre ++ [b]).length := by simp
      rw [e, el, ih (pre ++ [b]) post]
      rfl

/-- number of NULs at the right end -/
def trailingNuls (arr : List Nat) : Nat := (arr.reverse.takeWhile (fun b => b == 0)).length

theorem trailingNuls_snoc (l : List Nat) (b : Nat) :
    trailingNuls (l ++ [b]) = if b = 0 then trailingNuls l + 1 else 0 := by
  unfold trailingNuls
  by_cases hb : b = 0
  · simp [List.reverse_append, hb]
  · simp [List.reverse_append, hb]

theorem strlenR_eq (arr : List Nat) : Spec.StaticArray.strlenR arr = arr.length - trailingNuls arr := rfl

/-- the reverse `find_if` over exactly the array -/
theorem rfindNonNul_framed (arr : List Nat) :
    ∀ (pre post : List Nat),
      rfindNonNul (pre ++ arr ++ post) pre.length arr.length = some (trailingNuls arr) := by
  induction arr using Spec.StaticArray.snoc_induction with
  | h0 => intro pre post; simp [rfindNonNul, trailingNuls]
  | hs l b ih =>
    intro pre post
    have hget : (pre ++ (l ++ [b]) ++ post)[pre.length + l.length]? = some b := by
      have e : pre ++ (l ++ [b]) ++ post = (pre ++ l) ++ (b :: post) := by simp
      rw [e, List.getElem?_append_right (by simp)]
      simp
    simp only [List.length_append, List.length_cons, List.length_nil, Nat.zero_add, rfindNonNul,
      hget, trailingNuls_snoc]
    by_cases hb : b = 0
    · have e : pre ++ (l ++ [b]) ++ post = pre ++ l ++ ([b] ++ post) := by simp
      simp only [hb, ne_eq, not_true_eq_false, if_false, if_true]
      rw [← hb, e, ih pre ([b] ++ post)]
      rfl
    · simp [hb]

/-! ### glue between the model's and the specification's vocabulary -/

/-- the three documented padding modes as values of the C++ enum -/
def rtMode : Spec.StaticArray.Eos → EosNull
  | .none => .none
  | .single => .single
  | .all => .all

/-- outside the array nothing differs between two framed buffers -/
theorem frame_getElem? (pre arr arr' post : List Nat) (h : arr'.length = arr.length) (i : Nat)
    (hi : i < pre.length ∨ pre.length + arr.length ≤ i) :
    (pre ++ arr' ++ post)[i]? = (pre ++ arr ++ post)[i]? := by
  cases hi with
  | inl hlt =>
    rw [List.append_assoc, List.append_assoc, List.getElem?_append_left hlt,
      List.getElem?_append_left hlt]
  | inr hge =>
    rw [List.getElem?_append_right (by simp only [List.length_append]; omega),
      List.getElem?_append_right (by simp only [List.length_append]; omega)]
    simp only [List.length_append, h]

/-- `pad` on a buffer whose array part is `s ++ rest`, called with
    `eos_pos = begin() + |s|` -/
theorem pad_framed (pre s rest post : List Nat) (n avail : Nat) (m : Spec.StaticArray.Eos)
    (hn : n = s.length + rest.length) (hav : n ≤ avail) :
    pad ⟨pre.length, n, avail⟩ (pre ++ (s ++ rest) ++ post) (rtMode m) (pre.length + s.length)
      = .ok (pre ++ (s ++ Spec.StaticArray.padded rest m) ++ post) none := by
  have hsc : View.sizeCheck ⟨pre.length, n, avail⟩ = true := by simp [View.sizeCheck, hav]
  have hbuf : pre ++ (s ++ rest) ++ post = (pre ++ s) ++ rest ++ post := by simp
  have hpos : pre.length + s.length = (pre ++ s).length := by simp
  cases m with
  | none => rfl
  | all =>
    have hle : pre.length + s.length ≤ pre.length + n := by omega
    have hcnt : pre.length + n - (pre.length + s.length) = rest.length := by omega
    simp only [rtMode, pad, hsc, View.endPos, hle, if_true, hcnt, fillLoop_eq_copyLoop,
      Bool.not_true, Bool.false_eq_true, if_false]
    rw [hbuf, hpos, copyLoop_array (pre ++ s) rest post _ (by simp)]
    simp [Spec.StaticArray.padded]
  | single =>
    cases rest with
    | nil =>
      have he : pre.length + s.length = pre.length + n := by simp at hn; omega
      simp [rtMode, pad, hsc, View.endPos, he, Spec.StaticArray.padded]
    | cons x t =>
      have hne : pre.length + s.length ≠ pre.length + n := by
        simp only [List.length_cons] at hn; omega
      have hlt : pre.length + s.length < (pre ++ (s ++ x :: t) ++ post).length := by
        simp only [List.length_append, List.length_cons]; omega
      simp only [rtMode, pad, hsc, View.endPos, hne, hlt, if_true, ne_eq, not_false_eq_true,
        Bool.not_true, Bool.false_eq_true, if_false, Spec.StaticArray.padded]
      have e1 : pre ++ (s ++ x :: t) ++ post = (pre ++ s) ++ x :: (t ++ post) := by simp
      rw [e1, hpos, set_at_prefix]
      simp

/-! ### vocabulary of the statements over all operations -/

/-- the documented meaning of a modelled call (`none`: outside the documented
    domain — null pointer, unterminated source, invalid enum value, or the
    invalid enum value) -/
def denote : Op → Option Spec.StaticArray.Op
  | .assignStringRaw (some mem) m =>
    if 0 ∈ mem then
      match m with
      | .none => some (.assignString (mem.takeWhile (fun b => b != 0)) .none)
      | .single => some (.assignString (mem.takeWhile (fun b => b != 0)) .single)
      | .all => some (.assignString (mem.takeWhile (fun b => b != 0)) .all)
      | .invalid => none
    else none
  | .assignStringRaw none _ => none
  | .assignStringRange r .none => some (.assignString r .none)
  | .assignStringRange r .single => some (.assignString r .single)
  | .assignStringRange r .all => some (.assignString r .all)
  | .assignStringRange _ .invalid => none
  | .assignRange r => some (.assignRange r)
  | .assignIter r => some (.assignRange r)
  | .assignIlist r => some (.assignRange r)
  | .assignCount c x => some (.assignCount c x)
  | .fill x => some (.fill x)
  | .strlen => some .strlen
  | .strlenR => some .strlenR
  | .strlenCE => some .strlen

/-- model outcome `o` on `pre ++ arr ++ post` is what the specification result
    `r` on `arr` prescribes: same array bytes, same iterator, frame untouched;
    or the handler is called -/
def Agrees (pre post : List Nat) (o : Outcome) : Spec.StaticArray.Result → Prop
  | .ok arr' (.iter i) => o = .ok (pre ++ arr' ++ post) (some (pre.length + i))
  | .ok arr' (.size n) => o = .ok (pre ++ arr' ++ post) (some n)
  | .ok arr' .void => o = .ok (pre ++ arr' ++ post) none
  | .reject => ∃ b, o = .assertFailed b

theorem mem_split_takeWhile (mem : List Nat) (h : 0 ∈ mem) :
    ∃ rest, mem = mem.takeWhile (fun b => b != 0) ++ 0 :: rest
      ∧ ∀ c ∈ mem.takeWhile (fun b => b != 0), c ≠ 0 := by
  induction mem with
  | nil => simp at h
  | cons c cs ih =>
    by_cases hc : c = 0
    · subst hc
      exact ⟨cs, by simp, by simp⟩
    · have hc' : ¬ 0 = c := fun e => hc e.symm
      simp only [List.mem_cons, hc', false_or] at h
      obtain ⟨rest, h1, h2⟩ := ih h
      refine ⟨rest, ?_, ?_⟩
      · simp only [List.takeWhile_cons, bne_iff_ne, ne_eq, hc, not_false_eq_true,
          if_true, List.cons_append]
        exact congrArg (c :: ·) h1
      · intro d hd
        simp only [List.takeWhile_cons, bne_iff_ne, ne_eq, hc, not_false_eq_true,
          if_true, List.mem_cons] at hd
        cases hd with
        | inl e => exact e ▸ hc
        | inr e => exact h2 d e

/-- input lengths that the copy-before-check overloads can take without
    leaving the memory `arr ++ post` -/
theorem fits_of_inContract (arr post : List Nat) (op : Op) (sop : Spec.StaticArray.Op)
    (hd : denote op = some sop) (hc : Spec.StaticArray.InContract arr.length sop) :
    ∀ r m, op = .assignStringRange r m ∨ op = .assignRange r ∨ op = .assignIter r →
      r.length ≤ arr.length + post.length := by
  intro r m h
  rcases h with h | h | h <;> subst h
  · cases m <;> simp only [denote, Option.some.injEq] at hd <;>
      first
        | (subst hd; simp only [Spec.StaticArray.InContract] at hc; omega)
        | cases hd
  · simp only [denote, Option.some.injEq] at hd
    subst hd; simp only [Spec.StaticArray.InContract] at hc; omega
  · simp only [denote, Option.some.injEq] at hd
    subst hd; simp only [Spec.StaticArray.InContract] at hc; omega

end Sbepp.Lemmas.StaticArray
