/-
  Tie between the definitions regenerated from the C++ text on every check
  (`Sbepp.Extracted.StaticArray`, written by `extract/methods_staticarray.py`)
  and the hand transliteration `Sbepp.Rt.StaticArray`, one theorem per member
  function of `sbepp::detail::static_array_ref` (and per configuration:
  run time / constant evaluation, `std::copy` / `std::ranges::copy`).

  The regenerated definitions convert to `std::size_t` exactly where the C++
  does (`toSizeT`, modulo 2^64); the hand model computes in unbounded `Nat`.
  The two agree on every view whose `N` and `end - begin` fit `std::size_t`
  (`View.Fits`, true of every instantiation) and -- for the iterator-pair
  overload and the constant-evaluation `string_length` loop -- on argument
  sequences shorter than 2^64 (`OpFits`).  No other hypothesis.

  A change of the C++ text that changes the meaning of a member function
  changes its regenerated definition, and the theorem of that function (and of
  the functions that call it) stops checking.
-/
import Sbepp.Rt.StaticArray
import Sbepp.Extracted.StaticArray

set_option linter.unusedSimpArgs false

namespace Sbepp.Lemmas.StaticArrayTie
open Sbepp.Rt.StaticArray
open Sbepp.Extracted

theorem run_bind {α β} (m : M α) (f : α → M β) (s : List Nat) :
    (m >>= f) s = (m s).andThen f := rfl
theorem run_pure {α} (a : α) (s : List Nat) : (pure a : M α) s = .ok a s := rfl

theorem toSizeT_eq (i : Int) (n : Nat) (h : i = (n : Int)) (hn : n < 18446744073709551616) :
    toSizeT i = n := by
  unfold toSizeT; omega

theorem sizeM_tie : StaticArray.sizeM = Hand.sizeM := rfl

theorem dataM_tie (v : View) (hv : v.Fits) : StaticArray.dataM v = Hand.dataM v := by
  funext s
  obtain ⟨h1, h2⟩ := hv
  have e1 : toSizeT (0 + Int.ofNat v.N) = v.N := toSizeT_eq _ _ (by simp) h1
  have e2 : toSizeT (ptrDiff v.endPtr v.beginPtr) = v.avail :=
    toSizeT_eq _ _ (by simp only [ptrDiff, View.endPtr, View.beginPtr]; omega) h2
  have e3 : decide (v.beginPtr ≤ v.endPtr) = true := by simp [View.beginPtr, View.endPtr]
  simp only [StaticArray.dataM, e1, e2, e3]
  simp only [ptrToBool, Bool.true_and, run_bind, run_pure, assert, Hand.dataM, View.sizeCheck,
    View.beginPtr, Nat.zero_add]
  by_cases h : v.N ≤ v.avail <;> simp [h, Res.andThen, run_pure]

theorem beginM_tie (v : View) (hv : v.Fits) : StaticArray.beginM v = Hand.beginM v := by
  funext s
  simp only [StaticArray.beginM, dataM_tie v hv, Hand.beginM, Hand.dataM, run_bind]
  try (cases v.sizeCheck <;> rfl)

theorem endM_tie (v : View) (hv : v.Fits) : StaticArray.endM v = Hand.endM v := by
  funext s
  simp only [StaticArray.endM, dataM_tie v hv, sizeM_tie, Hand.endM, Hand.dataM, Hand.sizeM, run_bind]
  cases v.sizeCheck <;> rfl

theorem rbeginM_tie (v : View) (hv : v.Fits) : StaticArray.rbeginM v = Hand.rbeginM v := by
  funext s
  simp only [StaticArray.rbeginM, endM_tie v hv, Hand.rbeginM, Hand.endM, run_bind]
  cases v.sizeCheck <;> rfl

theorem rendM_tie (v : View) (hv : v.Fits) : StaticArray.rendM v = Hand.rendM v := by
  funext s
  simp only [StaticArray.rendM, beginM_tie v hv, Hand.rendM, Hand.beginM, Hand.dataM, run_bind]
  cases v.sizeCheck <;> rfl

theorem stringLengthM_tie : StaticArray.stringLengthM = Hand.stringLengthM := by
  funext str s
  cases str with
  | none => rfl
  | some p =>
    simp only [StaticArray.stringLengthM, Hand.stringLengthM, stdStrlen, run_bind]
    try (cases scanNul (List.drop p.idx p.mem) <;> rfl)

theorem memchrLoop_zero (buf : List Nat) (n : Nat) :
    ∀ pos, memchrLoop buf 0 pos n = memchrNul buf pos n := by
  induction n with
  | zero => intro pos; rfl
  | succ k ih => intro pos; simp only [memchrLoop, memchrNul, ih]

theorem memchrNul_bounds (buf : List Nat) (n : Nat) :
    ∀ pos p, memchrNul buf pos n = some (some p) → pos ≤ p ∧ p < pos + n := by
  induction n with
  | zero => intro pos p h; simp [memchrNul] at h
  | succ k ih =>
    intro pos p h
    simp only [memchrNul] at h
    split at h
    · cases h
    · split at h
      · simp only [Option.some.injEq] at h; omega
      · have := ih _ _ h; omega

/-- evaluate a `do` block of the vocabulary on a concrete state -/
macro "tie_simp" "[" ts:Lean.Parser.Tactic.simpLemma,* "]" : tactic =>
  `(tactic| simp only [run_bind, run_pure, Res.andThen, retVal, retVoid, assert, ubM,
      Hand.dataM, Hand.sizeM, Hand.beginM, Hand.endM, Hand.rbeginM, Hand.rendM,
      Bool.not_true, Bool.not_false, Bool.false_eq_true, if_false, if_true, ite_true, ite_false,
      decide_true, decide_false, $ts,*])

theorem strlen_tie (v : View) (hv : v.Fits) (buf : List Nat) :
    StaticArray.strlen v buf = strlen v buf := by
  simp only [StaticArray.strlen, StaticArray.strlenM, dataM_tie v hv, sizeM_tie, strlen]
  cases hsc : v.sizeCheck
  · tie_simp [hsc]
  · tie_simp [hsc, stdMemchr, Nat.zero_mod, memchrLoop_zero]
    cases hm : memchrNul buf v.off v.N with
    | none => tie_simp []
    | some r =>
      cases r with
      | none => tie_simp [hsc, Option.isSome]
      | some p =>
        have hb := memchrNul_bounds buf v.N v.off p hm
        have : toSizeT (ptrDiff p v.off) = p - v.off :=
          toSizeT_eq _ _ (by simp only [ptrDiff]; omega) (by have := hv.1; omega)
        tie_simp [hsc, Option.isSome, nptrDiff, this]

theorem rfindIf_nonNul (buf : List Nat) (off k : Nat) :
    rfindIf buf off (fun value => (value != 0)) k = rfindNonNul buf off k := by
  induction k with
  | zero => rfl
  | succ k ih => simp only [rfindIf, rfindNonNul, ih, bne_iff_ne, ne_eq, ite_not]

theorem rfindNonNul_le (buf : List Nat) (off k : Nat) :
    ∀ j, rfindNonNul buf off k = some j → j ≤ k := by
  induction k with
  | zero => intro j h; simp [rfindNonNul] at h; omega
  | succ k ih =>
    intro j h
    simp only [rfindNonNul] at h
    split at h
    · cases h
    · split at h
      · simp only [Option.some.injEq] at h; omega
      · cases hr : rfindNonNul buf off k with
        | none => simp [hr] at h
        | some j' =>
          simp only [hr, Option.map_some, Option.some.injEq] at h
          have := ih j' hr; omega

theorem strlenR_tie (v : View) (hv : v.Fits) (buf : List Nat) :
    StaticArray.strlenR v buf = strlenR v buf := by
  simp only [StaticArray.strlenR, StaticArray.strlenRM, rbeginM_tie v hv, rendM_tie v hv,
    sizeM_tie, strlenR]
  cases hsc : v.sizeCheck
  · tie_simp [hsc]
  · have hk : v.endPos - v.off = v.N := by simp [View.endPos]
    have hle : v.off ≤ v.endPos := by simp [View.endPos]
    tie_simp [hsc, stdFindIfRev, rfindIf_nonNul, hk, hle]
    cases hm : rfindNonNul buf v.off v.N with
    | none => tie_simp []
    | some j =>
      have hj := rfindNonNul_le buf v.off v.N j hm
      have : toSizeT (Int.ofNat v.N - RevIt.diff ⟨v.endPos - j⟩ ⟨v.endPos⟩) = v.N - j :=
        toSizeT_eq _ _ (by simp only [RevIt.diff, View.endPos, Int.ofNat_eq_natCast]; omega)
          (by have := hv.1; omega)
      tie_simp [hsc, this]

theorem fill_tie (v : View) (hv : v.Fits) (buf : List Nat) (value : Nat) :
    StaticArray.fill v buf value = fill v buf value := by
  simp only [StaticArray.fill, StaticArray.fillM, beginM_tie v hv, sizeM_tie, fill]
  cases hsc : v.sizeCheck
  · tie_simp [hsc]
  · tie_simp [hsc, stdFillN]
    cases fillLoop buf v.off value v.N with
    | none => tie_simp []
    | some r => tie_simp []

theorem assignCount_tie (v : View) (hv : v.Fits) (buf : List Nat) (count value : Nat) :
    StaticArray.assignCount v buf count value = assignCount v buf count value := by
  simp only [StaticArray.assignCount, StaticArray.assignCountM, beginM_tie v hv, sizeM_tie,
    assignCount]
  by_cases hc : count ≤ v.N
  · cases hsc : v.sizeCheck
    · tie_simp [hc, hsc]
    · tie_simp [hc, hsc, stdFillN]
      cases fillLoop buf v.off value count with
      | none => tie_simp []
      | some r => tie_simp []
  · tie_simp [hc]

theorem copyLoop_it (src : List Nat) :
    ∀ (buf : List Nat) (pos : Nat) (b : List Nat) (it : Nat),
      copyLoop buf pos src = some (b, it) → it = pos + src.length := by
  induction src with
  | nil => intro buf pos b it h; simp [copyLoop] at h; simp; omega
  | cons x xs ih =>
    intro buf pos b it h
    simp only [copyLoop] at h
    split at h
    · have := ih _ _ _ _ h; simp only [List.length_cons]; omega
    · cases h

/-- `std::copy(std::begin(r), std::end(r), out)` copies `r` -/
theorem stdCopy_whole (r : List Nat) (out : Nat) (s : List Nat) :
    stdCopy (stdBegin r) (stdEnd r) out s
      = match copyLoop s out r with
        | some (s', it) => .ok it s'
        | none => .ub := by
  simp only [stdCopy, stdBegin, stdEnd, List.drop_zero, Nat.sub_zero, List.take_length, Nat.zero_le,
    Nat.le_refl, and_self, if_true]
  cases copyLoop s out r <;> rfl

theorem assignRange_tie (v : View) (hv : v.Fits) (buf r : List Nat) :
    StaticArray.assignRange v buf r = assignRange v buf r := by
  simp only [StaticArray.assignRange, StaticArray.assignRangeM, beginM_tie v hv, endM_tie v hv,
    assignRange]
  cases hsc : v.sizeCheck
  · tie_simp [hsc]
  · tie_simp [hsc, stdCopy_whole]
    cases copyLoop buf v.off r with
    | none => tie_simp []
    | some p =>
      obtain ⟨b, res⟩ := p
      by_cases hle : res ≤ v.endPos <;> tie_simp [hsc, hle]

theorem assignRangeRanges_tie (v : View) (hv : v.Fits) (buf r : List Nat) :
    StaticArray.assignRangeRanges v buf r = assignRange v buf r := by
  simp only [StaticArray.assignRangeRanges, StaticArray.assignRangeRangesM, beginM_tie v hv,
    endM_tie v hv, assignRange]
  cases hsc : v.sizeCheck
  · tie_simp [hsc]
  · tie_simp [hsc, rangesCopy]
    cases copyLoop buf v.off r with
    | none => tie_simp []
    | some p =>
      obtain ⟨b, res⟩ := p
      by_cases hle : res ≤ v.endPos <;> tie_simp [hsc, hle]

/-- the iterator-pair overload at the monadic level, for an arbitrary pair
    `(std::begin(r), std::end(r))` -/
theorem assignIterM_tie (v : View) (hv : v.Fits) (buf r : List Nat)
    (hr : r.length < 18446744073709551616) :
    retVal (StaticArray.assignIterM v (stdBegin r) (stdEnd r)) buf = assignIter v buf r := by
  simp only [StaticArray.assignIterM, beginM_tie v hv, sizeM_tie, assignIter]
  cases hsc : v.sizeCheck
  · tie_simp [hsc]
  · tie_simp [hsc, stdCopy_whole]
    cases hc : copyLoop buf v.off r with
    | none => tie_simp []
    | some p =>
      obtain ⟨b, lastOut⟩ := p
      have hit := copyLoop_it r buf v.off b lastOut hc
      have e : toSizeT (ptrDiff lastOut v.off) = lastOut - v.off :=
        toSizeT_eq _ _ (by simp only [ptrDiff]; omega) (by omega)
      by_cases hle : lastOut - v.off ≤ v.N <;> tie_simp [hsc, e, hle]

theorem assignIter_tie (v : View) (hv : v.Fits) (buf r : List Nat)
    (hr : r.length < 18446744073709551616) :
    StaticArray.assignIter v buf r = assignIter v buf r := by
  simp only [StaticArray.assignIter]
  exact assignIterM_tie v hv buf r hr

theorem assignIlist_tie (v : View) (hv : v.Fits) (buf ilist : List Nat) :
    StaticArray.assignIlist v buf ilist = assignIlist v buf ilist := by
  simp only [StaticArray.assignIlist, StaticArray.assignIlistM, sizeM_tie, assignIlist]
  by_cases hc : ilist.length ≤ v.N
  · have hr : ilist.length < 18446744073709551616 := by have := hv.1; omega
    rw [← assignIterM_tie v hv buf ilist hr]
    tie_simp [hc]
    try (cases StaticArray.assignIterM v (stdBegin ilist) (stdEnd ilist) buf <;> tie_simp [])
  · tie_simp [hc]

theorem pad_tie (v : View) (hv : v.Fits) (buf : List Nat) (mode : EosNull) (eos : Nat) :
    StaticArray.pad v buf mode eos = pad v buf mode eos := by
  simp only [StaticArray.pad, StaticArray.padM, endM_tie v hv, pad]
  cases mode
  · tie_simp [beq_iff_eq, reduceCtorEq]
  · cases hsc : v.sizeCheck
    · tie_simp [beq_iff_eq, reduceCtorEq, hsc]
    · by_cases he : eos = v.endPos
      · tie_simp [beq_iff_eq, reduceCtorEq, hsc, he, bne_self_eq_false, ne_eq, not_true_eq_false]
      · by_cases hl : eos < buf.length <;>
          tie_simp [beq_iff_eq, reduceCtorEq, hsc, he, hl, bne_iff_ne, ne_eq, not_false_eq_true, store]
  · cases hsc : v.sizeCheck
    · tie_simp [beq_iff_eq, reduceCtorEq, hsc]
    · by_cases hle : eos ≤ v.endPos
      · tie_simp [beq_iff_eq, reduceCtorEq, hsc, stdFill, hle]
        cases fillLoop buf eos 0 (v.endPos - eos) with
        | none => tie_simp []
        | some r => tie_simp []
      · tie_simp [beq_iff_eq, reduceCtorEq, hsc, stdFill, hle]
  · tie_simp [beq_iff_eq, reduceCtorEq]

/-- sequencing `pad(mode, eos_pos); return eos_pos;` after a call that yields `eos_pos` -/
theorem then_pad (v : View) (hv : v.Fits) (m : M Nat) (mode : EosNull) (buf : List Nat) :
    retVal (do let eos_pos ← m; StaticArray.padM v mode eos_pos; pure eos_pos) buf
      = match retVal m buf with
        | .ok buf1 (some eosPos) =>
          match pad v buf1 mode eosPos with
          | .ok buf2 _ => .ok buf2 (some eosPos)
          | o => o
        | o => o := by
  cases hm : m buf with
  | ok a b =>
    have hp := pad_tie v hv b mode a
    simp only [StaticArray.pad, retVoid] at hp
    tie_simp [hm]
    cases hq : StaticArray.padM v mode a b with
    | ok u b2 => rw [hq] at hp; rw [← hp]; rfl
    | assertFailed b2 => rw [hq] at hp; rw [← hp]
    | ub => rw [hq] at hp; rw [← hp]
  | assertFailed b => tie_simp [hm]
  | ub => tie_simp [hm]

theorem assignStringRange_tie (v : View) (hv : v.Fits) (buf r : List Nat) (mode : EosNull) :
    StaticArray.assignStringRange v buf r mode = assignStringRange v buf r mode := by
  simp only [StaticArray.assignStringRange, StaticArray.assignStringRangeM, assignStringRange]
  rw [← assignRange_tie v hv buf r, StaticArray.assignRange]
  exact then_pad v hv _ mode buf

theorem assignStringRangeRanges_tie (v : View) (hv : v.Fits) (buf r : List Nat) (mode : EosNull) :
    StaticArray.assignStringRangeRanges v buf r mode = assignStringRange v buf r mode := by
  simp only [StaticArray.assignStringRangeRanges, StaticArray.assignStringRangeRangesM,
    assignStringRange]
  rw [← assignRangeRanges_tie v hv buf r, StaticArray.assignRangeRanges]
  exact then_pad v hv _ mode buf

theorem scanNul_lt (mem : List Nat) : ∀ n, scanNul mem = some n → n < mem.length := by
  induction mem with
  | nil => intro n h; simp [scanNul] at h
  | cons b bs ih =>
    intro n h
    simp only [scanNul] at h
    split at h
    · simp only [Option.some.injEq] at h; simp only [List.length_cons]; omega
    · cases hr : scanNul bs with
      | none => simp [hr] at h
      | some k =>
        simp only [hr, Option.map_some, Option.some.injEq] at h
        have := ih k hr; simp only [List.length_cons]; omega

theorem retVal_congr (m m' : M Nat) (buf : List Nat) (h : m buf = m' buf) :
    retVal m buf = retVal m' buf := by
  simp only [retVal, h]

/-- `assign_string(const char*)` with either branch of `string_length` -/
theorem assignStringRaw_core (v : View) (hv : v.Fits) (buf : List Nat) (str : Option (List Nat))
    (mode : EosNull) (sl : CStr → M Nat)
    (hsl : sl (CStr.ofMem str) = Hand.stringLengthM (CStr.ofMem str)) :
    retVal (do
        assert (CStr.ofMem str).isSome
        let length ← sl (CStr.ofMem str)
        assert (decide (length ≤ (← Hand.sizeM v)))
        let eos_pos ← stdCopyN (CStr.ofMem str) length (← Hand.beginM v)
        StaticArray.padM v mode eos_pos
        pure eos_pos) buf
      = assignStringRaw v buf str mode := by
  rw [hsl]
  cases str with
  | none => tie_simp [CStr.ofMem, Option.map, Option.isSome, assignStringRaw]
  | some mem =>
    simp only [assignStringRaw]
    cases hs : scanNul mem with
    | none =>
      tie_simp [CStr.ofMem, Option.map, Option.isSome, Hand.stringLengthM, List.drop_zero, hs]
    | some length =>
      have hlt := scanNul_lt mem length hs
      by_cases hl : length ≤ v.N
      · cases hsc : v.sizeCheck
        · tie_simp [CStr.ofMem, Option.map, Option.isSome, Hand.stringLengthM, List.drop_zero, hs,
            hl, hsc]
        · have hpre : (do
                assert (CStr.ofMem (some mem)).isSome
                let length ← Hand.stringLengthM (CStr.ofMem (some mem))
                assert (decide (length ≤ (← Hand.sizeM v)))
                let eos_pos ← stdCopyN (CStr.ofMem (some mem)) length (← Hand.beginM v)
                StaticArray.padM v mode eos_pos
                pure eos_pos : M Nat) buf
              = (do
                let eos_pos ← stdCopyN (some ⟨mem, 0⟩) length v.off
                StaticArray.padM v mode eos_pos
                pure eos_pos : M Nat) buf := by
            tie_simp [CStr.ofMem, Option.map, Option.isSome, Hand.stringLengthM, List.drop_zero,
              hs, hl, hsc]
          rw [retVal_congr _ _ buf hpre, then_pad v hv _ mode buf]
          have hfit : 0 + length ≤ mem.length := by omega
          tie_simp [hl, hsc, stdCopyN, List.drop_zero, hfit]
          cases copyLoop buf v.off (List.take length mem) with
          | none => rfl
          | some p => rfl
      · tie_simp [CStr.ofMem, Option.map, Option.isSome, Hand.stringLengthM, List.drop_zero, hs, hl]

theorem assignStringRaw_tie (v : View) (hv : v.Fits) (buf : List Nat) (str : Option (List Nat))
    (mode : EosNull) :
    StaticArray.assignStringRaw v buf str mode = assignStringRaw v buf str mode := by
  simp only [StaticArray.assignStringRaw, StaticArray.assignStringRawM, beginM_tie v hv, sizeM_tie]
  exact assignStringRaw_core v hv buf str mode _ (by rw [stringLengthM_tie])

/-! ### the two hand-written loops of the class (constant evaluation) -/

/-- `for(; *str != '\0'; str++, length++)` -/
theorem forLoop_scanNul (mem : List Nat) (cond : CStr × Nat → M Bool) (step : CStr × Nat → M (CStr × Nat))
    (hcond : ∀ idx k s, cond (some ⟨mem, idx⟩, k) s
      = match mem[idx]? with
        | some b => .ok (b != 0) s
        | none => .ub)
    (hstep : ∀ idx k s, idx < mem.length →
      step (some ⟨mem, idx⟩, k) s = .ok (some ⟨mem, idx + 1⟩, toSizeT (Int.ofNat k + 1)) s)
    (s : List Nat) :
    ∀ (fuel idx k : Nat), mem.length - idx < fuel → k + (mem.length - idx) < 18446744073709551616 →
      forLoop cond step fuel (some ⟨mem, idx⟩, k) s
        = match scanNul (mem.drop idx) with
          | some n => .ok (some ⟨mem, idx + n⟩, k + n) s
          | none => .ub := by
  intro fuel
  induction fuel with
  | zero => intro idx k h; omega
  | succ fuel ih =>
    intro idx k hf hk
    simp only [forLoop, run_bind, hcond]
    by_cases hi : idx < mem.length
    · have hd : mem.drop idx = mem[idx] :: mem.drop (idx + 1) := List.drop_eq_getElem_cons hi
      simp only [List.getElem?_eq_getElem hi, hd, scanNul, Res.andThen]
      by_cases hb : mem[idx] = 0
      · simp [hb, run_pure]
      · have e : toSizeT (Int.ofNat k + 1) = k + 1 :=
          toSizeT_eq _ _ (by simp) (by omega)
        simp only [bne_iff_ne, ne_eq, hb, not_false_eq_true, if_true, if_false, run_bind,
          hstep idx k s hi, Res.andThen, e]
        rw [ih (idx + 1) (k + 1) (by omega) (by omega)]
        cases scanNul (mem.drop (idx + 1)) with
        | none => rfl
        | some n => simp only [Option.map_some, Nat.add_assoc, Nat.add_comm 1 n]
    · have hn : mem[idx]? = none := List.getElem?_eq_none (by omega)
      have hd : mem.drop idx = [] := List.drop_of_length_le (by omega)
      simp only [hn, hd, scanNul, Res.andThen]

theorem stringLengthCEM_tie (str : CStr)
    (hstr : ∀ p, str = some p → p.mem.length < 18446744073709551616) :
    StaticArray.stringLengthCEM str = Hand.stringLengthM str := by
  funext s
  cases str with
  | none => rfl
  | some p =>
    obtain ⟨mem, idx⟩ := p
    have hlen := hstr _ rfl
    simp only at hlen
    simp only [StaticArray.stringLengthCEM, Hand.stringLengthM, run_bind, memBound, Res.andThen]
    rw [forLoop_scanNul mem _ _
      (by intro idx k s; simp only [run_bind, derefExt]; cases mem[idx]? <;> rfl)
      (by intro idx k s hi; simp [run_bind, extNext, hi, Res.andThen, run_pure]) s _ idx 0
      (by simp [CStr.objs]; omega) (by omega)]
    cases scanNul (List.drop idx mem) <;> simp [Res.andThen, run_pure]

theorem assignStringRawCE_tie (v : View) (hv : v.Fits) (buf : List Nat) (str : Option (List Nat))
    (mode : EosNull) (hstr : ∀ mem, str = some mem → mem.length < 18446744073709551616) :
    StaticArray.assignStringRawCE v buf str mode = assignStringRaw v buf str mode := by
  simp only [StaticArray.assignStringRawCE, StaticArray.assignStringRawCEM, beginM_tie v hv,
    sizeM_tie]
  refine assignStringRaw_core v hv buf str mode _ (stringLengthCEM_tie _ ?_)
  intro p hp
  cases str with
  | none => cases hp
  | some mem =>
    simp only [CStr.ofMem, Option.map, Option.some.injEq] at hp
    subst hp
    exact hstr mem rfl

/-- `for(; (length != size()) && (first[length] != '\0'); length++)` -/
theorem forLoop_scanNulBounded (off N : Nat) (hN : N < 18446744073709551616)
    (cond : Nat → M Bool) (step : Nat → M Nat)
    (hcond : ∀ k s, cond k s
      = if k ≠ N then
          match s[off + k]? with
          | some b => .ok (b != 0) s
          | none => .ub
        else .ok false s)
    (hstep : ∀ k s, step k s = .ok (toSizeT (Int.ofNat k + 1)) s)
    (s : List Nat) :
    ∀ (fuel k : Nat), k ≤ N → s.length - (off + k) < fuel →
      forLoop cond step fuel k s
        = match scanNulBounded s (off + k) (N - k) with
          | some n => .ok (k + n) s
          | none => .ub := by
  intro fuel
  induction fuel with
  | zero => intro k _ h; omega
  | succ fuel ih =>
    intro k hk hf
    simp only [forLoop, run_bind, hcond]
    by_cases hkn : k = N
    · simp [hkn, scanNulBounded, Res.andThen, run_pure]
    · obtain ⟨m, hm⟩ : ∃ m, N - k = m + 1 := ⟨N - k - 1, by omega⟩
      simp only [ne_eq, hkn, not_false_eq_true, if_true, hm, scanNulBounded]
      cases hg : s[off + k]? with
      | none => simp [Res.andThen]
      | some b =>
        by_cases hb : b = 0
        · simp [hb, Res.andThen, run_pure]
        · have hlt : off + k < s.length := by
            rcases Nat.lt_or_ge (off + k) s.length with h | h
            · exact h
            · rw [List.getElem?_eq_none h] at hg; cases hg
          have e : toSizeT (Int.ofNat k + 1) = k + 1 := toSizeT_eq _ _ (by simp) (by omega)
          simp only [bne_iff_ne, ne_eq, hb, not_false_eq_true, if_true, if_false, run_bind,
            hstep, Res.andThen, e, decide_true]
          rw [ih (k + 1) (by omega) (by omega)]
          have hm' : N - (k + 1) = m := by omega
          rw [hm', Nat.add_assoc off k 1]
          cases scanNulBounded s (off + (k + 1)) m with
          | none => rfl
          | some n => simp only [Option.map_some, Nat.add_assoc, Nat.add_comm 1 n]

theorem strlenCE_tie (v : View) (hv : v.Fits) (buf : List Nat) :
    StaticArray.strlenCE v buf = strlenCE v buf := by
  simp only [StaticArray.strlenCE, StaticArray.strlenCEM, dataM_tie v hv, sizeM_tie, strlenCE]
  cases hsc : v.sizeCheck
  · tie_simp [hsc]
  · tie_simp [hsc, memBound]
    rw [forLoop_scanNulBounded v.off v.N hv.1 _ _
      (by
        intro k s
        by_cases hk : k = v.N
        · simp [landM, run_bind, run_pure, Res.andThen, Hand.sizeM, hk]
        · simp only [landM, run_bind, run_pure, Res.andThen, Hand.sizeM, bne_iff_ne, ne_eq, hk,
            not_false_eq_true, decide_true, if_true, deref, ptrAdd]
          cases s[v.off + k]? <;> rfl)
      (by intro k s; rfl) buf _ 0 (Nat.zero_le _) (by simp; omega)]
    simp only [Nat.add_zero, Nat.sub_zero, Nat.zero_add]
    cases scanNulBounded buf v.off v.N with
    | none => rfl
    | some n => rfl

/-! ### all operations at once -/

/-- build configuration: which branch of `is_constant_evaluated()` the call of
    `assign_string(const char*)` takes, and `SBEPP_HAS_RANGES` -/
structure Cfg where
  ce : Bool
  ranges : Bool

/-- `Rt.StaticArray.run` over the regenerated definitions -/
def runX (cfg : Cfg) (v : View) (buf : List Nat) : Op → Outcome
  | .assignStringRaw s m =>
    if cfg.ce then StaticArray.assignStringRawCE v buf s m else StaticArray.assignStringRaw v buf s m
  | .assignStringRange r m =>
    if cfg.ranges then StaticArray.assignStringRangeRanges v buf r m
    else StaticArray.assignStringRange v buf r m
  | .assignRange r =>
    if cfg.ranges then StaticArray.assignRangeRanges v buf r else StaticArray.assignRange v buf r
  | .assignCount c x => StaticArray.assignCount v buf c x
  | .assignIter r => StaticArray.assignIter v buf r
  | .assignIlist l => StaticArray.assignIlist v buf l
  | .fill x => StaticArray.fill v buf x
  | .strlen => StaticArray.strlen v buf
  | .strlenCE => StaticArray.strlenCE v buf
  | .strlenR => StaticArray.strlenR v buf

/-- the argument sequences whose length the C++ converts to `std::size_t`
    fit it (true of every object a 64-bit program can hold) -/
def OpFits : Op → Prop
  | .assignStringRaw (some mem) _ => mem.length < 18446744073709551616
  | .assignIter r => r.length < 18446744073709551616
  | _ => True

theorem runX_tie (cfg : Cfg) (v : View) (hv : v.Fits) (buf : List Nat) (op : Op) (hop : OpFits op) :
    runX cfg v buf op = run v buf op := by
  cases op with
  | assignStringRaw s m =>
    simp only [runX, run]
    split
    · refine assignStringRawCE_tie v hv buf s m ?_
      intro mem hmem; subst hmem; exact hop
    · exact assignStringRaw_tie v hv buf s m
  | assignStringRange r m =>
    simp only [runX, run]
    split
    · exact assignStringRangeRanges_tie v hv buf r m
    · exact assignStringRange_tie v hv buf r m
  | assignRange r =>
    simp only [runX, run]
    split
    · exact assignRangeRanges_tie v hv buf r
    · exact assignRange_tie v hv buf r
  | assignCount c x => exact assignCount_tie v hv buf c x
  | assignIter r => exact assignIter_tie v hv buf r hop
  | assignIlist l => exact assignIlist_tie v hv buf l
  | fill x => exact fill_tie v hv buf x
  | strlen => exact strlen_tie v hv buf
  | strlenCE => exact strlenCE_tie v hv buf
  | strlenR => exact strlenR_tie v hv buf

/-- `View.Fits` cannot be dropped: for `N = 2^64` (not a `std::size_t`) the
    C++ conversion wraps to 0 and the size check of `data()` passes, while the
    hand model, which computes in `Nat`, rejects the view -/
theorem fits_needed :
    StaticArray.strlen ⟨0, 18446744073709551616, 0⟩ [] = .ub ∧
    strlen ⟨0, 18446744073709551616, 0⟩ [] = .assertFailed [] := by
  constructor <;> decide

end Sbepp.Lemmas.StaticArrayTie
