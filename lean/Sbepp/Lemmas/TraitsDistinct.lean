/-
  C18: distinct entities get distinct tag paths, provided sibling names are
  unique (`Spec.Traits.UniqueNames`).
-/
import Sbepp.Lemmas.TraitsEntities

namespace Sbepp.Gen.Traits
open Sbepp Sbepp.Schema Sbepp.Spec.Traits

/-- the tag paths of an entity list -/
def paths (l : List (Path × Entity)) : List Path := l.map (·.1)

@[simp] theorem paths_nil : paths [] = [] := rfl
@[simp] theorem paths_cons (x : Path × Entity) (l : List (Path × Entity)) : paths (x :: l) = x.1 :: paths l := rfl
@[simp] theorem paths_append (a b : List (Path × Entity)) : paths (a ++ b) = paths a ++ paths b := by simp [paths]

/-- `q` lies below `pfx` through a child named by one of `names` -/
def Under (pfx : Path) (names : List String) (q : Path) : Prop := ∃ n, n ∈ names ∧ ∃ rest, q = pfx ++ n :: rest

theorem under_mono {pfx : Path} {ns ns' : List String} {q : Path} (h : Under pfx ns q) (hs : ∀ n ∈ ns, n ∈ ns') :
    Under pfx ns' q := by
  obtain ⟨n, hn, rest, rfl⟩ := h
  exact ⟨n, hs n hn, rest, rfl⟩

theorem under_ne {pfx : Path} {ns1 ns2 : List String} {q1 q2 : Path} (h1 : Under pfx ns1 q1) (h2 : Under pfx ns2 q2)
    (hd : ∀ a ∈ ns1, ∀ b ∈ ns2, a ≠ b) : q1 ≠ q2 := by
  obtain ⟨n1, hn1, r1, rfl⟩ := h1
  obtain ⟨n2, hn2, r2, rfl⟩ := h2
  intro h
  have := List.append_cancel_left h
  simp only [List.cons.injEq] at this
  exact hd n1 hn1 n2 hn2 this.1

/-- a path below `pfx ++ [n]` is below `pfx` through `n` -/
theorem under_deeper {pfx : Path} {n : String} {ns : List String} {q : Path} (h : Under (pfx ++ [n]) ns q) :
    Under pfx [n] q := by
  obtain ⟨m, _, rest, rfl⟩ := h
  exact ⟨n, by simp, m :: rest, by simp⟩

theorem self_not_under {pfx : Path} {n : String} {ns : List String} {q : Path} (h : Under (pfx ++ [n]) ns q) :
    q ≠ pfx ++ [n] := by
  obtain ⟨m, _, rest, rfl⟩ := h
  intro h
  have : (pfx ++ [n]) ++ m :: rest = (pfx ++ [n]) ++ [] := by simp at h
  have := List.append_cancel_left this
  simp at this

theorem nodup_map_prefix (pfx : Path) : ∀ (names : List String), names.Nodup →
    (names.map (fun n => pfx ++ [n])).Nodup := by
  intro names
  induction names with
  | nil => intro _; simp
  | cons n rest ih =>
    intro h
    obtain ⟨h1, h2⟩ := List.nodup_cons.mp h
    simp only [List.map_cons, List.nodup_cons, List.mem_map, not_exists, not_and]
    refine ⟨?_, ih h2⟩
    intro m hm heq
    have := List.append_cancel_left heq
    simp only [List.cons.injEq, and_true] at this
    subst this
    exact h1 hm

theorem under_map_prefix (pfx : Path) (names : List String) (q : Path) (h : q ∈ names.map (fun n => pfx ++ [n])) :
    Under pfx names q := by
  obtain ⟨n, hn, rfl⟩ := List.mem_map.mp h
  exact ⟨n, hn, [], rfl⟩

/-- two lists of paths below the same prefix through disjoint names are disjoint; both nodup ⇒ append nodup -/
theorem nodup_append_under {pfx : Path} {ns1 ns2 : List String} {l1 l2 : List Path} (h1 : l1.Nodup) (h2 : l2.Nodup)
    (u1 : ∀ q ∈ l1, Under pfx ns1 q) (u2 : ∀ q ∈ l2, Under pfx ns2 q) (hd : ∀ a ∈ ns1, ∀ b ∈ ns2, a ≠ b) :
    (l1 ++ l2).Nodup :=
  List.nodup_append.mpr ⟨h1, h2, fun a ha b hb => under_ne (u1 a ha) (u2 b hb) hd⟩

theorem nodup_append_names {l1 l2 : List String} (h : (l1 ++ l2).Nodup) :
    l1.Nodup ∧ l2.Nodup ∧ ∀ a ∈ l1, ∀ b ∈ l2, a ≠ b := List.nodup_append.mp h

/-! ### encodings -/

def leafNames : Elem → List String
  | .enum _ _ _ vs _ => vs.map (fun v => v.name)
  | .set _ _ _ cs _ => cs.map (fun c => c.name)
  | _ => []

theorem leaf_paths (self : Path) (e : Elem) :
    paths (leafEntities self e) = (leafNames e).map (fun n => self ++ [n]) := by
  cases e <;> simp [leafEntities, leafNames, paths, Function.comp_def]

mutual
  theorem elem_under : ∀ (e : Elem) (pfx : Path) (ctx : Option (List Elem)) (q : Path),
      q ∈ paths (elemEntities pfx ctx e) → Under pfx [e.name] q
    | .type t, pfx, ctx, q, h => by
      simp only [elemEntities, paths_cons, paths_nil, List.mem_singleton] at h
      exact ⟨t.name, by simp [Elem.name], [], h⟩
    | .ref n ty o a, pfx, ctx, q, h => by
      simp only [elemEntities, paths_cons, paths_nil, List.mem_singleton] at h
      exact ⟨n, by simp [Elem.name], [], h⟩
    | .enum n enc o vs a, pfx, ctx, q, h => by
      simp only [elemEntities, paths_cons, List.mem_cons, leaf_paths, List.mem_map] at h
      rcases h with h | ⟨m, _, rfl⟩
      · exact ⟨n, by simp [Elem.name], [], h⟩
      · exact ⟨n, by simp [Elem.name], [m], by simp⟩
    | .set n enc o cs a, pfx, ctx, q, h => by
      simp only [elemEntities, paths_cons, List.mem_cons, leaf_paths, List.mem_map] at h
      rcases h with h | ⟨m, _, rfl⟩
      · exact ⟨n, by simp [Elem.name], [], h⟩
      · exact ⟨n, by simp [Elem.name], [m], by simp⟩
    | .composite n o elems a, pfx, ctx, q, h => by
      simp only [elemEntities, paths_cons, List.mem_cons] at h
      rcases h with h | h
      · exact ⟨n, by simp [Elem.name], [], h⟩
      · exact under_deeper (elems_under elems (pfx ++ [n]) [] q h)
  theorem elems_under : ∀ (es : List Elem) (pfx : Path) (b : List Elem) (q : Path),
      q ∈ paths (elemsEntities pfx b es) → Under pfx (es.map Elem.name) q
    | [], pfx, b, q, h => by simp [elemsEntities] at h
    | e :: rest, pfx, b, q, h => by
      simp only [elemsEntities, paths_append, List.mem_append] at h
      rcases h with h | h
      · exact under_mono (elem_under e pfx (some b) q h) (by simp)
      · exact under_mono (elems_under rest pfx (b ++ [e]) q h) (by intro n hn; simp [hn])
end

mutual
  theorem elem_nodup : ∀ (e : Elem) (pfx : Path) (ctx : Option (List Elem)), UniqueElem e →
      (paths (elemEntities pfx ctx e)).Nodup
    | .type t, pfx, ctx, _ => by simp [elemEntities]
    | .ref n ty o a, pfx, ctx, _ => by simp [elemEntities]
    | .enum n enc o vs a, pfx, ctx, hu => by
      simp only [UniqueElem] at hu
      simp only [elemEntities, paths_cons, leaf_paths, List.nodup_cons]
      refine ⟨?_, nodup_map_prefix _ _ hu⟩
      intro hm
      exact self_not_under (under_map_prefix _ _ _ hm) rfl
    | .set n enc o cs a, pfx, ctx, hu => by
      simp only [UniqueElem] at hu
      simp only [elemEntities, paths_cons, leaf_paths, List.nodup_cons]
      refine ⟨?_, nodup_map_prefix _ _ hu⟩
      intro hm
      exact self_not_under (under_map_prefix _ _ _ hm) rfl
    | .composite n o elems a, pfx, ctx, hu => by
      simp only [UniqueElem] at hu
      simp only [elemEntities, paths_cons, List.nodup_cons]
      refine ⟨?_, elems_nodup elems (pfx ++ [n]) [] hu.1 hu.2⟩
      intro hm
      exact self_not_under (elems_under elems (pfx ++ [n]) [] _ hm) rfl
  theorem elems_nodup : ∀ (es : List Elem) (pfx : Path) (b : List Elem), (es.map Elem.name).Nodup → UniqueElems es →
      (paths (elemsEntities pfx b es)).Nodup
    | [], pfx, b, _, _ => by simp [elemsEntities]
    | e :: rest, pfx, b, hn, hu => by
      simp only [UniqueElems] at hu
      simp only [List.map_cons, List.nodup_cons] at hn
      simp only [elemsEntities, paths_append]
      refine nodup_append_under (elem_nodup e pfx (some b) hu.1) (elems_nodup rest pfx (b ++ [e]) hn.2 hu.2)
        (fun q hq => elem_under e pfx (some b) q hq) (fun q hq => elems_under rest pfx (b ++ [e]) q hq) ?_
      intro x hx y hy hxy
      simp only [List.mem_singleton] at hx
      subst hx; subst hxy
      exact hn.1 hy
end

/-! ### levels -/

theorem field_paths (pfx : Path) : ∀ (fs b : List FieldDef),
    paths (fieldEntities pfx b fs) = (fs.map (·.name)).map (fun n => pfx ++ [n]) := by
  intro fs
  induction fs with
  | nil => intro b; simp [fieldEntities]
  | cons f rest ih => intro b; simp [fieldEntities, ih]

theorem data_paths (pfx : Path) (ds : List DataDef) :
    paths (dataEntities pfx ds) = (ds.map (·.name)).map (fun n => pfx ++ [n]) := by
  simp [dataEntities, paths, Function.comp_def]

theorem level_under (pfx : Path) (fs : List FieldDef) (gs : List GroupDef) (ds : List DataDef)
    (hG : ∀ q ∈ paths (groupsEntities pfx gs), Under pfx (gs.map gName) q) (q : Path)
    (h : q ∈ paths (levelEntities pfx fs gs ds)) : Under pfx (levelNames fs gs ds) q := by
  simp only [levelEntities, paths_append, List.mem_append, field_paths, data_paths] at h
  rcases h with h | h | h
  · exact under_mono (under_map_prefix _ _ _ h) (by intro n hn; simp [levelNames, hn])
  · exact under_mono (hG q h) (by intro n hn; simp only [levelNames, List.mem_append]; exact Or.inr (Or.inl hn))
  · exact under_mono (under_map_prefix _ _ _ h) (by intro n hn; simp only [levelNames, List.mem_append]; exact Or.inr (Or.inr hn))

theorem level_nodup (pfx : Path) (fs : List FieldDef) (gs : List GroupDef) (ds : List DataDef)
    (hn : (levelNames fs gs ds).Nodup) (hG : (paths (groupsEntities pfx gs)).Nodup)
    (hGu : ∀ q ∈ paths (groupsEntities pfx gs), Under pfx (gs.map gName) q) :
    (paths (levelEntities pfx fs gs ds)).Nodup := by
  obtain ⟨hf, hgd, hfgd⟩ := nodup_append_names hn
  obtain ⟨_, hd, hgdd⟩ := nodup_append_names hgd
  simp only [levelEntities, paths_append, field_paths, data_paths]
  refine nodup_append_under (ns1 := fs.map (·.name)) (ns2 := gs.map gName ++ ds.map (·.name)) (pfx := pfx)
    (nodup_map_prefix _ _ hf) ?_ (fun q hq => under_map_prefix _ _ _ hq) ?_ hfgd
  · exact nodup_append_under (ns1 := gs.map gName) (ns2 := ds.map (·.name)) (pfx := pfx) hG (nodup_map_prefix _ _ hd)
      hGu (fun q hq => under_map_prefix _ _ _ hq) hgdd
  · intro q hq
    rcases List.mem_append.mp hq with h | h
    · exact under_mono (hGu q h) (by intro n hn; simp [hn])
    · exact under_mono (under_map_prefix _ _ _ h) (by intro n hn; simp [hn])

theorem groupEntities_paths (pfx : Path) (g : GroupDef) :
    paths (groupEntities pfx g) =
      (pfx ++ [gName g]) :: paths (levelEntities (pfx ++ [gName g]) (gFields g) (gGroups g) (gDatas g)) := by
  rw [groupEntities_eq]; rfl

mutual
  theorem group_under : ∀ (g : GroupDef) (pfx : Path) (q : Path),
      q ∈ paths (groupEntities pfx g) → Under pfx [gName g] q
    | .mk n i d b fs gs ds a, pfx, q, h => by
      rw [groupEntities_paths] at h
      simp only [gName, gFields, gGroups, gDatas, List.mem_cons] at h ⊢
      rcases h with h | h
      · exact ⟨n, by simp, [], h⟩
      · exact under_deeper (level_under (pfx ++ [n]) fs gs ds (fun q hq => groups_under gs (pfx ++ [n]) q hq) q h)
  theorem groups_under : ∀ (gs : List GroupDef) (pfx : Path) (q : Path),
      q ∈ paths (groupsEntities pfx gs) → Under pfx (gs.map gName) q
    | [], pfx, q, h => by simp [groupsEntities] at h
    | g :: rest, pfx, q, h => by
      simp only [groupsEntities, paths_append, List.mem_append] at h
      rcases h with h | h
      · exact under_mono (group_under g pfx q h) (by simp)
      · exact under_mono (groups_under rest pfx q h) (by intro n hn; simp [hn])
end

mutual
  theorem group_nodup : ∀ (g : GroupDef) (pfx : Path), UniqueGroup g → (paths (groupEntities pfx g)).Nodup
    | .mk n i d b fs gs ds a, pfx, hu => by
      simp only [UniqueGroup] at hu
      rw [groupEntities_paths]
      simp only [gName, gFields, gGroups, gDatas, List.nodup_cons]
      refine ⟨?_, level_nodup (pfx ++ [n]) fs gs ds hu.1 (groups_nodup gs (pfx ++ [n]) ?_ hu.2)
        (fun q hq => groups_under gs (pfx ++ [n]) q hq)⟩
      · intro hm
        exact self_not_under
          (level_under (pfx ++ [n]) fs gs ds (fun q hq => groups_under gs (pfx ++ [n]) q hq) _ hm) rfl
      · exact (nodup_append_names (nodup_append_names hu.1).2.1).1
  theorem groups_nodup : ∀ (gs : List GroupDef) (pfx : Path), (gs.map gName).Nodup → UniqueGroups gs →
      (paths (groupsEntities pfx gs)).Nodup
    | [], pfx, _, _ => by simp [groupsEntities]
    | g :: rest, pfx, hn, hu => by
      simp only [UniqueGroups] at hu
      simp only [List.map_cons, List.nodup_cons] at hn
      simp only [groupsEntities, paths_append]
      refine nodup_append_under (group_nodup g pfx hu.1) (groups_nodup rest pfx hn.2 hu.2)
        (fun q hq => group_under g pfx q hq) (fun q hq => groups_under rest pfx q hq) ?_
      intro x hx y hy hxy
      simp only [List.mem_singleton] at hx
      subst hx; subst hxy
      exact hn.1 hy
end

/-! ### the schema -/

theorem types_under : ∀ (ts : List Elem) (q : Path), q ∈ paths (typesEntities ts) → Under ["types"] (ts.map Elem.name) q := by
  intro ts
  induction ts with
  | nil => intro q h; simp [typesEntities] at h
  | cons e rest ih =>
    intro q h
    simp only [typesEntities, paths_append, List.mem_append] at h
    rcases h with h | h
    · exact under_mono (elem_under e ["types"] none q h) (by simp)
    · exact under_mono (ih q h) (by intro n hn; simp [hn])

theorem types_nodup : ∀ (ts : List Elem), (ts.map Elem.name).Nodup → UniqueElems ts → (paths (typesEntities ts)).Nodup := by
  intro ts
  induction ts with
  | nil => intro _ _; simp [typesEntities]
  | cons e rest ih =>
    intro hn hu
    simp only [UniqueElems] at hu
    simp only [List.map_cons, List.nodup_cons] at hn
    simp only [typesEntities, paths_append]
    refine nodup_append_under (elem_nodup e ["types"] none hu.1) (ih hn.2 hu.2)
      (fun q hq => elem_under e ["types"] none q hq) (fun q hq => types_under rest q hq) ?_
    intro x hx y hy hxy
    simp only [List.mem_singleton] at hx
    subst hx; subst hxy
    exact hn.1 hy

theorem message_paths (m : MessageDef) :
    paths (messageEntities m) = ["messages", m.name] :: paths (levelEntities ["messages", m.name] m.fields m.groups m.datas) := by
  rw [messageEntities_eq]; rfl

theorem message_under (m : MessageDef) (q : Path) (h : q ∈ paths (messageEntities m)) : Under ["messages"] [m.name] q := by
  rw [message_paths] at h
  rcases List.mem_cons.mp h with h | h
  · exact ⟨m.name, by simp, [], by simp [h]⟩
  · exact under_deeper (pfx := ["messages"])
      (level_under ["messages", m.name] m.fields m.groups m.datas (fun q hq => groups_under m.groups _ q hq) q h)

theorem message_nodup (m : MessageDef) (hn : (levelNames m.fields m.groups m.datas).Nodup) (hu : UniqueGroups m.groups) :
    (paths (messageEntities m)).Nodup := by
  rw [message_paths]
  simp only [List.nodup_cons]
  refine ⟨?_, level_nodup _ m.fields m.groups m.datas hn (groups_nodup m.groups _ ?_ hu)
    (fun q hq => groups_under m.groups _ q hq)⟩
  · intro hm
    exact self_not_under (pfx := ["messages"])
      (level_under ["messages", m.name] m.fields m.groups m.datas (fun q hq => groups_under m.groups _ q hq) _ hm) rfl
  · exact (nodup_append_names (nodup_append_names hn).2.1).1

theorem messages_under : ∀ (ms : List MessageDef) (q : Path), q ∈ paths (messagesEntities ms) →
    Under ["messages"] (ms.map (·.name)) q := by
  intro ms
  induction ms with
  | nil => intro q h; simp [messagesEntities] at h
  | cons m rest ih =>
    intro q h
    simp only [messagesEntities, paths_append, List.mem_append] at h
    rcases h with h | h
    · exact under_mono (message_under m q h) (by simp)
    · exact under_mono (ih q h) (by intro n hn; simp [hn])

theorem messages_nodup : ∀ (ms : List MessageDef), (ms.map (·.name)).Nodup → UniqueMessages ms →
    (paths (messagesEntities ms)).Nodup := by
  intro ms
  induction ms with
  | nil => intro _ _; simp [messagesEntities]
  | cons m rest ih =>
    intro hn hu
    simp only [UniqueMessages] at hu
    simp only [List.map_cons, List.nodup_cons] at hn
    simp only [messagesEntities, paths_append]
    refine nodup_append_under (message_nodup m hu.1.1 hu.1.2) (ih hn.2 hu.2)
      (fun q hq => message_under m q hq) (fun q hq => messages_under rest q hq) ?_
    intro x hx y hy hxy
    simp only [List.mem_singleton] at hx
    subst hx; subst hxy
    exact hn.1 hy

/-- distinct entities have distinct tag paths -/
theorem entities_paths_nodup (s : SchemaDef) (hu : UniqueNames s) : (paths (entities s)).Nodup := by
  obtain ⟨htn, htu, hmn, hmu⟩ := hu
  simp only [entities, paths_cons, paths_append, List.nodup_cons, List.mem_append, not_or]
  refine ⟨⟨?_, ?_⟩, List.nodup_append.mpr ⟨types_nodup s.types htn htu, messages_nodup s.messages hmn hmu, ?_⟩⟩
  · intro h
    obtain ⟨n, _, rest, hq⟩ := types_under s.types _ h
    simp at hq
  · intro h
    obtain ⟨n, _, rest, hq⟩ := messages_under s.messages _ h
    simp at hq
  · intro a ha b hb hab
    obtain ⟨n, _, rest, hq⟩ := types_under s.types _ ha
    obtain ⟨n', _, rest', hq'⟩ := messages_under s.messages _ hb
    subst hq; subst hab
    simp at hq'

end Sbepp.Gen.Traits
