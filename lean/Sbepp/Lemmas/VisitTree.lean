/-
  Short-circuit visiting (C19).  `sbepp::visit` calls the visitor's callback for
  a member; a recursing visitor then calls `sbepp::visit_children`, which is a
  generated `||` chain over the members of a level (or, for a group, a loop over
  its entries that returns at the first `true`).  `CbTree` is the tree of
  callbacks of a complete visit, `visitT` evaluates it the way those chains and
  loops do (left to right, nothing after the first `true`), for an arbitrary
  stateful visitor.  The theorem: this is the same as scanning the pre-order
  list of callbacks and stopping at the first `true`.
-/
namespace Sbepp.VisitTree

inductive CbTree where
  | node (ev : String) (children : List CbTree)

mutual
  /-- pre-order list of callbacks of a complete visit -/
  def CbTree.flatten : CbTree → List String
    | .node ev cs => ev :: flattenAll cs
  def flattenAll : List CbTree → List String
    | [] => []
    | t :: ts => t.flatten ++ flattenAll ts
end

variable {σ : Type}

mutual
  /-- `visit(member)`: callback first; recurse through `visit_children` unless it asked to stop -/
  def visitT (cb : σ → String → σ × Bool) (s : σ) : CbTree → σ × Bool
    | .node ev cs =>
      match cb s ev with
      | (s', true) => (s', true)
      | (s', false) => visitAll cb s' cs
  /-- `visit_children`: the `||` chain / the entry loop -/
  def visitAll (cb : σ → String → σ × Bool) (s : σ) : List CbTree → σ × Bool
    | [] => (s, false)
    | t :: ts =>
      match visitT cb s t with
      | (s', true) => (s', true)
      | (s', false) => visitAll cb s' ts
end

/-- linear scan that stops at the first `true` -/
def scan (cb : σ → String → σ × Bool) (s : σ) : List String → σ × Bool
  | [] => (s, false)
  | e :: es =>
    match cb s e with
    | (s', true) => (s', true)
    | (s', false) => scan cb s' es

theorem scan_append (cb : σ → String → σ × Bool) (s : σ) (a b : List String) :
    scan cb s (a ++ b) = match scan cb s a with
      | (s', true) => (s', true)
      | (s', false) => scan cb s' b := by
  induction a generalizing s with
  | nil => simp [scan]
  | cons e es ih =>
    simp only [List.cons_append, scan]
    rcases h : cb s e with ⟨s', _ | _⟩
    · simp only [ih]
    · rfl

mutual
  theorem visitT_eq_scan (cb : σ → String → σ × Bool) (s : σ) :
      (t : CbTree) → visitT cb s t = scan cb s t.flatten
    | .node ev cs => by
      simp only [visitT, CbTree.flatten, scan]
      rcases h : cb s ev with ⟨s', _ | _⟩
      · simp only; exact visitAll_eq_scan cb s' cs
      · rfl
  theorem visitAll_eq_scan (cb : σ → String → σ × Bool) (s : σ) :
      (ts : List CbTree) → visitAll cb s ts = scan cb s (flattenAll ts)
    | [] => rfl
    | t :: ts => by
      simp only [visitAll, flattenAll, scan_append, visitT_eq_scan cb s t]
      rcases h : scan cb s t.flatten with ⟨s', _ | _⟩
      · simp only; exact visitAll_eq_scan cb s' ts
      · rfl
end

/-- the recording visitor of the correspondence check: records the callback,
    stops (returns `true`) at its `k`-th callback (`k = 0`: never) -/
def recorder (k : Nat) (s : List String) (ev : String) : List String × Bool :=
  (s ++ [ev], s.length + 1 == k)

theorem scan_recorder (k : Nat) (s evs : List String) :
    scan (recorder k) s evs =
      if s.length < k ∧ k ≤ s.length + evs.length then (s ++ evs.take (k - s.length), true)
      else (s ++ evs, false) := by
  induction evs generalizing s with
  | nil =>
    simp only [scan, List.length_nil, Nat.add_zero, List.append_nil]
    rw [if_neg (by omega)]
  | cons e es ih =>
    simp only [scan, recorder]
    by_cases hk : s.length + 1 = k
    · have : (s.length + 1 == k) = true := by simpa using hk
      simp only [this]
      rw [if_pos (by simp only [List.length_cons]; omega)]
      have : k - s.length = 1 := by omega
      simp [this]
    · have : (s.length + 1 == k) = false := by simpa using hk
      simp only [this, ih, List.length_append, List.length_cons, List.length_nil]
      by_cases hc : s.length < k ∧ k ≤ s.length + (es.length + 1)
      · rw [if_pos (by omega), if_pos hc]
        have : k - s.length = (k - (s.length + 0 + 1)) + 1 := by omega
        rw [this, List.take_succ_cons]
        simp
      · rw [if_neg (by omega), if_neg hc]
        simp

end Sbepp.VisitTree
