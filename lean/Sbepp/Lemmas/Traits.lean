/-
  Helper lemmas for C18: structure of the trait table (`rowsOf`), membership
  in the entity enumeration, key/value list manipulation.
-/
import Sbepp.Gen.Traits

namespace Sbepp.Gen.Traits
open Sbepp Sbepp.Schema Sbepp.Spec.Traits

/-! ### the table is the row function mapped over the entity list -/

theorem rowsOf_ok (s : SchemaDef) : ∀ (ents : List (Path × Entity)) (rows : List Row), rowsOf s ents = .ok rows →
    rows.map (·.1) = ents.map (·.1) ∧
    (∀ p ent, (p, ent) ∈ ents → ∃ kvs, (p, kvs) ∈ rows ∧ rowKVs s p ent = .ok kvs) ∧
    (∀ p kvs, (p, kvs) ∈ rows → ∃ ent, (p, ent) ∈ ents ∧ rowKVs s p ent = .ok kvs) := by
  intro ents
  induction ents with
  | nil =>
    intro rows h
    simp only [rowsOf, Except.ok.injEq] at h
    subst h
    simp
  | cons x rest ih =>
    intro rows h
    obtain ⟨p0, e0⟩ := x
    simp only [rowsOf] at h
    split at h
    · simp at h
    · rename_i kvs0 hk
      split at h
      · simp at h
      · rename_i rows' hr
        simp only [Except.ok.injEq] at h
        subst h
        obtain ⟨h1, h2, h3⟩ := ih rows' hr
        refine ⟨by simp [h1], ?_, ?_⟩
        · intro p ent hm
          rcases List.mem_cons.mp hm with heq | hm'
          · cases heq
            exact ⟨kvs0, by simp, hk⟩
          · obtain ⟨kvs, hk1, hk2⟩ := h2 p ent hm'
            exact ⟨kvs, List.mem_cons_of_mem _ hk1, hk2⟩
        · intro p kvs hm
          rcases List.mem_cons.mp hm with heq | hm'
          · cases heq
            exact ⟨e0, by simp, hk⟩
          · obtain ⟨ent, hk1, hk2⟩ := h3 p kvs hm'
            exact ⟨ent, List.mem_cons_of_mem _ hk1, hk2⟩

theorem rowKVs_ok (s : SchemaDef) (p : Path) (ent : Entity) (kvs : List KV) (h : rowKVs s p ent = .ok kvs) :
    ∃ d, derivedKVs s ent = .ok d ∧
      kvs = [("kind", kindOf s.types ent), ("predicates", predicateText (kindOf s.types ent))] ++ attrKVs s p ent ++ d := by
  simp only [rowKVs] at h
  split at h
  · simp at h
  · rename_i d hd
    simp only [Except.ok.injEq] at h
    exact ⟨d, hd, h.symm⟩

/-- a row of the table: its entity and its three parts -/
theorem row_of_entity (s : SchemaDef) (rows : List Row) (h : traitRows s = .ok rows) (p : Path) (ent : Entity)
    (hm : (p, ent) ∈ entities s) :
    ∃ kvs d, (p, kvs) ∈ rows ∧ derivedKVs s ent = .ok d ∧
      kvs = [("kind", kindOf s.types ent), ("predicates", predicateText (kindOf s.types ent))] ++ attrKVs s p ent ++ d := by
  obtain ⟨_, h2, _⟩ := rowsOf_ok s _ _ h
  obtain ⟨kvs, hk1, hk2⟩ := h2 p ent hm
  obtain ⟨d, hd1, hd2⟩ := rowKVs_ok s p ent kvs hk2
  exact ⟨kvs, d, hk1, hd1, hd2⟩

/-! ### key/value lists -/

theorem mem_setKV_self (k v : String) (kvs : List KV) : (k, v) ∈ setKV k v kvs := by simp [setKV]

theorem mem_setKV_other (k v k' v' : String) (kvs : List KV) (hne : k' ≠ k) :
    (k', v') ∈ setKV k v kvs ↔ (k', v') ∈ kvs := by
  simp only [setKV, List.mem_cons, Prod.mk.injEq, List.mem_filter, bne_iff_ne, ne_eq]
  constructor
  · rintro (⟨h, _⟩ | ⟨h, _⟩)
    · exact absurd h hne
    · exact h
  · intro h; exact Or.inr ⟨h, hne⟩

theorem mem_setKV_key (k v v' : String) (kvs : List KV) (h : (k, v') ∈ setKV k v kvs) : v' = v := by
  simp only [setKV, List.mem_cons, Prod.mk.injEq, List.mem_filter, bne_iff_ne, ne_eq] at h
  rcases h with ⟨_, h⟩ | ⟨_, h⟩
  · exact h
  · exact absurd trivial h

theorem mem_eraseKV (k k' v' : String) (kvs : List KV) :
    (k', v') ∈ eraseKV k kvs ↔ (k', v') ∈ kvs ∧ k' ≠ k := by
  simp [eraseKV]

end Sbepp.Gen.Traits
