/-
  Lemmas about `Sbepp.Gen.Pipeline`: which stops the parsing stages can produce
  (`Errs Q x`: every error of `x` satisfies `Q`), fuel monotonicity of include
  resolution, and the {fmt} brace lemmas.
-/
import Sbepp.Gen.Pipeline

namespace Sbepp.Gen.Pipeline

/-! ## {fmt} -/

theorem fmtSafeChars_of_noBrace : ∀ (l : List Char), (∀ c ∈ l, c ≠ '{' ∧ c ≠ '}') → fmtSafeChars l = true
  | [], _ => rfl
  | c :: r, h => by
    have hc := h c (by simp)
    have hr : ∀ d ∈ r, d ≠ '{' ∧ d ≠ '}' := fun d hd => h d (by simp [hd])
    have ih := fmtSafeChars_of_noBrace r hr
    unfold fmtSafeChars
    split <;> simp_all

theorem fmtSafe_of_braceFree (s : String) (h : braceFree s) : fmtSafe s = true :=
  fmtSafeChars_of_noBrace _ h

theorem braceFree_append (a b : String) (ha : braceFree a) (hb : braceFree b) : braceFree (a ++ b) := by
  intro c hc
  rw [String.toList_append] at hc
  rcases List.mem_append.mp hc with h | h
  · exact ha c h
  · exact hb c h

/-! ## which errors a computation can raise -/

def Errs {α : Type} (Q : PStop → Prop) (x : PM α) : Prop := ∀ e, x = .error e → Q e

theorem Errs.pure {α} {Q} (a : α) : Errs Q (pure a : PM α) := by
  intro e h; cases h

theorem Errs.throw {α} {Q : PStop → Prop} (e : PStop) (h : Q e) : Errs Q (throw e : PM α) := by
  intro e' h'; cases h'; exact h

theorem Errs.bind {α β} {Q} {x : PM α} {f : α → PM β} (hx : Errs Q x) (hf : ∀ a, x = .ok a → Errs Q (f a)) :
    Errs Q (x >>= f) := by
  intro e h
  cases hx' : x with
  | error e' =>
    rw [hx'] at h
    have : e' = e := by simpa [Bind.bind, Except.bind] using h
    exact this ▸ hx e' hx'
  | ok a =>
    rw [hx'] at h
    exact hf a hx' e (by simpa [Bind.bind, Except.bind] using h)

def IsDiag : PStop → Prop
  | .diag _ => True
  | _ => False

def NotFuel : PStop → Prop
  | .fuel => False
  | _ => True

/-- a property of stops that every diagnostic has -/
def DiagOk (Q : PStop → Prop) : Prop := ∀ m, Q (.diag m)

theorem diagOk_isDiag : DiagOk IsDiag := fun _ => trivial
theorem diagOk_notFuel : DiagOk NotFuel := fun _ => trivial

section atoms
variable {Q : PStop → Prop}

theorem errs_findLoc (ok : Bool) (h : ok = true ∨ Q (.crash .offsetBeyondContent)) : Errs Q (findLoc ok) := by
  unfold findLoc
  split
  · exact Errs.pure _
  · rcases h with h | h
    · rename_i hne; exact absurd h hne
    · exact Errs.throw _ h

theorem errs_requiredNonEmpty (hq : DiagOk Q) (path : String) (n : TNode) (a : String) :
    Errs Q (requiredNonEmpty path n a) := by
  unfold requiredNonEmpty
  split
  · exact Errs.throw _ (hq _)
  · split
    · exact Errs.throw _ (hq _)
    · exact Errs.pure _

theorem errs_optNum (hq : DiagOk Q) (path : String) (n : TNode) (a : String) (b : Nat) : Errs Q (optNum path n a b) := by
  unfold optNum
  split
  · exact Errs.pure _
  · split
    · exact Errs.pure _
    · exact Errs.throw _ (hq _)

theorem errs_reqNum (hq : DiagOk Q) (path : String) (n : TNode) (a : String) (b : Nat) : Errs Q (reqNum path n a b) := by
  unfold reqNum
  refine Errs.bind (errs_requiredNonEmpty hq _ _ _) (fun v _ => ?_)
  split
  · exact Errs.pure _
  · exact Errs.throw _ (hq _)

theorem errs_parseType (hq : DiagOk Q) (path : String) (n : TNode)
    (hoff : n.offOk = true ∨ Q (.crash .offsetBeyondContent))
    (hcc : constCharTrig n = false ∨ Q (.crash .constCharNoValue)) : Errs Q (parseType path n) := by
  unfold parseType
  refine Errs.bind (errs_findLoc _ hoff) (fun _ _ => ?_)
  refine Errs.bind (errs_requiredNonEmpty hq _ _ _) (fun _ _ => ?_)
  refine Errs.bind ?_ (fun _ _ => ?_)
  · unfold checkPresence
    split
    · exact Errs.pure _
    · split
      · exact Errs.pure _
      · exact Errs.throw _ (hq _)
  refine Errs.bind (errs_optNum hq _ _ _ _) (fun _ _ => ?_)
  refine Errs.bind (errs_optNum hq _ _ _ _) (fun _ _ => ?_)
  refine Errs.bind (errs_requiredNonEmpty hq _ _ _) (fun _ _ => ?_)
  refine Errs.bind (errs_optNum hq _ _ _ _) (fun _ _ => ?_)
  refine Errs.bind (errs_optNum hq _ _ _ _) (fun _ _ => ?_)
  unfold constCharAccess
  split
  · rcases hcc with h | h
    · rename_i ht; rw [h] at ht; cases ht
    · exact Errs.throw _ h
  · exact Errs.pure _

/-- what a node must satisfy for its visit to raise only `Q`-stops -/
def NodeOk (Q : PStop → Prop) (env : Env) (n : TNode) : Prop :=
  (n.offOk = true ∨ Q (.crash .offsetBeyondContent)) ∧
  (n.depth ≤ env.stackLimit ∨ Q (.crash .nestingTooDeep)) ∧
  (constCharTrig n = false ∨ Q (.crash .constCharNoValue))

theorem errs_checkNode (hq : DiagOk Q) (env : Env) (path : String) (n : TNode) (h : NodeOk Q env n) :
    Errs Q (checkNode env path n) := by
  unfold checkNode
  refine Errs.bind ?_ (fun _ _ => ?_)
  · unfold checkDepth
    split
    · rcases h.2.1 with h' | h'
      · rename_i hlt; omega
      · exact Errs.throw _ h'
    · exact Errs.pure _
  · split
    · exact errs_parseType hq _ _ h.1 h.2.2
    · exact errs_findLoc _ h.1

theorem errs_checkNodes (hq : DiagOk Q) (env : Env) (path : String) :
    ∀ ns : List TNode, (∀ n ∈ ns, NodeOk Q env n) → Errs Q (checkNodes env path ns)
  | [], _ => by unfold checkNodes; exact Errs.pure _
  | n :: r, h => by
    unfold checkNodes
    refine Errs.bind (errs_checkNode hq env path n (h n (by simp))) (fun _ _ => ?_)
    exact errs_checkNodes hq env path r (fun m hm => h m (by simp [hm]))

end atoms

/-! ## items -/

/-- the nodes of an item that `parseItemsWith` visits -/
def Item.visited : Item → List TNode
  | .schema n _ => [n]
  | .types _ d => d
  | .message n d => n :: d
  | .incl _ => []
  | .other n => [n]

theorem errs_parseItemsWith {Q : PStop → Prop} (hq : DiagOk Q) (env : Env) (path : String)
    (incl : TNode → Parsed → PM Parsed) :
    ∀ (items : List Item) (acc : Parsed),
      (∀ i ∈ items, ∀ n ∈ i.visited, NodeOk Q env n) →
      (∀ n, Item.incl n ∈ items → ∀ a, Errs Q (incl n a)) →
      Errs Q (parseItemsWith env path incl items acc)
  | [], acc, _, _ => by unfold parseItemsWith; exact Errs.pure _
  | i :: r, acc, hn, hi => by
    have hn' : ∀ j ∈ r, ∀ n ∈ j.visited, NodeOk Q env n := fun j hj => hn j (by simp [hj])
    have hi' : ∀ n, Item.incl n ∈ r → ∀ a, Errs Q (incl n a) := fun n hm => hi n (by simp [hm])
    cases i with
    | types n d =>
      unfold parseItemsWith
      refine Errs.bind (errs_checkNodes hq env path d
        (fun m hm => hn (.types n d) (by simp) m (by simpa [Item.visited] using hm))) (fun _ _ => ?_)
      exact errs_parseItemsWith hq env path incl r _ hn' hi'
    | message n d =>
      unfold parseItemsWith
      refine Errs.bind (errs_checkNodes hq env path (n :: d)
        (fun m hm => hn (.message n d) (by simp) m (by simpa [Item.visited] using hm))) (fun _ _ => ?_)
      exact errs_parseItemsWith hq env path incl r _ hn' hi'
    | incl n =>
      unfold parseItemsWith
      refine Errs.bind (hi n (by simp) acc) (fun _ _ => ?_)
      exact errs_parseItemsWith hq env path incl r _ hn' hi'
    | other n =>
      unfold parseItemsWith
      have := (hn (.other n) (by simp) n (by simp [Item.visited])).1
      refine Errs.bind (errs_findLoc _ this) (fun _ _ => ?_)
      exact errs_parseItemsWith hq env path incl r _ hn' hi'
    | schema n c =>
      unfold parseItemsWith
      have := (hn (.schema n c) (by simp) n (by simp [Item.visited])).1
      refine Errs.bind (errs_findLoc _ this) (fun _ _ => ?_)
      exact errs_parseItemsWith hq env path incl r _ hn' hi'

/-! ## documents, includes, fuel -/

def Item.head : Item → TNode
  | .schema n _ => n
  | .types n _ => n
  | .message n _ => n
  | .incl n => n
  | .other n => n

/-- the include graph decreases a rank: it is acyclic -/
def Acyclic (fs : FS) (rank : String → Nat) : Prop :=
  ∀ p top, fs.get p = .file (.doc top) →
    (∀ n, Item.incl n ∈ top → ∀ h, n.attr "href" = some h → rank h < rank p) ∧
    (∀ sn c, Item.schema sn c ∈ top → ∀ n, Item.incl n ∈ c → ∀ h, n.attr "href" = some h → rank h < rank p)

/-- every file-system entry and every node raises only `Q`-stops when visited -/
structure FsOk (Q : PStop → Prop) (env : Env) (fs : FS) : Prop where
  dir : ∀ p, fs.get p = .dir → Q (.crash .inputIsDirectory)
  malformed : ∀ p w ok, fs.get p = .file (.malformed w ok) → ok = true ∨ Q (.crash .offsetBeyondContent)
  heads : ∀ p top, fs.get p = .file (.doc top) → ∀ i ∈ top, i.head.offOk = true ∨ Q (.crash .offsetBeyondContent)
  nodes : ∀ p top, fs.get p = .file (.doc top) → ∀ i ∈ top, ∀ n ∈ i.visited, NodeOk Q env n
  content : ∀ p top, fs.get p = .file (.doc top) → ∀ sn c, Item.schema sn c ∈ top →
    ∀ i ∈ c, ∀ n ∈ i.visited, NodeOk Q env n

theorem requiredNonEmpty_ok {path : String} {n : TNode} {a v : String} (h : requiredNonEmpty path n a = .ok v) :
    n.attr a = some v := by
  unfold requiredNonEmpty at h
  split at h
  · cases h
  · split at h
    · cases h
    · rename_i w hw _
      have : w = v := by simpa [pure, Except.pure] using h
      rw [hw, this]

theorem loadDoc_ok {fs : FS} {path : String} {top : List Item} (h : loadDoc fs path = .ok top) :
    fs.get path = .file (.doc top) := by
  unfold loadDoc at h
  split at h
  · cases h
  · cases h
  · rename_i w ok _
    cases ok <;> simp [findLoc, bind, Except.bind, throw, throwThe, MonadExceptOf.throw, pure, Except.pure] at h
  · rename_i t ht
    have : t = top := by simpa [pure, Except.pure] using h
    rw [ht, this]

theorem errs_loadDoc {Q : PStop → Prop} (hq : DiagOk Q) {env : Env} {fs : FS} (hfs : FsOk Q env fs) (path : String) :
    Errs Q (loadDoc fs path) := by
  unfold loadDoc
  split
  · exact Errs.throw _ (hq _)
  · rename_i hd; exact Errs.throw _ (hfs.dir _ hd)
  · rename_i w ok hm
    exact Errs.bind (errs_findLoc _ (hfs.malformed _ _ _ hm)) (fun _ _ => Errs.throw _ (hq _))
  · exact Errs.pure _

theorem errs_parseIncl {Q : PStop → Prop} (hq : DiagOk Q) {env : Env} {fs : FS} (hfs : FsOk Q env fs)
    {rank : String → Nat} (hac : Acyclic fs rank) :
    ∀ (fuel : Nat) (path : String) (n : TNode) (acc : Parsed),
      (∀ h, n.attr "href" = some h → rank h < fuel) → Errs Q (parseIncl env fs path fuel n acc)
  | 0, path, n, acc, hr => by
    unfold parseIncl
    refine Errs.bind (errs_requiredNonEmpty hq _ _ _) (fun v hv => ?_)
    have := hr v (requiredNonEmpty_ok hv)
    omega
  | fuel + 1, path, n, acc, hr => by
    unfold parseIncl
    refine Errs.bind (errs_requiredNonEmpty hq _ _ _) (fun href hhref => ?_)
    refine Errs.bind (errs_loadDoc hq hfs href) (fun top htop => ?_)
    have hdoc := loadDoc_ok htop
    have hlt : rank href < fuel + 1 := hr href (requiredNonEmpty_ok hhref)
    refine errs_parseItemsWith hq env href _ top acc (hfs.nodes href top hdoc) (fun n' hmem a => ?_)
    refine errs_parseIncl hq hfs hac fuel href n' a (fun h' hh' => ?_)
    have := (hac href top hdoc).1 n' hmem h' hh'
    omega

theorem findSchema_mem {path : String} : ∀ {top : List Item} {n : TNode} {c : List Item},
    findSchema path top = .ok (n, c) → Item.schema n c ∈ top
  | [], n, c, h => by unfold findSchema at h; cases h
  | i :: r, n, c, h => by
    cases i with
    | schema n' c' =>
      unfold findSchema at h
      have : (n', c') = (n, c) := by simpa [pure, Except.pure] using h
      cases this; simp
    | types n' d =>
      unfold findSchema at h
      cases hn : n'.offOk <;> simp [hn, findLoc, bind, Except.bind, throw, throwThe, MonadExceptOf.throw, pure, Except.pure] at h
      exact List.mem_cons_of_mem _ (findSchema_mem h)
    | message n' d =>
      unfold findSchema at h
      cases hn : n'.offOk <;> simp [hn, findLoc, bind, Except.bind, throw, throwThe, MonadExceptOf.throw, pure, Except.pure] at h
      exact List.mem_cons_of_mem _ (findSchema_mem h)
    | incl n' =>
      unfold findSchema at h
      cases hn : n'.offOk <;> simp [hn, findLoc, bind, Except.bind, throw, throwThe, MonadExceptOf.throw, pure, Except.pure] at h
      exact List.mem_cons_of_mem _ (findSchema_mem h)
    | other n' =>
      unfold findSchema at h
      cases hn : n'.offOk <;> simp [hn, findLoc, bind, Except.bind, throw, throwThe, MonadExceptOf.throw, pure, Except.pure] at h
      exact List.mem_cons_of_mem _ (findSchema_mem h)

theorem errs_findSchema {Q : PStop → Prop} (hq : DiagOk Q) (path : String) :
    ∀ (top : List Item), (∀ i ∈ top, i.head.offOk = true ∨ Q (.crash .offsetBeyondContent)) →
      Errs Q (findSchema path top)
  | [], _ => by unfold findSchema; exact Errs.throw _ (hq _)
  | i :: r, h => by
    have hr : ∀ j ∈ r, j.head.offOk = true ∨ Q (.crash .offsetBeyondContent) := fun j hj => h j (by simp [hj])
    have hi := h i (by simp)
    cases i with
    | schema n c => unfold findSchema; exact Errs.pure _
    | types n d => unfold findSchema; exact Errs.bind (errs_findLoc _ hi) (fun _ _ => errs_findSchema hq path r hr)
    | message n d => unfold findSchema; exact Errs.bind (errs_findLoc _ hi) (fun _ _ => errs_findSchema hq path r hr)
    | incl n => unfold findSchema; exact Errs.bind (errs_findLoc _ hi) (fun _ _ => errs_findSchema hq path r hr)
    | other n => unfold findSchema; exact Errs.bind (errs_findLoc _ hi) (fun _ _ => errs_findSchema hq path r hr)

theorem errs_parseSchemaAttrs {Q : PStop → Prop} (hq : DiagOk Q) (path : String) (n : TNode)
    (h : n.offOk = true ∨ Q (.crash .offsetBeyondContent)) : Errs Q (parseSchemaAttrs path n) := by
  unfold parseSchemaAttrs
  refine Errs.bind (errs_reqNum hq _ _ _ _) (fun _ _ => ?_)
  refine Errs.bind (errs_reqNum hq _ _ _ _) (fun _ _ => ?_)
  refine Errs.bind ?_ (fun _ _ => errs_findLoc _ h)
  unfold checkByteOrder
  split
  · exact Errs.pure _
  · split
    · exact Errs.pure _
    · exact Errs.throw _ (hq _)

theorem errs_parseMain {Q : PStop → Prop} (hq : DiagOk Q) {env : Env} {fs : FS} (hfs : FsOk Q env fs)
    {rank : String → Nat} (hac : Acyclic fs rank) (fuel : Nat) (path : String) (hf : rank path ≤ fuel) :
    Errs Q (parseMain env fs fuel path) := by
  unfold parseMain
  refine Errs.bind (errs_loadDoc hq hfs path) (fun top htop => ?_)
  have hdoc := loadDoc_ok htop
  refine Errs.bind (errs_findSchema hq path top (hfs.heads path top hdoc)) (fun nc hnc => ?_)
  obtain ⟨n, c⟩ := nc
  have hmem := findSchema_mem hnc
  refine Errs.bind (errs_parseSchemaAttrs hq path n (hfs.heads path top hdoc _ hmem)) (fun _ _ => ?_)
  refine errs_parseItemsWith hq env path _ c _ (hfs.content path top hdoc n c hmem) (fun n' hm a => ?_)
  refine errs_parseIncl hq hfs hac fuel path n' a (fun h' hh' => ?_)
  have := (hac path top hdoc).2 n c hmem n' hm h' hh'
  omega

/-! ### more fuel changes nothing once the include graph is exhausted -/

theorem parseItemsWith_congr (env : Env) (path : String) (f g : TNode → Parsed → PM Parsed) :
    ∀ (items : List Item) (acc : Parsed), (∀ n, Item.incl n ∈ items → ∀ a, f n a = g n a) →
      parseItemsWith env path f items acc = parseItemsWith env path g items acc
  | [], acc, _ => by unfold parseItemsWith; rfl
  | i :: r, acc, h => by
    have hr : ∀ n, Item.incl n ∈ r → ∀ a, f n a = g n a := fun n hn => h n (by simp [hn])
    cases i with
    | types n d =>
      unfold parseItemsWith
      simp only [parseItemsWith_congr env path f g r _ hr]
    | message n d =>
      unfold parseItemsWith
      simp only [parseItemsWith_congr env path f g r _ hr]
    | incl n =>
      unfold parseItemsWith
      rw [h n (by simp) acc]
      congr 1
      funext acc'
      exact parseItemsWith_congr env path f g r acc' hr
    | other n =>
      unfold parseItemsWith
      simp only [parseItemsWith_congr env path f g r _ hr]
    | schema n c =>
      unfold parseItemsWith
      simp only [parseItemsWith_congr env path f g r _ hr]

theorem parseIncl_fuel_stable {env : Env} {fs : FS} {rank : String → Nat} (hac : Acyclic fs rank) :
    ∀ (f1 f2 : Nat) (path : String) (n : TNode) (acc : Parsed),
      (∀ h, n.attr "href" = some h → rank h < f1 ∧ rank h < f2) →
      parseIncl env fs path f1 n acc = parseIncl env fs path f2 n acc
  | 0, f2, path, n, acc, hr => by
    unfold parseIncl
    cases hv : requiredNonEmpty path n "href" with
    | error e => cases f2 <;> simp [parseIncl, bind, Except.bind, hv]
    | ok v => have := (hr v (requiredNonEmpty_ok hv)).1; omega
  | f1 + 1, 0, path, n, acc, hr => by
    unfold parseIncl
    cases hv : requiredNonEmpty path n "href" with
    | error e => simp [bind, Except.bind]
    | ok v => have := (hr v (requiredNonEmpty_ok hv)).2; omega
  | f1 + 1, f2 + 1, path, n, acc, hr => by
    unfold parseIncl
    cases hv : requiredNonEmpty path n "href" with
    | error e => simp [bind, Except.bind]
    | ok href =>
      simp only [bind, Except.bind]
      cases ht : loadDoc fs href with
      | error e => rfl
      | ok top =>
        simp only []
        have hdoc := loadDoc_ok ht
        have hlt := hr href (requiredNonEmpty_ok hv)
        refine parseItemsWith_congr env href _ _ top acc (fun n' hm a => ?_)
        refine parseIncl_fuel_stable hac f1 f2 href n' a (fun h' hh' => ?_)
        have := (hac href top hdoc).1 n' hm h' hh'
        omega

theorem parseMain_fuel_stable {env : Env} {fs : FS} {rank : String → Nat} (hac : Acyclic fs rank)
    (f1 f2 : Nat) (path : String) (h1 : rank path ≤ f1) (h2 : rank path ≤ f2) :
    parseMain env fs f1 path = parseMain env fs f2 path := by
  unfold parseMain
  cases ht : loadDoc fs path with
  | error e => rfl
  | ok top =>
    simp only [bind, Except.bind]
    have hdoc := loadDoc_ok ht
    cases hs : findSchema path top with
    | error e => rfl
    | ok nc =>
      obtain ⟨n, c⟩ := nc
      simp only []
      have hmem := findSchema_mem hs
      cases parseSchemaAttrs path n with
      | error e => rfl
      | ok _ =>
        simp only []
        refine parseItemsWith_congr env path _ _ c _ (fun n' hm a => ?_)
        refine parseIncl_fuel_stable hac f1 f2 path n' a (fun h' hh' => ?_)
        have := (hac path top hdoc).2 n c hmem n' hm h' hh'
        omega

/-! ## a decidable sufficient condition for `FsOk IsDiag` and `Acyclic` -/

def nodeOkB (env : Env) (n : TNode) : Bool :=
  n.offOk && decide (n.depth ≤ env.stackLimit) && !constCharTrig n

def Item.contentOf : Item → List Item
  | .schema _ c => c
  | _ => []

def inclOkB (rank : String → Nat) (p : String) : Item → Bool
  | .incl n =>
    match n.attr "href" with
    | some h => decide (rank h < rank p)
    | none => true
  | _ => true

def itemOkB (env : Env) (rank : String → Nat) (p : String) (i : Item) : Bool :=
  i.head.offOk && i.visited.all (nodeOkB env) && inclOkB rank p i

def entryOkB (env : Env) (rank : String → Nat) (pe : String × Entry) : Bool :=
  match pe.2 with
  | .missing => true
  | .dir => false
  | .file (.malformed _ ok) => ok
  | .file (.doc top) => top.all (fun i => itemOkB env rank pe.1 i && i.contentOf.all (itemOkB env rank pe.1))

theorem lookup_mem {α β} [BEq α] [LawfulBEq α] : ∀ (l : List (α × β)) (k : α) (v : β), l.lookup k = some v → (k, v) ∈ l
  | [], _, _, h => by simp [List.lookup] at h
  | (a, b) :: r, k, v, h => by
    unfold List.lookup at h
    split at h
    · rename_i heq
      have : k = a := by simpa using heq
      cases h; subst this; simp
    · exact List.mem_cons_of_mem _ (lookup_mem r k v h)

theorem get_mem {fs : FS} {p : String} {e : Entry} (h : fs.get p = e) (hne : e ≠ .missing) : (p, e) ∈ fs := by
  unfold FS.get at h
  cases hl : List.lookup p fs with
  | none => rw [hl] at h; simp at h; exact absurd h.symm hne
  | some v => rw [hl] at h; simp at h; subst h; exact lookup_mem fs p v hl

theorem nodeOk_of_B {env : Env} {n : TNode} (h : nodeOkB env n = true) : NodeOk IsDiag env n := by
  unfold nodeOkB at h
  simp only [Bool.and_eq_true, decide_eq_true_eq, Bool.not_eq_true'] at h
  exact ⟨Or.inl h.1.1, Or.inl h.1.2, Or.inl h.2⟩

theorem fsOk_of_entries (env : Env) (fs : FS) (rank : String → Nat) (h : ∀ pe ∈ fs, entryOkB env rank pe = true) :
    FsOk IsDiag env fs ∧ Acyclic fs rank := by
  have doc : ∀ p top, fs.get p = .file (.doc top) →
      ∀ i ∈ top, itemOkB env rank p i = true ∧ ∀ j ∈ i.contentOf, itemOkB env rank p j = true := by
    intro p top hp i hi
    have := h _ (get_mem hp (by simp))
    simp only [entryOkB, List.all_eq_true, Bool.and_eq_true] at this
    exact this i hi
  have item : ∀ p i, itemOkB env rank p i = true →
      i.head.offOk = true ∧ (∀ n ∈ i.visited, NodeOk IsDiag env n) ∧ inclOkB rank p i = true := by
    intro p i hi
    simp only [itemOkB, Bool.and_eq_true, List.all_eq_true] at hi
    exact ⟨hi.1.1, fun n hn => nodeOk_of_B (hi.1.2 n hn), hi.2⟩
  have incl : ∀ p n, inclOkB rank p (.incl n) = true → ∀ hh, n.attr "href" = some hh → rank hh < rank p := by
    intro p n hi hh hhh
    simp only [inclOkB, hhh, decide_eq_true_eq] at hi
    exact hi
  refine ⟨⟨?_, ?_, ?_, ?_, ?_⟩, ?_⟩
  · intro p hp
    have := h _ (get_mem hp (by simp))
    simp [entryOkB] at this
  · intro p w ok hp
    have := h _ (get_mem hp (by simp))
    simp only [entryOkB] at this
    exact Or.inl this
  · intro p top hp i hi
    exact Or.inl (item p i (doc p top hp i hi).1).1
  · intro p top hp i hi
    exact (item p i (doc p top hp i hi).1).2.1
  · intro p top hp sn c hm i hi
    exact (item p i ((doc p top hp _ hm).2 i (by simpa [Item.contentOf] using hi))).2.1
  · intro p top hp
    refine ⟨fun n hm hh hhh => ?_, fun sn c hm n hm2 hh hhh => ?_⟩
    · exact incl p n (item p _ (doc p top hp _ hm).1).2.2 hh hhh
    · exact incl p n (item p _ ((doc p top hp _ hm).2 _ (by simpa [Item.contentOf] using hm2))).2.2 hh hhh

/-- with `Q := NotFuel` every crash is allowed: only the include graph matters -/
theorem fsOk_notFuel (env : Env) (fs : FS) : FsOk NotFuel env fs :=
  ⟨fun _ _ => trivial, fun _ _ _ _ => Or.inr trivial, fun _ _ _ _ _ => Or.inr trivial,
   fun _ _ _ _ _ _ _ => ⟨Or.inr trivial, Or.inr trivial, Or.inr trivial⟩,
   fun _ _ _ _ _ _ _ _ _ _ => ⟨Or.inr trivial, Or.inr trivial, Or.inr trivial⟩⟩

/-! ## the stages after parsing -/

theorem front_error_p {env : Env} {fuel : Nat} {argv : List String} {fs : FS} {s : PStop}
    (h : front env fuel argv fs = .error (.p s)) :
    (∃ m, s = .diag m) ∨ (∃ cfg, parseCommandLine argv = .go cfg ∧ parseMain env fs fuel cfg.file = .error s) := by
  unfold front at h
  split at h
  · cases h
  · cases h; exact Or.inl ⟨_, rfl⟩
  · rename_i cfg hc
    split at h
    · rename_i e he; cases h; exact Or.inr ⟨cfg, hc, he⟩
    · split at h
      · cases h; exact Or.inl ⟨_, rfl⟩
      · split at h
        · cases h; exact Or.inl ⟨_, rfl⟩
        · split at h <;> cases h

theorem front_error_guarded {env : Env} {fuel : Nat} {argv : List String} {fs : FS} {g : SiteKey}
    (h : front env fuel argv fs = .error (.guarded g)) :
    ∃ cfg p, g ∈ guardedSites ∧ env.siteFails g p = true ∧ env.parseDiag p = none ∧ env.validate cfg p = none := by
  unfold front at h
  split at h
  · cases h
  · cases h
  · rename_i cfg hc
    split at h
    · cases h
    · rename_i parsed hp
      split at h
      · cases h
      · rename_i hpd
        split at h
        · cases h
        · rename_i hv
          split at h
          · rename_i s hs
            cases h
            exact ⟨cfg, parsed, List.mem_of_find?_eq_some hs, by simpa using List.find?_some hs, hpd, hv⟩
          · cases h

/-- under `Sound`, the stage that checks the guarded sites never fires -/
theorem sound_no_guarded {env : Env} (hs : Sound env) {fuel : Nat} {argv : List String} {fs : FS} {g : SiteKey} :
    front env fuel argv fs ≠ .error (.guarded g) := by
  intro h
  obtain ⟨cfg, p, hg, hf, hpd, hv⟩ := front_error_guarded h
  unfold guardedSites at hg
  obtain ⟨e, he, rfl⟩ := List.mem_map.mp hg
  obtain ⟨hmem, hun⟩ := List.mem_filter.mp he
  have := hs e hmem cfg p hf
  cases hg2 : e.2 with
  | unguarded t => simp [hg2, Guard.isUnguarded] at hun
  | rule st why => rw [hg2] at this; rcases this with h' | h' <;> contradiction
  | static w => rw [hg2] at this; exact this
  | local_ w => rw [hg2] at this; exact this
  | order w => rw [hg2] at this; exact this

theorem emitFiles_cases (env : Env) : ∀ (fs acc : List String),
    (emitFiles env fs acc = (none, acc ++ fs)) ∨
    (∃ f w, env.openFails f = true ∧ emitFiles env fs acc = (some ("can't open file: `" ++ f ++ "`"), w))
  | [], acc => by left; simp [emitFiles]
  | f :: r, acc => by
    unfold emitFiles
    split
    · rename_i hf; right; exact ⟨f, acc, hf, rfl⟩
    · rcases emitFiles_cases env r (acc ++ [f]) with h | ⟨g, w, hg, h⟩
      · left; rw [h]; simp
      · right; exact ⟨g, w, hg, h⟩

/-- the shapes a run can have -/
theorem run_cases (env : Env) (fuel : Nat) (argv : List String) (fs : FS) :
    (∃ e, run env fuel argv fs = ⟨report e, []⟩) ∨
    (run env fuel argv fs = ⟨.ok [], []⟩) ∨
    (∃ cfg p, front env fuel argv fs = .ok (some (cfg, p)) ∧
      ((∃ d, run env fuel argv fs = ⟨reportDiag ("can't create directory " ++ d ++ ", error: `E`"), []⟩) ∨
       (run env fuel argv fs = ⟨.ok (env.files cfg p), env.files cfg p⟩) ∨
       (∃ f w, env.openFails f = true ∧ run env fuel argv fs = ⟨reportDiag ("can't open file: `" ++ f ++ "`"), w⟩))) := by
  unfold run
  cases hf : front env fuel argv fs with
  | error e => left; exact ⟨e, rfl⟩
  | ok o =>
    cases o with
    | none => right; left; rfl
    | some cp =>
      obtain ⟨cfg, p⟩ := cp
      right; right
      refine ⟨cfg, p, rfl, ?_⟩
      simp only []
      unfold emit
      cases hd : List.find? env.mkdirFails (env.dirs cfg p) with
      | some d => left; exact ⟨d, rfl⟩
      | none =>
        right
        simp only []
        rcases emitFiles_cases env (env.files cfg p) [] with he | ⟨f, w, hfl, he⟩
        · left; rw [he]; simp
        · right; exact ⟨f, w, hfl, by rw [he]⟩

theorem reportDiag_diag {m m' : String} (h : reportDiag m = .diag m') : m = m' := by
  unfold reportDiag at h
  split at h
  · cases h; rfl
  · cases h

theorem reportDiag_not_ok {m : String} {fl : List String} : reportDiag m ≠ .ok fl := by
  unfold reportDiag
  split <;> simp

end Sbepp.Gen.Pipeline
