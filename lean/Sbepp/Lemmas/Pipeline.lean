/-
  Lemmas about `Sbepp.Gen.Pipeline`: which stops the parsing stages can produce
  (`Errs Q x`: every error of `x` satisfies `Q`), the bound on the nesting of
  include parsers that the include stack gives, fuel monotonicity, the shapes
  of a run.
-/
import Sbepp.Gen.Pipeline

namespace Sbepp.Gen.Pipeline

/-! ## which errors a computation can raise -/

def Errs {α : Type} (Q : PStop → Prop) (x : PM α) : Prop := ∀ e, x = .error e → Q e

theorem Errs.pure {α} {Q} (a : α) : Errs Q (pure a : PM α) := by
  intro e h; cases h

theorem Errs.throw {α} {Q : PStop → Prop} (e : PStop) (h : Q e) : Errs Q (throw e : PM α) := by
  intro e' h'; cases h'; exact h

theorem Errs.bind {α β} {Q} {x : PM α} {f : α → PM β} (hx : Errs Q x) (hf : ∀ a, x = .ok a → Errs Q (f a)) :
    Errs Q (x >>= f) := by
  intro e h
  cases hx' : x with
  | error e' =>
    rw [hx'] at h
    have : e' = e := by simpa [Bind.bind, Except.bind] using h
    exact this ▸ hx e' hx'
  | ok a =>
    rw [hx'] at h
    exact hf a hx' e (by simpa [Bind.bind, Except.bind] using h)

def NotFuel : PStop → Prop
  | .fuel => False
  | _ => True

/-- a property of stops that every diagnostic has -/
def DiagOk (Q : PStop → Prop) : Prop := ∀ m, Q (.diag m)

theorem diagOk_notFuel : DiagOk NotFuel := fun _ => trivial

section atoms
variable {Q : PStop → Prop}

theorem errs_requiredNonEmpty (hq : DiagOk Q) (path : String) (n : TNode) (a : String) :
    Errs Q (requiredNonEmpty path n a) := by
  unfold requiredNonEmpty
  split
  · exact Errs.throw _ (hq _)
  · split
    · exact Errs.throw _ (hq _)
    · exact Errs.pure _

theorem errs_optNum (hq : DiagOk Q) (path : String) (n : TNode) (a : String) (b : Nat) : Errs Q (optNum path n a b) := by
  unfold optNum
  split
  · exact Errs.pure _
  · split
    · exact Errs.pure _
    · exact Errs.throw _ (hq _)

theorem errs_reqNum (hq : DiagOk Q) (path : String) (n : TNode) (a : String) (b : Nat) : Errs Q (reqNum path n a b) := by
  unfold reqNum
  refine Errs.bind (errs_requiredNonEmpty hq _ _ _) (fun v _ => ?_)
  split
  · exact Errs.pure _
  · exact Errs.throw _ (hq _)

/-- `parse_type_encoding` raises diagnostics only -/
theorem errs_parseType (hq : DiagOk Q) (path : String) (n : TNode) : Errs Q (parseType path n) := by
  unfold parseType
  refine Errs.bind (errs_requiredNonEmpty hq _ _ _) (fun _ _ => ?_)
  refine Errs.bind ?_ (fun _ _ => ?_)
  · unfold checkPresence
    split
    · exact Errs.pure _
    · split
      · exact Errs.pure _
      · exact Errs.throw _ (hq _)
  refine Errs.bind (errs_optNum hq _ _ _ _) (fun _ _ => ?_)
  refine Errs.bind (errs_optNum hq _ _ _ _) (fun _ _ => ?_)
  refine Errs.bind (errs_requiredNonEmpty hq _ _ _) (fun _ _ => ?_)
  refine Errs.bind (errs_optNum hq _ _ _ _) (fun _ _ => ?_)
  exact errs_optNum hq _ _ _ _

theorem errs_checkNode (hq : DiagOk Q) (path : String) (n : TNode) : Errs Q (checkNode path n) := by
  unfold checkNode
  refine Errs.bind ?_ (fun _ _ => ?_)
  · unfold checkDepth
    split
    · exact Errs.throw _ (hq _)
    · exact Errs.pure _
  · split
    · exact errs_parseType hq _ _
    · exact Errs.pure _

theorem errs_checkNodes (hq : DiagOk Q) (path : String) : ∀ ns : List TNode, Errs Q (checkNodes path ns)
  | [] => by unfold checkNodes; exact Errs.pure _
  | n :: r => by
    unfold checkNodes
    exact Errs.bind (errs_checkNode hq path n) (fun _ _ => errs_checkNodes hq path r)

end atoms

/-! ## items -/

theorem errs_parseItemsWith {Q : PStop → Prop} (hq : DiagOk Q) (path : String)
    (incl : TNode → Parsed → PM Parsed) :
    ∀ (items : List Item) (acc : Parsed),
      (∀ n, Item.incl n ∈ items → ∀ a, Errs Q (incl n a)) →
      Errs Q (parseItemsWith path incl items acc)
  | [], acc, _ => by unfold parseItemsWith; exact Errs.pure _
  | i :: r, acc, hi => by
    have hi' : ∀ n, Item.incl n ∈ r → ∀ a, Errs Q (incl n a) := fun n hm => hi n (by simp [hm])
    cases i with
    | types n d =>
      unfold parseItemsWith
      exact Errs.bind (errs_checkNodes hq path d) (fun _ _ => errs_parseItemsWith hq path incl r _ hi')
    | message n d =>
      unfold parseItemsWith
      exact Errs.bind (errs_checkNodes hq path (n :: d)) (fun _ _ => errs_parseItemsWith hq path incl r _ hi')
    | incl n =>
      unfold parseItemsWith
      exact Errs.bind (hi n (by simp) acc) (fun _ _ => errs_parseItemsWith hq path incl r _ hi')
    | other n =>
      unfold parseItemsWith
      exact errs_parseItemsWith hq path incl r _ hi'
    | schema n c =>
      unfold parseItemsWith
      exact errs_parseItemsWith hq path incl r _ hi'

/-! ## documents, includes, fuel -/

theorem requiredNonEmpty_ok {path : String} {n : TNode} {a v : String} (h : requiredNonEmpty path n a = .ok v) :
    n.attr a = some v := by
  unfold requiredNonEmpty at h
  split at h
  · cases h
  · split at h
    · cases h
    · rename_i w hw _
      have : w = v := by simpa [pure, Except.pure] using h
      rw [hw, this]

theorem loadDoc_ok {fs : FS} {path : String} {top : List Item} (h : loadDoc fs path = .ok top) :
    fs.get path = .file (.doc top) := by
  unfold loadDoc at h
  split at h
  · cases h
  · cases h
  · cases h
  · rename_i t ht
    have : t = top := by simpa [pure, Except.pure] using h
    rw [ht, this]

/-- `read_file` + `parse_xml` raise diagnostics only (a directory included) -/
theorem errs_loadDoc {Q : PStop → Prop} (hq : DiagOk Q) (fs : FS) (path : String) : Errs Q (loadDoc fs path) := by
  unfold loadDoc
  split
  · exact Errs.throw _ (hq _)
  · exact Errs.throw _ (hq _)
  · exact Errs.throw _ (hq _)
  · exact Errs.pure _

theorem lookup_mem {α β} [BEq α] [LawfulBEq α] : ∀ (l : List (α × β)) (k : α) (v : β), l.lookup k = some v → (k, v) ∈ l
  | [], _, _, h => by simp [List.lookup] at h
  | (a, b) :: r, k, v, h => by
    unfold List.lookup at h
    split at h
    · rename_i heq
      have : k = a := by simpa using heq
      cases h; subst this; simp
    · exact List.mem_cons_of_mem _ (lookup_mem r k v h)

theorem get_mem {fs : FS} {p : String} {e : Entry} (h : fs.get p = e) (hne : e ≠ .missing) : (p, e) ∈ fs := by
  unfold FS.get at h
  cases hl : List.lookup p fs with
  | none => rw [hl] at h; simp at h; exact absurd h.symm hne
  | some v => rw [hl] at h; simp at h; subst h; exact lookup_mem fs p v hl

def keys (fs : FS) : List String := fs.map (·.1)

theorem key_of_doc {fs : FS} {p : String} {top : List Item} (h : fs.get p = .file (.doc top)) : p ∈ keys fs :=
  List.mem_map.mpr ⟨_, get_mem h (by simp), rfl⟩

/-- pigeonhole: a duplicate-free list inside `m` is not longer than `m` -/
theorem nodup_length_le : ∀ (l m : List String), l.Nodup → (∀ x ∈ l, x ∈ m) → l.length ≤ m.length
  | [], _, _, _ => by simp
  | a :: t, m, hnd, hs => by
    have ha : a ∈ m := hs a (by simp)
    obtain ⟨hat, ht⟩ := List.nodup_cons.mp hnd
    have hsub : ∀ x ∈ t, x ∈ m.erase a := by
      intro x hx
      have hne : x ≠ a := fun h => hat (h ▸ hx)
      exact (List.mem_erase_of_ne hne).mpr (hs x (by simp [hx]))
    have ih := nodup_length_le t (m.erase a) ht hsub
    have hl := List.length_erase_of_mem ha
    have hpos : 0 < m.length := List.length_pos_of_mem ha
    simp only [List.length_cons]
    omega

/-- the include stack: distinct paths, each a file of `fs` -/
def StackOk (fs : FS) (stack : List String) : Prop := stack.Nodup ∧ ∀ p ∈ stack, p ∈ keys fs

theorem stackOk_length {fs : FS} {stack : List String} (h : StackOk fs stack) : stack.length ≤ fs.length := by
  have := nodup_length_le stack (keys fs) h.1 h.2
  simpa [keys] using this

theorem stackOk_push {fs : FS} {stack : List String} {p : String} (h : StackOk fs stack) (hp : p ∉ stack)
    (hk : p ∈ keys fs) : StackOk fs (stack ++ [p]) := by
  refine ⟨?_, ?_⟩
  · rw [List.nodup_append]
    refine ⟨h.1, by simp, ?_⟩
    intro a ha b hb
    simp only [List.mem_singleton] at hb
    subst hb
    exact fun hab => hp (hab ▸ ha)
  · intro q hq
    rcases List.mem_append.mp hq with hq | hq
    · exact h.2 q hq
    · simp only [List.mem_singleton] at hq; subst hq; exact hk

/-- `parse_include` with enough fuel for the files that are not yet on the stack -/
theorem errs_parseIncl {Q : PStop → Prop} (hq : DiagOk Q) {fs : FS} :
    ∀ (fuel : Nat) (path : String) (stack : List String) (n : TNode) (acc : Parsed),
      StackOk fs stack → fs.length < fuel + stack.length → Errs Q (parseIncl fs path stack fuel n acc)
  | 0, path, stack, n, acc, hst, hb => by
    have := stackOk_length hst
    omega
  | fuel + 1, path, stack, n, acc, hst, hb => by
    unfold parseIncl
    refine Errs.bind (errs_requiredNonEmpty hq _ _ _) (fun href _ => ?_)
    split
    · exact Errs.throw _ (hq _)
    · rename_i hns
      refine Errs.bind (errs_loadDoc hq fs href) (fun top htop => ?_)
      have hdoc := loadDoc_ok htop
      have hst' := stackOk_push hst hns (key_of_doc hdoc)
      refine errs_parseItemsWith hq href _ top acc (fun n' _ a => ?_)
      refine errs_parseIncl hq fuel href (stack ++ [href]) n' a hst' ?_
      simp only [List.length_append, List.length_singleton]
      omega

theorem findSchema_mem {path : String} : ∀ {top : List Item} {n : TNode} {c : List Item},
    findSchema path top = .ok (n, c) → Item.schema n c ∈ top
  | [], n, c, h => by unfold findSchema at h; cases h
  | i :: r, n, c, h => by
    cases i with
    | schema n' c' =>
      unfold findSchema at h
      have : (n', c') = (n, c) := by simpa [pure, Except.pure] using h
      cases this; simp
    | types n' d => unfold findSchema at h; exact List.mem_cons_of_mem _ (findSchema_mem h)
    | message n' d => unfold findSchema at h; exact List.mem_cons_of_mem _ (findSchema_mem h)
    | incl n' => unfold findSchema at h; exact List.mem_cons_of_mem _ (findSchema_mem h)
    | other n' => unfold findSchema at h; exact List.mem_cons_of_mem _ (findSchema_mem h)

theorem errs_findSchema {Q : PStop → Prop} (hq : DiagOk Q) (path : String) :
    ∀ (top : List Item), Errs Q (findSchema path top)
  | [] => by unfold findSchema; exact Errs.throw _ (hq _)
  | i :: r => by
    cases i with
    | schema n c => unfold findSchema; exact Errs.pure _
    | types n d => unfold findSchema; exact errs_findSchema hq path r
    | message n d => unfold findSchema; exact errs_findSchema hq path r
    | incl n => unfold findSchema; exact errs_findSchema hq path r
    | other n => unfold findSchema; exact errs_findSchema hq path r

theorem errs_parseSchemaAttrs {Q : PStop → Prop} (hq : DiagOk Q) (path : String) (n : TNode) :
    Errs Q (parseSchemaAttrs path n) := by
  unfold parseSchemaAttrs
  refine Errs.bind (errs_reqNum hq _ _ _ _) (fun _ _ => ?_)
  refine Errs.bind (errs_reqNum hq _ _ _ _) (fun _ _ => ?_)
  unfold checkByteOrder
  split
  · exact Errs.pure _
  · split
    · exact Errs.pure _
    · exact Errs.throw _ (hq _)

theorem errs_parseMain {Q : PStop → Prop} (hq : DiagOk Q) {fs : FS}
    (fuel : Nat) (path : String) (hf : fs.length ≤ fuel) : Errs Q (parseMain fs fuel path) := by
  unfold parseMain
  refine Errs.bind (errs_loadDoc hq fs path) (fun top htop => ?_)
  have hdoc := loadDoc_ok htop
  refine Errs.bind (errs_findSchema hq path top) (fun nc hnc => ?_)
  obtain ⟨n, c⟩ := nc
  refine Errs.bind (errs_parseSchemaAttrs hq path n) (fun _ _ => ?_)
  refine errs_parseItemsWith hq path _ c _ (fun n' _ a => ?_)
  refine errs_parseIncl hq fuel path [path] n' a ⟨by simp, ?_⟩ (by simp; omega)
  intro q hq'
  simp only [List.mem_singleton] at hq'
  subst hq'
  exact key_of_doc hdoc

/-! ### more fuel changes nothing -/

theorem parseItemsWith_congr (path : String) (f g : TNode → Parsed → PM Parsed) :
    ∀ (items : List Item) (acc : Parsed), (∀ n, Item.incl n ∈ items → ∀ a, f n a = g n a) →
      parseItemsWith path f items acc = parseItemsWith path g items acc
  | [], acc, _ => by unfold parseItemsWith; rfl
  | i :: r, acc, h => by
    have hr : ∀ n, Item.incl n ∈ r → ∀ a, f n a = g n a := fun n hn => h n (by simp [hn])
    cases i with
    | types n d =>
      unfold parseItemsWith
      simp only [parseItemsWith_congr path f g r _ hr]
    | message n d =>
      unfold parseItemsWith
      simp only [parseItemsWith_congr path f g r _ hr]
    | incl n =>
      unfold parseItemsWith
      rw [h n (by simp) acc]
      congr 1
      funext acc'
      exact parseItemsWith_congr path f g r acc' hr
    | other n =>
      unfold parseItemsWith
      exact parseItemsWith_congr path f g r _ hr
    | schema n c =>
      unfold parseItemsWith
      exact parseItemsWith_congr path f g r _ hr

theorem parseIncl_fuel_stable {fs : FS} :
    ∀ (f1 f2 : Nat) (path : String) (stack : List String) (n : TNode) (acc : Parsed),
      StackOk fs stack → fs.length < f1 + stack.length → fs.length < f2 + stack.length →
      parseIncl fs path stack f1 n acc = parseIncl fs path stack f2 n acc
  | 0, _, _, _, _, _, hst, h1, _ => by have := stackOk_length hst; omega
  | _ + 1, 0, _, _, _, _, hst, _, h2 => by have := stackOk_length hst; omega
  | f1 + 1, f2 + 1, path, stack, n, acc, hst, h1, h2 => by
    unfold parseIncl
    cases hv : requiredNonEmpty path n "href" with
    | error e => simp [bind, Except.bind]
    | ok href =>
      simp only [bind, Except.bind]
      split
      · rfl
      · rename_i hns
        cases ht : loadDoc fs href with
        | error e => rfl
        | ok top =>
          simp only []
          have hst' := stackOk_push hst hns (key_of_doc (loadDoc_ok ht))
          refine parseItemsWith_congr href _ _ top acc (fun n' _ a => ?_)
          refine parseIncl_fuel_stable f1 f2 href (stack ++ [href]) n' a hst' ?_ ?_ <;>
            (simp only [List.length_append, List.length_singleton]; omega)

theorem parseMain_fuel_stable {fs : FS} (f1 f2 : Nat) (path : String)
    (h1 : fs.length ≤ f1) (h2 : fs.length ≤ f2) :
    parseMain fs f1 path = parseMain fs f2 path := by
  unfold parseMain
  cases ht : loadDoc fs path with
  | error e => rfl
  | ok top =>
    simp only [bind, Except.bind]
    have hdoc := loadDoc_ok ht
    cases hs : findSchema path top with
    | error e => rfl
    | ok nc =>
      obtain ⟨n, c⟩ := nc
      simp only []
      cases parseSchemaAttrs path n with
      | error e => rfl
      | ok _ =>
        simp only []
        refine parseItemsWith_congr path _ _ c _ (fun n' _ a => ?_)
        refine parseIncl_fuel_stable f1 f2 path [path] n' a ⟨by simp, ?_⟩ (by simp; omega) (by simp; omega)
        intro q hq'
        simp only [List.mem_singleton] at hq'
        subst hq'
        exact key_of_doc hdoc

/-! ## the stages after parsing -/

theorem front_error_p {env : Env} {fuel : Nat} {argv : List String} {fs : FS} {s : PStop}
    (h : front env fuel argv fs = .error (.p s)) :
    (∃ m, s = .diag m) ∨ (∃ cfg, parseCommandLine argv = .go cfg ∧ parseMain fs fuel cfg.file = .error s) := by
  unfold front at h
  split at h
  · cases h
  · cases h; exact Or.inl ⟨_, rfl⟩
  · rename_i cfg hc
    split at h
    · rename_i e he; cases h; exact Or.inr ⟨cfg, hc, he⟩
    · split at h
      · cases h; exact Or.inl ⟨_, rfl⟩
      · split at h
        · cases h; exact Or.inl ⟨_, rfl⟩
        · split at h <;> cases h

theorem front_error_guarded {env : Env} {fuel : Nat} {argv : List String} {fs : FS} {g : SiteKey}
    (h : front env fuel argv fs = .error (.guarded g)) :
    ∃ cfg p, g ∈ guardedSites ∧ env.siteFails g p = true ∧ env.parseDiag p = none ∧ env.validate cfg p = none := by
  unfold front at h
  split at h
  · cases h
  · cases h
  · rename_i cfg hc
    split at h
    · cases h
    · rename_i parsed hp
      split at h
      · cases h
      · rename_i hpd
        split at h
        · cases h
        · rename_i hv
          split at h
          · rename_i s hs
            cases h
            exact ⟨cfg, parsed, List.mem_of_find?_eq_some hs, by simpa using List.find?_some hs, hpd, hv⟩
          · cases h

/-- under `Sound`, the stage that checks the guarded sites never fires -/
theorem sound_no_guarded {env : Env} (hs : Sound env) {fuel : Nat} {argv : List String} {fs : FS} {g : SiteKey} :
    front env fuel argv fs ≠ .error (.guarded g) := by
  intro h
  obtain ⟨cfg, p, hg, hf, hpd, hv⟩ := front_error_guarded h
  unfold guardedSites at hg
  obtain ⟨e, he, rfl⟩ := List.mem_map.mp hg
  obtain ⟨hmem, hun⟩ := List.mem_filter.mp he
  have := hs e hmem cfg p hf
  cases hg2 : e.2 with
  | unguarded t => simp [hg2, Guard.isUnguarded] at hun
  | rule st why => rw [hg2] at this; rcases this with h' | h' <;> contradiction
  | static w => rw [hg2] at this; exact this
  | local_ w => rw [hg2] at this; exact this
  | order w => rw [hg2] at this; exact this

theorem emitFiles_cases (env : Env) : ∀ (fs acc : List String),
    (emitFiles env fs acc = (none, acc ++ fs)) ∨
    (∃ f w, env.openFails f = true ∧ emitFiles env fs acc = (some ("can't open file: `" ++ f ++ "`"), w))
  | [], acc => by left; simp [emitFiles]
  | f :: r, acc => by
    unfold emitFiles
    split
    · rename_i hf; right; exact ⟨f, acc, hf, rfl⟩
    · rcases emitFiles_cases env r (acc ++ [f]) with h | ⟨g, w, hg, h⟩
      · left; rw [h]; simp
      · right; exact ⟨g, w, hg, h⟩

/-- the shapes a run can have -/
theorem run_cases (env : Env) (fuel : Nat) (argv : List String) (fs : FS) :
    (∃ e, front env fuel argv fs = .error e ∧ run env fuel argv fs = ⟨report e, []⟩) ∨
    (run env fuel argv fs = ⟨.ok [], []⟩) ∨
    (∃ cfg p, front env fuel argv fs = .ok (some (cfg, p)) ∧
      ((∃ d, run env fuel argv fs = ⟨.diag ("can't create directory " ++ d ++ ", error: `E`"), []⟩) ∨
       (run env fuel argv fs = ⟨.ok (env.files cfg p), env.files cfg p⟩) ∨
       (∃ f w, env.openFails f = true ∧ run env fuel argv fs = ⟨.diag ("can't open file: `" ++ f ++ "`"), w⟩))) := by
  unfold run
  cases hf : front env fuel argv fs with
  | error e => left; exact ⟨e, rfl, rfl⟩
  | ok o =>
    cases o with
    | none => right; left; rfl
    | some cp =>
      obtain ⟨cfg, p⟩ := cp
      right; right
      refine ⟨cfg, p, rfl, ?_⟩
      simp only []
      unfold emit
      cases hd : List.find? env.mkdirFails (env.dirs cfg p) with
      | some d => left; exact ⟨d, rfl⟩
      | none =>
        right
        simp only []
        rcases emitFiles_cases env (env.files cfg p) [] with he | ⟨f, w, hfl, he⟩
        · left; rw [he]; simp
        · right; exact ⟨f, w, hfl, by rw [he]⟩

end Sbepp.Gen.Pipeline
