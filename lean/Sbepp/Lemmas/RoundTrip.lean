/-
  Encode → decode round trip at the message level: the tree the encoder leaves
  in the buffer (`fillL v mid`: `v` written over previous contents `mid`) is a
  well-formed image at the compiled block lengths, so the decoder theorems
  (`decL`, `endL_spec`) apply to the encoder's output.
-/
import Sbepp.Lemmas.Encode
import Sbepp.Lemmas.HeaderFill

namespace Sbepp.Spec
open Sbepp Sbepp.Gen

/-! what the encoder needs beyond `EncL` for its header writes to be readable:
    the written members of every dimension header do not overlap and the entry
    block length and the entry count fit their members -/
mutual
  def FitL : Level → LVal → Prop
    | .mk _ _ gs _, .mk _ gvs _ => FitGs gs gvs
  def FitGs : List Group → List GVal → Prop
    | g :: gs, v :: vs => FitG g v ∧ FitGs gs vs
    | _, _ => True
  def FitG : Group → GVal → Prop
    | .mk dim l, .mk _ es =>
      PairwiseDisj (groupHeaderFields dim l.blockLen es.length) ∧
      l.blockLen < 256 ^ dim.blSize ∧ es.length < 256 ^ dim.numSize ∧ FitEs l es
  def FitEs : Level → List LVal → Prop
    | _, [] => True
    | l, e :: es => FitL l e ∧ FitEs l es
end

theorem fillEs_length (bo : ByteOrder) (l : Level) (es : List LVal) (mid : List Nat) :
    (fillEs bo l es mid).length = es.length := by
  induction es generalizing mid with
  | nil => simp [fillEs]
  | cons e es ih => simp [fillEs, ih]

theorem fillHdr_eq_fields (bo : ByteOrder) (dim : Dim) (bl n : Nat) (old : List Nat) :
    fillHdr bo dim bl n old = writeExtras bo old 0 (groupHeaderFields dim bl n) := by
  simp [fillHdr, groupHeaderFields, writeExtras]

mutual
  theorem confL_fill (bo : ByteOrder) (l : Level) (v : LVal) (mid : List Nat)
      (he : EncL bo l v) (hf : FitL l v) (hlen : mid.length = (flattenL bo l v).length) :
      ConfL bo l (fillL bo l v mid) l.blockLen := by
    match l, v with
    | .mk bl lv gs ds, .mk block gvs dvs =>
      obtain ⟨hblk, hlv, hgs, hds⟩ := he
      simp only [flattenL, List.length_append, hblk] at hlen
      simp only [fillL, ConfL, Level.blockLen]
      have l1 : (mid.take bl).length = bl := by rw [List.length_take]; omega
      have hb : ∀ lf ∈ lv, lf.off + lf.size ≤ block.length := fun lf h => by rw [hblk]; exact hlv lf h
      refine ⟨?_, Nat.le_refl _, ?_, hds⟩
      · rw [writeLeaves_length (mid.take bl) block 0 lv hb (fun lf h => by simpa [l1] using hlv lf h), l1]
      · exact confGs_fill bo gs gvs _ hgs hf (by rw [List.length_take, List.length_drop]; omega)
  theorem confGs_fill (bo : ByteOrder) (gs : List Group) (gvs : List GVal) (mid : List Nat)
      (he : EncGs bo gs gvs) (hf : FitGs gs gvs) (hlen : mid.length = (flattenGs bo gs gvs).length) :
      ConfGs bo gs (fillGs bo gs gvs mid) := by
    match gs, gvs with
    | [], [] => simp [fillGs, ConfGs]
    | [], _ :: _ => simp [EncGs] at he
    | _ :: _, [] => simp [EncGs] at he
    | g :: gs, v :: vs =>
      obtain ⟨hg, hrest⟩ := he
      obtain ⟨fg, frest⟩ := hf
      simp only [flattenGs, List.length_append] at hlen
      simp only [fillGs, ConfGs]
      exact ⟨confG_fill bo g v _ hg fg (by rw [List.length_take]; omega),
             confGs_fill bo gs vs _ hrest frest (by rw [List.length_drop]; omega)⟩
  theorem confG_fill (bo : ByteOrder) (g : Group) (v : GVal) (mid : List Nat)
      (he : EncG bo g v) (hf : FitG g v) (hlen : mid.length = (flattenG bo g v).length) :
      ConfG bo g (fillG bo g v mid) := by
    match g, v with
    | .mk dim l, .mk hdr es =>
      obtain ⟨hh, hbl, hnum, hex, hes⟩ := he
      obtain ⟨hd, fbl, fnum, fes⟩ := hf
      simp only [flattenG, List.length_append, hh] at hlen
      simp only [fillG, ConfG]
      have l1 : (mid.take dim.size).length = dim.size := by rw [List.length_take]; omega
      have hp : ∀ y ∈ groupHeaderFields dim l.blockLen es.length,
          y.1.off + y.1.size ≤ (mid.take dim.size).length := by
        intro y hy
        rw [l1]
        simp only [groupHeaderFields, List.mem_cons] at hy
        rcases hy with rfl | rfl | hy
        · exact hbl
        · exact hnum
        · exact hex y hy
      have rbl : get bo (slice (fillHdr bo dim l.blockLen es.length (mid.take dim.size)) dim.blOff dim.blSize)
          = l.blockLen := by
        rw [fillHdr_eq_fields]
        exact writeExtras_value bo _ _ (⟨dim.blOff, dim.blSize⟩, l.blockLen) (by simp [groupHeaderFields]) hd hp fbl
      have rnum : get bo (slice (fillHdr bo dim l.blockLen es.length (mid.take dim.size)) dim.numOff dim.numSize)
          = es.length := by
        rw [fillHdr_eq_fields]
        exact writeExtras_value bo _ _ (⟨dim.numOff, dim.numSize⟩, es.length) (by simp [groupHeaderFields]) hd hp fnum
      refine ⟨fillHdr_length bo dim _ _ _ l1 hbl hnum hex, hbl, hnum, ?_, ?_⟩
      · rw [rnum, fillEs_length]
      · rw [rbl]
        exact confEs_fill bo l es _ hes fes (by rw [List.length_drop]; omega)
  theorem confEs_fill (bo : ByteOrder) (l : Level) (es : List LVal) (mid : List Nat)
      (he : EncEs bo l es) (hf : FitEs l es) (hlen : mid.length = (flattenEs bo l es).length) :
      ConfEs bo l (fillEs bo l es mid) l.blockLen := by
    match es with
    | [] => simp [fillEs, ConfEs]
    | e :: es =>
      obtain ⟨hE, hrest⟩ := he
      obtain ⟨fE, frest⟩ := hf
      simp only [flattenEs, List.length_append] at hlen
      simp only [fillEs, ConfEs]
      exact ⟨confL_fill bo l e _ hE fE (by rw [List.length_take]; omega),
             confEs_fill bo l es _ hrest frest (by rw [List.length_drop]; omega)⟩
end

end Sbepp.Spec
