/-
  Symbolic evaluation of the extracted iterator / group kernels
  (`random_access_iterator`, `flat_group_base::begin/end/operator[]`,
  `forward_iterator`, `nested_group_base`) and of the model operations of
  `Rt/Iter.lean` built from them, for the 16 (numInGroup type, blockLength type)
  pairs.
-/
import Sbepp.Lemmas.GroupArith

set_option linter.unusedSimpArgs false

namespace Sbepp
open CVal Extracted
namespace CVal

/-! ### index, difference and pointer arithmetic on canonical values -/

/-- `index + k` / `index - k`, assigned back to the index type: modular -/
theorem index_step (op : BinOp) (hop : op = .add ∨ op = .sub) (IT KT : CTy) (hIT : DimTy IT) (i : Nat) (k : Int)
    (hi : i < 2 ^ IT.bits) (hk : inRange KT k = true) (hKp : KT.isPtr = false)
    (hcommon : CTy.common IT.promote KT.promote = IT.promote)
    (hsmall : IT.bits ≤ 16 → inRange .i32 k = true ∧ -(2 ^ 30 : Int) ≤ k ∧ k < (2 ^ 30 : Int)) :
    (binop op (wrap IT (i : Int)) (wrap KT k)).map (conv IT)
      = some (wrap IT (if op = .add then (i : Int) + k else (i : Int) - k)) := by
  have ri : inRange IT (i : Int) = true := inRange_nat IT hIT.unsigned i hi
  have hne1 : op ≠ .shl := by rcases hop with h | h <;> subst h <;> decide
  have hne2 : op ≠ .shr := by rcases hop with h | h <;> subst h <;> decide
  rw [binop_wrap op hne1 hne2 IT KT i k hIT.not_ptr hKp ri hk, hcommon]
  rcases hIT.promote_cases with ⟨hp, h16, _⟩ | ⟨hp, _, _⟩
  · rw [hp]
    obtain ⟨hk32, hk1, hk2⟩ := hsmall h16
    have h216 : 2 ^ IT.bits ≤ 2 ^ 16 := Nat.pow_le_pow_right (by decide) h16
    have ri32 : inRange .i32 (i : Int) = true := inRange_i32 _ (by omega)
    rcases hop with h | h <;> subst h
    · have rs : inRange .i32 ((i : Int) + k) = true := inRange_i32 _ (by omega)
      simp only [arithOp, toInt_wrap _ _ ri32, toInt_wrap _ _ hk32, arith_inRange _ _ rs, Option.map, if_true,
        conv_wrap .i32 IT _ rs hIT.not_bool]
    · have rs : inRange .i32 ((i : Int) - k) = true := inRange_i32 _ (by omega)
      simp only [arithOp, toInt_wrap _ _ ri32, toInt_wrap _ _ hk32, arith_inRange _ _ rs, Option.map,
        conv_wrap .i32 IT _ rs hIT.not_bool]
      simp
  · rw [hp]
    rcases hop with h | h <;> subst h
    · simp only [arithOp, toInt_wrap _ _ ri, toInt_wrap_unsigned IT hIT.unsigned k, arith_unsigned IT hIT.unsigned,
        Option.map, if_true, conv_wrap_same_width IT IT hIT.not_bool rfl, wrap_add_emod_right]
    · simp only [arithOp, toInt_wrap _ _ ri, toInt_wrap_unsigned IT hIT.unsigned k, arith_unsigned IT hIT.unsigned,
        Option.map, conv_wrap_same_width IT IT hIT.not_bool rfl]
      have : wrap IT ((i : Int) - k % IT.modulus) = wrap IT ((i : Int) - k) := by
        apply wrap_congr
        rw [Int.sub_emod, Int.emod_emod_of_dvd _ (Int.dvd_refl _), ← Int.sub_emod]
      simp [this]

/-- `index - rhs.index` converted to `difference_type`: modular -/
theorem index_diff (IT : CTy) (hIT : DimTy IT) (i j : Nat) (hi : i < 2 ^ IT.bits) (hj : j < 2 ^ IT.bits) :
    (binop .sub (wrap IT (i : Int)) (wrap IT (j : Int))).map (conv (Rt.diffTy IT))
      = some (wrap (Rt.diffTy IT) ((i : Int) - (j : Int))) := by
  have ri : inRange IT (i : Int) = true := inRange_nat IT hIT.unsigned i hi
  have rj : inRange IT (j : Int) = true := inRange_nat IT hIT.unsigned j hj
  rw [binop_wrap .sub (by decide) (by decide) IT IT i j hIT.not_ptr hIT.not_ptr ri rj, hIT.common_self]
  rcases hIT.promote_cases with ⟨hp, h16, _⟩ | ⟨hp, _, _⟩
  · rw [hp]
    have h216 : 2 ^ IT.bits ≤ 2 ^ 16 := Nat.pow_le_pow_right (by decide) h16
    have ri32 : inRange .i32 (i : Int) = true := inRange_i32 _ (by omega)
    have rj32 : inRange .i32 (j : Int) = true := inRange_i32 _ (by omega)
    have rs : inRange .i32 ((i : Int) - j) = true := inRange_i32 _ (by omega)
    simp only [arithOp, toInt_wrap _ _ ri32, toInt_wrap _ _ rj32, arith_inRange _ _ rs, Option.map,
      conv_wrap .i32 _ _ rs hIT.diff_not_bool]
  · rw [hp]
    simp only [arithOp, toInt_wrap _ _ ri, toInt_wrap _ _ rj, arith_unsigned IT hIT.unsigned, Option.map,
      conv_wrap_same_width IT _ hIT.diff_not_bool hIT.diff_bits]

/-- `-n` converted back to `difference_type` -/
theorem diff_neg (IT : CTy) (hIT : DimTy IT) (n : Int) (hn : inRange (Rt.diffTy IT) n = true)
    (hneg : inRange (Rt.diffTy IT) (-n) = true) :
    (unop .neg (wrap (Rt.diffTy IT) n)).map (conv (Rt.diffTy IT)) = some (wrap (Rt.diffTy IT) (-n)) := by
  unfold unop
  simp only [wrap_ty, hIT.diff_not_ptr, Bool.false_eq_true, if_false, promote_wrap _ _ hn,
    toInt_wrap _ _ (inRange_promote _ _ hn), arith_inRange _ _ (inRange_promote _ _ hneg), Option.map]
  rw [conv_wrap _ _ _ (inRange_promote _ _ hneg) hIT.diff_not_bool]

theorem conv_bool_ofBool (b : Bool) : conv .bool (ofBool b) = ofBool b := by
  cases b <;> rfl

/-- comparisons of two indices -/
theorem index_cmp (op : BinOp) (hop : isCmp op = true) (IT : CTy) (hIT : DimTy IT) (i j : Nat)
    (hi : i < 2 ^ IT.bits) (hj : j < 2 ^ IT.bits) :
    binop op (wrap IT (i : Int)) (wrap IT (j : Int)) = some (ofBool (cmp op (i : Int) (j : Int))) := by
  have ri : inRange IT (i : Int) = true := inRange_nat IT hIT.unsigned i hi
  have rj : inRange IT (j : Int) = true := inRange_nat IT hIT.unsigned j hj
  have hne1 : op ≠ .shl := by intro h; subst h; simp [isCmp] at hop
  have hne2 : op ≠ .shr := by intro h; subst h; simp [isCmp] at hop
  rw [binop_wrap op hne1 hne2 IT IT i j hIT.not_ptr hIT.not_ptr ri rj, hIT.common_self]
  have rip := inRange_promote _ _ ri
  have rjp := inRange_promote _ _ rj
  cases op <;> simp [isCmp] at hop <;> simp only [arithOp, toInt_wrap _ _ rip, toInt_wrap _ _ rjp, cmp]


theorem ptr_add (T : CTy) (hT : T.isPtr = false) (p x : Int) (hp : inRange .ptr p = true)
    (hx : inRange T x = true) (hq : inRange .ptr (p + x) = true) :
    binop .add (wrap .ptr p) (wrap T x) = some (wrap .ptr (p + x)) := by
  unfold binop ptrBinop
  simp only [wrap_ty, hT, show CTy.isPtr .ptr = true from rfl, Bool.true_or, Bool.and_false, if_true, Bool.false_eq_true, if_false,
    toInt_wrap _ _ hp, toInt_wrap _ _ hx, exact, hq]

theorem ptr_sub (T : CTy) (hT : T.isPtr = false) (p x : Int) (hp : inRange .ptr p = true)
    (hx : inRange T x = true) (hq : inRange .ptr (p - x) = true) :
    binop .sub (wrap .ptr p) (wrap T x) = some (wrap .ptr (p - x)) := by
  unfold binop ptrBinop
  simp only [wrap_ty, hT, show CTy.isPtr .ptr = true from rfl, Bool.true_or, Bool.and_false, if_true, Bool.false_eq_true, if_false,
    toInt_wrap _ _ hp, toInt_wrap _ _ hx, exact, hq, show (BinOp.sub = BinOp.add) = False from by decide]

theorem inRange_diff_bounds (IT : CTy) (hIT : DimTy IT) (n : Int) (hn : inRange (Rt.diffTy IT) n = true) :
    -((2 ^ (IT.bits - 1) : Nat) : Int) ≤ n ∧ n < ((2 ^ (IT.bits - 1) : Nat) : Int) := by
  have := (inRange_signed _ hIT.diff_signed n).mp hn
  rw [hIT.diff_bits] at this
  exact this

theorem inRange_diff_i64 (IT : CTy) (hIT : DimTy IT) (n : Int) (hn : inRange (Rt.diffTy IT) n = true) :
    inRange .i64 n = true := by
  have h := inRange_diff_bounds IT hIT n hn
  have hle : 2 ^ (IT.bits - 1) ≤ 2 ^ 63 := Nat.pow_le_pow_right (by decide) (by have := hIT.bits_le; omega)
  exact inRange_i64 n (by omega)

/-- `static_cast<ptrdiff_t>(n) * static_cast<ptrdiff_t>(block_length)` when the
    mathematical product is a `ptrdiff_t` -/
theorem step_product (IT BT : CTy) (hIT : DimTy IT) (hBT : DimTy BT) (n : Int) (bl : Nat)
    (hn : inRange (Rt.diffTy IT) n = true) (hb : bl < 2 ^ BT.bits)
    (hprod : -(2 ^ 63 : Int) < n * (bl : Int) ∧ n * (bl : Int) < (2 ^ 63 : Int)) :
    binop .mul (conv .i64 (wrap (Rt.diffTy IT) n)) (conv .i64 (wrap BT (bl : Int)))
      = some (wrap .i64 (n * (bl : Int))) := by
  have rb : inRange BT (bl : Int) = true := inRange_nat BT hBT.unsigned bl hb
  have rn64 := inRange_diff_i64 IT hIT n hn
  rw [conv_wrap _ .i64 n hn (by decide), conv_wrap _ .i64 _ rb (by decide)]
  have hp := hprod
  have hprod : inRange .i64 (n * (bl : Int)) = true := inRange_i64 _ (by omega)
  by_cases hbl : bl < 2 ^ 63
  · have rb64 : inRange .i64 (bl : Int) = true := inRange_i64 _ (by omega)
    rw [binop_wrap .mul (by decide) (by decide) .i64 .i64 n bl rfl rfl rn64 rb64]
    simp only [show CTy.common (CTy.promote .i64) (CTy.promote .i64) = .i64 from rfl, arithOp,
      toInt_wrap _ _ rn64, toInt_wrap _ _ rb64, arith_inRange _ _ hprod]
  · -- the block length does not fit ptrdiff_t: the product can only be representable for n = 0
    have hbl' : (2 : Int) ^ 63 ≤ (bl : Int) := by
      have : 2 ^ 63 ≤ bl := Nat.le_of_not_lt hbl
      exact_mod_cast this
    have hn0 : n = 0 := by
      by_cases h0 : n = 0
      · exact h0
      · exfalso
        rcases Int.lt_or_gt_of_ne h0 with hlt | hgt
        · have : n * (bl : Int) ≤ (-1) * (bl : Int) := Int.mul_le_mul_of_nonneg_right (by omega) (by omega)
          omega
        · have : 1 * (bl : Int) ≤ n * (bl : Int) := Int.mul_le_mul_of_nonneg_right (by omega) (by omega)
          omega
    subst hn0
    have hb64 : bl < 2 ^ 64 := Nat.lt_of_lt_of_le hb hBT.pow_le
    have hw : wrap .i64 (bl : Int) = wrap .i64 ((bl : Int) - 2 ^ 64) := by
      apply wrap_congr
      unfold CTy.modulus
      simp only [CTy.bits, Nat.reducePow]
      omega
    have rb64 : inRange .i64 ((bl : Int) - 2 ^ 64) = true := inRange_i64 _ (by omega)
    rw [hw, binop_wrap .mul (by decide) (by decide) .i64 .i64 0 _ rfl rfl rn64 rb64]
    simp only [show CTy.common (CTy.promote .i64) (CTy.promote .i64) = .i64 from rfl, arithOp,
      toInt_wrap _ _ rn64, toInt_wrap _ _ rb64, Int.zero_mul, arith_inRange _ _ rn64]

end CVal
end Sbepp

namespace Sbepp
open CVal Extracted
namespace CVal
theorem wrap_bits_self (t : CTy) (i : Int) : wrap t ((wrap t i).bits : Int) = wrap t i := by
  rw [wrap_bits, wrap_emod]

theorem wrap_ptrBits (p : Int) : wrap .ptr ((Rt.ptrBits p : Nat) : Int) = wrap .ptr p := by
  have : ((Rt.ptrBits p : Nat) : Int) = p % CTy.modulus .ptr := by
    unfold Rt.ptrBits CTy.modulus
    exact Int.toNat_of_nonneg (Int.emod_nonneg _ (by decide))
  rw [this, wrap_emod]
end CVal

namespace Rt

/-- invariants of an iterator state: members hold values of their types -/
structure Iter.WF (NT BT : CTy) (it : Iter) : Prop where
  bl_lt : it.bl < 2 ^ BT.bits
  index_lt : it.index < 2 ^ NT.bits
  ptr_ok : inRange .ptr it.ptr = true

theorem some_of_map {α β : Type} {f : α → β} {o : Option α} {b : β} (h : o.map f = some b) :
    ∃ a, o = some a ∧ f a = b := by
  cases o with
  | none => simp at h
  | some a => exact ⟨a, rfl, by simpa using h⟩

theorem addAssignD_eval (NT BT : CTy) (hNT : DimTy NT) (hBT : DimTy BT) (it : Iter) (wf : it.WF NT BT)
    (n : Int) (hn : inRange (diffTy NT) n = true)
    (hprod : -(2 ^ 63 : Int) < n * (it.bl : Int) ∧ n * (it.bl : Int) < (2 ^ 63 : Int))
    (hq : inRange .ptr (it.ptr + n * (it.bl : Int)) = true) :
    addAssignD NT BT it (wrap (diffTy NT) n)
      = .ok ⟨it.ptr + n * (it.bl : Int), it.bl, (wrap NT ((it.index : Int) + n)).bits, it.end_⟩ := by
  have hmul := step_product NT BT hNT hBT n it.bl hn wf.bl_lt hprod
  have hadd := ptr_add .i64 rfl it.ptr _ wf.ptr_ok (inRange_i64 _ (by omega)) hq
  obtain ⟨v, hv, hc⟩ := some_of_map (index_step .add (Or.inl rfl) NT (diffTy NT) hNT it.index n wf.index_lt hn
    hNT.diff_not_ptr hNT.common_diff (by
      intro h16
      have hb := inRange_diff_bounds NT hNT n hn
      have : 2 ^ (NT.bits - 1) ≤ 2 ^ 15 := Nat.pow_le_pow_right (by decide) (by omega)
      exact ⟨inRange_i32 _ (by omega), by omega, by omega⟩))
  simp only [if_true] at hc
  simp only [addAssignD, Iter.args, ra_iter_add_assign, Kernel.run, execStmts, CStmt.exec, mkEnv, List.cons_append,
    List.nil_append, CExpr.eval, Env.get?, Env.set, String.reduceEq, if_true, if_false, Option.map,
    mk_mod_eq_wrap, wrap_ptrBits, wrap_bits_self, hmul, hadd, wrap_ty, conv_wrap .ptr .ptr _ hq (by decide),
    hv, hc]
  simp only [Outcome.bind_ok, readIter3, getVar, Env.get?, String.reduceEq, if_true, if_false, Outcome.ofOption,
    Outcome.pure_eq, toInt_wrap _ _ hq, wrap_bits_nat BT it.bl wf.bl_lt]
end Rt
end Sbepp

namespace Sbepp
open CVal Extracted
namespace Rt

theorem wrap_i32_one : wrap .i32 1 = wrap .i32 ((1 : Nat) : Int) := rfl

theorem inc_eval (NT BT : CTy) (hNT : DimTy NT) (hBT : DimTy BT) (it : Iter) (wf : it.WF NT BT)
    (hq : inRange .ptr (it.ptr + (it.bl : Int)) = true) :
    inc NT BT false it
      = .ok ⟨it.ptr + (it.bl : Int), it.bl, (wrap NT ((it.index : Int) + 1)).bits, it.end_⟩ := by
  have hadd := ptr_add BT hBT.not_ptr it.ptr _ wf.ptr_ok (inRange_nat BT hBT.unsigned it.bl wf.bl_lt) hq
  obtain ⟨v, hv, hc⟩ := some_of_map (index_step .add (Or.inl rfl) NT .i32 hNT it.index 1 wf.index_lt
    (inRange_i32 1 (by omega)) rfl hNT.common_int (fun _ => ⟨inRange_i32 1 (by omega), by omega, by omega⟩))
  simp only [if_true] at hc
  simp only [inc, Iter.args, ra_iter_inc, Kernel.run, execStmts, CStmt.exec, mkEnv,
    CExpr.eval, Env.get?, Env.set, String.reduceEq, if_true, if_false, Option.map, Bool.false_eq_true,
    mk_mod_eq_wrap, wrap_ptrBits, hadd, wrap_ty, conv_wrap .ptr .ptr _ hq (by decide), hv, hc]
  simp only [Outcome.bind_ok, readIter3, getVar, Env.get?, String.reduceEq, if_true, if_false, Outcome.ofOption,
    Outcome.pure_eq, toInt_wrap _ _ hq, wrap_bits_nat BT it.bl wf.bl_lt]

theorem dec_eval (NT BT : CTy) (hNT : DimTy NT) (hBT : DimTy BT) (it : Iter) (wf : it.WF NT BT)
    (hq : inRange .ptr (it.ptr - (it.bl : Int)) = true) :
    dec NT BT it
      = .ok ⟨it.ptr - (it.bl : Int), it.bl, (wrap NT ((it.index : Int) - 1)).bits, it.end_⟩ := by
  have hsub := ptr_sub BT hBT.not_ptr it.ptr _ wf.ptr_ok (inRange_nat BT hBT.unsigned it.bl wf.bl_lt) hq
  obtain ⟨v, hv, hc⟩ := some_of_map (index_step .sub (Or.inr rfl) NT .i32 hNT it.index 1 wf.index_lt
    (inRange_i32 1 (by omega)) rfl hNT.common_int (fun _ => ⟨inRange_i32 1 (by omega), by omega, by omega⟩))
  simp only [show (BinOp.sub = BinOp.add) = False from by decide, if_false] at hc
  simp only [dec, Iter.args, ra_iter_dec, Kernel.run, execStmts, CStmt.exec, mkEnv,
    CExpr.eval, Env.get?, Env.set, String.reduceEq, if_true, if_false, Option.map,
    mk_mod_eq_wrap, wrap_ptrBits, hsub, wrap_ty, conv_wrap .ptr .ptr _ hq (by decide), hv, hc]
  simp only [Outcome.bind_ok, readIter3, getVar, Env.get?, String.reduceEq, if_true, if_false, Outcome.ofOption,
    Outcome.pure_eq, toInt_wrap _ _ hq, wrap_bits_nat BT it.bl wf.bl_lt]

end Rt
end Sbepp

namespace Sbepp
open CVal Extracted
namespace Rt

/-- `it + a` for an argument whose conversion to `difference_type` is `k` -/
theorem plus_eval (NT BT : CTy) (hNT : DimTy NT) (hBT : DimTy BT) (it : Iter) (wf : it.WF NT BT)
    (a : CVal) (k : Int) (hconv : conv (diffTy NT) a = wrap (diffTy NT) k)
    (hk : inRange (diffTy NT) k = true)
    (hprod : -(2 ^ 63 : Int) < k * (it.bl : Int) ∧ k * (it.bl : Int) < (2 ^ 63 : Int))
    (hq : inRange .ptr (it.ptr + k * (it.bl : Int)) = true) :
    plus NT BT it a
      = .ok ⟨it.ptr + k * (it.bl : Int), it.bl, (wrap NT ((it.index : Int) + k)).bits, it.end_⟩ := by
  unfold plus
  rw [hconv]
  exact addAssignD_eval NT BT hNT hBT it wf k hk hprod hq

/-- `it - a` = `it += -a` -/
theorem minus_eval (NT BT : CTy) (hNT : DimTy NT) (hBT : DimTy BT) (it : Iter) (wf : it.WF NT BT)
    (a : CVal) (k : Int) (hconv : conv (diffTy NT) a = wrap (diffTy NT) k)
    (hk : inRange (diffTy NT) k = true) (hnk : inRange (diffTy NT) (-k) = true)
    (hprod : -(2 ^ 63 : Int) < k * (it.bl : Int) ∧ k * (it.bl : Int) < (2 ^ 63 : Int))
    (hq : inRange .ptr (it.ptr - k * (it.bl : Int)) = true) :
    minus NT BT it a
      = .ok ⟨it.ptr - k * (it.bl : Int), it.bl, (wrap NT ((it.index : Int) - k)).bits, it.end_⟩ := by
  obtain ⟨v, hv, hc⟩ := some_of_map (diff_neg NT hNT k hk hnk)
  have hq' : inRange .ptr (it.ptr + -k * (it.bl : Int)) = true := by
    have : it.ptr + -k * (it.bl : Int) = it.ptr - k * (it.bl : Int) := by rw [Int.neg_mul]; omega
    rw [this]; exact hq
  have hprod' : -(2 ^ 63 : Int) < -k * (it.bl : Int) ∧ -k * (it.bl : Int) < (2 ^ 63 : Int) := by
    rw [Int.neg_mul]; omega
  have h := addAssignD_eval NT BT hNT hBT it wf (-k) hnk hprod' hq'
  simp only [minus, hconv, ra_iter_sub_assign_arg, Kernel.run, execStmts, mkEnv, CExpr.eval, Env.get?,
    String.reduceEq, if_true, Option.map, Option.bind, mk_mod_eq_wrap, wrap_bits_self, hv, hc, Outcome.bind_ok, h]
  have e1 : it.ptr + -k * (it.bl : Int) = it.ptr - k * (it.bl : Int) := by rw [Int.neg_mul]; omega
  have e2 : (it.index : Int) + -k = (it.index : Int) - k := by omega
  rw [e1, e2]

end Rt
end Sbepp

namespace Sbepp
open CVal Extracted
namespace Rt

theorem diff_eval (NT : CTy) (hNT : DimTy NT) (a b : Iter) (ha : a.index < 2 ^ NT.bits)
    (hb : b.index < 2 ^ NT.bits) :
    diff NT a b = .ok (wrap (diffTy NT) ((a.index : Int) - (b.index : Int))) := by
  obtain ⟨v, hv, hc⟩ := some_of_map (index_diff NT hNT a.index b.index ha hb)
  simp only [diff, ra_iter_diff, Kernel.run, execStmts, mkEnv, CExpr.eval, Env.get?, String.reduceEq, if_true,
    if_false, Option.map, mk_mod_eq_wrap, hv, hc, Outcome.bind_ok, Outcome.ofOption]

theorem compare_eval (NT : CTy) (hNT : DimTy NT) (op : String) (bop : BinOp)
    (hop : (op, bop) ∈ [("lt", BinOp.lt), ("le", .le), ("gt", .gt), ("ge", .ge), ("eq", .eq), ("ne", .ne)])
    (a b : Iter) (ha : a.index < 2 ^ NT.bits) (hb : b.index < 2 ^ NT.bits) :
    compare NT op a b = .ok (cmp bop (a.index : Int) (b.index : Int)) := by
  simp only [List.mem_cons, Prod.mk.injEq, List.not_mem_nil, or_false] at hop
  rcases hop with ⟨h1, h2⟩ | ⟨h1, h2⟩ | ⟨h1, h2⟩ | ⟨h1, h2⟩ | ⟨h1, h2⟩ | ⟨h1, h2⟩ <;> subst h1 <;> subst h2
  all_goals
    simp only [compare, cmpKernel, ra_iter_lt, ra_iter_le, ra_iter_gt, ra_iter_ge, ra_iter_eq, ra_iter_ne,
      Kernel.run, execStmts, mkEnv, CExpr.eval, Env.get?, String.reduceEq, if_true, if_false, Option.map,
      mk_mod_eq_wrap,
      index_cmp .lt rfl NT hNT a.index b.index ha hb, index_cmp .le rfl NT hNT a.index b.index ha hb,
      index_cmp .gt rfl NT hNT a.index b.index ha hb, index_cmp .ge rfl NT hNT a.index b.index ha hb,
      index_cmp .eq rfl NT hNT a.index b.index ha hb, index_cmp .ne rfl NT hNT a.index b.index ha hb,
      conv_bool_ofBool, Outcome.bind_ok, Outcome.pure_eq]
    generalize cmp _ (a.index : Int) (b.index : Int) = r
    cases r <;> rfl

end Rt
end Sbepp

namespace Sbepp
open CVal Extracted
namespace Rt

/-- a group view whose header fields hold values of their types and whose
    extent `[addr, addr + hdr + num·bl]` lies in the address space -/
structure Group.WF (NT BT : CTy) (g : Group) : Prop where
  addr_nonneg : 0 ≤ g.addr
  num_lt : g.num < 2 ^ NT.bits
  bl_lt : g.bl < 2 ^ BT.bits
  fits : g.addr + ((g.hdr + g.num * g.bl : Nat) : Int) < (2 ^ 63 : Int)
  end_ok : inRange .ptr g.end_ = true

/-- first byte after the header -/
def Group.dataStart (g : Group) : Int := g.addr + (g.hdr : Int)

theorem uncheckedBody_begin (NT BT : CTy) : uncheckedBody (flat_group_begin NT BT) = flat_group_begin NT BT := rfl
theorem uncheckedBody_end (NT BT : CTy) : uncheckedBody (flat_group_end NT BT) = flat_group_end NT BT := rfl

theorem wrap_zero_bits (t : CTy) : (wrap t 0).bits = 0 := by simp [wrap]

theorem Group.WF.hdr_le {NT BT : CTy} {g : Group} (_wf : g.WF NT BT) :
    ((g.hdr : Nat) : Int) ≤ ((g.hdr + g.num * g.bl : Nat) : Int) := by
  exact_mod_cast Nat.le_add_right _ _

theorem Group.WF.ext_lt {NT BT : CTy} {g : Group} (wf : g.WF NT BT) : g.hdr + g.num * g.bl < 2 ^ 63 := by
  have h1 := wf.fits
  have h2 := wf.addr_nonneg
  have : ((g.hdr + g.num * g.bl : Nat) : Int) < (2 ^ 63 : Int) := by omega
  exact_mod_cast this

theorem flatBegin_eval (NT BT : CTy) (hNT : DimTy NT) (hBT : DimTy BT) (g : Group) (wf : g.WF NT BT) :
    flatBegin NT BT false g = .ok ⟨g.dataStart, g.bl, 0, g.end_⟩ := by
  have hf := wf.fits
  have ha := wf.addr_nonneg
  have hle := wf.hdr_le
  have hh : g.hdr < 2 ^ 64 := by have := wf.ext_lt; omega
  have rp : inRange .ptr g.addr = true := inRange_ptr _ (by omega)
  have rq : inRange .ptr (g.addr + (g.hdr : Int)) = true := inRange_ptr _ (by omega)
  have hadd := ptr_add .u64 rfl g.addr g.hdr rp (inRange_u64 _ hh) rq
  have h0 : conv NT (wrap .i32 0) = wrap NT 0 := conv_wrap .i32 NT 0 (by decide) hNT.not_bool
  have c1 := conv_wrap .ptr .ptr _ rq (by decide)
  have c2 := conv_wrap .ptr .ptr _ wf.end_ok (by decide)
  have c3 := conv_wrap BT BT _ (inRange_nat BT hBT.unsigned g.bl wf.bl_lt) hBT.not_bool
  simp only [flatBegin, headerCheck_unchecked, Outcome.bind_ok, runK, Bool.false_eq_true, if_false, uncheckedBody_begin]
  simp only [flat_group_begin, Group.args, Kernel.run, execStmts, CStmt.exec, mkEnv, CExpr.eval, Env.get?,
    String.reduceEq, ↓reduceIte, mk_mod_eq_wrap, wrap_ptrBits, hadd, c1, c2, c3, h0]
  simp only [Outcome.bind_ok, readIter, getVar, Env.get?, String.reduceEq, ↓reduceIte, Outcome.ofOption,
    Outcome.pure_eq, toInt_wrap _ _ rq, toInt_wrap _ _ wf.end_ok, wrap_bits_nat BT g.bl wf.bl_lt, Group.dataStart,
    wrap_zero_bits]

theorem flatEnd_eval (NT BT : CTy) (hNT : DimTy NT) (hBT : DimTy BT) (g : Group) (wf : g.WF NT BT) :
    flatEnd NT BT false g = .ok ⟨g.dataStart + ((g.num * g.bl : Nat) : Int), g.bl, g.num, g.end_⟩ := by
  have hf := wf.fits
  have ha := wf.addr_nonneg
  have hle := wf.hdr_le
  have hext := wf.ext_lt
  have hh : g.hdr < 2 ^ 64 := by omega
  have hnl := hNT.pow_le
  have hnum := wf.num_lt
  have hmul : g.num * g.bl < 2 ^ 64 := by omega
  have hsum : g.hdr + g.num * g.bl < 2 ^ 64 := by omega
  have rn : inRange NT (g.num : Int) = true := inRange_nat NT hNT.unsigned g.num wf.num_lt
  have rp : inRange .ptr g.addr = true := inRange_ptr _ (by omega)
  have rq : inRange .ptr (g.addr + ((g.hdr + g.num * g.bl : Nat) : Int)) = true := inRange_ptr _ (by omega)
  have hadd := ptr_add .u64 rfl g.addr _ rp (inRange_u64 _ hsum) rq
  have c0 := conv_wrap NT .u64 _ rn (by decide)
  have c1 := conv_wrap .ptr .ptr _ rq (by decide)
  have c2 := conv_wrap .ptr .ptr _ wf.end_ok (by decide)
  have c3 := conv_wrap BT BT _ (inRange_nat BT hBT.unsigned g.bl wf.bl_lt) hBT.not_bool
  have c4 := conv_wrap NT NT _ rn hNT.not_bool
  have c5 := conv_wrap .u64 .u64 _ (inRange_u64 _ hsum) (by decide)
  simp only [flatEnd, headerCheck_unchecked, Outcome.bind_ok, runK, Bool.false_eq_true, if_false, uncheckedBody_end]
  simp only [flat_group_end, Group.args, Kernel.run, execStmts, CStmt.exec, mkEnv, CExpr.eval, Env.get?,
    String.reduceEq, ↓reduceIte, Option.map, mk_mod_eq_wrap, wrap_ptrBits, c0,
    mul_u64 BT hBT g.num g.bl (by omega) wf.bl_lt, add_u64 g.hdr _ hh hmul, c5, hadd, c1, c2, c3, c4]
  simp only [Outcome.bind_ok, readIter, getVar, Env.get?, String.reduceEq, ↓reduceIte, Outcome.ofOption,
    Outcome.pure_eq, toInt_wrap _ _ rq, toInt_wrap _ _ wf.end_ok, wrap_bits_nat BT g.bl wf.bl_lt,
    wrap_bits_nat NT g.num wf.num_lt, Group.dataStart]
  have e : g.addr + ((g.hdr + g.num * g.bl : Nat) : Int) = g.addr + (g.hdr : Int) + ((g.num * g.bl : Nat) : Int) := by
    rw [Int.natCast_add]; omega
  rw [e]

end Rt
end Sbepp

namespace Sbepp
open CVal Extracted
namespace Rt

theorem uncheckedBody_subscript (NT BT : CTy) :
    uncheckedBody (flat_group_subscript NT BT)
      = { flat_group_subscript NT BT with body := (flat_group_subscript NT BT).body.tail } := rfl

/-- `g[pos]` for an argument whose conversion to `size_type` is `k`, the address
    of entry `k` being an address -/
theorem flatSubscript_eval (NT BT : CTy) (hNT : DimTy NT) (hBT : DimTy BT) (g : Group) (wf : g.WF NT BT)
    (pos : CVal) (k : Nat) (hconv : conv NT pos = wrap NT (k : Int)) (hk : k < 2 ^ NT.bits)
    (hfit : g.dataStart + ((k * g.bl : Nat) : Int) < (2 ^ 63 : Int)) :
    flatSubscript NT BT false g pos = .ok (g.dataStart + ((k * g.bl : Nat) : Int)) := by
  have ha := wf.addr_nonneg
  have hle := wf.hdr_le
  have hext := wf.ext_lt
  have hh : g.hdr < 2 ^ 64 := by omega
  have hnl := hNT.pow_le
  have hkb : (0 : Int) ≤ ((k * g.bl : Nat) : Int) := Int.natCast_nonneg _
  have hhn : (0 : Int) ≤ (g.hdr : Int) := Int.natCast_nonneg _
  unfold Group.dataStart at hfit
  have hmul : k * g.bl < 2 ^ 64 := by
    have : ((k * g.bl : Nat) : Int) < (2 ^ 63 : Int) := by omega
    have : k * g.bl < 2 ^ 63 := by exact_mod_cast this
    omega
  have rk : inRange NT (k : Int) = true := inRange_nat NT hNT.unsigned k hk
  have rp : inRange .ptr g.addr = true := inRange_ptr _ (by omega)
  have rq1 : inRange .ptr (g.addr + (g.hdr : Int)) = true := inRange_ptr _ (by omega)
  have rq : inRange .ptr (g.addr + (g.hdr : Int) + ((k * g.bl : Nat) : Int)) = true := inRange_ptr _ (by omega)
  have hadd1 := ptr_add .u64 rfl g.addr g.hdr rp (inRange_u64 _ hh) rq1
  have hadd2 := ptr_add .u64 rfl (g.addr + (g.hdr : Int)) _ rq1 (inRange_u64 _ hmul) rq
  have c0 := conv_wrap NT .u64 _ rk (by decide)
  have c1 := conv_wrap .ptr .ptr _ rq (by decide)
  have c2 := conv_wrap .ptr .ptr _ wf.end_ok (by decide)
  have c3 := conv_wrap BT BT _ (inRange_nat BT hBT.unsigned g.bl wf.bl_lt) hBT.not_bool
  have c4 := conv_wrap NT NT _ rk hNT.not_bool
  simp only [flatSubscript, headerCheck_unchecked, Outcome.bind_ok, runK, Bool.false_eq_true, if_false,
    uncheckedBody_subscript, hconv]
  simp only [flat_group_subscript, List.tail, Group.args, List.cons_append, List.nil_append, Kernel.run, execStmts,
    CStmt.exec, mkEnv, CExpr.eval, Env.get?, String.reduceEq, ↓reduceIte, Option.map, mk_mod_eq_wrap, wrap_ptrBits,
    wrap_bits_self, c0, mul_u64 BT hBT k g.bl (by omega) wf.bl_lt, hadd1, hadd2, c1, c2, c3, c4]
  simp only [Outcome.bind_ok, readIter, getVar, Env.get?, String.reduceEq, ↓reduceIte, Outcome.ofOption,
    Outcome.pure_eq, toInt_wrap _ _ rq, deref, Group.dataStart]

/-- `k` times `++` -/
theorem incN_eval (NT BT : CTy) (hNT : DimTy NT) (hBT : DimTy BT) (k : Nat) :
    ∀ (it : Iter), it.WF NT BT → it.index + k < 2 ^ NT.bits →
      0 ≤ it.ptr → it.ptr + ((k * it.bl : Nat) : Int) < (2 ^ 63 : Int) →
      incN NT BT false k it = .ok ⟨it.ptr + ((k * it.bl : Nat) : Int), it.bl, it.index + k, it.end_⟩ := by
  induction k with
  | zero =>
    intro it _ _ _ _
    simp [incN]
  | succ j ih =>
    intro it wf hidx hp0 hfit
    have hb0 : (0 : Int) ≤ (it.bl : Int) := Int.natCast_nonneg _
    have hsplit : (((j + 1) * it.bl : Nat) : Int) = (it.bl : Int) + ((j * it.bl : Nat) : Int) := by
      rw [Nat.succ_mul]; simp only [Int.natCast_add]; omega
    have hj0 : (0 : Int) ≤ ((j * it.bl : Nat) : Int) := Int.natCast_nonneg _
    have rq : inRange .ptr (it.ptr + (it.bl : Int)) = true := inRange_ptr _ (by omega)
    have h1 := inc_eval NT BT hNT hBT it wf rq
    have hidx1 : (wrap NT ((it.index : Int) + 1)).bits = it.index + 1 := by
      have : ((it.index : Int) + 1) = ((it.index + 1 : Nat) : Int) := by simp
      rw [this, wrap_bits_nat NT _ (by omega)]
    rw [hidx1] at h1
    have wf' : Iter.WF NT BT ⟨it.ptr + (it.bl : Int), it.bl, it.index + 1, it.end_⟩ :=
      ⟨wf.bl_lt, by show it.index + 1 < _; omega, rq⟩
    have h2 := ih _ wf' (by show it.index + 1 + j < _; omega) (by show 0 ≤ it.ptr + (it.bl : Int); omega)
      (by show it.ptr + (it.bl : Int) + ((j * it.bl : Nat) : Int) < _; omega)
    simp only [incN, h1, Outcome.bind_ok, h2]
    congr 2
    · omega
    · omega

end Rt
end Sbepp

namespace Sbepp
open CVal Extracted
namespace Rt

theorem flatFront_eval (NT BT : CTy) (hNT : DimTy NT) (hBT : DimTy BT) (g : Group) (wf : g.WF NT BT) :
    flatFront NT BT false g = .ok g.dataStart := by
  simp only [flatFront, headerCheck_unchecked, assertNotEmpty, Bool.false_and, Bool.false_eq_true, if_false,
    Outcome.bind_ok, flatBegin_eval NT BT hNT hBT g wf, deref, Outcome.pure_eq]

theorem Group.WF.end_iter_wf {NT BT : CTy} {g : Group} (wf : g.WF NT BT) :
    Iter.WF NT BT ⟨g.dataStart + ((g.num * g.bl : Nat) : Int), g.bl, g.num, g.end_⟩ := by
  refine ⟨wf.bl_lt, wf.num_lt, ?_⟩
  have := wf.fits
  have := wf.addr_nonneg
  have : (0 : Int) ≤ ((g.num * g.bl : Nat) : Int) := Int.natCast_nonneg _
  have : (0 : Int) ≤ (g.hdr : Int) := Int.natCast_nonneg _
  unfold Group.dataStart
  simp only [Int.natCast_add] at *
  exact inRange_ptr _ (by omega)

/-- `back()`: the entry before the end -/
theorem flatBack_eval (NT BT : CTy) (hNT : DimTy NT) (hBT : DimTy BT) (g : Group) (wf : g.WF NT BT)
    (hne : 0 < g.num) :
    flatBack NT BT false g = .ok (g.dataStart + (((g.num - 1) * g.bl : Nat) : Int)) := by
  have hsplit : g.num * g.bl = (g.num - 1) * g.bl + g.bl := by
    have : g.num = (g.num - 1) + 1 := by omega
    conv => lhs; rw [this, Nat.succ_mul]
  have hq : inRange .ptr (g.dataStart + ((g.num * g.bl : Nat) : Int) - (g.bl : Int)) = true := by
    have := wf.fits
    have := wf.addr_nonneg
    have : (0 : Int) ≤ (((g.num - 1) * g.bl : Nat) : Int) := Int.natCast_nonneg _
    have : (0 : Int) ≤ (g.hdr : Int) := Int.natCast_nonneg _
    have : (0 : Int) ≤ (g.bl : Int) := Int.natCast_nonneg _
    unfold Group.dataStart
    rw [hsplit] at *
    simp only [Int.natCast_add] at *
    exact inRange_ptr _ (by omega)
  have hd := dec_eval NT BT hNT hBT _ wf.end_iter_wf hq
  simp only [flatBack, headerCheck_unchecked, assertNotEmpty, Bool.false_and, Bool.false_eq_true, if_false,
    Outcome.bind_ok, flatEnd_eval NT BT hNT hBT g wf, hd, deref, Outcome.pure_eq]
  congr 1
  rw [hsplit]
  simp only [Int.natCast_add]
  omega

end Rt
end Sbepp

namespace Sbepp
open CVal Extracted
namespace Rt

structure FwdIter.WF (NT : CTy) (it : FwdIter) : Prop where
  index_lt : it.index < 2 ^ NT.bits
  ptr_ok : inRange .ptr it.ptr = true

theorem uncheckedBody_nested_header :
    uncheckedBody nested_group_header_check = { nested_group_header_check with body := [] } := rfl
theorem uncheckedBody_nbegin (NT BT : CTy) :
    uncheckedBody (nested_group_begin NT BT) = nested_group_begin NT BT := rfl
theorem uncheckedBody_nend (NT BT : CTy) :
    uncheckedBody (nested_group_end NT BT) = nested_group_end NT BT := rfl

theorem nestedHeader_unchecked (g : Group) :
    runK nested_group_header_check false [ptrBits g.addr, ptrBits g.end_, g.hdr]
      = .ok ⟨mkEnv nested_group_header_check.params [ptrBits g.addr, ptrBits g.end_, g.hdr], none⟩ := by
  unfold runK
  rw [if_neg (by decide), uncheckedBody_nested_header]
  rfl

theorem nestedBegin_eval (NT BT : CTy) (hNT : DimTy NT) (hBT : DimTy BT) (g : Group) (wf : g.WF NT BT) :
    nestedBegin NT BT false g = .ok ⟨g.dataStart, 0, g.bl, g.end_⟩ := by
  have hf := wf.fits
  have ha := wf.addr_nonneg
  have hle := wf.hdr_le
  have hh : g.hdr < 2 ^ 64 := by have := wf.ext_lt; omega
  have rp : inRange .ptr g.addr = true := inRange_ptr _ (by omega)
  have rq : inRange .ptr (g.addr + (g.hdr : Int)) = true := inRange_ptr _ (by omega)
  have hadd := ptr_add .u64 rfl g.addr g.hdr rp (inRange_u64 _ hh) rq
  have h0 : conv NT (wrap .i32 0) = wrap NT 0 := conv_wrap .i32 NT 0 (by decide) hNT.not_bool
  have c1 := conv_wrap .ptr .ptr _ rq (by decide)
  have c2 := conv_wrap .ptr .ptr _ wf.end_ok (by decide)
  have c3 := conv_wrap BT BT _ (inRange_nat BT hBT.unsigned g.bl wf.bl_lt) hBT.not_bool
  simp only [nestedBegin, nestedHeader_unchecked, Outcome.bind_ok]
  simp only [runK, Bool.false_eq_true, if_false, uncheckedBody_nbegin]
  simp only [nested_group_begin, Group.args, Kernel.run, execStmts, CStmt.exec, mkEnv, CExpr.eval, Env.get?,
    String.reduceEq, ↓reduceIte, mk_mod_eq_wrap, wrap_ptrBits, hadd, c1, c2, c3, h0]
  simp only [Outcome.bind_ok, readFwd, getVar, Env.get?, String.reduceEq, ↓reduceIte, Outcome.ofOption,
    Outcome.pure_eq, toInt_wrap _ _ rq, toInt_wrap _ _ wf.end_ok, wrap_bits_nat BT g.bl wf.bl_lt, Group.dataStart,
    wrap_zero_bits]

theorem nestedEnd_eval (NT BT : CTy) (hNT : DimTy NT) (hBT : DimTy BT) (g : Group) (wf : g.WF NT BT) :
    nestedEnd NT BT false g = .ok ⟨0, g.num, g.bl, g.end_⟩ := by
  have rn : inRange NT (g.num : Int) = true := inRange_nat NT hNT.unsigned g.num wf.num_lt
  have c1 : conv .ptr (wrap .ptr 0) = wrap .ptr 0 := conv_wrap .ptr .ptr 0 (by decide) (by decide)
  have c2 := conv_wrap .ptr .ptr _ wf.end_ok (by decide)
  have c3 := conv_wrap BT BT _ (inRange_nat BT hBT.unsigned g.bl wf.bl_lt) hBT.not_bool
  have c4 := conv_wrap NT NT _ rn hNT.not_bool
  have z : (wrap .ptr 0).toInt = 0 := toInt_wrap .ptr 0 (by decide)
  simp only [nestedEnd, nestedHeader_unchecked, Outcome.bind_ok]
  simp only [runK, Bool.false_eq_true, if_false, uncheckedBody_nend]
  simp only [nested_group_end, Group.args, Kernel.run, execStmts, CStmt.exec, mkEnv, CExpr.eval, Env.get?,
    String.reduceEq, ↓reduceIte, mk_mod_eq_wrap, wrap_ptrBits, c1, c2, c3, c4]
  simp only [Outcome.bind_ok, readFwd, getVar, Env.get?, String.reduceEq, ↓reduceIte, Outcome.ofOption,
    Outcome.pure_eq, z, toInt_wrap _ _ wf.end_ok, wrap_bits_nat BT g.bl wf.bl_lt, wrap_bits_nat NT g.num wf.num_lt]

theorem fwdInc_eval (NT : CTy) (hNT : DimTy NT) (it : FwdIter) (wf : it.WF NT) (sz : Nat) (hsz : sz < 2 ^ 64)
    (hq : inRange .ptr (it.ptr + (sz : Int)) = true) :
    fwdInc NT false it sz = .ok ⟨it.ptr + (sz : Int), (wrap NT ((it.index : Int) + 1)).bits, it.bl, it.end_⟩ := by
  have hadd := ptr_add .u64 rfl it.ptr _ wf.ptr_ok (inRange_u64 sz hsz) hq
  obtain ⟨v, hv, hc⟩ := some_of_map (index_step .add (Or.inl rfl) NT .i32 hNT it.index 1 wf.index_lt
    (inRange_i32 1 (by omega)) rfl hNT.common_int (fun _ => ⟨inRange_i32 1 (by omega), by omega, by omega⟩))
  simp only [if_true] at hc
  simp only [fwdInc, Bool.false_eq_true, if_false, fwd_iter_inc, Kernel.run, execStmts, CStmt.exec, mkEnv,
    CExpr.eval, Env.get?, Env.set, String.reduceEq, ↓reduceIte,
    mk_mod_eq_wrap, wrap_ptrBits, hadd, wrap_ty, conv_wrap .ptr .ptr _ hq (by decide), hv, hc]
  simp only [Outcome.bind_ok, getVar, Env.get?, String.reduceEq, ↓reduceIte, Outcome.ofOption,
    Outcome.pure_eq, toInt_wrap _ _ hq]

theorem fwdNe_eval (NT : CTy) (hNT : DimTy NT) (a b : FwdIter) (ha : a.index < 2 ^ NT.bits)
    (hb : b.index < 2 ^ NT.bits) :
    fwdNe NT a b = .ok (decide (a.index ≠ b.index)) := by
  simp only [fwdNe, fwd_iter_ne, Kernel.run, execStmts, mkEnv, CExpr.eval, Env.get?, String.reduceEq, ↓reduceIte,
    Option.map, mk_mod_eq_wrap, index_cmp .ne rfl NT hNT a.index b.index ha hb, conv_bool_ofBool, Outcome.bind_ok,
    Outcome.pure_eq, cmp]
  by_cases h : a.index = b.index
  · simp [h, ofBool, CVal.isTrue]
  · have : ¬ ((a.index : Int) = (b.index : Int)) := by omega
    simp [h, this, ofBool, CVal.isTrue]

end Rt
end Sbepp

namespace Sbepp
open CVal Extracted
open Sbepp.Spec.Group (chain)
namespace Rt

/-- all entry starts up to the one-past-the-last are addresses -/
def ChainFits (d : Int) (esize : Int → Nat) (n : Nat) : Prop :=
  ∀ i, i ≤ n → 0 ≤ chain d esize i ∧ chain d esize i < (2 ^ 63 : Int)

theorem ChainFits.esize_lt {d : Int} {esize : Int → Nat} {n : Nat} (h : ChainFits d esize n) (k : Nat)
    (hk : k < n) : esize (chain d esize k) < 2 ^ 64 := by
  have h1 := h k (by omega)
  have h2 := h (k + 1) (by omega)
  simp only [chain] at h2
  have : ((esize (chain d esize k) : Nat) : Int) < (2 ^ 63 : Int) := by omega
  have : esize (chain d esize k) < 2 ^ 63 := by exact_mod_cast this
  omega

theorem fwdWalk_eval (NT : CTy) (hNT : DimTy NT) (d : Int) (esize : Int → Nat) (n bl : Nat) (en : Int)
    (hn : n < 2 ^ NT.bits) (hfit : ChainFits d esize n) (e : FwdIter) (he : e.index = n) :
    ∀ (fuel k : Nat) (acc : List Int), k ≤ n → n - k ≤ fuel →
      fwdWalk NT false esize e fuel ⟨chain d esize k, k, bl, en⟩ acc
        = .ok (acc.reverse ++ (List.range' k (n - k)).map (chain d esize), ⟨chain d esize n, n, bl, en⟩) := by
  intro fuel
  induction fuel with
  | zero =>
    intro k acc hk hf
    have : k = n := by omega
    subst this
    simp [fwdWalk]
  | succ f ih =>
    intro k acc hk hf
    have hne := fwdNe_eval NT hNT ⟨chain d esize k, k, bl, en⟩ e (by show k < _; omega) (by rw [he]; exact hn)
    by_cases hkn : k = n
    · subst hkn
      simp only [fwdWalk, hne, he, Outcome.bind_ok, ne_eq, not_true_eq_false, decide_false, Bool.false_eq_true,
        if_false, Outcome.pure_eq, Nat.sub_self, List.range'_zero, List.map_nil, List.append_nil]
    · have hlt : k < n := by omega
      have hk1 := hfit k (by omega)
      have hk2 := hfit (k + 1) (by omega)
      have wfk : FwdIter.WF NT ⟨chain d esize k, k, bl, en⟩ := ⟨by show k < _; omega, by show inRange .ptr (chain d esize k) = true; exact inRange_ptr _ (by omega)⟩
      have hinc := fwdInc_eval NT hNT ⟨chain d esize k, k, bl, en⟩ wfk (esize (chain d esize k))
        (hfit.esize_lt k hlt) (by
          show inRange .ptr (chain d esize k + (esize (chain d esize k) : Int)) = true
          simp only [chain] at hk2; exact inRange_ptr _ (by omega))
      have hidx : (wrap NT ((k : Int) + 1)).bits = k + 1 := by
        have : ((k : Int) + 1) = ((k + 1 : Nat) : Int) := by simp
        rw [this, wrap_bits_nat NT _ (by omega)]
      simp only [hidx] at hinc
      have hrec := ih (k + 1) (chain d esize k :: acc) (by omega) (by omega)
      have hr : List.range' k (n - k) = k :: List.range' (k + 1) (n - (k + 1)) := by
        have : n - k = (n - (k + 1)) + 1 := by omega
        rw [this, List.range'_succ]
      simp only [fwdWalk, hne, he, Outcome.bind_ok, ne_eq, hkn, not_false_eq_true, decide_true, if_true, hinc]
      simp only [chain] at hrec
      rw [hrec, hr]
      simp [chain]

theorem nestedEntries_eval (NT BT : CTy) (hNT : DimTy NT) (hBT : DimTy BT) (g : Group) (wf : g.WF NT BT)
    (esize : Int → Nat) (hfit : ChainFits g.dataStart esize g.num) (fuel : Nat) (hfuel : g.num ≤ fuel) :
    nestedEntries NT BT false g esize fuel = .ok (Spec.Group.starts g.dataStart esize g.num) := by
  have hw := fwdWalk_eval NT hNT g.dataStart esize g.num g.bl g.end_ wf.num_lt hfit ⟨0, g.num, g.bl, g.end_⟩ rfl
    fuel 0 [] (by omega) (by omega)
  simp only [chain] at hw
  simp only [nestedEntries, nestedBegin_eval NT BT hNT hBT g wf, nestedEnd_eval NT BT hNT hBT g wf,
    Outcome.bind_ok, hw, Outcome.pure_eq, List.reverse_nil, List.nil_append, Nat.sub_zero, Spec.Group.starts,
    List.range_eq_range']

end Rt
end Sbepp

namespace Sbepp
open CVal Extracted
open Sbepp.Spec.Group (chain)
namespace Rt

theorem sizeStep_eval (s e : Nat) (hs : s < 2 ^ 64) (he : e < 2 ^ 64) (hse : s + e < 2 ^ 64) :
    (do let r ← nested_size_step.run [s, e]
        let v ← getVar r.env "size"
        pure v.bits : Outcome Nat) = .ok (s + e) := by
  simp only [nested_size_step, Kernel.run, execStmts, CStmt.exec, mkEnv, CExpr.eval, Env.get?, Env.set,
    String.reduceEq, ↓reduceIte, mk_mod_eq_wrap, add_u64 s e hs he, wrap_ty,
    conv_wrap .u64 .u64 _ (inRange_u64 _ hse) (by decide), Outcome.bind_ok, getVar, Outcome.ofOption,
    Outcome.pure_eq, wrap_bits_nat .u64 _ hse]

theorem sizeFold_eval (d addr : Int) (esize : Int → Nat) (n : Nat) (hfit : ChainFits d esize n)
    (haddr : 0 ≤ addr ∧ addr ≤ d) :
    ∀ (m k s : Nat), k + m ≤ n → (s : Int) = chain d esize k - addr →
      (((List.range' k m).map (chain d esize)).foldlM (fun (size : Nat) a => do
          let r ← nested_size_step.run [size, esize a]
          let v ← getVar r.env "size"
          pure v.bits) s : Outcome Nat)
        = .ok (chain d esize (k + m) - addr).toNat := by
  intro m
  induction m with
  | zero =>
    intro k s _ hs
    simp only [List.range'_zero, List.map_nil, List.foldlM_nil, Nat.add_zero, Outcome.pure_eq]
    congr 1; omega
  | succ j ih =>
    intro k s hk hs
    have h1 := hfit k (by omega)
    have h2 := hfit (k + 1) (by omega)
    have he := hfit.esize_lt k (by omega)
    have h2' := h2
    simp only [chain] at h2'
    have hs64 : s < 2 ^ 64 := by omega
    have hse : s + esize (chain d esize k) < 2 ^ 64 := by omega
    have hstep := sizeStep_eval s (esize (chain d esize k)) hs64 he hse
    have hrec := ih (k + 1) (s + esize (chain d esize k)) (by omega) (by simp only [chain, Int.natCast_add]; omega)
    rw [List.range'_succ, List.map_cons, List.foldlM_cons, hstep, Outcome.bind_ok, hrec]
    have : k + 1 + j = k + (j + 1) := by omega
    rw [this]

theorem nestedSizeBytes_eval (NT BT : CTy) (hNT : DimTy NT) (hBT : DimTy BT) (g : Group) (wf : g.WF NT BT)
    (esize : Int → Nat) (hfit : ChainFits g.dataStart esize g.num) (fuel : Nat) (hfuel : g.num ≤ fuel) :
    nestedSizeBytes NT BT false g esize fuel
      = .ok (Spec.Group.nestedSize g.addr g.hdr esize g.num).toNat := by
  have hh : g.hdr < 2 ^ 64 := by have := wf.ext_lt; omega
  have hf := sizeFold_eval g.dataStart g.addr esize g.num hfit
    ⟨wf.addr_nonneg, by unfold Group.dataStart; omega⟩ g.num 0 g.hdr (by omega)
    (by simp only [chain, Group.dataStart]; omega)
  simp only [nestedSizeBytes, nestedEntries_eval NT BT hNT hBT g wf esize hfit fuel hfuel, Outcome.bind_ok,
    Spec.Group.starts, List.range_eq_range', Nat.mod_eq_of_lt hh, Spec.Group.nestedSize]
  rw [hf]
  simp [Group.dataStart]

end Rt
end Sbepp

namespace Sbepp
open CVal Extracted
namespace Rt

theorem leBytes_eq_putLE (w v : Nat) : leBytes w v = Spec.Group.putLE w v := by
  induction w generalizing v with
  | zero => rfl
  | succ k ih => simp [leBytes, Spec.Group.putLE, ih]

theorem valueBytes_eq_putBytes (be : Bool) (w v : Nat) : valueBytes be w v = Spec.Group.putBytes be w v := by
  simp [valueBytes, Spec.Group.putBytes, leBytes_eq_putLE]

theorem leBytes_length (w v : Nat) : (leBytes w v).length = w := by
  induction w generalizing v with
  | zero => rfl
  | succ k ih => simp [leBytes, ih]

theorem valueBytes_length (be : Bool) (w v : Nat) : (valueBytes be w v).length = w := by
  cases be <;> simp [valueBytes, leBytes_length]

theorem writeAt_frame (buf : List Nat) (off : Nat) (bs : List Nat) (h : off + bs.length ≤ buf.length) :
    ∃ buf', writeAt buf off bs = some buf' ∧ Spec.Group.FrameOutside buf buf' off bs.length
      ∧ Spec.Group.slice buf' off bs.length = bs := by
  refine ⟨buf.take off ++ bs ++ buf.drop (off + bs.length), by simp [writeAt, h], ⟨?_, ?_⟩, ?_⟩
  · simp only [List.length_append, List.length_take, List.length_drop]; omega
  · intro i hi
    rcases hi with hi | hi
    · rw [List.append_assoc, List.getElem?_append_left (by simp only [List.length_take]; omega)]
      rw [List.getElem?_take_of_lt hi]
    · have hlen : (buf.take off ++ bs).length = off + bs.length := by
        simp only [List.length_append, List.length_take]; omega
      rw [List.getElem?_append_right (by omega), hlen, List.getElem?_drop]
      congr 1; omega
  · unfold Spec.Group.slice
    have htl : (buf.take off).length = off := by simp only [List.length_take]; omega
    rw [List.append_assoc, List.drop_left' htl, List.take_left' rfl]

end Rt
end Sbepp
