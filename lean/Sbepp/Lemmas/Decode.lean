/-
  Decoding theorem: on any buffer that contains a well-formed image (any wire
  block lengths ≥ compiled, any nesting), what the runtime model observes by
  walking the buffer (`modelL`: every leaf, every group's count and size, every
  entry's size, every data payload) is exactly what the value tree says
  (`specL`).
-/
import Sbepp.Lemmas.Walk
import Sbepp.Spec.Observe

namespace Sbepp.Observe
open Sbepp Sbepp.Schema

mutual
  /-- leaves lie inside the compiled block, at every level -/
  def WFL : NLevel → Prop
    | .mk bl lv gs _ => (∀ l ∈ lv, l.off + l.size ≤ bl) ∧ WFGs gs
  def WFGs : List NGroup → Prop
    | [] => True
    | g :: gs => WFG g ∧ WFGs gs
  def WFG : NGroup → Prop
    | .mk _ _ l => WFL l
end

theorem eraseDs_conf (ds : List NData) : (ds.map (fun d => (⟨d.lenSize⟩ : DataL))).length = ds.length := by simp

theorem decDs (bo : ByteOrder) (pfx : String) (ds : List NData) (dvs : List (List Nat)) (buf pre post : List Nat)
    (hc : ConfDs (ds.map (fun d => (⟨d.lenSize⟩ : DataL))) dvs)
    (hbuf : buf = pre ++ flattenDs bo (ds.map (fun d => (⟨d.lenSize⟩ : DataL))) dvs ++ post) :
    modelDs bo buf pfx ds pre.length = dataObs pfx ds dvs := by
  induction ds generalizing dvs pre with
  | nil => cases dvs <;> simp [modelDs, dataObs]
  | cons d ds ih =>
    cases dvs with
    | nil => simp [ConfDs] at hc
    | cons p ps =>
      simp only [List.map_cons, ConfDs] at hc
      obtain ⟨⟨hlen, _⟩, hrest⟩ := hc
      simp only [modelDs, dataObs]
      have hb1 : buf = pre ++ put bo d.lenSize p.length ++ (p ++ flattenDs bo (ds.map (fun d => (⟨d.lenSize⟩ : DataL))) ps ++ post) := by
        rw [hbuf]; simp [flattenDs, flattenD, List.append_assoc]
      have hrd : rd bo buf pre.length d.lenSize = p.length := by
        rw [hb1]; exact rd_put bo pre _ d.lenSize p.length hlen
      rw [hrd]
      have hb2 : buf = (pre ++ put bo d.lenSize p.length) ++ p ++ (flattenDs bo (ds.map (fun d => (⟨d.lenSize⟩ : DataL))) ps ++ post) := by
        rw [hbuf]; simp [flattenDs, flattenD, List.append_assoc]
      have hsl : slice buf (pre.length + d.lenSize) p.length = p := by
        have := slice_mid (pre ++ put bo d.lenSize p.length) p (flattenDs bo (ds.map (fun d => (⟨d.lenSize⟩ : DataL))) ps ++ post) 0 p.length (by omega)
        simp only [List.length_append, put_length, Nat.add_zero] at this
        rw [hb2, this]; simp [slice]
      rw [hsl]
      have hb3 : buf = (pre ++ put bo d.lenSize p.length ++ p) ++ flattenDs bo (ds.map (fun d => (⟨d.lenSize⟩ : DataL))) ps ++ post := by
        rw [hbuf]; simp [flattenDs, flattenD, List.append_assoc]
      have := ih ps (pre ++ put bo d.lenSize p.length ++ p) hrest hb3
      simp only [List.length_append, put_length] at this
      rw [this]

theorem range_succ_flatMap {α : Type} (n : Nat) (F : Nat → List α) :
    (List.range (n + 1)).flatMap F = F 0 ++ (List.range n).flatMap (fun i => F (i + 1)) := by
  rw [List.range_succ_eq_map]
  simp [List.flatMap_cons, List.flatMap_map]

theorem iter_succ {α : Type} (f : α → α) (n : Nat) (a : α) : iter f (n + 1) a = iter f n (f a) := rfl

mutual
  theorem decL (bo : ByteOrder) (pfx : String) (l : NLevel) (v : LVal) (wbl : Nat) (buf pre post : List Nat)
      (hw : WFL l) (hc : ConfL bo l.erase v wbl) (hbuf : buf = pre ++ flattenL bo l.erase v ++ post) :
      modelL bo buf pfx l pre.length wbl = specL bo pfx l v := by
    match l, v with
    | .mk bl lv gs ds, .mk block gvs dvs =>
      simp only [NLevel.erase, ConfL] at hc
      obtain ⟨hblk, hle, hgs, hds⟩ := hc
      obtain ⟨hlv, hwgs⟩ := hw
      simp only [modelL, specL]
      have hb0 : buf = pre ++ block ++ (flattenGs bo (eraseGs gs) gvs ++ flattenDs bo (ds.map (fun d => (⟨d.lenSize⟩ : DataL))) dvs ++ post) := by
        rw [hbuf]; simp [NLevel.erase, flattenL, List.append_assoc]
      have h1 : lv.map (fun l => leafObs bo pfx l (slice buf (pre.length + l.off) l.size))
          = lv.map (fun l => leafObs bo pfx l (slice block l.off l.size)) := by
        apply List.map_congr_left
        intro lf hlf
        have := hlv lf hlf
        rw [hb0, slice_mid pre block _ lf.off lf.size (by omega)]
      rw [h1]
      have hb1 : buf = (pre ++ block) ++ flattenGs bo (eraseGs gs) gvs ++ (flattenDs bo (ds.map (fun d => (⟨d.lenSize⟩ : DataL))) dvs ++ post) := by
        rw [hbuf]; simp [NLevel.erase, flattenL, List.append_assoc]
      have h2 := decGs bo pfx gs gvs buf (pre ++ block) _ hwgs hgs hb1
      simp only [List.length_append, hblk] at h2
      rw [h2]
      have h3 := endGs_spec bo (eraseGs gs) gvs buf (pre ++ block) _ hgs hb1
      simp only [List.length_append, hblk] at h3
      rw [h3]
      have hb2 : buf = (pre ++ block ++ flattenGs bo (eraseGs gs) gvs) ++ flattenDs bo (ds.map (fun d => (⟨d.lenSize⟩ : DataL))) dvs ++ post := by
        rw [hbuf]; simp [NLevel.erase, flattenL, List.append_assoc]
      have h4 := decDs bo pfx ds dvs buf (pre ++ block ++ flattenGs bo (eraseGs gs) gvs) post hds hb2
      simp only [List.length_append, hblk] at h4
      rw [h4]
  theorem decGs (bo : ByteOrder) (pfx : String) (gs : List NGroup) (gvs : List GVal) (buf pre post : List Nat)
      (hw : WFGs gs) (hc : ConfGs bo (eraseGs gs) gvs) (hbuf : buf = pre ++ flattenGs bo (eraseGs gs) gvs ++ post) :
      modelGs bo buf pfx gs pre.length = specGs bo pfx gs gvs := by
    match gs, gvs with
    | [], [] => simp [modelGs, specGs]
    | [], _ :: _ => simp [eraseGs, ConfGs] at hc
    | _ :: _, [] => simp [eraseGs, ConfGs] at hc
    | g :: gs, v :: vs =>
      simp only [eraseGs, ConfGs] at hc
      obtain ⟨hg, hrest⟩ := hc
      obtain ⟨hwg, hwgs⟩ := hw
      simp only [modelGs, specGs]
      have hb1 : buf = pre ++ flattenG bo g.erase v ++ (flattenGs bo (eraseGs gs) vs ++ post) := by
        rw [hbuf]; simp [eraseGs, flattenGs, List.append_assoc]
      rw [decG bo pfx g v buf pre _ hwg hg hb1]
      rw [endG_spec bo g.erase v buf pre _ hg hb1]
      have hb2 : buf = (pre ++ flattenG bo g.erase v) ++ flattenGs bo (eraseGs gs) vs ++ post := by
        rw [hbuf]; simp [eraseGs, flattenGs, List.append_assoc]
      have := decGs bo pfx gs vs buf (pre ++ flattenG bo g.erase v) post hwgs hrest hb2
      simp only [List.length_append] at this
      rw [this]
  theorem decG (bo : ByteOrder) (pfx : String) (g : NGroup) (v : GVal) (buf pre post : List Nat)
      (hw : WFG g) (hc : ConfG bo g.erase v) (hbuf : buf = pre ++ flattenG bo g.erase v ++ post) :
      modelG bo buf pfx g pre.length = specG bo pfx g v := by
    match g, v with
    | .mk name dim l, .mk hdr es =>
      have hend := endG_spec bo (NGroup.mk name dim l).erase (.mk hdr es) buf pre post hc hbuf
      simp only [NGroup.erase, ConfG] at hc
      obtain ⟨hlen, hbl, hnum, hn, hes⟩ := hc
      simp only [modelG, specG]
      have hb1 : buf = pre ++ hdr ++ (flattenEs bo l.erase es ++ post) := by
        rw [hbuf]; simp [NGroup.erase, flattenG, List.append_assoc]
      have hrn : rd bo buf (pre.length + dim.dim.numOff) dim.dim.numSize = es.length := by
        rw [hb1, rd_mid bo pre hdr _ dim.dim.numOff dim.dim.numSize (by omega), hn]
      have hrb : rd bo buf (pre.length + dim.dim.blOff) dim.dim.blSize = get bo (slice hdr dim.dim.blOff dim.dim.blSize) := by
        rw [hb1, rd_mid bo pre hdr _ dim.dim.blOff dim.dim.blSize (by omega)]
      simp only [NGroup.erase] at hend
      rw [hrn, hrb, hend]
      have hsz : pre.length + (flattenG bo (Group.mk dim.dim l.erase) (GVal.mk hdr es)).length - pre.length
          = hdr.length + (flattenEs bo l.erase es).length := by
        simp [flattenG, List.length_append]
      rw [hsz]
      congr 1
      have hb2 : buf = (pre ++ hdr) ++ flattenEs bo l.erase es ++ post := by
        rw [hbuf]; simp [NGroup.erase, flattenG, List.append_assoc]
      have := decEs bo (pfx ++ name) l es _ 0 buf (pre ++ hdr) post hw hes hb2
      simp only [List.length_append, hlen, Nat.add_zero] at this
      exact this
  theorem decEs (bo : ByteOrder) (gp : String) (l : NLevel) (es : List LVal) (wbl k : Nat) (buf pre post : List Nat)
      (hw : WFL l) (hc : ConfEs bo l.erase es wbl) (hbuf : buf = pre ++ flattenEs bo l.erase es ++ post) :
      (List.range es.length).flatMap (fun i =>
          entryHdr gp (i + k)
              (endL bo buf l.erase (iter (fun q => endL bo buf l.erase q wbl) i pre.length) wbl
                - iter (fun q => endL bo buf l.erase q wbl) i pre.length)
            :: modelL bo buf (entryPfx gp (i + k)) l (iter (fun q => endL bo buf l.erase q wbl) i pre.length) wbl)
        = specEs bo gp k l es := by
    match es with
    | [] => simp [specEs]
    | e :: es =>
      simp only [ConfEs] at hc
      obtain ⟨he, hrest⟩ := hc
      simp only [List.length_cons, specEs]
      rw [range_succ_flatMap]
      have hb1 : buf = pre ++ flattenL bo l.erase e ++ (flattenEs bo l.erase es ++ post) := by
        rw [hbuf]; simp [flattenEs, List.append_assoc]
      have hendL := endL_spec bo l.erase e wbl buf pre _ he hb1
      simp only [iter, Nat.zero_add]
      rw [hendL, decL bo (entryPfx gp k) l e wbl buf pre _ hw he hb1]
      have hsz : pre.length + (flattenL bo l.erase e).length - pre.length = (flattenL bo l.erase e).length := by omega
      rw [hsz]
      simp only [List.cons_append, List.cons.injEq, true_and]
      congr 1
      have hb2 : buf = (pre ++ flattenL bo l.erase e) ++ flattenEs bo l.erase es ++ post := by
        rw [hbuf]; simp [flattenEs, List.append_assoc]
      have := decEs bo gp l es wbl (k + 1) buf (pre ++ flattenL bo l.erase e) post hw hrest hb2
      simp only [List.length_append] at this
      rw [← this]
      have hk : ∀ i, i + 1 + k = i + (k + 1) := by intro i; omega
      simp only [hk]
end

end Sbepp.Observe
