/-
  Symbolic evaluation of the extracted bitset kernels
  (`bits & (T(1) << n)` and `(bits & ~(T(1) << n)) | (T(b) << n)`) for the four
  underlying types of SBE sets.
-/
import Sbepp.Extracted.Kernels
import Sbepp.Lemmas.CInt

namespace Sbepp
open CVal

/-- the underlying types of sets -/
def SetTy (T : CTy) : Prop := T = .u8 ∨ T = .u16 ∨ T = .u32 ∨ T = .u64

/-- the promoted type of a set's underlying type -/
def maskTy (T : CTy) : CTy := if T.rank < 3 then .i32 else T

theorem mod_of_lt {a b : Nat} (h : a < b) : a % b = a := Nat.mod_eq_of_lt h

theorem common_self (t : CTy) : CTy.common t t = t := by simp [CTy.common]

theorem conv_self (t : CTy) (b : Nat) (ht : t ≠ .bool) (hb : b < 2 ^ t.bits) : conv t ⟨t, b⟩ = ⟨t, b⟩ := by
  have hd := two_pow_pred_double t
  by_cases hs : t.signed = true ∧ 2 ^ (t.bits - 1) ≤ b
  · rw [conv_mk_neg t t b ht hs.1 hs.2 hb (Nat.le_refl _)]
    congr 1; omega
  · have : t.signed = false ∨ b < 2 ^ (t.bits - 1) := by
      by_cases h : t.signed = true
      · right; exact Nat.lt_of_not_le (fun h2 => hs ⟨h, h2⟩)
      · left; simpa using h
    exact conv_mk_nonneg t t b ht this hb

theorem setTy_not_ptr (T : CTy) (hT : SetTy T) : T.isPtr = false := by
  rcases hT with h | h | h | h <;> subst h <;> rfl

theorem maskTy_not_ptr (T : CTy) (hT : SetTy T) : (maskTy T).isPtr = false := by
  rcases hT with h | h | h | h <;> subst h <;> rfl

theorem maskTy_not_bool (T : CTy) (hT : SetTy T) : maskTy T ≠ .bool := by
  rcases hT with h | h | h | h <;> subst h <;> decide

theorem setTy_not_bool (T : CTy) (hT : SetTy T) : T ≠ .bool := by
  rcases hT with h | h | h | h <;> subst h <;> decide

theorem maskTy_bits_ge (T : CTy) (hT : SetTy T) : T.bits ≤ (maskTy T).bits := by
  rcases hT with h | h | h | h <;> subst h <;> decide

theorem setTy_bits (T : CTy) (hT : SetTy T) : 8 ≤ T.bits ∧ T.bits ≤ 64 := by
  rcases hT with h | h | h | h <;> subst h <;> decide

theorem maskTy_promote (T : CTy) (hT : SetTy T) : (maskTy T).promote = maskTy T := by
  rcases hT with h | h | h | h <;> subst h <;> rfl

theorem setTy_promote (T : CTy) (hT : SetTy T) : T.promote = maskTy T := by
  rcases hT with h | h | h | h <;> subst h <;> rfl

/-- for the small types the promoted type is `int` and values stay below 2^16 -/
theorem small_or_same (T : CTy) (hT : SetTy T) :
    (maskTy T = .i32 ∧ T.bits ≤ 16) ∨ (maskTy T = T ∧ T.signed = false) := by
  rcases hT with h | h | h | h <;> subst h
  · left; exact ⟨rfl, by decide⟩
  · left; exact ⟨rfl, by decide⟩
  · right; exact ⟨rfl, rfl⟩
  · right; exact ⟨rfl, rfl⟩

theorem promote_setTy (T : CTy) (hT : SetTy T) (v : Nat) (hv : v < 2 ^ T.bits) :
    promote ⟨T, v⟩ = ⟨maskTy T, v⟩ := by
  rw [promote_mk, setTy_promote T hT]
  have hle : 2 ^ T.bits ≤ 2 ^ (maskTy T).bits := Nat.pow_le_pow_right (by decide) (maskTy_bits_ge T hT)
  refine conv_mk_nonneg _ _ _ (maskTy_not_bool T hT) (Or.inl ?_) (by omega)
  rcases hT with h | h | h | h <;> subst h <;> rfl

theorem promote_maskTy (T : CTy) (hT : SetTy T) (m : Nat) (hm : m < 2 ^ (maskTy T).bits) :
    promote ⟨maskTy T, m⟩ = ⟨maskTy T, m⟩ := by
  rw [promote_mk, maskTy_promote T hT]
  exact conv_self _ _ (maskTy_not_bool T hT) hm

theorem promote_u8 (n : Nat) (hn : n < 256) : promote ⟨.u8, n⟩ = ⟨.i32, n⟩ := by
  rw [promote_mk]
  exact conv_mk_nonneg _ _ _ (by decide) (Or.inl rfl) (by simp [CTy.promote, CTy.rank, CTy.bits]; omega)

/-- `static_cast<T>(x)` for x ∈ {0, 1} given as `int` or `bool` -/
theorem conv_small (T ta : CTy) (hT : SetTy T) (hta : ta = .i32 ∨ ta = .bool) (a : Nat) (ha : a < 2) :
    conv T ⟨ta, a⟩ = ⟨T, a⟩ := by
  have h8 := (setTy_bits T hT).1
  have : 2 ^ 8 ≤ 2 ^ T.bits := Nat.pow_le_pow_right (by decide) h8
  rcases hta with h | h <;> subst h
  · exact conv_mk_nonneg _ _ _ (setTy_not_bool T hT) (Or.inr (by simp [CTy.bits]; omega)) (by omega)
  · exact conv_mk_nonneg _ _ _ (setTy_not_bool T hT) (Or.inl rfl) (by omega)

/-- `T(a) << n` for a ∈ {0,1} and `n` inside the width of `T` -/
theorem shl_setTy (T : CTy) (hT : SetTy T) (a n : Nat) (ha : a < 2) (hn : n < T.bits) :
    CVal.binop .shl ⟨T, a⟩ ⟨.u8, n⟩ = some ⟨maskTy T, a * 2 ^ n⟩ := by
  have hb := setTy_bits T hT
  have h8 : 2 ^ 8 ≤ 2 ^ T.bits := Nat.pow_le_pow_right (by decide) hb.1
  have hp1 := promote_setTy T hT a (by omega)
  have hp2 := promote_u8 n (by omega)
  have hn' : toInt ⟨.i32, n⟩ = (n : Int) := toInt_mk_small _ _ (by simp [CTy.bits]; omega)
  have h2n : 2 ^ n < 2 ^ T.bits := Nat.pow_lt_pow_right (by decide) hn
  have hmul : a * 2 ^ n < 2 ^ T.bits := by
    have : a = 0 ∨ a = 1 := by omega
    rcases this with h | h <;> subst h <;> omega
  have hle : 2 ^ T.bits ≤ 2 ^ (maskTy T).bits := Nat.pow_le_pow_right (by decide) (maskTy_bits_ge T hT)
  have hnP : (n : Int) < ((maskTy T).bits : Int) := by have := maskTy_bits_ge T hT; omega
  simp only [binop, setTy_not_ptr T hT, show CTy.isPtr .u8 = false from rfl, Bool.or_self, Bool.false_eq_true,
    if_false, intBinop, if_true, hp1, hp2, shlOp, hn']
  have hc : ¬ ((n : Int) < 0 ∨ (n : Int) ≥ ((maskTy T).bits : Int)) := by omega
  rw [if_neg hc]
  rcases small_or_same T hT with ⟨hm, h16⟩ | ⟨hm, hs⟩
  · rw [hm] at hle ⊢
    have ha' : toInt ⟨.i32, a⟩ = (a : Int) := toInt_mk_small _ _ (by simp [CTy.bits]; omega)
    have h16' : 2 ^ T.bits ≤ 2 ^ 16 := Nat.pow_le_pow_right (by decide) h16
    have hlt : a * 2 ^ n < 2 ^ 32 := by omega
    simp only [show CTy.signed .i32 = true from rfl, if_true, ha', Int.toNat_natCast]
    rw [if_neg (by omega), if_pos (by simpa [CTy.bits] using hlt)]
  · rw [hm] at hle ⊢
    simp only [hs, Bool.false_eq_true, if_false, Int.toNat_natCast]
    rw [mod_of_lt hmul]

theorem bnot_maskTy (T : CTy) (hT : SetTy T) (m : Nat) (hm : m < 2 ^ (maskTy T).bits) :
    CVal.unop .bnot ⟨maskTy T, m⟩ = some ⟨maskTy T, 2 ^ (maskTy T).bits - 1 - m⟩ := by
  simp only [unop, maskTy_not_ptr T hT, Bool.false_eq_true, if_false, promote_maskTy T hT m hm]

/-- `bits & mask` with the mask already of the promoted type -/
theorem band_maskTy (T : CTy) (hT : SetTy T) (v m : Nat) (hv : v < 2 ^ T.bits)
    (hm : m < 2 ^ (maskTy T).bits) :
    CVal.binop .band ⟨T, v⟩ ⟨maskTy T, m⟩ = some ⟨maskTy T, v &&& m⟩ := by
  have hle : 2 ^ T.bits ≤ 2 ^ (maskTy T).bits := Nat.pow_le_pow_right (by decide) (maskTy_bits_ge T hT)
  simp only [binop, setTy_not_ptr T hT, maskTy_not_ptr T hT, Bool.or_self, Bool.false_eq_true, if_false,
    intBinop, promote_setTy T hT v hv, promote_maskTy T hT m hm, common_self, arithOp,
    conv_self _ _ (maskTy_not_bool T hT) hm, conv_self _ v (maskTy_not_bool T hT) (by omega)]
  simp

theorem bor_maskTy (T : CTy) (hT : SetTy T) (x m : Nat) (hx : x < 2 ^ (maskTy T).bits)
    (hm : m < 2 ^ (maskTy T).bits) :
    CVal.binop .bor ⟨maskTy T, x⟩ ⟨maskTy T, m⟩ = some ⟨maskTy T, x ||| m⟩ := by
  simp only [binop, maskTy_not_ptr T hT, Bool.or_self, Bool.false_eq_true, if_false,
    intBinop, promote_maskTy T hT m hm, promote_maskTy T hT x hx, common_self, arithOp,
    conv_self _ _ (maskTy_not_bool T hT) hm, conv_self _ _ (maskTy_not_bool T hT) hx]
  simp

/-- assignment back to `T` of a value that fits -/
theorem conv_back (T : CTy) (hT : SetTy T) (r : Nat) (hr : r < 2 ^ T.bits) :
    conv T ⟨maskTy T, r⟩ = ⟨T, r⟩ := by
  rcases small_or_same T hT with ⟨hm, h16⟩ | ⟨hm, _⟩
  · rw [hm]
    have : 2 ^ T.bits ≤ 2 ^ 16 := Nat.pow_le_pow_right (by decide) h16
    exact conv_mk_nonneg _ _ _ (setTy_not_bool T hT) (Or.inr (by simp [CTy.bits]; omega)) hr
  · rw [hm]; exact conv_self _ _ (setTy_not_bool T hT) hr

open Extracted

theorem get_bit_eval (T : CTy) (hT : SetTy T) (v n : Nat) (hv : v < 2 ^ T.bits) (hn : n < T.bits) :
    (bitset_get_bit T).retBits [v, n] = some (if (v &&& 2 ^ n) != 0 then 1 else 0) := by
  have hb := setTy_bits T hT
  have hn8 : n % 2 ^ CTy.bits .u8 = n := mod_of_lt (by simp [CTy.bits]; omega)
  have hw1 : wrap .i32 1 = ⟨.i32, 1⟩ := wrap_nat .i32 1 (by decide)
  have hc1 := conv_small T .i32 hT (Or.inl rfl) 1 (by decide)
  have hshl := shl_setTy T hT 1 n (by decide) hn
  rw [Nat.one_mul] at hshl
  have h2n : 2 ^ n < 2 ^ (maskTy T).bits :=
    Nat.pow_lt_pow_right (by decide) (Nat.lt_of_lt_of_le hn (maskTy_bits_ge T hT))
  simp only [bitset_get_bit, Kernel.retBits, Kernel.run, execStmts, mkEnv, CExpr.eval, Env.get?,
    mod_of_lt hv, hn8, hw1, if_true, if_false, Option.map, hc1,
    show ("bits" = "n") = False from by decide, hshl, band_maskTy T hT v (2 ^ n) hv h2n]
  simp [isTrue_mk, conv]

theorem set_bit_eval (T : CTy) (hT : SetTy T) (v n : Nat) (b : Bool) (hv : v < 2 ^ T.bits)
    (hn : n < T.bits) :
    (bitset_set_bit T).varBits [v, n, if b then 1 else 0] "bits"
      = some ((v &&& (2 ^ (maskTy T).bits - 1 - 2 ^ n)) ||| ((if b then 1 else 0) * 2 ^ n)) := by
  have hb := setTy_bits T hT
  have hge := maskTy_bits_ge T hT
  have hle : 2 ^ T.bits ≤ 2 ^ (maskTy T).bits := Nat.pow_le_pow_right (by decide) hge
  have hn8 : n % 2 ^ CTy.bits .u8 = n := mod_of_lt (by simp [CTy.bits]; omega)
  have hb1 : (if b then 1 else 0) % 2 ^ CTy.bits .bool = (if b then 1 else 0) := by cases b <;> rfl
  have hb2 : (if b then 1 else 0) < 2 := by cases b <;> decide
  have hw1 : wrap .i32 1 = ⟨.i32, 1⟩ := wrap_nat .i32 1 (by decide)
  have hc1 := conv_small T .i32 hT (Or.inl rfl) 1 (by decide)
  have hcb := conv_small T .bool hT (Or.inr rfl) (if b then 1 else 0) hb2
  have hshl := shl_setTy T hT 1 n (by decide) hn
  rw [Nat.one_mul] at hshl
  have hshlb := shl_setTy T hT (if b then 1 else 0) n hb2 hn
  have h2nT : 2 ^ n < 2 ^ T.bits := Nat.pow_lt_pow_right (by decide) hn
  have h2n : 2 ^ n < 2 ^ (maskTy T).bits := by omega
  have hmb : (if b then 1 else 0) * 2 ^ n < 2 ^ T.bits := by cases b <;> simp <;> omega
  have hnot := bnot_maskTy T hT (2 ^ n) h2n
  have hm1 : 2 ^ (maskTy T).bits - 1 - 2 ^ n < 2 ^ (maskTy T).bits := by
    have h1 : 2 ^ (maskTy T).bits - 1 - 2 ^ n ≤ 2 ^ (maskTy T).bits - 1 := Nat.sub_le _ _
    have h2 : 0 < 2 ^ (maskTy T).bits := Nat.two_pow_pos _
    omega
  have hand := band_maskTy T hT v _ hv hm1
  have hx : v &&& (2 ^ (maskTy T).bits - 1 - 2 ^ n) < 2 ^ T.bits := Nat.lt_of_le_of_lt Nat.and_le_left hv
  have hor := bor_maskTy T hT _ ((if b then 1 else 0) * 2 ^ n) (Nat.lt_of_lt_of_le hx hle)
    (Nat.lt_of_lt_of_le hmb hle)
  have hr : (v &&& (2 ^ (maskTy T).bits - 1 - 2 ^ n)) ||| ((if b then 1 else 0) * 2 ^ n) < 2 ^ T.bits :=
    Nat.or_lt_two_pow hx hmb
  simp only [bitset_set_bit, Kernel.varBits, Kernel.run, execStmts, CStmt.exec, mkEnv, CExpr.eval, Env.get?,
    mod_of_lt hv, hn8, hb1, hw1, if_true, if_false, hc1, hcb, hshl, hshlb, Option.bind, hnot, hand, hor, Env.set,
    show ("bits" = "n") = False from by decide, show ("bits" = "b") = False from by decide,
    show ("n" = "b") = False from by decide, conv_back T hT _ hr, Option.map]

end Sbepp
