/-
  C18 helper lemmas: where the derived traits sit in a row.
-/
import Sbepp.Lemmas.TraitsLayout
import Sbepp.Lemmas.TraitsAttrs

namespace Sbepp.Gen.Traits
open Sbepp Sbepp.Schema Sbepp.Spec.Traits

/-- a ref whose derived traits exist refers to an existing non-ref encoding -/
theorem ref_target (types : List Elem) (ctx : Option (List Elem)) (n ty : String) (o : Option Nat) (a : Attrs)
    (d : List KV) (h : elemDerivedKVs types ctx (.ref n ty o a) = .ok d) :
    ∃ target ic base, lookup types ty = some target ∧ (∀ n ty o a, target ≠ .ref n ty o a) ∧
      inComposite types ctx (.ref n ty o a) = .ok ic ∧ encDerivedKVs types none target = .ok base ∧
      d = setKV "offset" (num (ic.getD 0)) base := by
  unfold elemDerivedKVs at h
  split at h
  · simp at h
  · rename_i ic hic
    simp only at h
    split at h
    · simp at h
    · rename_i target hl
      split at h
      · simp at h
      · rename_i base hb
        simp only [Except.ok.injEq] at h
        refine ⟨target, ic, base, hl, ?_, hic, hb, h.symm⟩
        intro n' ty' o' a' ht
        subst ht
        simp [encDerivedKVs] at hb

theorem elemDerived_nonref (types : List Elem) (ctx : Option (List Elem)) (e : Elem) (d : List KV)
    (hr : ∀ n ty o a, e ≠ .ref n ty o a) (h : elemDerivedKVs types ctx e = .ok d) :
    ∃ ic, inComposite types ctx e = .ok ic ∧ encDerivedKVs types ic e = .ok d := by
  unfold elemDerivedKVs at h
  split at h
  · simp at h
  · rename_i ic hic
    refine ⟨ic, hic, ?_⟩
    cases e with
    | ref n ty o a => exact absurd rfl (hr n ty o a)
    | type t => exact h
    | enum n enc o vs a => exact h
    | set n enc o cs a => exact h
    | composite n o elems a => exact h

theorem encDerived_offset (types : List Elem) (ic : Option Nat) (e : Elem) (d : List KV)
    (h : encDerivedKVs types ic e = .ok d) (kv : KV) (hk : kv ∈ offsetKV e.offset ic) : kv ∈ d := by
  cases e with
  | type t =>
    simp only [encDerivedKVs] at h
    split at h
    · simp at h
    · simp only [Except.ok.injEq] at h
      subst h
      exact List.mem_append.mpr (Or.inr hk)
  | enum n enc o vs a =>
    simp only [encDerivedKVs] at h
    split at h
    · simp at h
    · simp only [Except.ok.injEq] at h
      subst h
      exact List.mem_cons_of_mem _ hk
  | set n enc o cs a =>
    simp only [encDerivedKVs] at h
    split at h
    · simp at h
    · simp only [Except.ok.injEq] at h
      subst h
      exact List.mem_cons_of_mem _ hk
  | composite n o elems a =>
    simp only [encDerivedKVs] at h
    split at h
    · simp at h
    · simp only [Except.ok.injEq] at h
      subst h
      exact List.mem_cons_of_mem _ hk
  | ref n ty o a => simp [encDerivedKVs] at h

/-- the `offset` trait of a non-constant composite element is where `validate_element_offset` puts it -/
theorem elem_offset_trait (types : List Elem) (before : List Elem) (e : Elem) (d : List KV)
    (h : elemDerivedKVs types (some before) e = .ok d) (hc : isConstElem types e = false) :
    ∃ cur off, runOffset types 0 before = .ok cur ∧ placeAt e.offset cur = .ok off ∧ ("offset", num off) ∈ d := by
  have hin : ∀ ic, inComposite types (some before) e = .ok ic →
      ∃ cur off, runOffset types 0 before = .ok cur ∧ placeAt e.offset cur = .ok off ∧ ic = some off := by
    intro ic hic
    simp only [inComposite, offsetInComposite, hc, Bool.false_eq_true, if_false] at hic
    split at hic
    · simp at hic
    · rename_i cur hcur
      split at hic
      · simp at hic
      · rename_i off hoff
        simp only [Except.ok.injEq] at hic
        exact ⟨cur, off, hcur, hoff, hic.symm⟩
  by_cases hr : ∃ n ty o a, e = .ref n ty o a
  · obtain ⟨n, ty, o, a, rfl⟩ := hr
    obtain ⟨target, ic, base, _, _, hic, _, hd⟩ := ref_target types _ n ty o a d h
    obtain ⟨cur, off, h1, h2, h3⟩ := hin ic hic
    subst h3; subst hd
    exact ⟨cur, off, h1, h2, by simpa using mem_setKV_self _ _ _⟩
  · have hr' : ∀ n ty o a, e ≠ .ref n ty o a := fun n ty o a he => hr ⟨n, ty, o, a, he⟩
    obtain ⟨ic, hic, hd⟩ := elemDerived_nonref types _ e d hr' h
    obtain ⟨cur, off, h1, h2, h3⟩ := hin ic hic
    subst h3
    refine ⟨cur, off, h1, h2, encDerived_offset types _ e d hd _ ?_⟩
    rcases (placeAt_iff _ _ _).mp h2 with ⟨ho, _⟩ | ⟨ho, _⟩
    · simp [offsetKV, ho]
    · simp [offsetKV, ho]

/-- block length of a level: the explicit attribute if given, else the end of the last
    non-constant field; never smaller than that, and every leaf of the level lies inside -/
theorem levelBlockLength_spec (types : List Elem) (custom : Option Nat) (fields : List FieldDef) (b : Nat)
    (h : levelBlockLength types custom fields = .ok b) :
    ∃ computed lv, fieldLeaves types 0 fields = .ok (computed, lv) ∧
      ((custom = some b ∧ computed ≤ b) ∨ (custom = none ∧ b = computed)) ∧
      (∀ l ∈ lv, l.off + l.size ≤ b) ∧ SortedN lv := by
  unfold levelBlockLength at h
  split at h
  · simp at h
  · rename_i r hr
    obtain ⟨computed, lv⟩ := r
    simp only at h
    refine ⟨computed, lv, hr, ?_, level_ok types fields custom computed b lv hr h⟩
    unfold blockLength at h
    split at h
    · split at h
      · simp at h
      · simp only [Except.ok.injEq] at h; subst h; left; exact ⟨rfl, by omega⟩
    · simp only [Except.ok.injEq] at h; right; exact ⟨rfl, h.symm⟩

open Sbepp.Spec.Scalar in
theorem boundValue_default (a : Attr) (prim : String) (p : Prim) (hp : Prim.ofName? prim = some p) :
    boundValue a none prim = .ok (num (sbeDefault p a)) := by
  simp [boundValue, hp, genDefault_sbe]

theorem predicateVector_one (k : String) (hk : k ∈ tagKinds) : (predicateVector k).count true = 1 := by
  simp only [tagKinds, List.mem_cons, List.not_mem_nil, or_false] at hk
  rcases hk with rfl | rfl | rfl | rfl | rfl | rfl | rfl | rfl | rfl | rfl | rfl <;> decide

theorem predicateVector_at (k : String) (hk : k ∈ tagKinds) (i : Nat) :
    (predicateVector k)[i]? = some true ↔ tagKinds[i]? = some k := by
  simp only [tagKinds, List.mem_cons, List.not_mem_nil, or_false] at hk
  have hi : i < 11 ∨ 11 ≤ i := by omega
  rcases hi with hi | hi
  · have : i = 0 ∨ i = 1 ∨ i = 2 ∨ i = 3 ∨ i = 4 ∨ i = 5 ∨ i = 6 ∨ i = 7 ∨ i = 8 ∨ i = 9 ∨ i = 10 := by omega
    rcases hk with rfl | rfl | rfl | rfl | rfl | rfl | rfl | rfl | rfl | rfl | rfl <;>
      rcases this with rfl | rfl | rfl | rfl | rfl | rfl | rfl | rfl | rfl | rfl | rfl <;> decide
  · have h1 : (predicateVector k).length ≤ i := by simp [predicateVector, predicateKinds]; omega
    have h2 : tagKinds.length ≤ i := by simp [tagKinds]; omega
    simp [List.getElem?_eq_none h1, List.getElem?_eq_none h2]

end Sbepp.Gen.Traits
