/-
  C18 helper lemmas about the copied attributes: the attribute part of a row
  contains what the XML states; where the `deprecated` key occurs.
-/
import Sbepp.Lemmas.Traits

namespace Sbepp.Gen.Traits
open Sbepp Sbepp.Schema Sbepp.Spec.Traits

theorem mem_depr (a : Attrs) (v : String) : ("deprecated", v) ∈ depr a ↔ a.deprecated.map num = some v := by
  unfold depr
  cases a.deprecated <;> simp [eq_comm]

theorem mem_depr_key (a : Attrs) (k v : String) (hk : k ≠ "deprecated") : (k, v) ∉ depr a := by
  unfold depr
  cases a.deprecated <;> simp [hk]

/-- non-ref encodings: the attribute traits contain every XML attribute -/
theorem encAttr_mem (self : Path) (e : Elem) (kv : KV) (h : kv ∈ xmlEncAttrs e) (hr : ∀ n ty o a, e ≠ .ref n ty o a) :
    kv ∈ encAttrKVs self e := by
  cases e with
  | type t =>
    simp only [xmlEncAttrs, List.mem_cons, List.not_mem_nil, or_false] at h
    simp only [encAttrKVs, List.mem_append, List.mem_cons]
    rcases h with rfl | rfl | rfl | rfl | rfl | rfl | rfl | rfl <;> simp
  | composite n o elems a =>
    simp only [xmlEncAttrs, List.mem_cons, List.not_mem_nil, or_false] at h
    simp only [encAttrKVs, List.mem_append, List.mem_cons]
    rcases h with rfl | rfl | rfl | rfl <;> simp
  | enum n enc o vs a =>
    simp only [xmlEncAttrs, List.mem_cons, List.not_mem_nil, or_false] at h
    simp only [encAttrKVs, List.mem_append, List.mem_cons]
    rcases h with rfl | rfl | rfl <;> simp
  | set n enc o cs a =>
    simp only [xmlEncAttrs, List.mem_cons, List.not_mem_nil, or_false] at h
    simp only [encAttrKVs, List.mem_append, List.mem_cons]
    rcases h with rfl | rfl | rfl <;> simp
  | ref n ty o a => exact absurd rfl (hr n ty o a)

/-- non-ref encodings: `deprecated` is present exactly when the XML has it -/
theorem encAttr_deprecated (self : Path) (e : Elem) (v : String) (hr : ∀ n ty o a, e ≠ .ref n ty o a) :
    ("deprecated", v) ∈ encAttrKVs self e ↔ (elemAttrs e).deprecated.map num = some v := by
  cases e with
  | type t =>
    simp only [encAttrKVs, List.mem_append, List.mem_cons, Prod.mk.injEq, elemAttrs, mem_depr]
    constructor
    · rintro ((h | h) | h)
      · simp at h
      · exact h
      · split at h <;> simp at h
    · intro h; exact Or.inl (Or.inr h)
  | composite n o elems a =>
    simp only [encAttrKVs, List.mem_append, List.mem_cons, Prod.mk.injEq, elemAttrs, mem_depr]
    constructor
    · rintro ((h | h) | h)
      · simp at h
      · exact h
      · simp at h
    · intro h; exact Or.inl (Or.inr h)
  | enum n enc o vs a =>
    simp only [encAttrKVs, List.mem_append, List.mem_cons, Prod.mk.injEq, elemAttrs, mem_depr]
    constructor
    · rintro ((h | h) | h)
      · simp at h
      · exact h
      · simp at h
    · intro h; exact Or.inl (Or.inr h)
  | set n enc o cs a =>
    simp only [encAttrKVs, List.mem_append, List.mem_cons, Prod.mk.injEq, elemAttrs, mem_depr]
    constructor
    · rintro ((h | h) | h)
      · simp at h
      · exact h
      · simp at h
    · intro h; exact Or.inl (Or.inr h)
  | ref n ty o a => exact absurd rfl (hr n ty o a)


theorem elemAttrKVs_nonref (types : List Elem) (self : Path) (e : Elem) (hr : ∀ n ty o a, e ≠ .ref n ty o a) :
    elemAttrKVs types self e = encAttrKVs self e := by
  cases e with
  | ref n ty o a => exact absurd rfl (hr n ty o a)
  | _ => rfl

theorem isRef_false_elem {e : Elem} {ctx : Option (List Elem)} (h : isRef (.elem e ctx) = false) :
    ∀ n ty o a, e ≠ .ref n ty o a := by
  intro n ty o a he
  subst he
  simp [isRef] at h

/-- every entity but refs: the attribute traits contain every XML attribute -/
theorem attr_mem (s : SchemaDef) (p : Path) (ent : Entity) (kv : KV) (h : kv ∈ xmlAttrs s ent)
    (hr : isRef ent = false) : kv ∈ attrKVs s p ent := by
  cases ent with
  | elem e ctx =>
    simp only [attrKVs, xmlAttrs] at h ⊢
    rw [elemAttrKVs_nonref _ _ _ (isRef_false_elem hr)]
    exact encAttr_mem p e kv h (isRef_false_elem hr)
  | schema =>
    simp only [xmlAttrs, List.mem_cons, List.not_mem_nil, or_false] at h
    simp only [attrKVs, List.mem_cons]
    rcases h with rfl | rfl | rfl | rfl | rfl | rfl <;> simp <;> rfl
  | value enc v =>
    simp only [xmlAttrs, List.mem_cons, List.not_mem_nil, or_false] at h
    simp only [attrKVs, List.mem_append, List.mem_cons]
    rcases h with rfl | rfl | rfl <;> simp
  | choice c =>
    simp only [xmlAttrs, List.mem_cons, List.not_mem_nil, or_false] at h
    simp only [attrKVs, List.mem_append, List.mem_cons]
    rcases h with rfl | rfl | rfl | rfl <;> simp
  | message m =>
    simp only [xmlAttrs, List.mem_cons, List.not_mem_nil, or_false] at h
    simp only [attrKVs, List.mem_append, List.mem_cons]
    rcases h with rfl | rfl | rfl | rfl | rfl <;> simp
  | group g =>
    simp only [xmlAttrs, List.mem_cons, List.not_mem_nil, or_false] at h
    simp only [attrKVs, List.mem_append, List.mem_cons]
    rcases h with rfl | rfl | rfl | rfl | rfl <;> simp
  | field f b =>
    simp only [xmlAttrs, List.mem_cons, List.not_mem_nil, or_false] at h
    simp only [attrKVs, List.mem_append, List.mem_cons]
    rcases h with rfl | rfl | rfl | rfl <;> simp
  | data d =>
    simp only [xmlAttrs, List.mem_cons, List.not_mem_nil, or_false] at h
    simp only [attrKVs, List.mem_append, List.mem_cons]
    rcases h with rfl | rfl | rfl | rfl <;> simp

/-- every entity but refs: among the attribute traits `deprecated` is present exactly when the XML has it -/
theorem attr_deprecated (s : SchemaDef) (p : Path) (ent : Entity) (v : String) (hr : isRef ent = false) :
    ("deprecated", v) ∈ attrKVs s p ent ↔ (ownDeprecated ent).map num = some v := by
  cases ent with
  | elem e ctx =>
    simp only [attrKVs, ownDeprecated]
    rw [elemAttrKVs_nonref _ _ _ (isRef_false_elem hr)]
    exact encAttr_deprecated p e v (isRef_false_elem hr)
  | schema => simp [attrKVs, ownDeprecated]
  | value enc x => simp [attrKVs, ownDeprecated, mem_depr]
  | choice c => simp [attrKVs, ownDeprecated, mem_depr]
  | message m => simp [attrKVs, ownDeprecated, mem_depr, levelTagKVs]
  | group g => simp [attrKVs, ownDeprecated, mem_depr, levelTagKVs]
  | field f b => simp [attrKVs, ownDeprecated, mem_depr]
  | data d => simp [attrKVs, ownDeprecated, mem_depr]

/-! ### refs -/

theorem xmlEncAttrs_keys (e : Elem) (kv : KV) (h : kv ∈ xmlEncAttrs e) : kv.1 ≠ "deprecated" := by
  cases e with
  | type t =>
    simp only [xmlEncAttrs, List.mem_cons, List.not_mem_nil, or_false] at h
    rcases h with rfl | rfl | rfl | rfl | rfl | rfl | rfl | rfl <;> simp
  | composite n o elems a =>
    simp only [xmlEncAttrs, List.mem_cons, List.not_mem_nil, or_false] at h
    rcases h with rfl | rfl | rfl | rfl <;> simp
  | enum n enc o vs a =>
    simp only [xmlEncAttrs, List.mem_cons, List.not_mem_nil, or_false] at h
    rcases h with rfl | rfl | rfl <;> simp
  | set n enc o cs a =>
    simp only [xmlEncAttrs, List.mem_cons, List.not_mem_nil, or_false] at h
    rcases h with rfl | rfl | rfl <;> simp
  | ref n ty o a =>
    simp only [xmlEncAttrs, List.mem_cons, List.not_mem_nil, or_false] at h
    rcases h with rfl | rfl <;> simp

/-- the attribute traits of a ref whose target exists -/
theorem refAttr_eq (types : List Elem) (self : Path) (n ty : String) (o : Option Nat) (a : Attrs) (target : Elem)
    (hl : lookup types ty = some target) :
    elemAttrKVs types self (.ref n ty o a) =
      (match a.deprecated with
       | some d => setKV "deprecated" (num d)
           (setKV "since_version" (num a.since) (setKV "name" (txt n) (encAttrKVs ["types", target.name] target)))
       | none => eraseKV "deprecated"
           (setKV "since_version" (num a.since) (setKV "name" (txt n) (encAttrKVs ["types", target.name] target)))) := by
  simp only [elemAttrKVs, hl]
  cases a.deprecated <;> rfl

/-- a ref states its own name and sinceVersion -/
theorem refAttr_own (types : List Elem) (self : Path) (n ty : String) (o : Option Nat) (a : Attrs) (target : Elem)
    (hl : lookup types ty = some target) (kv : KV) (h : kv ∈ xmlEncAttrs (.ref n ty o a)) :
    kv ∈ elemAttrKVs types self (.ref n ty o a) := by
  rw [refAttr_eq types self n ty o a target hl]
  simp only [xmlEncAttrs, List.mem_cons, List.not_mem_nil, or_false] at h
  rcases h with rfl | rfl
  · cases a.deprecated with
    | none =>
      exact (mem_eraseKV _ _ _ _).mpr
        ⟨(mem_setKV_other _ _ _ _ _ (by decide)).mpr (mem_setKV_self _ _ _), by decide⟩
    | some d =>
      exact (mem_setKV_other _ _ _ _ _ (by decide)).mpr
        ((mem_setKV_other _ _ _ _ _ (by decide)).mpr (mem_setKV_self _ _ _))
  · cases a.deprecated with
    | none => exact (mem_eraseKV _ _ _ _).mpr ⟨mem_setKV_self _ _ _, by decide⟩
    | some d => exact (mem_setKV_other _ _ _ _ _ (by decide)).mpr (mem_setKV_self _ _ _)

/-- everything else is the referred encoding's -/
theorem refAttr_inherited (types : List Elem) (self : Path) (n ty : String) (o : Option Nat) (a : Attrs) (target : Elem)
    (hl : lookup types ty = some target) (ht : ∀ n ty o a, target ≠ .ref n ty o a)
    (kv : KV) (h : kv ∈ refInherited target) : kv ∈ elemAttrKVs types self (.ref n ty o a) := by
  rw [refAttr_eq types self n ty o a target hl]
  simp only [refInherited, List.mem_filter, Bool.and_eq_true, bne_iff_ne, ne_eq] at h
  obtain ⟨hm, hn1, hn2⟩ := h
  have hd := xmlEncAttrs_keys target kv hm
  have hbase := encAttr_mem ["types", target.name] target kv hm ht
  obtain ⟨k, v⟩ := kv
  simp only at hn1 hn2 hd
  have h1 : (k, v) ∈ setKV "since_version" (num a.since) (setKV "name" (txt n) (encAttrKVs ["types", target.name] target)) :=
    (mem_setKV_other _ _ _ _ _ hn2).mpr ((mem_setKV_other _ _ _ _ _ hn1).mpr hbase)
  cases a.deprecated with
  | none => exact (mem_eraseKV _ _ _ _).mpr ⟨h1, hd⟩
  | some d => exact (mem_setKV_other _ _ _ _ _ hd).mpr h1

/-- `deprecated` of a ref: its own attribute, nothing else (the inherited member is hidden) -/
theorem refAttr_deprecated (types : List Elem) (self : Path) (n ty : String) (o : Option Nat) (a : Attrs) (target : Elem)
    (hl : lookup types ty = some target) (v : String) :
    ("deprecated", v) ∈ elemAttrKVs types self (.ref n ty o a) ↔ a.deprecated.map num = some v := by
  rw [refAttr_eq types self n ty o a target hl]
  cases a.deprecated with
  | some d =>
    simp only [Option.map_some, Option.some.injEq]
    constructor
    · intro h; exact (mem_setKV_key _ _ _ _ h).symm
    · intro h; subst h; exact mem_setKV_self _ _ _
  | none =>
    simp only [Option.map_none, reduceCtorEq, iff_false]
    intro h
    exact ((mem_eraseKV _ _ _ _).mp h).2 rfl

/-- **no inherited `deprecated`**: for every encoding, ref or not, the `deprecated`
    trait is present exactly when the element's own XML has the attribute -/
theorem elemAttr_deprecated (types : List Elem) (self : Path) (e : Elem) (v : String)
    (hl : ∀ n ty o a, e = .ref n ty o a → (lookup types ty).isSome = true ∨ a.deprecated = none) :
    ("deprecated", v) ∈ elemAttrKVs types self e ↔ (elemAttrs e).deprecated.map num = some v := by
  by_cases hr : ∃ n ty o a, e = .ref n ty o a
  · obtain ⟨n, ty, o, a, rfl⟩ := hr
    cases hlk : lookup types ty with
    | some target => exact refAttr_deprecated types self n ty o a target hlk v
    | none =>
      rcases hl n ty o a rfl with h | h
      · simp [hlk] at h
      · simp [elemAttrKVs, hlk, elemAttrs, h]
  · have hr' : ∀ n ty o a, e ≠ .ref n ty o a := fun n ty o a he => hr ⟨n, ty, o, a, he⟩
    rw [elemAttrKVs_nonref types self e hr']
    exact encAttr_deprecated self e v hr'

/-! ### keys of the derived part -/

def derivedKeys : List String :=
  ["header_type_tag", "value", "block_length", "dimension_type_tag", "presence", "offset", "value_type_tag",
   "traits_tag", "length_type_tag", "length_type", "size_bytes_0", "min_value", "max_value", "null_value",
   "encoding_type", "size_bytes"]

theorem offsetKV_keys (a b : Option Nat) (kv : KV) (h : kv ∈ offsetKV a b) : kv.1 = "offset" := by
  unfold offsetKV at h
  cases a <;> cases b <;> simp at h <;> simp [h]

theorem minMaxNull_keys (t : TypeDef) (mm : List KV) (h : minMaxNull t = .ok mm) (kv : KV) (hk : kv ∈ mm) :
    kv.1 ∈ derivedKeys := by
  unfold minMaxNull at h
  split at h
  · split at h
    · simp at h
    · split at h
      · simp at h
      · split at h
        · split at h
          · simp at h
          · simp only [Except.ok.injEq] at h
            subst h
            simp only [List.mem_cons, List.not_mem_nil, or_false] at hk
            rcases hk with rfl | rfl | rfl <;> simp [derivedKeys]
        · simp only [Except.ok.injEq] at h
          subst h
          simp only [List.mem_cons, List.not_mem_nil, or_false] at hk
          rcases hk with rfl | rfl <;> simp [derivedKeys]
  · simp only [Except.ok.injEq] at h
    subst h
    simp at hk

theorem encDerived_keys (types : List Elem) (ic : Option Nat) (e : Elem) (d : List KV)
    (h : encDerivedKVs types ic e = .ok d) (kv : KV) (hk : kv ∈ d) : kv.1 ∈ derivedKeys := by
  cases e with
  | type t =>
    simp only [encDerivedKVs] at h
    split at h
    · simp at h
    · rename_i mm hmm
      simp only [Except.ok.injEq] at h
      subst h
      rcases List.mem_append.mp hk with hk | hk
      · exact minMaxNull_keys t mm hmm kv hk
      · rw [offsetKV_keys _ _ _ hk]; decide
  | enum n enc o vs a =>
    simp only [encDerivedKVs] at h
    split at h
    · simp at h
    · simp only [Except.ok.injEq] at h
      subst h
      rcases List.mem_cons.mp hk with rfl | hk
      · simp [derivedKeys]
      · rw [offsetKV_keys _ _ _ hk]; decide
  | set n enc o cs a =>
    simp only [encDerivedKVs] at h
    split at h
    · simp at h
    · simp only [Except.ok.injEq] at h
      subst h
      rcases List.mem_cons.mp hk with rfl | hk
      · simp [derivedKeys]
      · rw [offsetKV_keys _ _ _ hk]; decide
  | composite n o elems a =>
    simp only [encDerivedKVs] at h
    split at h
    · simp at h
    · simp only [Except.ok.injEq] at h
      subst h
      rcases List.mem_cons.mp hk with rfl | hk
      · simp [derivedKeys]
      · rw [offsetKV_keys _ _ _ hk]; decide
  | ref n ty o a => simp [encDerivedKVs] at h

theorem elemDerived_keys (types : List Elem) (ctx : Option (List Elem)) (e : Elem) (d : List KV)
    (h : elemDerivedKVs types ctx e = .ok d) (kv : KV) (hk : kv ∈ d) : kv.1 ∈ derivedKeys := by
  unfold elemDerivedKVs at h
  split at h
  · simp at h
  · rename_i ic _
    split at h
    · split at h
      · simp at h
      · rename_i target _
        split at h
        · simp at h
        · rename_i base hb
          simp only [Except.ok.injEq] at h
          subst h
          simp only [setKV, List.mem_cons, List.mem_filter] at hk
          rcases hk with rfl | ⟨hk, _⟩
          · simp [derivedKeys]
          · exact encDerived_keys types none target base hb kv hk
    · exact encDerived_keys types ic _ d h kv hk

theorem derived_keys (s : SchemaDef) (ent : Entity) (d : List KV) (h : derivedKVs s ent = .ok d) (kv : KV)
    (hk : kv ∈ d) : kv.1 ∈ derivedKeys := by
  cases ent with
  | schema =>
    simp only [derivedKVs] at h
    split at h
    · simp only [Except.ok.injEq] at h
      subst h
      simp only [List.mem_singleton] at hk
      subst hk; simp [derivedKeys]
    · simp at h
  | elem e ctx => exact elemDerived_keys s.types ctx e d h kv hk
  | value enc v =>
    simp only [derivedKVs] at h
    split at h
    · simp at h
    · split at h
      · simp at h
      · simp only [Except.ok.injEq] at h
        subst h
        simp only [List.mem_singleton] at hk
        subst hk; simp [derivedKeys]
  | choice c =>
    simp only [derivedKVs, Except.ok.injEq] at h
    subst h
    simp at hk
  | message m =>
    simp only [derivedKVs] at h
    split at h
    · simp at h
    · simp only [Except.ok.injEq] at h
      subst h
      simp only [List.mem_singleton] at hk
      subst hk; simp [derivedKeys]
  | group g =>
    simp only [derivedKVs] at h
    split at h
    · simp at h
    · split at h
      · simp only [Except.ok.injEq] at h
        subst h
        simp only [List.mem_cons, List.not_mem_nil, or_false] at hk
        rcases hk with rfl | rfl <;> simp [derivedKeys]
      · simp at h
  | field f b =>
    simp only [derivedKVs] at h
    split at h
    · simp at h
    · rename_i pres _
      split at h
      · simp at h
      · simp only [Except.ok.injEq] at h
        subst h
        simp only [List.mem_append, List.mem_cons, List.not_mem_nil, or_false] at hk
        rcases hk with (rfl | rfl) | hk
        · simp [derivedKeys]
        · simp [derivedKeys]
        · unfold fieldTypeTagKVs at hk
          split at hk
          · simp only [List.mem_cons, List.not_mem_nil, or_false] at hk
            rcases hk with rfl | rfl <;> simp [derivedKeys]
          · split at hk
            · simp at hk
            · split at hk
              · split at hk
                · simp at hk
                · simp only [List.mem_singleton] at hk
                  subst hk; simp [derivedKeys]
              · simp only [List.mem_singleton] at hk
                subst hk; simp [derivedKeys]
              · simp at hk
  | data dd =>
    simp only [derivedKVs] at h
    split at h
    · simp at h
    · simp only [Except.ok.injEq] at h
      subst h
      simp only [List.mem_cons, List.not_mem_nil, or_false] at hk
      rcases hk with rfl | rfl | rfl <;> simp [derivedKeys]

theorem derived_no_deprecated (s : SchemaDef) (ent : Entity) (d : List KV) (h : derivedKVs s ent = .ok d) (v : String) :
    ("deprecated", v) ∉ d := by
  intro hk
  have := derived_keys s ent d h _ hk
  simp [derivedKeys] at this

end Sbepp.Gen.Traits
