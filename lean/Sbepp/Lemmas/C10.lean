/-
  Lemmas for C10: the C++ semantics of the extracted `SBEPP_SIZE_CHECK` condition
  (`(begin) && ((offset + size) <= static_cast<std::size_t>(end - begin))`) for the operand
  types that occur at the call sites, evaluated with the `CExpr` evaluator.
-/
import Sbepp.Rt.Guards
import Sbepp.Lemmas.CInt

namespace Sbepp.CVal
open Sbepp Sbepp.Extracted.SizeChecks Sbepp.Rt.Guards


/-- an unsigned or non-negative `int` operand -/
def NonNegT (t : CTy) (xb : Nat) : Prop :=
  (t = .u8 ∧ xb < 2^8) ∨ (t = .u16 ∧ xb < 2^16) ∨ (t = .u32 ∧ xb < 2^32) ∨ (t = .u64 ∧ xb < 2^64) ∨
  (t = .i32 ∧ xb < 2^31)

theorem toInt_u64 (x : Nat) : toInt ⟨.u64, x⟩ = (x : Int) := toInt_mk_unsigned _ _ rfl

theorem nonneg_small (t : CTy) (xb : Nat) (h : NonNegT t xb) :
    (t.signed = false ∨ xb < 2 ^ (t.bits - 1)) ∧ xb < 2 ^ t.bits ∧ t.isPtr = false := by
  rcases h with ⟨rfl, hb⟩ | ⟨rfl, hb⟩ | ⟨rfl, hb⟩ | ⟨rfl, hb⟩ | ⟨rfl, hb⟩
  · exact ⟨Or.inl rfl, by simpa [CTy.bits] using hb, rfl⟩
  · exact ⟨Or.inl rfl, by simpa [CTy.bits] using hb, rfl⟩
  · exact ⟨Or.inl rfl, by simpa [CTy.bits] using hb, rfl⟩
  · exact ⟨Or.inl rfl, by simpa [CTy.bits] using hb, rfl⟩
  · exact ⟨Or.inr (by simpa [CTy.bits] using hb), by simp only [CTy.bits]; omega, rfl⟩

theorem nonneg_promote (t : CTy) (xb : Nat) (h : NonNegT t xb) :
    promote ⟨t, xb⟩ = ⟨t.promote, xb⟩ ∧ NonNegT t.promote xb := by
  have hs := nonneg_small t xb h
  rw [promote_mk]
  rcases h with ⟨rfl, hb⟩ | ⟨rfl, hb⟩ | ⟨rfl, hb⟩ | ⟨rfl, hb⟩ | ⟨rfl, hb⟩
  · exact ⟨conv_mk_nonneg _ _ _ (by decide) hs.1 (by show xb < 2 ^ 32; omega),
      Or.inr (Or.inr (Or.inr (Or.inr ⟨rfl, by omega⟩)))⟩
  · exact ⟨conv_mk_nonneg _ _ _ (by decide) hs.1 (by show xb < 2 ^ 32; omega),
      Or.inr (Or.inr (Or.inr (Or.inr ⟨rfl, by omega⟩)))⟩
  · exact ⟨conv_mk_nonneg _ _ _ (by decide) hs.1 (by show xb < 2 ^ 32; omega),
      Or.inr (Or.inr (Or.inl ⟨rfl, hb⟩))⟩
  · exact ⟨conv_mk_nonneg _ _ _ (by decide) hs.1 (by show xb < 2 ^ 64; omega),
      Or.inr (Or.inr (Or.inr (Or.inl ⟨rfl, hb⟩)))⟩
  · exact ⟨conv_mk_nonneg _ _ _ (by decide) hs.1 (by show xb < 2 ^ 32; omega),
      Or.inr (Or.inr (Or.inr (Or.inr ⟨rfl, hb⟩)))⟩

theorem conv_u64_nonneg (t : CTy) (xb : Nat) (h : NonNegT t xb) : conv .u64 ⟨t, xb⟩ = ⟨.u64, xb⟩ := by
  have hs := nonneg_small t xb h
  refine conv_mk_nonneg _ _ _ (by decide) hs.1 ?_
  rcases h with ⟨rfl, hb⟩ | ⟨rfl, hb⟩ | ⟨rfl, hb⟩ | ⟨rfl, hb⟩ | ⟨rfl, hb⟩ <;> simp only [CTy.bits] <;> omega

theorem common_u64 (t : CTy) (xb : Nat) (h : NonNegT t xb) : CTy.common t.promote .u64 = .u64 := by
  rcases h with ⟨rfl, _⟩ | ⟨rfl, _⟩ | ⟨rfl, _⟩ | ⟨rfl, _⟩ | ⟨rfl, _⟩ <;> rfl

theorem binop_int (op : BinOp) (a b : CVal) (ha : a.ty.isPtr = false) (hb : b.ty.isPtr = false) :
    binop op a b = intBinop op a b := by
  simp [binop, ha, hb]

/-- `x <= y` where `y : std::size_t`: `x` is converted to `std::size_t` -/
theorem le_u64_right (t : CTy) (xb y : Nat) (hx : NonNegT t xb) (hy : y < 2^64) :
    binop .le ⟨t, xb⟩ ⟨.u64, y⟩ = some (ofBool (decide (xb ≤ y))) := by
  have hs := nonneg_small t xb hx
  obtain ⟨hp, hpn⟩ := nonneg_promote t xb hx
  obtain ⟨hp2, _⟩ := nonneg_promote .u64 y (Or.inr (Or.inr (Or.inr (Or.inl ⟨rfl, hy⟩))))
  have hc : CTy.common t.promote CTy.u64.promote = .u64 := common_u64 t xb hx
  rw [binop_int _ _ _ hs.2.2 rfl]
  simp only [intBinop, hp, hp2]
  simp only [if_false, reduceCtorEq, hc]
  rw [conv_u64_nonneg _ _ hpn, conv_u64_nonneg CTy.u64.promote y (Or.inr (Or.inr (Or.inr (Or.inl ⟨rfl, hy⟩))))]
  simp only [arithOp, toInt_u64]
  simp


theorem nn_u64 (y : Nat) (hy : y < 2^64) : NonNegT .u64 y := Or.inr (Or.inr (Or.inr (Or.inl ⟨rfl, hy⟩)))
theorem nn_zero : NonNegT .i32 0 := Or.inr (Or.inr (Or.inr (Or.inr ⟨rfl, by decide⟩)))

/-- `a + b` with `a : std::size_t`: computed modulo 2^64 -/
theorem add_u64_left (t : CTy) (a b : Nat) (ha : a < 2^64) (hb : NonNegT t b) :
    binop .add ⟨.u64, a⟩ ⟨t, b⟩ = some ⟨.u64, (a + b) % 2^64⟩ := by
  have hs := nonneg_small t b hb
  obtain ⟨hp, hpn⟩ := nonneg_promote t b hb
  obtain ⟨hp2, hpn2⟩ := nonneg_promote .u64 a (nn_u64 a ha)
  have hc : CTy.common CTy.u64.promote t.promote = .u64 := by
    rcases hb with ⟨rfl, _⟩ | ⟨rfl, _⟩ | ⟨rfl, _⟩ | ⟨rfl, _⟩ | ⟨rfl, _⟩ <;> rfl
  rw [binop_int _ _ _ rfl hs.2.2]
  simp only [intBinop, hp, hp2]
  simp only [if_false, reduceCtorEq, hc]
  rw [conv_u64_nonneg _ _ hpn, conv_u64_nonneg _ _ hpn2]
  simp only [arithOp, arith, CTy.signed, toInt_u64]
  simp only [Bool.false_eq_true, if_false]
  have := mk_mod_eq_wrap .u64 (a + b)
  simp only [CTy.bits] at this
  rw [this]; simp

theorem toInt_nonneg (t : CTy) (b : Nat) (h : NonNegT t b) : toInt ⟨t, b⟩ = (b : Int) := by
  rcases (nonneg_small t b h).1 with h1 | h1
  · exact toInt_mk_unsigned t b h1
  · exact toInt_mk_small t b h1

theorem conv_self_nonneg (t : CTy) (b : Nat) (h : NonNegT t b) : conv t ⟨t, b⟩ = ⟨t, b⟩ := by
  have hs := nonneg_small t b h
  refine conv_mk_nonneg _ _ _ ?_ hs.1 hs.2.1
  rcases h with ⟨rfl, _⟩ | ⟨rfl, _⟩ | ⟨rfl, _⟩ | ⟨rfl, _⟩ | ⟨rfl, _⟩ <;> decide

/-- addition without wrap-around in a type where the sum is again a non-negative value -/
theorem arith_add_nonneg (t : CTy) (a b : Nat) (ha : NonNegT t a) (hb : NonNegT t b) (hab : NonNegT t (a + b)) :
    arithOp .add t ⟨t, a⟩ ⟨t, b⟩ = some ⟨t, a + b⟩ := by
  simp only [arithOp, toInt_nonneg t a ha, toInt_nonneg t b hb, arith]
  have hs := nonneg_small t (a + b) hab
  have hw : wrap t ((a : Int) + (b : Int)) = ⟨t, a + b⟩ := by
    have := wrap_nat t (a + b) hs.2.1
    simpa using this
  by_cases hsg : t.signed = true
  · simp only [hsg, if_true, exact]
    have hin : inRange t ((a : Int) + (b : Int)) = true := by
      rcases hab with ⟨rfl, _⟩ | ⟨rfl, _⟩ | ⟨rfl, _⟩ | ⟨rfl, _⟩ | ⟨rfl, h⟩
      · cases hsg
      · cases hsg
      · cases hsg
      · cases hsg
      · simp only [inRange, CTy.signed, CTy.bits, if_true, Bool.and_eq_true]
        refine ⟨decide_eq_true ?_, decide_eq_true ?_⟩ <;> omega
    simp only [hin, if_true, hw]
  · have : t.signed = false := by simpa using hsg
    simp only [this, Bool.false_eq_true, if_false, hw]

/-- `0 + b` (literal `0 : int`): the value of `b` in its promoted type -/
theorem add_zero_left (t : CTy) (b : Nat) (hb : NonNegT t b) :
    binop .add ⟨.i32, 0⟩ ⟨t, b⟩ = some ⟨t.promote, b⟩ := by
  have hs := nonneg_small t b hb
  obtain ⟨hp, hpn⟩ := nonneg_promote t b hb
  obtain ⟨hp2, hpn2⟩ := nonneg_promote .i32 0 nn_zero
  have hc : CTy.common CTy.i32.promote t.promote = t.promote := by
    rcases hb with ⟨rfl, _⟩ | ⟨rfl, _⟩ | ⟨rfl, _⟩ | ⟨rfl, _⟩ | ⟨rfl, _⟩ <;> rfl
  have hz : NonNegT t.promote 0 := by
    rcases hb with ⟨rfl, _⟩ | ⟨rfl, _⟩ | ⟨rfl, _⟩ | ⟨rfl, _⟩ | ⟨rfl, _⟩
    · exact nn_zero
    · exact nn_zero
    · exact Or.inr (Or.inr (Or.inl ⟨rfl, by decide⟩))
    · exact Or.inr (Or.inr (Or.inr (Or.inl ⟨rfl, by decide⟩)))
    · exact nn_zero
  have hcz : conv t.promote ⟨CTy.i32.promote, 0⟩ = ⟨t.promote, 0⟩ := by
    have hnb : t.promote ≠ .bool := by
      rcases hb with ⟨rfl, _⟩ | ⟨rfl, _⟩ | ⟨rfl, _⟩ | ⟨rfl, _⟩ | ⟨rfl, _⟩ <;> decide
    exact conv_mk_nonneg _ _ _ hnb (Or.inr (by decide)) (Nat.two_pow_pos _)
  rw [binop_int _ _ _ rfl hs.2.2]
  simp only [intBinop, hp, hp2]
  simp only [if_false, reduceCtorEq, hc, hcz, conv_self_nonneg _ _ hpn]
  have := arith_add_nonneg t.promote 0 b hz hpn (by simpa using hpn)
  simpa using this


theorem sub_ptr (e b : Nat) (hb : b < 2^63) (he : e < 2^63) :
    binop .sub ⟨.ptr, e⟩ ⟨.ptr, b⟩ = some (wrap .i64 ((e : Int) - (b : Int))) := by
  have h1 : toInt ⟨.ptr, b⟩ = (b : Int) := toInt_mk_small .ptr b (by simpa [CTy.bits] using hb)
  have h2 : toInt ⟨.ptr, e⟩ = (e : Int) := toInt_mk_small .ptr e (by simpa [CTy.bits] using he)
  simp only [binop, CTy.isPtr, Bool.or_self, if_true, ptrBinop, Bool.and_self, isCmp]
  simp only [h1, h2, exact, inRange, CTy.signed, CTy.bits]
  simp
  omega

theorem conv_u64_diff (e b : Nat) (hb : b < 2^63) (he : e < 2^63) :
    conv .u64 (wrap .i64 ((e : Int) - (b : Int))) = wrap .u64 ((e : Int) - (b : Int)) := by
  apply conv_wrap
  · simp only [inRange, CTy.signed, CTy.bits, if_true, Bool.and_eq_true]
    refine ⟨decide_eq_true ?_, decide_eq_true ?_⟩ <;> omega
  · decide

/-- the value of `static_cast<std::size_t>(end - begin)` -/
def udiff (e b : Nat) : Nat := (((e : Int) - (b : Int)) % 18446744073709551616).toNat

theorem wrap_u64_diff (e b : Nat) : wrap .u64 ((e : Int) - (b : Int)) = ⟨.u64, udiff e b⟩ := by
  simp [wrap, udiff, CTy.bits]

theorem udiff_lt (e b : Nat) : udiff e b < 2^64 := by
  unfold udiff; omega

theorem le_ptr (b e : Nat) (hb : b < 2^63) (he : e < 2^63) :
    binop .le ⟨.ptr, b⟩ ⟨.ptr, e⟩ = some (ofBool (decide (b ≤ e))) := by
  have h1 : toInt ⟨.ptr, b⟩ = (b : Int) := toInt_mk_small .ptr b (by simpa [CTy.bits] using hb)
  have h2 : toInt ⟨.ptr, e⟩ = (e : Int) := toInt_mk_small .ptr e (by simpa [CTy.bits] using he)
  simp only [binop, CTy.isPtr, Bool.or_self, if_true, ptrBinop, Bool.and_self, isCmp, cmp, h1, h2]
  simp

/-- the value of the size-check condition: non-null begin, begin ≤ end (pointers compared as
    addresses), `offset + size` (already computed in its C++ type: `sum`) at most
    `static_cast<std::size_t>(end - begin)` -/
def stdOk (b e sum : Nat) : Bool := decide (b ≠ 0) && decide (b ≤ e) && decide (sum ≤ udiff e b)

theorem macro_eval (b e : Nat) (vo vs : CVal) (ts : CTy) (sum : Nat)
    (hb : b < 2^63) (he : e < 2^63) (hsum : binop .add vo vs = some ⟨ts, sum⟩) (hn : NonNegT ts sum) :
    (sizeCheckMacro.eval (macroEnv ⟨.ptr, b⟩ ⟨.ptr, e⟩ vo vs)).map isTrue = some (stdOk b e sum) := by
  simp only [sizeCheckMacro, macroEnv, CExpr.eval, Env.get?]
  simp only [String.reduceEq, if_true, if_false]
  rw [hsum, sub_ptr e b hb he, le_ptr b e hb he]
  simp only [Option.map_some, conv_u64_diff e b hb he, wrap_u64_diff]
  rw [le_u64_right ts sum (udiff e b) hn (udiff_lt e b)]
  simp only [isTrue_mk, stdOk]
  by_cases h0 : b = 0
  · subst h0; simp [ofBool, isTrue]
  · have : (b != 0) = true := by simpa using h0
    by_cases hbe : b ≤ e
    · by_cases hle : sum ≤ udiff e b <;> simp [this, h0, hbe, hle, ofBool, isTrue]
    · simp [this, h0, hbe, ofBool, isTrue]
end Sbepp.CVal

namespace Sbepp.CVal
open Sbepp Sbepp.Extracted.SizeChecks Sbepp.Rt.Guards

theorem udiff_le (e b : Nat) (h : b ≤ e) (he : e < 2^64) : udiff e b = e - b := by
  unfold udiff
  have h1 : ((e : Int) - (b : Int)) = ((e - b : Nat) : Int) := by omega
  rw [h1]
  have h2 : ((e - b : Nat) : Int) % 18446744073709551616 = ((e - b : Nat) : Int) := by
    apply Int.emod_eq_of_lt <;> omega
  rw [h2]; simp

theorem udiff_gt (e b : Nat) (h : e < b) (hb : b < 2^64) : udiff e b = 2^64 - (b - e) := by
  unfold udiff
  have h1 : ((e : Int) - (b : Int)) = -((b - e : Nat) : Int) := by omega
  rw [h1]
  have h2 : (-((b - e : Nat) : Int)) % 18446744073709551616 = ((2^64 - (b - e) : Nat) : Int) := by
    rw [Int.emod_def]
    have hdiv : (-((b - e : Nat) : Int)) / 18446744073709551616 = -1 := by
      apply Int.ediv_eq_iff_of_pos (by decide) |>.mpr <;> constructor <;> omega
    rw [hdiv]; omega
  rw [h2]; simp

/-- a passing check bounds the guarded bytes by the end pointer (it also says begin ≤ end) -/
theorem stdOk_sound (B E sum : Nat) (hE : E < 2^64) (h : stdOk B E sum = true) : B ≤ E ∧ B + sum ≤ E := by
  simp only [stdOk, Bool.and_eq_true, decide_eq_true_eq] at h
  rw [udiff_le E B h.1.2 hE] at h
  omega

/-- non-null begin ≤ end: guarded bytes inside ⇒ the check passes -/
theorem stdOk_complete (B E sum : Nat) (hB : 0 < B) (hBE : B ≤ E) (hE : E < 2^64) (h : B + sum ≤ E) :
    stdOk B E sum = true := by
  simp only [stdOk, Bool.and_eq_true, decide_eq_true_eq]
  rw [udiff_le E B hBE hE]
  omega

/-- begin > end: the check fails whatever offset and size are -/
theorem stdOk_past_end (B E sum : Nat) (hEB : E < B) : stdOk B E sum = false := by
  simp only [stdOk]
  have : ¬ B ≤ E := by omega
  simp [this]

end Sbepp.CVal

namespace Sbepp.Rt.Guards
open Sbepp Sbepp.CVal Sbepp.Extracted.SizeChecks

/-- unfolding of `evalSizeCheck` once the site's expressions and their values are known -/
theorem evalSizeCheck_of (site : Site) (k : Nat) (env : Env) (eb ee eo es x : CExpr) (vb ve vo vs : CVal)
    (hs : site.sizeCheck? k = some (eb, ee, eo, es, x))
    (h1 : eb.eval env = some vb) (h2 : ee.eval env = some ve) (h3 : eo.eval env = some vo)
    (h4 : es.eval env = some vs) :
    evalSizeCheck site k env = (sizeCheckMacro.eval (macroEnv vb ve vo vs)).map CVal.isTrue := by
  simp only [evalSizeCheck, hs, h1, h2, h3, h4]


theorem getValue_check (c : Ctx) (b off sz : Nat) (hb : c.base + b < 2^63) (hn : c.base + c.n < 2^63)
    (ho : off < 2^64) (hs : sz < 2^64) :
    evalSizeCheck detail_get_value__view_offset 0 (c.be b ++ [("offset", u64 off), ("sizeof_U", u64 sz)])
      = some (stdOk (c.base + b) (c.base + c.n) ((off + sz) % 2^64)) := by
  rw [evalSizeCheck_of detail_get_value__view_offset 0 _ _ _ _ _ _ (c.p b) c.endp (u64 off) (u64 sz) rfl rfl rfl rfl rfl]
  exact macro_eval _ _ _ _ .u64 _ hb hn (add_u64_left .u64 off sz ho (nn_u64 sz hs)) (nn_u64 _ (Nat.mod_lt _ (by decide)))


theorem setValue_check (c : Ctx) (b off sz : Nat) (hb : c.base + b < 2^63) (hn : c.base + c.n < 2^63)
    (ho : off < 2^64) (hs : sz < 2^64) :
    evalSizeCheck detail_set_value__view_offset_value 0 (c.be b ++ [("offset", u64 off), ("sizeof_T", u64 sz)])
      = some (stdOk (c.base + b) (c.base + c.n) ((off + sz) % 2^64)) := by
  rw [evalSizeCheck_of detail_set_value__view_offset_value 0 _ _ _ _ _ _ (c.p b) c.endp (u64 off) (u64 sz) rfl rfl rfl rfl rfl]
  exact macro_eval _ _ _ _ .u64 _ hb hn (add_u64_left .u64 off sz ho (nn_u64 sz hs)) (nn_u64 _ (Nat.mod_lt _ (by decide)))

theorem staticView_check (c : Ctx) (b off : Nat) (hb : c.base + b < 2^63) (hn : c.base + c.n < 2^63)
    (ho : off < 2^64) :
    evalSizeCheck detail_get_static_field_view__view_offset 0 (c.be b ++ [("offset", u64 off)])
      = some (stdOk (c.base + b) (c.base + c.n) ((off + 0) % 2^64)) := by
  rw [evalSizeCheck_of detail_get_static_field_view__view_offset 0 _ _ _ _ _ _ (c.p b) c.endp (u64 off) ⟨.i32, 0⟩ rfl rfl rfl rfl rfl]
  exact macro_eval _ _ _ _ .u64 _ hb hn (add_u64_left .i32 off 0 ho nn_zero) (nn_u64 _ (Nat.mod_lt _ (by decide)))

/-- the three `operator()(get_header_tag)` sites have the same shape: `(begin, end, 0, size_bytes(header))` -/
theorem header_check (c : Ctx) (site : Site) (b hdr : Nat)
    (hsite : (site.sizeCheck? 0).map (fun t => (t.1, t.2.1, t.2.2.1, t.2.2.2.1)) =
        some (.var "begin", .var "end", .lit .i32 0, .var "size_bytes_header"))
    (hb : c.base + b < 2^63) (hn : c.base + c.n < 2^63) (hh : hdr < 2^64) :
    evalSizeCheck site 0 (c.be b ++ [("size_bytes_header", u64 hdr)])
      = some (stdOk (c.base + b) (c.base + c.n) ((0 + hdr) % 2^64)) := by
  match h : site.sizeCheck? 0, hsite with
  | some (eb, ee, eo, es, x), hsite =>
  simp only [Option.map_some, Option.some.injEq, Prod.mk.injEq] at hsite
  obtain ⟨rfl, rfl, rfl, rfl⟩ := hsite
  rw [evalSizeCheck_of site 0 _ _ _ _ _ _ (c.p b) c.endp ⟨.i32, 0⟩ (u64 hdr) h rfl rfl rfl rfl]
  have h0 : (0 + hdr) % 2^64 = hdr := by rw [Nat.zero_add]; exact Nat.mod_eq_of_lt hh
  rw [h0]
  exact macro_eval _ _ _ _ CTy.u64.promote _ hb hn (add_zero_left .u64 hdr (nn_u64 hdr hh)) (nn_u64 hdr hh)

theorem msgHeader_site : (message_base_call__get_header_tag.sizeCheck? 0).map (fun t => (t.1, t.2.1, t.2.2.1, t.2.2.2.1)) =
    some (.var "begin", .var "end", .lit .i32 0, .var "size_bytes_header") := rfl
theorem flatHeader_site : (flat_group_base_call__get_header_tag.sizeCheck? 0).map (fun t => (t.1, t.2.1, t.2.2.1, t.2.2.2.1)) =
    some (.var "begin", .var "end", .lit .i32 0, .var "size_bytes_header") := rfl
theorem nestedHeader_site : (nested_group_base_call__get_header_tag.sizeCheck? 0).map (fun t => (t.1, t.2.1, t.2.2.1, t.2.2.2.1)) =
    some (.var "begin", .var "end", .lit .i32 0, .var "size_bytes_header") := rfl

/-- a header member of `w` bytes holds a value of its unsigned C++ type -/
def CanonV (w x : Nat) : Prop := x < 2 ^ (uTy w).bits

theorem nn_uval (w x : Nat) (h : CanonV w x) : NonNegT (uTy w) x := by
  unfold CanonV at h
  unfold uTy at h ⊢
  split at h <;> simp only [CTy.bits] at h
  · exact Or.inl ⟨rfl, h⟩
  · exact Or.inr (Or.inl ⟨rfl, h⟩)
  · exact Or.inr (Or.inr (Or.inl ⟨rfl, h⟩))
  · exact Or.inr (Or.inr (Or.inr (Or.inl ⟨rfl, h⟩)))

theorem canon_lt (w x : Nat) (h : CanonV w x) : x < 2^64 := by
  unfold CanonV at h
  have : (uTy w).bits ≤ 64 := by unfold uTy; split <;> decide
  exact Nat.lt_of_lt_of_le h (Nat.pow_le_pow_right (by decide) this)

theorem nn_promote_uval (w x : Nat) (h : CanonV w x) : NonNegT (uTy w).promote x :=
  (nonneg_promote _ _ (nn_uval w x h)).2

theorem raInc_check (c : Ctx) (ptr bl w : Nat) (hb : c.base + ptr < 2^63) (hn : c.base + c.n < 2^63)
    (hv : CanonV w bl) :
    evalSizeCheck random_access_iterator_inc 0 [("ptr", c.p ptr), ("end", c.endp), ("block_length", uval w bl)]
      = some (stdOk (c.base + ptr) (c.base + c.n) ((0 + bl) % 2^64)) := by
  rw [evalSizeCheck_of random_access_iterator_inc 0 _ _ _ _ _ _ (c.p ptr) c.endp ⟨.i32, 0⟩ (uval w bl) rfl rfl rfl rfl rfl]
  have h0 : (0 + bl) % 2^64 = bl := by rw [Nat.zero_add]; exact Nat.mod_eq_of_lt (canon_lt w bl hv)
  rw [h0]
  exact macro_eval _ _ _ _ (uTy w).promote _ hb hn (add_zero_left (uTy w) bl (nn_uval w bl hv)) (nn_promote_uval w bl hv)

theorem emptyEntryCtor_check (c : Ctx) (cur bl w : Nat) (hb : c.base + cur < 2^63) (hn : c.base + c.n < 2^63)
    (hv : CanonV w bl) :
    evalSizeCheck generated_entry_cursor_ctor 0 (c.be cur ++ [("block_length", uval w bl)])
      = some (stdOk (c.base + cur) (c.base + c.n) ((0 + bl) % 2^64)) := by
  rw [evalSizeCheck_of generated_entry_cursor_ctor 0 _ _ _ _ _ _ (c.p cur) c.endp ⟨.i32, 0⟩ (uval w bl) rfl rfl rfl rfl rfl]
  have h0 : (0 + bl) % 2^64 = bl := by rw [Nat.zero_add]; exact Nat.mod_eq_of_lt (canon_lt w bl hv)
  rw [h0]
  exact macro_eval _ _ _ _ (uTy w).promote _ hb hn (add_zero_left (uTy w) bl (nn_uval w bl hv)) (nn_promote_uval w bl hv)

theorem fwdInc_check (c : Ctx) (ptr sz : Nat) (hb : c.base + ptr < 2^63) (hn : c.base + c.n < 2^63)
    (hs : sz < 2^64) :
    evalSizeCheck forward_iterator_inc 0 [("ptr", c.p ptr), ("end", c.endp), ("size_bytes_entry", u64 sz)]
      = some (stdOk (c.base + ptr) (c.base + c.n) ((0 + sz) % 2^64)) := by
  rw [evalSizeCheck_of forward_iterator_inc 0 _ _ _ _ _ _ (c.p ptr) c.endp ⟨.i32, 0⟩ (u64 sz) rfl rfl rfl rfl rfl]
  have h0 : (0 + sz) % 2^64 = sz := by rw [Nat.zero_add]; exact Nat.mod_eq_of_lt hs
  rw [h0]
  exact macro_eval _ _ _ _ CTy.u64.promote _ hb hn (add_zero_left .u64 sz (nn_u64 sz hs)) (nn_u64 sz hs)

theorem arrData_check (c : Ctx) (p N : Nat) (hb : c.base + p < 2^63) (hn : c.base + c.n < 2^63) (hN : N < 2^64) :
    evalSizeCheck static_array_ref_data 0 (c.be p ++ [("N", u64 N)])
      = some (stdOk (c.base + p) (c.base + c.n) ((0 + N) % 2^64)) := by
  rw [evalSizeCheck_of static_array_ref_data 0 _ _ _ _ _ _ (c.p p) c.endp ⟨.i32, 0⟩ (u64 N) rfl rfl rfl rfl rfl]
  have h0 : (0 + N) % 2^64 = N := by rw [Nat.zero_add]; exact Nat.mod_eq_of_lt hN
  rw [h0]
  exact macro_eval _ _ _ _ CTy.u64.promote _ hb hn (add_zero_left .u64 N (nn_u64 N hN)) (nn_u64 N hN)

theorem dataUnchecked_check (c : Ctx) (d : DataL) (p : Nat) (hb : c.base + p < 2^63) (hn : c.base + c.n < 2^63)
    (hl : d.lenSize < 2^64) :
    evalSizeCheck dynamic_array_ref_data_unchecked 0 (dynEnv c d p)
      = some (stdOk (c.base + p) (c.base + c.n) ((0 + d.lenSize) % 2^64)) := by
  rw [evalSizeCheck_of dynamic_array_ref_data_unchecked 0 _ _ _ _ _ _ (c.p p) c.endp ⟨.i32, 0⟩ (u64 d.lenSize) rfl rfl rfl rfl rfl]
  have h0 : (0 + d.lenSize) % 2^64 = d.lenSize := by rw [Nat.zero_add]; exact Nat.mod_eq_of_lt hl
  rw [h0]
  exact macro_eval _ _ _ _ CTy.u64.promote _ hb hn (add_zero_left .u64 _ (nn_u64 _ hl)) (nn_u64 _ hl)

theorem eval_add_vars (env : Env) (x y : String) (vx vy : CVal) (hx : env.get? x = some vx) (hy : env.get? y = some vy) :
    (CExpr.bin .add (.var x) (.var y)).eval env = CVal.binop .add vx vy := by
  simp only [CExpr.eval, hx, hy]

/-- `sizeof(size_type) + size()` is computed in `std::size_t`: it WRAPS for a 64-bit length type -/
theorem dataChecked_check (c : Ctx) (d : DataL) (p len : Nat) (hb : c.base + p < 2^63) (hn : c.base + c.n < 2^63)
    (hl : d.lenSize < 2^64) (hv : CanonV d.lenSize len) :
    evalSizeCheck dynamic_array_ref_data_checked 0 (dynEnv c d p ++ [("size", uval d.lenSize len)])
      = some (stdOk (c.base + p) (c.base + c.n) ((d.lenSize + len) % 2^64)) := by
  have hsum : (CExpr.bin .add (.var "sizeof_size_type") (.var "size")).eval (dynEnv c d p ++ [("size", uval d.lenSize len)])
      = some ⟨.u64, (d.lenSize + len) % 2^64⟩ := by
    have ha : Env.get? (dynEnv c d p ++ [("size", uval d.lenSize len)]) "sizeof_size_type" = some (u64 d.lenSize) := rfl
    have hb' : Env.get? (dynEnv c d p ++ [("size", uval d.lenSize len)]) "size" = some (uval d.lenSize len) := rfl
    rw [eval_add_vars _ _ _ _ _ ha hb']
    exact add_u64_left (uTy d.lenSize) d.lenSize len hl (nn_uval _ _ hv)
  rw [evalSizeCheck_of dynamic_array_ref_data_checked 0 _ _ _ _ _ _ (c.p p) c.endp ⟨.i32, 0⟩ ⟨.u64, (d.lenSize + len) % 2^64⟩ rfl rfl rfl rfl hsum]
  have hlt : (d.lenSize + len) % 2^64 < 2^64 := Nat.mod_lt _ (by decide)
  exact macro_eval _ _ _ _ CTy.u64.promote _ hb hn (add_zero_left .u64 _ (nn_u64 _ hlt)) (nn_u64 _ hlt)

theorem dataResize_check (c : Ctx) (d : DataL) (p count : Nat) (hb : c.base + p < 2^63) (hn : c.base + c.n < 2^63)
    (hl : d.lenSize < 2^64) (hv : CanonV d.lenSize count) :
    evalSizeCheck dynamic_array_ref_resize__count_default_init_t 0 (dynEnv c d p ++ [("count", uval d.lenSize count)])
      = some (stdOk (c.base + p) (c.base + c.n) ((d.lenSize + count) % 2^64)) := by
  have hsum : (CExpr.bin .add (.var "sizeof_size_type") (.var "count")).eval (dynEnv c d p ++ [("count", uval d.lenSize count)])
      = some ⟨.u64, (d.lenSize + count) % 2^64⟩ := by
    have ha : Env.get? (dynEnv c d p ++ [("count", uval d.lenSize count)]) "sizeof_size_type" = some (u64 d.lenSize) := rfl
    have hb' : Env.get? (dynEnv c d p ++ [("count", uval d.lenSize count)]) "count" = some (uval d.lenSize count) := rfl
    rw [eval_add_vars _ _ _ _ _ ha hb']
    exact add_u64_left (uTy d.lenSize) d.lenSize count hl (nn_uval _ _ hv)
  rw [evalSizeCheck_of dynamic_array_ref_resize__count_default_init_t 0 _ _ _ _ _ _ (c.p p) c.endp ⟨.i32, 0⟩ ⟨.u64, (d.lenSize + count) % 2^64⟩ rfl rfl rfl rfl hsum]
  have hlt : (d.lenSize + count) % 2^64 < 2^64 := Nat.mod_lt _ (by decide)
  exact macro_eval _ _ _ _ CTy.u64.promote _ hb hn (add_zero_left .u64 _ (nn_u64 _ hlt)) (nn_u64 _ hlt)

end Sbepp.Rt.Guards

namespace Sbepp.Rt.Guards
open Sbepp Sbepp.CVal Sbepp.Extracted.SizeChecks

/-! ### event lists: faithful checks, covered touches -/

/-- the recorded outcome of every check is the value of the size-check condition for the begin,
    offset and size the model attributes to it (`offset + size` in `std::size_t`) -/
def Faithful (c : Ctx) : List Ev → Prop
  | [] => True
  | .check b off size ok :: r =>
    (c.base + b < 2^63 → off + size < 2^64 → ok = some (stdOk (c.base + b) (c.base + c.n) (off + size))) ∧ Faithful c r
  | _ :: r => Faithful c r

theorem faithful_append (c : Ctx) (a b : List Ev) : Faithful c (a ++ b) ↔ Faithful c a ∧ Faithful c b := by
  induction a with
  | nil => simp [Faithful]
  | cons e r ih =>
    cases e <;> simp only [List.cons_append, Faithful, ih, and_assoc]

/-- the range `[lo, lo+len)` lies within the bytes guarded by one of the checks seen so far -/
def coveredBy (seen : List (Nat × Nat × Nat)) (lo len : Nat) : Prop :=
  len = 0 ∨ ∃ t ∈ seen, t.1 + t.2.1 ≤ lo ∧ lo + len ≤ t.1 + t.2.1 + t.2.2

/-- every touch is preceded by a check whose guarded bytes contain it -/
def Covered : List (Nat × Nat × Nat) → List Ev → Prop
  | _, [] => True
  | seen, .check b off size _ :: r => Covered ((b, off, size) :: seen) r
  | seen, .assert _ :: r => Covered seen r
  | seen, .touch lo len _ :: r => coveredBy seen lo len ∧ Covered seen r

theorem coveredBy_mono {s1 s2 : List (Nat × Nat × Nat)} (h : ∀ t ∈ s1, t ∈ s2) {lo len : Nat}
    (hc : coveredBy s1 lo len) : coveredBy s2 lo len := by
  rcases hc with h0 | ⟨t, ht, h1⟩
  · exact Or.inl h0
  · exact Or.inr ⟨t, h t ht, h1⟩

theorem covered_mono (evs : List Ev) : ∀ (s1 s2 : List (Nat × Nat × Nat)), (∀ t ∈ s1, t ∈ s2) →
    Covered s1 evs → Covered s2 evs := by
  induction evs with
  | nil => intros; trivial
  | cons e r ih =>
    intro s1 s2 h hc
    cases e with
    | check b off size ok =>
      simp only [Covered] at hc ⊢
      exact ih _ _ (by intro t ht; simp only [List.mem_cons] at ht ⊢; rcases ht with h1 | h1
                       · exact Or.inl h1
                       · exact Or.inr (h t h1)) hc
    | assert ok => simp only [Covered] at hc ⊢; exact ih _ _ h hc
    | touch lo len w => simp only [Covered] at hc ⊢; exact ⟨coveredBy_mono h hc.1, ih _ _ h hc.2⟩

theorem covered_append (a : List Ev) : ∀ (seen : List (Nat × Nat × Nat)) (b : List Ev),
    Covered seen a → Covered [] b → Covered seen (a ++ b) := by
  induction a with
  | nil => intro seen b _ hb; exact covered_mono b [] seen (by intro t ht; cases ht) hb
  | cons e r ih =>
    intro seen b ha hb
    cases e with
    | check b' off size ok => simp only [List.cons_append, Covered] at ha ⊢; exact ih _ _ ha hb
    | assert ok => simp only [List.cons_append, Covered] at ha ⊢; exact ih _ _ ha hb
    | touch lo len w => simp only [List.cons_append, Covered] at ha ⊢; exact ⟨ha.1, ih _ _ ha.2 hb⟩

/-- every pointer a check is made on is representable (address below 2^63): no pointer arithmetic of
    the call overflowed.  Only 64-bit header values can violate this. -/
def PtrsRepresentable (c : Ctx) : List Ev → Prop
  | [] => True
  | .check b _ _ _ :: r => c.base + b < 2^63 ∧ PtrsRepresentable c r
  | _ :: r => PtrsRepresentable c r

/-- `offset + size` does not wrap around in `std::size_t` -/
def NoWrap : List Ev → Prop
  | [] => True
  | .check _ off size _ :: r => off + size < 2^64 ∧ NoWrap r
  | _ :: r => NoWrap r

theorem ptrsRepresentable_append (c : Ctx) (a b : List Ev) : PtrsRepresentable c (a ++ b) ↔ PtrsRepresentable c a ∧ PtrsRepresentable c b := by
  induction a with
  | nil => simp [PtrsRepresentable]
  | cons e r ih => cases e <;> simp only [List.cons_append, PtrsRepresentable, ih, and_assoc]

theorem noWrap_append (a b : List Ev) : NoWrap (a ++ b) ↔ NoWrap a ∧ NoWrap b := by
  induction a with
  | nil => simp [NoWrap]
  | cons e r ih => cases e <;> simp only [List.cons_append, NoWrap, ih, and_assoc]

theorem inside_of_covered (n : Nat) (seen : List (Nat × Nat × Nat)) (lo len : Nat)
    (hseen : ∀ t ∈ seen, t.1 + t.2.1 + t.2.2 ≤ n) (hc : coveredBy seen lo len) : inside n lo len = true := by
  unfold inside
  rcases hc with h0 | ⟨t, ht, h1, h2⟩
  · simp [h0]
  · have := hseen t ht
    simp only [Bool.or_eq_true, beq_iff_eq, decide_eq_true_eq]
    right; omega

/-- a passing, faithful check bounds its guarded bytes by `n` (and its view begins inside) -/
theorem check_bound (c : Ctx) (hwf : c.WF) (b off size : Nat) (ok : Option Bool)
    (hf : c.base + b < 2^63 → off + size < 2^64 → ok = some (stdOk (c.base + b) (c.base + c.n) (off + size)))
    (hv : c.base + b < 2^63) (hnw : off + size < 2^64) (hok : ok = some true) : b + off + size ≤ c.n := by
  have h := hf hv hnw
  rw [hok] at h
  have h' : stdOk (c.base + b) (c.base + c.n) (off + size) = true := by
    injection h with h; exact h.symm
  have := stdOk_sound _ _ _ (by have := hwf.2; omega) h'
  omega

/-- SOUNDNESS on event lists: if all checks pass, every touched byte lies inside `[0, n)` -/
theorem covered_sound (c : Ctx) (hwf : c.WF) (evs : List Ev) : ∀ (seen : List (Nat × Nat × Nat)),
    (∀ t ∈ seen, t.1 + t.2.1 + t.2.2 ≤ c.n) → Covered seen evs → Faithful c evs → PtrsRepresentable c evs →
    NoWrap evs → guard evs = true → allInside c.n (touches evs) = true := by
  induction evs with
  | nil => intros; rfl
  | cons e r ih =>
    intro seen hseen hc hf hv hnw hg
    cases e with
    | check b off size ok =>
      simp only [Covered, Faithful, PtrsRepresentable, NoWrap] at hc hf hv hnw
      simp only [guard, List.all_cons, Ev.passes, Bool.and_eq_true, beq_iff_eq] at hg
      have hb := check_bound c hwf b off size ok hf.1 hv.1 hnw.1 hg.1
      simp only [touches]
      exact ih _ (by intro t ht; simp only [List.mem_cons] at ht; rcases ht with h | h
                     · subst h; exact hb
                     · exact hseen t h) hc hf.2 hv.2 hnw.2 (by simpa [guard] using hg.2)
    | assert ok =>
      simp only [Covered, Faithful, PtrsRepresentable, NoWrap] at hc hf hv hnw
      simp only [guard, List.all_cons, Bool.and_eq_true] at hg
      simp only [touches]
      exact ih _ hseen hc hf hv hnw (by simpa [guard] using hg.2)
    | touch lo len w =>
      simp only [Covered, Faithful, PtrsRepresentable, NoWrap] at hc hf hv hnw
      simp only [guard, List.all_cons, Bool.and_eq_true] at hg
      simp only [touches, allInside, List.all_cons, Bool.and_eq_true]
      exact ⟨inside_of_covered c.n seen lo len hseen hc.1,
             by simpa [allInside] using ih _ hseen hc.2 hf hv hnw (by simpa [guard] using hg.2)⟩

/-- NO SILENT ACCESS on event lists: whatever the outcome, no byte at or beyond `n` is touched
    before the first failed check -/
theorem covered_no_fault (c : Ctx) (hwf : c.WF) (evs : List Ev) : ∀ (seen : List (Nat × Nat × Nat)) (i : Nat),
    (∀ t ∈ seen, t.1 + t.2.1 + t.2.2 ≤ c.n) → Covered seen evs → Faithful c evs → PtrsRepresentable c evs →
    NoWrap evs → ∀ k, run c.n evs i ≠ .fault k := by
  induction evs with
  | nil => intro _ _ _ _ _ _ _ k h; simp [run] at h
  | cons e r ih =>
    intro seen i hseen hc hf hv hnw k
    cases e with
    | check b off size ok =>
      simp only [Covered, Faithful, PtrsRepresentable, NoWrap] at hc hf hv hnw
      match ok, hf with
      | some true, hf =>
        simp only [run]
        have hb := check_bound c hwf b off size (some true) hf.1 hv.1 hnw.1 rfl
        exact ih _ _ (by intro t ht; simp only [List.mem_cons] at ht; rcases ht with h | h
                         · subst h; exact hb
                         · exact hseen t h) hc hf.2 hv.2 hnw.2 k
      | some false, _ => simp [run]
      | none, _ => simp [run]
    | assert ok =>
      simp only [Covered, Faithful, PtrsRepresentable, NoWrap] at hc hf hv hnw
      match ok with
      | some true => simp only [run]; exact ih _ _ hseen hc hf hv hnw k
      | some false => simp [run]
      | none => simp [run]
    | touch lo len w =>
      simp only [Covered, Faithful, PtrsRepresentable, NoWrap] at hc hf hv hnw
      simp only [run, inside_of_covered c.n seen lo len hseen hc.1, if_true]
      exact ih _ _ hseen hc.2 hf hv hnw k

end Sbepp.Rt.Guards

namespace Sbepp.Rt.Guards
open Sbepp Sbepp.CVal Sbepp.Extracted.SizeChecks

/-! ### every accessor kind: faithful checks; checks cover the touched bytes -/

def Good (c : Ctx) (evs : List Ev) : Prop := Faithful c evs ∧ Covered [] evs

theorem good_nil (c : Ctx) : Good c [] := ⟨trivial, trivial⟩

theorem good_append {c : Ctx} {a b : List Ev} (ha : Good c a) (hb : Good c b) : Good c (a ++ b) :=
  ⟨(faithful_append c a b).mpr ⟨ha.1, hb.1⟩, covered_append a [] b ha.2 hb.2⟩

theorem good_assert (c : Ctx) (ok : Option Bool) : Good c [.assert ok] := ⟨trivial, trivial⟩

theorem mod_of_lt64 {x : Nat} (h : x < 2^64) : x % 2^64 = x := Nat.mod_eq_of_lt h

theorem getValue_good (c : Ctx) (hn : c.base + c.n < 2^63) (b off sz : Nat) : Good c (getValue c b off sz) := by
  refine ⟨⟨fun h63 hnw => ?_, trivial⟩, ?_⟩
  · rw [getValue_check c b off sz h63 hn (by omega) (by omega), mod_of_lt64 hnw]
  · exact ⟨Or.inr ⟨(b, off, sz), by simp, by simp, by simp⟩, trivial⟩

theorem setValue_good (c : Ctx) (hn : c.base + c.n < 2^63) (b off sz : Nat) : Good c (setValue c b off sz) := by
  refine ⟨⟨fun h63 hnw => ?_, trivial⟩, ?_⟩
  · rw [setValue_check c b off sz h63 hn (by omega) (by omega), mod_of_lt64 hnw]
  · exact ⟨Or.inr ⟨(b, off, sz), by simp, by simp, by simp⟩, trivial⟩

theorem staticView_good (c : Ctx) (hn : c.base + c.n < 2^63) (b off : Nat) : Good c (staticView c b off) := by
  refine ⟨⟨fun h63 hnw => ?_, trivial⟩, trivial⟩
  rw [staticView_check c b off h63 hn (by omega), mod_of_lt64 hnw]

theorem headerCheck_good (c : Ctx) (hn : c.base + c.n < 2^63) (site : Site) (b hdr : Nat)
    (hsite : (site.sizeCheck? 0).map (fun t => (t.1, t.2.1, t.2.2.1, t.2.2.2.1)) =
        some (.var "begin", .var "end", .lit .i32 0, .var "size_bytes_header")) :
    Good c (headerCheck c site b hdr) := by
  refine ⟨⟨fun h63 hnw => ?_, trivial⟩, trivial⟩
  rw [header_check c site b hdr hsite h63 hn (by omega), mod_of_lt64 hnw]

theorem grpHeader_good (c : Ctx) (hn : c.base + c.n < 2^63) (g : Group) (p : Nat) : Good c (grpHeader c g p) := by
  unfold grpHeader groupSite
  split
  · exact headerCheck_good c hn _ _ _ flatHeader_site
  · exact headerCheck_good c hn _ _ _ nestedHeader_site

theorem grpNum_good (c : Ctx) (hn : c.base + c.n < 2^63) (g : Group) (p : Nat) : Good c (grpNum c g p).1 :=
  good_append (grpHeader_good c hn g p) (getValue_good c hn _ _ _)

theorem grpBl_good (c : Ctx) (hn : c.base + c.n < 2^63) (g : Group) (p : Nat) : Good c (grpBl c g p).1 :=
  good_append (grpHeader_good c hn g p) (getValue_good c hn _ _ _)

theorem raInc_good (c : Ctx) (hn : c.base + c.n < 2^63) (ptr bl w : Nat) (hv : CanonV w bl) : Good c (raInc c ptr bl w) := by
  refine ⟨⟨fun h63 hnw => ?_, trivial⟩, trivial⟩
  rw [raInc_check c ptr bl w h63 hn hv, mod_of_lt64 hnw]

theorem emptyEntryCtor_good (c : Ctx) (hn : c.base + c.n < 2^63) (cur bl w : Nat) (hv : CanonV w bl) :
    Good c (emptyEntryCtor c cur bl w) := by
  refine ⟨⟨fun h63 hnw => ?_, trivial⟩, trivial⟩
  rw [emptyEntryCtor_check c cur bl w h63 hn hv, mod_of_lt64 hnw]

theorem fwdIncCheck_good (c : Ctx) (hn : c.base + c.n < 2^63) (ptr sz : Nat) : Good c (fwdIncCheck c ptr sz) := by
  refine ⟨⟨fun h63 hnw => ?_, trivial⟩, trivial⟩
  rw [fwdInc_check c ptr sz h63 hn (by omega), mod_of_lt64 hnw]

theorem arrData_good (c : Ctx) (hn : c.base + c.n < 2^63) (p N : Nat) : Good c (arrData c p N) := by
  refine ⟨⟨fun h63 hnw => ?_, trivial⟩, trivial⟩
  rw [arrData_check c p N h63 hn (by omega), mod_of_lt64 hnw]

theorem dataLen_good (c : Ctx) (hn : c.base + c.n < 2^63) (d : DataL) (p : Nat) : Good c (dataLen c d p).1 :=
  getValue_good c hn _ _ _

theorem dataSizeBytes_good (c : Ctx) (hn : c.base + c.n < 2^63) (d : DataL) (p : Nat) : Good c (dataSizeBytes c d p).1 :=
  getValue_good c hn _ _ _

theorem dataUnchecked_good (c : Ctx) (hn : c.base + c.n < 2^63) (d : DataL) (p : Nat) : Good c (dataUnchecked c d p) := by
  refine ⟨⟨fun h63 hnw => ?_, trivial⟩, trivial⟩
  rw [dataUnchecked_check c d p h63 hn (by omega), mod_of_lt64 hnw]

/-- values read from a `w`-byte header member are values of its unsigned C++ type -/
def Ctx.Canon (c : Ctx) : Prop := ∀ off w, CanonV w (c.rd off w)

theorem dataChecked_faithful (c : Ctx) (hn : c.base + c.n < 2^63) (hc : c.Canon) (d : DataL) (p : Nat) :
    Faithful c (dataChecked c d p) := by
  unfold dataChecked
  simp only [dataLen]
  refine (faithful_append c _ _).mpr ⟨(faithful_append c _ _).mpr ⟨(getValue_good c hn _ _ _).1, ?_⟩,
    (dataUnchecked_good c hn d p).1⟩
  refine ⟨fun h63 hnw => ?_, trivial⟩
  rw [dataChecked_check c d p _ h63 hn (by omega) (hc p d.lenSize), mod_of_lt64 (by omega)]
  simp

end Sbepp.Rt.Guards

namespace Sbepp.Rt.Guards
open Sbepp Sbepp.CVal Sbepp.Extracted.SizeChecks

theorem dataChecked_good (c : Ctx) (hn : c.base + c.n < 2^63) (hc : c.Canon) (d : DataL) (p : Nat) :
    Good c (dataChecked c d p) := by
  refine ⟨dataChecked_faithful c hn hc d p, ?_⟩
  unfold dataChecked
  simp only [dataLen, getValue, dataUnchecked, List.cons_append, List.nil_append, Covered]
  exact ⟨Or.inr ⟨(p, 0, d.lenSize), by simp, by simp, by simp⟩, trivial⟩

theorem dataElem_good (c : Ctx) (hn : c.base + c.n < 2^63) (hc : c.Canon) (d : DataL) (p i : Nat) (w : Bool)
    (hi : i < (dataLen c d p).2) : Good c (dataElem c d p i w) := by
  simp only [dataLen] at hi
  constructor
  · unfold dataElem
    simp only [dataLen]
    exact (faithful_append c _ _).mpr ⟨(faithful_append c _ _).mpr ⟨(faithful_append c _ _).mpr
      ⟨(getValue_good c hn _ _ _).1, trivial⟩, (dataChecked_good c hn hc d p).1⟩, trivial⟩
  · unfold dataElem dataChecked
    simp only [dataLen, getValue, dataUnchecked, List.cons_append, List.nil_append, Covered]
    refine ⟨Or.inr ⟨(p, 0, d.lenSize), by simp, by simp, by simp⟩, Or.inr ⟨(p, 0, d.lenSize), by simp, by simp, by simp⟩,
      Or.inr ⟨(p, 0, d.lenSize + c.rd p d.lenSize), by simp, by simp only; omega, ?_⟩, trivial⟩
    simp only; omega

/-- tie to the code: the size check of `resize(count, default_init)` is executed unconditionally.
    (If it becomes conditional the model `dataResize` follows the new shape, this lemma and with it
    every theorem about `<data>` mutators stop building.) -/
theorem resize_unconditional : dynamic_array_ref_resize__count_default_init_t.checkCond? 0 = some none := rfl

theorem dataResize_eq (c : Ctx) (d : DataL) (p count : Nat) :
    dataResize c d p count =
      [.check p 0 (d.lenSize + count) (evalSizeCheck dynamic_array_ref_resize__count_default_init_t 0
        (dynEnv c d p ++ [("count", uval d.lenSize count)])), .touch p d.lenSize true] := by
  simp only [dataResize, resize_unconditional]

theorem dataResize_good (c : Ctx) (hn : c.base + c.n < 2^63) (d : DataL) (p count : Nat)
    (hv : CanonV d.lenSize count) : Good c (dataResize c d p count) := by
  rw [dataResize_eq]
  refine ⟨⟨fun h63 hnw => ?_, trivial⟩, ?_⟩
  · rw [dataResize_check c d p count h63 hn (by omega) hv, mod_of_lt64 (by omega), Nat.zero_add]
  · exact ⟨Or.inr ⟨(p, 0, d.lenSize + count), by simp, by simp, by simp only; omega⟩, trivial⟩

theorem dataCheckedWith_faithful (c : Ctx) (hn : c.base + c.n < 2^63) (d : DataL) (p len : Nat)
    (hv : CanonV d.lenSize len) : Faithful c (dataCheckedWith c d p len) := by
  unfold dataCheckedWith
  refine (faithful_append c _ _).mpr ⟨(faithful_append c _ _).mpr ⟨(getValue_good c hn _ _ _).1, ?_⟩,
    (dataUnchecked_good c hn d p).1⟩
  refine ⟨fun h63 hnw => ?_, trivial⟩
  rw [dataChecked_check c d p len h63 hn (by omega) hv, mod_of_lt64 (by omega)]
  simp

/-- `assign(count, value)` / `assign_string`: every write is preceded by the check that covers it -/
theorem dataAssignN_good (c : Ctx) (hn : c.base + c.n < 2^63) (d : DataL) (p count : Nat)
    (hv : CanonV d.lenSize count) : Good c (dataAssignN c d p count) := by
  constructor
  · unfold dataAssignN
    exact (faithful_append c _ _).mpr ⟨(faithful_append c _ _).mpr ⟨(dataResize_good c hn d p count hv).1,
      dataCheckedWith_faithful c hn d p count hv⟩, trivial⟩
  · unfold dataAssignN dataCheckedWith
    rw [dataResize_eq]
    simp only [getValue, dataUnchecked, List.cons_append, List.nil_append, Covered]
    refine ⟨Or.inr ⟨(p, 0, d.lenSize + count), by simp, by simp, by simp only; omega⟩,
      Or.inr ⟨(p, 0, d.lenSize), by simp, by simp, by simp⟩,
      Or.inr ⟨(p, 0, d.lenSize + count), by simp, by simp only; omega, by simp only; omega⟩, trivial⟩

theorem assignIlist_check (c : Ctx) (d : DataL) (p len : Nat) (hb : c.base + p < 2^63) (hn : c.base + c.n < 2^63)
    (hl : d.lenSize < 2^64) (hv : len < 2^64) :
    evalSizeCheck dynamic_array_ref_assign__ilist 0 (dynEnv c d p ++ [("ilist_size", u64 len)])
      = some (stdOk (c.base + p) (c.base + c.n) ((d.lenSize + len) % 2^64)) := by
  have ha : Env.get? (dynEnv c d p ++ [("ilist_size", u64 len)]) "sizeof_size_type" = some (u64 d.lenSize) := rfl
  have hb' : Env.get? (dynEnv c d p ++ [("ilist_size", u64 len)]) "ilist_size" = some (u64 len) := rfl
  have hsum : (CExpr.bin .add (.var "sizeof_size_type") (.var "ilist_size")).eval (dynEnv c d p ++ [("ilist_size", u64 len)])
      = some ⟨.u64, (d.lenSize + len) % 2^64⟩ := by
    rw [eval_add_vars _ _ _ _ _ ha hb']
    exact add_u64_left .u64 d.lenSize len hl (nn_u64 len hv)
  rw [evalSizeCheck_of dynamic_array_ref_assign__ilist 0 _ _ _ _ _ _ (c.p p) c.endp ⟨.i32, 0⟩ ⟨.u64, (d.lenSize + len) % 2^64⟩ rfl rfl rfl rfl hsum]
  have hlt : (d.lenSize + len) % 2^64 < 2^64 := Nat.mod_lt _ (by decide)
  exact macro_eval _ _ _ _ CTy.u64.promote _ hb hn (add_zero_left .u64 _ (nn_u64 _ hlt)) (nn_u64 _ hlt)

/-- `assign(ilist)`: the overload's own check precedes and covers the copy of `assign(first, last)` -/
theorem dataAssignIlist_good (c : Ctx) (hn : c.base + c.n < 2^63) (d : DataL) (p len : Nat)
    (hv : CanonV d.lenSize len) : Good c (dataAssignIlist c d p len) := by
  constructor
  · unfold dataAssignIlist dataAssignRange
    refine (faithful_append c _ _).mpr ⟨⟨fun h63 hnw => ?_, trivial⟩,
      (faithful_append c _ _).mpr ⟨(faithful_append c _ _).mpr ⟨(dataUnchecked_good c hn d p).1, trivial⟩,
        (dataResize_good c hn d p len hv).1⟩⟩
    rw [assignIlist_check c d p len h63 hn (by omega) (by omega), mod_of_lt64 (by omega), Nat.zero_add]
  · unfold dataAssignIlist dataAssignRange
    rw [dataResize_eq]
    simp only [dataUnchecked, List.cons_append, List.nil_append, Covered]
    refine ⟨Or.inr ⟨(p, 0, d.lenSize + len), by simp, by simp only; omega, by simp only; omega⟩,
      Or.inr ⟨(p, 0, d.lenSize + len), by simp, by simp, by simp only; omega⟩, trivial⟩

theorem dataPush_good (c : Ctx) (hn : c.base + c.n < 2^63) (d : DataL) (p : Nat)
    (hv : CanonV d.lenSize ((dataLen c d p).2 + 1)) : Good c (dataPush c d p) := by
  simp only [dataLen] at hv
  constructor
  · unfold dataPush
    simp only [dataLen]
    exact (faithful_append c _ _).mpr ⟨(faithful_append c _ _).mpr ⟨(faithful_append c _ _).mpr
      ⟨(faithful_append c _ _).mpr ⟨(faithful_append c _ _).mpr ⟨(getValue_good c hn _ _ _).1,
        (dataResize_good c hn d p _ hv).1⟩, (getValue_good c hn _ _ _).1⟩, trivial⟩,
        dataCheckedWith_faithful c hn d p _ hv⟩, trivial⟩
  · unfold dataPush dataCheckedWith
    simp only [dataResize_eq]
    simp only [dataLen, getValue, dataUnchecked, List.cons_append, List.nil_append, Covered]
    refine ⟨Or.inr ⟨(p, 0, d.lenSize), by simp, by simp, by simp⟩,
      Or.inr ⟨(p, 0, d.lenSize), by simp, by simp, by simp⟩,
      Or.inr ⟨(p, 0, d.lenSize), by simp, by simp, by simp⟩,
      Or.inr ⟨(p, 0, d.lenSize), by simp, by simp, by simp⟩,
      Or.inr ⟨(p, 0, d.lenSize + (c.rd p d.lenSize + 1)), by simp, by simp only; omega, by simp only; omega⟩, trivial⟩

theorem dataPop_good (c : Ctx) (hn : c.base + c.n < 2^63) (hc : c.Canon) (d : DataL) (p : Nat) :
    Good c (dataPop c d p) := by
  unfold dataPop
  simp only [dataLen]
  refine good_append (good_append (good_append (getValue_good c hn _ _ _) (good_assert c _)) (getValue_good c hn _ _ _))
    (dataResize_good c hn d p _ ?_)
  have h := hc p d.lenSize
  unfold CanonV at h ⊢
  omega

theorem dataAssignRange_faithful (c : Ctx) (hn : c.base + c.n < 2^63) (d : DataL) (p len : Nat)
    (hv : CanonV d.lenSize len) : Faithful c (dataAssignRange c d p len) := by
  unfold dataAssignRange
  exact (faithful_append c _ _).mpr ⟨(faithful_append c _ _).mpr ⟨(dataUnchecked_good c hn d p).1, trivial⟩,
    (dataResize_good c hn d p len hv).1⟩

theorem arrElem_good (c : Ctx) (hn : c.base + c.n < 2^63) (p N i : Nat) (w : Bool) (hi : i < N) :
    Good c (arrElem c p N i w) := by
  constructor
  · unfold arrElem
    exact (faithful_append c _ _).mpr ⟨(faithful_append c _ _).mpr ⟨trivial, (arrData_good c hn p N).1⟩, trivial⟩
  · unfold arrElem
    simp only [arrData, List.cons_append, List.nil_append, Covered]
    exact ⟨Or.inr ⟨(p, 0, N), by simp, by simp, by simp; omega⟩, trivial⟩

theorem arrAssignRange_good (c : Ctx) (hn : c.base + c.n < 2^63) (p N len : Nat) (hl : len ≤ N) :
    Good c (arrAssignRange c p N len) := by
  constructor
  · unfold arrAssignRange
    exact (faithful_append c _ _).mpr ⟨(faithful_append c _ _).mpr ⟨(faithful_append c _ _).mpr
      ⟨(arrData_good c hn p N).1, trivial⟩, (arrData_good c hn p N).1⟩, trivial⟩
  · unfold arrAssignRange
    simp only [arrData, List.cons_append, List.nil_append, Covered]
    exact ⟨Or.inr ⟨(p, 0, N), by simp, by simp, by simp; omega⟩, trivial⟩

/-! ### size computations over the group tree -/

theorem iterEv_good (c : Ctx) (n : Nat) (f : Nat → List Ev × Nat) (hf : ∀ q, Good c (f q).1) :
    ∀ k p, Good c (iterEv n f k p).1 := by
  intro k
  induction k with
  | zero => intro p; exact good_nil c
  | succ k ih =>
    intro p
    unfold iterEv
    simp only
    split
    · exact good_append (hf p) (ih _)
    · exact hf p

theorem evDs_good (c : Ctx) (hn : c.base + c.n < 2^63) (ds : List DataL) : ∀ p, Good c (evDs c ds p).1 := by
  induction ds with
  | nil => intro p; exact good_nil c
  | cons d ds ih => intro p; unfold evDs; exact good_append (dataSizeBytes_good c hn d p) (ih _)

mutual
  theorem evL_good (c : Ctx) (hn : c.base + c.n < 2^63) : ∀ (l : Level) (q bl : Nat), Good c (evL c l q bl).1
    | .mk _ _ gs ds, q, bl => by
      unfold evL
      exact good_append (evGs_good c hn gs _) (evDs_good c hn ds _)
  theorem evGs_good (c : Ctx) (hn : c.base + c.n < 2^63) : ∀ (gs : List Group) (p : Nat), Good c (evGs c gs p).1
    | [], p => by unfold evGs; exact good_nil c
    | g :: gs, p => by
      unfold evGs
      exact good_append (evG_good c hn g p) (evGs_good c hn gs _)
  theorem evG_good (c : Ctx) (hn : c.base + c.n < 2^63) : ∀ (g : Group) (p : Nat), Good c (evG c g p).1
    | .mk dim l, p => by
      unfold evG
      simp only
      split
      · exact good_append (good_append (grpHeader_good c hn _ p) (getValue_good c hn _ _ _)) (getValue_good c hn _ _ _)
      · refine good_append (good_append (good_append (good_append (grpHeader_good c hn _ p) (grpBl_good c hn _ p))
          (grpNum_good c hn _ p)) (grpBl_good c hn _ p)) ?_
        apply iterEv_good
        intro q
        exact good_append (good_append (good_append (evL_good c hn l q _) (evL_good c hn l q _))
          (fwdIncCheck_good c hn _ _)) (evL_good c hn l q _)
end

theorem fwdInc_good (c : Ctx) (hn : c.base + c.n < 2^63) (l : Level) (ptr bl : Nat) : Good c (fwdInc c l ptr bl).1 :=
  good_append (good_append (evL_good c hn l ptr bl) (fwdIncCheck_good c hn _ _)) (evL_good c hn l ptr bl)

theorem msgFirstDyn_good (c : Ctx) (hn : c.base + c.n < 2^63) (m : MsgL) : Good c (msgFirstDyn c m).1 :=
  good_append (good_append (headerCheck_good c hn _ _ _ msgHeader_site) (headerCheck_good c hn _ _ _ msgHeader_site))
    (getValue_good c hn _ _ _)

theorem groupAt_good (c : Ctx) (hn : c.base + c.n < 2^63) (l : Level) (p0 k : Nat) : Good c (groupAt c l p0 k).1 :=
  evGs_good c hn _ _

theorem dataAt_good (c : Ctx) (hn : c.base + c.n < 2^63) (l : Level) (p0 k : Nat) : Good c (dataAt c l p0 k).1 :=
  good_append (evGs_good c hn _ _) (evDs_good c hn _ _)

end Sbepp.Rt.Guards

namespace Sbepp.Rt.Guards
open Sbepp Sbepp.CVal Sbepp.Extracted.SizeChecks

def PosWF : Pos → Prop
  | .iter _ bl _ g => CanonV g.dim.blSize bl
  | _ => True

theorem step_good (c : Ctx) (hn : c.base + c.n < 2^63) (hc : c.Canon) (pos : Pos) (op : Op) (evs : List Ev) (pos' : Pos)
    (hw : PosWF pos) (hp : Op.preB c pos op = true) (hcf : op.checkedFirst = true)
    (h : step c pos op = some (evs, pos')) : Good c evs ∧ PosWF pos' := by
  unfold step at h
  split at h
  all_goals try (split at h)
  all_goals try (simp at h; done)
  all_goals (injection h with h; injection h with h1 h2; subst h1; subst h2)
  all_goals try (simp [Op.checkedFirst] at hcf; done)
  all_goals refine ⟨?_, ?_⟩
  any_goals (first | exact hw | exact hc _ _ | exact True.intro)
  try any_goals (with_reducible exact setValue_good c hn _ _ _)
  try any_goals (with_reducible exact getValue_good c hn _ _ _)
  try any_goals (with_reducible exact staticView_good c hn _ _)
  try any_goals (with_reducible exact good_nil c)
  try any_goals (with_reducible exact headerCheck_good c hn _ _ _ msgHeader_site)
  try any_goals (with_reducible exact grpNum_good c hn _ _)
  try any_goals (with_reducible exact grpHeader_good c hn _ _)
  try any_goals (with_reducible exact evL_good c hn _ _ _)
  try any_goals (with_reducible exact evG_good c hn _ _)
  try any_goals (with_reducible exact dataSizeBytes_good c hn _ _)
  try any_goals (with_reducible exact dataLen_good c hn _ _)
  try any_goals (with_reducible exact dataChecked_good c hn hc _ _)
  try any_goals (with_reducible exact arrData_good c hn _ _)
  try any_goals (with_reducible exact good_append (msgFirstDyn_good c hn _) (groupAt_good c hn _ _ _))
  try any_goals (with_reducible exact groupAt_good c hn _ _ _)
  try any_goals (with_reducible exact good_append (msgFirstDyn_good c hn _) (dataAt_good c hn _ _ _))
  try any_goals (with_reducible exact dataAt_good c hn _ _ _)
  try any_goals (with_reducible exact good_append (grpHeader_good c hn _ _) (getValue_good c hn _ _ _))
  try any_goals (with_reducible exact raInc_good c hn _ _ _ hw)
  try any_goals (with_reducible exact fwdInc_good c hn _ _ _)
  try any_goals (with_reducible exact dataPop_good c hn hc _ _)
  try any_goals (with_reducible exact good_append (headerCheck_good c hn _ _ _ msgHeader_site) (getValue_good c hn _ _ _))
  try any_goals (with_reducible exact good_append (msgFirstDyn_good c hn _) (evL_good c hn _ _ _))
  try any_goals (with_reducible exact good_append (good_append (good_append (good_append (grpNum_good c hn _ _) (good_assert c _)) (grpHeader_good c hn _ _)) (getValue_good c hn _ _ _)) (getValue_good c hn _ _ _))
  · exact arrElem_good c hn _ _ _ _ (by simpa [Op.preB] using hp)
  · exact arrAssignRange_good c hn _ _ _ (by simpa [Op.preB] using hp)
  · exact raInc_good c hn _ _ _ hw
  · exact dataElem_good c hn hc _ _ _ _ (by simpa [Op.preB] using hp)
  · exact dataResize_good c hn _ _ _ (by simpa [Op.preB, canonB, CanonV] using hp)
  · exact dataAssignN_good c hn _ _ _ (by simpa [Op.preB, canonB, CanonV] using hp)
  · exact dataAssignIlist_good c hn _ _ _ (by simpa [Op.preB, canonB, CanonV] using hp)
  · exact dataPush_good c hn _ _ (by simpa [Op.preB, canonB, CanonV] using hp)
  · exact dataResize_good c hn _ _ 0 (Nat.two_pow_pos _)

theorem walk_good (c : Ctx) (hn : c.base + c.n < 2^63) (hc : c.Canon) : ∀ (ops : List Op) (pos : Pos) (evs : List Ev),
    PosWF pos → opsOk c pos ops = true → ops.all Op.checkedFirst = true → walk c pos ops = some evs → Good c evs := by
  intro ops
  induction ops with
  | nil => intro pos evs _ _ _ h; simp only [walk] at h; injection h with h; subst h; exact good_nil c
  | cons op ops ih =>
    intro pos evs hw hok hcf h
    simp only [walk] at h
    simp only [opsOk, Bool.and_eq_true] at hok
    simp only [List.all_cons, Bool.and_eq_true] at hcf
    match hs : step c pos op with
    | none => simp [hs] at h
    | some (e1, pos') =>
      simp only [hs] at h hok
      obtain ⟨hg1, hw'⟩ := step_good c hn hc pos op e1 pos' hw hok.1 hcf.1 hs
      match hr : walk c pos' ops with
      | none => simp [hr] at h
      | some e2 =>
        simp only [hr] at h
        injection h with h; subst h
        have hg2 := ih pos' e2 hw' hok.2 hcf.2 hr
        refine good_append (good_append hg1 ?_) hg2
        split
        · exact good_nil c
        · exact good_assert c none

/-! ### values read from a byte buffer are values of the header member's type -/

theorem get_lt (bo : ByteOrder) (bs : List Nat) (h : IsBytes bs) : get bo bs < 256 ^ bs.length := by
  cases bo
  · exact getLE_lt bs h
  · have hr : IsBytes bs.reverse := fun x hx => h x (by simpa using hx)
    have := getLE_lt bs.reverse hr
    simpa [get, getBE] using this

theorem slice_isBytes (buf : List Nat) (pos n : Nat) (h : IsBytes buf) : IsBytes (slice buf pos n) := by
  intro b hb
  unfold slice at hb
  exact h b (List.mem_of_mem_drop (List.mem_of_mem_take hb))

theorem slice_length_le (buf : List Nat) (pos n : Nat) : (slice buf pos n).length ≤ n := by
  unfold slice; simp [List.length_take]; omega

theorem canon_of_isBytes (c : Ctx) (h : IsBytes c.buf) : c.Canon := by
  intro off w
  unfold CanonV Ctx.rd Sbepp.rd
  have h1 := get_lt c.bo (slice c.buf off (min w 8)) (slice_isBytes _ _ _ h)
  have h2 := slice_length_le c.buf off (min w 8)
  have h3 : 256 ^ (slice c.buf off (min w 8)).length ≤ 256 ^ (min w 8) := Nat.pow_le_pow_right (by decide) h2
  have h4 : 256 ^ (min w 8) ≤ 2 ^ (uTy w).bits := by
    unfold uTy
    split
    · decide
    · decide
    · decide
    · have h8 : min w 8 ≤ 8 := Nat.min_le_right _ _
      calc 256 ^ (min w 8) ≤ 256 ^ 8 := Nat.pow_le_pow_right (by decide) h8
        _ = 2 ^ 64 := by decide
  omega

end Sbepp.Rt.Guards

namespace Sbepp.Rt.Guards
open Sbepp Sbepp.CVal Sbepp.Extracted.SizeChecks

/-- faithfulness also holds for the accessor kinds that access before they check -/
theorem step_faithful (c : Ctx) (hn : c.base + c.n < 2^63) (hc : c.Canon) (pos : Pos) (op : Op) (evs : List Ev) (pos' : Pos)
    (hw : PosWF pos) (hp : Op.preB c pos op = true) (h : step c pos op = some (evs, pos')) :
    Faithful c evs ∧ PosWF pos' := by
  by_cases hcf : op.checkedFirst = true
  · exact ⟨(step_good c hn hc pos op evs pos' hw hp hcf h).1.1, (step_good c hn hc pos op evs pos' hw hp hcf h).2⟩
  · cases op <;> simp [Op.checkedFirst] at hcf
    rename_i len
    cases pos <;> simp [step] at h
    rename_i p d
    obtain ⟨h1, h2⟩ := h
    subst h1; subst h2
    exact ⟨dataAssignRange_faithful c hn d p len (by simpa [Op.preB, canonB, CanonV] using hp), trivial⟩

theorem walk_faithful (c : Ctx) (hn : c.base + c.n < 2^63) (hc : c.Canon) : ∀ (ops : List Op) (pos : Pos) (evs : List Ev),
    PosWF pos → opsOk c pos ops = true → walk c pos ops = some evs → Faithful c evs := by
  intro ops
  induction ops with
  | nil => intro pos evs _ _ h; simp only [walk] at h; injection h with h; subst h; trivial
  | cons op ops ih =>
    intro pos evs hw hok h
    simp only [walk] at h
    simp only [opsOk, Bool.and_eq_true] at hok
    match hs : step c pos op with
    | none => simp [hs] at h
    | some (e1, pos') =>
      simp only [hs] at h hok
      obtain ⟨hg1, hw'⟩ := step_faithful c hn hc pos op e1 pos' hw hok.1 hs
      match hr : walk c pos' ops with
      | none => simp [hr] at h
      | some e2 =>
        simp only [hr] at h
        injection h with h; subst h
        have hg2 := ih pos' e2 hw' hok.2 hr
        refine (faithful_append c _ _).mpr ⟨(faithful_append c _ _).mpr ⟨hg1, ?_⟩, hg2⟩
        split <;> trivial

/-- the bytes guarded by every check lie inside the buffer -/
def NeedsInside (c : Ctx) : List Ev → Prop
  | [] => True
  | .check b off size _ :: r => b + off + size ≤ c.n ∧ NeedsInside c r
  | _ :: r => NeedsInside c r

/-- every precondition assertion holds -/
def AssertsHold : List Ev → Prop
  | [] => True
  | .assert ok :: r => ok = some true ∧ AssertsHold r
  | _ :: r => AssertsHold r

/-- COMPLETENESS on event lists: guarded bytes inside and preconditions true ⇒ no check fails -/
theorem complete_of_faithful (c : Ctx) (hwf : c.WF) (evs : List Ev) :
    Faithful c evs → NeedsInside c evs → AssertsHold evs → guard evs = true := by
  induction evs with
  | nil => intros; rfl
  | cons e r ih =>
    intro hf hni ha
    cases e with
    | check b off size ok =>
      simp only [Faithful, NeedsInside, AssertsHold] at hf hni ha
      have h63 : c.base + b < 2^63 := by have := hwf.2; omega
      have hnw : off + size < 2^64 := by have := hwf.2; omega
      have hok := hf.1 h63 hnw
      have hstd : stdOk (c.base + b) (c.base + c.n) (off + size) = true :=
        stdOk_complete _ _ _ (by have := hwf.1; omega) (by omega) (by have := hwf.2; omega) (by omega)
      simp only [guard, List.all_cons, Ev.passes, Bool.and_eq_true, beq_iff_eq]
      exact ⟨by rw [hok, hstd], by simpa [guard] using ih hf.2 hni.2 ha⟩
    | assert ok =>
      simp only [Faithful, NeedsInside, AssertsHold] at hf hni ha
      simp only [guard, List.all_cons, Ev.passes, Bool.and_eq_true, beq_iff_eq]
      exact ⟨ha.1, by simpa [guard] using ih hf hni ha.2⟩
    | touch lo len w =>
      simp only [Faithful, NeedsInside, AssertsHold] at hf hni ha
      simp only [guard, List.all_cons, Ev.passes, Bool.true_and]
      simpa [guard] using ih hf hni ha

end Sbepp.Rt.Guards

namespace Sbepp.Rt.Guards

instance (c : Ctx) : Decidable c.WF := by unfold Ctx.WF; infer_instance
instance (bs : List Nat) : Decidable (IsBytes bs) := by unfold IsBytes; infer_instance

def decPtrsRepresentable (c : Ctx) : (evs : List Ev) → Decidable (PtrsRepresentable c evs)
  | [] => isTrue trivial
  | .check b _ _ _ :: r =>
    match decPtrsRepresentable c r with
    | isTrue h => if hb : c.base + b < 2^63 then isTrue ⟨hb, h⟩ else isFalse (fun x => hb x.1)
    | isFalse h => isFalse (fun x => h x.2)
  | .assert _ :: r => decPtrsRepresentable c r
  | .touch _ _ _ :: r => decPtrsRepresentable c r
instance (c : Ctx) (evs : List Ev) : Decidable (PtrsRepresentable c evs) := decPtrsRepresentable c evs

def decNoWrap : (evs : List Ev) → Decidable (NoWrap evs)
  | [] => isTrue trivial
  | .check _ off size _ :: r =>
    match decNoWrap r with
    | isTrue h => if hb : off + size < 2^64 then isTrue ⟨hb, h⟩ else isFalse (fun x => hb x.1)
    | isFalse h => isFalse (fun x => h x.2)
  | .assert _ :: r => decNoWrap r
  | .touch _ _ _ :: r => decNoWrap r
instance (evs : List Ev) : Decidable (NoWrap evs) := decNoWrap evs

def decNeedsInside (c : Ctx) : (evs : List Ev) → Decidable (NeedsInside c evs)
  | [] => isTrue trivial
  | .check b off size _ :: r =>
    match decNeedsInside c r with
    | isTrue h => if hb : b + off + size ≤ c.n then isTrue ⟨hb, h⟩ else isFalse (fun x => hb x.1)
    | isFalse h => isFalse (fun x => h x.2)
  | .assert _ :: r => decNeedsInside c r
  | .touch _ _ _ :: r => decNeedsInside c r
instance (c : Ctx) (evs : List Ev) : Decidable (NeedsInside c evs) := decNeedsInside c evs

def decAssertsHold : (evs : List Ev) → Decidable (AssertsHold evs)
  | [] => isTrue trivial
  | .assert ok :: r =>
    match decAssertsHold r with
    | isTrue h => if hb : ok = some true then isTrue ⟨hb, h⟩ else isFalse (fun x => hb x.1)
    | isFalse h => isFalse (fun x => h x.2)
  | .check _ _ _ _ :: r => decAssertsHold r
  | .touch _ _ _ :: r => decAssertsHold r
instance (evs : List Ev) : Decidable (AssertsHold evs) := decAssertsHold evs

end Sbepp.Rt.Guards

namespace Sbepp.Rt.Guards
open Sbepp Sbepp.CVal Sbepp.Extracted.SizeChecks

/-! ### the cursor classes: the same macro on the cursor pointer -/

theorem cursor_get_value__view_offset_absolute_offset_good (c : Ctx) (hn : c.base + c.n < 2^63) (b off sz : Nat) :
    Good c [curCheck c cursor_get_value__view_offset_absolute_offset 1 "ptr" "offset" "sizeof_U" b off sz] := by
  refine ⟨⟨fun h63 hnw => ?_, trivial⟩, trivial⟩
  show evalSizeCheck cursor_get_value__view_offset_absolute_offset 1 [("ptr", c.p b), ("end", c.endp), ("offset", u64 off), ("sizeof_U", u64 sz)] = _
  rw [evalSizeCheck_of cursor_get_value__view_offset_absolute_offset 1 _ _ _ _ _ _ (c.p b) c.endp (u64 off) (u64 sz) rfl rfl rfl rfl rfl]
  have h := macro_eval (c.base + b) (c.base + c.n) (u64 off) (u64 sz) .u64 _ h63 hn
    (add_u64_left .u64 off sz (by omega) (nn_u64 sz (by omega))) (nn_u64 _ (Nat.mod_lt _ (by decide)))
  rw [mod_of_lt64 hnw] at h
  exact h

theorem cursor_get_last_value__view_offset_absolute_offset_good (c : Ctx) (hn : c.base + c.n < 2^63) (b off sz : Nat) :
    Good c [curCheck c cursor_get_last_value__view_offset_absolute_offset 1 "ptr" "offset" "sizeof_U" b off sz] := by
  refine ⟨⟨fun h63 hnw => ?_, trivial⟩, trivial⟩
  show evalSizeCheck cursor_get_last_value__view_offset_absolute_offset 1 [("ptr", c.p b), ("end", c.endp), ("offset", u64 off), ("sizeof_U", u64 sz)] = _
  rw [evalSizeCheck_of cursor_get_last_value__view_offset_absolute_offset 1 _ _ _ _ _ _ (c.p b) c.endp (u64 off) (u64 sz) rfl rfl rfl rfl rfl]
  have h := macro_eval (c.base + b) (c.base + c.n) (u64 off) (u64 sz) .u64 _ h63 hn
    (add_u64_left .u64 off sz (by omega) (nn_u64 sz (by omega))) (nn_u64 _ (Nat.mod_lt _ (by decide)))
  rw [mod_of_lt64 hnw] at h
  exact h

theorem init_cursor_wrapper_get_value__view_size_t_absolute_offset_good (c : Ctx) (hn : c.base + c.n < 2^63) (b off sz : Nat) :
    Good c [curCheck c init_cursor_wrapper_get_value__view_size_t_absolute_offset 0 "begin" "absolute_offset" "sizeof_U" b off sz] := by
  refine ⟨⟨fun h63 hnw => ?_, trivial⟩, trivial⟩
  show evalSizeCheck init_cursor_wrapper_get_value__view_size_t_absolute_offset 0 [("begin", c.p b), ("end", c.endp), ("absolute_offset", u64 off), ("sizeof_U", u64 sz)] = _
  rw [evalSizeCheck_of init_cursor_wrapper_get_value__view_size_t_absolute_offset 0 _ _ _ _ _ _ (c.p b) c.endp (u64 off) (u64 sz) rfl rfl rfl rfl rfl]
  have h := macro_eval (c.base + b) (c.base + c.n) (u64 off) (u64 sz) .u64 _ h63 hn
    (add_u64_left .u64 off sz (by omega) (nn_u64 sz (by omega))) (nn_u64 _ (Nat.mod_lt _ (by decide)))
  rw [mod_of_lt64 hnw] at h
  exact h

theorem init_cursor_wrapper_get_last_value__view_size_t_absolute_offset_good (c : Ctx) (hn : c.base + c.n < 2^63) (b off sz : Nat) :
    Good c [curCheck c init_cursor_wrapper_get_last_value__view_size_t_absolute_offset 0 "begin" "absolute_offset" "sizeof_U" b off sz] := by
  refine ⟨⟨fun h63 hnw => ?_, trivial⟩, trivial⟩
  show evalSizeCheck init_cursor_wrapper_get_last_value__view_size_t_absolute_offset 0 [("begin", c.p b), ("end", c.endp), ("absolute_offset", u64 off), ("sizeof_U", u64 sz)] = _
  rw [evalSizeCheck_of init_cursor_wrapper_get_last_value__view_size_t_absolute_offset 0 _ _ _ _ _ _ (c.p b) c.endp (u64 off) (u64 sz) rfl rfl rfl rfl rfl]
  have h := macro_eval (c.base + b) (c.base + c.n) (u64 off) (u64 sz) .u64 _ h63 hn
    (add_u64_left .u64 off sz (by omega) (nn_u64 sz (by omega))) (nn_u64 _ (Nat.mod_lt _ (by decide)))
  rw [mod_of_lt64 hnw] at h
  exact h

theorem dont_move_cursor_wrapper_get_value__view_offset_absolute_offset_good (c : Ctx) (hn : c.base + c.n < 2^63) (b off sz : Nat) :
    Good c [curCheck c dont_move_cursor_wrapper_get_value__view_offset_absolute_offset 1 "cursor_ptr" "offset" "sizeof_U" b off sz] := by
  refine ⟨⟨fun h63 hnw => ?_, trivial⟩, trivial⟩
  show evalSizeCheck dont_move_cursor_wrapper_get_value__view_offset_absolute_offset 1 [("cursor_ptr", c.p b), ("end", c.endp), ("offset", u64 off), ("sizeof_U", u64 sz)] = _
  rw [evalSizeCheck_of dont_move_cursor_wrapper_get_value__view_offset_absolute_offset 1 _ _ _ _ _ _ (c.p b) c.endp (u64 off) (u64 sz) rfl rfl rfl rfl rfl]
  have h := macro_eval (c.base + b) (c.base + c.n) (u64 off) (u64 sz) .u64 _ h63 hn
    (add_u64_left .u64 off sz (by omega) (nn_u64 sz (by omega))) (nn_u64 _ (Nat.mod_lt _ (by decide)))
  rw [mod_of_lt64 hnw] at h
  exact h

theorem dont_move_cursor_wrapper_get_last_value__view_offset_absolute_offset_good (c : Ctx) (hn : c.base + c.n < 2^63) (b off sz : Nat) :
    Good c [curCheck c dont_move_cursor_wrapper_get_last_value__view_offset_absolute_offset 1 "cursor_ptr" "offset" "sizeof_U" b off sz] := by
  refine ⟨⟨fun h63 hnw => ?_, trivial⟩, trivial⟩
  show evalSizeCheck dont_move_cursor_wrapper_get_last_value__view_offset_absolute_offset 1 [("cursor_ptr", c.p b), ("end", c.endp), ("offset", u64 off), ("sizeof_U", u64 sz)] = _
  rw [evalSizeCheck_of dont_move_cursor_wrapper_get_last_value__view_offset_absolute_offset 1 _ _ _ _ _ _ (c.p b) c.endp (u64 off) (u64 sz) rfl rfl rfl rfl rfl]
  have h := macro_eval (c.base + b) (c.base + c.n) (u64 off) (u64 sz) .u64 _ h63 hn
    (add_u64_left .u64 off sz (by omega) (nn_u64 sz (by omega))) (nn_u64 _ (Nat.mod_lt _ (by decide)))
  rw [mod_of_lt64 hnw] at h
  exact h

theorem init_dont_move_cursor_wrapper_get_value__view_offset_absolute_offset_good (c : Ctx) (hn : c.base + c.n < 2^63) (b off sz : Nat) :
    Good c [curCheck c init_dont_move_cursor_wrapper_get_value__view_offset_absolute_offset 0 "begin" "absolute_offset" "sizeof_U" b off sz] := by
  refine ⟨⟨fun h63 hnw => ?_, trivial⟩, trivial⟩
  show evalSizeCheck init_dont_move_cursor_wrapper_get_value__view_offset_absolute_offset 0 [("begin", c.p b), ("end", c.endp), ("absolute_offset", u64 off), ("sizeof_U", u64 sz)] = _
  rw [evalSizeCheck_of init_dont_move_cursor_wrapper_get_value__view_offset_absolute_offset 0 _ _ _ _ _ _ (c.p b) c.endp (u64 off) (u64 sz) rfl rfl rfl rfl rfl]
  have h := macro_eval (c.base + b) (c.base + c.n) (u64 off) (u64 sz) .u64 _ h63 hn
    (add_u64_left .u64 off sz (by omega) (nn_u64 sz (by omega))) (nn_u64 _ (Nat.mod_lt _ (by decide)))
  rw [mod_of_lt64 hnw] at h
  exact h

theorem skip_cursor_wrapper_get_value__view_offset_absolute_offset_good (c : Ctx) (hn : c.base + c.n < 2^63) (b off sz : Nat) :
    Good c [curCheck c skip_cursor_wrapper_get_value__view_offset_absolute_offset 1 "cursor_ptr" "offset" "sizeof_U" b off sz] := by
  refine ⟨⟨fun h63 hnw => ?_, trivial⟩, trivial⟩
  show evalSizeCheck skip_cursor_wrapper_get_value__view_offset_absolute_offset 1 [("cursor_ptr", c.p b), ("end", c.endp), ("offset", u64 off), ("sizeof_U", u64 sz)] = _
  rw [evalSizeCheck_of skip_cursor_wrapper_get_value__view_offset_absolute_offset 1 _ _ _ _ _ _ (c.p b) c.endp (u64 off) (u64 sz) rfl rfl rfl rfl rfl]
  have h := macro_eval (c.base + b) (c.base + c.n) (u64 off) (u64 sz) .u64 _ h63 hn
    (add_u64_left .u64 off sz (by omega) (nn_u64 sz (by omega))) (nn_u64 _ (Nat.mod_lt _ (by decide)))
  rw [mod_of_lt64 hnw] at h
  exact h

theorem skip_cursor_wrapper_get_last_value__view_offset_absolute_offset_good (c : Ctx) (hn : c.base + c.n < 2^63) (b off sz : Nat) :
    Good c [curCheck c skip_cursor_wrapper_get_last_value__view_offset_absolute_offset 1 "cursor_ptr" "offset" "sizeof_U" b off sz] := by
  refine ⟨⟨fun h63 hnw => ?_, trivial⟩, trivial⟩
  show evalSizeCheck skip_cursor_wrapper_get_last_value__view_offset_absolute_offset 1 [("cursor_ptr", c.p b), ("end", c.endp), ("offset", u64 off), ("sizeof_U", u64 sz)] = _
  rw [evalSizeCheck_of skip_cursor_wrapper_get_last_value__view_offset_absolute_offset 1 _ _ _ _ _ _ (c.p b) c.endp (u64 off) (u64 sz) rfl rfl rfl rfl rfl]
  have h := macro_eval (c.base + b) (c.base + c.n) (u64 off) (u64 sz) .u64 _ h63 hn
    (add_u64_left .u64 off sz (by omega) (nn_u64 sz (by omega))) (nn_u64 _ (Nat.mod_lt _ (by decide)))
  rw [mod_of_lt64 hnw] at h
  exact h

/-! the setters: the check of `set_value` / `set_last_value` is the getter's check with `sizeof(T)` -/

theorem cursor_set_value__view_offset_absolute_offset_value_good (c : Ctx) (hn : c.base + c.n < 2^63) (b off sz : Nat) :
    Good c [curCheck c cursor_set_value__view_offset_absolute_offset_value 1 "ptr" "offset" "sizeof_T" b off sz] := by
  refine ⟨⟨fun h63 hnw => ?_, trivial⟩, trivial⟩
  show evalSizeCheck cursor_set_value__view_offset_absolute_offset_value 1 [("ptr", c.p b), ("end", c.endp), ("offset", u64 off), ("sizeof_T", u64 sz)] = _
  rw [evalSizeCheck_of cursor_set_value__view_offset_absolute_offset_value 1 _ _ _ _ _ _ (c.p b) c.endp (u64 off) (u64 sz) rfl rfl rfl rfl rfl]
  have h := macro_eval (c.base + b) (c.base + c.n) (u64 off) (u64 sz) .u64 _ h63 hn
    (add_u64_left .u64 off sz (by omega) (nn_u64 sz (by omega))) (nn_u64 _ (Nat.mod_lt _ (by decide)))
  rw [mod_of_lt64 hnw] at h
  exact h

theorem cursor_set_last_value__view_offset_absolute_offset_value_good (c : Ctx) (hn : c.base + c.n < 2^63) (b off sz : Nat) :
    Good c [curCheck c cursor_set_last_value__view_offset_absolute_offset_value 1 "ptr" "offset" "sizeof_T" b off sz] := by
  refine ⟨⟨fun h63 hnw => ?_, trivial⟩, trivial⟩
  show evalSizeCheck cursor_set_last_value__view_offset_absolute_offset_value 1 [("ptr", c.p b), ("end", c.endp), ("offset", u64 off), ("sizeof_T", u64 sz)] = _
  rw [evalSizeCheck_of cursor_set_last_value__view_offset_absolute_offset_value 1 _ _ _ _ _ _ (c.p b) c.endp (u64 off) (u64 sz) rfl rfl rfl rfl rfl]
  have h := macro_eval (c.base + b) (c.base + c.n) (u64 off) (u64 sz) .u64 _ h63 hn
    (add_u64_left .u64 off sz (by omega) (nn_u64 sz (by omega))) (nn_u64 _ (Nat.mod_lt _ (by decide)))
  rw [mod_of_lt64 hnw] at h
  exact h

theorem init_cursor_wrapper_set_value__view_size_t_absolute_offset_value_good (c : Ctx) (hn : c.base + c.n < 2^63) (b off sz : Nat) :
    Good c [curCheck c init_cursor_wrapper_set_value__view_size_t_absolute_offset_value 0 "begin" "absolute_offset" "sizeof_T" b off sz] := by
  refine ⟨⟨fun h63 hnw => ?_, trivial⟩, trivial⟩
  show evalSizeCheck init_cursor_wrapper_set_value__view_size_t_absolute_offset_value 0 [("begin", c.p b), ("end", c.endp), ("absolute_offset", u64 off), ("sizeof_T", u64 sz)] = _
  rw [evalSizeCheck_of init_cursor_wrapper_set_value__view_size_t_absolute_offset_value 0 _ _ _ _ _ _ (c.p b) c.endp (u64 off) (u64 sz) rfl rfl rfl rfl rfl]
  have h := macro_eval (c.base + b) (c.base + c.n) (u64 off) (u64 sz) .u64 _ h63 hn
    (add_u64_left .u64 off sz (by omega) (nn_u64 sz (by omega))) (nn_u64 _ (Nat.mod_lt _ (by decide)))
  rw [mod_of_lt64 hnw] at h
  exact h

theorem init_cursor_wrapper_set_last_value__view_size_t_absolute_offset_value_good (c : Ctx) (hn : c.base + c.n < 2^63) (b off sz : Nat) :
    Good c [curCheck c init_cursor_wrapper_set_last_value__view_size_t_absolute_offset_value 0 "begin" "absolute_offset" "sizeof_T" b off sz] := by
  refine ⟨⟨fun h63 hnw => ?_, trivial⟩, trivial⟩
  show evalSizeCheck init_cursor_wrapper_set_last_value__view_size_t_absolute_offset_value 0 [("begin", c.p b), ("end", c.endp), ("absolute_offset", u64 off), ("sizeof_T", u64 sz)] = _
  rw [evalSizeCheck_of init_cursor_wrapper_set_last_value__view_size_t_absolute_offset_value 0 _ _ _ _ _ _ (c.p b) c.endp (u64 off) (u64 sz) rfl rfl rfl rfl rfl]
  have h := macro_eval (c.base + b) (c.base + c.n) (u64 off) (u64 sz) .u64 _ h63 hn
    (add_u64_left .u64 off sz (by omega) (nn_u64 sz (by omega))) (nn_u64 _ (Nat.mod_lt _ (by decide)))
  rw [mod_of_lt64 hnw] at h
  exact h

theorem dont_move_cursor_wrapper_set_value__view_offset_absolute_offset_value_good (c : Ctx) (hn : c.base + c.n < 2^63) (b off sz : Nat) :
    Good c [curCheck c dont_move_cursor_wrapper_set_value__view_offset_absolute_offset_value 1 "cursor_ptr" "offset" "sizeof_T" b off sz] := by
  refine ⟨⟨fun h63 hnw => ?_, trivial⟩, trivial⟩
  show evalSizeCheck dont_move_cursor_wrapper_set_value__view_offset_absolute_offset_value 1 [("cursor_ptr", c.p b), ("end", c.endp), ("offset", u64 off), ("sizeof_T", u64 sz)] = _
  rw [evalSizeCheck_of dont_move_cursor_wrapper_set_value__view_offset_absolute_offset_value 1 _ _ _ _ _ _ (c.p b) c.endp (u64 off) (u64 sz) rfl rfl rfl rfl rfl]
  have h := macro_eval (c.base + b) (c.base + c.n) (u64 off) (u64 sz) .u64 _ h63 hn
    (add_u64_left .u64 off sz (by omega) (nn_u64 sz (by omega))) (nn_u64 _ (Nat.mod_lt _ (by decide)))
  rw [mod_of_lt64 hnw] at h
  exact h

theorem dont_move_cursor_wrapper_set_last_value__view_offset_absolute_offset_value_good (c : Ctx) (hn : c.base + c.n < 2^63) (b off sz : Nat) :
    Good c [curCheck c dont_move_cursor_wrapper_set_last_value__view_offset_absolute_offset_value 1 "cursor_ptr" "offset" "sizeof_T" b off sz] := by
  refine ⟨⟨fun h63 hnw => ?_, trivial⟩, trivial⟩
  show evalSizeCheck dont_move_cursor_wrapper_set_last_value__view_offset_absolute_offset_value 1 [("cursor_ptr", c.p b), ("end", c.endp), ("offset", u64 off), ("sizeof_T", u64 sz)] = _
  rw [evalSizeCheck_of dont_move_cursor_wrapper_set_last_value__view_offset_absolute_offset_value 1 _ _ _ _ _ _ (c.p b) c.endp (u64 off) (u64 sz) rfl rfl rfl rfl rfl]
  have h := macro_eval (c.base + b) (c.base + c.n) (u64 off) (u64 sz) .u64 _ h63 hn
    (add_u64_left .u64 off sz (by omega) (nn_u64 sz (by omega))) (nn_u64 _ (Nat.mod_lt _ (by decide)))
  rw [mod_of_lt64 hnw] at h
  exact h

theorem init_dont_move_cursor_wrapper_set_value__view_offset_absolute_offset_value_good (c : Ctx) (hn : c.base + c.n < 2^63) (b off sz : Nat) :
    Good c [curCheck c init_dont_move_cursor_wrapper_set_value__view_offset_absolute_offset_value 0 "begin" "absolute_offset" "sizeof_T" b off sz] := by
  refine ⟨⟨fun h63 hnw => ?_, trivial⟩, trivial⟩
  show evalSizeCheck init_dont_move_cursor_wrapper_set_value__view_offset_absolute_offset_value 0 [("begin", c.p b), ("end", c.endp), ("absolute_offset", u64 off), ("sizeof_T", u64 sz)] = _
  rw [evalSizeCheck_of init_dont_move_cursor_wrapper_set_value__view_offset_absolute_offset_value 0 _ _ _ _ _ _ (c.p b) c.endp (u64 off) (u64 sz) rfl rfl rfl rfl rfl]
  have h := macro_eval (c.base + b) (c.base + c.n) (u64 off) (u64 sz) .u64 _ h63 hn
    (add_u64_left .u64 off sz (by omega) (nn_u64 sz (by omega))) (nn_u64 _ (Nat.mod_lt _ (by decide)))
  rw [mod_of_lt64 hnw] at h
  exact h

theorem cursor_get_static_field_view__view_offset_absolute_offset_good (c : Ctx) (hn : c.base + c.n < 2^63) (b off : Nat) :
    Good c [curCheck0 c cursor_get_static_field_view__view_offset_absolute_offset 1 "ptr" "offset" b off] := by
  refine ⟨⟨fun h63 hnw => ?_, trivial⟩, trivial⟩
  show evalSizeCheck cursor_get_static_field_view__view_offset_absolute_offset 1 [("ptr", c.p b), ("end", c.endp), ("offset", u64 off)] = _
  rw [evalSizeCheck_of cursor_get_static_field_view__view_offset_absolute_offset 1 _ _ _ _ _ _ (c.p b) c.endp (u64 off) ⟨.i32, 0⟩ rfl rfl rfl rfl rfl]
  have h := macro_eval (c.base + b) (c.base + c.n) (u64 off) ⟨.i32, 0⟩ .u64 _ h63 hn
    (add_u64_left .i32 off 0 (by omega) nn_zero) (nn_u64 _ (Nat.mod_lt _ (by decide)))
  rw [mod_of_lt64 hnw] at h
  exact h

theorem cursor_get_last_static_field_view__view_offset_absolute_offset_good (c : Ctx) (hn : c.base + c.n < 2^63) (b off : Nat) :
    Good c [curCheck0 c cursor_get_last_static_field_view__view_offset_absolute_offset 1 "ptr" "offset" b off] := by
  refine ⟨⟨fun h63 hnw => ?_, trivial⟩, trivial⟩
  show evalSizeCheck cursor_get_last_static_field_view__view_offset_absolute_offset 1 [("ptr", c.p b), ("end", c.endp), ("offset", u64 off)] = _
  rw [evalSizeCheck_of cursor_get_last_static_field_view__view_offset_absolute_offset 1 _ _ _ _ _ _ (c.p b) c.endp (u64 off) ⟨.i32, 0⟩ rfl rfl rfl rfl rfl]
  have h := macro_eval (c.base + b) (c.base + c.n) (u64 off) ⟨.i32, 0⟩ .u64 _ h63 hn
    (add_u64_left .i32 off 0 (by omega) nn_zero) (nn_u64 _ (Nat.mod_lt _ (by decide)))
  rw [mod_of_lt64 hnw] at h
  exact h

theorem init_cursor_wrapper_get_static_field_view__view_size_t_absolute_offset_good (c : Ctx) (hn : c.base + c.n < 2^63) (b off : Nat) :
    Good c [curCheck0 c init_cursor_wrapper_get_static_field_view__view_size_t_absolute_offset 0 "begin" "absolute_offset" b off] := by
  refine ⟨⟨fun h63 hnw => ?_, trivial⟩, trivial⟩
  show evalSizeCheck init_cursor_wrapper_get_static_field_view__view_size_t_absolute_offset 0 [("begin", c.p b), ("end", c.endp), ("absolute_offset", u64 off)] = _
  rw [evalSizeCheck_of init_cursor_wrapper_get_static_field_view__view_size_t_absolute_offset 0 _ _ _ _ _ _ (c.p b) c.endp (u64 off) ⟨.i32, 0⟩ rfl rfl rfl rfl rfl]
  have h := macro_eval (c.base + b) (c.base + c.n) (u64 off) ⟨.i32, 0⟩ .u64 _ h63 hn
    (add_u64_left .i32 off 0 (by omega) nn_zero) (nn_u64 _ (Nat.mod_lt _ (by decide)))
  rw [mod_of_lt64 hnw] at h
  exact h

theorem init_cursor_wrapper_get_last_static_field_view__view_size_t_absolute_offset_good (c : Ctx) (hn : c.base + c.n < 2^63) (b off : Nat) :
    Good c [curCheck0 c init_cursor_wrapper_get_last_static_field_view__view_size_t_absolute_offset 0 "begin" "absolute_offset" b off] := by
  refine ⟨⟨fun h63 hnw => ?_, trivial⟩, trivial⟩
  show evalSizeCheck init_cursor_wrapper_get_last_static_field_view__view_size_t_absolute_offset 0 [("begin", c.p b), ("end", c.endp), ("absolute_offset", u64 off)] = _
  rw [evalSizeCheck_of init_cursor_wrapper_get_last_static_field_view__view_size_t_absolute_offset 0 _ _ _ _ _ _ (c.p b) c.endp (u64 off) ⟨.i32, 0⟩ rfl rfl rfl rfl rfl]
  have h := macro_eval (c.base + b) (c.base + c.n) (u64 off) ⟨.i32, 0⟩ .u64 _ h63 hn
    (add_u64_left .i32 off 0 (by omega) nn_zero) (nn_u64 _ (Nat.mod_lt _ (by decide)))
  rw [mod_of_lt64 hnw] at h
  exact h

theorem dont_move_cursor_wrapper_get_static_field_view__view_offset_absolute_offset_good (c : Ctx) (hn : c.base + c.n < 2^63) (b off : Nat) :
    Good c [curCheck0 c dont_move_cursor_wrapper_get_static_field_view__view_offset_absolute_offset 1 "cursor_ptr" "offset" b off] := by
  refine ⟨⟨fun h63 hnw => ?_, trivial⟩, trivial⟩
  show evalSizeCheck dont_move_cursor_wrapper_get_static_field_view__view_offset_absolute_offset 1 [("cursor_ptr", c.p b), ("end", c.endp), ("offset", u64 off)] = _
  rw [evalSizeCheck_of dont_move_cursor_wrapper_get_static_field_view__view_offset_absolute_offset 1 _ _ _ _ _ _ (c.p b) c.endp (u64 off) ⟨.i32, 0⟩ rfl rfl rfl rfl rfl]
  have h := macro_eval (c.base + b) (c.base + c.n) (u64 off) ⟨.i32, 0⟩ .u64 _ h63 hn
    (add_u64_left .i32 off 0 (by omega) nn_zero) (nn_u64 _ (Nat.mod_lt _ (by decide)))
  rw [mod_of_lt64 hnw] at h
  exact h

theorem dont_move_cursor_wrapper_get_last_static_field_view__view_offset_absolute_offset_good (c : Ctx) (hn : c.base + c.n < 2^63) (b off : Nat) :
    Good c [curCheck0 c dont_move_cursor_wrapper_get_last_static_field_view__view_offset_absolute_offset 1 "cursor_ptr" "offset" b off] := by
  refine ⟨⟨fun h63 hnw => ?_, trivial⟩, trivial⟩
  show evalSizeCheck dont_move_cursor_wrapper_get_last_static_field_view__view_offset_absolute_offset 1 [("cursor_ptr", c.p b), ("end", c.endp), ("offset", u64 off)] = _
  rw [evalSizeCheck_of dont_move_cursor_wrapper_get_last_static_field_view__view_offset_absolute_offset 1 _ _ _ _ _ _ (c.p b) c.endp (u64 off) ⟨.i32, 0⟩ rfl rfl rfl rfl rfl]
  have h := macro_eval (c.base + b) (c.base + c.n) (u64 off) ⟨.i32, 0⟩ .u64 _ h63 hn
    (add_u64_left .i32 off 0 (by omega) nn_zero) (nn_u64 _ (Nat.mod_lt _ (by decide)))
  rw [mod_of_lt64 hnw] at h
  exact h

theorem init_dont_move_cursor_wrapper_get_static_field_view__view_offset_absolute_offset_good (c : Ctx) (hn : c.base + c.n < 2^63) (b off : Nat) :
    Good c [curCheck0 c init_dont_move_cursor_wrapper_get_static_field_view__view_offset_absolute_offset 0 "begin" "absolute_offset" b off] := by
  refine ⟨⟨fun h63 hnw => ?_, trivial⟩, trivial⟩
  show evalSizeCheck init_dont_move_cursor_wrapper_get_static_field_view__view_offset_absolute_offset 0 [("begin", c.p b), ("end", c.endp), ("absolute_offset", u64 off)] = _
  rw [evalSizeCheck_of init_dont_move_cursor_wrapper_get_static_field_view__view_offset_absolute_offset 0 _ _ _ _ _ _ (c.p b) c.endp (u64 off) ⟨.i32, 0⟩ rfl rfl rfl rfl rfl]
  have h := macro_eval (c.base + b) (c.base + c.n) (u64 off) ⟨.i32, 0⟩ .u64 _ h63 hn
    (add_u64_left .i32 off 0 (by omega) nn_zero) (nn_u64 _ (Nat.mod_lt _ (by decide)))
  rw [mod_of_lt64 hnw] at h
  exact h

theorem skip_cursor_wrapper_get_static_field_view__view_offset_absolute_offset_good (c : Ctx) (hn : c.base + c.n < 2^63) (b off : Nat) :
    Good c [curCheck0 c skip_cursor_wrapper_get_static_field_view__view_offset_absolute_offset 1 "cursor_ptr" "offset" b off] := by
  refine ⟨⟨fun h63 hnw => ?_, trivial⟩, trivial⟩
  show evalSizeCheck skip_cursor_wrapper_get_static_field_view__view_offset_absolute_offset 1 [("cursor_ptr", c.p b), ("end", c.endp), ("offset", u64 off)] = _
  rw [evalSizeCheck_of skip_cursor_wrapper_get_static_field_view__view_offset_absolute_offset 1 _ _ _ _ _ _ (c.p b) c.endp (u64 off) ⟨.i32, 0⟩ rfl rfl rfl rfl rfl]
  have h := macro_eval (c.base + b) (c.base + c.n) (u64 off) ⟨.i32, 0⟩ .u64 _ h63 hn
    (add_u64_left .i32 off 0 (by omega) nn_zero) (nn_u64 _ (Nat.mod_lt _ (by decide)))
  rw [mod_of_lt64 hnw] at h
  exact h

theorem skip_cursor_wrapper_get_last_static_field_view__view_offset_absolute_offset_good (c : Ctx) (hn : c.base + c.n < 2^63) (b off : Nat) :
    Good c [curCheck0 c skip_cursor_wrapper_get_last_static_field_view__view_offset_absolute_offset 1 "cursor_ptr" "offset" b off] := by
  refine ⟨⟨fun h63 hnw => ?_, trivial⟩, trivial⟩
  show evalSizeCheck skip_cursor_wrapper_get_last_static_field_view__view_offset_absolute_offset 1 [("cursor_ptr", c.p b), ("end", c.endp), ("offset", u64 off)] = _
  rw [evalSizeCheck_of skip_cursor_wrapper_get_last_static_field_view__view_offset_absolute_offset 1 _ _ _ _ _ _ (c.p b) c.endp (u64 off) ⟨.i32, 0⟩ rfl rfl rfl rfl rfl]
  have h := macro_eval (c.base + b) (c.base + c.n) (u64 off) ⟨.i32, 0⟩ .u64 _ h63 hn
    (add_u64_left .i32 off 0 (by omega) nn_zero) (nn_u64 _ (Nat.mod_lt _ (by decide)))
  rw [mod_of_lt64 hnw] at h
  exact h

end Sbepp.Rt.Guards

namespace Sbepp.Rt.Guards
open Sbepp Sbepp.CVal Sbepp.Extracted.SizeChecks

theorem lvEnd_good (c : Ctx) (hn : c.base + c.n < 2^63) (v : CView) : Good c (lvEnd c v).1 := by
  unfold lvEnd
  split
  · exact good_append (good_append (headerCheck_good c hn _ _ _ msgHeader_site) (headerCheck_good c hn _ _ _ msgHeader_site))
      (getValue_good c hn _ _ _)
  · exact good_nil c

/-- `[assert, check(b, off, sz), touch(b + off, sz)] ++ tail` -/
theorem good_act (c : Ctx) (a : Option Bool) (chk : Ev) (b off sz : Nat) (w : Bool) (ok : Option Bool) (tail : List Ev)
    (hchk : chk = .check b off sz ok) (hg : Good c [chk]) (ht : Good c tail) :
    Good c ([.assert a, chk, .touch (b + off) sz w] ++ tail) := by
  subst hchk
  constructor
  · exact (faithful_append c _ _).mpr ⟨⟨hg.1.1, trivial⟩, ht.1⟩
  · refine covered_append _ [] tail ?_ ht.2
    exact ⟨Or.inr ⟨(b, off, sz), by simp, by simp, by simp⟩, trivial⟩

theorem good_ct (c : Ctx) (chk : Ev) (b off sz : Nat) (w : Bool) (ok : Option Bool) (tail : List Ev)
    (hchk : chk = .check b off sz ok) (hg : Good c [chk]) (ht : Good c tail) :
    Good c ([chk, .touch (b + off) sz w] ++ tail) := by
  subst hchk
  constructor
  · exact (faithful_append c _ _).mpr ⟨⟨hg.1.1, trivial⟩, ht.1⟩
  · refine covered_append _ [] tail ?_ ht.2
    exact ⟨Or.inr ⟨(b, off, sz), by simp, by simp, by simp⟩, trivial⟩

theorem good_ac (c : Ctx) (a : Option Bool) (chk : Ev) (tail : List Ev) (hg : Good c [chk]) (ht : Good c tail) :
    Good c ([.assert a, chk] ++ tail) :=
  good_append (good_append (good_assert c a) hg) ht

theorem good_if (c : Ctx) (b : Bool) (x : List Ev) (h : Good c x) : Good c (if b then x else []) := by
  cases b
  · exact good_nil c
  · exact h

theorem curScalar_good (c : Ctx) (hn : c.base + c.n < 2^63) (v : CView) (f : CField) (ptr : Nat) (w : Bool) (var : CVar) :
    Good c (curScalar c v f ptr w var).1 := by
  have hl := lvEnd_good c hn v
  cases var <;> simp only [curScalar, curAssert]
  · cases f.last <;> cases w <;> simp only [plainSite, szName, if_true, if_false, Bool.false_eq_true]
    · exact good_act c _ _ ptr f.rel f.size false _ [] rfl (cursor_get_value__view_offset_absolute_offset_good c hn _ _ _) (good_nil c)
    · exact good_act c _ _ ptr f.rel f.size true _ [] rfl (cursor_set_value__view_offset_absolute_offset_value_good c hn _ _ _) (good_nil c)
    · exact good_act c _ _ ptr f.rel f.size false _ _ rfl (cursor_get_last_value__view_offset_absolute_offset_good c hn _ _ _) hl
    · exact good_act c _ _ ptr f.rel f.size true _ _ rfl (cursor_set_last_value__view_offset_absolute_offset_value_good c hn _ _ _) hl
  · cases f.last <;> cases w <;> simp only [initSite, szName, if_true, if_false, Bool.false_eq_true]
    · exact good_ct c _ v.vb f.abs f.size false _ [] rfl (init_cursor_wrapper_get_value__view_size_t_absolute_offset_good c hn _ _ _) (good_nil c)
    · exact good_ct c _ v.vb f.abs f.size true _ [] rfl (init_cursor_wrapper_set_value__view_size_t_absolute_offset_value_good c hn _ _ _) (good_nil c)
    · exact good_ct c _ v.vb f.abs f.size false _ _ rfl (init_cursor_wrapper_get_last_value__view_size_t_absolute_offset_good c hn _ _ _) hl
    · exact good_ct c _ v.vb f.abs f.size true _ _ rfl (init_cursor_wrapper_set_last_value__view_size_t_absolute_offset_value_good c hn _ _ _) hl
  · cases f.last <;> cases w <;> simp only [dontMoveSite, szName, if_true, if_false, Bool.false_eq_true]
    · exact good_act c _ _ ptr f.rel f.size false _ [] rfl (dont_move_cursor_wrapper_get_value__view_offset_absolute_offset_good c hn _ _ _) (good_nil c)
    · exact good_act c _ _ ptr f.rel f.size true _ [] rfl (dont_move_cursor_wrapper_set_value__view_offset_absolute_offset_value_good c hn _ _ _) (good_nil c)
    · exact good_act c _ _ ptr f.rel f.size false _ [] rfl (dont_move_cursor_wrapper_get_last_value__view_offset_absolute_offset_good c hn _ _ _) (good_nil c)
    · exact good_act c _ _ ptr f.rel f.size true _ [] rfl (dont_move_cursor_wrapper_set_last_value__view_offset_absolute_offset_value_good c hn _ _ _) (good_nil c)
  · cases w <;> simp only [initDontMoveSite, szName, if_true, if_false, Bool.false_eq_true]
    · exact good_ct c _ v.vb f.abs f.size false _ [] rfl (init_dont_move_cursor_wrapper_get_value__view_offset_absolute_offset_good c hn _ _ _) (good_nil c)
    · exact good_ct c _ v.vb f.abs f.size true _ [] rfl (init_dont_move_cursor_wrapper_set_value__view_offset_absolute_offset_value_good c hn _ _ _) (good_nil c)
  · cases f.last <;> simp only [if_true, if_false, Bool.false_eq_true]
    · exact good_ac c _ _ [] (skip_cursor_wrapper_get_value__view_offset_absolute_offset_good c hn _ _ _) (good_nil c)
    · exact good_ac c _ _ _ (skip_cursor_wrapper_get_last_value__view_offset_absolute_offset_good c hn _ _ _) hl


theorem curView_good (c : Ctx) (hn : c.base + c.n < 2^63) (v : CView) (f : CField) (ptr : Nat) (var : CVar) :
    Good c (curView c v f ptr var).1 := by
  have hl := lvEnd_good c hn v
  cases var <;> simp only [curView, curAssert]
  · cases f.last <;> simp only [if_true, if_false, Bool.false_eq_true]
    · exact good_ac c _ _ [] (cursor_get_static_field_view__view_offset_absolute_offset_good c hn _ _) (good_nil c)
    · exact good_ac c _ _ _ (cursor_get_last_static_field_view__view_offset_absolute_offset_good c hn _ _) hl
  · cases f.last <;> simp only [if_true, if_false, Bool.false_eq_true]
    · exact good_append (init_cursor_wrapper_get_static_field_view__view_size_t_absolute_offset_good c hn _ _) (good_nil c)
    · exact good_append (init_cursor_wrapper_get_last_static_field_view__view_size_t_absolute_offset_good c hn _ _) hl
  · cases f.last <;> simp only [if_true, if_false, Bool.false_eq_true]
    · exact good_ac c _ _ [] (dont_move_cursor_wrapper_get_static_field_view__view_offset_absolute_offset_good c hn _ _) (good_nil c)
    · exact good_ac c _ _ [] (dont_move_cursor_wrapper_get_last_static_field_view__view_offset_absolute_offset_good c hn _ _) (good_nil c)
  · exact init_dont_move_cursor_wrapper_get_static_field_view__view_offset_absolute_offset_good c hn _ _
  · cases f.last <;> simp only [if_true, if_false, Bool.false_eq_true]
    · exact good_ac c _ _ [] (skip_cursor_wrapper_get_static_field_view__view_offset_absolute_offset_good c hn _ _) (good_nil c)
    · exact good_ac c _ _ _ (skip_cursor_wrapper_get_last_static_field_view__view_offset_absolute_offset_good c hn _ _) hl

theorem curField_good (c : Ctx) (hn : c.base + c.n < 2^63) (v : CView) (f : CField) (ptr : Nat) (var : CVar) (w : Bool) :
    Good c (curField c v f ptr var w).1 := by
  unfold curField
  split
  · exact curView_good c hn v f ptr var
  · exact curScalar_good c hn v f ptr w var

/-! ### a cursor setter is the getter of the same wrapper with a write in place of the read -/

/-- forget whether an access reads or writes -/
def Ev.asRead : Ev → Ev
  | .touch lo len _ => .touch lo len false
  | e => e

theorem plain_set_check_eq (c : Ctx) (b off sz : Nat) :
    curCheck c cursor_set_value__view_offset_absolute_offset_value 1 "ptr" "offset" "sizeof_T" b off sz =
      curCheck c cursor_get_value__view_offset_absolute_offset 1 "ptr" "offset" "sizeof_U" b off sz := by
  simp only [curCheck]
  rw [evalSizeCheck_of cursor_set_value__view_offset_absolute_offset_value 1 _ _ _ _ _ _ (c.p b) c.endp (u64 off) (u64 sz) rfl rfl rfl rfl rfl,
      evalSizeCheck_of cursor_get_value__view_offset_absolute_offset 1 _ _ _ _ _ _ (c.p b) c.endp (u64 off) (u64 sz) rfl rfl rfl rfl rfl]

theorem plain_set_assert_eq (c : Ctx) (vb abs ptr rel : Nat) :
    curAssert c cursor_set_value__view_offset_absolute_offset_value "ptr" vb abs ptr rel = curAssert c cursor_get_value__view_offset_absolute_offset "ptr" vb abs ptr rel := rfl

theorem plainLast_set_check_eq (c : Ctx) (b off sz : Nat) :
    curCheck c cursor_set_last_value__view_offset_absolute_offset_value 1 "ptr" "offset" "sizeof_T" b off sz =
      curCheck c cursor_get_last_value__view_offset_absolute_offset 1 "ptr" "offset" "sizeof_U" b off sz := by
  simp only [curCheck]
  rw [evalSizeCheck_of cursor_set_last_value__view_offset_absolute_offset_value 1 _ _ _ _ _ _ (c.p b) c.endp (u64 off) (u64 sz) rfl rfl rfl rfl rfl,
      evalSizeCheck_of cursor_get_last_value__view_offset_absolute_offset 1 _ _ _ _ _ _ (c.p b) c.endp (u64 off) (u64 sz) rfl rfl rfl rfl rfl]

theorem plainLast_set_assert_eq (c : Ctx) (vb abs ptr rel : Nat) :
    curAssert c cursor_set_last_value__view_offset_absolute_offset_value "ptr" vb abs ptr rel = curAssert c cursor_get_last_value__view_offset_absolute_offset "ptr" vb abs ptr rel := rfl

theorem init_set_check_eq (c : Ctx) (b off sz : Nat) :
    curCheck c init_cursor_wrapper_set_value__view_size_t_absolute_offset_value 0 "begin" "absolute_offset" "sizeof_T" b off sz =
      curCheck c init_cursor_wrapper_get_value__view_size_t_absolute_offset 0 "begin" "absolute_offset" "sizeof_U" b off sz := by
  simp only [curCheck]
  rw [evalSizeCheck_of init_cursor_wrapper_set_value__view_size_t_absolute_offset_value 0 _ _ _ _ _ _ (c.p b) c.endp (u64 off) (u64 sz) rfl rfl rfl rfl rfl,
      evalSizeCheck_of init_cursor_wrapper_get_value__view_size_t_absolute_offset 0 _ _ _ _ _ _ (c.p b) c.endp (u64 off) (u64 sz) rfl rfl rfl rfl rfl]

theorem initLast_set_check_eq (c : Ctx) (b off sz : Nat) :
    curCheck c init_cursor_wrapper_set_last_value__view_size_t_absolute_offset_value 0 "begin" "absolute_offset" "sizeof_T" b off sz =
      curCheck c init_cursor_wrapper_get_last_value__view_size_t_absolute_offset 0 "begin" "absolute_offset" "sizeof_U" b off sz := by
  simp only [curCheck]
  rw [evalSizeCheck_of init_cursor_wrapper_set_last_value__view_size_t_absolute_offset_value 0 _ _ _ _ _ _ (c.p b) c.endp (u64 off) (u64 sz) rfl rfl rfl rfl rfl,
      evalSizeCheck_of init_cursor_wrapper_get_last_value__view_size_t_absolute_offset 0 _ _ _ _ _ _ (c.p b) c.endp (u64 off) (u64 sz) rfl rfl rfl rfl rfl]

theorem dontMove_set_check_eq (c : Ctx) (b off sz : Nat) :
    curCheck c dont_move_cursor_wrapper_set_value__view_offset_absolute_offset_value 1 "cursor_ptr" "offset" "sizeof_T" b off sz =
      curCheck c dont_move_cursor_wrapper_get_value__view_offset_absolute_offset 1 "cursor_ptr" "offset" "sizeof_U" b off sz := by
  simp only [curCheck]
  rw [evalSizeCheck_of dont_move_cursor_wrapper_set_value__view_offset_absolute_offset_value 1 _ _ _ _ _ _ (c.p b) c.endp (u64 off) (u64 sz) rfl rfl rfl rfl rfl,
      evalSizeCheck_of dont_move_cursor_wrapper_get_value__view_offset_absolute_offset 1 _ _ _ _ _ _ (c.p b) c.endp (u64 off) (u64 sz) rfl rfl rfl rfl rfl]

theorem dontMove_set_assert_eq (c : Ctx) (vb abs ptr rel : Nat) :
    curAssert c dont_move_cursor_wrapper_set_value__view_offset_absolute_offset_value "cursor_ptr" vb abs ptr rel = curAssert c dont_move_cursor_wrapper_get_value__view_offset_absolute_offset "cursor_ptr" vb abs ptr rel := rfl

theorem dontMoveLast_set_check_eq (c : Ctx) (b off sz : Nat) :
    curCheck c dont_move_cursor_wrapper_set_last_value__view_offset_absolute_offset_value 1 "cursor_ptr" "offset" "sizeof_T" b off sz =
      curCheck c dont_move_cursor_wrapper_get_last_value__view_offset_absolute_offset 1 "cursor_ptr" "offset" "sizeof_U" b off sz := by
  simp only [curCheck]
  rw [evalSizeCheck_of dont_move_cursor_wrapper_set_last_value__view_offset_absolute_offset_value 1 _ _ _ _ _ _ (c.p b) c.endp (u64 off) (u64 sz) rfl rfl rfl rfl rfl,
      evalSizeCheck_of dont_move_cursor_wrapper_get_last_value__view_offset_absolute_offset 1 _ _ _ _ _ _ (c.p b) c.endp (u64 off) (u64 sz) rfl rfl rfl rfl rfl]

theorem dontMoveLast_set_assert_eq (c : Ctx) (vb abs ptr rel : Nat) :
    curAssert c dont_move_cursor_wrapper_set_last_value__view_offset_absolute_offset_value "cursor_ptr" vb abs ptr rel = curAssert c dont_move_cursor_wrapper_get_last_value__view_offset_absolute_offset "cursor_ptr" vb abs ptr rel := rfl

theorem initDontMove_set_check_eq (c : Ctx) (b off sz : Nat) :
    curCheck c init_dont_move_cursor_wrapper_set_value__view_offset_absolute_offset_value 0 "begin" "absolute_offset" "sizeof_T" b off sz =
      curCheck c init_dont_move_cursor_wrapper_get_value__view_offset_absolute_offset 0 "begin" "absolute_offset" "sizeof_U" b off sz := by
  simp only [curCheck]
  rw [evalSizeCheck_of init_dont_move_cursor_wrapper_set_value__view_offset_absolute_offset_value 0 _ _ _ _ _ _ (c.p b) c.endp (u64 off) (u64 sz) rfl rfl rfl rfl rfl,
      evalSizeCheck_of init_dont_move_cursor_wrapper_get_value__view_offset_absolute_offset 0 _ _ _ _ _ _ (c.p b) c.endp (u64 off) (u64 sz) rfl rfl rfl rfl rfl]

/-- same assertion, same size check (value included), same bytes, same cursor afterwards -/
theorem curScalar_set_eq (c : Ctx) (v : CView) (f : CField) (ptr : Nat) (var : CVar) :
    (curScalar c v f ptr true var).1.map Ev.asRead = (curScalar c v f ptr false var).1.map Ev.asRead ∧
    (curScalar c v f ptr true var).2 = (curScalar c v f ptr false var).2 := by
  cases var <;> simp only [curScalar]
  · cases f.last <;> simp only [plainSite, szName, if_true, if_false, Bool.false_eq_true]
    · rw [plain_set_check_eq, plain_set_assert_eq]; refine ⟨?_, ?_⟩ <;> first | rfl | trivial
    · rw [plainLast_set_check_eq, plainLast_set_assert_eq]; refine ⟨?_, ?_⟩ <;> first | rfl | trivial
  · cases f.last <;> simp only [initSite, szName, if_true, if_false, Bool.false_eq_true]
    · rw [init_set_check_eq]; refine ⟨?_, ?_⟩ <;> first | rfl | trivial
    · rw [initLast_set_check_eq]; refine ⟨?_, ?_⟩ <;> first | rfl | trivial
  · cases f.last <;> simp only [dontMoveSite, szName, if_true, if_false, Bool.false_eq_true]
    · rw [dontMove_set_check_eq, dontMove_set_assert_eq]; refine ⟨?_, ?_⟩ <;> first | rfl | trivial
    · rw [dontMoveLast_set_check_eq, dontMoveLast_set_assert_eq]; refine ⟨?_, ?_⟩ <;> first | rfl | trivial
  · simp only [initDontMoveSite, szName, if_true, if_false, Bool.false_eq_true]
    rw [initDontMove_set_check_eq]; refine ⟨?_, ?_⟩ <;> first | rfl | trivial
  · refine ⟨?_, ?_⟩ <;> first | rfl | trivial

theorem getterAssert_good (c : Ctx) (site : Site) (pn : String) (getter : List Ev × Nat) (ptr : Nat)
    (hg : Good c getter.1) : Good c (getterAssert c site pn getter ptr) :=
  good_append hg (good_assert c _)

theorem curGroup_good (c : Ctx) (hn : c.base + c.n < 2^63) (v : CView) (g : Group) (first : Bool)
    (getter : List Ev × Nat) (ptr : Nat) (var : CVar) (hg : Good c getter.1) :
    Good c (curGroup c v g first getter ptr var).1 := by
  have hl := lvEnd_good c hn v
  cases var <;> cases first <;> simp only [curGroup, if_true, if_false, Bool.false_eq_true]
  · exact good_append (getterAssert_good c _ _ _ _ hg) (grpHeader_good c hn _ _)
  · exact good_append hl (grpHeader_good c hn _ _)
  · exact good_append hg (grpHeader_good c hn _ _)
  · exact good_append hl (grpHeader_good c hn _ _)
  · exact getterAssert_good c _ _ _ _ hg
  · exact hl
  · exact hg
  · exact hl
  · exact good_append (getterAssert_good c _ _ _ _ hg) (evG_good c hn _ _)
  · exact good_append hl (evG_good c hn _ _)

theorem curData_good (c : Ctx) (hn : c.base + c.n < 2^63) (v : CView) (d : DataL) (first : Bool)
    (getter : List Ev × Nat) (ptr : Nat) (var : CVar) (hg : Good c getter.1) :
    Good c (curData c v d first getter ptr var).1 := by
  have hl := lvEnd_good c hn v
  cases var <;> cases first <;> simp only [curData, if_true, if_false, Bool.false_eq_true]
  · exact good_append (getterAssert_good c _ _ _ _ hg) (dataSizeBytes_good c hn _ _)
  · exact good_append hl (dataSizeBytes_good c hn _ _)
  · exact good_append hg (dataSizeBytes_good c hn _ _)
  · exact good_append hl (dataSizeBytes_good c hn _ _)
  · exact getterAssert_good c _ _ _ _ hg
  · exact hl
  · exact hg
  · exact hl
  · exact good_append (getterAssert_good c _ _ _ _ hg) (dataSizeBytes_good c hn _ _)
  · exact good_append hl (dataSizeBytes_good c hn _ _)

/-! ### the traversal keeps the invariant -/

theorem after_good (c : Ctx) (n : Nat) (t : Trav) (tg : Target) (e : List Ev) (ptr : Nat)
    (ht : Good c t.evs) (he : Good c e) : Good c (t.after n tg e ptr).evs :=
  good_append ht he

theorem travFields_good (c : Ctx) (hn : c.base + c.n < 2^63) (v : CView) (tg : Target) :
    ∀ (fs : List CField) (t : Trav), Good c t.evs → Good c (travFields c v tg fs t).evs := by
  intro fs
  induction fs with
  | nil => intro t h; exact h
  | cons f fs ih =>
    intro t h
    unfold travFields
    split
    · exact h
    · exact ih _ (after_good c _ t tg _ _ h (curField_good c hn v f _ _ _))

theorem travDatas_good (c : Ctx) (hn : c.base + c.n < 2^63) (v : CView) (tg : Target) (getterOf : Nat → List Ev × Nat)
    (hg : ∀ j, Good c (getterOf j).1) :
    ∀ (ds : List DataL) (j : Nat) (first : Bool) (t : Trav), Good c t.evs → Good c (travDatas c v tg getterOf ds j first t).evs := by
  intro ds
  induction ds with
  | nil => intro j first t h; exact h
  | cons d ds ih =>
    intro j first t h
    unfold travDatas
    split
    · exact h
    · exact ih _ _ _ (after_good c _ t tg _ _ h (curData_good c hn v d first _ _ _ (hg j)))

theorem iterTrav_good (c : Ctx) (f : Trav → Trav) (hf : ∀ t, Good c t.evs → Good c (f t).evs) :
    ∀ (k : Nat) (t : Trav), Good c t.evs → Good c (iterTrav f k t).evs := by
  intro k
  induction k with
  | zero => intro t h; exact h
  | succ k ih =>
    intro t h
    unfold iterTrav
    split
    · exact h
    · exact ih _ (hf t h)


theorem erase_dim (dim : Dim) (l : CLevel) : (CGroup.erase (.mk dim l)).dim = dim := by
  simp [CGroup.erase, Group.dim]

mutual
  theorem travL_good (c : Ctx) (hn : c.base + c.n < 2^63) (hc : c.Canon) (tg : Target) :
      ∀ (l : CLevel) (v : CView) (t : Trav), Good c t.evs → Good c (travL c tg l v t).evs
    | .mk fs gs ds, v, t, h => by
      unfold travL
      simp only
      refine travDatas_good c hn v tg _ (fun j => good_append (lvEnd_good c hn v) (dataAt_good c hn _ _ _)) ds 0 _ _ ?_
      exact travGs_good c hn hc tg v _ gs 0 _ (travFields_good c hn v tg fs t h)
  theorem travGs_good (c : Ctx) (hn : c.base + c.n < 2^63) (hc : c.Canon) (tg : Target) (v : CView) (lvl : Level) :
      ∀ (gs : List CGroup) (j : Nat) (t : Trav), Good c t.evs → Good c (travGs c tg v lvl gs j t).evs
    | [], j, t, h => by unfold travGs; exact h
    | g :: gs, j, t, h => by
      unfold travGs
      exact travGs_good c hn hc tg v lvl gs (j + 1) _ (travG_good c hn hc tg v lvl g j t h)
  theorem travG_good (c : Ctx) (hn : c.base + c.n < 2^63) (hc : c.Canon) (tg : Target) (v : CView) (lvl : Level) :
      ∀ (g : CGroup) (j : Nat) (t : Trav), Good c t.evs → Good c (travG c tg v lvl g j t).evs
    | .mk dim l, j, t, h => by
      unfold travG
      simp only
      split
      · exact h
      · have h1 := after_good c c.n t tg _ ((curGroup c v (CGroup.erase (.mk dim l)) (j == 0)
            ((lvEnd c v).1 ++ (groupAt c lvl (lvEnd c v).2 j).1, (groupAt c lvl (lvEnd c v).2 j).2) t.ptr (t.var tg)).2.2) h
          (curGroup_good c hn v (CGroup.erase (.mk dim l)) (j == 0)
            ((lvEnd c v).1 ++ (groupAt c lvl (lvEnd c v).2 j).1, (groupAt c lvl (lvEnd c v).2 j).2) t.ptr (t.var tg)
            (good_append (lvEnd_good c hn v) (groupAt_good c hn _ _ _)))
        split
        · exact h1
        · apply iterTrav_good
          · intro s hs
            split
            · refine good_append hs (emptyEntryCtor_good c hn _ _ _ ?_)
              have := hc ((curGroup c v (CGroup.erase (.mk dim l)) (j == 0)
                ((lvEnd c v).1 ++ (groupAt c lvl (lvEnd c v).2 j).1, (groupAt c lvl (lvEnd c v).2 j).2) t.ptr (t.var tg)).2.1
                  + (CGroup.erase (.mk dim l)).dim.blOff) (CGroup.erase (.mk dim l)).dim.blSize
              simpa [grpBl, erase_dim] using this
            · exact travL_good c hn hc tg l _ s hs
          · exact good_append h1 (good_append (grpBl_good c hn _ _) (grpNum_good c hn _ _))
end

theorem travMsg_good (c : Ctx) (hn : c.base + c.n < 2^63) (hc : c.Canon) (m : CMsg) (tg : Target) :
    Good c (travMsg c m tg).evs := by
  unfold travMsg
  exact travL_good c hn hc tg m.level _ _ (headerCheck_good c hn _ _ _ msgHeader_site)

end Sbepp.Rt.Guards

namespace Sbepp.Rt.Guards
open Sbepp Sbepp.CVal Sbepp.Extracted.SizeChecks

/-! ### completed calls: coverage by ANY check of the call (before or after the access) -/

def checksOf : List Ev → List (Nat × Nat × Nat)
  | [] => []
  | .check b off size _ :: r => (b, off, size) :: checksOf r
  | _ :: r => checksOf r

/-- every touch lies within the bytes guarded by one of the checks in `all` -/
def CoveredAny (all : List (Nat × Nat × Nat)) : List Ev → Prop
  | [] => True
  | .touch lo len _ :: r => coveredBy all lo len ∧ CoveredAny all r
  | _ :: r => CoveredAny all r

theorem checksOf_append (a b : List Ev) : checksOf (a ++ b) = checksOf a ++ checksOf b := by
  induction a with
  | nil => rfl
  | cons e r ih => cases e <;> simp [checksOf, ih]

theorem coveredAny_mono (evs : List Ev) (s1 s2 : List (Nat × Nat × Nat)) (h : ∀ t ∈ s1, t ∈ s2)
    (hc : CoveredAny s1 evs) : CoveredAny s2 evs := by
  induction evs with
  | nil => trivial
  | cons e r ih =>
    cases e with
    | check b off size ok => exact ih hc
    | assert ok => exact ih hc
    | touch lo len w => exact ⟨coveredBy_mono h hc.1, ih hc.2⟩

theorem coveredAny_append (all : List (Nat × Nat × Nat)) (a b : List Ev) :
    CoveredAny all (a ++ b) ↔ CoveredAny all a ∧ CoveredAny all b := by
  induction a with
  | nil => simp [CoveredAny]
  | cons e r ih => cases e <;> simp only [List.cons_append, CoveredAny, ih, and_assoc]

theorem covered_imp_any (evs : List Ev) : ∀ (seen : List (Nat × Nat × Nat)),
    Covered seen evs → CoveredAny (seen ++ checksOf evs) evs := by
  induction evs with
  | nil => intros; trivial
  | cons e r ih =>
    intro seen hc
    cases e with
    | check b off size ok =>
      simp only [Covered] at hc
      simp only [CoveredAny, checksOf]
      refine coveredAny_mono r _ _ ?_ (ih _ hc)
      intro t ht
      simp only [List.mem_append, List.mem_cons] at ht ⊢
      rcases ht with (h | h) | h
      · exact Or.inr (Or.inl h)
      · exact Or.inl h
      · exact Or.inr (Or.inr h)
    | assert ok => simp only [Covered] at hc; simp only [CoveredAny, checksOf]; exact ih _ hc
    | touch lo len w =>
      simp only [Covered] at hc
      simp only [CoveredAny, checksOf]
      exact ⟨coveredBy_mono (by intro t ht; exact List.mem_append_left _ ht) hc.1, ih _ hc.2⟩

/-- when no check fails, the bytes guarded by every check of the call lie inside `[0, n)` -/
theorem checks_bound (c : Ctx) (hwf : c.WF) (evs : List Ev) :
    Faithful c evs → PtrsRepresentable c evs → NoWrap evs → guard evs = true →
    ∀ t ∈ checksOf evs, t.1 + t.2.1 + t.2.2 ≤ c.n := by
  induction evs with
  | nil => intro _ _ _ _ t ht; cases ht
  | cons e r ih =>
    intro hf hv hnw hg
    cases e with
    | check b off size ok =>
      simp only [Faithful, PtrsRepresentable, NoWrap] at hf hv hnw
      simp only [guard, List.all_cons, Ev.passes, Bool.and_eq_true, beq_iff_eq] at hg
      have hb := check_bound c hwf b off size ok hf.1 hv.1 hnw.1 hg.1
      intro t ht
      simp only [checksOf, List.mem_cons] at ht
      rcases ht with h | h
      · subst h; exact hb
      · exact ih hf.2 hv.2 hnw.2 (by simpa [guard] using hg.2) t h
    | assert ok =>
      simp only [Faithful, PtrsRepresentable, NoWrap] at hf hv hnw
      simp only [guard, List.all_cons, Bool.and_eq_true] at hg
      exact ih hf hv hnw (by simpa [guard] using hg.2)
    | touch lo len w =>
      simp only [Faithful, PtrsRepresentable, NoWrap] at hf hv hnw
      simp only [guard, List.all_cons, Bool.and_eq_true] at hg
      exact ih hf hv hnw (by simpa [guard] using hg.2)

theorem any_inside (n : Nat) (all : List (Nat × Nat × Nat)) (hall : ∀ t ∈ all, t.1 + t.2.1 + t.2.2 ≤ n)
    (evs : List Ev) (hc : CoveredAny all evs) : allInside n (touches evs) = true := by
  induction evs with
  | nil => rfl
  | cons e r ih =>
    cases e with
    | check b off size ok => exact ih hc
    | assert ok => exact ih hc
    | touch lo len w =>
      simp only [touches, allInside, List.all_cons, Bool.and_eq_true]
      exact ⟨inside_of_covered n all lo len hall hc.1, by simpa [allInside] using ih hc.2⟩

/-- `assign_range` / `assign(first, last)`: the copy is covered by the check of the `resize` that FOLLOWS it -/
theorem dataAssignRange_any (c : Ctx) (d : DataL) (p len : Nat) :
    CoveredAny (checksOf (dataAssignRange c d p len)) (dataAssignRange c d p len) := by
  unfold dataAssignRange
  rw [dataResize_eq]
  simp only [dataUnchecked, List.cons_append, List.nil_append, CoveredAny, checksOf]
  exact ⟨Or.inr ⟨(p, 0, d.lenSize + len), by simp, by simp only; omega, by simp only; omega⟩,
    Or.inr ⟨(p, 0, d.lenSize + len), by simp, by simp, by simp only; omega⟩, trivial⟩

theorem step_any (c : Ctx) (hn : c.base + c.n < 2^63) (hc : c.Canon) (pos : Pos) (op : Op) (evs : List Ev) (pos' : Pos)
    (hw : PosWF pos) (hp : Op.preB c pos op = true) (h : step c pos op = some (evs, pos')) :
    CoveredAny (checksOf evs) evs := by
  by_cases hcf : op.checkedFirst = true
  · have := covered_imp_any evs [] (step_good c hn hc pos op evs pos' hw hp hcf h).1.2
    simpa using this
  · cases op <;> simp [Op.checkedFirst] at hcf
    rename_i len
    cases pos <;> simp [step] at h
    rename_i p d
    obtain ⟨h1, _⟩ := h
    subst h1
    exact dataAssignRange_any c d p len

theorem walk_any (c : Ctx) (hn : c.base + c.n < 2^63) (hc : c.Canon) : ∀ (ops : List Op) (pos : Pos) (evs : List Ev),
    PosWF pos → opsOk c pos ops = true → walk c pos ops = some evs → CoveredAny (checksOf evs) evs := by
  intro ops
  induction ops with
  | nil => intro pos evs _ _ h; simp only [walk] at h; injection h with h; subst h; trivial
  | cons op ops ih =>
    intro pos evs hw hok h
    simp only [walk] at h
    simp only [opsOk, Bool.and_eq_true] at hok
    match hs : step c pos op with
    | none => simp [hs] at h
    | some (e1, pos') =>
      simp only [hs] at h hok
      have h1 := step_any c hn hc pos op e1 pos' hw hok.1 hs
      have hw' := (step_faithful c hn hc pos op e1 pos' hw hok.1 hs).2
      match hr : walk c pos' ops with
      | none => simp [hr] at h
      | some e2 =>
        simp only [hr] at h
        injection h with h; subst h
        have h2 := ih pos' e2 hw' hok.2 hr
        refine (coveredAny_append _ _ _).mpr ⟨(coveredAny_append _ _ _).mpr ⟨?_, ?_⟩, ?_⟩
        · exact coveredAny_mono e1 _ _ (by intro t ht; simp only [checksOf_append, List.mem_append]; exact Or.inl (Or.inl ht)) h1
        · split <;> trivial
        · exact coveredAny_mono e2 _ _ (by intro t ht; simp only [checksOf_append, List.mem_append]; exact Or.inr ht) h2

end Sbepp.Rt.Guards

namespace Sbepp.Rt.Guards

/-- a canary-mode run that ends normally had every check pass, and is clean if all touches are inside -/
theorem runCanary_ok (n slack : Nat) (evs : List Ev) : ∀ (i : Nat) (d d' : Bool),
    runCanary n slack evs i d = (.ok, d') →
    guard evs = true ∧ (allInside n (touches evs) = true → d' = d) := by
  induction evs with
  | nil => intro i d d' h; simp only [runCanary, Prod.mk.injEq] at h; exact ⟨rfl, fun _ => h.2.symm⟩
  | cons e r ih =>
    intro i d d' h
    cases e with
    | check b off size ok =>
      match ok, h with
      | some true, h =>
        simp only [runCanary] at h
        have := ih _ _ _ h
        exact ⟨by simp only [guard, List.all_cons, Ev.passes, beq_self_eq_true, Bool.true_and]; exact this.1, by simpa [touches] using this.2⟩
      | some false, h => simp [runCanary] at h
      | none, h => simp [runCanary] at h
    | assert ok =>
      match ok, h with
      | some true, h =>
        simp only [runCanary] at h
        have := ih _ _ _ h
        exact ⟨by simp only [guard, List.all_cons, Ev.passes, beq_self_eq_true, Bool.true_and]; exact this.1, by simpa [touches] using this.2⟩
      | some false, h => simp [runCanary] at h
      | none, h => simp [runCanary] at h
    | touch lo len w =>
      simp only [runCanary] at h
      split at h
      · have := ih _ _ _ h
        refine ⟨by simp only [guard, List.all_cons, Ev.passes, Bool.true_and]; exact this.1, ?_⟩
        intro hin
        simp only [touches, allInside, List.all_cons, Bool.and_eq_true] at hin
        have h2 := this.2 (by simpa [allInside] using hin.2)
        rw [h2, hin.1]; simp
      · simp at h

end Sbepp.Rt.Guards
