/-
  Tie of the layout arithmetic of the validator model (`Schema/Resolve.lean`:
  `storedOffset`, `offsetStep`, `blockLengthStep`, and through them `compLeaves`,
  `fieldLeaves`, `resolveGroup`, `resolveMessage`; `Schema/Rules.lean`:
  `vElementOffset`, `vFields`, `vLevelValues`) to the C++ text.

  `Sbepp.Extracted.ValidatorLayout` is regenerated from
  `sbeppc/src/sbepp/sbeppc/sbe_schema_validator.hpp` on every check run by
  `extract/validator_layout.py`: `validate_element_offset`, `validate_field_offset`,
  `validate_block_length` statement by statement, and the accumulator skeletons
  of `validate_encoding(composite)` and `validate_members` (running offset from 0,
  per element the step, final offset = composite size / argument of
  `validate_block_length`).

  * `*_tie`: generated definition = hand-written step / loop.  The C++ computes in
    `offset_t` = `std::uint64_t`; the hand model in `Nat`.  Since fix 0032 both
    reject a member whose offset + size exceeds 2^64 - 1, so no step can wrap and
    the ties need no no-overflow hypothesis any more — only that the *inputs* are
    `offset_t` values (`cur < 2^64`, custom offsets `< 2^64`: the parser guarantees
    it; for accepted layouts it follows, `compositeTyped_of_ok`, `membersTyped_of_ok`).
    `overflow_witness_*`: the schema that used to wrap is rejected by the model and
    by the generated code.  The C++ `throw_error`s are compared through `render`
    (tag = leading words of the format string + the two numbers -> the hand
    model's message).
  * `extracted_*`: the facts the layout theorems (C01, C02, C08: `resolve_wf`,
    `accepted_no_overlap`, `accepted_members_in_block`) rest on, restated for the
    generated definitions: stored offset >= running offset, new running offset =
    offset + size <= 2^64 - 1, custom offset below the minimum => this error, offset +
    size above 2^64 - 1 => that error, accepted custom blockLength >= computed.
  * `compLeaves_step`, `vElementOffset_step`, `vFields_step`, `vLevelValues_step`:
    the loops of both hand models (`Schema/Resolve.lean`, `Schema/Rules.lean`) take
    exactly these steps.
  * `compLeaves_skeleton`, `fieldLeaves_skeleton`, `composite_size_extracted`,
    `level_layout_extracted`, `message_layout_extracted`: the composite sizes and
    block lengths of every layout the hand model accepts are the ones the
    generated loop skeletons compute (from 0, step by step, final offset = size /
    argument of `validate_block_length`) — without side condition.
  * `compLeaves_no_wrap`, `fieldLeaves_no_wrap`, `accepted_composite_no_wrap`,
    `accepted_level_no_wrap`: what fix
    0032 buys: in every accepted composite / level every member ends at or before
    the size / computed block length, which is at most 2^64 - 1.
-/
import Sbepp.Schema.Resolve
import Sbepp.Schema.Rules
import Sbepp.Extracted.ValidatorLayout
import Sbepp.Lemmas.ResolveWF

namespace Sbepp.Schema.LayoutTie
open Sbepp Sbepp.Schema
open Sbepp.Extracted (ValidatorLayout.Thrown)

namespace E
export Sbepp.Extracted.ValidatorLayout (Thrown wrap64 field_presence validate_element_offset validate_field_offset
  validate_block_length validate_encoding_composite validate_encoding_composite.loop validate_encoding_composite.Item
  validate_members validate_members.loop validate_members.Item)
end E

/-- the message the hand model gives a `throw_error` of the layout rules (tag = leading words of the C++ format
    string, then the two numbers) -/
def render : E.Thrown → String
  | (tag, [a, b]) => if tag = "offset" then overflowMsg a b else layoutMsg tag a b
  | (tag, _) => tag

theorem render_tooSmall (a b : Nat) : render ("custom offset", [a, b]) = layoutMsg "custom offset" a b := by
  simp [render]
theorem render_blockLength (a b : Nat) : render ("custom `blockLength`", [a, b]) = layoutMsg "custom `blockLength`" a b := by
  simp [render]
theorem render_overflow (a b : Nat) : render ("offset", [a, b]) = overflowMsg a b := by
  simp [render]

/-- 2^64: `offset_t`, `block_length_t`, `std::size_t` -/
def U64 : Nat := 18446744073709551616

/-- `offsetMax` of the hand model is `std::numeric_limits<offset_t>::max()` for the width the translator read -/
theorem offsetMax_eq : offsetMax + 1 = U64 := by decide

/-- typing of the inputs: the running offset and the custom offset are `offset_t` values -/
def Typed (custom : Option Nat) (cur : Nat) : Prop := cur < U64 ∧ ∀ o, custom = some o → o < U64

/-- the overflow test of the C++ (`enc_size > max - current_offset`, computed in `offset_t`) on an `offset_t` value -/
theorem overflow_test {off : Nat} (size : Nat) (h : off < U64) :
    (size > E.wrap64 (18446744073709551615 + 18446744073709551616 - off)) ↔ offsetMax < off + size := by
  unfold Sbepp.Extracted.ValidatorLayout.wrap64 offsetMax
  unfold U64 at h
  omega

theorem wrap64_of_lt {n : Nat} (h : n < U64) : E.wrap64 n = n := by
  unfold Sbepp.Extracted.ValidatorLayout.wrap64; exact Nat.mod_eq_of_lt h

/-! ## the three steps -/

theorem field_step_aux (lo : Nat) {off : Nat} (size : Nat) (h : off < U64) :
    (Except.mapError render
      (if size > E.wrap64 (18446744073709551615 + 18446744073709551616 - off) then
        (Except.error ("offset", [off, size]) : Except E.Thrown (Nat × Nat))
       else .ok (lo, E.wrap64 (off + size)))) =
    (if offsetMax < off + size then .error (overflowMsg off size) else .ok (lo, off + size)) := by
  by_cases hov : offsetMax < off + size
  · rw [if_pos ((overflow_test size h).mpr hov), if_pos hov]
    simp only [Except.mapError, render_overflow]
  · rw [if_neg (fun hx => hov ((overflow_test size h).mp hx)), if_neg hov]
    have : off + size < U64 := by have := offsetMax_eq; omega
    simp only [Except.mapError, wrap64_of_lt this]

/-- `validate_field_offset` of the C++ = `offsetStep` (inputs `offset_t` values) -/
theorem validate_field_offset_tie (size : Nat) (custom : Option Nat) (cur : Nat) (h : Typed custom cur) :
    (E.validate_field_offset size custom cur).mapError render = offsetStep custom cur size := by
  unfold Sbepp.Extracted.ValidatorLayout.validate_field_offset offsetStep storedOffset
  cases custom with
  | none => exact field_step_aux cur size h.1
  | some o =>
    by_cases ho : o < cur
    · simp only [ho, if_true, Except.mapError, render_tooSmall]
    · simp only [ho, if_false]
      exact field_step_aux o size (h.2 o rfl)

theorem elem_step_aux {off : Nat} (size : Nat) (h : off < U64) :
    (Except.mapError render
      (if size > E.wrap64 (18446744073709551615 + 18446744073709551616 - off) then
        (Except.error ("offset", [off, size]) : Except E.Thrown (Option Nat × Nat))
       else .ok (some off, E.wrap64 (off + size)))) =
    (Except.map (fun p => (some p.1, p.2))
      (if offsetMax < off + size then (Except.error (overflowMsg off size) : Except String (Nat × Nat))
       else .ok (off, off + size))) := by
  by_cases hov : offsetMax < off + size
  · rw [if_pos ((overflow_test size h).mpr hov), if_pos hov]
    simp only [Except.mapError, Except.map, render_overflow]
  · rw [if_neg (fun hx => hov ((overflow_test size h).mp hx)), if_neg hov]
    have : off + size < U64 := by have := offsetMax_eq; omega
    simp only [Except.mapError, Except.map, wrap64_of_lt this]

/-- `validate_element_offset` of the C++ = skip constants, else `offsetStep` -/
theorem validate_element_offset_tie (isConst : Bool) (size : Nat) (custom : Option Nat) (cur : Nat)
    (h : isConst = false → Typed custom cur) :
    (E.validate_element_offset isConst size custom cur).mapError render =
      if isConst then .ok (none, cur) else (offsetStep custom cur size).map (fun p => (some p.1, p.2)) := by
  unfold Sbepp.Extracted.ValidatorLayout.validate_element_offset offsetStep storedOffset
  cases isConst with
  | true => rfl
  | false =>
    have h := h rfl
    simp only [Bool.false_eq_true, if_false]
    cases custom with
    | none => exact elem_step_aux size h.1
    | some o =>
      by_cases ho : o < cur
      · simp only [ho, if_true, Except.mapError, Except.map, render_tooSmall]
      · simp only [ho, if_false]
        exact elem_step_aux size (h.2 o rfl)

/-- `validate_block_length` of the C++ = `blockLengthStep` (= `Schema.blockLength`); no arithmetic, no hypothesis -/
theorem validate_block_length_tie :
    (fun custom actual => (E.validate_block_length custom actual).mapError render) = blockLengthStep := by
  funext custom actual
  unfold Sbepp.Extracted.ValidatorLayout.validate_block_length blockLengthStep blockLength
  cases custom with
  | none => rfl
  | some b =>
    by_cases hb : b < actual
    · simp only [hb, if_true, Except.mapError, render_blockLength]
    · simp only [hb, if_false]; rfl

/-- regression (fix 0032, `fixes/0032-witness-schema.xml`): a custom offset of 2^64 − 4 followed by four bytes used to
    wrap the running offset to 0 (the next element was placed at 0, the composite got size 4).  Now the generated
    code rejects it ... -/
theorem overflow_witness_extracted :
    E.validate_encoding_composite [⟨false, 4, some 18446744073709551612⟩, ⟨false, 4, none⟩] =
      .error ("offset", [18446744073709551612, 4]) := by rfl

/-- ... and so does the hand model, with the same diagnostic -/
theorem overflow_witness_model :
    offsetStep (some 18446744073709551612) 0 4 = .error (overflowMsg 18446744073709551612 4) := by rfl

/-- the acceptance twin: the largest offset at which four bytes still fit -/
theorem overflow_witness_twin :
    E.validate_encoding_composite [⟨false, 4, some 18446744073709551611⟩] =
      .ok ([some 18446744073709551611], 18446744073709551615) ∧
    offsetStep (some 18446744073709551611) 0 4 = .ok (18446744073709551611, 18446744073709551615) := ⟨by rfl, by rfl⟩

/-- non-vacuity: a composite `a:uint32, k:constant, b:uint16 offset=8, c:uint32` — `c` lands at 10 and the size is 14
    (the shape on which `current_offset += *element.offset` would give 14 and 18) -/
example : E.validate_encoding_composite [⟨false, 4, none⟩, ⟨true, 1, none⟩, ⟨false, 2, some 8⟩, ⟨false, 4, none⟩] =
    .ok ([some 0, none, some 8, some 10], 14) := by rfl

example : Typed (some 8) 4 := ⟨by unfold U64; decide, fun o h => by cases h; unfold U64; decide⟩

/-- non-vacuity: fields `x:uint32`, a constant, `y:uint16 offset=8` with `blockLength=16`; and a too small one -/
example : E.validate_members [⟨.required, 0, 4, true, none, .required⟩, ⟨.required, 0, 1, true, none, .constant⟩,
    ⟨.required, 0, 2, true, some 8, .optional⟩] (some 16) = .ok ([some 0, none, some 8], 16) := by rfl

example : E.validate_members [⟨.required, 0, 4, true, none, .required⟩] (some 3) =
    .error ("custom `blockLength`", [3, 4]) := by rfl

/-! ## what the layout theorems rest on, for the generated definitions -/

theorem offsetStep_ok {custom : Option Nat} {cur size off next : Nat} (h : offsetStep custom cur size = .ok (off, next)) :
    off = custom.getD cur ∧ next = off + size ∧ cur ≤ off ∧ off + size ≤ offsetMax := by
  unfold offsetStep storedOffset at h
  cases custom with
  | none =>
    simp only at h
    split at h
    · simp at h
    · simp only [Except.ok.injEq, Prod.mk.injEq] at h
      obtain ⟨rfl, rfl⟩ := h
      exact ⟨rfl, rfl, Nat.le_refl _, by omega⟩
  | some o =>
    simp only at h
    by_cases ho : o < cur
    · simp [ho] at h
    · simp only [ho, if_false] at h
      split at h
      · simp at h
      · simp only [Except.ok.injEq, Prod.mk.injEq] at h
        obtain ⟨rfl, rfl⟩ := h
        exact ⟨rfl, rfl, by omega, by omega⟩

theorem ok_of_mapError_ok {α : Type} {r : Except E.Thrown α} {x : α} (h : r.mapError render = .ok x) : r = .ok x := by
  cases r with
  | error t => simp [Except.mapError] at h
  | ok y => simpa [Except.mapError] using h

/-- an accepted element starts at or behind the running offset; the new running offset is its end, and `offset_t`
    holds it (no wrap) -/
theorem extracted_field_offset_ok {size : Nat} {custom : Option Nat} {cur off next : Nat} (ht : Typed custom cur)
    (h : E.validate_field_offset size custom cur = .ok (off, next)) :
    cur ≤ off ∧ next = off + size ∧ off + size ≤ offsetMax ∧ (custom = some off ∨ custom = none ∧ off = cur) := by
  have ht' := validate_field_offset_tie size custom cur ht
  rw [h] at ht'
  obtain ⟨hoff, hnext, hle, hmax⟩ := offsetStep_ok ht'.symm
  refine ⟨hle, hnext, hmax, ?_⟩
  cases custom with
  | none => exact Or.inr ⟨rfl, hoff⟩
  | some o => exact Or.inl (by rw [hoff]; rfl)

/-- a custom offset below the running offset is rejected, with this `throw_error` -/
theorem extracted_field_offset_below_min (size : Nat) {o cur : Nat} (h : o < cur) :
    E.validate_field_offset size (some o) cur = .error ("custom offset", [o, cur]) := by
  unfold Sbepp.Extracted.ValidatorLayout.validate_field_offset
  simp only [h, if_true]

/-- an element that does not end at or before 2^64 − 1 is rejected, with this `throw_error` (fix 0032) -/
theorem extracted_field_offset_overflow (size : Nat) {custom : Option Nat} {cur : Nat} (ht : Typed custom cur)
    (hle : cur ≤ custom.getD cur) (hov : offsetMax < custom.getD cur + size) :
    E.validate_field_offset size custom cur = .error ("offset", [custom.getD cur, size]) := by
  unfold Sbepp.Extracted.ValidatorLayout.validate_field_offset
  cases custom with
  | none =>
    simp only [Option.getD_none] at hov ⊢
    rw [if_pos ((overflow_test size ht.1).mpr hov)]
  | some o =>
    simp only [Option.getD_some] at hov hle ⊢
    rw [if_neg (by omega), if_pos ((overflow_test size (ht.2 o rfl)).mpr hov)]

/-- ... and these are the only ways it fails -/
theorem extracted_field_offset_error {size : Nat} {custom : Option Nat} {cur : Nat} {t : E.Thrown}
    (ht : Typed custom cur) (h : E.validate_field_offset size custom cur = .error t) :
    (∃ o, custom = some o ∧ o < cur ∧ t = ("custom offset", [o, cur])) ∨
    (cur ≤ custom.getD cur ∧ offsetMax < custom.getD cur + size ∧ t = ("offset", [custom.getD cur, size])) := by
  unfold Sbepp.Extracted.ValidatorLayout.validate_field_offset at h
  cases custom with
  | none =>
    simp only at h
    split at h
    · rename_i hx
      simp only [Except.error.injEq] at h
      exact Or.inr ⟨Nat.le_refl _, (overflow_test size ht.1).mp hx, h.symm⟩
    · simp at h
  | some o =>
    simp only at h
    split at h
    · rename_i ho
      simp only [Except.error.injEq] at h
      exact Or.inl ⟨o, rfl, ho, h.symm⟩
    · rename_i ho
      split at h
      · rename_i hx
        simp only [Except.error.injEq] at h
        exact Or.inr ⟨by simp only [Option.getD_some]; omega, (overflow_test size (ht.2 o rfl)).mp hx, h.symm⟩
      · simp at h

/-- composite elements: a constant element stores nothing and leaves the running offset alone; any other element is
    laid out exactly like a field -/
theorem extracted_element_offset_const (size : Nat) (custom : Option Nat) (cur : Nat) :
    E.validate_element_offset true size custom cur = .ok (none, cur) := rfl

theorem extracted_element_offset_nonconst (size : Nat) (custom : Option Nat) (cur : Nat) :
    E.validate_element_offset false size custom cur =
      (E.validate_field_offset size custom cur).map (fun p => (some p.1, p.2)) := by
  unfold Sbepp.Extracted.ValidatorLayout.validate_element_offset Sbepp.Extracted.ValidatorLayout.validate_field_offset
  simp only [Bool.false_eq_true, if_false]
  cases custom with
  | none =>
    simp only
    split <;> rfl
  | some o =>
    simp only
    split
    · rfl
    · split <;> rfl

theorem extracted_element_offset_ok {size : Nat} {custom : Option Nat} {cur next : Nat} {stored : Option Nat}
    (ht : Typed custom cur) (h : E.validate_element_offset false size custom cur = .ok (stored, next)) :
    ∃ off, stored = some off ∧ cur ≤ off ∧ next = off + size ∧ off + size ≤ offsetMax ∧
      (custom = some off ∨ custom = none ∧ off = cur) := by
  rw [extracted_element_offset_nonconst] at h
  cases hf : E.validate_field_offset size custom cur with
  | error t => simp [hf, Except.map] at h
  | ok p =>
    obtain ⟨off, nx⟩ := p
    simp only [hf, Except.map, Except.ok.injEq, Prod.mk.injEq] at h
    obtain ⟨rfl, rfl⟩ := h
    exact ⟨off, rfl, extracted_field_offset_ok ht hf⟩

theorem extracted_element_offset_below_min (size : Nat) {o cur : Nat} (h : o < cur) :
    E.validate_element_offset false size (some o) cur = .error ("custom offset", [o, cur]) := by
  rw [extracted_element_offset_nonconst, extracted_field_offset_below_min size h]; rfl

theorem extracted_element_offset_overflow (size : Nat) {custom : Option Nat} {cur : Nat} (ht : Typed custom cur)
    (hle : cur ≤ custom.getD cur) (hov : offsetMax < custom.getD cur + size) :
    E.validate_element_offset false size custom cur = .error ("offset", [custom.getD cur, size]) := by
  rw [extracted_element_offset_nonconst, extracted_field_offset_overflow size ht hle hov]; rfl

/-- an accepted `blockLength` is at least the computed one: the custom one if there is one, else the computed one -/
theorem extracted_block_length_ok {custom : Option Nat} {actual b : Nat}
    (h : E.validate_block_length custom actual = .ok b) :
    actual ≤ b ∧ (custom = some b ∨ custom = none ∧ b = actual) := by
  unfold Sbepp.Extracted.ValidatorLayout.validate_block_length at h
  cases custom with
  | none =>
    simp only [Except.ok.injEq] at h
    subst h
    exact ⟨Nat.le_refl _, Or.inr ⟨rfl, rfl⟩⟩
  | some c =>
    simp only at h
    split at h
    · simp at h
    · rename_i hc
      simp only [Except.ok.injEq] at h
      subst h
      exact ⟨by omega, Or.inl rfl⟩

/-- a custom `blockLength` below the computed one is rejected, with this `throw_error` -/
theorem extracted_block_length_below_min {c actual : Nat} (h : c < actual) :
    E.validate_block_length (some c) actual = .error ("custom `blockLength`", [c, actual]) := by
  unfold Sbepp.Extracted.ValidatorLayout.validate_block_length
  simp only [h, if_true]

theorem extracted_block_length_error {custom : Option Nat} {actual : Nat} {t : E.Thrown}
    (h : E.validate_block_length custom actual = .error t) :
    ∃ c, custom = some c ∧ c < actual ∧ t = ("custom `blockLength`", [c, actual]) := by
  unfold Sbepp.Extracted.ValidatorLayout.validate_block_length at h
  cases custom with
  | none => simp at h
  | some c =>
    simp only at h
    split at h
    · rename_i hc
      simp only [Except.error.injEq] at h
      exact ⟨c, rfl, hc, h.symm⟩
    · simp at h

/-! ## the loop skeletons -/

abbrev CItem := E.validate_encoding_composite.Item
abbrev FItem := E.validate_members.Item

/-- the accumulator skeleton of `validate_encoding(composite)` over the hand-model step: per element the stored
    `offset_in_composite` (none for a constant element), and the final running offset -/
def compositeLoop : List CItem → Nat → Except String (List (Option Nat) × Nat)
  | [], cur => .ok ([], cur)
  | e :: rest, cur =>
    if e.is_constant_composite_element then
      match compositeLoop rest cur with
      | .error err => .error err
      | .ok (outs, total) => .ok (none :: outs, total)
    else
      match offsetStep e.offset cur e.context_size with
      | .error err => .error err
      | .ok (off, next) =>
        match compositeLoop rest next with
        | .error err => .error err
        | .ok (outs, total) => .ok (some off :: outs, total)

/-- typing of the loop inputs: the custom offsets of the non-constant elements are `offset_t` values (the parser
    guarantees it: `attrNotNumeric`) -/
def CompositeTyped (items : List CItem) : Prop :=
  ∀ e ∈ items, e.is_constant_composite_element = false → ∀ o, e.offset = some o → o < U64

theorem composite_loop_tie : ∀ (items : List CItem) (cur : Nat), cur < U64 → CompositeTyped items →
    (E.validate_encoding_composite.loop items cur).mapError render = compositeLoop items cur
  | [], _, _, _ => rfl
  | e :: rest, cur, hcur, ht => by
    unfold Sbepp.Extracted.ValidatorLayout.validate_encoding_composite.loop compositeLoop
    have htr : CompositeTyped rest := fun x hx => ht x (List.mem_cons_of_mem _ hx)
    by_cases hc : e.is_constant_composite_element = true
    · have ih := composite_loop_tie rest cur hcur htr
      rw [hc, extracted_element_offset_const]
      simp only [if_true, ← ih]
      cases E.validate_encoding_composite.loop rest cur with
      | error t => rfl
      | ok p => rfl
    · have hc' : e.is_constant_composite_element = false := by simpa using hc
      have hstep := validate_element_offset_tie false e.context_size e.offset cur
        (fun _ => ⟨hcur, ht e (List.mem_cons_self ..) hc'⟩)
      simp only [Bool.false_eq_true, if_false] at hstep
      rw [hc']
      simp only [Bool.false_eq_true, if_false]
      cases hv : E.validate_element_offset false e.context_size e.offset cur with
      | error t =>
        rw [hv] at hstep
        cases ho : offsetStep e.offset cur e.context_size with
        | error err =>
          rw [ho] at hstep
          simp only [Except.mapError, Except.map, Except.error.injEq] at hstep
          simp only [Except.mapError, hstep]
        | ok p => rw [ho] at hstep; simp [Except.mapError, Except.map] at hstep
      | ok p =>
        obtain ⟨stored, next⟩ := p
        rw [hv] at hstep
        cases ho : offsetStep e.offset cur e.context_size with
        | error err => rw [ho] at hstep; simp [Except.mapError, Except.map] at hstep
        | ok q =>
          obtain ⟨off, next'⟩ := q
          rw [ho] at hstep
          simp only [Except.mapError, Except.map, Except.ok.injEq, Prod.mk.injEq] at hstep
          obtain ⟨rfl, rfl⟩ := hstep
          obtain ⟨_, hnext, _, hmax⟩ := offsetStep_ok ho
          have ih := composite_loop_tie rest next (by have := offsetMax_eq; omega) htr
          simp only [← ih]
          cases E.validate_encoding_composite.loop rest next with
          | error t => rfl
          | ok p => rfl

/-- `validate_encoding(const sbe::composite&)` of the C++: the running offset starts at 0, every element takes the
    step, the final running offset is the composite's size -/
theorem validate_encoding_composite_tie (items : List CItem) (h : CompositeTyped items) :
    (E.validate_encoding_composite items).mapError render = compositeLoop items 0 := by
  unfold Sbepp.Extracted.ValidatorLayout.validate_encoding_composite
  rw [← composite_loop_tie items 0 (by unfold U64; decide) h]
  dsimp only
  cases E.validate_encoding_composite.loop items 0 with
  | error t => rfl
  | ok p => rfl

/-- `context.size` and `actual_presence` of a field as the head of the loop body computes them -/
def fieldSize (f : FItem) : Nat := if f.is_primitive_type then f.get_primitive_type_size else f.get_encoding_size
def fieldPresence (f : FItem) : E.field_presence := if f.is_primitive_type then f.presence else f.get_actual_presence

/-- the accumulator skeleton of the field loop of `validate_members` over the hand-model step: per field the stored
    `level_offset` (none for a constant field), and the final running offset -/
def membersLoop : List FItem → Nat → Except String (List (Option Nat) × Nat)
  | [], cur => .ok ([], cur)
  | f :: rest, cur =>
    if fieldPresence f = .constant then
      match membersLoop rest cur with
      | .error err => .error err
      | .ok (outs, total) => .ok (none :: outs, total)
    else
      match offsetStep f.offset cur (fieldSize f) with
      | .error err => .error err
      | .ok (off, next) =>
        match membersLoop rest next with
        | .error err => .error err
        | .ok (outs, total) => .ok (some off :: outs, total)

/-- `validate_members` as far as the layout goes: the field loop from 0, then `validate_block_length` on its result -/
def membersLayout (fields : List FItem) (custom : Option Nat) : Except String (List (Option Nat) × Nat) :=
  match membersLoop fields 0 with
  | .error err => .error err
  | .ok (outs, computed) =>
    match blockLengthStep custom computed with
    | .error err => .error err
    | .ok b => .ok (outs, b)

/-- typing of the loop inputs: the custom offsets of the non-constant fields are `offset_t` values -/
def MembersTyped (items : List FItem) : Prop :=
  ∀ f ∈ items, fieldPresence f ≠ .constant → ∀ o, f.offset = some o → o < U64

theorem members_loop_tie : ∀ (items : List FItem) (cur : Nat), cur < U64 → MembersTyped items →
    (E.validate_members.loop items cur).mapError render = membersLoop items cur
  | [], _, _, _ => rfl
  | f :: rest, cur, hcur, ht => by
    unfold Sbepp.Extracted.ValidatorLayout.validate_members.loop membersLoop
    have htr : MembersTyped rest := fun x hx => ht x (List.mem_cons_of_mem _ hx)
    have hsz : (if ¬ (f.is_primitive_type = true) then (f.get_encoding_size, f.get_actual_presence)
        else (f.get_primitive_type_size, f.presence)) = (fieldSize f, fieldPresence f) := by
      unfold fieldSize fieldPresence
      cases f.is_primitive_type <;> rfl
    simp only [hsz]
    by_cases hc : fieldPresence f = .constant
    · have ih := members_loop_tie rest cur hcur htr
      simp only [if_pos hc, ← ih]
      cases E.validate_members.loop rest cur with
      | error t => rfl
      | ok p => rfl
    · have hstep := validate_field_offset_tie (fieldSize f) f.offset cur ⟨hcur, ht f (List.mem_cons_self ..) hc⟩
      simp only [if_neg hc]
      cases hv : E.validate_field_offset (fieldSize f) f.offset cur with
      | error t =>
        rw [hv] at hstep
        simp only [Except.mapError] at hstep
        simp only [← hstep, Except.mapError]
      | ok p =>
        obtain ⟨off, next⟩ := p
        rw [hv] at hstep
        simp only [Except.mapError] at hstep
        obtain ⟨_, hnext, _, hmax⟩ := offsetStep_ok hstep.symm
        have ih := members_loop_tie rest next (by have := offsetMax_eq; omega) htr
        simp only [← hstep, ← ih]
        cases E.validate_members.loop rest next with
        | error t => rfl
        | ok p => rfl

/-- `validate_members` of the C++: the running offset starts at 0, every non-constant field takes the step, the
    final running offset is what `validate_block_length` is given; its result is the stored block length -/
theorem validate_members_tie (items : List FItem) (custom : Option Nat) (h : MembersTyped items) :
    (E.validate_members items custom).mapError render = membersLayout items custom := by
  unfold Sbepp.Extracted.ValidatorLayout.validate_members membersLayout
  rw [← members_loop_tie items 0 (by unfold U64; decide) h, ← validate_block_length_tie]
  dsimp only
  cases E.validate_members.loop items 0 with
  | error t => rfl
  | ok p =>
    obtain ⟨outs, computed⟩ := p
    simp only [Except.mapError]
    cases E.validate_block_length custom computed with
    | error t => rfl
    | ok b => rfl

/-! ## the loops of the hand models take exactly these steps -/

theorem offsetStep_of_stored {custom : Option Nat} {cur off : Nat} (size : Nat) (h : storedOffset custom cur = .ok off)
    (hfit : ¬ offsetMax < off + size) : offsetStep custom cur size = .ok (off, off + size) := by
  unfold offsetStep; rw [h]; simp only [if_neg hfit]

theorem offsetStep_overflow_of_stored {custom : Option Nat} {cur off : Nat} (size : Nat)
    (h : storedOffset custom cur = .ok off) (hov : offsetMax < off + size) :
    offsetStep custom cur size = .error (overflowMsg off size) := by
  unfold offsetStep; rw [h]; simp only [if_pos hov]

theorem offsetStep_error_of_stored {custom : Option Nat} {cur : Nat} {err : String} (size : Nat)
    (h : storedOffset custom cur = .error err) : offsetStep custom cur size = .error err := by
  unfold offsetStep; rw [h]

/-- `compLeaves` on a non-constant element: `offsetStep` on the element's size gives where it is put and where the
    rest continues -/
theorem compLeaves_step (types : List Elem) (fuel : Nat) (path : List String) (base cur : Nat) (e : Elem)
    (rest : List Elem) (hc : isConstElem types e = false) :
    compLeaves types (fuel + 1) path base cur (e :: rest) =
      match storedOffset e.offset cur with
      | .error err => .error err
      | .ok off =>
        match elemLeaves types fuel (path ++ [e.name]) (base + off) e with
        | .error err => .error err
        | .ok (sz, lv) =>
          match offsetStep e.offset cur sz with
          | .error err => .error err
          | .ok (_, next) =>
            match compLeaves types fuel path base next rest with
            | .error err => .error err
            | .ok (total, lv') => .ok (total, lv ++ lv') := by
  simp only [compLeaves, hc, Bool.false_eq_true, if_false]
  cases hs : storedOffset e.offset cur with
  | error err => rfl
  | ok off =>
    simp only
    cases elemLeaves types fuel (path ++ [e.name]) (base + off) e with
    | error err => rfl
    | ok p =>
      obtain ⟨sz, lv⟩ := p
      simp only
      by_cases hov : offsetMax < off + sz
      · simp only [offsetStep_overflow_of_stored sz hs hov, if_pos hov]
      · simp only [offsetStep_of_stored sz hs hov, if_neg hov]
        rfl

/-- `Schema.Rules.vElementOffset` (the C08 model) is the same step, with the two diagnostics classified -/
theorem vElementOffset_step (types : List Elem) (p : Spec.Rules.Path) (e : Elem) (cur sz : Nat) :
    Rules.vElementOffset types p e cur sz =
      if isConstElem types e then .ok cur
      else match storedOffset e.offset cur with
        | .error _ => Rules.fail .offsetTooSmall p
        | .ok off => if offsetMax < off + sz then Rules.fail .offsetOverflow p else .ok (off + sz) := by
  unfold Rules.vElementOffset Rules.vAdvance storedOffset
  by_cases hc : isConstElem types e = true
  · simp only [hc, if_true]
  · simp only [hc, Bool.false_eq_true, if_false]
    cases e.offset with
    | none => rfl
    | some o =>
      by_cases ho : o < cur
      · simp only [ho, if_true]
      · simp only [ho, if_false]

/-- ... so it accepts exactly when `offsetStep` does, with the same new running offset -/
theorem vElementOffset_ok_iff (types : List Elem) (p : Spec.Rules.Path) (e : Elem) (cur sz next : Nat)
    (hc : isConstElem types e = false) :
    Rules.vElementOffset types p e cur sz = .ok next ↔ ∃ off, offsetStep e.offset cur sz = .ok (off, next) := by
  rw [vElementOffset_step]
  unfold offsetStep
  simp only [hc, Bool.false_eq_true, if_false]
  cases storedOffset e.offset cur with
  | error err => simp [Rules.fail]
  | ok off =>
    by_cases hov : offsetMax < off + sz
    · simp [hov, Rules.fail]
    · simp [hov]

/-- `Schema.Rules.vLevelValues` (the C08 model) starts with `blockLengthStep` -/
theorem vLevelValues_step (types : List Elem) (hdr : String) (p : Spec.Rules.Path) (bl : Option Nat)
    (off nGroups nDatas : Nat) :
    Rules.vLevelValues types hdr p bl off nGroups nDatas =
      (match blockLengthStep bl off with
       | .error _ => Rules.fail .blockLengthTooSmall p
       | .ok b => do
         Rules.vHeaderValue types hdr "blockLength" b p
         Rules.vHeaderValue types hdr "numGroups" nGroups p
         Rules.vHeaderValue types hdr "numVarDataFields" nDatas p) := rfl

/-! ## the sizes and block lengths of the hand model are those of the generated skeletons -/

/-- element-wise relation of two lists -/
inductive ListRel {α β : Type} (R : α → β → Prop) : List α → List β → Prop
  | nil : ListRel R [] []
  | cons {a b as bs} : R a b → ListRel R as bs → ListRel R (a :: as) (b :: bs)

/-- `it` is what the C++ loop knows about composite element `e` -/
def DescribesElem (types : List Elem) (e : Elem) (it : CItem) : Prop :=
  it.is_constant_composite_element = isConstElem types e ∧ it.offset = e.offset ∧
    (isConstElem types e = false →
      ∃ fuel path base lv, elemLeaves types fuel path base e = .ok (it.context_size, lv))

theorem compLeaves_skeleton (types : List Elem) : ∀ (elems : List Elem) (fuel : Nat) (path : List String)
    (base cur total : Nat) (lv : List NLeaf), compLeaves types fuel path base cur elems = .ok (total, lv) →
    ∃ items offs, ListRel (DescribesElem types) elems items ∧ compositeLoop items cur = .ok (offs, total) := by
  intro elems
  induction elems with
  | nil =>
    intro fuel path base cur total lv h
    cases fuel <;> simp only [compLeaves, Except.ok.injEq, Prod.mk.injEq] at h <;>
      exact ⟨[], [], ListRel.nil, by rw [← h.1]; rfl⟩
  | cons e rest ih =>
    intro fuel path base cur total lv h
    cases fuel with
    | zero => simp [compLeaves] at h
    | succ fuel =>
      by_cases hc : isConstElem types e = true
      · simp only [compLeaves, hc, if_true] at h
        split at h
        · simp at h
        · obtain ⟨items, offs, hd, hl⟩ := ih _ _ _ _ _ _ h
          refine ⟨⟨true, 0, e.offset⟩ :: items, none :: offs, ListRel.cons ⟨hc.symm, rfl, ?_⟩ hd, ?_⟩
          · intro hf; rw [hc] at hf; cases hf
          · simp only [compositeLoop, if_true, hl]
      · have hc' : isConstElem types e = false := by simpa using hc
        rw [compLeaves_step types fuel path base cur e rest hc'] at h
        split at h
        · simp at h
        · rename_i off hoff
          split at h
          · simp at h
          · rename_i sz lv1 he
            by_cases hov : offsetMax < off + sz
            · rw [offsetStep_overflow_of_stored sz hoff hov] at h; simp at h
            rw [offsetStep_of_stored sz hoff hov] at h
            simp only at h
            split at h
            · simp at h
            · rename_i total' lv2 hr
              simp only [Except.ok.injEq, Prod.mk.injEq] at h
              obtain ⟨items, offs, hd, hl⟩ := ih _ _ _ _ _ _ hr
              refine ⟨⟨false, sz, e.offset⟩ :: items, some off :: offs,
                ListRel.cons ⟨hc'.symm, rfl, fun _ => ⟨_, _, _, _, he⟩⟩ hd, ?_⟩
              simp only [compositeLoop, Bool.false_eq_true, if_false, offsetStep_of_stored sz hoff hov, hl, h.1]

theorem compositeLoop_le : ∀ (items : List CItem) (cur : Nat) (offs : List (Option Nat)) (total : Nat),
    compositeLoop items cur = .ok (offs, total) → cur ≤ total
  | [], cur, offs, total, h => by
    simp only [compositeLoop, Except.ok.injEq, Prod.mk.injEq] at h; omega
  | e :: rest, cur, offs, total, h => by
    unfold compositeLoop at h
    split at h
    · split at h
      · simp at h
      · rename_i outs t hr
        simp only [Except.ok.injEq, Prod.mk.injEq] at h
        have := compositeLoop_le rest cur outs t hr
        omega
    · split at h
      · simp at h
      · rename_i off next ho
        split at h
        · simp at h
        · rename_i outs t hr
          simp only [Except.ok.injEq, Prod.mk.injEq] at h
          have := compositeLoop_le rest next outs t hr
          obtain ⟨_, hn, hle, _⟩ := offsetStep_ok ho
          omega

/-- what fix 0032 buys, on the skeleton: an accepted loop never leaves `offset_t` -/
theorem compositeLoop_bounded : ∀ (items : List CItem) (cur : Nat) (offs : List (Option Nat)) (total : Nat),
    compositeLoop items cur = .ok (offs, total) → cur ≤ offsetMax → total ≤ offsetMax
  | [], cur, offs, total, h, hc => by
    simp only [compositeLoop, Except.ok.injEq, Prod.mk.injEq] at h; omega
  | e :: rest, cur, offs, total, h, hc => by
    unfold compositeLoop at h
    split at h
    · split at h
      · simp at h
      · rename_i outs t hr
        simp only [Except.ok.injEq, Prod.mk.injEq] at h
        have := compositeLoop_bounded rest cur outs t hr hc
        omega
    · split at h
      · simp at h
      · rename_i off next ho
        split at h
        · simp at h
        · rename_i outs t hr
          simp only [Except.ok.injEq, Prod.mk.injEq] at h
          obtain ⟨_, hn, _, hmax⟩ := offsetStep_ok ho
          have := compositeLoop_bounded rest next outs t hr (by omega)
          omega

/-- an accepted loop had `offset_t` inputs: the typing hypothesis of the tie holds for everything the model accepts -/
theorem compositeTyped_of_ok : ∀ (items : List CItem) (cur : Nat) (offs : List (Option Nat)) (total : Nat),
    compositeLoop items cur = .ok (offs, total) → CompositeTyped items
  | [], _, _, _, _ => fun e he => by simp at he
  | e :: rest, cur, offs, total, h => by
    unfold compositeLoop at h
    split at h
    · rename_i hc
      split at h
      · simp at h
      · rename_i outs t hr
        have ih := compositeTyped_of_ok rest cur outs t hr
        intro x hx hxc
        rcases List.mem_cons.mp hx with rfl | hx
        · rw [hc] at hxc; cases hxc
        · exact ih x hx hxc
    · split at h
      · simp at h
      · rename_i off next ho
        split at h
        · simp at h
        · rename_i outs t hr
          have ih := compositeTyped_of_ok rest next outs t hr
          obtain ⟨hoff, _, _, hmax⟩ := offsetStep_ok ho
          intro x hx hxc
          rcases List.mem_cons.mp hx with rfl | hx
          · intro o hxo
            rw [hxo] at hoff
            simp only [Option.getD_some] at hoff
            have := offsetMax_eq
            omega
          · exact ih x hx hxc

/-- **composite_size_extracted**: the size the hand model gives an accepted composite is the size the C++ loop, as
    the source states it now, computes for elements with these constants, custom offsets and sizes — starting at 0,
    stepping by `validate_element_offset`, ending in `size = offset` — and it is at most 2^64 − 1 -/
theorem composite_size_extracted (types : List Elem) (fuel : Nat) (path : List String) (base : Nat) (n : String)
    (o : Option Nat) (elems : List Elem) (atr : Attrs) (sz : Nat) (lv : List NLeaf)
    (h : elemLeaves types (fuel + 1) path base (.composite n o elems atr) = .ok (sz, lv)) :
    ∃ items offs, ListRel (DescribesElem types) elems items ∧
      E.validate_encoding_composite items = .ok (offs, sz) ∧ sz ≤ offsetMax := by
  simp only [elemLeaves] at h
  obtain ⟨items, offs, hd, hl⟩ := compLeaves_skeleton types elems _ _ _ _ _ _ h
  refine ⟨items, offs, hd, ok_of_mapError_ok ?_, compositeLoop_bounded items 0 offs sz hl (by unfold offsetMax; decide)⟩
  rw [validate_encoding_composite_tie items (compositeTyped_of_ok items 0 offs sz hl), hl]

/-! ### fields and block lengths -/

def toE : Presence → E.field_presence
  | .required => .required
  | .optional => .optional
  | .constant => .constant

theorem toE_constant (p : Presence) : toE p = .constant ↔ p = .constant := by
  cases p <;> simp [toE]

theorem actualPresence_primitive {types : List Elem} {f : FieldDef} {pres : Presence}
    (h : actualPresence types f = .ok pres) (hp : isPrimitive f.type = true) : pres = f.presence := by
  unfold actualPresence at h
  simp only [hp, if_true, Except.ok.injEq] at h
  exact h.symm

/-- `it` is what the C++ field loop knows about field `f` when it reaches the layout statements -/
def DescribesField (types : List Elem) (f : FieldDef) (it : FItem) : Prop :=
  it.offset = f.offset ∧ it.is_primitive_type = isPrimitive f.type ∧ it.presence = toE f.presence ∧
  ∃ pres, actualPresence types f = .ok pres ∧ it.get_actual_presence = toE pres ∧
    (pres ≠ .constant →
      (isPrimitive f.type = true ∧ it.get_primitive_type_size = (primSize? f.type).getD 0) ∨
      (isPrimitive f.type = false ∧ ∃ enc off lv, lookup types f.type = some enc ∧
        elemLeaves types FUEL [f.name] off enc = .ok (it.get_encoding_size, lv)))

theorem fieldLeaves_skeleton (types : List Elem) : ∀ (fs : List FieldDef) (cur total : Nat) (lv : List NLeaf),
    fieldLeaves types cur fs = .ok (total, lv) →
    ∃ items offs, ListRel (DescribesField types) fs items ∧ membersLoop items cur = .ok (offs, total) := by
  intro fs
  induction fs with
  | nil =>
    intro cur total lv h
    simp only [fieldLeaves, Except.ok.injEq, Prod.mk.injEq] at h
    exact ⟨[], [], ListRel.nil, by rw [← h.1]; rfl⟩
  | cons f rest ih =>
    intro cur total lv h
    simp only [fieldLeaves, bind, Except.bind] at h
    split at h
    · simp at h
    · rename_i pres hpres
      split at h
      · -- constant field: skipped
        rename_i hconst
        have hpc : pres = .constant := by simpa using hconst
        have hrest : fieldLeaves types cur rest = .ok (total, lv) := by
          split at h
          · simp at h
          · exact h
        obtain ⟨items, offs, hd, hl⟩ := ih _ _ _ hrest
        let it : FItem := { get_actual_presence := toE pres, get_encoding_size := 0, get_primitive_type_size := 0,
                            is_primitive_type := isPrimitive f.type, offset := f.offset, presence := toE f.presence }
        have hfp : fieldPresence it = .constant := by
          unfold fieldPresence
          by_cases hp : isPrimitive f.type = true
          · have := actualPresence_primitive hpres hp
            simp only [it, hp, if_true]
            rw [← this, hpc]; rfl
          · simp only [it, hp, Bool.false_eq_true, if_false]
            rw [hpc]; rfl
        refine ⟨it :: items, none :: offs, ListRel.cons ⟨rfl, rfl, rfl, pres, hpres, rfl, fun hne => absurd hpc hne⟩ hd, ?_⟩
        simp only [membersLoop, if_pos hfp, hl]
      · rename_i hconst
        have hpc : pres ≠ .constant := by simpa using hconst
        split at h
        · simp at h
        · rename_i off hoff
          split at h
          · simp at h
          · rename_i szlv hszlv
            obtain ⟨sz, lv1⟩ := szlv
            split at h
            · simp at h
            rename_i hov
            have hov : ¬ offsetMax < off + sz := hov
            split at h
            · simp at h
            · rename_i tl hr
              obtain ⟨total', lv2⟩ := tl
              simp only [Except.ok.injEq, Prod.mk.injEq] at h
              obtain ⟨items, offs, hd, hl⟩ := ih _ _ _ hr
              let it : FItem := { get_actual_presence := toE pres, get_encoding_size := sz,
                                  get_primitive_type_size := sz, is_primitive_type := isPrimitive f.type,
                                  offset := f.offset, presence := toE f.presence }
              have hfp : fieldPresence it ≠ .constant := by
                unfold fieldPresence
                by_cases hp : isPrimitive f.type = true
                · have := actualPresence_primitive hpres hp
                  simp only [it, hp, if_true]
                  rw [← this]; exact fun hx => hpc ((toE_constant pres).mp hx)
                · simp only [it, hp, Bool.false_eq_true, if_false]
                  exact fun hx => hpc ((toE_constant pres).mp hx)
              have hfs : fieldSize it = sz := by
                show (if isPrimitive f.type = true then sz else sz) = sz
                split <;> rfl
              have hdesc : DescribesField types f it := by
                refine ⟨rfl, rfl, rfl, pres, hpres, rfl, fun _ => ?_⟩
                split at hszlv
                · rename_i hp
                  simp only [Except.ok.injEq, Prod.mk.injEq] at hszlv
                  exact Or.inl ⟨hp, hszlv.1.symm⟩
                · rename_i hp
                  split at hszlv
                  · rename_i enc hl
                    exact Or.inr ⟨by simpa using hp, enc, off, lv1, hl, hszlv⟩
                  · simp at hszlv
              have hl' : membersLoop items (off + sz) = .ok (offs, total') := hl
              have hio : it.offset = f.offset := rfl
              refine ⟨it :: items, some off :: offs, ListRel.cons hdesc hd, ?_⟩
              simp only [membersLoop, if_neg hfp, hfs, hio, offsetStep_of_stored sz hoff hov, hl', h.1]

theorem membersLoop_le : ∀ (items : List FItem) (cur : Nat) (offs : List (Option Nat)) (total : Nat),
    membersLoop items cur = .ok (offs, total) → cur ≤ total
  | [], cur, offs, total, h => by
    simp only [membersLoop, Except.ok.injEq, Prod.mk.injEq] at h; omega
  | f :: rest, cur, offs, total, h => by
    unfold membersLoop at h
    split at h
    · split at h
      · simp at h
      · rename_i outs t hr
        simp only [Except.ok.injEq, Prod.mk.injEq] at h
        have := membersLoop_le rest cur outs t hr
        omega
    · split at h
      · simp at h
      · rename_i off next ho
        split at h
        · simp at h
        · rename_i outs t hr
          simp only [Except.ok.injEq, Prod.mk.injEq] at h
          have := membersLoop_le rest next outs t hr
          obtain ⟨_, hn, hle, _⟩ := offsetStep_ok ho
          omega

theorem membersLoop_bounded : ∀ (items : List FItem) (cur : Nat) (offs : List (Option Nat)) (total : Nat),
    membersLoop items cur = .ok (offs, total) → cur ≤ offsetMax → total ≤ offsetMax
  | [], cur, offs, total, h, hc => by
    simp only [membersLoop, Except.ok.injEq, Prod.mk.injEq] at h; omega
  | f :: rest, cur, offs, total, h, hc => by
    unfold membersLoop at h
    split at h
    · split at h
      · simp at h
      · rename_i outs t hr
        simp only [Except.ok.injEq, Prod.mk.injEq] at h
        have := membersLoop_bounded rest cur outs t hr hc
        omega
    · split at h
      · simp at h
      · rename_i off next ho
        split at h
        · simp at h
        · rename_i outs t hr
          simp only [Except.ok.injEq, Prod.mk.injEq] at h
          obtain ⟨_, hn, _, hmax⟩ := offsetStep_ok ho
          have := membersLoop_bounded rest next outs t hr (by omega)
          omega

theorem membersTyped_of_ok : ∀ (items : List FItem) (cur : Nat) (offs : List (Option Nat)) (total : Nat),
    membersLoop items cur = .ok (offs, total) → MembersTyped items
  | [], _, _, _, _ => fun e he => by simp at he
  | f :: rest, cur, offs, total, h => by
    unfold membersLoop at h
    split at h
    · rename_i hc
      split at h
      · simp at h
      · rename_i outs t hr
        have ih := membersTyped_of_ok rest cur outs t hr
        intro x hx hxc
        rcases List.mem_cons.mp hx with rfl | hx
        · exact absurd hc hxc
        · exact ih x hx hxc
    · split at h
      · simp at h
      · rename_i off next ho
        split at h
        · simp at h
        · rename_i outs t hr
          have ih := membersTyped_of_ok rest next outs t hr
          obtain ⟨hoff, _, _, hmax⟩ := offsetStep_ok ho
          intro x hx hxc
          rcases List.mem_cons.mp hx with rfl | hx
          · intro o hxo
            rw [hxo] at hoff
            simp only [Option.getD_some] at hoff
            have := offsetMax_eq
            omega
          · exact ih x hx hxc

/-- **level_layout_extracted**: the block length the hand model gives an accepted message / group level
    (`resolveMessage`, `resolveGroup`: `fieldLeaves` from 0, then `blockLength`) is the `actual_block_length` the C++
    `validate_members`, as the source states it now, stores for fields with these presences, custom offsets and sizes
    and this custom `blockLength`; the computed block length is at most 2^64 − 1 -/
theorem level_layout_extracted (types : List Elem) (fields : List FieldDef) (custom : Option Nat) (computed b : Nat)
    (lv : List NLeaf) (hf : fieldLeaves types 0 fields = .ok (computed, lv)) (hb : blockLength custom computed = .ok b) :
    ∃ items offs, ListRel (DescribesField types) fields items ∧ E.validate_members items custom = .ok (offs, b) ∧
      computed ≤ offsetMax := by
  obtain ⟨items, offs, hd, hl⟩ := fieldLeaves_skeleton types fields 0 computed lv hf
  refine ⟨items, offs, hd, ok_of_mapError_ok ?_, membersLoop_bounded items 0 offs computed hl (by unfold offsetMax; decide)⟩
  rw [validate_members_tie items custom (membersTyped_of_ok items 0 offs computed hl)]
  unfold membersLayout
  rw [hl]
  show (match blockLength custom computed with | .error err => Except.error err | .ok b => .ok (offs, b)) = _
  rw [hb]

/-- the field loop of `Schema.Rules.vFields` (the C08 model) takes the same step on a non-constant field -/
theorem vFields_step (types : List Elem) (lp : Spec.Rules.Path) (cur : Nat) (f : FieldDef) (rest : List FieldDef)
    (info : Nat × Presence) (hn : Rules.vName f.name (lp ++ [f.name]) = .ok ())
    (hi : Rules.fieldInfo types (lp ++ [f.name]) f = .ok info) (hc : (info.2 == Presence.constant) = false) :
    Rules.vFields types lp cur (f :: rest) =
      match storedOffset f.offset cur with
      | .error _ => Rules.fail .offsetTooSmall (lp ++ [f.name])
      | .ok off =>
        if offsetMax < off + info.1 then Rules.fail .offsetOverflow (lp ++ [f.name])
        else Rules.vFields types lp (off + info.1) rest := by
  simp only [Rules.vFields, bind, Except.bind, hn, hi, hc, Bool.false_eq_true, if_false]
  unfold storedOffset Rules.vAdvance
  cases f.offset with
  | none =>
    simp only
    by_cases hov : offsetMax < cur + info.1
    · simp only [hov, if_true, Rules.fail]
    · simp only [hov, if_false]
  | some o =>
    by_cases ho : o < cur
    · simp only [ho, if_true]
    · simp only [ho, if_false]
      by_cases hov : offsetMax < o + info.1
      · simp only [hov, if_true, Rules.fail]
      · simp only [hov, if_false]

/-- **message_layout_extracted**: for every message the validator model accepts, the block length of its resolved
    layout is what the C++ `validate_members` stores (for the fields as the C++ loop sees them) -/
theorem message_layout_extracted (s : SchemaDef) (m : MessageDef) (r : NMessage) (h : resolveMessage s m = .ok r) :
    ∃ computed b lv gs ds, r.level = .mk b lv gs ds ∧ fieldLeaves s.types 0 m.fields = .ok (computed, lv) ∧
      computed ≤ offsetMax ∧
      ∃ items offs, ListRel (DescribesField s.types) m.fields items ∧
        E.validate_members items m.blockLength = .ok (offs, b) := by
  simp only [resolveMessage, bind, Except.bind] at h
  split at h
  · simp at h
  · rename_i cl hf
    obtain ⟨computed, lv⟩ := cl
    split at h
    · simp at h
    · rename_i b hb
      split at h
      · simp at h
      · rename_i gs hgs
        split at h
        · simp at h
        · rename_i ds hds
          split at h
          · split at h
            · simp at h
            · simp only [Except.ok.injEq] at h
              subst h
              obtain ⟨items, offs, hd, hv, hbound⟩ :=
                level_layout_extracted s.types m.fields m.blockLength computed b lv hf hb
              exact ⟨computed, b, lv, gs, ds, rfl, hf, hbound, items, offs, hd, hv⟩
          · simp at h

/-! ## what fix 0032 buys: accepted layouts never leave `offset_t` -/

/-- composites: from a running offset inside `offset_t` the size stays inside -/
theorem compLeaves_no_wrap (types : List Elem) : ∀ (elems : List Elem) (fuel : Nat) (path : List String)
    (base cur total : Nat) (lv : List NLeaf), compLeaves types fuel path base cur elems = .ok (total, lv) →
    cur ≤ offsetMax → total ≤ offsetMax := by
  intro elems fuel path base cur total lv h hc
  obtain ⟨items, offs, _, hl⟩ := compLeaves_skeleton types elems fuel path base cur total lv h
  exact compositeLoop_bounded items cur offs total hl hc

/-- levels: the computed block length stays inside `offset_t` -/
theorem fieldLeaves_no_wrap (types : List Elem) (fs : List FieldDef) (cur total : Nat) (lv : List NLeaf)
    (h : fieldLeaves types cur fs = .ok (total, lv)) (hc : cur ≤ offsetMax) : total ≤ offsetMax := by
  obtain ⟨items, offs, _, hl⟩ := fieldLeaves_skeleton types fs cur total lv h
  exact membersLoop_bounded items cur offs total hl hc

/-- **accepted_composite_no_wrap**: in every composite the model accepts, every member ends at or before the
    composite's size, and the size is at most 2^64 − 1: nothing wrapped -/
theorem accepted_composite_no_wrap (types : List Elem) (fuel : Nat) (path : List String) (n : String)
    (o : Option Nat) (elems : List Elem) (atr : Attrs) (sz : Nat) (lv : List NLeaf)
    (h : elemLeaves types (fuel + 1) path 0 (.composite n o elems atr) = .ok (sz, lv)) :
    (∀ l ∈ lv, l.off + l.size ≤ sz) ∧ sz ≤ offsetMax := by
  have hw := ((elem_comp_ok types (fuel + 1)).1 _ _ _ _ _ h).1
  refine ⟨fun l hl => by have := (hw l hl).2; omega, ?_⟩
  simp only [elemLeaves] at h
  exact compLeaves_no_wrap types elems _ _ _ _ _ _ h (by unfold offsetMax; decide)

/-- **accepted_level_no_wrap**: in every message / group level the model accepts, every field ends at or before the
    computed block length, which is at most 2^64 − 1 and at most the stored block length -/
theorem accepted_level_no_wrap (types : List Elem) (fields : List FieldDef) (custom : Option Nat) (computed b : Nat)
    (lv : List NLeaf) (hf : fieldLeaves types 0 fields = .ok (computed, lv)) (hb : blockLength custom computed = .ok b) :
    (∀ l ∈ lv, l.off + l.size ≤ computed) ∧ computed ≤ offsetMax ∧ computed ≤ b := by
  obtain ⟨_, hw, _⟩ := field_ok types fields 0 computed lv hf
  refine ⟨fun l hl => (hw l hl).2, fieldLeaves_no_wrap types fields 0 computed lv hf (by unfold offsetMax; decide), ?_⟩
  unfold blockLength at hb
  split at hb
  · split at hb
    · simp at hb
    · simp only [Except.ok.injEq] at hb; omega
  · simp only [Except.ok.injEq] at hb; omega

end Sbepp.Schema.LayoutTie
