/-
  Tie of the layout arithmetic of the validator model (`Schema/Resolve.lean`:
  `storedOffset`, `offsetStep`, `blockLengthStep`, and through them `compLeaves`,
  `fieldLeaves`, `resolveGroup`, `resolveMessage`; `Schema/Rules.lean`:
  `vElementOffset`, `vFields`, `vLevelValues`) to the C++ text.

  `Sbepp.Extracted.ValidatorLayout` is regenerated from
  `sbeppc/src/sbepp/sbeppc/sbe_schema_validator.hpp` on every check run by
  `extract/validator_layout.py`: `validate_element_offset`, `validate_field_offset`,
  `validate_block_length` statement by statement, and the accumulator skeletons
  of `validate_encoding(composite)` and `validate_members` (running offset from 0,
  per element the step, final offset = composite size / argument of
  `validate_block_length`).

  * `*_tie`: generated definition = hand-written step / loop.  The C++ computes in
    `offset_t` = `std::uint64_t`; the hand model in `Nat`.  The ties of the steps
    that add hold when the sum fits (`NoWrap`, `CompositeFits`, `MembersFits`);
    `nowrap_needed` shows that the hypothesis cannot be dropped and
    `wrap_accepts_overlap` what the C++ does then.  The C++ `throw_error`s are
    compared through `render` (tag = leading words of the format string + the two
    numbers -> the hand model's message).
  * `extracted_*`: the facts the layout theorems (C01, C02, C08: `resolve_wf`,
    `accepted_no_overlap`, `accepted_members_in_block`) rest on, restated for the
    generated definitions: stored offset >= running offset, new running offset =
    offset + size, custom offset below the minimum => this error, accepted custom
    blockLength >= computed.
  * `compLeaves_step`, `vElementOffset_step`, `vFields_step`, `vLevelValues_step`:
    the loops of both hand models (`Schema/Resolve.lean`, `Schema/Rules.lean`) take
    exactly these steps.
  * `compLeaves_skeleton`, `fieldLeaves_skeleton`, `composite_size_extracted`,
    `level_layout_extracted`, `message_layout_extracted`: the composite sizes and
    block lengths of every layout the hand model accepts are the ones the
    generated loop skeletons compute (from 0, step by step, final offset = size /
    argument of `validate_block_length`).
-/
import Sbepp.Schema.Resolve
import Sbepp.Schema.Rules
import Sbepp.Extracted.ValidatorLayout

namespace Sbepp.Schema.LayoutTie
open Sbepp Sbepp.Schema
open Sbepp.Extracted (ValidatorLayout.Thrown)

namespace E
export Sbepp.Extracted.ValidatorLayout (Thrown wrap64 field_presence validate_element_offset validate_field_offset
  validate_block_length validate_encoding_composite validate_encoding_composite.loop validate_encoding_composite.Item
  validate_members validate_members.loop validate_members.Item)
end E

/-- the message the hand model gives a `throw_error` of the layout rules (tag = leading words of the C++ format
    string, then the two numbers) -/
def render : E.Thrown → String
  | (tag, [a, b]) => layoutMsg tag a b
  | (tag, _) => tag

/-- 2^64: `offset_t`, `block_length_t`, `std::size_t` -/
def U64 : Nat := 18446744073709551616

/-- the step does not overflow `offset_t` -/
def NoWrap (custom : Option Nat) (cur size : Nat) : Prop := custom.getD cur + size < U64

theorem wrap64_of_lt {n : Nat} (h : n < U64) : E.wrap64 n = n := by
  unfold Sbepp.Extracted.ValidatorLayout.wrap64; exact Nat.mod_eq_of_lt h

/-! ## the three steps -/

/-- `validate_field_offset` of the C++ = `offsetStep` -/
theorem validate_field_offset_tie (size : Nat) (custom : Option Nat) (cur : Nat) (h : NoWrap custom cur size) :
    (E.validate_field_offset size custom cur).mapError render = offsetStep custom cur size := by
  unfold Sbepp.Extracted.ValidatorLayout.validate_field_offset offsetStep storedOffset
  unfold NoWrap at h
  cases custom with
  | none =>
    simp only [Option.getD_none] at h
    simp only [wrap64_of_lt h]
    rfl
  | some o =>
    simp only [Option.getD_some] at h
    by_cases ho : o < cur
    · simp only [ho, if_true]; rfl
    · simp only [ho, if_false, wrap64_of_lt h]; rfl

/-- `validate_element_offset` of the C++ = skip constants, else `offsetStep` -/
theorem validate_element_offset_tie (isConst : Bool) (size : Nat) (custom : Option Nat) (cur : Nat)
    (h : isConst = false → NoWrap custom cur size) :
    (E.validate_element_offset isConst size custom cur).mapError render =
      if isConst then .ok (none, cur) else (offsetStep custom cur size).map (fun p => (some p.1, p.2)) := by
  unfold Sbepp.Extracted.ValidatorLayout.validate_element_offset offsetStep storedOffset
  cases isConst with
  | true => rfl
  | false =>
    have h := h rfl
    unfold NoWrap at h
    simp only [Bool.false_eq_true, if_false]
    cases custom with
    | none =>
      simp only [Option.getD_none] at h
      simp only [wrap64_of_lt h]
      rfl
    | some o =>
      simp only [Option.getD_some] at h
      by_cases ho : o < cur
      · simp only [ho, if_true]; rfl
      · simp only [ho, if_false, wrap64_of_lt h]; rfl

/-- `validate_block_length` of the C++ = `blockLengthStep` (= `Schema.blockLength`); no arithmetic, no hypothesis -/
theorem validate_block_length_tie :
    (fun custom actual => (E.validate_block_length custom actual).mapError render) = blockLengthStep := by
  funext custom actual
  unfold Sbepp.Extracted.ValidatorLayout.validate_block_length blockLengthStep blockLength
  cases custom with
  | none => rfl
  | some b =>
    by_cases hb : b < actual
    · simp only [hb, if_true]; rfl
    · simp only [hb, if_false]; rfl

/-- the hypothesis of the two offset ties cannot be dropped: a custom offset of 2^64 − 4 followed by four bytes
    wraps the running offset to 0 in the C++, to 2^64 in the hand model -/
theorem nowrap_needed :
    (E.validate_field_offset 4 (some 18446744073709551612) 0).mapError render ≠
      offsetStep (some 18446744073709551612) 0 4 := by
  have h1 : (E.validate_field_offset 4 (some 18446744073709551612) 0).mapError render =
      .ok (18446744073709551612, 0) := by rfl
  have h2 : offsetStep (some 18446744073709551612) 0 4 = .ok (18446744073709551612, 18446744073709551616) := by rfl
  rw [h1, h2]
  intro h
  simp at h

/-- … and what the C++ then does: the next element is placed at offset 0 and the composite gets size 4, although its
    first element occupies [2^64 − 4, 2^64) (observed on the real sbeppc: the schema is accepted) -/
theorem wrap_accepts_overlap :
    E.validate_encoding_composite [⟨false, 4, some 18446744073709551612⟩, ⟨false, 4, none⟩] =
      .ok ([some 18446744073709551612, some 0], 4) := by rfl

/-- non-vacuity: a composite `a:uint32, k:constant, b:uint16 offset=8, c:uint32` — `c` lands at 10 and the size is 14
    (the shape on which `current_offset += *element.offset` would give 14 and 18) -/
example : E.validate_encoding_composite [⟨false, 4, none⟩, ⟨true, 1, none⟩, ⟨false, 2, some 8⟩, ⟨false, 4, none⟩] =
    .ok ([some 0, none, some 8, some 10], 14) := by rfl

example : NoWrap (some 8) 4 2 := by unfold NoWrap U64; decide

/-- non-vacuity: fields `x:uint32`, a constant, `y:uint16 offset=8` with `blockLength=16`; and a too small one -/
example : E.validate_members [⟨.required, 0, 4, true, none, .required⟩, ⟨.required, 0, 1, true, none, .constant⟩,
    ⟨.required, 0, 2, true, some 8, .optional⟩] (some 16) = .ok ([some 0, none, some 8], 16) := by rfl

example : E.validate_members [⟨.required, 0, 4, true, none, .required⟩] (some 3) =
    .error ("custom `blockLength`", [3, 4]) := by rfl

/-! ## what the layout theorems rest on, for the generated definitions -/

/-- an accepted element starts at or behind the running offset; the new running offset is its end (mod 2^64) -/
theorem extracted_field_offset_ok {size : Nat} {custom : Option Nat} {cur off next : Nat}
    (h : E.validate_field_offset size custom cur = .ok (off, next)) :
    cur ≤ off ∧ next = E.wrap64 (off + size) ∧ (custom = some off ∨ custom = none ∧ off = cur) := by
  unfold Sbepp.Extracted.ValidatorLayout.validate_field_offset at h
  cases custom with
  | none =>
    simp only [Except.ok.injEq, Prod.mk.injEq] at h
    obtain ⟨rfl, rfl⟩ := h
    exact ⟨Nat.le_refl _, rfl, Or.inr ⟨rfl, rfl⟩⟩
  | some o =>
    simp only at h
    split at h
    · simp at h
    · rename_i ho
      simp only [Except.ok.injEq, Prod.mk.injEq] at h
      obtain ⟨rfl, rfl⟩ := h
      exact ⟨by omega, rfl, Or.inl rfl⟩

/-- … without overflow: new running offset = offset + size -/
theorem extracted_field_offset_next {size : Nat} {custom : Option Nat} {cur off next : Nat}
    (h : E.validate_field_offset size custom cur = .ok (off, next)) (hfit : off + size < U64) : next = off + size := by
  rw [(extracted_field_offset_ok h).2.1, wrap64_of_lt hfit]

/-- a custom offset below the running offset is rejected, with this `throw_error` -/
theorem extracted_field_offset_below_min (size : Nat) {o cur : Nat} (h : o < cur) :
    E.validate_field_offset size (some o) cur = .error ("custom offset", [o, cur]) := by
  unfold Sbepp.Extracted.ValidatorLayout.validate_field_offset
  simp only [h, if_true]

/-- … and that is the only way it fails -/
theorem extracted_field_offset_error {size : Nat} {custom : Option Nat} {cur : Nat} {t : E.Thrown}
    (h : E.validate_field_offset size custom cur = .error t) :
    ∃ o, custom = some o ∧ o < cur ∧ t = ("custom offset", [o, cur]) := by
  unfold Sbepp.Extracted.ValidatorLayout.validate_field_offset at h
  cases custom with
  | none => simp at h
  | some o =>
    simp only at h
    split at h
    · rename_i ho
      simp only [Except.error.injEq] at h
      exact ⟨o, rfl, ho, h.symm⟩
    · simp at h

/-- composite elements: a constant element stores nothing and leaves the running offset alone; any other element is
    laid out exactly like a field -/
theorem extracted_element_offset_const (size : Nat) (custom : Option Nat) (cur : Nat) :
    E.validate_element_offset true size custom cur = .ok (none, cur) := rfl

theorem extracted_element_offset_nonconst (size : Nat) (custom : Option Nat) (cur : Nat) :
    E.validate_element_offset false size custom cur =
      (E.validate_field_offset size custom cur).map (fun p => (some p.1, p.2)) := by
  unfold Sbepp.Extracted.ValidatorLayout.validate_element_offset Sbepp.Extracted.ValidatorLayout.validate_field_offset
  cases custom with
  | none => rfl
  | some o =>
    by_cases ho : o < cur
    · simp only [ho, if_true, Bool.false_eq_true, if_false]; rfl
    · simp only [ho, if_false, Bool.false_eq_true]; rfl

theorem extracted_element_offset_ok {size : Nat} {custom : Option Nat} {cur next : Nat} {stored : Option Nat}
    (h : E.validate_element_offset false size custom cur = .ok (stored, next)) :
    ∃ off, stored = some off ∧ cur ≤ off ∧ next = E.wrap64 (off + size) ∧ (custom = some off ∨ custom = none ∧ off = cur) := by
  rw [extracted_element_offset_nonconst] at h
  cases hf : E.validate_field_offset size custom cur with
  | error t => simp [hf, Except.map] at h
  | ok p =>
    obtain ⟨off, nx⟩ := p
    simp only [hf, Except.map, Except.ok.injEq, Prod.mk.injEq] at h
    obtain ⟨rfl, rfl⟩ := h
    exact ⟨off, rfl, extracted_field_offset_ok hf⟩

theorem extracted_element_offset_below_min (size : Nat) {o cur : Nat} (h : o < cur) :
    E.validate_element_offset false size (some o) cur = .error ("custom offset", [o, cur]) := by
  rw [extracted_element_offset_nonconst, extracted_field_offset_below_min size h]; rfl

/-- an accepted `blockLength` is at least the computed one: the custom one if there is one, else the computed one -/
theorem extracted_block_length_ok {custom : Option Nat} {actual b : Nat}
    (h : E.validate_block_length custom actual = .ok b) :
    actual ≤ b ∧ (custom = some b ∨ custom = none ∧ b = actual) := by
  unfold Sbepp.Extracted.ValidatorLayout.validate_block_length at h
  cases custom with
  | none =>
    simp only [Except.ok.injEq] at h
    subst h
    exact ⟨Nat.le_refl _, Or.inr ⟨rfl, rfl⟩⟩
  | some c =>
    simp only at h
    split at h
    · simp at h
    · rename_i hc
      simp only [Except.ok.injEq] at h
      subst h
      exact ⟨by omega, Or.inl rfl⟩

/-- a custom `blockLength` below the computed one is rejected, with this `throw_error` -/
theorem extracted_block_length_below_min {c actual : Nat} (h : c < actual) :
    E.validate_block_length (some c) actual = .error ("custom `blockLength`", [c, actual]) := by
  unfold Sbepp.Extracted.ValidatorLayout.validate_block_length
  simp only [h, if_true]

theorem extracted_block_length_error {custom : Option Nat} {actual : Nat} {t : E.Thrown}
    (h : E.validate_block_length custom actual = .error t) :
    ∃ c, custom = some c ∧ c < actual ∧ t = ("custom `blockLength`", [c, actual]) := by
  unfold Sbepp.Extracted.ValidatorLayout.validate_block_length at h
  cases custom with
  | none => simp at h
  | some c =>
    simp only at h
    split at h
    · rename_i hc
      simp only [Except.error.injEq] at h
      exact ⟨c, rfl, hc, h.symm⟩
    · simp at h

/-! ## the loop skeletons -/

theorem offsetStep_ok {custom : Option Nat} {cur size off next : Nat} (h : offsetStep custom cur size = .ok (off, next)) :
    off = custom.getD cur ∧ next = off + size ∧ cur ≤ off := by
  unfold offsetStep storedOffset at h
  cases custom with
  | none =>
    simp only [Except.ok.injEq, Prod.mk.injEq] at h
    obtain ⟨rfl, rfl⟩ := h
    exact ⟨rfl, rfl, Nat.le_refl _⟩
  | some o =>
    simp only at h
    split at h
    · simp at h
    · rename_i heq
      split at heq
      · simp at heq
      · rename_i ho
        simp only [Except.ok.injEq] at heq
        subst heq
        simp only [Except.ok.injEq, Prod.mk.injEq] at h
        obtain ⟨rfl, rfl⟩ := h
        exact ⟨rfl, rfl, by omega⟩

abbrev CItem := E.validate_encoding_composite.Item
abbrev FItem := E.validate_members.Item

/-- the accumulator skeleton of `validate_encoding(composite)` over the hand-model step: per element the stored
    `offset_in_composite` (none for a constant element), and the final running offset -/
def compositeLoop : List CItem → Nat → Except String (List (Option Nat) × Nat)
  | [], cur => .ok ([], cur)
  | e :: rest, cur =>
    if e.is_constant_composite_element then
      match compositeLoop rest cur with
      | .error err => .error err
      | .ok (outs, total) => .ok (none :: outs, total)
    else
      match offsetStep e.offset cur e.context_size with
      | .error err => .error err
      | .ok (off, next) =>
        match compositeLoop rest next with
        | .error err => .error err
        | .ok (outs, total) => .ok (some off :: outs, total)

/-- no step of the loop overflows `offset_t` -/
def CompositeFits : List CItem → Nat → Prop
  | [], _ => True
  | e :: rest, cur =>
    if e.is_constant_composite_element then CompositeFits rest cur
    else NoWrap e.offset cur e.context_size ∧ CompositeFits rest (e.offset.getD cur + e.context_size)

theorem composite_loop_tie : ∀ (items : List CItem) (cur : Nat), CompositeFits items cur →
    (E.validate_encoding_composite.loop items cur).mapError render = compositeLoop items cur
  | [], _, _ => rfl
  | e :: rest, cur, hfit => by
    unfold Sbepp.Extracted.ValidatorLayout.validate_encoding_composite.loop compositeLoop
    by_cases hc : e.is_constant_composite_element = true
    · simp only [CompositeFits, hc, if_true] at hfit
      have ih := composite_loop_tie rest cur hfit
      rw [hc, extracted_element_offset_const]
      simp only [if_true, ← ih]
      cases E.validate_encoding_composite.loop rest cur with
      | error t => rfl
      | ok p => rfl
    · have hc' : e.is_constant_composite_element = false := by simpa using hc
      simp only [CompositeFits, hc', Bool.false_eq_true, if_false] at hfit
      have hstep := validate_element_offset_tie false e.context_size e.offset cur (fun _ => hfit.1)
      simp only [Bool.false_eq_true, if_false] at hstep
      rw [hc']
      simp only [Bool.false_eq_true, if_false]
      cases hv : E.validate_element_offset false e.context_size e.offset cur with
      | error t =>
        rw [hv] at hstep
        cases ho : offsetStep e.offset cur e.context_size with
        | error err =>
          rw [ho] at hstep
          simp only [Except.mapError, Except.map, Except.error.injEq] at hstep
          simp only [Except.mapError, hstep]
        | ok p => rw [ho] at hstep; simp [Except.mapError, Except.map] at hstep
      | ok p =>
        obtain ⟨stored, next⟩ := p
        rw [hv] at hstep
        cases ho : offsetStep e.offset cur e.context_size with
        | error err => rw [ho] at hstep; simp [Except.mapError, Except.map] at hstep
        | ok q =>
          obtain ⟨off, next'⟩ := q
          rw [ho] at hstep
          simp only [Except.mapError, Except.map, Except.ok.injEq, Prod.mk.injEq] at hstep
          obtain ⟨rfl, rfl⟩ := hstep
          obtain ⟨hoff, hnext, _⟩ := offsetStep_ok ho
          have ih := composite_loop_tie rest next (by rw [hnext, hoff]; exact hfit.2)
          simp only [← ih]
          cases E.validate_encoding_composite.loop rest next with
          | error t => rfl
          | ok p => rfl

/-- `validate_encoding(const sbe::composite&)` of the C++: the running offset starts at 0, every element takes the
    step, the final running offset is the composite's size -/
theorem validate_encoding_composite_tie (items : List CItem) (h : CompositeFits items 0) :
    (E.validate_encoding_composite items).mapError render = compositeLoop items 0 := by
  unfold Sbepp.Extracted.ValidatorLayout.validate_encoding_composite
  rw [← composite_loop_tie items 0 h]
  dsimp only
  cases E.validate_encoding_composite.loop items 0 with
  | error t => rfl
  | ok p => rfl

/-- `context.size` and `actual_presence` of a field as the head of the loop body computes them -/
def fieldSize (f : FItem) : Nat := if f.is_primitive_type then f.get_primitive_type_size else f.get_encoding_size
def fieldPresence (f : FItem) : E.field_presence := if f.is_primitive_type then f.presence else f.get_actual_presence

/-- the accumulator skeleton of the field loop of `validate_members` over the hand-model step: per field the stored
    `level_offset` (none for a constant field), and the final running offset -/
def membersLoop : List FItem → Nat → Except String (List (Option Nat) × Nat)
  | [], cur => .ok ([], cur)
  | f :: rest, cur =>
    if fieldPresence f = .constant then
      match membersLoop rest cur with
      | .error err => .error err
      | .ok (outs, total) => .ok (none :: outs, total)
    else
      match offsetStep f.offset cur (fieldSize f) with
      | .error err => .error err
      | .ok (off, next) =>
        match membersLoop rest next with
        | .error err => .error err
        | .ok (outs, total) => .ok (some off :: outs, total)

/-- `validate_members` as far as the layout goes: the field loop from 0, then `validate_block_length` on its result -/
def membersLayout (fields : List FItem) (custom : Option Nat) : Except String (List (Option Nat) × Nat) :=
  match membersLoop fields 0 with
  | .error err => .error err
  | .ok (outs, computed) =>
    match blockLengthStep custom computed with
    | .error err => .error err
    | .ok b => .ok (outs, b)

def MembersFits : List FItem → Nat → Prop
  | [], _ => True
  | f :: rest, cur =>
    if fieldPresence f = .constant then MembersFits rest cur
    else NoWrap f.offset cur (fieldSize f) ∧ MembersFits rest (f.offset.getD cur + fieldSize f)

theorem members_loop_tie : ∀ (items : List FItem) (cur : Nat), MembersFits items cur →
    (E.validate_members.loop items cur).mapError render = membersLoop items cur
  | [], _, _ => rfl
  | f :: rest, cur, hfit => by
    unfold Sbepp.Extracted.ValidatorLayout.validate_members.loop membersLoop
    have hsz : (if ¬ (f.is_primitive_type = true) then (f.get_encoding_size, f.get_actual_presence)
        else (f.get_primitive_type_size, f.presence)) = (fieldSize f, fieldPresence f) := by
      unfold fieldSize fieldPresence
      cases f.is_primitive_type <;> rfl
    simp only [hsz]
    by_cases hc : fieldPresence f = .constant
    · simp only [MembersFits, if_pos hc] at hfit
      have ih := members_loop_tie rest cur hfit
      simp only [if_pos hc, ← ih]
      cases E.validate_members.loop rest cur with
      | error t => rfl
      | ok p => rfl
    · simp only [MembersFits, if_neg hc] at hfit
      have hstep := validate_field_offset_tie (fieldSize f) f.offset cur hfit.1
      simp only [if_neg hc]
      cases hv : E.validate_field_offset (fieldSize f) f.offset cur with
      | error t =>
        rw [hv] at hstep
        simp only [Except.mapError] at hstep
        simp only [← hstep, Except.mapError]
      | ok p =>
        obtain ⟨off, next⟩ := p
        rw [hv] at hstep
        simp only [Except.mapError] at hstep
        obtain ⟨hoff, hnext, _⟩ := offsetStep_ok hstep.symm
        have ih := members_loop_tie rest next (by rw [hnext, hoff]; exact hfit.2)
        simp only [← hstep, ← ih]
        cases E.validate_members.loop rest next with
        | error t => rfl
        | ok p => rfl

/-- `validate_members` of the C++: the running offset starts at 0, every non-constant field takes the step, the
    final running offset is what `validate_block_length` is given; its result is the stored block length -/
theorem validate_members_tie (items : List FItem) (custom : Option Nat) (h : MembersFits items 0) :
    (E.validate_members items custom).mapError render = membersLayout items custom := by
  unfold Sbepp.Extracted.ValidatorLayout.validate_members membersLayout
  rw [← members_loop_tie items 0 h, ← validate_block_length_tie]
  dsimp only
  cases E.validate_members.loop items 0 with
  | error t => rfl
  | ok p =>
    obtain ⟨outs, computed⟩ := p
    simp only [Except.mapError]
    cases E.validate_block_length custom computed with
    | error t => rfl
    | ok b => rfl

/-! ## the loops of the hand models take exactly these steps -/

theorem offsetStep_of_stored {custom : Option Nat} {cur off : Nat} (size : Nat) (h : storedOffset custom cur = .ok off) :
    offsetStep custom cur size = .ok (off, off + size) := by
  unfold offsetStep; rw [h]

theorem offsetStep_error_of_stored {custom : Option Nat} {cur : Nat} {err : String} (size : Nat)
    (h : storedOffset custom cur = .error err) : offsetStep custom cur size = .error err := by
  unfold offsetStep; rw [h]

/-- `compLeaves` on a non-constant element: `offsetStep` on the element's size gives where it is put and where the
    rest continues -/
theorem compLeaves_step (types : List Elem) (fuel : Nat) (path : List String) (base cur : Nat) (e : Elem)
    (rest : List Elem) (hc : isConstElem types e = false) :
    compLeaves types (fuel + 1) path base cur (e :: rest) =
      match storedOffset e.offset cur with
      | .error err => .error err
      | .ok off =>
        match elemLeaves types fuel (path ++ [e.name]) (base + off) e with
        | .error err => .error err
        | .ok (sz, lv) =>
          match offsetStep e.offset cur sz with
          | .error err => .error err
          | .ok (_, next) =>
            match compLeaves types fuel path base next rest with
            | .error err => .error err
            | .ok (total, lv') => .ok (total, lv ++ lv') := by
  simp only [compLeaves, hc, Bool.false_eq_true, if_false]
  cases hs : storedOffset e.offset cur with
  | error err => rfl
  | ok off =>
    simp only
    cases elemLeaves types fuel (path ++ [e.name]) (base + off) e with
    | error err => rfl
    | ok p =>
      obtain ⟨sz, lv⟩ := p
      simp only [offsetStep_of_stored sz hs]
      rfl

/-- `Schema.Rules.vElementOffset` (the C08 model) is the same step -/
theorem vElementOffset_step (types : List Elem) (p : Spec.Rules.Path) (e : Elem) (cur sz : Nat) :
    Rules.vElementOffset types p e cur sz =
      if isConstElem types e then .ok cur
      else match offsetStep e.offset cur sz with
        | .error _ => Rules.fail .offsetTooSmall p
        | .ok (_, next) => .ok next := by
  unfold Rules.vElementOffset offsetStep storedOffset
  by_cases hc : isConstElem types e = true
  · simp only [hc, if_true]
  · simp only [hc, Bool.false_eq_true, if_false]
    cases e.offset with
    | none => rfl
    | some o =>
      by_cases ho : o < cur
      · simp only [ho, if_true]
      · simp only [ho, if_false]

/-- `Schema.Rules.vLevelValues` (the C08 model) starts with `blockLengthStep` -/
theorem vLevelValues_step (types : List Elem) (hdr : String) (p : Spec.Rules.Path) (bl : Option Nat)
    (off nGroups nDatas : Nat) :
    Rules.vLevelValues types hdr p bl off nGroups nDatas =
      (match blockLengthStep bl off with
       | .error _ => Rules.fail .blockLengthTooSmall p
       | .ok b => do
         Rules.vHeaderValue types hdr "blockLength" b p
         Rules.vHeaderValue types hdr "numGroups" nGroups p
         Rules.vHeaderValue types hdr "numVarDataFields" nDatas p) := rfl

/-! ## the sizes and block lengths of the hand model are those of the generated skeletons -/

/-- element-wise relation of two lists -/
inductive ListRel {α β : Type} (R : α → β → Prop) : List α → List β → Prop
  | nil : ListRel R [] []
  | cons {a b as bs} : R a b → ListRel R as bs → ListRel R (a :: as) (b :: bs)

/-- `it` is what the C++ loop knows about composite element `e` -/
def DescribesElem (types : List Elem) (e : Elem) (it : CItem) : Prop :=
  it.is_constant_composite_element = isConstElem types e ∧ it.offset = e.offset ∧
    (isConstElem types e = false →
      ∃ fuel path base lv, elemLeaves types fuel path base e = .ok (it.context_size, lv))

theorem compLeaves_skeleton (types : List Elem) : ∀ (elems : List Elem) (fuel : Nat) (path : List String)
    (base cur total : Nat) (lv : List NLeaf), compLeaves types fuel path base cur elems = .ok (total, lv) →
    ∃ items offs, ListRel (DescribesElem types) elems items ∧ compositeLoop items cur = .ok (offs, total) := by
  intro elems
  induction elems with
  | nil =>
    intro fuel path base cur total lv h
    cases fuel <;> simp only [compLeaves, Except.ok.injEq, Prod.mk.injEq] at h <;>
      exact ⟨[], [], ListRel.nil, by rw [← h.1]; rfl⟩
  | cons e rest ih =>
    intro fuel path base cur total lv h
    cases fuel with
    | zero => simp [compLeaves] at h
    | succ fuel =>
      by_cases hc : isConstElem types e = true
      · simp only [compLeaves, hc, if_true] at h
        split at h
        · simp at h
        · obtain ⟨items, offs, hd, hl⟩ := ih _ _ _ _ _ _ h
          refine ⟨⟨true, 0, e.offset⟩ :: items, none :: offs, ListRel.cons ⟨hc.symm, rfl, ?_⟩ hd, ?_⟩
          · intro hf; rw [hc] at hf; cases hf
          · simp only [compositeLoop, if_true, hl]
      · have hc' : isConstElem types e = false := by simpa using hc
        rw [compLeaves_step types fuel path base cur e rest hc'] at h
        split at h
        · simp at h
        · rename_i off hoff
          split at h
          · simp at h
          · rename_i sz lv1 he
            rw [offsetStep_of_stored sz hoff] at h
            simp only at h
            split at h
            · simp at h
            · rename_i total' lv2 hr
              simp only [Except.ok.injEq, Prod.mk.injEq] at h
              obtain ⟨items, offs, hd, hl⟩ := ih _ _ _ _ _ _ hr
              refine ⟨⟨false, sz, e.offset⟩ :: items, some off :: offs,
                ListRel.cons ⟨hc'.symm, rfl, fun _ => ⟨_, _, _, _, he⟩⟩ hd, ?_⟩
              simp only [compositeLoop, Bool.false_eq_true, if_false, offsetStep_of_stored sz hoff, hl, h.1]

theorem compositeLoop_le : ∀ (items : List CItem) (cur : Nat) (offs : List (Option Nat)) (total : Nat),
    compositeLoop items cur = .ok (offs, total) → cur ≤ total
  | [], cur, offs, total, h => by
    simp only [compositeLoop, Except.ok.injEq, Prod.mk.injEq] at h; omega
  | e :: rest, cur, offs, total, h => by
    unfold compositeLoop at h
    split at h
    · split at h
      · simp at h
      · rename_i outs t hr
        simp only [Except.ok.injEq, Prod.mk.injEq] at h
        have := compositeLoop_le rest cur outs t hr
        omega
    · split at h
      · simp at h
      · rename_i off next ho
        split at h
        · simp at h
        · rename_i outs t hr
          simp only [Except.ok.injEq, Prod.mk.injEq] at h
          have := compositeLoop_le rest next outs t hr
          obtain ⟨_, hn, hle⟩ := offsetStep_ok ho
          omega

/-- a total below 2^64 means no step overflowed -/
theorem compositeFits_of_total : ∀ (items : List CItem) (cur : Nat) (offs : List (Option Nat)) (total : Nat),
    compositeLoop items cur = .ok (offs, total) → total < U64 → CompositeFits items cur
  | [], _, _, _, _, _ => trivial
  | e :: rest, cur, offs, total, h, ht => by
    unfold compositeLoop at h
    unfold CompositeFits
    split at h
    · rename_i hc
      rw [if_pos hc]
      split at h
      · simp at h
      · rename_i outs t hr
        simp only [Except.ok.injEq, Prod.mk.injEq] at h
        exact compositeFits_of_total rest cur outs t hr (by omega)
    · rename_i hc
      rw [if_neg hc]
      split at h
      · simp at h
      · rename_i off next ho
        split at h
        · simp at h
        · rename_i outs t hr
          simp only [Except.ok.injEq, Prod.mk.injEq] at h
          have hle := compositeLoop_le rest next outs t hr
          obtain ⟨hoff, hn, _⟩ := offsetStep_ok ho
          refine ⟨?_, ?_⟩
          · unfold NoWrap; omega
          · rw [← hoff, ← hn]; exact compositeFits_of_total rest next outs t hr (by omega)

theorem ok_of_mapError_ok {α : Type} {r : Except E.Thrown α} {x : α} (h : r.mapError render = .ok x) : r = .ok x := by
  cases r with
  | error t => simp [Except.mapError] at h
  | ok y => simpa [Except.mapError] using h

/-- **composite_size_extracted**: the size the hand model gives an accepted composite is the size the C++ loop, as
    the source states it now, computes for elements with these constants, custom offsets and sizes — starting at 0,
    stepping by `validate_element_offset`, ending in `size = offset` -/
theorem composite_size_extracted (types : List Elem) (fuel : Nat) (path : List String) (base : Nat) (n : String)
    (o : Option Nat) (elems : List Elem) (atr : Attrs) (sz : Nat) (lv : List NLeaf)
    (h : elemLeaves types (fuel + 1) path base (.composite n o elems atr) = .ok (sz, lv)) (hsz : sz < U64) :
    ∃ items offs, ListRel (DescribesElem types) elems items ∧
      E.validate_encoding_composite items = .ok (offs, sz) := by
  simp only [elemLeaves] at h
  obtain ⟨items, offs, hd, hl⟩ := compLeaves_skeleton types elems _ _ _ _ _ _ h
  refine ⟨items, offs, hd, ok_of_mapError_ok ?_⟩
  rw [validate_encoding_composite_tie items (compositeFits_of_total items 0 offs sz hl hsz), hl]

/-! ### fields and block lengths -/

def toE : Presence → E.field_presence
  | .required => .required
  | .optional => .optional
  | .constant => .constant

theorem toE_constant (p : Presence) : toE p = .constant ↔ p = .constant := by
  cases p <;> simp [toE]

theorem actualPresence_primitive {types : List Elem} {f : FieldDef} {pres : Presence}
    (h : actualPresence types f = .ok pres) (hp : isPrimitive f.type = true) : pres = f.presence := by
  unfold actualPresence at h
  simp only [hp, if_true, Except.ok.injEq] at h
  exact h.symm

/-- `it` is what the C++ field loop knows about field `f` when it reaches the layout statements -/
def DescribesField (types : List Elem) (f : FieldDef) (it : FItem) : Prop :=
  it.offset = f.offset ∧ it.is_primitive_type = isPrimitive f.type ∧ it.presence = toE f.presence ∧
  ∃ pres, actualPresence types f = .ok pres ∧ it.get_actual_presence = toE pres ∧
    (pres ≠ .constant →
      (isPrimitive f.type = true ∧ it.get_primitive_type_size = (primSize? f.type).getD 0) ∨
      (isPrimitive f.type = false ∧ ∃ enc off lv, lookup types f.type = some enc ∧
        elemLeaves types FUEL [f.name] off enc = .ok (it.get_encoding_size, lv)))

theorem fieldLeaves_skeleton (types : List Elem) : ∀ (fs : List FieldDef) (cur total : Nat) (lv : List NLeaf),
    fieldLeaves types cur fs = .ok (total, lv) →
    ∃ items offs, ListRel (DescribesField types) fs items ∧ membersLoop items cur = .ok (offs, total) := by
  intro fs
  induction fs with
  | nil =>
    intro cur total lv h
    simp only [fieldLeaves, Except.ok.injEq, Prod.mk.injEq] at h
    exact ⟨[], [], ListRel.nil, by rw [← h.1]; rfl⟩
  | cons f rest ih =>
    intro cur total lv h
    simp only [fieldLeaves, bind, Except.bind] at h
    split at h
    · simp at h
    · rename_i pres hpres
      split at h
      · -- constant field: skipped
        rename_i hconst
        have hpc : pres = .constant := by simpa using hconst
        have hrest : fieldLeaves types cur rest = .ok (total, lv) := by
          split at h
          · simp at h
          · exact h
        obtain ⟨items, offs, hd, hl⟩ := ih _ _ _ hrest
        let it : FItem := { get_actual_presence := toE pres, get_encoding_size := 0, get_primitive_type_size := 0,
                            is_primitive_type := isPrimitive f.type, offset := f.offset, presence := toE f.presence }
        have hfp : fieldPresence it = .constant := by
          unfold fieldPresence
          by_cases hp : isPrimitive f.type = true
          · have := actualPresence_primitive hpres hp
            simp only [it, hp, if_true]
            rw [← this, hpc]; rfl
          · simp only [it, hp, Bool.false_eq_true, if_false]
            rw [hpc]; rfl
        refine ⟨it :: items, none :: offs, ListRel.cons ⟨rfl, rfl, rfl, pres, hpres, rfl, fun hne => absurd hpc hne⟩ hd, ?_⟩
        simp only [membersLoop, if_pos hfp, hl]
      · rename_i hconst
        have hpc : pres ≠ .constant := by simpa using hconst
        split at h
        · simp at h
        · rename_i off hoff
          split at h
          · simp at h
          · rename_i szlv hszlv
            obtain ⟨sz, lv1⟩ := szlv
            split at h
            · simp at h
            · rename_i tl hr
              obtain ⟨total', lv2⟩ := tl
              simp only [Except.ok.injEq, Prod.mk.injEq] at h
              obtain ⟨items, offs, hd, hl⟩ := ih _ _ _ hr
              let it : FItem := { get_actual_presence := toE pres, get_encoding_size := sz,
                                  get_primitive_type_size := sz, is_primitive_type := isPrimitive f.type,
                                  offset := f.offset, presence := toE f.presence }
              have hfp : fieldPresence it ≠ .constant := by
                unfold fieldPresence
                by_cases hp : isPrimitive f.type = true
                · have := actualPresence_primitive hpres hp
                  simp only [it, hp, if_true]
                  rw [← this]; exact fun hx => hpc ((toE_constant pres).mp hx)
                · simp only [it, hp, Bool.false_eq_true, if_false]
                  exact fun hx => hpc ((toE_constant pres).mp hx)
              have hfs : fieldSize it = sz := by
                show (if isPrimitive f.type = true then sz else sz) = sz
                split <;> rfl
              have hdesc : DescribesField types f it := by
                refine ⟨rfl, rfl, rfl, pres, hpres, rfl, fun _ => ?_⟩
                split at hszlv
                · rename_i hp
                  simp only [Except.ok.injEq, Prod.mk.injEq] at hszlv
                  exact Or.inl ⟨hp, hszlv.1.symm⟩
                · rename_i hp
                  split at hszlv
                  · rename_i enc hl
                    exact Or.inr ⟨by simpa using hp, enc, off, lv1, hl, hszlv⟩
                  · simp at hszlv
              have hl' : membersLoop items (off + sz) = .ok (offs, total') := hl
              have hio : it.offset = f.offset := rfl
              refine ⟨it :: items, some off :: offs, ListRel.cons hdesc hd, ?_⟩
              simp only [membersLoop, if_neg hfp, hfs, hio, offsetStep_of_stored sz hoff, hl', h.1]

theorem membersLoop_le : ∀ (items : List FItem) (cur : Nat) (offs : List (Option Nat)) (total : Nat),
    membersLoop items cur = .ok (offs, total) → cur ≤ total
  | [], cur, offs, total, h => by
    simp only [membersLoop, Except.ok.injEq, Prod.mk.injEq] at h; omega
  | f :: rest, cur, offs, total, h => by
    unfold membersLoop at h
    split at h
    · split at h
      · simp at h
      · rename_i outs t hr
        simp only [Except.ok.injEq, Prod.mk.injEq] at h
        have := membersLoop_le rest cur outs t hr
        omega
    · split at h
      · simp at h
      · rename_i off next ho
        split at h
        · simp at h
        · rename_i outs t hr
          simp only [Except.ok.injEq, Prod.mk.injEq] at h
          have := membersLoop_le rest next outs t hr
          obtain ⟨_, hn, hle⟩ := offsetStep_ok ho
          omega

theorem membersFits_of_total : ∀ (items : List FItem) (cur : Nat) (offs : List (Option Nat)) (total : Nat),
    membersLoop items cur = .ok (offs, total) → total < U64 → MembersFits items cur
  | [], _, _, _, _, _ => trivial
  | f :: rest, cur, offs, total, h, ht => by
    unfold membersLoop at h
    unfold MembersFits
    split at h
    · rename_i hc
      rw [if_pos hc]
      split at h
      · simp at h
      · rename_i outs t hr
        simp only [Except.ok.injEq, Prod.mk.injEq] at h
        exact membersFits_of_total rest cur outs t hr (by omega)
    · rename_i hc
      rw [if_neg hc]
      split at h
      · simp at h
      · rename_i off next ho
        split at h
        · simp at h
        · rename_i outs t hr
          simp only [Except.ok.injEq, Prod.mk.injEq] at h
          have hle := membersLoop_le rest next outs t hr
          obtain ⟨hoff, hn, _⟩ := offsetStep_ok ho
          refine ⟨?_, ?_⟩
          · unfold NoWrap; omega
          · rw [← hoff, ← hn]; exact membersFits_of_total rest next outs t hr (by omega)

/-- **level_layout_extracted**: the block length the hand model gives an accepted message / group level
    (`resolveMessage`, `resolveGroup`: `fieldLeaves` from 0, then `blockLength`) is the `actual_block_length` the C++
    `validate_members`, as the source states it now, stores for fields with these presences, custom offsets and sizes
    and this custom `blockLength` -/
theorem level_layout_extracted (types : List Elem) (fields : List FieldDef) (custom : Option Nat) (computed b : Nat)
    (lv : List NLeaf) (hf : fieldLeaves types 0 fields = .ok (computed, lv)) (hb : blockLength custom computed = .ok b)
    (hfit : computed < U64) :
    ∃ items offs, ListRel (DescribesField types) fields items ∧ E.validate_members items custom = .ok (offs, b) := by
  obtain ⟨items, offs, hd, hl⟩ := fieldLeaves_skeleton types fields 0 computed lv hf
  refine ⟨items, offs, hd, ok_of_mapError_ok ?_⟩
  rw [validate_members_tie items custom (membersFits_of_total items 0 offs computed hl hfit)]
  unfold membersLayout
  rw [hl]
  show (match blockLength custom computed with | .error err => Except.error err | .ok b => .ok (offs, b)) = _
  rw [hb]

/-- the field loop of `Schema.Rules.vFields` (the C08 model) takes the same step on a non-constant field -/
theorem vFields_step (types : List Elem) (lp : Spec.Rules.Path) (cur : Nat) (f : FieldDef) (rest : List FieldDef)
    (info : Nat × Presence) (hn : Rules.vName f.name (lp ++ [f.name]) = .ok ())
    (hi : Rules.fieldInfo types (lp ++ [f.name]) f = .ok info) (hc : (info.2 == Presence.constant) = false) :
    Rules.vFields types lp cur (f :: rest) =
      match offsetStep f.offset cur info.1 with
      | .error _ => Rules.fail .offsetTooSmall (lp ++ [f.name])
      | .ok (_, next) => Rules.vFields types lp next rest := by
  simp only [Rules.vFields, bind, Except.bind, hn, hi, hc, Bool.false_eq_true, if_false]
  unfold offsetStep storedOffset
  cases f.offset with
  | none => rfl
  | some o =>
    by_cases ho : o < cur
    · simp only [ho, if_true]
    · simp only [ho, if_false]

/-- **message_layout_extracted**: for every message the validator model accepts, the block length of its resolved
    layout is what the C++ `validate_members` stores (for the fields as the C++ loop sees them) -/
theorem message_layout_extracted (s : SchemaDef) (m : MessageDef) (r : NMessage) (h : resolveMessage s m = .ok r) :
    ∃ computed b lv gs ds, r.level = .mk b lv gs ds ∧ fieldLeaves s.types 0 m.fields = .ok (computed, lv) ∧
      (computed < U64 → ∃ items offs, ListRel (DescribesField s.types) m.fields items ∧
        E.validate_members items m.blockLength = .ok (offs, b)) := by
  simp only [resolveMessage, bind, Except.bind] at h
  split at h
  · simp at h
  · rename_i cl hf
    obtain ⟨computed, lv⟩ := cl
    split at h
    · simp at h
    · rename_i b hb
      split at h
      · simp at h
      · rename_i gs hgs
        split at h
        · simp at h
        · rename_i ds hds
          split at h
          · split at h
            · simp at h
            · simp only [Except.ok.injEq] at h
              subst h
              exact ⟨computed, b, lv, gs, ds, rfl, hf,
                fun hfit => level_layout_extracted s.types m.fields m.blockLength computed b lv hf hb hfit⟩
          · simp at h

end Sbepp.Schema.LayoutTie
