/-
  Lemmas for C07 (literal rendering): the validator's reading of a value
  (`std::from_chars`) and the C++ reading of the literal the generator emits for
  it agree when the value has no leading zero; plain text is a well-formed
  string-literal body.
-/
import Sbepp.Gen.Literals

namespace Sbepp.Gen.Literals
open Sbepp

/-- the digits do not start with a superfluous `0` (so C++ does not read them as octal) -/
def noLeadingZeroDigits : List Char → Bool
  | '0' :: _ :: _ => false
  | _ => true

/-- `[-]digits` without a leading zero -/
def noLeadingZero : List Char → Bool
  | '-' :: ds => noLeadingZeroDigits ds
  | ds => noLeadingZeroDigits ds

theorem cxxDigits_of_decimal {ds : List Char} {n : Nat}
    (hz : noLeadingZeroDigits ds = true) (h : decimal ds = some n) : cxxDigits ds = some n := by
  unfold decimal at h
  cases ds with
  | nil => simp at h
  | cons c rest =>
    simp only [List.isEmpty_cons, Bool.false_eq_true, if_false] at h
    cases rest with
    | nil =>
      unfold cxxDigits
      split
      · rename_i heq; cases heq
      · rename_i heq; cases heq
      · exact h
    | cons d rest' =>
      unfold cxxDigits
      split
      · rename_i heq; cases heq
      · rename_i d' r' heq
        injection heq with h1 h2
        subst h1
        simp [noLeadingZeroDigits] at hz
      · exact h

theorem inPrimRange_lt (p : Prim) (v : Int) (h : inPrimRange p v = true) :
    -(2 ^ 63 : Int) ≤ v ∧ v < 2 ^ 64 := by
  unfold inPrimRange at h
  cases p <;> simp [primRange?] at h <;> omega

end Sbepp.Gen.Literals

namespace Sbepp.Gen.Literals
open Sbepp

theorem parseIntFor_spec {p : Prim} {cs : List Char} {v : Int} (h : parseIntFor p cs = some v) :
    fromChars p.isSigned cs = some v ∧ inPrimRange p v = true := by
  unfold parseIntFor at h
  cases hf : fromChars p.isSigned cs with
  | none => simp [hf] at h
  | some w =>
    simp only [hf] at h
    by_cases hr : inPrimRange p w = true
    · simp only [hr, if_true, Option.some.injEq] at h
      subst h
      exact ⟨rfl, hr⟩
    · simp [hr] at h

theorem inPrimRange_not_float {p : Prim} {v : Int} (h : inPrimRange p v = true) : p.isFloat = false := by
  cases p <;> simp [inPrimRange, primRange?] at h <;> rfl

theorem bracedInt_of_range {p : Prim} {v : Int} (h : inPrimRange p v = true) : bracedInt p v = true := by
  unfold bracedInt
  rw [inPrimRange_not_float h]
  simpa using h

/-- a value without `-` -/
theorem value_pos {p : Prim} {cs : List Char} {n : Nat}
    (hneg : ∀ ds, cs ≠ '-' :: ds) (hd : decimal cs = some n) (hz : noLeadingZeroDigits cs = true)
    (hr : inPrimRange p (n : Int) = true) :
    (toIntegerLiteral p cs).value? = some (n : Int) := by
  have hlt := (inPrimRange_lt p _ hr).2
  have hc := cxxDigits_of_decimal hz hd
  have hn : n < 2 ^ 64 := by exact_mod_cast hlt
  unfold toIntegerLiteral
  split
  · rename_i ds; exact absurd rfl (hneg ds)
  · by_cases hp : (p == Prim.uint64) = true
    · simp only [hp, if_true, hd]
      simp [IntLit.value?, hc, hn]
    · simp only [hp, Bool.false_eq_true, if_false]
      simp [IntLit.value?, hc, hn]

end Sbepp.Gen.Literals

namespace Sbepp.Gen.Literals
open Sbepp

theorem int64MinDigits_val : cxxDigits int64MinDigits = some 9223372036854775807 := by decide +kernel

theorem natDigits_one : cxxDigits (natDigits 1) = some 1 := by decide +kernel

/-- a value written with `-` -/
theorem value_neg {p : Prim} {ds : List Char} {n : Nat}
    (hd : decimal ds = some n) (hz : noLeadingZeroDigits ds = true)
    (hr : inPrimRange p (-(n : Int)) = true) :
    (toIntegerLiteral p ('-' :: ds)).value? = some (-(n : Int)) := by
  have hge := (inPrimRange_lt p _ hr).1
  have hc := cxxDigits_of_decimal hz hd
  have hn : n ≤ 2 ^ 63 := by omega
  have hn64 : n < 2 ^ 64 := by omega
  unfold toIntegerLiteral
  by_cases hp : (p == Prim.int64) = true
  · simp only [hp, if_true, hd]
    by_cases hbig : 9223372036854775807 < n
    · have hn' : n = 9223372036854775808 := by omega
      subst hn'
      simp only [hbig, if_true]
      have h1 : (9223372036854775808 - 9223372036854775807 : Nat) = 1 := by decide
      simp only [h1, IntLit.value?, int64MinDigits_val, natDigits_one]
      decide
    · simp only [hbig, if_false]
      simp [IntLit.value?, hc, hn64]
  · simp only [hp, Bool.false_eq_true, if_false]
    simp [IntLit.value?, hc, hn64]

/-- **integer_literal_value**: for an integer primitive, a value the validator accepted
    (`value_fits_into_type`) and that is written without a leading zero is rendered by `to_integer_literal`
    as a C++ integer constant expression of the same value, which list-initialises the primitive's C++ type
    without narrowing -/
theorem integer_literal_value (p : Prim) (cs : List Char) (v : Int)
    (h : parseIntFor p cs = some v) (hz : noLeadingZero cs = true) :
    (toIntegerLiteral p cs).value? = some v ∧ bracedInt p v = true := by
  obtain ⟨hf, hr⟩ := parseIntFor_spec h
  refine ⟨?_, bracedInt_of_range hr⟩
  cases cs with
  | nil => simp [fromChars, decimal] at hf
  | cons c rest =>
    by_cases hc : c = '-'
    · subst hc
      simp only [fromChars] at hf
      by_cases hs : p.isSigned = true
      · simp only [hs, if_true] at hf
        cases hd : decimal rest with
        | none => simp [hd] at hf
        | some n =>
          simp only [hd, Option.map_some, Option.some.injEq] at hf
          subst hf
          exact value_neg hd (by simpa [noLeadingZero] using hz) hr
      · simp [hs] at hf
    · have hneg : ∀ ds, c :: rest ≠ '-' :: ds := by
        intro ds heq; injection heq with h1 _; exact hc h1
      have hf' : (decimal (c :: rest)).map (fun (n : Nat) => Int.ofNat n) = some v := by
        unfold fromChars at hf
        split at hf
        · rename_i ds heq; exact absurd heq (hneg ds)
        · exact hf
      cases hd : decimal (c :: rest) with
      | none => simp [hd] at hf'
      | some n =>
        simp only [hd, Option.map_some, Option.some.injEq] at hf'
        subst hf'
        have hz' : noLeadingZeroDigits (c :: rest) = true := by
          unfold noLeadingZero at hz
          split at hz
          · rename_i ds heq; exact absurd heq (hneg ds)
          · exact hz
        exact value_pos hneg hd hz' hr

end Sbepp.Gen.Literals

namespace Sbepp.Gen.Literals
open Sbepp

/-- a character that needs no escaping inside a string literal -/
def plainChar (c : Char) : Bool := c != '"' && c != '\\' && c != '\n'

/-- text that can be pasted between double quotes: no quote, backslash or line break, and no `??/` trigraph -/
def plainText (cs : List Char) : Bool := cs.all plainChar && deTrigraph cs == cs

theorem lexBody_plain (cs rest : List Char) (acc : Verdict) (h : cs.all plainChar = true) :
    lexBody '"' (cs ++ rest) acc = lexBody '"' rest acc := by
  unfold lexBody
  induction cs with
  | nil => rfl
  | cons c cs ih =>
    simp only [List.all_cons, Bool.and_eq_true] at h
    obtain ⟨hc, hcs⟩ := h
    simp only [plainChar, Bool.and_eq_true, bne_iff_ne, ne_eq] at hc
    obtain ⟨⟨hq, hb⟩, hn⟩ := hc
    simp only [List.cons_append, lexAux]
    have h1 : (c == '\\') = false := by simpa using hb
    have h2 : (c == '"' || c == '\n') = false := by simp [hq, hn]
    simp only [h1, h2, Bool.false_eq_true, if_false]
    exact ih hcs

theorem lexBody_padding (pad : Nat) (acc : Verdict) (h : acc ≠ .bad) :
    lexBody '"' (List.replicate pad ['\\', '0']).flatten acc ≠ .bad := by
  unfold lexBody
  induction pad generalizing acc with
  | zero => simpa [lexAux] using h
  | succ n ih =>
    simp only [List.replicate_succ, List.flatten_cons, List.cons_append, List.nil_append, lexAux]
    have h1 : (('\\' : Char) == '\\') = true := by decide
    have h2 : (isSimpleEscape '0' || isOctDigit '0') = true := by decide
    simp only [h1, h2, if_true]
    exact ih .changed (by decide)

theorem no_backslash_of_plain (cs : List Char) (h : cs.all plainChar = true) : cs.any (· == '\\') = false := by
  induction cs with
  | nil => rfl
  | cons c cs ih =>
    simp only [List.all_cons, Bool.and_eq_true] at h
    simp only [List.any_cons, Bool.or_eq_false_iff]
    refine ⟨?_, ih h.2⟩
    have := h.1
    simp only [plainChar, Bool.and_eq_true, bne_iff_ne, ne_eq] at this
    simpa using this.1.2

theorem lexText_plain (tg : Bool) (cs : List Char) (pad : Nat) (h : plainText cs = true) :
    lexText tg cs pad = .ok := by
  simp only [plainText, Bool.and_eq_true, beq_iff_eq] at h
  obtain ⟨hp, ht⟩ := h
  have ht' : (if tg = true then deTrigraph cs else cs) = cs := by
    by_cases htg : tg = true <;> simp [htg, ht]
  unfold lexText
  simp only [ht']
  rw [lexBody_plain cs _ .ok hp]
  have hne := lexBody_padding pad .ok (by decide)
  rw [no_backslash_of_plain cs hp]
  split
  · rename_i heq; exact absurd heq hne
  · rfl

/-- **string_literal_ok**: plain text pasted between quotes (followed by the `\0` padding of a string
    constant) is one well-formed string literal under both treatments of trigraphs -/
theorem string_literal_ok (cs : List Char) (pad : Nat) (h : plainText cs = true) : stringLiteral cs pad = .ok := by
  unfold stringLiteral
  rw [lexText_plain false cs pad h, lexText_plain true cs pad h]

theorem char_literal_ok (c : Char) (h : c ≠ '\'' ∧ c ≠ '\\' ∧ c ≠ '\n') : charLiteral [c] = .ok := by
  simp [charLiteral, h.1, h.2.1, h.2.2]

end Sbepp.Gen.Literals

namespace Sbepp.Gen.Literals
open Sbepp

/-- the floating-point texts that C++ reads the way `strtof` / `strtod` do: anything with a `.` or an
    exponent, and integer-looking texts without a leading zero whose value is below `2^64` and exactly
    representable in the target type -/
def fpTextSafe (p : Prim) (cs : List Char) : Bool :=
  (fpSpecial? cs).isSome ||
  match parseFp cs with
  | some t =>
    !t.integerLooking ||
      (noLeadingZeroDigits t.intDigits && decide (t.mant < 2 ^ 64) && exactInFloat (significand p) t.mant)
  | none => false

theorem parseFpBody_integer {neg plus : Bool} {cs : List Char} {t : FpText}
    (h : parseFpBody neg plus cs = some t) (hi : t.integerLooking = true) :
    decimal t.intDigits = some t.mant := by
  unfold parseFpBody at h
  generalize splitWhile Char.isDigit cs = sp at h
  obtain ⟨ip, rest⟩ := sp
  simp only at h
  split at h
  · -- `.` follows
    split at h
    · cases h
    · split at h
      · simp only [Option.some.injEq] at h; subst h; simp at hi
      · cases h
  · -- end of text
    split at h
    · cases h
    · rename_i hne
      cases hd : digitsVal 10 ip 0 with
      | none => simp [hd] at h
      | some m =>
        simp only [hd, Option.map_some, Option.some.injEq] at h
        subst h
        simp only [decimal]
        have : ip.isEmpty = false := by simpa using hne
        simp [this, hd]
  · split at h
    · cases h
    · split at h
      · simp only [Option.some.injEq] at h; subst h; simp at hi
      · cases h

theorem parseFp_integer {cs : List Char} {t : FpText}
    (h : parseFp cs = some t) (hi : t.integerLooking = true) : decimal t.intDigits = some t.mant := by
  unfold parseFp at h
  split at h <;> exact parseFpBody_integer h hi

/-- **float_literal_fits**: a `float` / `double` value the validator accepted, written in a safe form, is
    pasted as a C++ constant that list-initialises the type without narrowing and denotes the same value -/
theorem float_literal_fits (p : Prim) (cs : List Char)
    (ha : fpAccepted p cs = true) (hs : fpTextSafe p cs = true) : fitsFp p (renderFp cs) = .ok := by
  unfold renderFp
  cases hsp : fpSpecial? cs with
  | some sp => simp [fitsFp]
  | none =>
    simp only [fitsFp]
    simp only [fpAccepted, hsp, Option.isSome_none, Bool.false_or] at ha
    simp only [fpTextSafe, hsp, Option.isSome_none, Bool.false_or] at hs
    cases hp : parseFp cs with
    | none => simp [hp] at ha
    | some t =>
      simp only [hp] at ha hs ⊢
      by_cases hi : t.integerLooking = true
      · simp only [hi, Bool.not_true, Bool.false_or, Bool.and_eq_true, decide_eq_true_eq] at hs
        obtain ⟨⟨hz, hlt⟩, hex⟩ := hs
        have hd := parseFp_integer hp hi
        have hc : fpAsInteger t = some t.mant := cxxDigits_of_decimal hz hd
        have hnot : ¬ (2 ^ 64 ≤ t.mant) := by omega
        simp [hi, hc, hnot, hex]
      · simp only [hi, Bool.false_eq_true, if_false]
        simp only [fpInRange, Bool.and_eq_true] at ha
        simp [ha.1]

end Sbepp.Gen.Literals

namespace Sbepp.Gen.Literals
open Sbepp

/-- largest value of the C++ type of an integer primitive -/
def primMaxNat? : Prim → Option Nat
  | .char | .int8 => some 127
  | .uint8 => some 255
  | .int16 => some 32767
  | .uint16 => some 65535
  | .int32 => some 2147483647
  | .uint32 => some 4294967295
  | .int64 => some 9223372036854775807
  | .uint64 => some 18446744073709551615
  | .float | .double => none

/-- an unsigned number is representable in the C++ type of `p` (exactly, for the floating types) -/
def natFits (p : Prim) (n : Nat) : Bool :=
  match primMaxNat? p with
  | some m => decide (n ≤ m)
  | none => exactInFloat (significand p) n

theorem bracedInt_nat (p : Prim) (n : Nat) (h : natFits p n = true) : bracedInt p (Int.ofNat n) = true := by
  unfold natFits at h
  unfold bracedInt
  cases p <;> simp [primMaxNat?] at h <;>
    simp [Prim.isFloat, inPrimRange, primRange?, significand] <;>
    first | omega | (simpa [significand] using h)

/-- the row of the generator's default table for an attribute -/
def defaultText (a : Spec.Scalar.Attr) (p : Prim) : String :=
  (Extracted.lookup (match a with
    | .min => Extracted.genMin | .max => Extracted.genMax | .null => Extracted.genNull) p.name).getD ""

/-- **defaults_fit**: every row of the three default tables extracted from types_compiler.hpp on this run is
    a C++ constant expression that list-initialises the type of its primitive (literal typing, `-x`, `a - b`,
    `numeric_limits`, narrowing rule) -/
theorem defaults_fit (a : Spec.Scalar.Attr) (p : Prim) :
    (Spec.Scalar.evalLit p (defaultText a p)).isSome = true := by
  cases a <;> cases p <;> decide +kernel

theorem fromChars_signed {sg : Bool} {cs : List Char} {v : Int} (h : fromChars sg cs = some v) :
    fromChars true cs = some v := by
  unfold fromChars at h ⊢
  split at h
  · by_cases hs : sg = true
    · simpa [hs] using h
    · simp [hs] at h
  · exact h

/-- the check the validator (or the parser's integer width) applied to the value behind a site; `true` where
    sbeppc checks nothing -/
def Site.validated (s : Site) : Bool :=
  match s.target, s.text with
  | .prim p, .int q cs => p == q && (parseIntFor p cs).isSome
  | .prim p, .fp cs => p.isFloat && fpAccepted p cs
  | .uint b, .nat n => decide (n < 2 ^ b)
  | .prim _, .nat _ => true
  | .prim p, .deflt a text => text == defaultText a p
  | .prim p, .enumRef v =>
    (match v with
     | some x => p.isFloat || inPrimRange p x
     | none => true)            -- the enumerator's own site reports that it is ill-formed
  | .str, .str _ _ => true
  | .chr, .chr cs => cs.length == 1
  | _, _ => false

/-- the input classes on which the current generator is correct -/
def Site.plain (s : Site) : Bool :=
  match s.target, s.text with
  | .prim _, .int _ cs => noLeadingZero cs
  | .prim p, .fp cs => fpTextSafe p cs
  | .prim p, .nat n => natFits p n
  | .prim p, .enumRef v =>
    (match v with
     | some x => !p.isFloat || exactInFloat (significand p) x.natAbs
     | none => false)
  | .str, .str cs _ => plainText cs
  | .chr, .chr cs => cs.all (fun c => c != '\'' && c != '\\' && c != '\n')
  | _, _ => true

/-- a validated site with plain input is well-formed and denotes the schema value -/
theorem site_fits (s : Site) (hv : s.validated = true) (hp : s.plain = true) : s.verdict = .ok := by
  obtain ⟨kind, entity, text, target⟩ := s
  cases target with
  | prim p =>
    cases text with
    | int q cs =>
      simp only [Site.validated, Bool.and_eq_true, beq_iff_eq] at hv
      obtain ⟨hpq, hsome⟩ := hv
      subst hpq
      simp only [Site.plain] at hp
      cases hpi : parseIntFor p cs with
      | none => simp [hpi] at hsome
      | some v =>
        obtain ⟨hval, hbr⟩ := integer_literal_value p cs v hpi hp
        have hfc := fromChars_signed (parseIntFor_spec hpi).1
        simp [Site.verdict, hval, hbr, hfc]
    | fp cs =>
      simp only [Site.validated, Bool.and_eq_true] at hv
      simp only [Site.plain] at hp
      simp [Site.verdict, hv.1, float_literal_fits p cs hv.2 hp]
    | nat n =>
      simp only [Site.plain] at hp
      have := bracedInt_nat p n hp
      simp only [Site.verdict]
      have h2 : bracedInt p (n : Int) = true := this
      simp [h2]
    | deflt a t =>
      simp only [Site.validated, beq_iff_eq] at hv
      subst hv
      simp [Site.verdict, defaults_fit a p]
    | enumRef v =>
      cases v with
      | none => simp [Site.plain] at hp
      | some x =>
        simp only [Site.validated, Bool.or_eq_true] at hv
        simp only [Site.plain, Bool.or_eq_true, Bool.not_eq_true'] at hp
        simp only [Site.verdict]
        have : bracedInt p x = true := by
          unfold bracedInt
          by_cases hf : p.isFloat = true
          · rcases hp with hp | hp
            · simp [hf] at hp
            · simp [hf, hp]
          · rcases hv with hv | hv
            · exact absurd hv hf
            · simp [hf, hv]
        simp [this]
    | chr cs => simp [Site.validated] at hv
    | str cs pad => simp [Site.validated] at hv
  | uint b =>
    cases text with
    | nat n =>
      simp only [Site.validated, decide_eq_true_eq] at hv
      simp [Site.verdict, uintFits, hv]
    | _ => simp [Site.validated] at hv
  | str =>
    cases text with
    | str cs pad =>
      simp only [Site.plain] at hp
      simp [Site.verdict, string_literal_ok cs pad hp]
    | _ => simp [Site.validated] at hv
  | chr =>
    cases text with
    | chr cs =>
      simp only [Site.validated, beq_iff_eq] at hv
      simp only [Site.plain] at hp
      match cs, hv with
      | [c], _ =>
        simp only [List.all_cons, List.all_nil, Bool.and_true, Bool.and_eq_true, bne_iff_ne, ne_eq] at hp
        simp [Site.verdict, char_literal_ok c ⟨hp.1.1, hp.1.2, hp.2⟩]
    | _ => simp [Site.validated] at hv

end Sbepp.Gen.Literals
