/-
  Lemmas for C07 (literal rendering): the validator's reading of a value
  (`std::from_chars`) and the C++ reading of the literal the generator emits for
  it agree when the value has no leading zero; plain text is a well-formed
  string-literal body.
-/
import Sbepp.Gen.Literals
import Sbepp.Lemmas.C07Escape

namespace Sbepp.Gen.Literals
open Sbepp

/-- the digits do not start with a superfluous `0` (so C++ does not read them as octal) -/
def noLeadingZeroDigits : List Char → Bool
  | '0' :: _ :: _ => false
  | _ => true

/-- `[-]digits` without a leading zero -/
def noLeadingZero : List Char → Bool
  | '-' :: ds => noLeadingZeroDigits ds
  | ds => noLeadingZeroDigits ds

theorem cxxDigits_of_decimal {ds : List Char} {n : Nat}
    (hz : noLeadingZeroDigits ds = true) (h : decimal ds = some n) : cxxDigits ds = some n := by
  unfold decimal at h
  cases ds with
  | nil => simp at h
  | cons c rest =>
    simp only [List.isEmpty_cons, Bool.false_eq_true, if_false] at h
    cases rest with
    | nil =>
      unfold cxxDigits
      split
      · rename_i heq; cases heq
      · rename_i heq; cases heq
      · exact h
    | cons d rest' =>
      unfold cxxDigits
      split
      · rename_i heq; cases heq
      · rename_i d' r' heq
        injection heq with h1 h2
        subst h1
        simp [noLeadingZeroDigits] at hz
      · exact h

theorem inPrimRange_lt (p : Prim) (v : Int) (h : inPrimRange p v = true) :
    -(2 ^ 63 : Int) ≤ v ∧ v < 2 ^ 64 := by
  unfold inPrimRange at h
  cases p <;> simp [primRange?] at h <;> omega

/-! ### `strip_leading_zeros` -/

theorem digitsVal_zero_cons (ds : List Char) : digitsVal 10 ('0' :: ds) 0 = digitsVal 10 ds 0 := by
  have h : digitVal? '0' = some 0 := by decide
  simp [digitsVal, h]

theorem digitsVal_dropZeros (ds : List Char) :
    digitsVal 10 (ds.dropWhile (· == '0')) 0 = digitsVal 10 ds 0 := by
  induction ds with
  | nil => rfl
  | cons c cs ih =>
    by_cases hc : c = '0'
    · subst hc
      simp only [List.dropWhile_cons, beq_self_eq_true, if_true]
      rw [ih, digitsVal_zero_cons]
    · have : (c == '0') = false := by simpa using hc
      simp [List.dropWhile_cons, this]

theorem allZeros_val (ds : List Char) (h : ds.dropWhile (· == '0') = []) : digitsVal 10 ds 0 = some 0 := by
  rw [← digitsVal_dropZeros, h]; rfl

theorem allZeros_last (ds : List Char) (h : ds.dropWhile (· == '0') = []) (c : Char)
    (hl : ds.getLast? = some c) : c = '0' := by
  have hall : ∀ (l : List Char), l.dropWhile (· == '0') = [] → ∀ x ∈ l, x = '0' := by
    intro l
    induction l with
    | nil => intro _ x hx; cases hx
    | cons y ys ih =>
      intro hl x hx
      by_cases hy : y = '0'
      · subst hy
        simp only [List.dropWhile_cons, beq_self_eq_true, if_true] at hl
        rcases List.mem_cons.mp hx with h1 | h1
        · exact h1
        · exact ih hl x h1
      · have : (y == '0') = false := by simpa using hy
        simp [List.dropWhile_cons, this] at hl
  exact hall ds h c (List.mem_of_getLast? hl)

/-- **strip_leading_zeros_value**: for every digit string, the stripped digits are a *decimal* C++ literal
    (never octal) of the same value -/
theorem stripZeros_spec {ds : List Char} {n : Nat} (h : decimal ds = some n) : cxxDigits (stripZeros ds) = some n := by
  unfold decimal at h
  cases hne : ds.isEmpty with
  | true => simp [hne] at h
  | false =>
    simp only [hne, Bool.false_eq_true, if_false] at h
    unfold stripZeros
    cases hd : ds.dropWhile (· == '0') with
    | nil =>
      simp only
      have hv := allZeros_val ds hd
      rw [hv] at h
      cases hl : ds.getLast? with
      | none =>
        have : ds = [] := List.getLast?_eq_none_iff.mp hl
        simp [this] at hne
      | some c =>
        have hc := allZeros_last ds hd c hl
        subst hc
        simp only
        rw [← h]; decide
    | cons r rs =>
      simp only
      have hval : digitsVal 10 (r :: rs) 0 = some n := by rw [← hd, digitsVal_dropZeros, h]
      have hr : r ≠ '0' := by
        have := List.head?_dropWhile_not (· == '0') ds
        rw [hd] at this
        simpa using this
      have hz : noLeadingZeroDigits (r :: rs) = true := by
        unfold noLeadingZeroDigits
        split
        · rename_i heq; injection heq with h1 _; exact absurd h1 hr
        · rfl
      exact cxxDigits_of_decimal hz (by simp [decimal, hval])

/-- the digits the generator pastes read as the value: always when it strips leading zeros, for digit strings
    without a superfluous leading zero otherwise -/
theorem pastedDigits_spec {ds : List Char} {n : Nat}
    (hz : Extracted.Templates.stripsLeadingZeros = true ∨ noLeadingZeroDigits ds = true)
    (h : decimal ds = some n) : cxxDigits (pastedDigits ds) = some n := by
  unfold pastedDigits
  by_cases hf : Extracted.Templates.stripsLeadingZeros = true
  · simp only [hf, if_true]; exact stripZeros_spec h
  · rcases hz with hz | hz
    · exact absurd hz hf
    · simp only [hf, Bool.false_eq_true, if_false]; exact cxxDigits_of_decimal hz h

end Sbepp.Gen.Literals

namespace Sbepp.Gen.Literals
open Sbepp

theorem parseIntFor_spec {p : Prim} {cs : List Char} {v : Int} (h : parseIntFor p cs = some v) :
    fromChars p.isSigned cs = some v ∧ inPrimRange p v = true := by
  unfold parseIntFor at h
  cases hf : fromChars p.isSigned cs with
  | none => simp [hf] at h
  | some w =>
    simp only [hf] at h
    by_cases hr : inPrimRange p w = true
    · simp only [hr, if_true, Option.some.injEq] at h
      subst h
      exact ⟨rfl, hr⟩
    · simp [hr] at h

theorem inPrimRange_not_float {p : Prim} {v : Int} (h : inPrimRange p v = true) : p.isFloat = false := by
  cases p <;> simp [inPrimRange, primRange?] at h <;> rfl

theorem bracedInt_of_range {p : Prim} {v : Int} (h : inPrimRange p v = true) : bracedInt p v = true := by
  unfold bracedInt
  rw [inPrimRange_not_float h]
  simpa using h

/-- a value without `-` -/
theorem value_pos {p : Prim} {cs : List Char} {n : Nat}
    (hneg : ∀ ds, cs ≠ '-' :: ds) (hd : decimal cs = some n)
    (hz : Extracted.Templates.stripsLeadingZeros = true ∨ noLeadingZeroDigits cs = true)
    (hr : inPrimRange p (n : Int) = true) :
    (toIntegerLiteral p cs).value? = some (n : Int) := by
  have hlt := (inPrimRange_lt p _ hr).2
  have hc := pastedDigits_spec hz hd
  have hn : n < 2 ^ 64 := by exact_mod_cast hlt
  unfold toIntegerLiteral
  split
  · rename_i ds; exact absurd rfl (hneg ds)
  · by_cases hp : (p == Prim.uint64) = true
    · simp only [hp, if_true, hd]
      simp [IntLit.value?, hc, hn]
    · simp only [hp, Bool.false_eq_true, if_false]
      simp [IntLit.value?, hc, hn]

end Sbepp.Gen.Literals

namespace Sbepp.Gen.Literals
open Sbepp

theorem int64MinDigits_val : cxxDigits int64MinDigits = some 9223372036854775807 := by decide +kernel

theorem natDigits_one : cxxDigits (natDigits 1) = some 1 := by decide +kernel

/-- a value written with `-` -/
theorem value_neg {p : Prim} {ds : List Char} {n : Nat}
    (hd : decimal ds = some n)
    (hz : Extracted.Templates.stripsLeadingZeros = true ∨ noLeadingZeroDigits ds = true)
    (hr : inPrimRange p (-(n : Int)) = true) :
    (toIntegerLiteral p ('-' :: ds)).value? = some (-(n : Int)) := by
  have hge := (inPrimRange_lt p _ hr).1
  have hc := pastedDigits_spec hz hd
  have hn : n ≤ 2 ^ 63 := by omega
  have hn64 : n < 2 ^ 64 := by omega
  unfold toIntegerLiteral
  by_cases hp : (p == Prim.int64) = true
  · simp only [hp, if_true, hd]
    by_cases hbig : 9223372036854775807 < n
    · have hn' : n = 9223372036854775808 := by omega
      subst hn'
      simp only [hbig, if_true]
      have h1 : (9223372036854775808 - 9223372036854775807 : Nat) = 1 := by decide
      simp only [h1, IntLit.value?, int64MinDigits_val, natDigits_one]
      decide
    · simp only [hbig, if_false]
      simp [IntLit.value?, hc, hn64]
  · simp only [hp, Bool.false_eq_true, if_false]
    simp [IntLit.value?, hc, hn64]

/-- **integer_literal_value**: for an integer primitive, a value the validator accepted
    (`value_fits_into_type`) is rendered by `to_integer_literal` as a C++ integer constant expression of the
    same value, which list-initialises the primitive's C++ type without narrowing — for every accepted text
    when the generator strips leading zeros, for texts without a superfluous leading zero otherwise -/
theorem integer_literal_value (p : Prim) (cs : List Char) (v : Int)
    (h : parseIntFor p cs = some v)
    (hz : Extracted.Templates.stripsLeadingZeros = true ∨ noLeadingZero cs = true) :
    (toIntegerLiteral p cs).value? = some v ∧ bracedInt p v = true := by
  obtain ⟨hf, hr⟩ := parseIntFor_spec h
  refine ⟨?_, bracedInt_of_range hr⟩
  cases cs with
  | nil => simp [fromChars, decimal] at hf
  | cons c rest =>
    by_cases hc : c = '-'
    · subst hc
      simp only [fromChars] at hf
      by_cases hs : p.isSigned = true
      · simp only [hs, if_true] at hf
        cases hd : decimal rest with
        | none => simp [hd] at hf
        | some n =>
          simp only [hd, Option.map_some, Option.some.injEq] at hf
          subst hf
          exact value_neg hd (hz.imp id (fun h => by simpa [noLeadingZero] using h)) hr
      · simp [hs] at hf
    · have hneg : ∀ ds, c :: rest ≠ '-' :: ds := by
        intro ds heq; injection heq with h1 _; exact hc h1
      have hf' : (decimal (c :: rest)).map (fun (n : Nat) => Int.ofNat n) = some v := by
        unfold fromChars at hf
        split at hf
        · rename_i ds heq; exact absurd heq (hneg ds)
        · exact hf
      cases hd : decimal (c :: rest) with
      | none => simp [hd] at hf'
      | some n =>
        simp only [hd, Option.map_some, Option.some.injEq] at hf'
        subst hf'
        have hz' : Extracted.Templates.stripsLeadingZeros = true ∨ noLeadingZeroDigits (c :: rest) = true := by
          refine hz.imp id (fun hz => ?_)
          unfold noLeadingZero at hz
          split at hz
          · rename_i ds heq; exact absurd heq (hneg ds)
          · exact hz
        exact value_pos hneg hd hz' hr

end Sbepp.Gen.Literals

namespace Sbepp.Gen.Literals
open Sbepp

/-! ### floating-point texts -/

/-- the floating-point texts that C++ reads the way `strtof` / `strtod` do even when they are pasted as
    written: anything with a `.` or an exponent, and integer-looking texts without a leading zero whose value
    is below `2^64` and exactly representable in the target type -/
def fpTextSafe (p : Prim) (cs : List Char) : Bool :=
  (fpSpecial? cs).isSome ||
  match parseFp cs with
  | some t =>
    !t.integerLooking ||
      (noLeadingZeroDigits t.intDigits && decide (t.mant < 2 ^ 64) && exactInFloat (significand p) t.mant)
  | none => false

theorem splitWhile_spec (p : Char → Bool) (cs a b : List Char) (h : splitWhile p cs = (a, b)) :
    cs = a ++ b ∧ a.all p = true ∧ (b = [] ∨ ∃ c r, b = c :: r ∧ p c = false) := by
  induction cs generalizing a b with
  | nil => simp only [splitWhile, Prod.mk.injEq] at h; obtain ⟨h1, h2⟩ := h; subst h1; subst h2; simp
  | cons c cs ih =>
    simp only [splitWhile] at h
    by_cases hc : p c = true
    · simp only [hc, if_true] at h
      cases hs : splitWhile p cs with
      | mk a' b' =>
        simp only [hs, Prod.mk.injEq] at h
        obtain ⟨h1, h2⟩ := h
        subst h1; subst h2
        obtain ⟨e1, e2, e3⟩ := ih a' b' hs
        exact ⟨by simp [e1], by simp [hc, e2], e3⟩
    · simp only [hc, Bool.false_eq_true, if_false, Prod.mk.injEq] at h
      obtain ⟨h1, h2⟩ := h
      subst h1; subst h2
      exact ⟨rfl, rfl, Or.inr ⟨c, cs, rfl, by simpa using hc⟩⟩

theorem splitWhile_all (p : Char → Bool) (a rest : List Char) (h : a.all p = true) :
    splitWhile p (a ++ rest) = (a ++ (splitWhile p rest).1, (splitWhile p rest).2) := by
  induction a with
  | nil => simp
  | cons c cs ih =>
    simp only [List.all_cons, Bool.and_eq_true] at h
    simp only [List.cons_append, splitWhile, h.1, if_true, ih h.2]

theorem digitsVal_append (b : Nat) (xs ys : List Char) (acc : Nat) :
    digitsVal b (xs ++ ys) acc = (digitsVal b xs acc).bind (fun v => digitsVal b ys v) := by
  induction xs generalizing acc with
  | nil => simp [digitsVal]
  | cons c cs ih =>
    simp only [List.cons_append, digitsVal]
    cases digitVal? c with
    | none => simp
    | some d =>
      simp only
      by_cases hd : d < b
      · simp only [hd, if_true]; exact ih _
      · simp [hd]

theorem noDotExp_digits (ds : List Char) (h : ds.all Char.isDigit = true) : noDotExp ds = true := by
  simp only [noDotExp, List.all_eq_true] at h ⊢
  intro c hc
  have hd := h c hc
  have h1 : c ≠ '.' := by intro e; subst e; revert hd; decide
  have h2 : c ≠ 'e' := by intro e; subst e; revert hd; decide
  have h3 : c ≠ 'E' := by intro e; subst e; revert hd; decide
  simp [h1, h2, h3]

/-- an integer-looking text is a non-empty digit string; `mant` is its decimal value -/
theorem parseFpBody_int {neg plus : Bool} {cs : List Char} {t : FpText}
    (h : parseFpBody neg plus cs = some t) (hi : t.integerLooking = true) :
    cs.all Char.isDigit = true ∧ cs ≠ [] ∧ digitsVal 10 cs 0 = some t.mant ∧
      t = ⟨neg, plus, t.mant, 0, true, cs⟩ := by
  unfold parseFpBody at h
  cases hs : splitWhile Char.isDigit cs with
  | mk ip rest =>
    obtain ⟨e1, e2, -⟩ := splitWhile_spec _ _ _ _ hs
    simp only [hs] at h
    split at h
    · split at h
      · cases h
      · split at h
        · simp only [Option.some.injEq] at h; subst h; simp at hi
        · cases h
    · split at h
      · cases h
      · rename_i hne
        cases hd : digitsVal 10 ip 0 with
        | none => simp [hd] at h
        | some m =>
          simp only [hd, Option.map_some, Option.some.injEq] at h
          subst h
          simp only [List.append_nil] at e1
          subst e1
          exact ⟨e2, by intro hnil; subst hnil; simp at hne, hd, rfl⟩
    · split at h
      · cases h
      · split at h
        · simp only [Option.some.injEq] at h; subst h; simp at hi
        · cases h

/-- a text that is not integer-looking contains `.`, `e` or `E` -/
theorem parseFpBody_nonint {neg plus : Bool} {cs : List Char} {t : FpText}
    (h : parseFpBody neg plus cs = some t) (hi : t.integerLooking = false) : noDotExp cs = false := by
  unfold parseFpBody at h
  cases hs : splitWhile Char.isDigit cs with
  | mk ip rest =>
    obtain ⟨e1, -, -⟩ := splitWhile_spec _ _ _ _ hs
    simp only [hs] at h
    have hmem : ∀ c, c ∈ cs → (c == '.' || c == 'e' || c == 'E') = true → noDotExp cs = false := by
      intro c hc hcc
      simp only [noDotExp, List.all_eq_false]
      exact ⟨c, hc, by simp [hcc]⟩
    split at h
    · exact hmem '.' (by rw [e1]; simp) (by decide)
    · split at h
      · cases h
      · cases hd : digitsVal 10 ip 0 with
        | none => simp [hd] at h
        | some m =>
          simp only [hd, Option.map_some, Option.some.injEq] at h
          subst h; simp at hi
    · rename_i hne1 hne2
      split at h
      · cases h
      · cases rest with
        | nil => exact absurd rfl hne2
        | cons e r =>
          by_cases he : e = 'e' ∨ e = 'E'
          · exact hmem e (by rw [e1]; simp) (by rcases he with he | he <;> subst he <;> decide)
          · simp [parseExp, he] at h

/-- `digits.0` is read as the decimal number `digits` -/
theorem parseFpBody_dot0 (neg plus : Bool) (cs : List Char) (m : Nat)
    (hall : cs.all Char.isDigit = true) (hne : cs ≠ []) (hd : digitsVal 10 cs 0 = some m) :
    parseFpBody neg plus (cs ++ ['.', '0']) = some ⟨neg, plus, m * 10, -1, false, cs⟩ := by
  unfold parseFpBody
  have h1 : splitWhile Char.isDigit (cs ++ ['.', '0']) = (cs, ['.', '0']) := by
    rw [splitWhile_all _ _ _ hall]
    have : splitWhile Char.isDigit ['.', '0'] = ([], ['.', '0']) := by decide
    simp [this]
  have h2 : splitWhile Char.isDigit ['0'] = (['0'], []) := by decide
  have h3 : digitsVal 10 (cs ++ ['0']) 0 = some (m * 10) := by
    rw [digitsVal_append, hd]
    have : digitVal? '0' = some 0 := by decide
    simp [digitsVal, this]
  have hne' : cs.isEmpty = false := by
    cases cs with
    | nil => exact absurd rfl hne
    | cons _ _ => rfl
  simp only [h1, h2, hne', h3, parseExp]
  simp

theorem fpBelow_dot0 (neg plus : Bool) (m : Nat) (cs : List Char) (bound : Nat) :
    fpBelow ⟨neg, plus, m * 10, -1, false, cs⟩ bound = fpBelow ⟨neg, plus, m, 0, true, cs⟩ bound := by
  simp only [fpBelow]
  have h1 : ¬ (0 : Int) ≤ -1 := by decide
  have h2 : (-(-1 : Int)).toNat = 1 := by decide
  simp only [h1, if_false, h2, Int.le_refl, if_true, Int.toNat_zero, Nat.pow_zero, Nat.mul_one, Nat.pow_one]
  by_cases h : m < bound
  · have : m * 10 < bound * 10 := by omega
    simp [h, this]
  · have : ¬ m * 10 < bound * 10 := by omega
    simp [h, this]

/-- the sign does not matter for `noDotExp` -/
theorem noDotExp_sign (c : Char) (cs : List Char) (hc : c = '-' ∨ c = '+') : noDotExp (c :: cs) = noDotExp cs := by
  rcases hc with hc | hc <;> subst hc <;> simp [noDotExp]

/-- what `parseFp` says about a text and about the same text followed by `.0` -/
theorem parseFp_dot0 {cs : List Char} {t : FpText} (h : parseFp cs = some t) (hn : noDotExp cs = true) :
    ∃ t', parseFp (cs ++ ['.', '0']) = some t' ∧ t'.integerLooking = false ∧
      ∀ bound, fpBelow t' bound = fpBelow t bound := by
  have key : ∀ (neg plus : Bool) (body : List Char), parseFpBody neg plus body = some t → noDotExp body = true →
      ∃ t', parseFpBody neg plus (body ++ ['.', '0']) = some t' ∧ t'.integerLooking = false ∧
        ∀ bound, fpBelow t' bound = fpBelow t bound := by
    intro neg plus body hb hnb
    have hi : t.integerLooking = true := by
      cases hti : t.integerLooking with
      | true => rfl
      | false => have := parseFpBody_nonint hb hti; rw [hnb] at this; cases this
    obtain ⟨hall, hne, hd, ht⟩ := parseFpBody_int hb hi
    refine ⟨_, parseFpBody_dot0 neg plus body t.mant hall hne hd, rfl, fun bound => ?_⟩
    rw [fpBelow_dot0, ← ht]
  unfold parseFp at h ⊢
  split at h
  · rename_i ds
    have := key true false ds h (by rw [← noDotExp_sign '-' ds (Or.inl rfl)]; exact hn)
    simpa using this
  · rename_i ds
    have := key false true ds h (by rw [← noDotExp_sign '+' ds (Or.inr rfl)]; exact hn)
    simpa using this
  · rename_i hm hp
    have := key false false cs h hn
    cases cs with
    | nil => simpa using this
    | cons c r =>
      have h1 : c ≠ '-' := fun e => hm r (by rw [e])
      have h2 : c ≠ '+' := fun e => hp r (by rw [e])
      simp only [List.cons_append]
      split
      · rename_i heq; injection heq with e _; exact absurd e h1
      · rename_i heq; injection heq with e _; exact absurd e h2
      · simpa using this

theorem parseFp_nonint {cs : List Char} {t : FpText} (h : parseFp cs = some t) (hn : noDotExp cs = false) :
    t.integerLooking = false := by
  cases hti : t.integerLooking with
  | false => rfl
  | true =>
    exfalso
    have key : ∀ (neg plus : Bool) (body : List Char), parseFpBody neg plus body = some t → noDotExp body = true := by
      intro neg plus body hb
      exact noDotExp_digits body (parseFpBody_int hb hti).1
    unfold parseFp at h
    split at h
    · rename_i ds
      have := key _ _ _ h
      rw [noDotExp_sign '-' ds (Or.inl rfl), this] at hn; cases hn
    · rename_i ds
      have := key _ _ _ h
      rw [noDotExp_sign '+' ds (Or.inr rfl), this] at hn; cases hn
    · have := key _ _ _ h
      rw [this] at hn; cases hn

theorem parseFp_integer {cs : List Char} {t : FpText}
    (h : parseFp cs = some t) (hi : t.integerLooking = true) : decimal t.intDigits = some t.mant := by
  have key : ∀ (neg plus : Bool) (body : List Char), parseFpBody neg plus body = some t →
      decimal t.intDigits = some t.mant := by
    intro neg plus body hb
    obtain ⟨_, hne, hd, ht⟩ := parseFpBody_int hb hi
    have : t.intDigits = body := by rw [ht]
    rw [this]
    cases body with
    | nil => exact absurd rfl hne
    | cons c r => simp [decimal, hd]
  unfold parseFp at h
  split at h <;> exact key _ _ _ h

/-- **float_literal_fits**: a `float` / `double` value the validator accepted is pasted as a C++ constant that
    list-initialises the type without narrowing and denotes the same value — for every accepted text when the
    generator appends `.0` to integer-looking texts, for safe texts otherwise -/
theorem float_literal_fits (p : Prim) (cs : List Char) (ha : fpAccepted p cs = true)
    (hs : Extracted.Templates.floatDotZero = true ∨ fpTextSafe p cs = true) : fitsFp p (renderFp cs) = .ok := by
  unfold renderFp
  cases hsp : fpSpecial? cs with
  | some sp => simp [fitsFp]
  | none =>
    simp only
    simp only [fpAccepted, hsp, Option.isSome_none, Bool.false_or] at ha
    cases hp : parseFp cs with
    | none => simp [hp] at ha
    | some t =>
      simp only [hp] at ha
      simp only [fpInRange, Bool.and_eq_true] at ha
      by_cases hf : Extracted.Templates.floatDotZero = true
      · by_cases hn : noDotExp cs = true
        · obtain ⟨t', hp', hi', hb'⟩ := parseFp_dot0 hp hn
          simp [hf, hn, fitsFp, hp', hi', hb', ha.1]
        · have hn' : noDotExp cs = false := by simpa using hn
          have hi := parseFp_nonint hp hn'
          simp [hf, hn', fitsFp, hp, hi, ha.1]
      · rcases hs with hs | hs
        · exact absurd hs hf
        · have hf' : Extracted.Templates.floatDotZero = false := by simpa using hf
          simp only [hf', Bool.false_and, Bool.false_eq_true, if_false, fitsFp, hp]
          simp only [fpTextSafe, hsp, Option.isSome_none, Bool.false_or, hp] at hs
          by_cases hi : t.integerLooking = true
          · simp only [hi, Bool.not_true, Bool.false_or, Bool.and_eq_true, decide_eq_true_eq] at hs
            obtain ⟨⟨hz, hlt⟩, hex⟩ := hs
            have hd := parseFp_integer hp hi
            have hc : fpAsInteger t = some t.mant := cxxDigits_of_decimal hz hd
            have hnot : ¬ (2 ^ 64 ≤ t.mant) := by omega
            simp [hi, hc, hnot, hex]
          · simp [hi, ha.1]

/-- largest value of the C++ type of an integer primitive -/
def primMaxNat? : Prim → Option Nat
  | .char | .int8 => some 127
  | .uint8 => some 255
  | .int16 => some 32767
  | .uint16 => some 65535
  | .int32 => some 2147483647
  | .uint32 => some 4294967295
  | .int64 => some 9223372036854775807
  | .uint64 => some 18446744073709551615
  | .float | .double => none

/-- an unsigned number is representable in the C++ type of `p` (exactly, for the floating types) -/
def natFits (p : Prim) (n : Nat) : Bool :=
  match primMaxNat? p with
  | some m => decide (n ≤ m)
  | none => exactInFloat (significand p) n

theorem bracedInt_nat (p : Prim) (n : Nat) (h : natFits p n = true) : bracedInt p (Int.ofNat n) = true := by
  unfold natFits at h
  unfold bracedInt
  cases p <;> simp [primMaxNat?] at h <;>
    simp [Prim.isFloat, inPrimRange, primRange?, significand] <;>
    first | omega | (simpa [significand] using h)

/-- the row of the generator's default table for an attribute -/
def defaultText (a : Spec.Scalar.Attr) (p : Prim) : String :=
  (Extracted.lookup (match a with
    | .min => Extracted.genMin | .max => Extracted.genMax | .null => Extracted.genNull) p.name).getD ""

/-- **defaults_fit**: every row of the three default tables extracted from types_compiler.hpp on this run is
    a C++ constant expression that list-initialises the type of its primitive (literal typing, `-x`, `a - b`,
    `numeric_limits`, narrowing rule) -/
theorem defaults_fit (a : Spec.Scalar.Attr) (p : Prim) :
    (Spec.Scalar.evalLit p (defaultText a p)).isSome = true := by
  cases a <;> cases p <;> decide +kernel

theorem fromChars_signed {sg : Bool} {cs : List Char} {v : Int} (h : fromChars sg cs = some v) :
    fromChars true cs = some v := by
  unfold fromChars at h ⊢
  split at h
  · by_cases hs : sg = true
    · simpa [hs] using h
    · simp [hs] at h
  · exact h

/-- the check the validator (or the parser's integer width) applied to the value behind a site; `true` where
    sbeppc checks nothing -/
def Site.validated (s : Site) : Bool :=
  match s.target, s.text with
  | .prim p, .int q cs => p == q && (parseIntFor p cs).isSome
  | .prim p, .fp cs => p.isFloat && fpAccepted p cs
  | .uint b, .nat n => decide (n < 2 ^ b)
  -- header-filler constants: the member has an integer or char type that holds the value (bf3e3ae, ceb9ad3)
  | .prim p, .nat n => !p.isFloat && inPrimRange p (n : Int)
  | .prim p, .deflt a text => text == defaultText a p
  | .prim p, .enumRef v =>
    (match v with
     | some x => p.isFloat || inPrimRange p x
     | none => true)            -- the enumerator's own site reports that it is ill-formed
  | .str, .str _ _ => true
  | .chr, .chr cs => cs.length == 1
  | _, _ => false

/-- the input classes on which the current generator is correct.  The conditions on explicit numbers and on
    text disappear when `Extracted.Templates` says the generator normalises / escapes them -/
def Site.plain (s : Site) : Bool :=
  match s.target, s.text with
  | .prim _, .int _ cs => Extracted.Templates.stripsLeadingZeros || noLeadingZero cs
  | .prim p, .fp cs => Extracted.Templates.floatDotZero || fpTextSafe p cs
  | .prim p, .nat n => natFits p n
  | .prim p, .enumRef v =>
    (match v with
     | some x => !p.isFloat || exactInFloat (significand p) x.natAbs
     | none => false)
  | .str, .str cs _ => Extracted.Templates.escapesLiterals || plainText cs
  | .chr, .chr cs =>
    Extracted.Templates.escapesLiterals || cs.all (fun c => c != '\'' && c != '\\' && c != '\n' && c != '?')
  | _, _ => true

/-- a validated site with plain input is well-formed and denotes the schema value -/
theorem site_fits (s : Site) (hv : s.validated = true) (hp : s.plain = true) : s.verdict = .ok := by
  obtain ⟨kind, entity, text, target⟩ := s
  cases target with
  | prim p =>
    cases text with
    | int q cs =>
      simp only [Site.validated, Bool.and_eq_true, beq_iff_eq] at hv
      obtain ⟨hpq, hsome⟩ := hv
      subst hpq
      simp only [Site.plain] at hp
      cases hpi : parseIntFor p cs with
      | none => simp [hpi] at hsome
      | some v =>
        obtain ⟨hval, hbr⟩ := integer_literal_value p cs v hpi (by simpa [Bool.or_eq_true] using hp)
        have hfc := fromChars_signed (parseIntFor_spec hpi).1
        simp [Site.verdict, hval, hbr, hfc]
    | fp cs =>
      simp only [Site.validated, Bool.and_eq_true] at hv
      simp only [Site.plain] at hp
      simp [Site.verdict, hv.1, float_literal_fits p cs hv.2 (by simpa [Bool.or_eq_true] using hp)]
    | nat n =>
      simp only [Site.plain] at hp
      have := bracedInt_nat p n hp
      simp only [Site.verdict]
      have h2 : bracedInt p (n : Int) = true := this
      simp [h2]
    | deflt a t =>
      simp only [Site.validated, beq_iff_eq] at hv
      subst hv
      simp [Site.verdict, defaults_fit a p]
    | enumRef v =>
      cases v with
      | none => simp [Site.plain] at hp
      | some x =>
        simp only [Site.validated, Bool.or_eq_true] at hv
        simp only [Site.plain, Bool.or_eq_true, Bool.not_eq_true'] at hp
        simp only [Site.verdict]
        have : bracedInt p x = true := by
          unfold bracedInt
          by_cases hf : p.isFloat = true
          · rcases hp with hp | hp
            · simp [hf] at hp
            · simp [hf, hp]
          · rcases hv with hv | hv
            · exact absurd hv hf
            · simp [hf, hv]
        simp [this]
    | chr cs => simp [Site.validated] at hv
    | str cs pad => simp [Site.validated] at hv
  | uint b =>
    cases text with
    | nat n =>
      simp only [Site.validated, decide_eq_true_eq] at hv
      simp [Site.verdict, uintFits, hv]
    | _ => simp [Site.validated] at hv
  | str =>
    cases text with
    | str cs pad =>
      simp only [Site.plain] at hp
      simp [Site.verdict, string_literal_ok cs pad (by simpa [Bool.or_eq_true] using hp)]
    | _ => simp [Site.validated] at hv
  | chr =>
    cases text with
    | chr cs =>
      simp only [Site.validated, beq_iff_eq] at hv
      simp only [Site.plain] at hp
      match cs, hv with
      | [c], _ =>
        have hc : Extracted.Templates.escapesLiterals = true ∨ (c ≠ '\'' ∧ c ≠ '\\' ∧ c ≠ '\n' ∧ c ≠ '?') := by
          simp only [Bool.or_eq_true, List.all_cons, List.all_nil, Bool.and_true, Bool.and_eq_true, bne_iff_ne,
            ne_eq] at hp
          exact hp.imp id (fun h => ⟨h.1.1.1, h.1.1.2, h.1.2, h.2⟩)
        simp [Site.verdict, char_literal_ok c hc]
    | _ => simp [Site.validated] at hv

end Sbepp.Gen.Literals

namespace Sbepp.Gen.Literals
open Sbepp

theorem natFits_of_range (p : Prim) (n : Nat) (hf : p.isFloat = false) (h : inPrimRange p (n : Int) = true) :
    natFits p n = true := by
  cases p <;> simp [Prim.isFloat] at hf <;> simp [inPrimRange, primRange?] at h <;> simp [natFits, primMaxNat?] <;> omega

/-- the one kind of site whose value sbeppc does not check against the type it is braced into: the enumerator
    behind a `valueRef`, where the constant's type is `float` / `double` (`value_ref_fits_into_type` reads the
    enumerator text with `strtof` / `strtod`, the generated code converts the enumerator's integer value); the
    second disjunct is the model's placeholder for a `valueRef` that does not resolve (rejected by sbeppc) -/
def Site.unchecked (s : Site) : Bool :=
  match s.target, s.text with
  | .prim p, .enumRef v => p.isFloat || v.isNone
  | _, _ => false

/-- with the generator normalising numbers and escaping text, every validated site other than the unchecked
    ones is well-formed -/
theorem site_fits_checked (s : Site)
    (h1 : Extracted.Templates.stripsLeadingZeros = true) (h2 : Extracted.Templates.floatDotZero = true)
    (h3 : Extracted.Templates.escapesLiterals = true)
    (hv : s.validated = true) (hu : s.unchecked = false) : s.verdict = .ok := by
  apply site_fits s hv
  obtain ⟨kind, entity, text, target⟩ := s
  cases target with
  | prim p =>
    cases text with
    | nat n =>
      simp only [Site.validated, Bool.and_eq_true, Bool.not_eq_true'] at hv
      exact natFits_of_range p n hv.1 hv.2
    | enumRef v =>
      cases v with
      | none => simp [Site.unchecked] at hu
      | some x =>
        simp only [Site.unchecked, Option.isNone_some, Bool.or_false] at hu
        simp [Site.plain, hu]
    | _ => simp_all [Site.plain]
  | _ => cases text <;> simp_all [Site.plain]

end Sbepp.Gen.Literals
