/-
  Canonical-form lemmas for evaluating extracted kernels symbolically
  (`binop` on `wrap t i` values, dimension-type facts) and the evaluation of
  `flat_group_base::operator()(size_bytes_tag)` for the 16
  (numInGroup type, blockLength type) pairs.  Used by C05 (flat part) and, via
  `Lemmas/Iter.lean`, by C12.
-/
import Sbepp.Extracted.Kernels
import Sbepp.Extracted.KernelsGroup
import Sbepp.Lemmas.CInt
import Sbepp.Rt.Iter
import Sbepp.Spec.Group

set_option linter.unusedSimpArgs false

namespace Sbepp
open CVal

/-- the unsigned types a group dimension member may have -/
def DimTy (T : CTy) : Prop := T = .u8 ∨ T = .u16 ∨ T = .u32 ∨ T = .u64

/-- modulus of a type as an integer -/
def CTy.modulus (t : CTy) : Int := ((2 ^ t.bits : Nat) : Int)

theorem CTy.modulus_pos (t : CTy) : 0 < t.modulus := by
  have : 0 < 2 ^ t.bits := Nat.two_pow_pos _
  unfold CTy.modulus; omega

namespace CVal

/-! ### value-level lemmas on the canonical form `wrap t i` -/

theorem inRange_unsigned (t : CTy) (hs : t.signed = false) (i : Int) :
    inRange t i = true ↔ 0 ≤ i ∧ i < t.modulus := by
  simp [inRange, hs, CTy.modulus]

theorem inRange_signed (t : CTy) (hs : t.signed = true) (i : Int) :
    inRange t i = true ↔ -((2 ^ (t.bits - 1) : Nat) : Int) ≤ i ∧ i < ((2 ^ (t.bits - 1) : Nat) : Int) := by
  simp [inRange, hs]

theorem inRange_nat (t : CTy) (hs : t.signed = false) (a : Nat) (h : a < 2 ^ t.bits) :
    inRange t (a : Int) = true := by
  rw [inRange_unsigned t hs]; unfold CTy.modulus; omega

theorem toInt_wrap_unsigned (t : CTy) (hs : t.signed = false) (i : Int) :
    (wrap t i).toInt = i % t.modulus := by
  unfold wrap toInt
  simp only [hs, Bool.false_and, Bool.false_eq_true, if_false]
  exact Int.toNat_of_nonneg (Int.emod_nonneg _ (by have := CTy.modulus_pos t; unfold CTy.modulus at this; omega))

theorem wrap_emod (t : CTy) (i : Int) : wrap t (i % t.modulus) = wrap t i := by
  unfold wrap CTy.modulus
  rw [Int.emod_emod_of_dvd _ (Int.dvd_refl _)]

theorem wrap_congr (t : CTy) (i j : Int) (h : i % t.modulus = j % t.modulus) : wrap t i = wrap t j := by
  rw [← wrap_emod t i, ← wrap_emod t j, h]

theorem wrap_add_emod_right (t : CTy) (i j : Int) : wrap t (i + j % t.modulus) = wrap t (i + j) := by
  apply wrap_congr; rw [Int.add_emod, Int.emod_emod_of_dvd _ (Int.dvd_refl _), ← Int.add_emod]

theorem wrap_add_emod_left (t : CTy) (i j : Int) : wrap t (i % t.modulus + j) = wrap t (i + j) := by
  apply wrap_congr; rw [Int.add_emod, Int.emod_emod_of_dvd _ (Int.dvd_refl _), ← Int.add_emod]

theorem wrap_sub_emod (t : CTy) (i j : Int) : wrap t (i % t.modulus - j % t.modulus) = wrap t (i - j) := by
  apply wrap_congr; rw [Int.sub_emod, Int.emod_emod_of_dvd _ (Int.dvd_refl _),
    Int.emod_emod_of_dvd _ (Int.dvd_refl _), ← Int.sub_emod]

/-- converting between two types of the same width keeps the representation -/
theorem wrap_toInt_same_width (t t' : CTy) (hw : t'.bits = t.bits) (i : Int) :
    wrap t' ((wrap t i).toInt) = wrap t' i := by
  apply wrap_congr
  have hm : t'.modulus = t.modulus := by unfold CTy.modulus; rw [hw]
  rw [hm]
  by_cases hs : t.signed = true
  · -- toInt is bits or bits - modulus
    have hb : ((wrap t i).bits : Int) = i % t.modulus := by
      unfold wrap CTy.modulus
      exact Int.toNat_of_nonneg (Int.emod_nonneg _ (by have := CTy.modulus_pos t; unfold CTy.modulus at this; omega))
    unfold toInt
    simp only [wrap_ty, hs, Bool.true_and]
    split
    · rw [hb]
      show (i % t.modulus - t.modulus) % t.modulus = i % t.modulus
      rw [Int.sub_emod, Int.emod_self, Int.sub_zero, Int.emod_emod_of_dvd _ (Int.dvd_refl _),
        Int.emod_emod_of_dvd _ (Int.dvd_refl _)]
    · rw [hb, Int.emod_emod_of_dvd _ (Int.dvd_refl _)]
  · have hs' : t.signed = false := by simpa using hs
    rw [toInt_wrap_unsigned t hs', Int.emod_emod_of_dvd _ (Int.dvd_refl _)]

theorem conv_wrap_same_width (t t' : CTy) (hb : t' ≠ .bool) (hw : t'.bits = t.bits) (i : Int) :
    conv t' (wrap t i) = wrap t' i := by
  have : conv t' (wrap t i) = wrap t' (wrap t i).toInt := by
    unfold conv; cases t' <;> simp_all
  rw [this, wrap_toInt_same_width t t' hw]

theorem inRange_promote (t : CTy) (i : Int) (h : inRange t i = true) : inRange t.promote i = true := by
  cases t <;>
  · simp only [inRange, CTy.promote, CTy.rank, CTy.signed, Bool.and_eq_true, decide_eq_true_eq, if_true, if_false,
      Bool.false_eq_true, Nat.reduceLT] at h ⊢
    simp only [CTy.bits, Nat.reduceSub, Nat.reducePow] at h ⊢
    omega

theorem promote_wrap (t : CTy) (i : Int) (h : inRange t i = true) : (wrap t i).promote = wrap t.promote i := by
  by_cases hr : t.rank < 3
  · rw [promote_wrap_small t i h hr]; simp [CTy.promote, hr]
  · rw [promote_wrap_big t i h hr]; simp [CTy.promote, hr]

theorem arith_unsigned (t : CTy) (hs : t.signed = false) (i : Int) : arith t i = some (wrap t i) := by
  simp [arith, hs]

theorem arith_inRange (t : CTy) (i : Int) (h : inRange t i = true) : arith t i = some (wrap t i) := by
  unfold arith exact
  by_cases hs : t.signed = true <;> simp [hs, h]

theorem common_promote_ne_bool (a b : CTy) : CTy.common a.promote b.promote ≠ .bool := by
  cases a <;> cases b <;> decide

theorem promote_not_ptr (a : CTy) (h : a.isPtr = false) : a.promote.isPtr = false := by
  cases a <;> simp_all [CTy.promote, CTy.rank, CTy.isPtr]

/-- the usual arithmetic conversions applied to two in-range values -/
theorem intBinop_wrap (op : BinOp) (h1 : op ≠ .shl) (h2 : op ≠ .shr) (ta tb : CTy) (a b : Int)
    (ha : inRange ta a = true) (hb : inRange tb b = true) :
    intBinop op (wrap ta a) (wrap tb b)
      = arithOp op (CTy.common ta.promote tb.promote)
          (wrap (CTy.common ta.promote tb.promote) a) (wrap (CTy.common ta.promote tb.promote) b) := by
  unfold intBinop
  rw [if_neg h1, if_neg h2, promote_wrap ta a ha, promote_wrap tb b hb]
  simp only [wrap_ty]
  rw [conv_wrap _ _ a (inRange_promote ta a ha) (common_promote_ne_bool ta tb),
      conv_wrap _ _ b (inRange_promote tb b hb) (common_promote_ne_bool ta tb)]

theorem binop_wrap (op : BinOp) (h1 : op ≠ .shl) (h2 : op ≠ .shr) (ta tb : CTy) (a b : Int)
    (pa : ta.isPtr = false) (pb : tb.isPtr = false)
    (ha : inRange ta a = true) (hb : inRange tb b = true) :
    binop op (wrap ta a) (wrap tb b)
      = arithOp op (CTy.common ta.promote tb.promote)
          (wrap (CTy.common ta.promote tb.promote) a) (wrap (CTy.common ta.promote tb.promote) b) := by
  unfold binop
  simp only [wrap_ty, pa, pb, Bool.or_self, Bool.false_eq_true, if_false]
  exact intBinop_wrap op h1 h2 ta tb a b ha hb

end CVal
end Sbepp

namespace Sbepp
open CVal Extracted

/-! ### type-level facts for dimension types -/

theorem DimTy.unsigned {T : CTy} (h : DimTy T) : T.signed = false := by
  rcases h with h | h | h | h <;> subst h <;> rfl
theorem DimTy.not_ptr {T : CTy} (h : DimTy T) : T.isPtr = false := by
  rcases h with h | h | h | h <;> subst h <;> rfl
theorem DimTy.not_bool {T : CTy} (h : DimTy T) : T ≠ .bool := by
  rcases h with h | h | h | h <;> subst h <;> decide
theorem DimTy.bits_le {T : CTy} (h : DimTy T) : T.bits ≤ 64 := by
  rcases h with h | h | h | h <;> subst h <;> decide
theorem DimTy.bits_ge {T : CTy} (h : DimTy T) : 8 ≤ T.bits := by
  rcases h with h | h | h | h <;> subst h <;> decide
theorem DimTy.pow_le {T : CTy} (h : DimTy T) : 2 ^ T.bits ≤ 2 ^ 64 :=
  Nat.pow_le_pow_right (by decide) h.bits_le
theorem DimTy.common_u64 {T : CTy} (h : DimTy T) : CTy.common (CTy.promote .u64) T.promote = .u64 := by
  rcases h with h | h | h | h <;> subst h <;> rfl
theorem DimTy.diff_signed {T : CTy} (h : DimTy T) : (Rt.diffTy T).signed = true := by
  rcases h with h | h | h | h <;> subst h <;> rfl
theorem DimTy.diff_bits {T : CTy} (h : DimTy T) : (Rt.diffTy T).bits = T.bits := by
  rcases h with h | h | h | h <;> subst h <;> rfl
theorem DimTy.diff_not_bool {T : CTy} (h : DimTy T) : Rt.diffTy T ≠ .bool := by
  rcases h with h | h | h | h <;> subst h <;> decide
theorem DimTy.diff_not_ptr {T : CTy} (h : DimTy T) : (Rt.diffTy T).isPtr = false := by
  rcases h with h | h | h | h <;> subst h <;> rfl
theorem DimTy.common_self {T : CTy} (_h : DimTy T) : CTy.common T.promote T.promote = T.promote := by
  simp [CTy.common]
theorem DimTy.common_int {T : CTy} (h : DimTy T) : CTy.common T.promote (CTy.promote .i32) = T.promote := by
  rcases h with h | h | h | h <;> subst h <;> rfl
theorem DimTy.common_diff {T : CTy} (h : DimTy T) :
    CTy.common T.promote (Rt.diffTy T).promote = T.promote := by
  rcases h with h | h | h | h <;> subst h <;> rfl
theorem DimTy.promote_not_bool {T : CTy} (h : DimTy T) : T.promote ≠ .bool := by
  rcases h with h | h | h | h <;> subst h <;> decide

/-- a dimension type either promotes to `int` (8/16 bit) or is its own promoted type -/
theorem DimTy.promote_cases {T : CTy} (h : DimTy T) :
    (T.promote = .i32 ∧ T.bits ≤ 16 ∧ (Rt.diffTy T).promote = .i32)
    ∨ (T.promote = T ∧ (Rt.diffTy T).promote = Rt.diffTy T ∧ 32 ≤ T.bits) := by
  rcases h with h | h | h | h <;> subst h
  · left; exact ⟨rfl, by decide, rfl⟩
  · left; exact ⟨rfl, by decide, rfl⟩
  · right; exact ⟨rfl, rfl, by decide⟩
  · right; exact ⟨rfl, rfl, by decide⟩

theorem DimTy.two_pow_split {T : CTy} (_h : DimTy T) : 2 ^ T.bits = 2 * 2 ^ (T.bits - 1) :=
  two_pow_pred_double T

namespace CVal

theorem inRange_u64 (a : Nat) (h : a < 2 ^ 64) : inRange .u64 (a : Int) = true :=
  inRange_nat .u64 rfl a h

theorem inRange_i32 (i : Int) (h : -(2 ^ 31 : Int) ≤ i ∧ i < (2 ^ 31 : Int)) : inRange .i32 i = true := by
  rw [inRange_signed .i32 rfl]
  simp only [CTy.bits, Nat.reduceSub, Nat.reducePow]
  omega

theorem inRange_i64 (i : Int) (h : -(2 ^ 63 : Int) ≤ i ∧ i < (2 ^ 63 : Int)) : inRange .i64 i = true := by
  rw [inRange_signed .i64 rfl]
  simp only [CTy.bits, Nat.reduceSub, Nat.reducePow]
  omega

theorem inRange_ptr (i : Int) (h : -(2 ^ 63 : Int) ≤ i ∧ i < (2 ^ 63 : Int)) : inRange .ptr i = true := by
  rw [inRange_signed .ptr rfl]
  simp only [CTy.bits, Nat.reduceSub, Nat.reducePow]
  omega

/-- bits of a canonical value -/
theorem wrap_bits (t : CTy) (i : Int) : ((wrap t i).bits : Int) = i % t.modulus := by
  unfold wrap CTy.modulus
  exact Int.toNat_of_nonneg (Int.emod_nonneg _ (by have := CTy.modulus_pos t; unfold CTy.modulus at this; omega))

theorem wrap_bits_nat (t : CTy) (a : Nat) (h : a < 2 ^ t.bits) : (wrap t (a : Int)).bits = a := by
  rw [wrap_nat t a h]

/-- `x * y` in `size_t` -/
theorem mul_u64 (T : CTy) (hT : DimTy T) (a b : Nat) (ha : a < 2 ^ 64) (hb : b < 2 ^ T.bits) :
    binop .mul (wrap .u64 (a : Int)) (wrap T (b : Int)) = some (wrap .u64 ((a * b : Nat) : Int)) := by
  have hb64 : b < 2 ^ 64 := Nat.lt_of_lt_of_le hb hT.pow_le
  rw [binop_wrap .mul (by decide) (by decide) .u64 T a b rfl hT.not_ptr (inRange_u64 a ha)
    (inRange_nat T hT.unsigned b hb), hT.common_u64]
  simp only [arithOp, toInt_wrap _ _ (inRange_u64 a ha), toInt_wrap _ _ (inRange_u64 b hb64),
    arith_unsigned .u64 rfl, Int.natCast_mul]

theorem add_u64 (a b : Nat) (ha : a < 2 ^ 64) (hb : b < 2 ^ 64) :
    binop .add (wrap .u64 (a : Int)) (wrap .u64 (b : Int)) = some (wrap .u64 ((a + b : Nat) : Int)) := by
  rw [binop_wrap .add (by decide) (by decide) .u64 .u64 a b rfl rfl (inRange_u64 a ha) (inRange_u64 b hb)]
  simp only [arithOp, show CTy.common (CTy.promote .u64) (CTy.promote .u64) = .u64 from rfl,
    toInt_wrap _ _ (inRange_u64 a ha), toInt_wrap _ _ (inRange_u64 b hb),
    arith_unsigned .u64 rfl, Int.natCast_add]

end CVal

/-! ### flat group `size_bytes` (C05, flat part) -/

theorem flat_size_eval (NT BT : CTy) (hNT : DimTy NT) (hBT : DimTy BT) (hdr n bl : Nat)
    (hn : n < 2 ^ NT.bits) (hb : bl < 2 ^ BT.bits) (hfit : hdr + n * bl < 2 ^ 64) :
    (flat_group_size_bytes NT BT).retBits [hdr, n, bl] = some (hdr + n * bl) := by
  have hle := hNT.pow_le
  have hh : hdr < 2 ^ 64 := by omega
  have hmul : n * bl < 2 ^ 64 := by omega
  have rn : inRange NT (n : Int) = true := inRange_nat NT hNT.unsigned n hn
  simp only [flat_group_size_bytes, Kernel.retBits, Kernel.run, execStmts, mkEnv, CExpr.eval, Env.get?,
    String.reduceEq, if_true, if_false, Option.map, mk_mod_eq_wrap,
    conv_wrap NT .u64 n rn (by decide), mul_u64 BT hBT n bl (by omega) hb, add_u64 hdr (n * bl) hh hmul,
    conv_wrap .u64 .u64 _ (inRange_u64 _ hfit) (by decide)]
  rw [wrap_nat .u64 _ hfit]

end Sbepp

namespace Sbepp
open CVal Extracted
namespace Rt

theorem uncheckedBody_header :
    uncheckedBody flat_group_header_check = { flat_group_header_check with body := [] } := rfl

theorem headerCheck_unchecked (g : Group) : headerCheck g false = .ok () := by
  unfold headerCheck runK
  rw [if_neg (by decide), uncheckedBody_header]
  rfl

end Rt
end Sbepp
