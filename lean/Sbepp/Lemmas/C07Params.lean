/-
  Lemmas for C07 (`size_bytes` parameter names): the loop of `make_unique_param_name` terminates, its result is
  new; the parameter lists are duplicate free by construction; the arguments at the call sites are the
  parameters that were added for the callee, in order.
-/
import Sbepp.Gen.Scope

namespace Sbepp.Gen.Scope
open Sbepp Sbepp.Schema
open Sbepp.Extracted

/-! ### termination of the loop -/

theorem countP_le_of_imp {α} (p q : α → Bool) (l : List α) (h : ∀ x ∈ l, p x = true → q x = true) :
    l.countP p ≤ l.countP q := by
  induction l with
  | nil => simp
  | cons a t ih =>
    have iht := ih (fun x hx => h x (List.mem_cons_of_mem _ hx))
    by_cases hp : p a = true
    · have hq := h a List.mem_cons_self hp
      simp [List.countP_cons, hp, hq]; omega
    · by_cases hq : q a = true
      · simp [List.countP_cons, hp, hq]; omega
      · simp [List.countP_cons, hp, hq]; omega

theorem countP_lt_of_witness {α} (p q : α → Bool) (l : List α) (h : ∀ x ∈ l, p x = true → q x = true)
    (a : α) (ha : a ∈ l) (hq : q a = true) (hp : p a = false) : l.countP p < l.countP q := by
  induction l with
  | nil => cases ha
  | cons b t ih =>
    have hle := countP_le_of_imp p q t (fun x hx => h x (List.mem_cons_of_mem _ hx))
    rcases List.mem_cons.mp ha with e | e
    · subst e
      simp [List.countP_cons, hp, hq]; omega
    · have := ih (fun x hx => h x (List.mem_cons_of_mem _ hx)) e
      by_cases hpb : p b = true
      · have hqb := h b List.mem_cons_self hpb
        simp [List.countP_cons, hpb, hqb]; omega
      · by_cases hqb : q b = true
        · simp [List.countP_cons, hpb, hqb]; omega
        · simp [List.countP_cons, hpb, hqb]; omega

/-- one iteration lengthens the name -/
theorem suffix_longer (name : String) (depth : Nat) : name.length < (name ++ "_" ++ toString depth).length := by
  have h1 : ("_" : String).length = 1 := by decide
  simp only [String.length_append, h1]
  omega

/-- the result of the loop is the name it started with or carries a `_<depth>` suffix -/
inductive Suffixed (depth : Nat) : String → String → Prop
  | refl (n : String) : Suffixed depth n n
  | step (n r : String) : Suffixed depth (n ++ "_" ++ toString depth) r → Suffixed depth n r

/-- **the loop terminates**: with more fuel than there are existing names at least as long as the current one,
    it returns a name that is not among the existing ones.  (Each iteration makes the name longer, so the
    existing name it just met is too short to be met again.) -/
theorem uniqueLoop_spec (existing : List String) (depth : Nat) : ∀ (fuel : Nat) (name : String),
    existing.countP (fun x => decide (name.length ≤ x.length)) < fuel →
    ∃ r, uniqueLoop existing depth fuel name = some r ∧ r ∉ existing ∧ Suffixed depth name r := by
  intro fuel
  induction fuel with
  | zero => intro name h; omega
  | succ f ih =>
    intro name h
    by_cases hc : existing.contains name = true
    · have hm : name ∈ existing := by simpa using hc
      let name' := name ++ "_" ++ toString depth
      have hlen : name.length < name'.length := suffix_longer name depth
      have hlt : existing.countP (fun x => decide (name'.length ≤ x.length)) <
          existing.countP (fun x => decide (name.length ≤ x.length)) := by
        apply countP_lt_of_witness _ _ existing _ name hm
        · simp
        · simp only [decide_eq_false_iff_not]; omega
        · intro x _ hx
          simp only [decide_eq_true_eq] at hx ⊢
          omega
      obtain ⟨r, hr, hn, hs⟩ := ih name' (by omega)
      refine ⟨r, ?_, hn, Suffixed.step name r hs⟩
      simp only [uniqueLoop, hc, if_true]
      exact hr
    · refine ⟨name, ?_, by simpa using hc, Suffixed.refl name⟩
      simp only [uniqueLoop]
      rw [if_neg hc]

theorem uniqueLoop_terminates (existing : List String) (depth : Nat) (name : String) :
    ∃ r, uniqueLoop existing depth (existing.length + 1) name = some r ∧ r ∉ existing ∧ Suffixed depth name r :=
  uniqueLoop_spec existing depth _ name (Nat.lt_succ_of_le (List.countP_le_length))

/-- with the loop, `make_unique_param_name` returns a name that is not among the existing ones -/
theorem uniqueParam_spec (h : Templates.uniqueParamLoops = true) (desired : String) (existing : List String)
    (depth : Nat) : uniqueParam desired existing depth ∉ existing ∧ Suffixed depth desired (uniqueParam desired existing depth) := by
  obtain ⟨r, hr, hn, hs⟩ := uniqueLoop_terminates existing depth desired
  simp only [uniqueParam, h, if_true, hr, Option.getD_some]
  exact ⟨hn, hs⟩

/-! ### the shape of a parameter name: it ends with `p` (`…num_in_group`) or with a digit -/

theorem getLast?_append_ne_nil {α} (l1 l2 : List α) (h : l2 ≠ []) : (l1 ++ l2).getLast? = l2.getLast? := by
  rw [List.getLast?_append]
  cases h2 : l2.getLast? with
  | none => exact absurd (List.getLast?_eq_none_iff.mp h2) h
  | some x => rfl

def TailOk (s : String) : Prop := ∃ c, s.toList.getLast? = some c ∧ (c = 'p' ∨ c.isDigit = true)

theorem tailOk_suffix (n : String) (depth : Nat) : TailOk (n ++ "_" ++ toString depth) := by
  have hne : Nat.toDigits 10 depth ≠ [] := Nat.toDigits_ne_nil
  have hl : (n ++ "_" ++ toString depth).toList = (n.toList ++ ['_']) ++ Nat.toDigits 10 depth := by
    simp [String.toList_append]
  refine ⟨(Nat.toDigits 10 depth).getLast hne, ?_, Or.inr ?_⟩
  · rw [hl, getLast?_append_ne_nil _ _ hne, List.getLast?_eq_some_getLast hne]
  · exact Nat.isDigit_of_mem_toDigits (by decide) (by decide) (List.getLast_mem hne)

theorem tailOk_of_suffixed {depth : Nat} {n r : String} (h : Suffixed depth n r) (hn : TailOk n) : TailOk r := by
  induction h with
  | refl _ => exact hn
  | step n r _ ih => exact ih (tailOk_suffix n depth)

theorem tailOk_num_in_group (pre : String) : TailOk (pre ++ "_num_in_group") := by
  refine ⟨'p', ?_, Or.inl rfl⟩
  have : (pre ++ "_num_in_group").toList = pre.toList ++ ['_', 'n', 'u', 'm', '_', 'i', 'n', '_', 'g', 'r', 'o', 'u', 'p'] := by
    simp [String.toList_append]
  rw [this, getLast?_append_ne_nil _ _ (by simp)]
  rfl

theorem tailOk_plain : TailOk "num_in_group" := ⟨'p', by decide, Or.inl rfl⟩

theorem total_not_tailOk : ¬ TailOk "total_data_size" := by
  rintro ⟨c, hc, h⟩
  have : "total_data_size".toList.getLast? = some 'e' := by decide
  rw [this] at hc
  cases hc
  rcases h with h | h
  · exact absurd h (by decide)
  · exact absurd h (by decide)

/-! ### the parameter lists -/

/-- invariant of the lists under construction -/
def ParamsOk (names : List String) : Prop := names.Nodup ∧ ∀ n ∈ names, TailOk n

theorem paramsOk_snoc {names : List String} {x : String} (h : ParamsOk names) (hx : x ∉ names) (ht : TailOk x) :
    ParamsOk (names ++ [x]) := by
  refine ⟨?_, ?_⟩
  · refine List.nodup_append.mpr ⟨h.1, List.nodup_cons.mpr ⟨List.not_mem_nil, List.nodup_nil⟩, ?_⟩
    intro a ha b hb hab
    simp only [List.mem_singleton] at hb
    subst hb; subst hab
    exact hx ha
  · intro n hn
    rcases List.mem_append.mp hn with e | e
    · exact h.2 n e
    · simp only [List.mem_singleton] at e
      exact e ▸ ht

theorem paramsOk_unique (hf : Templates.uniqueParamLoops = true) {names : List String} (h : ParamsOk names)
    (pre : String) (depth : Nat) : ParamsOk (names ++ [uniqueParam (pre ++ "_num_in_group") names depth]) := by
  obtain ⟨hn, hs⟩ := uniqueParam_spec hf (pre ++ "_num_in_group") names depth
  exact paramsOk_snoc h hn (tailOk_of_suffixed hs (tailOk_num_in_group pre))

mutual
  theorem msgGroupParams_ok (hf : Templates.uniqueParamLoops = true) (path names : List String) (g : GroupDef)
      (h : ParamsOk names) : ParamsOk (msgGroupParams path names g) := by
    match g with
    | .mk n _ _ _ _ groups _ _ =>
      simp only [msgGroupParams]
      exact msgGroupsParams_ok hf (path ++ [n]) _ groups (paramsOk_unique hf h _ _)
  theorem msgGroupsParams_ok (hf : Templates.uniqueParamLoops = true) (path names : List String) (gs : List GroupDef)
      (h : ParamsOk names) : ParamsOk (msgGroupsParams path names gs) := by
    match gs with
    | [] => simpa [msgGroupsParams] using h
    | g :: gs' =>
      simp only [msgGroupsParams]
      exact msgGroupsParams_ok hf path _ gs' (msgGroupParams_ok hf path names g h)
end

mutual
  theorem grpImplParams_ok (hf : Templates.uniqueParamLoops = true) (path names : List String) (g : GroupDef)
      (h : ParamsOk names) (hp : path.isEmpty = true → names = []) : ParamsOk (grpImplParams path names g) := by
    match g with
    | .mk _ _ _ _ _ groups _ _ =>
      simp only [grpImplParams]
      by_cases he : path.isEmpty = true
      · simp only [he, if_true]
        have : names = [] := hp he
        subst this
        exact grpImplParamsL_ok hf path _ groups
          (paramsOk_snoc h (by simp) tailOk_plain)
      · simp only [he, Bool.false_eq_true, if_false]
        exact grpImplParamsL_ok hf path _ groups (paramsOk_unique hf h _ _)
  theorem grpImplParamsL_ok (hf : Templates.uniqueParamLoops = true) (path names : List String) (gs : List GroupDef)
      (h : ParamsOk names) : ParamsOk (grpImplParamsL path names gs) := by
    match gs with
    | [] => simpa [grpImplParamsL] using h
    | g :: gs' =>
      simp only [grpImplParamsL]
      exact grpImplParamsL_ok hf path _ gs'
        (grpImplParams_ok hf (path ++ [groupName g]) names g h (fun he => by simp at he))
end

theorem paramsOk_nil : ParamsOk [] := ⟨List.nodup_nil, fun _ h => by cases h⟩

theorem nodup_with_total {names : List String} (h : ParamsOk names) (b : Bool) :
    (names ++ (if b then ["total_data_size"] else [])).Nodup := by
  cases b with
  | false => simpa using h.1
  | true =>
    simp only [if_true]
    refine List.nodup_append.mpr ⟨h.1, List.nodup_cons.mpr ⟨List.not_mem_nil, List.nodup_nil⟩, ?_⟩
    intro a ha b hb hab
    simp only [List.mem_singleton] at hb
    subst hb; subst hab
    exact total_not_tailOk (h.2 _ ha)

/-- the parameter names of `message_traits<M>::size_bytes` are pairwise distinct — for every message -/
theorem messageSizeParams_nodup (hf : Templates.uniqueParamLoops = true) (m : MessageDef) :
    (messageSizeParams m).Nodup := by
  unfold messageSizeParams
  exact nodup_with_total (msgGroupsParams_ok hf [] [] m.groups paramsOk_nil) _

/-- the parameter names of `group_traits<G>::size_bytes` are pairwise distinct — for every group -/
theorem groupSizeParams_nodup (hf : Templates.uniqueParamLoops = true) (g : GroupDef) :
    (groupSizeParams g).Nodup := by
  unfold groupSizeParams
  exact nodup_with_total (grpImplParams_ok hf [] [] g paramsOk_nil (fun _ => rfl)) _

theorem dupName_none (xs : List String) (h : xs.Nodup) : dupName xs = none := by
  induction xs with
  | nil => rfl
  | cons x xs ih =>
    have hc := List.nodup_cons.mp h
    simp [dupName, hc.1, ih hc.2]

mutual
  theorem allGroupParamLists_nodup (hf : Templates.uniqueParamLoops = true) (path : String) (g : GroupDef) :
      ∀ e ∈ allGroupParamLists path g, e.2.Nodup := by
    match g with
    | .mk n i d b fs groups ds a =>
      intro e he
      simp only [allGroupParamLists, List.mem_cons] at he
      rcases he with he | he
      · subst he; exact groupSizeParams_nodup hf _
      · exact allGroupParamListsL_nodup hf _ groups e he
  theorem allGroupParamListsL_nodup (hf : Templates.uniqueParamLoops = true) (path : String) (gs : List GroupDef) :
      ∀ e ∈ allGroupParamListsL path gs, e.2.Nodup := by
    match gs with
    | [] => intro e he; simp [allGroupParamListsL] at he
    | g :: gs' =>
      intro e he
      simp only [allGroupParamListsL, List.mem_append] at he
      rcases he with he | he
      · exact allGroupParamLists_nodup hf path g e he
      · exact allGroupParamListsL_nodup hf path gs' e he
end

theorem paramLists_nodup (hf : Templates.uniqueParamLoops = true) (s : SchemaDef) :
    ∀ e ∈ paramLists s, e.2.Nodup := by
  intro e he
  simp only [paramLists, List.mem_flatMap, List.mem_cons] at he
  obtain ⟨m, _, hm⟩ := he
  rcases hm with hm | hm
  · subst hm; exact messageSizeParams_nodup hf m
  · exact allGroupParamListsL_nodup hf _ m.groups e hm

theorem paramProblems_nil (hf : Templates.uniqueParamLoops = true) (s : SchemaDef) : paramProblems s = [] := by
  unfold paramProblems
  apply List.flatMap_eq_nil_iff.mpr
  intro e he
  have := dupName_none e.2 (paramLists_nodup hf s e he)
  obtain ⟨en, ps⟩ := e
  simp only at this ⊢
  rw [this]

/-! ### call sites -/

mutual
  /-- `get_group_size_bytes_params` only appends: one name per group of the subtree -/
  theorem msgGroupParams_append (path names : List String) (g : GroupDef) :
      ∃ added, msgGroupParams path names g = names ++ added ∧ added.length = groupCount g := by
    match g with
    | .mk n _ _ _ _ groups _ _ =>
      simp only [msgGroupParams, groupCount]
      obtain ⟨add, h1, h2⟩ := msgGroupsParams_append (path ++ [n])
        (names ++ [uniqueParam (joinPath (path ++ [n]) ++ "_num_in_group") names path.length]) groups
      refine ⟨uniqueParam (joinPath (path ++ [n]) ++ "_num_in_group") names path.length :: add, ?_, ?_⟩
      · rw [h1]; simp [List.append_assoc]
      · simp [h2]; omega
  theorem msgGroupsParams_append (path names : List String) (gs : List GroupDef) :
      ∃ added, msgGroupsParams path names gs = names ++ added ∧ added.length = groupsCount gs := by
    match gs with
    | [] => exact ⟨[], by simp [msgGroupsParams], by simp [groupsCount]⟩
    | g :: gs' =>
      simp only [msgGroupsParams, groupsCount]
      obtain ⟨a1, h1, l1⟩ := msgGroupParams_append path names g
      obtain ⟨a2, h2, l2⟩ := msgGroupsParams_append path (msgGroupParams path names g) gs'
      refine ⟨a1 ++ a2, ?_, ?_⟩
      · rw [h2, h1]; simp [List.append_assoc]
      · simp [l1, l2]
end

mutual
  theorem grpImplParams_length (path names : List String) (g : GroupDef) :
      (grpImplParams path names g).length = names.length + groupCount g := by
    match g with
    | .mk _ _ _ _ _ groups _ _ =>
      simp only [grpImplParams, groupCount]
      rw [grpImplParamsL_length]
      simp; omega
  theorem grpImplParamsL_length (path names : List String) (gs : List GroupDef) :
      (grpImplParamsL path names gs).length = names.length + groupsCount gs := by
    match gs with
    | [] => simp [grpImplParamsL, groupsCount]
    | g :: gs' =>
      simp only [grpImplParamsL, groupsCount]
      rw [grpImplParamsL_length, grpImplParams_length]
      omega
end

theorem groupSizeParams_length (g : GroupDef) :
    (groupSizeParams g).length = groupCount g + (if groupHasData g then 1 else 0) := by
  unfold groupSizeParams
  rw [List.length_append, grpImplParams_length]
  cases groupHasData g <;> simp

/-- **the arguments of a call are the parameters added for the callee**: at every call
    `group_traits<G>::size_bytes(args)` inside `message_traits<M>::size_bytes`, `args` are exactly the parameter
    names `get_group_size_bytes_params` appended for `G` (in order), followed by `0` when `G` has data below it,
    and there are as many of them as `group_traits<G>::size_bytes` has parameters -/
theorem messageCalls_spec : ∀ (gs : List GroupDef) (names : List String), ∀ c ∈ messageCalls names gs,
    ∃ before added, msgGroupParams [] before c.1 = before ++ added ∧
      c.2 = added ++ (if groupHasData c.1 then ["0"] else []) ∧
      c.2.length = (groupSizeParams c.1).length := by
  intro gs
  induction gs with
  | nil => intro names c hc; simp [messageCalls] at hc
  | cons g gs ih =>
    intro names c hc
    simp only [messageCalls, List.mem_cons] at hc
    rcases hc with hc | hc
    · subst hc
      obtain ⟨added, h1, h2⟩ := msgGroupParams_append [] names g
      refine ⟨names, added, h1, ?_, ?_⟩
      · simp only [groupArgs]
        rw [h1]
        simp
      · simp only [groupArgs]
        rw [h1, groupSizeParams_length]
        cases groupHasData g <;> simp [h2]
    · exact ih _ c hc

end Sbepp.Gen.Scope
