/-
  `parseL` inverts `flattenL` on well-formed images: walking a buffer that
  contains the image of `v` (with arbitrary bytes around it) reconstructs
  exactly `v`, for any nesting, entry counts, data lengths and wire block
  lengths.
-/
import Sbepp.Rt.Parse
import Sbepp.Lemmas.Walk

namespace Sbepp

theorem range_succ_map {α : Type} (n : Nat) (F : Nat → α) :
    (List.range (n + 1)).map F = F 0 :: (List.range n).map (fun i => F (i + 1)) := by
  rw [List.range_succ_eq_map]
  simp [List.map_map, Function.comp_def]

theorem slice_self_mid (pre mid post : List Nat) :
    slice (pre ++ mid ++ post) pre.length mid.length = mid := slice_append_mid pre mid post

theorem parseDs_flatten (bo : ByteOrder) (ds : List DataL) (dvs : List (List Nat)) (buf pre post : List Nat)
    (hc : ConfDs ds dvs) (hbuf : buf = pre ++ flattenDs bo ds dvs ++ post) :
    parseDs bo buf ds pre.length = dvs := by
  induction ds generalizing dvs pre with
  | nil => cases dvs <;> simp_all [parseDs, ConfDs]
  | cons d ds ih =>
    cases dvs with
    | nil => simp [ConfDs] at hc
    | cons p ps =>
      obtain ⟨⟨hlen, _⟩, hrest⟩ := hc
      simp only [parseDs]
      have hb1 : buf = pre ++ put bo d.lenSize p.length ++ (p ++ flattenDs bo ds ps ++ post) := by
        rw [hbuf]; simp [flattenDs, flattenD, List.append_assoc]
      have hrd : rd bo buf pre.length d.lenSize = p.length := by
        rw [hb1]; exact rd_put bo pre _ d.lenSize p.length hlen
      rw [hrd]
      have hb2 : buf = (pre ++ put bo d.lenSize p.length) ++ p ++ (flattenDs bo ds ps ++ post) := by
        rw [hbuf]; simp [flattenDs, flattenD, List.append_assoc]
      have hsl : slice buf (pre.length + d.lenSize) p.length = p := by
        have := slice_self_mid (pre ++ put bo d.lenSize p.length) p (flattenDs bo ds ps ++ post)
        simp only [List.length_append, put_length] at this
        rw [hb2]; exact this
      rw [hsl]
      have hb3 : buf = (pre ++ put bo d.lenSize p.length ++ p) ++ flattenDs bo ds ps ++ post := by
        rw [hbuf]; simp [flattenDs, flattenD, List.append_assoc]
      have := ih ps (pre ++ put bo d.lenSize p.length ++ p) hrest hb3
      simp only [List.length_append, put_length] at this
      rw [this]

mutual
  theorem parseL_flatten (bo : ByteOrder) (l : Level) (v : LVal) (wbl : Nat) (buf pre post : List Nat)
      (hc : ConfL bo l v wbl) (hbuf : buf = pre ++ flattenL bo l v ++ post) :
      parseL bo buf l pre.length wbl = v := by
    match l, v with
    | .mk bl lv gs ds, .mk block gvs dvs =>
      obtain ⟨hblk, _, hgs, hds⟩ := hc
      simp only [parseL]
      have hb0 : buf = pre ++ block ++ (flattenGs bo gs gvs ++ flattenDs bo ds dvs ++ post) := by
        rw [hbuf]; simp [flattenL, List.append_assoc]
      have h1 : slice buf pre.length wbl = block := by
        rw [hb0, ← hblk]; exact slice_self_mid pre block _
      have hb1 : buf = (pre ++ block) ++ flattenGs bo gs gvs ++ (flattenDs bo ds dvs ++ post) := by
        rw [hbuf]; simp [flattenL, List.append_assoc]
      have h2 := parseGs_flatten bo gs gvs buf (pre ++ block) _ hgs hb1
      have h3 := endGs_spec bo gs gvs buf (pre ++ block) _ hgs hb1
      simp only [List.length_append, hblk] at h2 h3
      have hb2 : buf = (pre ++ block ++ flattenGs bo gs gvs) ++ flattenDs bo ds dvs ++ post := by
        rw [hbuf]; simp [flattenL, List.append_assoc]
      have h4 := parseDs_flatten bo ds dvs buf (pre ++ block ++ flattenGs bo gs gvs) post hds hb2
      simp only [List.length_append, hblk] at h4
      rw [h1, h2, h3, h4]
  theorem parseGs_flatten (bo : ByteOrder) (gs : List Group) (gvs : List GVal) (buf pre post : List Nat)
      (hc : ConfGs bo gs gvs) (hbuf : buf = pre ++ flattenGs bo gs gvs ++ post) :
      parseGs bo buf gs pre.length = gvs := by
    match gs, gvs with
    | [], [] => simp [parseGs]
    | [], _ :: _ => simp [ConfGs] at hc
    | _ :: _, [] => simp [ConfGs] at hc
    | g :: gs, v :: vs =>
      obtain ⟨hg, hrest⟩ := hc
      simp only [parseGs]
      have hb1 : buf = pre ++ flattenG bo g v ++ (flattenGs bo gs vs ++ post) := by
        rw [hbuf]; simp [flattenGs, List.append_assoc]
      rw [parseG_flatten bo g v buf pre _ hg hb1, endG_spec bo g v buf pre _ hg hb1]
      have hb2 : buf = (pre ++ flattenG bo g v) ++ flattenGs bo gs vs ++ post := by
        rw [hbuf]; simp [flattenGs, List.append_assoc]
      have := parseGs_flatten bo gs vs buf (pre ++ flattenG bo g v) post hrest hb2
      simp only [List.length_append] at this
      rw [this]
  theorem parseG_flatten (bo : ByteOrder) (g : Group) (v : GVal) (buf pre post : List Nat)
      (hc : ConfG bo g v) (hbuf : buf = pre ++ flattenG bo g v ++ post) :
      parseG bo buf g pre.length = v := by
    match g, v with
    | .mk dim l, .mk hdr es =>
      obtain ⟨hlen, hbl, hnum, hn, hes⟩ := hc
      simp only [parseG]
      have hb1 : buf = pre ++ hdr ++ (flattenEs bo l es ++ post) := by
        rw [hbuf]; simp [flattenG, List.append_assoc]
      have hrn : rd bo buf (pre.length + dim.numOff) dim.numSize = es.length := by
        rw [hb1, rd_mid bo pre hdr _ dim.numOff dim.numSize (by omega), hn]
      have hrb : rd bo buf (pre.length + dim.blOff) dim.blSize = get bo (slice hdr dim.blOff dim.blSize) := by
        rw [hb1, rd_mid bo pre hdr _ dim.blOff dim.blSize (by omega)]
      have hh : slice buf pre.length dim.size = hdr := by
        rw [hb1, ← hlen]; exact slice_self_mid pre hdr _
      rw [hrn, hrb, hh]
      congr 1
      have hb2 : buf = (pre ++ hdr) ++ flattenEs bo l es ++ post := by
        rw [hbuf]; simp [flattenG, List.append_assoc]
      have := parseEs_flatten bo l es _ buf (pre ++ hdr) post hes hb2
      simp only [List.length_append, hlen] at this
      exact this
  theorem parseEs_flatten (bo : ByteOrder) (l : Level) (es : List LVal) (wbl : Nat) (buf pre post : List Nat)
      (hc : ConfEs bo l es wbl) (hbuf : buf = pre ++ flattenEs bo l es ++ post) :
      (List.range es.length).map (fun i =>
          parseL bo buf l (iter (fun q => endL bo buf l q wbl) i pre.length) wbl) = es := by
    match es with
    | [] => simp
    | e :: es =>
      obtain ⟨he, hrest⟩ := hc
      simp only [List.length_cons]
      rw [range_succ_map]
      have hb1 : buf = pre ++ flattenL bo l e ++ (flattenEs bo l es ++ post) := by
        rw [hbuf]; simp [flattenEs, List.append_assoc]
      simp only [iter]
      rw [parseL_flatten bo l e wbl buf pre _ he hb1, endL_spec bo l e wbl buf pre _ he hb1]
      congr 1
      have hb2 : buf = (pre ++ flattenL bo l e) ++ flattenEs bo l es ++ post := by
        rw [hbuf]; simp [flattenEs, List.append_assoc]
      have := parseEs_flatten bo l es wbl buf (pre ++ flattenL bo l e) post hrest hb2
      simp only [List.length_append] at this
      exact this
end

end Sbepp
