/-
  Tie between the definitions generated from the C++ text
  (`Sbepp.Extracted.DynArray`, regenerated on every run by
  `extract/methods_dynarray.py`) and the hand model `Sbepp.Rt.DynArray` that the
  C13 theorems are about: one `*_tie` theorem per member function.
-/
import Sbepp.Extracted.DynArray
import Sbepp.Lemmas.DynArray

set_option linter.unusedSimpArgs false

namespace Sbepp.Tie.DynArray
open Sbepp.Rt.DynArray

/-! ### monad laws of `M` -/

theorem andThen_pure {α} (r : Res α) : r.andThen (fun a s => Res.ok a s) = r := by
  cases r <;> rfl

theorem andThen_assoc {α β γ} (r : Res α) (f : α → List Nat → Res β) (g : β → List Nat → Res γ) :
    (r.andThen f).andThen g = r.andThen (fun a s => (f a s).andThen g) := by
  cases r <;> rfl

instance : LawfulMonad M := LawfulMonad.mk'
  (id_map := fun x => by funext s; exact andThen_pure (x s))
  (pure_bind := fun _ _ => rfl)
  (bind_assoc := fun x f g => by funext s; exact andThen_assoc (x s) _ _)


theorem bind_ite {α β} (c : Prop) [Decidable c] (x y : M α) (f : α → M β) :
    (if c then x else y) >>= f = if c then x >>= f else y >>= f := by
  split <;> rfl

theorem assert_true_eq : assert true = (pure () : M Unit) := rfl

/-! ### accessors -/

/-- `detail::get_value<size_type, size_type, E>(view, offset)`: the hand model has it inlined
    (at offset 0) in `size` -/
theorem get_value_tie (P : Params) (offset : Nat) :
    Extracted.DynArray.get_value P offset = (do
      sizeCheck P offset P.w
      let bs ← readBytes offset P.w
      pure (getN P.be bs)) := by
  simp only [Extracted.DynArray.get_value, getPrimitive, bind_assoc, pure_bind, bind_pure, Nat.zero_add]

theorem sbe_size_tie : Extracted.DynArray.sbe_size = Rt.DynArray.size := by
  funext P
  simp only [Extracted.DynArray.sbe_size, get_value_tie, Rt.DynArray.size, bind_pure]

theorem size_tie : Extracted.DynArray.size = Rt.DynArray.size := by
  funext P
  simp only [Extracted.DynArray.size, sbe_size_tie, bind_pure]

theorem data_unchecked_tie : Extracted.DynArray.data_unchecked = Rt.DynArray.dataUnchecked := by
  funext P
  simp only [Extracted.DynArray.data_unchecked, Rt.DynArray.dataUnchecked, Nat.zero_add]

theorem data_checked_tie : Extracted.DynArray.data_checked = Rt.DynArray.dataChecked := by
  funext P
  simp only [Extracted.DynArray.data_checked, Rt.DynArray.dataChecked, size_tie, data_unchecked_tie,
    bind_pure]

theorem data_tie : Extracted.DynArray.data = Rt.DynArray.dataChecked := by
  funext P
  simp only [Extracted.DynArray.data, data_checked_tie, bind_pure]

theorem begin_tie : Extracted.DynArray.begin_ = Rt.DynArray.begin_ := by
  funext P
  simp only [Extracted.DynArray.begin_, Rt.DynArray.begin_, data_checked_tie, bind_pure]

theorem end_tie : Extracted.DynArray.end_ = Rt.DynArray.end_ := by
  funext P
  simp only [Extracted.DynArray.end_, Rt.DynArray.end_, begin_tie, size_tie]

/-- `empty()` has no counterpart of its own in the hand model: it is `size() == 0` -/
theorem empty_tie (P : Params) :
    Extracted.DynArray.empty P = (do let n ← Rt.DynArray.size P; pure (n == 0)) := by
  simp only [Extracted.DynArray.empty, size_tie]

theorem operator_index_tie : Extracted.DynArray.operator_index = Rt.DynArray.elemRef := by
  funext P pos
  simp only [Extracted.DynArray.operator_index, Rt.DynArray.elemRef, size_tie, data_tie]

/-- `front()` is `SBEPP_ASSERT(!empty()); return *data();` -/
theorem front_tie (P : Params) :
    Extracted.DynArray.front P = (do
      let n ← Rt.DynArray.size P
      assert (n != 0)
      Rt.DynArray.dataChecked P) := by
  simp only [Extracted.DynArray.front, empty_tie, data_tie, bind_assoc, pure_bind, bind_pure, bne]

theorem size_bytes_tie : Extracted.DynArray.operator_call_size_bytes = Rt.DynArray.sizeBytes := by
  funext P
  simp only [Extracted.DynArray.operator_call_size_bytes, Rt.DynArray.sizeBytes, size_tie]


/-! ### modifiers -/

theorem resize_n_di_tie : Extracted.DynArray.resize_n_di = Rt.DynArray.resizeDI := by
  funext P count
  simp only [Extracted.DynArray.resize_n_di, Rt.DynArray.resizeDI, setPrimitive]

theorem clear_tie : Extracted.DynArray.clear = Rt.DynArray.clear := by
  funext P
  simp only [Extracted.DynArray.clear, Rt.DynArray.clear, resize_n_di_tie]

/-- the counting loop of `resize` is the hand model's `fillLoop` -/
theorem countUp_fill (P : Params) (value : Nat) (i k : Nat) :
    countUp (fun i => do
      let a ← Rt.DynArray.elemRef P i
      writeBytes a [value]) i k = fillLoop P value i k := by
  induction k generalizing i with
  | zero => rfl
  | succ k ih => simp only [countUp, fillLoop, ih, bind_assoc]

theorem resize_n_v_tie : Extracted.DynArray.resize_n_v = Rt.DynArray.resize := by
  funext P count value
  simp only [Extracted.DynArray.resize_n_v, Rt.DynArray.resize, size_tie, resize_n_di_tie,
    operator_index_tie, decide_eq_true_eq]
  congr 1; funext old_size
  congr 1; funext _
  split
  · next h => simp only [forNe, Nat.le_of_lt h, if_true, countUp_fill]
  · rfl

theorem resize_n_tie (P : Params) (count : Nat) :
    Extracted.DynArray.resize_n P count = Rt.DynArray.resize P count 0 := by
  rw [← resize_n_v_tie]
  rfl

theorem push_back_tie : Extracted.DynArray.push_back = Rt.DynArray.pushBack := by
  funext P value
  simp only [Extracted.DynArray.push_back, Rt.DynArray.pushBack, size_tie, resize_n_di_tie,
    operator_index_tie]

theorem pop_back_tie : Extracted.DynArray.pop_back = Rt.DynArray.popBack := by
  funext P
  simp only [Extracted.DynArray.pop_back, Rt.DynArray.popBack, empty_tie, size_tie, resize_n_di_tie,
    bind_assoc, pure_bind, bne]


/-- `SBEPP_ASSERT(pos >= begin() && pos <= end())` as rendered by the translator -/
theorem assertPos_shape (P : Params) (pos : Nat) :
    (do
      let b ← Rt.DynArray.begin_ P
      let c ← (if pos ≥ b then do
          let e ← Rt.DynArray.end_ P
          pure (decide (pos ≤ e))
        else pure false)
      assert c) = assertPos P pos := by
  simp only [assertPos, bind_ite, bind_assoc, pure_bind]

theorem assertPosStrict_shape (P : Params) (pos : Nat) :
    (do
      let b ← Rt.DynArray.begin_ P
      let c ← (if pos ≥ b then do
          let e ← Rt.DynArray.end_ P
          pure (decide (pos < e))
        else pure false)
      assert c) = assertPosStrict P pos := by
  simp only [assertPosStrict, bind_ite, bind_assoc, pure_bind]

theorem erase_it_tie : Extracted.DynArray.erase_it = Rt.DynArray.erase := by
  funext P pos
  simp only [Extracted.DynArray.erase_it, Rt.DynArray.erase, ← assertPosStrict_shape, begin_tie, end_tie,
    size_tie, resize_n_di_tie, decide_eq_true_eq, bind_assoc, pure_bind, bind_ite]

theorem erase_it_it_tie : Extracted.DynArray.erase_it_it = Rt.DynArray.eraseRange := by
  funext P first last
  simp only [Extracted.DynArray.erase_it_it, Rt.DynArray.eraseRange, begin_tie, end_tie,
    size_tie, resize_n_di_tie, decide_eq_true_eq, bind_assoc, pure_bind, bind_ite]

theorem insert_it_v_tie : Extracted.DynArray.insert_it_v = Rt.DynArray.insert := by
  funext P pos value
  simp only [Extracted.DynArray.insert_it_v, Rt.DynArray.insert, ← assertPos_shape, begin_tie, end_tie,
    size_tie, resize_n_di_tie, decide_eq_true_eq, bind_assoc, pure_bind, bind_ite]

theorem insert_it_n_v_tie : Extracted.DynArray.insert_it_n_v = Rt.DynArray.insertN := by
  funext P pos count value
  simp only [Extracted.DynArray.insert_it_n_v, Rt.DynArray.insertN, ← assertPos_shape, begin_tie, end_tie,
    size_tie, resize_n_di_tie, stdFillN, decide_eq_true_eq, bind_assoc, pure_bind, bind_ite]


/-- the input-iterator loop of `insert_impl` is the hand model's `insertLoop` -/
theorem forExt_insert (P : Params) (xs : List Nat) (out : Nat) :
    forExt xs out (fun out x => do
      let _ ← Rt.DynArray.insert P out x
      pure ()) = (do insertLoop P out xs; pure (out + xs.length)) := by
  induction xs generalizing out with
  | nil => rfl
  | cons x xs ih =>
    simp only [forExt, insertLoop, ih, bind_assoc, pure_bind, List.length_cons]
    congr 1; funext _; congr 1; funext _
    congr 1; omega

/-- `insert_impl(pos, first, last, std::input_iterator_tag)`: the hand model has the loop
    (`insertLoop`) and returns `pos` in `insertRange` -/
theorem insert_impl_input_tie (P : Params) (pos : Nat) (xs : List Nat) :
    Extracted.DynArray.insert_impl_input P pos xs = (do insertLoop P pos xs; pure pos) := by
  simp only [Extracted.DynArray.insert_impl_input, insert_it_v_tie, forExt_insert, bind_assoc, pure_bind]

theorem insert_impl_forward_tie : Extracted.DynArray.insert_impl_forward = Rt.DynArray.insertFwd := by
  funext P pos xs
  simp only [Extracted.DynArray.insert_impl_forward, Rt.DynArray.insertFwd, end_tie, size_tie,
    resize_n_di_tie, stdCopyIn, bind_assoc, pure_bind]

theorem insert_it_in_in_tie : Extracted.DynArray.insert_it_in_in = Rt.DynArray.insertRange := by
  funext P input pos xs
  simp only [Extracted.DynArray.insert_it_in_in, Rt.DynArray.insertRange, ← assertPos_shape, begin_tie,
    end_tie, insert_impl_input_tie, insert_impl_forward_tie, decide_eq_true_eq, bind_assoc, pure_bind,
    bind_ite, bind_pure]

theorem insert_it_il_tie : Extracted.DynArray.insert_it_il = Rt.DynArray.insertList := by
  funext P pos xs
  simp only [Extracted.DynArray.insert_it_il, Rt.DynArray.insertList, insert_it_in_in_tie, bind_pure]

/-! ### assignment -/

theorem assign_n_v_tie : Extracted.DynArray.assign_n_v = Rt.DynArray.assignN := by
  funext P count value
  simp only [Extracted.DynArray.assign_n_v, Rt.DynArray.assignN, resize_n_di_tie, begin_tie, stdFillN]

theorem assign_in_in_tie : Extracted.DynArray.assign_in_in = Rt.DynArray.assignRange := by
  funext P xs
  simp only [Extracted.DynArray.assign_in_in, Rt.DynArray.assignRange, data_unchecked_tie,
    resize_n_di_tie, stdCopyIn, bind_assoc, pure_bind]

theorem assign_il_tie : Extracted.DynArray.assign_il = Rt.DynArray.assignList := by
  funext P xs
  simp only [Extracted.DynArray.assign_il, Rt.DynArray.assignList, assign_in_in_tie]

theorem take_takeWhile_length (p : Nat → Bool) (s : List Nat) :
    s.take (s.takeWhile p).length = s.takeWhile p := by
  induction s with
  | nil => rfl
  | cons x xs ih =>
    simp only [List.takeWhile_cons]
    split
    · simp only [List.length_cons, List.take_succ_cons, ih]
    · rfl

theorem assign_string_tie : Extracted.DynArray.assign_string = Rt.DynArray.assignString := by
  funext P s
  simp only [Extracted.DynArray.assign_string, Rt.DynArray.assignString, cstrNonNull, assert_true_eq,
    stringLength, stdCopyN, Sbepp.Spec.Vec.cstr, take_takeWhile_length, resize_n_di_tie, begin_tie,
    pure_bind]

theorem assign_range_tie : Extracted.DynArray.assign_range = Rt.DynArray.assignRangeR := by
  funext P xs
  simp only [Extracted.DynArray.assign_range, Rt.DynArray.assignRangeR, data_unchecked_tie,
    resize_n_di_tie, stdCopyIn, bind_assoc, pure_bind]

/-- the `#if SBEPP_HAS_RANGES` branch (`std::ranges::copy(r, begin).out`) -/
theorem assign_range_SBEPP_HAS_RANGES_tie :
    Extracted.DynArray.assign_range_SBEPP_HAS_RANGES = Rt.DynArray.assignRangeR := by
  funext P xs
  simp only [Extracted.DynArray.assign_range_SBEPP_HAS_RANGES, Rt.DynArray.assignRangeR,
    data_unchecked_tie, resize_n_di_tie, stdCopyIn, bind_assoc, pure_bind]


/-! ### the common input language, run on the extracted definitions -/

open Sbepp.Spec.Vec (Op) in
/-- `Rt.DynArray.step` with every member function replaced by its extracted definition -/
def stepE (P : Params) : Op → M (Option Nat)
  | .pushBack v => retVoid (Extracted.DynArray.push_back P v)
  | .popBack => retVoid (Extracted.DynArray.pop_back P)
  | .clear => retVoid (Extracted.DynArray.clear P)
  | .erase i => retIdx P (Extracted.DynArray.erase_it P (P.w + i))
  | .eraseRange i j => retIdx P (Extracted.DynArray.erase_it_it P (P.w + i) (P.w + j))
  | .insert i v => retIdx P (Extracted.DynArray.insert_it_v P (P.w + i) v)
  | .insertN i n v => retIdx P (Extracted.DynArray.insert_it_n_v P (P.w + i) n v)
  | .insertRange i xs => retIdx P (Extracted.DynArray.insert_it_in_in P false (P.w + i) xs)
  | .insertInput i xs => retIdx P (Extracted.DynArray.insert_it_in_in P true (P.w + i) xs)
  | .insertList i xs => retIdx P (Extracted.DynArray.insert_it_il P (P.w + i) xs)
  | .resize n => retVoid (Extracted.DynArray.resize_n P n)
  | .resizeV n v => retVoid (Extracted.DynArray.resize_n_v P n v)
  | .resizeDI n => retVoid (Extracted.DynArray.resize_n_di P n)
  | .assignN n v => retVoid (Extracted.DynArray.assign_n_v P n v)
  | .assignRange xs => retVoid (Extracted.DynArray.assign_in_in P xs)
  | .assignList xs => retVoid (Extracted.DynArray.assign_il P xs)
  | .assignString s => retVoid (Extracted.DynArray.assign_string P s)
  | .assignRangeR xs => retVoid (Extracted.DynArray.assign_range P xs)

open Sbepp.Spec.Vec (Op) in
def runOpsE (P : Params) : List Op → M (List (Option Nat))
  | [] => pure []
  | op :: rest => do
    let r ← stepE P op
    let rs ← runOpsE P rest
    pure (r :: rs)

theorem stepE_tie : stepE = step := by
  funext P op
  cases op <;>
    simp only [stepE, step, push_back_tie, pop_back_tie, clear_tie, erase_it_tie, erase_it_it_tie,
      insert_it_v_tie, insert_it_n_v_tie, insert_it_in_in_tie, insert_it_il_tie, resize_n_tie,
      resize_n_v_tie, resize_n_di_tie, assign_n_v_tie, assign_in_in_tie, assign_il_tie,
      assign_string_tie, assign_range_tie]

theorem runOpsE_tie : runOpsE = runOps := by
  funext P ops
  induction ops with
  | nil => rfl
  | cons op rest ih => simp only [runOpsE, runOps, stepE_tie, ih]

end Sbepp.Tie.DynArray
