/-
  C08 — soundness of the diagnostics, continued: parser and C++ validator phases, and the
  assembled `check_error_sound`.
-/
import Sbepp.Lemmas.RulesSound

namespace Sbepp.Schema.Rules
set_option linter.unusedSectionVars false
set_option linter.unusedSimpArgs false
open Sbepp Sbepp.Schema
open Sbepp.Spec.Rules

/-! ### parser -/

theorem pVersions_err (a : Attrs) (p : Path) (d : Diag) (h : pVersions a p = .error d) :
    attrsNumeric a = false ∧ d.viol = (.attrNotNumeric, p) := by
  have hne : attrsNumeric a = false := by
    cases hx : attrsNumeric a with
    | false => rfl
    | true => rw [(pVersions_ok a p ()).mpr hx] at h; cases h
  refine ⟨hne, ?_⟩
  unfold pVersions at h
  rw [need_bind_err] at h
  rcases h with ⟨_, rfl⟩ | ⟨_, h⟩
  · rfl
  · rw [need_err] at h
    obtain ⟨_, rfl⟩ := h
    rfl

theorem pVersions_bind_err {β} (a : Attrs) (p : Path) (f : Unit → R β) (d : Diag) (h : (pVersions a p >>= f) = .error d) :
    (attrsNumeric a = false ∧ d.viol = (.attrNotNumeric, p)) ∨ (attrsNumeric a = true ∧ f () = .error d) := by
  rcases (bind_err _ _ d).mp h with h | ⟨u, hu, h⟩
  · exact Or.inl (pVersions_err a p d h)
  · exact Or.inr ⟨(pVersions_ok a p u).mp hu, by cases u; exact h⟩

theorem mem_repeats_map_cons {α} (key : α → String) (seen : List String) (x : α) (xs : List α) (g : α → Viol) (w : Viol)
    (hns : seen.contains (key x) = false) (h : w ∈ (repeats key (key x :: seen) xs).map g) :
    w ∈ (repeats key seen (x :: xs)).map g := by
  have hm : key x ∉ seen := by simpa using hns
  simpa [repeats, hm] using h

theorem mem_repeats_map_head {α} (key : α → String) (seen : List String) (x : α) (xs : List α) (g : α → Viol)
    (hs : seen.contains (key x) = true) : g x ∈ (repeats key seen (x :: xs)).map g := by
  have hm : key x ∈ seen := by simpa using hs
  simp [repeats, hm]

theorem pValidValues_err (p : Path) : ∀ (vs : List ValidValue) (seen : List String) (d : Diag),
    pValidValues p seen vs = .error d →
      (∃ v ∈ vs, d.viol ∈ vvAttrViols p v) ∨
      d.viol ∈ (repeats ValidValue.name seen vs).map (fun x => (DiagClass.duplicateValidValue, p ++ [x.name])) := by
  intro vs
  induction vs with
  | nil => intro seen d h; simp [pValidValues] at h
  | cons v rest ih =>
    intro seen d h
    simp only [pValidValues] at h
    rw [need_bind_err] at h
    rcases h with ⟨h1, rfl⟩ | ⟨h1, h⟩
    · simp only [Bool.not_eq_eq_eq_not, Bool.not_false] at h1
      exact Or.inl ⟨v, by simp, by simp [vvAttrViols, h1, Diag.viol]⟩
    · simp only [Bool.not_eq_eq_eq_not, Bool.not_true] at h1
      rcases pVersions_bind_err _ _ _ d h with ⟨h2, hv⟩ | ⟨h2, h⟩
      · exact Or.inl ⟨v, by simp, by simp [vvAttrViols, h1, h2, hv]⟩
      · rw [need_bind_err] at h
        rcases h with ⟨h3, rfl⟩ | ⟨h3, h⟩
        · simp only [Bool.not_eq_eq_eq_not, Bool.not_false] at h3
          exact Or.inl ⟨v, by simp, by simp [vvAttrViols, h1, h2, h3, Diag.viol]⟩
        · rw [need_bind_err] at h
          rcases h with ⟨h4, rfl⟩ | ⟨h4, h⟩
          · simp only [Bool.not_eq_eq_eq_not, Bool.not_false] at h4
            exact Or.inr (mem_repeats_map_head ValidValue.name seen v rest _ h4)
          · simp only [Bool.not_eq_eq_eq_not, Bool.not_true] at h4
            rcases ih _ d h with ⟨v', hv', hh⟩ | hh
            · exact Or.inl ⟨v', by simp [hv'], hh⟩
            · exact Or.inr (mem_repeats_map_cons ValidValue.name seen v rest _ _ h4 hh)

theorem pChoices_err (p : Path) : ∀ (cs : List Choice) (seen : List String) (d : Diag),
    pChoices p seen cs = .error d →
      (∃ c ∈ cs, d.viol ∈ choiceAttrViols p c) ∨
      d.viol ∈ (repeats Choice.name seen cs).map (fun x => (DiagClass.duplicateChoice, p ++ [x.name])) := by
  intro cs
  induction cs with
  | nil => intro seen d h; simp [pChoices] at h
  | cons c rest ih =>
    intro seen d h
    simp only [pChoices] at h
    rw [need_bind_err] at h
    rcases h with ⟨h1, rfl⟩ | ⟨h1, h⟩
    · simp only [Bool.not_eq_eq_eq_not, Bool.not_false] at h1
      exact Or.inl ⟨c, by simp, by simp [choiceAttrViols, h1, Diag.viol]⟩
    · simp only [Bool.not_eq_eq_eq_not, Bool.not_true] at h1
      rcases pVersions_bind_err _ _ _ d h with ⟨h2, hv⟩ | ⟨h2, h⟩
      · exact Or.inl ⟨c, by simp, by simp [choiceAttrViols, h1, h2, hv]⟩
      · rw [need_bind_err] at h
        rcases h with ⟨h3, rfl⟩ | ⟨h3, h⟩
        · have h3' : c.index > u8Max := by
            by_cases hle : c.index ≤ u8Max
            · rw [(fitsBits8 c.index).mpr hle] at h3; cases h3
            · omega
          exact Or.inl ⟨c, by simp, by simp [choiceAttrViols, h1, h2, h3', Diag.viol]⟩
        · rw [need_bind_err] at h
          rcases h with ⟨h4, rfl⟩ | ⟨h4, h⟩
          · simp only [Bool.not_eq_eq_eq_not, Bool.not_false] at h4
            exact Or.inr (mem_repeats_map_head Choice.name seen c rest _ h4)
          · simp only [Bool.not_eq_eq_eq_not, Bool.not_true] at h4
            rcases ih _ d h with ⟨c', hc', hh⟩ | hh
            · exact Or.inl ⟨c', by simp [hc'], hh⟩
            · exact Or.inr (mem_repeats_map_cons Choice.name seen c rest _ _ h4 hh)


/-- `w` is a parser-level rule of the encoding `x` (at `q`) that `x` breaks -/
def ParseBad (q : Path) (x : Elem) (w : Viol) : Prop := w ∈ attrViolsElem q x ∨ w ∈ dupViolsElem q x

theorem attr_name (p : Path) (e : Elem) (h : e.name.isEmpty = true) : (DiagClass.attrEmpty, p) ∈ attrViolsElem p e := by
  simp [attrViolsElem, h]

theorem attr_num (p : Path) (e : Elem) (h : (optU64 (elemOffset e) && attrsNumeric (elemAttrs e)) = false) :
    (DiagClass.attrNotNumeric, p) ∈ attrViolsElem p e := by
  simp only [attrViolsElem, List.mem_append]
  exact Or.inl (Or.inr (by simp [h]))

theorem optFits64_false (o : Option Nat) (h : optFits o 64 = false) : optU64 o = false := by
  cases hx : optU64 o with
  | false => rfl
  | true => rw [(optFits64 o).mpr hx] at h; cases h

mutual
  theorem pElem_err : ∀ (e : Elem) (p : Path) (d : Diag), pElem p e = .error d →
      ∃ q x, (q, x) ∈ subElems p e ∧ ParseBad q x d.viol
    | .type t, p, d, h => by
      refine ⟨p, _, subElems_self _ _, Or.inl ?_⟩
      simp only [pElem, pType] at h
      rw [need_bind_err] at h
      rcases h with ⟨h1, rfl⟩ | ⟨h1, h⟩
      · exact attr_name p _ (by simpa [Elem.name] using h1)
      · rw [need_bind_err] at h
        rcases h with ⟨h2, rfl⟩ | ⟨h2, h⟩
        · have : t.length > u64Max := by
            by_cases hle : t.length ≤ u64Max
            · rw [(fitsBits64 _).mpr hle] at h2; cases h2
            · omega
          simp only [attrViolsElem, List.mem_append]
          exact Or.inr (by simp [this, Diag.viol])
        · rw [need_bind_err] at h
          rcases h with ⟨h3, rfl⟩ | ⟨h3, h⟩
          · exact attr_num p _ (by simp [elemOffset, optFits64_false _ h3])
          · rw [need_bind_err] at h
            rcases h with ⟨h4, rfl⟩ | ⟨h4, h⟩
            · simp only [Bool.not_eq_eq_eq_not, Bool.not_false] at h4
              simp only [attrViolsElem, List.mem_append]
              exact Or.inr (by simp [h4, Diag.viol])
            · obtain ⟨h5, hv⟩ := pVersions_err _ _ d h
              rw [hv]
              exact attr_num p _ (by simp [elemAttrs, h5])
    | .enum n enc o vs a, p, d, h => by
      simp only [pElem] at h
      rw [need_bind_err] at h
      rcases h with ⟨h1, rfl⟩ | ⟨h1, h⟩
      · exact ⟨p, _, subElems_self _ _, Or.inl (attr_name p _ (by simpa [Elem.name] using h1))⟩
      · rw [need_bind_err] at h
        rcases h with ⟨h2, rfl⟩ | ⟨h2, h⟩
        · simp only [Bool.not_eq_eq_eq_not, Bool.not_false] at h2
          refine ⟨p, _, subElems_self _ _, Or.inl ?_⟩
          simp only [attrViolsElem, List.mem_append]
          exact Or.inr (Or.inl (by simp [h2, Diag.viol]))
        · rcases pVersions_bind_err _ _ _ d h with ⟨h3, hv⟩ | ⟨h3, h⟩
          · rw [hv]
            exact ⟨p, _, subElems_self _ _, Or.inl (attr_num p _ (by simp [elemAttrs, h3]))⟩
          · rw [need_bind_err] at h
            rcases h with ⟨h4, rfl⟩ | ⟨h4, h⟩
            · exact ⟨p, _, subElems_self _ _, Or.inl (attr_num p _ (by simp [elemOffset, optFits64_false _ h4]))⟩
            · rcases pValidValues_err p vs [] d h with ⟨v, hv, hh⟩ | hh
              · refine ⟨p, _, subElems_self _ _, Or.inl ?_⟩
                simp only [attrViolsElem, List.mem_append, List.mem_flatMap]
                exact Or.inr (Or.inr ⟨v, hv, hh⟩)
              · exact ⟨p, _, subElems_self _ _, Or.inr (by simpa [dupViolsElem] using hh)⟩
    | .set n enc o cs a, p, d, h => by
      simp only [pElem] at h
      rw [need_bind_err] at h
      rcases h with ⟨h1, rfl⟩ | ⟨h1, h⟩
      · exact ⟨p, _, subElems_self _ _, Or.inl (attr_name p _ (by simpa [Elem.name] using h1))⟩
      · rw [need_bind_err] at h
        rcases h with ⟨h2, rfl⟩ | ⟨h2, h⟩
        · simp only [Bool.not_eq_eq_eq_not, Bool.not_false] at h2
          refine ⟨p, _, subElems_self _ _, Or.inl ?_⟩
          simp only [attrViolsElem, List.mem_append]
          exact Or.inr (Or.inl (by simp [h2, Diag.viol]))
        · rcases pVersions_bind_err _ _ _ d h with ⟨h3, hv⟩ | ⟨h3, h⟩
          · rw [hv]
            exact ⟨p, _, subElems_self _ _, Or.inl (attr_num p _ (by simp [elemAttrs, h3]))⟩
          · rw [need_bind_err] at h
            rcases h with ⟨h4, rfl⟩ | ⟨h4, h⟩
            · exact ⟨p, _, subElems_self _ _, Or.inl (attr_num p _ (by simp [elemOffset, optFits64_false _ h4]))⟩
            · rcases pChoices_err p cs [] d h with ⟨c, hc, hh⟩ | hh
              · refine ⟨p, _, subElems_self _ _, Or.inl ?_⟩
                simp only [attrViolsElem, List.mem_append, List.mem_flatMap]
                exact Or.inr (Or.inr ⟨c, hc, hh⟩)
              · exact ⟨p, _, subElems_self _ _, Or.inr (by simpa [dupViolsElem] using hh)⟩
    | .ref n ty o a, p, d, h => by
      refine ⟨p, _, subElems_self _ _, Or.inl ?_⟩
      simp only [pElem] at h
      rw [need_bind_err] at h
      rcases h with ⟨h1, rfl⟩ | ⟨h1, h⟩
      · exact attr_name p _ (by simpa [Elem.name] using h1)
      · rw [need_bind_err] at h
        rcases h with ⟨h2, rfl⟩ | ⟨h2, h⟩
        · simp only [Bool.not_eq_eq_eq_not, Bool.not_false] at h2
          simp only [attrViolsElem, List.mem_append]
          exact Or.inr (by simp [h2, Diag.viol])
        · rw [need_bind_err] at h
          rcases h with ⟨h3, rfl⟩ | ⟨h3, h⟩
          · exact attr_num p _ (by simp [elemOffset, optFits64_false _ h3])
          · obtain ⟨h5, hv⟩ := pVersions_err _ _ d h
            rw [hv]
            exact attr_num p _ (by simp [elemAttrs, h5])
    | .composite n o elems a, p, d, h => by
      simp only [pElem] at h
      rw [need_bind_err] at h
      rcases h with ⟨h1, rfl⟩ | ⟨h1, h⟩
      · exact ⟨p, _, subElems_self _ _, Or.inl (attr_name p _ (by simpa [Elem.name] using h1))⟩
      · rw [need_bind_err] at h
        rcases h with ⟨h3, rfl⟩ | ⟨h3, h⟩
        · exact ⟨p, _, subElems_self _ _, Or.inl (attr_num p _ (by simp [elemOffset, optFits64_false _ h3]))⟩
        · rcases pVersions_bind_err _ _ _ d h with ⟨h4, hv⟩ | ⟨h4, h⟩
          · rw [hv]
            exact ⟨p, _, subElems_self _ _, Or.inl (attr_num p _ (by simp [elemAttrs, h4]))⟩
          · rcases pElems_err elems p [] d h with ⟨q, x, hm, hb⟩ | hh
            · exact ⟨q, x, by simp [subElems, hm], hb⟩
            · exact ⟨p, _, subElems_self _ _, Or.inr (by simpa [dupViolsElem] using hh)⟩
  theorem pElems_err : ∀ (elems : List Elem) (p : Path) (seen : List String) (d : Diag), pElems p seen elems = .error d →
      (∃ q x, (q, x) ∈ subElemsL p elems ∧ ParseBad q x d.viol) ∨
      d.viol ∈ (repeats Elem.name seen elems).map (fun x => (DiagClass.duplicateCompositeElement, p ++ [x.name]))
    | [], p, seen, d, h => by simp [pElems] at h
    | e :: rest, p, seen, d, h => by
      simp only [pElems] at h
      rcases (bind_err _ _ d).mp h with h | ⟨_, _, h⟩
      · obtain ⟨q, x, hm, hb⟩ := pElem_err e _ d h
        exact Or.inl ⟨q, x, by simp [subElemsL, hm], hb⟩
      · rw [need_bind_err] at h
        rcases h with ⟨h4, rfl⟩ | ⟨h4, h⟩
        · simp only [Bool.not_eq_eq_eq_not, Bool.not_false] at h4
          exact Or.inr (mem_repeats_map_head Elem.name seen e rest _ h4)
        · simp only [Bool.not_eq_eq_eq_not, Bool.not_true] at h4
          rcases pElems_err rest p _ d h with ⟨q, x, hm, hb⟩ | hh
          · exact Or.inl ⟨q, x, by simp [subElemsL, hm], hb⟩
          · exact Or.inr (mem_repeats_map_cons Elem.name seen e rest _ _ h4 hh)
end


theorem repeats_mono_append {α} (key : α → String) : ∀ (a b : List α) (seen : List String) (x : α),
    x ∈ repeats key seen a → x ∈ repeats key seen (a ++ b) := by
  intro a
  induction a with
  | nil => intro b seen x h; simp [repeats] at h
  | cons y ys ih =>
    intro b seen x h
    by_cases hm : key y ∈ seen
    · simp only [repeats, List.contains_eq_mem, hm, decide_true, ↓reduceIte, List.mem_cons, List.cons_append] at h ⊢
      rcases h with rfl | h
      · exact Or.inl rfl
      · exact Or.inr (ih b seen x h)
    · simp only [repeats, List.contains_eq_mem, hm, decide_false, Bool.false_eq_true, ↓reduceIte, List.cons_append] at h ⊢
      exact ih b _ x h

/-- `w` is a parser-level rule of the level `l` that `l` breaks -/
def LevelParseBad (l : LevelView) (w : Viol) : Prop := w ∈ attrViolsLevel l ∨ w ∈ dupViolsLevel l

theorem pFields_err (lp : Path) : ∀ (fields : List FieldDef) (seen : List String) (d : Diag),
    pFields lp seen fields = .error d →
      (∃ f ∈ fields, d.viol ∈ fieldAttrViols lp f) ∨
      d.viol ∈ (repeats id seen (fields.map FieldDef.name)).map (fun n => (DiagClass.duplicateMemberName, lp ++ [n])) := by
  intro fields
  induction fields with
  | nil => intro seen d h; simp [pFields] at h
  | cons f rest ih =>
    intro seen d h
    simp only [pFields] at h
    rcases (bind_err _ _ d).mp h with h | ⟨_, hok, h⟩
    · left
      refine ⟨f, by simp, ?_⟩
      unfold pField at h
      rw [need_bind_err] at h
      rcases h with ⟨h1, rfl⟩ | ⟨h1, h⟩
      · simp only [Bool.not_eq_eq_eq_not, Bool.not_false] at h1
        simp [fieldAttrViols, h1, Diag.viol]
      · rw [need_bind_err] at h
        rcases h with ⟨h2, rfl⟩ | ⟨h2, h⟩
        · have : ¬ f.id ≤ u16Max := by
            intro hle; rw [(fitsBits16 _).mpr hle] at h2; cases h2
          simp only [fieldAttrViols, List.mem_append]
          exact Or.inr (by simp [this, Diag.viol])
        · rw [need_bind_err] at h
          rcases h with ⟨h3, rfl⟩ | ⟨h3, h⟩
          · simp only [Bool.not_eq_eq_eq_not, Bool.not_false] at h3
            simp [fieldAttrViols, h3, Diag.viol]
          · rw [need_bind_err] at h
            rcases h with ⟨h4, rfl⟩ | ⟨h4, h⟩
            · simp only [fieldAttrViols, List.mem_append]
              exact Or.inr (by simp [optFits64_false _ h4, Diag.viol])
            · obtain ⟨h5, hv⟩ := pVersions_err _ _ d h
              rw [hv]
              simp only [fieldAttrViols, List.mem_append]
              exact Or.inr (by simp [h5])
    · rw [need_bind_err] at h
      rcases h with ⟨h4, rfl⟩ | ⟨h4, h⟩
      · simp only [Bool.not_eq_eq_eq_not, Bool.not_false] at h4
        exact Or.inr (by
          have := mem_repeats_map_head id seen f.name (rest.map FieldDef.name)
            (fun n => (DiagClass.duplicateMemberName, lp ++ [n])) h4
          simpa [Diag.viol] using this)
      · simp only [Bool.not_eq_eq_eq_not, Bool.not_true] at h4
        rcases ih _ d h with ⟨f', hf', hh⟩ | hh
        · exact Or.inl ⟨f', by simp [hf'], hh⟩
        · exact Or.inr (by
            have := mem_repeats_map_cons id seen f.name (rest.map FieldDef.name)
              (fun n => (DiagClass.duplicateMemberName, lp ++ [n])) _ h4 hh
            simpa using this)

theorem pDatas_err (lp : Path) : ∀ (datas : List DataDef) (seen : List String) (d : Diag),
    pDatas lp seen datas = .error d →
      (∃ x ∈ datas, d.viol ∈ dataAttrViols lp x) ∨
      d.viol ∈ (repeats id seen (datas.map DataDef.name)).map (fun n => (DiagClass.duplicateMemberName, lp ++ [n])) := by
  intro datas
  induction datas with
  | nil => intro seen d h; simp [pDatas] at h
  | cons x rest ih =>
    intro seen d h
    simp only [pDatas] at h
    rcases (bind_err _ _ d).mp h with h | ⟨_, hok, h⟩
    · left
      refine ⟨x, by simp, ?_⟩
      unfold pData at h
      rw [need_bind_err] at h
      rcases h with ⟨h1, rfl⟩ | ⟨h1, h⟩
      · simp only [Bool.not_eq_eq_eq_not, Bool.not_false] at h1
        simp [dataAttrViols, h1, Diag.viol]
      · rw [need_bind_err] at h
        rcases h with ⟨h2, rfl⟩ | ⟨h2, h⟩
        · have : ¬ x.id ≤ u16Max := by
            intro hle; rw [(fitsBits16 _).mpr hle] at h2; cases h2
          simp only [dataAttrViols, List.mem_append]
          exact Or.inr (by simp [this, Diag.viol])
        · rw [need_bind_err] at h
          rcases h with ⟨h3, rfl⟩ | ⟨h3, h⟩
          · simp only [Bool.not_eq_eq_eq_not, Bool.not_false] at h3
            simp [dataAttrViols, h3, Diag.viol]
          · obtain ⟨h5, hv⟩ := pVersions_err _ _ d h
            rw [hv]
            simp only [dataAttrViols, List.mem_append]
            exact Or.inr (by simp [h5])
    · rw [need_bind_err] at h
      rcases h with ⟨h4, rfl⟩ | ⟨h4, h⟩
      · simp only [Bool.not_eq_eq_eq_not, Bool.not_false] at h4
        exact Or.inr (by
          have := mem_repeats_map_head id seen x.name (rest.map DataDef.name)
            (fun n => (DiagClass.duplicateMemberName, lp ++ [n])) h4
          simpa [Diag.viol] using this)
      · simp only [Bool.not_eq_eq_eq_not, Bool.not_true] at h4
        rcases ih _ d h with ⟨x', hx', hh⟩ | hh
        · exact Or.inl ⟨x', by simp [hx'], hh⟩
        · exact Or.inr (by
            have := mem_repeats_map_cons id seen x.name (rest.map DataDef.name)
              (fun n => (DiagClass.duplicateMemberName, lp ++ [n])) _ h4 hh
            simpa using this)


section LevelParse
variable (lp : Path) (bl : Option Nat) (fields : List FieldDef) (groups : List GroupDef) (datas : List DataDef) (w : Viol)

theorem lpb_bl (h : optU64 bl = false) :
    LevelParseBad ⟨lp, bl, fields, groups, datas, hdr⟩ (DiagClass.attrNotNumeric, lp) := by
  left; simp [attrViolsLevel, h]

theorem lpb_field (h : ∃ f ∈ fields, w ∈ fieldAttrViols lp f) : LevelParseBad ⟨lp, bl, fields, groups, datas, hdr⟩ w := by
  left
  simp only [attrViolsLevel, List.mem_append, List.mem_flatMap]
  exact Or.inl (Or.inl (Or.inr h))

theorem lpb_group (h : ∃ g ∈ groups, w ∈ groupAttrViols lp g) : LevelParseBad ⟨lp, bl, fields, groups, datas, hdr⟩ w := by
  left
  simp only [attrViolsLevel, List.mem_append, List.mem_flatMap]
  exact Or.inl (Or.inr h)

theorem lpb_data (h : ∃ d ∈ datas, w ∈ dataAttrViols lp d) : LevelParseBad ⟨lp, bl, fields, groups, datas, hdr⟩ w := by
  left
  simp only [attrViolsLevel, List.mem_append, List.mem_flatMap]
  exact Or.inr h

theorem lpb_dup1 (h : w ∈ (repeats id [] (fields.map FieldDef.name)).map (fun n => (DiagClass.duplicateMemberName, lp ++ [n]))) :
    LevelParseBad ⟨lp, bl, fields, groups, datas, hdr⟩ w := by
  right
  simp only [dupViolsLevel, List.mem_map] at h ⊢
  obtain ⟨n, hn, rfl⟩ := h
  rw [List.append_assoc]
  exact ⟨n, repeats_mono_append id _ _ _ n hn, rfl⟩

theorem lpb_dup2 (hF : repeats id [] (fields.map FieldDef.name) = [])
    (h : w ∈ (repeats id ((fields.map FieldDef.name).reverse ++ []) (groups.map gName)).map
      (fun n => (DiagClass.duplicateMemberName, lp ++ [n]))) :
    LevelParseBad ⟨lp, bl, fields, groups, datas, hdr⟩ w := by
  right
  simp only [dupViolsLevel, List.mem_map] at h ⊢
  obtain ⟨n, hn, rfl⟩ := h
  rw [List.append_assoc, repeats_append id _ _ _ hF]
  simp only [List.map_id]
  exact ⟨n, repeats_mono_append id _ _ _ n hn, rfl⟩

theorem lpb_dup3 (hF : repeats id [] (fields.map FieldDef.name) = [])
    (hG : repeats id ((fields.map FieldDef.name).reverse ++ []) (groups.map gName) = [])
    (h : w ∈ (repeats id ((groups.map gName).reverse ++ ((fields.map FieldDef.name).reverse ++ [])) (datas.map DataDef.name)).map
      (fun n => (DiagClass.duplicateMemberName, lp ++ [n]))) :
    LevelParseBad ⟨lp, bl, fields, groups, datas, hdr⟩ w := by
  right
  simp only [dupViolsLevel, List.mem_map] at h ⊢
  obtain ⟨n, hn, rfl⟩ := h
  rw [List.append_assoc, repeats_append id _ _ _ hF]
  simp only [List.map_id]
  rw [repeats_append id _ _ _ hG]
  simp only [List.map_id]
  exact ⟨n, hn, rfl⟩
end LevelParse

mutual
  theorem pGroup_err : ∀ (g : GroupDef) (lp : Path) (d : Diag), pGroup lp g = .error d →
      d.viol ∈ groupAttrViols lp g ∨ ∃ l ∈ groupLevels lp g, LevelParseBad l d.viol
    | .mk n id dim bl fields groups datas a, lp, d, h => by
      simp only [pGroup] at h
      have hself : (⟨lp ++ [n], bl, fields, groups, datas, dim⟩ : LevelView) ∈
          groupLevels lp (.mk n id dim bl fields groups datas a) := by simp [groupLevels]
      rw [need_bind_err] at h
      rcases h with ⟨h1, rfl⟩ | ⟨h1, h⟩
      · simp only [Bool.not_eq_eq_eq_not, Bool.not_false] at h1
        exact Or.inl (by simp [groupAttrViols, gName, h1, Diag.viol])
      · rw [need_bind_err] at h
        rcases h with ⟨h2, rfl⟩ | ⟨h2, h⟩
        · have : ¬ id ≤ u16Max := by
            intro hle; rw [(fitsBits16 _).mpr hle] at h2; cases h2
          left
          simp only [groupAttrViols, gName, gId, gAttrs, List.mem_append]
          exact Or.inr (by simp [this, Diag.viol])
        · rw [need_bind_err] at h
          rcases h with ⟨h3, rfl⟩ | ⟨h3, h⟩
          · exact Or.inr ⟨_, hself, lpb_bl _ bl fields groups datas (optFits64_false _ h3)⟩
          · rcases pVersions_bind_err _ _ _ d h with ⟨h4, hv⟩ | ⟨h4, h⟩
            · rw [hv]
              left
              simp only [groupAttrViols, gName, gId, gAttrs, List.mem_append]
              exact Or.inr (by simp [h4])
            · right
              rcases (bind_err _ _ d).mp h with h | ⟨s1, hs1, h⟩
              · rcases pFields_err _ fields [] d h with hh | hh
                · exact ⟨_, hself, lpb_field _ bl fields groups datas _ hh⟩
                · exact ⟨_, hself, lpb_dup1 _ bl fields groups datas _ hh⟩
              · obtain ⟨f1, f2, _⟩ := pFields_ok _ _ _ _ hs1
                subst f1
                rcases (bind_err _ _ d).mp h with h | ⟨s2, hs2, h⟩
                · rcases pGroups_err groups (lp ++ [n]) _ d h with hh | hh | ⟨l, hl, hh⟩
                  · exact ⟨_, hself, lpb_group _ bl fields groups datas _ hh⟩
                  · exact ⟨_, hself, lpb_dup2 _ bl fields groups datas _ f2 hh⟩
                  · exact ⟨l, by simp [groupLevels, hl], hh⟩
                · obtain ⟨g1, g2, _, _⟩ := pGroups_ok groups _ _ _ hs2
                  subst g1
                  rcases pDatas_err _ datas _ d h with hh | hh
                  · exact ⟨_, hself, lpb_data _ bl fields groups datas _ hh⟩
                  · exact ⟨_, hself, lpb_dup3 _ bl fields groups datas _ f2 g2 hh⟩
  theorem pGroups_err : ∀ (gs : List GroupDef) (lp : Path) (seen : List String) (d : Diag), pGroups lp seen gs = .error d →
      (∃ g ∈ gs, d.viol ∈ groupAttrViols lp g) ∨
      d.viol ∈ (repeats id seen (gs.map gName)).map (fun n => (DiagClass.duplicateMemberName, lp ++ [n])) ∨
      ∃ l ∈ groupLevelsL lp gs, LevelParseBad l d.viol
    | [], lp, seen, d, h => by simp [pGroups] at h
    | g :: rest, lp, seen, d, h => by
      simp only [pGroups] at h
      rcases (bind_err _ _ d).mp h with h | ⟨_, _, h⟩
      · rcases pGroup_err g lp d h with hh | ⟨l, hl, hh⟩
        · exact Or.inl ⟨g, by simp, hh⟩
        · exact Or.inr (Or.inr ⟨l, by simp [groupLevelsL, hl], hh⟩)
      · rw [need_bind_err] at h
        rcases h with ⟨h4, rfl⟩ | ⟨h4, h⟩
        · simp only [Bool.not_eq_eq_eq_not, Bool.not_false] at h4
          exact Or.inr (Or.inl (by
            have := mem_repeats_map_head id seen (gName g) (rest.map gName)
              (fun n => (DiagClass.duplicateMemberName, lp ++ [n])) h4
            simpa [Diag.viol] using this))
        · simp only [Bool.not_eq_eq_eq_not, Bool.not_true] at h4
          rcases pGroups_err rest lp _ d h with ⟨g', hg', hh⟩ | hh | ⟨l, hl, hh⟩
          · exact Or.inl ⟨g', by simp [hg'], hh⟩
          · exact Or.inr (Or.inl (by
              have := mem_repeats_map_cons id seen (gName g) (rest.map gName)
                (fun n => (DiagClass.duplicateMemberName, lp ++ [n])) _ h4 hh
              simpa using this))
          · exact Or.inr (Or.inr ⟨l, by simp [groupLevelsL, hl], hh⟩)
end


theorem mem_repeatsNat_map_cons {α} (key : α → Nat) (seen : List Nat) (x : α) (xs : List α) (g : α → Viol) (w : Viol)
    (hns : seen.contains (key x) = false) (h : w ∈ (repeatsNat key (key x :: seen) xs).map g) :
    w ∈ (repeatsNat key seen (x :: xs)).map g := by
  have hm : key x ∉ seen := by simpa using hns
  simpa [repeatsNat, hm] using h

theorem mem_repeatsNat_map_head {α} (key : α → Nat) (seen : List Nat) (x : α) (xs : List α) (g : α → Viol)
    (hs : seen.contains (key x) = true) : g x ∈ (repeatsNat key seen (x :: xs)).map g := by
  have hm : key x ∈ seen := by simpa using hs
  simp [repeatsNat, hm]

theorem pMessages_err : ∀ (ms : List MessageDef) (names : List String) (ids : List Nat) (d : Diag),
    pMessages names ids ms = .error d →
      (∃ m ∈ ms, d.viol ∈ msgAttrViols m ∨ ∃ l ∈ messageLevels hdr m, LevelParseBad l d.viol) ∨
      d.viol ∈ (repeats MessageDef.name names ms).map (fun m => (DiagClass.duplicateMessageName, msgPath m)) ∨
      d.viol ∈ (repeatsNat MessageDef.id ids ms).map (fun m => (DiagClass.duplicateMessageId, msgPath m)) := by
  intro ms
  induction ms with
  | nil => intro names ids d h; simp [pMessages] at h
  | cons m rest ih =>
    intro names ids d h
    simp only [pMessages] at h
    have hself : (⟨msgPath m, m.blockLength, m.fields, m.groups, m.datas, hdr⟩ : LevelView) ∈ messageLevels hdr m := by
      simp [messageLevels]
    rw [need_bind_err] at h
    rcases h with ⟨h1, rfl⟩ | ⟨h1, h⟩
    · simp only [Bool.not_eq_eq_eq_not, Bool.not_false] at h1
      exact Or.inl ⟨m, by simp, Or.inl (by simp [msgAttrViols, h1, Diag.viol, msgPath])⟩
    · rw [need_bind_err] at h
      rcases h with ⟨h2, rfl⟩ | ⟨h2, h⟩
      · have : ¬ m.id ≤ u32Max := by
          intro hle; rw [(fitsBits32 _).mpr hle] at h2; cases h2
        refine Or.inl ⟨m, by simp, Or.inl ?_⟩
        simp only [msgAttrViols, List.mem_append]
        exact Or.inr (by simp [this, Diag.viol, msgPath])
      · rw [need_bind_err] at h
        rcases h with ⟨h3, rfl⟩ | ⟨h3, h⟩
        · exact Or.inl ⟨m, by simp, Or.inr ⟨_, hself, by
            have := lpb_bl (hdr := hdr) (msgPath m) m.blockLength m.fields m.groups m.datas (optFits64_false _ h3)
            simpa [Diag.viol, msgPath] using this⟩⟩
        · rcases pVersions_bind_err _ _ _ d h with ⟨h4, hv⟩ | ⟨h4, h⟩
          · rw [hv]
            refine Or.inl ⟨m, by simp, Or.inl ?_⟩
            simp only [msgAttrViols, List.mem_append]
            exact Or.inr (by simp [h4, msgPath])
          · rcases (bind_err _ _ d).mp h with h | ⟨s1, hs1, h⟩
            · rcases pFields_err _ m.fields [] d h with hh | hh
              · exact Or.inl ⟨m, by simp, Or.inr ⟨_, hself, lpb_field _ _ _ _ _ _ hh⟩⟩
              · exact Or.inl ⟨m, by simp, Or.inr ⟨_, hself, lpb_dup1 _ _ _ _ _ _ hh⟩⟩
            · obtain ⟨f1, f2, _⟩ := pFields_ok _ _ _ _ hs1
              subst f1
              rcases (bind_err _ _ d).mp h with h | ⟨s2, hs2, h⟩
              · rcases pGroups_err m.groups _ _ d h with hh | hh | ⟨l, hl, hh⟩
                · exact Or.inl ⟨m, by simp, Or.inr ⟨_, hself, lpb_group _ _ _ _ _ _ hh⟩⟩
                · exact Or.inl ⟨m, by simp, Or.inr ⟨_, hself, lpb_dup2 _ _ _ _ _ _ f2 hh⟩⟩
                · exact Or.inl ⟨m, by simp, Or.inr ⟨l, by simp [messageLevels, msgPath, hl], hh⟩⟩
              · obtain ⟨g1, g2, _, _⟩ := pGroups_ok m.groups _ _ _ hs2
                subst g1
                rcases (bind_err _ _ d).mp h with h | ⟨_, _, h⟩
                · rcases pDatas_err _ m.datas _ d h with hh | hh
                  · exact Or.inl ⟨m, by simp, Or.inr ⟨_, hself, lpb_data _ _ _ _ _ _ hh⟩⟩
                  · exact Or.inl ⟨m, by simp, Or.inr ⟨_, hself, lpb_dup3 _ _ _ _ _ _ f2 g2 hh⟩⟩
                · rw [need_bind_err] at h
                  rcases h with ⟨h5, rfl⟩ | ⟨h5, h⟩
                  · simp only [Bool.not_eq_eq_eq_not, Bool.not_false] at h5
                    exact Or.inr (Or.inl (by
                      have := mem_repeats_map_head MessageDef.name names m rest
                        (fun m => (DiagClass.duplicateMessageName, msgPath m)) h5
                      simpa [Diag.viol, msgPath] using this))
                  · simp only [Bool.not_eq_eq_eq_not, Bool.not_true] at h5
                    rw [need_bind_err] at h
                    rcases h with ⟨h6, rfl⟩ | ⟨h6, h⟩
                    · simp only [Bool.not_eq_eq_eq_not, Bool.not_false] at h6
                      exact Or.inr (Or.inr (by
                        have := mem_repeatsNat_map_head MessageDef.id ids m rest
                          (fun m => (DiagClass.duplicateMessageId, msgPath m)) h6
                        simpa [Diag.viol, msgPath] using this))
                    · simp only [Bool.not_eq_eq_eq_not, Bool.not_true] at h6
                      rcases ih _ _ d h with ⟨m', hm', hh⟩ | hh | hh
                      · exact Or.inl ⟨m', by simp [hm'], hh⟩
                      · exact Or.inr (Or.inl (mem_repeats_map_cons MessageDef.name names m rest _ _ h5 hh))
                      · exact Or.inr (Or.inr (mem_repeatsNat_map_cons MessageDef.id ids m rest _ _ h6 hh))

theorem pTypes_err : ∀ (types : List Elem) (seen : List String) (d : Diag), pTypes seen types = .error d →
    (∃ t ∈ types, ∃ q x, (q, x) ∈ subElems ["types", t.name] t ∧ ParseBad q x d.viol) ∨
    d.viol ∈ (repeats (fun (e : Elem) => e.name.toLower) seen types).map (fun e => (DiagClass.duplicateEncoding, typePath e)) := by
  intro types
  induction types with
  | nil => intro seen d h; simp [pTypes] at h
  | cons t rest ih =>
    intro seen d h
    simp only [pTypes] at h
    rcases (bind_err _ _ d).mp h with h | ⟨_, _, h⟩
    · obtain ⟨q, x, hm, hb⟩ := pElem_err t _ d h
      exact Or.inl ⟨t, by simp, q, x, hm, hb⟩
    · rw [need_bind_err] at h
      rcases h with ⟨h4, rfl⟩ | ⟨h4, h⟩
      · simp only [Bool.not_eq_eq_eq_not, Bool.not_false] at h4
        exact Or.inr (by
          have := mem_repeats_map_head (fun (e : Elem) => e.name.toLower) seen t rest
            (fun e => (DiagClass.duplicateEncoding, typePath e)) h4
          simpa [Diag.viol, typePath] using this)
      · simp only [Bool.not_eq_eq_eq_not, Bool.not_true] at h4
        rcases ih _ d h with ⟨t', ht', hh⟩ | hh
        · exact Or.inl ⟨t', by simp [ht'], hh⟩
        · exact Or.inr (mem_repeats_map_cons (fun (e : Elem) => e.name.toLower) seen t rest _ _ h4 hh)

theorem parsePhase_sound (s : SchemaDef) (d : Diag) (h : parsePhase s = .error d) : d.viol ∈ violations s := by
  have hattr : ∀ w, w ∈ attrViols s → w ∈ violations s := viol_of_attr s
  have hdup : ∀ w, w ∈ dupViols s → w ∈ violations s := viol_of_dup s
  simp only [parsePhase] at h
  rw [need_bind_err] at h
  rcases h with ⟨h1, rfl⟩ | ⟨h1, h⟩
  · apply hattr
    have : ¬ s.id ≤ u32Max := by intro hle; rw [(fitsBits32 _).mpr hle] at h1; cases h1
    simp only [attrViols, List.mem_append]
    exact Or.inl (Or.inl (Or.inl (by simp [this, Diag.viol])))
  · rw [need_bind_err] at h
    rcases h with ⟨h2, rfl⟩ | ⟨h2, h⟩
    · apply hattr
      have : ¬ s.version ≤ u64Max := by intro hle; rw [(fitsBits64 _).mpr hle] at h2; cases h2
      simp only [attrViols, List.mem_append]
      exact Or.inl (Or.inl (Or.inl (by simp [this, Diag.viol])))
    · rcases (bind_err _ _ d).mp h with h | ⟨_, _, h⟩
      · rcases pTypes_err s.types [] d h with ⟨t, ht, q, x, hm, hb⟩ | hh
        · have hall : (q, x) ∈ allElems s := by unfold allElems; exact List.mem_flatMap.mpr ⟨t, ht, hm⟩
          rcases hb with hb | hb
          · apply hattr
            simp only [attrViols, List.mem_append, List.mem_flatMap]
            exact Or.inl (Or.inl (Or.inr ⟨(q, x), hall, hb⟩))
          · apply hdup
            simp only [dupViols, List.mem_append, List.mem_flatMap]
            exact Or.inl (Or.inl (Or.inl (Or.inr ⟨(q, x), hall, hb⟩)))
        · apply hdup
          simp only [dupViols, List.mem_append]
          exact Or.inl (Or.inl (Or.inl (Or.inl hh)))
      · rcases pMessages_err s.messages [] [] d h with ⟨m, hm, hh⟩ | hh | hh
        · rcases hh with hh | ⟨l, hl, hh⟩
          · apply hattr
            simp only [attrViols, List.mem_append, List.mem_flatMap]
            exact Or.inl (Or.inr ⟨m, hm, hh⟩)
          · have hall : l ∈ allLevels s := by unfold allLevels; exact List.mem_flatMap.mpr ⟨m, hm, hl⟩
            rcases hh with hh | hh
            · apply hattr
              simp only [attrViols, List.mem_append, List.mem_flatMap]
              exact Or.inr ⟨l, hall, hh⟩
            · apply hdup
              simp only [dupViols, List.mem_append, List.mem_flatMap]
              exact Or.inr ⟨l, hall, hh⟩
        · apply hdup
          simp only [dupViols, List.mem_append]
          exact Or.inl (Or.inl (Or.inr hh))
        · apply hdup
          simp only [dupViols, List.mem_append]
          exact Or.inl (Or.inr hh)


/-! ### C++ validator -/

theorem keyword_symbolic (n : String) (h : isKeyword n = true) : symbolicName n = true := by
  have hall : Spec.Rules.cppKeywords.all symbolicName = true := by decide
  rw [List.all_eq_true] at hall
  unfold isKeyword at h
  exact hall n (by simpa using h)

theorem cName_err (n : String) (p : Path) (d : Diag) :
    cName n p = .error d ↔ isKeyword n = true ∧ d = { cls := .keywordName, loc := p } := by
  unfold cName; rw [need_err, keyword_eq]; simp

theorem cName_bind_err {β} (n : String) (p : Path) (f : Unit → R β) (d : Diag) :
    (cName n p >>= f) = .error d ↔
      (isKeyword n = true ∧ d = { cls := .keywordName, loc := p }) ∨ (isKeyword n = false ∧ f () = .error d) := by
  unfold cName; rw [need_bind_err, keyword_eq]; simp

/-- `w` reports a keyword used as the name of the encoding `x` or of one of its values / choices -/
def KwBad (q : Path) (x : Elem) (w : Viol) : Prop :=
  (isKeyword x.name = true ∧ w = (.keywordName, q)) ∨
  (match x with
   | .enum _ _ _ vs _ => ∃ v ∈ vs, isKeyword v.name = true ∧ w = (.keywordName, q ++ [v.name])
   | .set _ _ _ cs _ => ∃ c ∈ cs, isKeyword c.name = true ∧ w = (.keywordName, q ++ [c.name])
   | _ => False)

mutual
  theorem cElem_err : ∀ (e : Elem) (p : Path) (d : Diag), cElem p e = .error d →
      ∃ q x, (q, x) ∈ subElems p e ∧ KwBad q x d.viol
    | .type t, p, d, h => by
      simp only [cElem] at h
      rw [cName_bind_err] at h
      rcases h with ⟨h1, rfl⟩ | ⟨_, h⟩
      · exact ⟨p, _, subElems_self _ _, Or.inl ⟨h1, rfl⟩⟩
      · cases h
    | .enum n enc o vs a, p, d, h => by
      simp only [cElem] at h
      rw [cName_bind_err] at h
      rcases h with ⟨h1, rfl⟩ | ⟨_, h⟩
      · exact ⟨p, _, subElems_self _ _, Or.inl ⟨h1, rfl⟩⟩
      · rcases (bind_err _ _ d).mp h with h | ⟨_, _, h⟩
        · obtain ⟨v, hv, hvd⟩ := allOk_err _ _ d h
          rw [cName_err] at hvd
          obtain ⟨h2, rfl⟩ := hvd
          exact ⟨p, _, subElems_self _ _, Or.inr ⟨v, hv, h2, rfl⟩⟩
        · cases h
    | .set n enc o cs a, p, d, h => by
      simp only [cElem] at h
      rw [cName_bind_err] at h
      rcases h with ⟨h1, rfl⟩ | ⟨_, h⟩
      · exact ⟨p, _, subElems_self _ _, Or.inl ⟨h1, rfl⟩⟩
      · rcases (bind_err _ _ d).mp h with h | ⟨_, _, h⟩
        · obtain ⟨c, hc, hcd⟩ := allOk_err _ _ d h
          rw [cName_err] at hcd
          obtain ⟨h2, rfl⟩ := hcd
          exact ⟨p, _, subElems_self _ _, Or.inr ⟨c, hc, h2, rfl⟩⟩
        · cases h
    | .ref n ty o a, p, d, h => by
      simp only [cElem] at h
      rw [cName_bind_err] at h
      rcases h with ⟨h1, rfl⟩ | ⟨_, h⟩
      · exact ⟨p, _, subElems_self _ _, Or.inl ⟨h1, rfl⟩⟩
      · cases h
    | .composite n o elems a, p, d, h => by
      simp only [cElem] at h
      rw [cName_bind_err] at h
      rcases h with ⟨h1, rfl⟩ | ⟨_, h⟩
      · exact ⟨p, _, subElems_self _ _, Or.inl ⟨h1, rfl⟩⟩
      · obtain ⟨q, x, hm, hb⟩ := cElems_err elems p d h
        exact ⟨q, x, by simp [subElems, hm], hb⟩
  theorem cElems_err : ∀ (elems : List Elem) (p : Path) (d : Diag), cElems p elems = .error d →
      ∃ q x, (q, x) ∈ subElemsL p elems ∧ KwBad q x d.viol
    | [], p, d, h => by simp [cElems] at h
    | e :: rest, p, d, h => by
      simp only [cElems] at h
      rcases (bind_err _ _ d).mp h with h | ⟨_, _, h⟩
      · obtain ⟨q, x, hm, hb⟩ := cElem_err e _ d h
        exact ⟨q, x, by simp [subElemsL, hm], hb⟩
      · obtain ⟨q, x, hm, hb⟩ := cElems_err rest p d h
        exact ⟨q, x, by simp [subElemsL, hm], hb⟩
end

/-- `w` reports a keyword used as the name of a member of level `l` -/
def LevelKwBad (l : LevelView) (w : Viol) : Prop :=
  (∃ f ∈ l.fields, isKeyword f.name = true ∧ w = (.keywordName, l.path ++ [f.name])) ∨
  (∃ g ∈ l.groups, isKeyword (gName g) = true ∧ w = (.keywordName, l.path ++ [gName g])) ∨
  (∃ d ∈ l.datas, isKeyword d.name = true ∧ w = (.keywordName, l.path ++ [d.name]))

mutual
  theorem cGroup_err : ∀ (g : GroupDef) (lp : Path) (d : Diag), cGroup lp g = .error d →
      (isKeyword (gName g) = true ∧ d.viol = (.keywordName, lp ++ [gName g])) ∨
      ∃ l ∈ groupLevels lp g, LevelKwBad l d.viol
    | .mk n id dim bl fields groups datas a, lp, d, h => by
      simp only [cGroup] at h
      have hself : (⟨lp ++ [n], bl, fields, groups, datas, dim⟩ : LevelView) ∈
          groupLevels lp (.mk n id dim bl fields groups datas a) := by simp [groupLevels]
      rw [cName_bind_err] at h
      rcases h with ⟨h1, rfl⟩ | ⟨_, h⟩
      · exact Or.inl ⟨h1, rfl⟩
      · right
        rcases (bind_err _ _ d).mp h with h | ⟨_, _, h⟩
        · obtain ⟨f, hf, hfd⟩ := allOk_err _ _ d h
          rw [cName_err] at hfd
          obtain ⟨h2, rfl⟩ := hfd
          exact ⟨_, hself, Or.inl ⟨f, hf, h2, rfl⟩⟩
        · rcases (bind_err _ _ d).mp h with h | ⟨_, _, h⟩
          · rcases cGroups_err groups (lp ++ [n]) d h with ⟨g', hg', hh⟩ | ⟨l, hl, hh⟩
            · exact ⟨_, hself, Or.inr (Or.inl ⟨g', hg', hh⟩)⟩
            · exact ⟨l, by simp [groupLevels, hl], hh⟩
          · obtain ⟨x, hx, hxd⟩ := allOk_err _ _ d h
            rw [cName_err] at hxd
            obtain ⟨h2, rfl⟩ := hxd
            exact ⟨_, hself, Or.inr (Or.inr ⟨x, hx, h2, rfl⟩)⟩
  theorem cGroups_err : ∀ (gs : List GroupDef) (lp : Path) (d : Diag), cGroups lp gs = .error d →
      (∃ g ∈ gs, isKeyword (gName g) = true ∧ d.viol = (.keywordName, lp ++ [gName g])) ∨
      ∃ l ∈ groupLevelsL lp gs, LevelKwBad l d.viol
    | [], lp, d, h => by simp [cGroups] at h
    | g :: rest, lp, d, h => by
      simp only [cGroups] at h
      rcases (bind_err _ _ d).mp h with h | ⟨_, _, h⟩
      · rcases cGroup_err g lp d h with hh | ⟨l, hl, hh⟩
        · exact Or.inl ⟨g, by simp, hh⟩
        · exact Or.inr ⟨l, by simp [groupLevelsL, hl], hh⟩
      · rcases cGroups_err rest lp d h with ⟨g', hg', hh⟩ | ⟨l, hl, hh⟩
        · exact Or.inl ⟨g', by simp [hg'], hh⟩
        · exact Or.inr ⟨l, by simp [groupLevelsL, hl], hh⟩
end

theorem cMessage_err (m : MessageDef) (d : Diag) (h : cMessage m = .error d) :
    (isKeyword m.name = true ∧ d.viol = (.keywordName, msgPath m)) ∨ ∃ l ∈ messageLevels hdr m, LevelKwBad l d.viol := by
  simp only [cMessage] at h
  have hself : (⟨msgPath m, m.blockLength, m.fields, m.groups, m.datas, hdr⟩ : LevelView) ∈ messageLevels hdr m := by
    simp [messageLevels]
  rw [cName_bind_err] at h
  rcases h with ⟨h1, rfl⟩ | ⟨_, h⟩
  · exact Or.inl ⟨h1, rfl⟩
  · right
    rcases (bind_err _ _ d).mp h with h | ⟨_, _, h⟩
    · obtain ⟨f, hf, hfd⟩ := allOk_err _ _ d h
      rw [cName_err] at hfd
      obtain ⟨h2, rfl⟩ := hfd
      exact ⟨_, hself, Or.inl ⟨f, hf, h2, rfl⟩⟩
    · rcases (bind_err _ _ d).mp h with h | ⟨_, _, h⟩
      · rcases cGroups_err m.groups (msgPath m) d h with ⟨g', hg', hh⟩ | ⟨l, hl, hh⟩
        · exact ⟨_, hself, Or.inr (Or.inl ⟨g', hg', hh⟩)⟩
        · exact ⟨l, by simp [messageLevels, hl], hh⟩
      · obtain ⟨x, hx, hxd⟩ := allOk_err _ _ d h
        rw [cName_err] at hxd
        obtain ⟨h2, rfl⟩ := hxd
        exact ⟨_, hself, Or.inr (Or.inr ⟨x, hx, h2, rfl⟩)⟩

theorem keyword_enforced (s : SchemaDef) (n : String) (p : Path) (hm : (n, p) ∈ entityNames s) (hk : isKeyword n = true) :
    (DiagClass.keywordName, p) ∈ violations s := by
  apply viol_of_name
  unfold nameViols
  refine List.mem_append.mpr (Or.inl (List.mem_filterMap.mpr ⟨(n, p), hm, ?_⟩))
  simp [keyword_symbolic n hk, hk]

theorem cRoot_sound (s : SchemaDef) (t : Elem) (ht : t ∈ s.types) (d : Diag)
    (h : cElem ["types", t.name] t = .error d) : d.viol ∈ violations s := by
  obtain ⟨q, x, hm, hb⟩ := cElem_err t _ d h
  have hall : (q, x) ∈ allElems s := by unfold allElems; exact List.mem_flatMap.mpr ⟨t, ht, hm⟩
  rcases hb with ⟨h1, hv⟩ | hsub
  · rw [hv]; exact keyword_enforced s _ _ (entityNames_elem s q x hall) h1
  · cases x with
    | enum nm enc o vs a =>
      obtain ⟨v, hv, h1, hw⟩ := hsub
      rw [hw]; exact keyword_enforced s _ _ (entityNames_vv s q nm enc o vs a hall v hv) h1
    | set nm enc o cs a =>
      obtain ⟨c, hc, h1, hw⟩ := hsub
      rw [hw]; exact keyword_enforced s _ _ (entityNames_choice s q nm enc o cs a hall c hc) h1
    | type t => exact absurd hsub (by simp)
    | ref nm ty o a => exact absurd hsub (by simp)
    | composite nm o elems a => exact absurd hsub (by simp)

theorem cppPhase_sound (s : SchemaDef) (d : Diag) (h : cppPhase s = .error d) : d.viol ∈ violations s := by
  simp only [cppPhase] at h
  rw [need_bind_err] at h
  rcases h with ⟨h1, rfl⟩ | ⟨_, h⟩
  · have : validNamespace s.package = false := by
      unfold validNamespace
      rw [symbolic_eq, keyword_eq] at h1
      unfold isReservedCppNamespace at h1
      simp only [Bool.not_eq_eq_eq_not, Bool.not_false, Bool.or_eq_true, Bool.not_eq_true', beq_iff_eq] at h1
      rcases h1 with (h1 | h1) | h1 | h1 <;> simp [h1]
    apply viol_of_name
    unfold nameViols
    exact List.mem_append.mpr (Or.inr (by simp [this, Diag.viol]))
  · rcases (bind_err _ _ d).mp h with h | ⟨_, _, h⟩
    · obtain ⟨⟨d0, hd0, hc, hl⟩, _⟩ := anyOrder_err _ d h
      obtain ⟨t, ht, hr⟩ := firstErrors_mem _ _ d0 hd0
      have := cRoot_sound s t ht d0 hr
      simpa [Diag.viol, hc, hl] using this
    · obtain ⟨m, hm, hmd⟩ := allOk_err _ _ d h
      rcases cMessage_err m d hmd with ⟨h1, hv⟩ | ⟨l, hl, hb⟩
      · rw [hv]; exact keyword_enforced s _ _ (entityNames_msg s m hm) h1
      · have hall : l ∈ allLevels s := by unfold allLevels; exact List.mem_flatMap.mpr ⟨m, hm, hl⟩
        rcases hb with ⟨f, hf, h1, hv⟩ | ⟨g, hg, h1, hv⟩ | ⟨x, hx, h1, hv⟩
        · rw [hv]; exact keyword_enforced s _ _ (entityNames_field s l hall f hf) h1
        · rw [hv]; exact keyword_enforced s _ _ (entityNames_group s l hall g hg) h1
        · rw [hv]; exact keyword_enforced s _ _ (entityNames_data s l hall x hx) h1

/-- the set the hash order of `validate_type_names` picks from consists of violations -/
theorem cppTypeNames_alts_sound (s : SchemaDef) (d : Diag)
    (h : anyOrder (firstErrors (fun t => cElem ["types", t.name] t) s.types) = .error d) :
    ∀ w ∈ d.alts, w ∈ violations s := by
  obtain ⟨_, halts⟩ := anyOrder_err _ d h
  intro w hw
  obtain ⟨e, he, rfl⟩ := halts w hw
  obtain ⟨t, ht, hr⟩ := firstErrors_mem _ _ e he
  exact cRoot_sound s t ht e hr

/-! ### assembly -/

/-- **check_error_sound**: the class and the entity of the diagnostic the model reports are a
    rule of the specification that is broken at that entity -/
theorem check_error_sound_all (hfp : FpAgree) (s : SchemaDef)
    (hnr : NoTopLevelRef s.types) (d : Diag) (h : check s = .error d) : d.viol ∈ violations s := by
  simp only [check] at h
  rcases (bind_err _ _ d).mp h with h | ⟨_, hp, h⟩
  · exact parsePhase_sound s d h
  · have hp' : parsePhase s = .ok () := hp
    obtain ⟨_, _, hnd⟩ := parsePhase_good s hp'
    rcases (bind_err _ _ d).mp h with h | ⟨_, ht, h⟩
    · exact (typesPhase_sound hfp s hnd d h).1
    · have ht' : typesPhase s = .ok () := ht
      have hsz : SizesAgree s.types := sizesAgree_of_phase hfp s ht'
      rcases (bind_err _ _ d).mp h with h | ⟨_, _, h⟩
      · exact messagesPhase_sound hfp s hnr hsz d h
      · exact cppPhase_sound s d h

/-- … and when `validate_types` fails, every diagnostic of the set from which the hash order
    of the `unordered_map` picks is such a broken rule -/
theorem check_error_sound_alts (hfp : FpAgree) (s : SchemaDef)
    (hp : parsePhase s = .ok ()) (d : Diag) (h : typesPhase s = .error d) :
    ∀ w ∈ d.alts, w ∈ violations s :=
  (typesPhase_sound hfp s (parsePhase_good s hp).2.2 d h).2


end Sbepp.Schema.Rules
