/-
  C07 witnesses (literal sites): concrete schemas and kernel-decided facts about them, used by
  Properties/C07.lean to refute the full-strength statements and as non-vacuity examples.
-/
import Sbepp.Gen.Accept
import Sbepp.Lemmas.C07Literals

namespace Sbepp.Properties.C07
open Sbepp Sbepp.Schema Sbepp.Gen Sbepp.Gen.Literals Sbepp.Gen.Scope

/-- the model's necessary conditions for sbeppc to accept `s` -/
def Accepted (s : SchemaDef) : Prop := acceptedB s = true

instance (s : SchemaDef) : Decidable (Accepted s) := by unfold Accepted; infer_instance

/-! ## Witness schemas -/

def tyDef (n p : String) : TypeDef := { name := n, prim := p, length := 1, presence := .required, offset := none }

def ty (n p : String) : Elem := .type (tyDef n p)

def stdTypes (hdrPrim : String := "uint16") : List Elem :=
  [.composite "messageHeader" none
     [ty "blockLength" hdrPrim, ty "templateId" hdrPrim, ty "schemaId" hdrPrim, ty "version" hdrPrim] {},
   .composite "groupSizeEncoding" none [ty "blockLength" "uint16", ty "numInGroup" "uint16"] {},
   .composite "varDataEncoding" none
     [ty "length" "uint32", .type { name := "varData", prim := "uint8", length := 0, presence := .required, offset := none }] {}]

def mkSchema (types : List Elem) (msgs : List MessageDef) (desc : String := "") : SchemaDef :=
  { package := "ns", id := 1, version := 0, description := desc, byteOrder := .little,
    headerType := "messageHeader", types := types, messages := msgs }

def fld (n ty : String) (id : Nat := 1) : FieldDef := { name := n, id := id, type := ty, offset := none, presence := .required }

def msg (n : String) (id : Nat) (fields : List FieldDef := []) (groups : List GroupDef := []) : MessageDef :=
  { name := n, id := id, blockLength := none, fields := fields, groups := groups, datas := [] }

def grp (n : String) (id : Nat) (fields : List FieldDef := []) (groups : List GroupDef := []) : GroupDef :=
  .mk n id "groupSizeEncoding" none fields groups [] {}

def pkg : SchemaTexts := ⟨"ns"⟩

/-- a template id that does not fit the `uint16` header member it is braced into -/
def wWideId : SchemaDef := mkSchema (stdTypes) [msg "M" 70000]
/-- a description with a double quote -/
def wQuote : SchemaDef := mkSchema (stdTypes) [msg "M" 1] "say \"hi\""
/-- `minValue="08"`: accepted by `from_chars`, an invalid octal literal in C++ -/
def wOctal : SchemaDef :=
  mkSchema (stdTypes ++ [.type { tyDef "I" "int32" with minValue := some "08" }]) [msg "M" 1]
/-- `minValue="16777217"` of a `float` type: an `int` constant that does not convert exactly -/
def wFloatInexact : SchemaDef :=
  mkSchema (stdTypes ++ [.type { tyDef "F" "float" with minValue := some "16777217" }]) [msg "M" 1]
/-- a `char` enum whose valid value is the single quote -/
def wCharQuote : SchemaDef :=
  mkSchema (stdTypes ++ [.enum "E" "char" none [{ name := "A", value := "'" }] {}]) [msg "M" 1]
/-- a field named like the template parameter of the generated class templates -/
def wByte : SchemaDef := mkSchema stdTypes [msg "M" 1 [fld "Byte" "uint8"]]
/-- three groups whose paths concatenate to the same parameter name -/
def wPaths : SchemaDef :=
  mkSchema stdTypes [msg "M" 1 [] [grp "a" 1 [] [grp "b_c_d" 2 [fld "x" "uint8"]],
                                   grp "a_b" 3 [] [grp "c_d" 4 [fld "x" "uint8"]],
                                   grp "a_b_c" 5 [] [grp "d" 6 [fld "x" "uint8"]]]]
/-- a constant field of primitive type whose value is an enumerator: the enum's header is not included -/
def wValueRef : SchemaDef :=
  mkSchema (stdTypes ++ [.enum "E" "uint8" none [{ name := "A", value := "1" }] {}])
    [msg "M" 1 [{ name := "k", id := 1, type := "uint8", offset := none, presence := .constant, valueRef := some "E.A" }]]
/-- a well-formed schema exercising every kind of site (non-vacuity) -/
def wGood : SchemaDef :=
  mkSchema (stdTypes ++
    [.type { tyDef "P" "int64" with presence := .optional, minValue := some "-9223372036854775808", maxValue := some "100", attrs := { description := "price, in ticks" } },
     .type { tyDef "U" "uint64" with maxValue := some "18446744073709551615" },
     .type { tyDef "F" "float" with presence := .optional, minValue := some "-1.5e3", maxValue := some "16777216", nullValue := some "NaN" },
     .enum "E" "char" none [{ name := "A", value := "A" }, { name := "Q", value := "\"" }] {},
     .composite "C" none [.type { tyDef "k" "char" with length := 4, presence := .constant, constValue := some "ab" }, ty "z" "uint8"] {}])
    [msg "M" 65535 [fld "p" "P", fld "c" "C" 2] [grp "g" 3 [fld "x" "uint8"] [grp "h" 4 [fld "y" "E"]]]]
    "plain text"


/-- a `float` constant field whose value is an enumerator that does not convert exactly: the one class of
    literal site sbeppc still does not check against the type it is braced into -/
def wFloatRef : SchemaDef :=
  mkSchema (stdTypes ++ [.enum "E" "uint32" none [{ name := "X", value := "16777217" }] {}])
    [msg "M" 1 [{ name := "k", id := 1, type := "float", offset := none, presence := .constant, valueRef := some "E.X" }]]
/-- a group whose size header counts in `float` -/
def wFloatHdr : SchemaDef :=
  mkSchema (stdTypes ++ [.composite "fdim" none [ty "blockLength" "uint16", ty "numInGroup" "float"] {}])
    [msg "M" 1 [] [.mk "g" 2 "fdim" none [fld "x" "uint8"] [] [] {}]]
/-- two enumerators with the same value, written differently -/
def wDupEnum : SchemaDef :=
  mkSchema (stdTypes ++ [.enum "E" "uint8" none [{ name := "A", value := "1" }, { name := "B", value := "01" }] {}])
    [msg "M" 1 [fld "e" "E"]]

theorem wFloatRef_accepted : Accepted wFloatRef := by decide +kernel

theorem wFloatRef_bad : (literalSites wFloatRef pkg).any (fun site => site.verdict == .bad) = true := by
  decide +kernel

/-- the former witnesses of the header-filler narrowing, floating-point header member and duplicate `case`
    defects: the model still predicts the problem, and the acceptance conditions (validator rules of ceb9ad3,
    bf3e3ae, c7e26c2) now reject each of them -/
theorem fixed_header_witnesses :
    (¬ Accepted wWideId ∧ (literalSites wWideId pkg).any (fun site => site.verdict == .bad) = true) ∧
    (¬ Accepted wFloatHdr ∧ (headerTypeProblems wFloatHdr).isEmpty = false) ∧
    (¬ Accepted wDupEnum ∧ (duplicateCaseProblems wDupEnum).isEmpty = false) := by
  refine ⟨⟨?_, ?_⟩, ⟨?_, ?_⟩, ⟨?_, ?_⟩⟩ <;> decide +kernel

/-- the former literal defect classes (a quote in a description, `minValue="08"`, `minValue="16777217"` of a
    float type, the enumerator `'`): accepted, and every site is now a well-formed literal of the schema value -/
theorem fixed_literal_witnesses :
    (Accepted wQuote ∧ (literalSites wQuote pkg).all (fun s => s.verdict == .ok) = true) ∧
    (Accepted wOctal ∧ (literalSites wOctal pkg).all (fun s => s.verdict == .ok) = true) ∧
    (Accepted wFloatInexact ∧ (literalSites wFloatInexact pkg).all (fun s => s.verdict == .ok) = true) ∧
    (Accepted wCharQuote ∧ (literalSites wCharQuote pkg).all (fun s => s.verdict == .ok) = true) := by
  refine ⟨⟨?_, ?_⟩, ⟨?_, ?_⟩, ⟨?_, ?_⟩, ⟨?_, ?_⟩⟩ <;> decide +kernel

/-- text with every character `escape_literal` treats specially, trigraph included -/
def wNasty : SchemaDef :=
  mkSchema (stdTypes ++ [.type { tyDef "K" "char" with length := 8, presence := .constant, constValue := some "a\"b\\?" }])
    [msg "M" 1 [fld "k" "K"]] "say \"hi\" ??/ back\\slash\ttab\nline 'q' \\"

theorem wNasty_fact : Accepted wNasty ∧ (literalSites wNasty pkg).all (fun s => s.verdict == .ok) = true ∧
    (literalSites wNasty pkg).any (fun s => s.kind == "const.string") = true := by
  refine ⟨?_, ?_, ?_⟩ <;> decide +kernel

theorem wGood_fact : Accepted wGood ∧ (literalSites wGood pkg).length > 60 ∧
    (literalSites wGood pkg).all (fun s => s.validated && s.plain && s.verdict == .ok) = true := by
  refine ⟨by decide +kernel, by decide +kernel, by decide +kernel⟩

end Sbepp.Properties.C07
