/-
  C07 witnesses (names, parameters, includes): kernel-decided facts about concrete schemas.
-/
import Sbepp.Lemmas.C07Witness
import Sbepp.Lemmas.C07Scope

namespace Sbepp.Properties.C07
open Sbepp Sbepp.Schema Sbepp.Gen Sbepp.Gen.Literals Sbepp.Gen.Scope

theorem wByte_fact : Accepted wByte ∧ (nameProblems wByte).all (fun p => p.on == "maybe") = false := by
  refine ⟨?_, ?_⟩ <;> decide +kernel

theorem wGood_names : ∃ ds, nsDecls wGood = some ds ∧ (ds.all (fun d => !hazardName d.name)) = true ∧
    ((allNames wGood).all (fun n => !hazardName n)) = true ∧ ds.length > 12 := by
  refine ⟨(nsDecls wGood).getD [], by decide +kernel, by decide +kernel, by decide +kernel, by decide +kernel⟩

/-- the former three-way clash `a/b_c_d`, `a_b/c_d`, `a_b_c/d`: the loop of `make_unique_param_name` appends
    `_<depth>` until the name is new -/
theorem wPaths_fact : Accepted wPaths ∧
    ("messages.M", ["a_num_in_group", "a_b_c_d_num_in_group", "a_b_num_in_group", "a_b_c_d_num_in_group_1",
      "a_b_c_num_in_group", "a_b_c_d_num_in_group_1_1"]) ∈ paramLists wPaths ∧ paramProblems wPaths = [] := by
  refine ⟨?_, ?_, ?_⟩ <;> decide +kernel

/-- the former include defect: the message file now includes the enum of the constant's `valueRef` -/
theorem wValueRef_fact : Accepted wValueRef ∧ missingIncludes wValueRef wValueRef.messages.head! = [] ∧
    messageIncludes wValueRef wValueRef.messages.head! = ["messageHeader", "E"] := by
  refine ⟨?_, ?_, ?_⟩ <;> decide +kernel

end Sbepp.Properties.C07
