/-
  Lemmas for C07 (names): invariants of the transliterated names_generator.
-/
import Sbepp.Gen.Scope

namespace Sbepp.Gen.Scope
open Sbepp Sbepp.Schema
open Sbepp.Extracted

theorem mangleFrom_ok (name : String) (ok : String → Bool) (fuel n : Nat) (m : String)
    (h : mangleFrom name ok fuel n = some m) : ok m = true := by
  induction fuel generalizing n with
  | zero => simp [mangleFrom] at h
  | succ f ih =>
    simp only [mangleFrom] at h
    by_cases hk : ok (suffixed name n) = true
    · simp only [hk, if_true, Option.some.injEq] at h
      subst h; exact hk
    · simp only [hk, Bool.false_eq_true, if_false] at h
      exact ih (n + 1) h

/-- a mangled name is `name_k` for some `k` -/
theorem mangleFrom_shape (name : String) (ok : String → Bool) (fuel n : Nat) (m : String)
    (h : mangleFrom name ok fuel n = some m) : ∃ k, m = suffixed name k := by
  induction fuel generalizing n with
  | zero => simp [mangleFrom] at h
  | succ f ih =>
    simp only [mangleFrom] at h
    by_cases hk : ok (suffixed name n) = true
    · simp only [hk, if_true, Option.some.injEq] at h
      exact ⟨n, h.symm⟩
    · simp only [hk, Bool.false_eq_true, if_false] at h
      exact ih (n + 1) h

theorem mangle_fresh (name : String) (reserved : List String) (m : String)
    (h : mangle name reserved = some m) : m ∉ reserved := by
  have := mangleFrom_ok _ _ _ _ _ h
  simpa using this

theorem mangleGroup_fresh (name : String) (reserved : List String) (m : String)
    (h : mangleGroup name reserved = some m) : m ∉ reserved ∧ entryName m ∉ reserved := by
  have := mangleFrom_ok _ _ _ _ _ h
  simpa using this

theorem entryName_ne (m : String) : entryName m ≠ m := by
  intro h
  have := congrArg String.length h
  simp [entryName, String.length_append] at this

/-! ### the extracted decision sites -/

open Templates (NameSet NameRef InsertSite) in
/-- what `sitesExpected` says about the four decisions of names_generator.hpp -/
theorem sites_of_expected (h : sitesExpected = true) :
    Templates.publicTypeSite = ⟨[(.members, .own)], [.members, .mangled, .nonMangled], [.mangledName], []⟩ ∧
    Templates.inlineTypeSite =
      ⟨[(.members, .own), (.mangled, .own)], [.members, .mangled, .nonMangled], [.mangledName], [.own]⟩ ∧
    Templates.messageSite = ⟨[(.members, .own)], [.members, .mangled, .nonMangled], [.mangledName], []⟩ ∧
    Templates.groupSite =
      ⟨[(.mangled, .own), (.mangled, .ownEntry), (.members, .ownEntry), (.members, .own)],
       [.members, .mangled, .nonMangled], [.mangledName, .mangledEntry], [.own, .ownEntry]⟩ := by
  simp only [sitesExpected, Bool.and_eq_true, beq_iff_eq] at h
  exact ⟨h.1.1.1.2, h.1.1.2, h.1.2, h.2⟩

/-- with the expected sites the site-driven step is the written-out one -/
theorem stepType_eq (h : sitesExpected = true) (nm : List String) (st : NState) (ev : TEvent) :
    stepType nm st ev = stepTypeE nm st ev := by
  obtain ⟨h1, h2, _, _⟩ := sites_of_expected h
  cases ev with
  | pub n members =>
    simp only [stepType, stepTypeE, h1, siteCond, siteReserved, siteInsert, pickSet, pickName, List.any_cons,
      List.any_nil, Bool.or_false, List.flatMap_cons, List.flatMap_nil, List.append_nil, List.map_cons, List.map_nil,
      List.reverse_cons, List.reverse_nil, List.nil_append, List.cons_append, List.append_assoc]
  | inl n members =>
    simp only [stepType, stepTypeE, h2, siteCond, siteReserved, siteInsert, pickSet, pickName, List.any_cons,
      List.any_nil, Bool.or_false, List.flatMap_cons, List.flatMap_nil, List.append_nil, List.map_cons, List.map_nil,
      List.reverse_cons, List.reverse_nil, List.nil_append, List.cons_append, List.append_assoc]

theorem runTypes_eq (h : sitesExpected = true) (nm : List String) (evs : List TEvent) (st : NState) :
    runTypes nm evs st = runTypesE nm evs st := by
  induction evs generalizing st with
  | nil => rfl
  | cons e es ih =>
    simp only [runTypes, runTypesE, stepType_eq h]
    cases stepTypeE nm st e with
    | none => rfl
    | some st1 => simp only [Option.bind_some, ih]

theorem stepMessage_eq (h : sitesExpected = true) (nm : List String) (st : MState) (ev : MEvent) :
    stepMessage nm st ev = stepMessageE nm st ev := by
  obtain ⟨_, _, h3, h4⟩ := sites_of_expected h
  cases ev with
  | msg n members =>
    simp only [stepMessage, stepMessageE, h3, siteCond, siteReserved, siteInsert, pickSet, pickName, List.any_cons,
      List.any_nil, Bool.or_false, List.flatMap_cons, List.flatMap_nil, List.append_nil, List.map_cons, List.map_nil,
      List.reverse_cons, List.reverse_nil, List.nil_append, List.cons_append, List.append_assoc]
  | grp n em =>
    simp only [stepMessage, stepMessageE, h4, siteCond, siteReserved, siteInsert, pickSet, pickName, List.any_cons,
      List.any_nil, Bool.or_false, List.flatMap_cons, List.flatMap_nil, List.append_nil, List.map_cons, List.map_nil,
      List.reverse_cons, List.reverse_nil, List.nil_append, List.cons_append, List.append_assoc, Bool.or_assoc]

theorem runMessages_eq (h : sitesExpected = true) (nm : List String) (evs : List MEvent) (st : MState) :
    runMessages nm evs st = runMessagesE nm evs st := by
  induction evs generalizing st with
  | nil => rfl
  | cons e es ih =>
    simp only [runMessages, runMessagesE, stepMessage_eq h]
    cases stepMessageE nm st e with
    | none => rfl
    | some st1 => simp only [Option.bind_some, ih]

theorem nodup_snoc {xs : List String} {a : String} (h : xs.Nodup) (ha : a ∉ xs) : (xs ++ [a]).Nodup := by
  refine List.nodup_append.mpr ⟨h, List.nodup_cons.mpr ⟨List.not_mem_nil, List.nodup_nil⟩, ?_⟩
  intro x hx y hy hxy
  simp only [List.mem_singleton] at hy
  subst hy; subst hxy
  exact ha hx

theorem nodup_snoc2 {xs : List String} {a b : String} (h : xs.Nodup) (ha : a ∉ xs) (hb : b ∉ xs) (hab : a ≠ b) :
    (xs ++ [a, b]).Nodup := by
  have : xs ++ [a, b] = (xs ++ [a]) ++ [b] := by simp
  rw [this]
  refine nodup_snoc (nodup_snoc h ha) ?_
  simp only [List.mem_append, List.mem_singleton, not_or]
  exact ⟨hb, fun hh => hab hh.symm⟩

theorem dupNames_nil (xs : List String) (h : xs.Nodup) : dupNames xs = [] := by
  induction xs with
  | nil => rfl
  | cons x xs ih =>
    have hc := List.nodup_cons.mp h
    simp [dupNames, hc.1, ih hc.2]

/-! ### types -/

theorem stepTypeE_nodup (nm : List String) (st st' : NState) (ev : TEvent)
    (h : stepTypeE nm st ev = some st') (hn : st.mangled.Nodup) : st'.mangled.Nodup := by
  cases ev with
  | pub n members =>
    simp only [stepTypeE] at h
    by_cases hc : members.contains n = true
    · simp only [hc, if_true] at h
      obtain ⟨m, hm, hst⟩ := Option.map_eq_some_iff.mp h
      subst hst
      have hf := mangle_fresh _ _ _ hm
      simp only [List.mem_append, not_or] at hf
      exact List.nodup_cons.mpr ⟨hf.1.2, hn⟩
    · simp only [hc, Bool.false_eq_true, if_false, Option.some.injEq] at h
      subst h; exact hn
  | inl n members =>
    simp only [stepTypeE] at h
    by_cases hc : (members.contains n || st.mangled.contains n) = true
    · simp only [hc, if_true] at h
      obtain ⟨m, hm, hst⟩ := Option.map_eq_some_iff.mp h
      subst hst
      have hf := mangle_fresh _ _ _ hm
      simp only [List.mem_append, not_or] at hf
      exact List.nodup_cons.mpr ⟨hf.1.2, hn⟩
    · simp only [hc, Bool.false_eq_true, if_false, Option.some.injEq] at h
      subst h
      simp only [Bool.or_eq_true, not_or, Bool.not_eq_true, List.contains_eq_mem, decide_eq_false_iff_not] at hc
      exact List.nodup_cons.mpr ⟨hc.2, hn⟩

/-- the names declared in `S::detail::types` stay pairwise distinct and are all recorded as taken -/
theorem stepTypeE_declared (nm : List String) (st st' : NState) (ev : TEvent)
    (h : stepTypeE nm st ev = some st') (hn : st.declared.Nodup) (hs : ∀ x ∈ st.declared, x ∈ st.mangled) :
    st'.declared.Nodup ∧ ∀ x ∈ st'.declared, x ∈ st'.mangled := by
  cases ev with
  | pub n members =>
    simp only [stepTypeE] at h
    by_cases hc : members.contains n = true
    · simp only [hc, if_true] at h
      obtain ⟨m, hm, hst⟩ := Option.map_eq_some_iff.mp h
      subst hst
      have hf := mangle_fresh _ _ _ hm
      simp only [List.mem_append, not_or] at hf
      refine ⟨nodup_snoc hn (fun hx => hf.1.2 (hs m hx)), ?_⟩
      intro x hx
      simp only [List.mem_append, List.mem_singleton] at hx
      rcases hx with hx | hx
      · exact List.mem_cons_of_mem _ (hs x hx)
      · subst hx; exact List.mem_cons_self
    · simp only [hc, Bool.false_eq_true, if_false, Option.some.injEq] at h
      subst h; exact ⟨hn, hs⟩
  | inl n members =>
    simp only [stepTypeE] at h
    by_cases hc : (members.contains n || st.mangled.contains n) = true
    · simp only [hc, if_true] at h
      obtain ⟨m, hm, hst⟩ := Option.map_eq_some_iff.mp h
      subst hst
      have hf := mangle_fresh _ _ _ hm
      simp only [List.mem_append, not_or] at hf
      refine ⟨nodup_snoc hn (fun hx => hf.1.2 (hs m hx)), ?_⟩
      intro x hx
      simp only [List.mem_append, List.mem_singleton] at hx
      rcases hx with hx | hx
      · exact List.mem_cons_of_mem _ (hs x hx)
      · subst hx; exact List.mem_cons_self
    · simp only [hc, Bool.false_eq_true, if_false, Option.some.injEq] at h
      subst h
      simp only [Bool.or_eq_true, not_or, Bool.not_eq_true, List.contains_eq_mem, decide_eq_false_iff_not] at hc
      refine ⟨nodup_snoc hn (fun hx => hc.2 (hs n hx)), ?_⟩
      intro x hx
      simp only [List.mem_append, List.mem_singleton] at hx
      rcases hx with hx | hx
      · exact List.mem_cons_of_mem _ (hs x hx)
      · subst hx; exact List.mem_cons_self

theorem runTypesE_nodup (nm : List String) (evs : List TEvent) (st st' : NState)
    (h : runTypesE nm evs st = some st') (hn : st.mangled.Nodup) (hd : st.declared.Nodup)
    (hs : ∀ x ∈ st.declared, x ∈ st.mangled) : st'.mangled.Nodup ∧ st'.declared.Nodup := by
  induction evs generalizing st with
  | nil => simp only [runTypesE, Option.some.injEq] at h; subst h; exact ⟨hn, hd⟩
  | cons e es ih =>
    simp only [runTypesE] at h
    cases hst : stepTypeE nm st e with
    | none => simp [hst] at h
    | some st1 =>
      simp only [hst, Option.bind_some] at h
      have := stepTypeE_declared nm st st1 e hst hd hs
      exact ih st1 h (stepTypeE_nodup nm st st1 e hst hn) this.1 this.2

theorem runTypes_nodup (hx : sitesExpected = true) (nm : List String) (evs : List TEvent) (st st' : NState)
    (h : runTypes nm evs st = some st') (hn : st.mangled.Nodup) (hd : st.declared.Nodup)
    (hs : ∀ x ∈ st.declared, x ∈ st.mangled) : st'.mangled.Nodup ∧ st'.declared.Nodup :=
  runTypesE_nodup nm evs st st' (runTypes_eq hx nm evs st ▸ h) hn hd hs

/-- members of the entity an event is about -/
def TEvent.members : TEvent → List String
  | .pub _ m => m
  | .inl _ m => m

/-- every step appends exactly one decision, whose implementation name is not a member name of the entity
    and, when it was mangled, is none of the reserved names -/
theorem stepTypeE_decision (nm : List String) (st st' : NState) (ev : TEvent)
    (h : stepTypeE nm st ev = some st') :
    ∃ a, st'.out = st.out ++ [a] ∧ a.impl ∉ ev.members ∧
      (a.impl ≠ a.name → a.impl ∉ st.mangled ∧ a.impl ∉ nm ∧ ∃ k, a.impl = suffixed a.name k) := by
  cases ev with
  | pub n members =>
    simp only [stepTypeE] at h
    by_cases hc : members.contains n = true
    · simp only [hc, if_true] at h
      obtain ⟨m, hm, hst⟩ := Option.map_eq_some_iff.mp h
      subst hst
      have hf := mangle_fresh _ _ _ hm
      simp only [List.mem_append, not_or] at hf
      exact ⟨⟨n, m, true⟩, rfl, hf.1.1, fun _ => ⟨hf.1.2, hf.2, mangleFrom_shape _ _ _ _ _ hm⟩⟩
    · simp only [hc, Bool.false_eq_true, if_false, Option.some.injEq] at h
      subst h
      refine ⟨⟨n, n, true⟩, rfl, ?_, fun hne => absurd rfl hne⟩
      simpa [TEvent.members] using hc
  | inl n members =>
    simp only [stepTypeE] at h
    by_cases hc : (members.contains n || st.mangled.contains n) = true
    · simp only [hc, if_true] at h
      obtain ⟨m, hm, hst⟩ := Option.map_eq_some_iff.mp h
      subst hst
      have hf := mangle_fresh _ _ _ hm
      simp only [List.mem_append, not_or] at hf
      exact ⟨⟨n, m, false⟩, rfl, hf.1.1, fun _ => ⟨hf.1.2, hf.2, mangleFrom_shape _ _ _ _ _ hm⟩⟩
    · simp only [hc, Bool.false_eq_true, if_false, Option.some.injEq] at h
      subst h
      simp only [Bool.or_eq_true, not_or, Bool.not_eq_true, List.contains_eq_mem, decide_eq_false_iff_not] at hc
      exact ⟨⟨n, n, false⟩, rfl, hc.1, fun hne => absurd rfl hne⟩

theorem stepType_decision (hx : sitesExpected = true) (nm : List String) (st st' : NState) (ev : TEvent)
    (h : stepType nm st ev = some st') :
    ∃ a, st'.out = st.out ++ [a] ∧ a.impl ∉ ev.members ∧
      (a.impl ≠ a.name → a.impl ∉ st.mangled ∧ a.impl ∉ nm ∧ ∃ k, a.impl = suffixed a.name k) :=
  stepTypeE_decision nm st st' ev (stepType_eq hx nm st ev ▸ h)

/-! ### messages -/

theorem stepMessageE_nodup (nm : List String) (st st' : MState) (ev : MEvent)
    (h : stepMessageE nm st ev = some st') (hn : st.mangled.Nodup) : st'.mangled.Nodup := by
  cases ev with
  | msg n members =>
    simp only [stepMessageE] at h
    by_cases hc : members.contains n = true
    · simp only [hc, if_true] at h
      obtain ⟨m, hm, hst⟩ := Option.map_eq_some_iff.mp h
      subst hst
      have hf := mangle_fresh _ _ _ hm
      simp only [List.mem_append, not_or] at hf
      exact List.nodup_cons.mpr ⟨hf.1.2, hn⟩
    · simp only [hc, Bool.false_eq_true, if_false, Option.some.injEq] at h
      subst h; exact hn
  | grp n em =>
    simp only [stepMessageE] at h
    by_cases hc : (st.mangled.contains n || st.mangled.contains (entryName n) || em.contains (entryName n) ||
        em.contains n) = true
    · simp only [hc, if_true] at h
      obtain ⟨m, hm, hst⟩ := Option.map_eq_some_iff.mp h
      subst hst
      obtain ⟨h1, h2⟩ := mangleGroup_fresh _ _ _ hm
      simp only [List.mem_append, not_or] at h1 h2
      refine List.nodup_cons.mpr ⟨?_, List.nodup_cons.mpr ⟨h1.1.2, hn⟩⟩
      simp only [List.mem_cons, not_or]
      exact ⟨entryName_ne m, h2.1.2⟩
    · simp only [hc, Bool.false_eq_true, if_false, Option.some.injEq] at h
      subst h
      simp only [Bool.or_eq_true, not_or, Bool.not_eq_true, List.contains_eq_mem, decide_eq_false_iff_not] at hc
      refine List.nodup_cons.mpr ⟨?_, List.nodup_cons.mpr ⟨hc.1.1.1, hn⟩⟩
      simp only [List.mem_cons, not_or]
      exact ⟨entryName_ne n, hc.1.1.2⟩

/-- the class names declared in `S::detail::messages` (group classes, entry classes, mangled message classes)
    stay pairwise distinct and are all recorded as taken -/
theorem stepMessageE_declared (nm : List String) (st st' : MState) (ev : MEvent)
    (h : stepMessageE nm st ev = some st') (hn : st.declared.Nodup) (hs : ∀ x ∈ st.declared, x ∈ st.mangled) :
    st'.declared.Nodup ∧ ∀ x ∈ st'.declared, x ∈ st'.mangled := by
  cases ev with
  | msg n members =>
    simp only [stepMessageE] at h
    by_cases hc : members.contains n = true
    · simp only [hc, if_true] at h
      obtain ⟨m, hm, hst⟩ := Option.map_eq_some_iff.mp h
      subst hst
      have hf := mangle_fresh _ _ _ hm
      simp only [List.mem_append, not_or] at hf
      refine ⟨nodup_snoc hn (fun hx => hf.1.2 (hs m hx)), ?_⟩
      intro x hx
      simp only [List.mem_append, List.mem_singleton] at hx
      rcases hx with hx | hx
      · exact List.mem_cons_of_mem _ (hs x hx)
      · subst hx; exact List.mem_cons_self
    · simp only [hc, Bool.false_eq_true, if_false, Option.some.injEq] at h
      subst h; exact ⟨hn, hs⟩
  | grp n em =>
    simp only [stepMessageE] at h
    by_cases hc : (st.mangled.contains n || st.mangled.contains (entryName n) || em.contains (entryName n) ||
        em.contains n) = true
    · simp only [hc, if_true] at h
      obtain ⟨m, hm, hst⟩ := Option.map_eq_some_iff.mp h
      subst hst
      obtain ⟨h1, h2⟩ := mangleGroup_fresh _ _ _ hm
      simp only [List.mem_append, not_or] at h1 h2
      refine ⟨nodup_snoc2 hn (fun hx => h1.1.2 (hs _ hx)) (fun hx => h2.1.2 (hs _ hx)) (entryName_ne m).symm, ?_⟩
      intro x hx
      simp only [List.mem_append, List.mem_cons, List.not_mem_nil, or_false] at hx
      rcases hx with hx | hx | hx
      · exact List.mem_cons_of_mem _ (List.mem_cons_of_mem _ (hs x hx))
      · subst hx; exact List.mem_cons_of_mem _ List.mem_cons_self
      · subst hx; exact List.mem_cons_self
    · simp only [hc, Bool.false_eq_true, if_false, Option.some.injEq] at h
      subst h
      simp only [Bool.or_eq_true, not_or, Bool.not_eq_true, List.contains_eq_mem, decide_eq_false_iff_not] at hc
      refine ⟨nodup_snoc2 hn (fun hx => hc.1.1.1 (hs _ hx)) (fun hx => hc.1.1.2 (hs _ hx)) (entryName_ne n).symm, ?_⟩
      intro x hx
      simp only [List.mem_append, List.mem_cons, List.not_mem_nil, or_false] at hx
      rcases hx with hx | hx | hx
      · exact List.mem_cons_of_mem _ (List.mem_cons_of_mem _ (hs x hx))
      · subst hx; exact List.mem_cons_of_mem _ List.mem_cons_self
      · subst hx; exact List.mem_cons_self

theorem runMessagesE_nodup (nm : List String) (evs : List MEvent) (st st' : MState)
    (h : runMessagesE nm evs st = some st') (hn : st.mangled.Nodup) (hd : st.declared.Nodup)
    (hs : ∀ x ∈ st.declared, x ∈ st.mangled) : st'.mangled.Nodup ∧ st'.declared.Nodup := by
  induction evs generalizing st with
  | nil => simp only [runMessagesE, Option.some.injEq] at h; subst h; exact ⟨hn, hd⟩
  | cons e es ih =>
    simp only [runMessagesE] at h
    cases hst : stepMessageE nm st e with
    | none => simp [hst] at h
    | some st1 =>
      simp only [hst, Option.bind_some] at h
      have := stepMessageE_declared nm st st1 e hst hd hs
      exact ih st1 h (stepMessageE_nodup nm st st1 e hst hn) this.1 this.2

theorem runMessages_nodup (hx : sitesExpected = true) (nm : List String) (evs : List MEvent) (st st' : MState)
    (h : runMessages nm evs st = some st') (hn : st.mangled.Nodup) (hd : st.declared.Nodup)
    (hs : ∀ x ∈ st.declared, x ∈ st.mangled) : st'.mangled.Nodup ∧ st'.declared.Nodup :=
  runMessagesE_nodup nm evs st st' (runMessages_eq hx nm evs st ▸ h) hn hd hs

def MEvent.members : MEvent → List String
  | .msg _ m => m
  | .grp _ m => m

/-- message class / group class / entry class names are no member names of their level -/
theorem stepMessageE_decision (nm : List String) (st st' : MState) (ev : MEvent)
    (h : stepMessageE nm st ev = some st') :
    ∃ a, st'.out = st.out ++ [a] ∧ a.impl ∉ ev.members ∧ (a.isMessage = false → a.entry ∉ ev.members) := by
  cases ev with
  | msg n members =>
    simp only [stepMessageE] at h
    by_cases hc : members.contains n = true
    · simp only [hc, if_true] at h
      obtain ⟨m, hm, hst⟩ := Option.map_eq_some_iff.mp h
      subst hst
      have hf := mangle_fresh _ _ _ hm
      simp only [List.mem_append, not_or] at hf
      exact ⟨⟨n, m, "", true⟩, rfl, hf.1.1, fun hx => by simp at hx⟩
    · simp only [hc, Bool.false_eq_true, if_false, Option.some.injEq] at h
      subst h
      refine ⟨⟨n, n, "", true⟩, rfl, ?_, fun hx => by simp at hx⟩
      simpa [MEvent.members] using hc
  | grp n em =>
    simp only [stepMessageE] at h
    by_cases hc : (st.mangled.contains n || st.mangled.contains (entryName n) || em.contains (entryName n) ||
        em.contains n) = true
    · simp only [hc, if_true] at h
      obtain ⟨m, hm, hst⟩ := Option.map_eq_some_iff.mp h
      subst hst
      obtain ⟨h1, h2⟩ := mangleGroup_fresh _ _ _ hm
      simp only [List.mem_append, not_or] at h1 h2
      exact ⟨⟨n, m, entryName m, false⟩, rfl, h1.1.1, fun _ => h2.1.1⟩
    · simp only [hc, Bool.false_eq_true, if_false, Option.some.injEq] at h
      subst h
      simp only [Bool.or_eq_true, not_or, Bool.not_eq_true, List.contains_eq_mem, decide_eq_false_iff_not] at hc
      exact ⟨⟨n, n, entryName n, false⟩, rfl, hc.2, fun _ => hc.1.2⟩

theorem stepMessage_decision (hx : sitesExpected = true) (nm : List String) (st st' : MState) (ev : MEvent)
    (h : stepMessage nm st ev = some st') :
    ∃ a, st'.out = st.out ++ [a] ∧ a.impl ∉ ev.members ∧ (a.isMessage = false → a.entry ∉ ev.members) :=
  stepMessageE_decision nm st st' ev (stepMessage_eq hx nm st ev ▸ h)

/-- with the expected decision sites no class name is declared twice in a `detail` namespace -/
theorem duplicateProblems_nil (hx : sitesExpected = true) (s : SchemaDef) : duplicateProblems s = [] := by
  unfold duplicateProblems
  have h1 : ((typeNames s.types).map (fun ts => dupProblemsOf "detail.types" ts.declared)).getD [] = [] := by
    cases ht : typeNames s.types with
    | none => rfl
    | some ts =>
      have := (runTypes_nodup hx _ _ _ _ ht List.nodup_nil List.nodup_nil (fun _ h => by cases h)).2
      simp [dupProblemsOf, dupNames_nil _ this]
  have h2 : ((messageNames s.messages).map (fun ms => dupProblemsOf "detail.messages" ms.declared)).getD [] = [] := by
    cases hm : messageNames s.messages with
    | none => rfl
    | some ms =>
      have := (runMessages_nodup hx _ _ _ _ hm List.nodup_nil List.nodup_nil (fun _ h => by cases h)).2
      simp [dupProblemsOf, dupNames_nil _ this]
  rw [h1, h2]; rfl

end Sbepp.Gen.Scope

namespace Sbepp.Gen.Scope
open Sbepp Sbepp.Schema

/-! ### includes -/

/-- a constant field whose value needs no file beyond those the generator records for it: always when
    `value_ref_to_enumerator` records the enum (`Extracted.Templates.valueRefRecordsDependency`); otherwise its
    type must not be primitive, a constant *type* must carry a literal value (no `valueRef`), and an enum-typed
    constant must name an enumerator of that very enum -/
def constFieldPlain (types : List Elem) (f : FieldDef) : Bool :=
  Extracted.Templates.valueRefRecordsDependency || !constField types f ||
  (!isPrimitive f.type &&
   (match lookup types f.type with
    | some (.type t) => t.valueRef.isNone
    | some (.enum _ _ _ _ _) =>
      (match f.valueRef with
       | some r => canon types (enumOfValueRef r) == canon types f.type
       | none => true)
    | _ => true))

mutual
  def groupPlain (types : List Elem) : GroupDef → Bool
    | .mk _ _ _ _ gf gg _ _ => gf.all (constFieldPlain types) && groupsPlain types gg
  def groupsPlain (types : List Elem) : List GroupDef → Bool
    | [] => true
    | g :: gs => groupPlain types g && groupsPlain types gs
end

/-- every constant field of the level and of the groups below it is plain -/
def levelPlain (types : List Elem) (fields : List FieldDef) (groups : List GroupDef) : Bool :=
  fields.all (constFieldPlain types) && groupsPlain types groups

theorem fieldNeeds_sub (types : List Elem) (f : FieldDef) (h : constFieldPlain types f = true) :
    ∀ n ∈ fieldNeeds types f, n ∈ fieldIncludes types f := by
  intro n hn
  unfold fieldNeeds at hn
  unfold fieldIncludes
  by_cases hflag : Extracted.Templates.valueRefRecordsDependency = true
  · simp only [hflag, if_true]; exact hn
  · rcases List.mem_append.mp hn with hn | hn
    · exact List.mem_append_left _ hn
    · apply List.mem_append_left
      unfold valueRefNeeds at hn
      by_cases hc : constField types f = true
      · simp only [hc, if_true] at hn
        have hflag' : Extracted.Templates.valueRefRecordsDependency = false := by simpa using hflag
        simp only [constFieldPlain, hflag', hc, Bool.not_true, Bool.false_or, Bool.and_eq_true,
          Bool.not_eq_true'] at h
        obtain ⟨hprim, hm⟩ := h
        simp only [hprim, Bool.false_eq_true, if_false]
        cases hl : lookup types f.type with
        | none => simp [hprim, hl] at hn
        | some e =>
          cases e with
          | type t =>
            simp only [hl, Option.isNone_iff_eq_none] at hm
            have : constTypeNeeds types t = [] := by
              unfold constTypeNeeds; simp [hm]
            cases hv : f.valueRef <;> simp [hprim, hl, hv, this] at hn
          | enum en enc off vs a =>
            cases hv : f.valueRef with
            | none => simp [hprim, hl, hv] at hn
            | some r =>
              simp only [hl, hv, beq_iff_eq] at hm
              simp only [hprim, hl, hv, List.mem_singleton] at hn
              simp [hn, hm]
          | composite _ _ _ _ => cases hv : f.valueRef <;> simp [hprim, hl, hv] at hn
          | ref _ _ _ _ => cases hv : f.valueRef <;> simp [hprim, hl, hv] at hn
          | set _ _ _ _ _ => cases hv : f.valueRef <;> simp [hprim, hl, hv] at hn
      · simp [hc] at hn

/-- when `value_ref_to_enumerator` records its dependency, every level is plain -/
theorem constFieldPlain_of_flag (types : List Elem) (f : FieldDef)
    (h : Extracted.Templates.valueRefRecordsDependency = true) : constFieldPlain types f = true := by
  simp [constFieldPlain, h]

theorem fieldsNeeds_sub (types : List Elem) (fields : List FieldDef)
    (h : fields.all (constFieldPlain types) = true) :
    ∀ n ∈ fields.flatMap (fieldNeeds types), n ∈ fields.flatMap (fieldIncludes types) := by
  intro n hn
  simp only [List.all_eq_true] at h
  obtain ⟨f, hf, hnf⟩ := List.mem_flatMap.mp hn
  exact List.mem_flatMap.mpr ⟨f, hf, fieldNeeds_sub types f (h f hf) n hnf⟩

mutual
  theorem groupNeeds_sub (types : List Elem) (g : GroupDef) (h : groupPlain types g = true) :
      ∀ n ∈ groupNeeds types g, n ∈ groupIncludes types g := by
    match g with
    | .mk _ _ dim _ gf gg gd _ =>
      intro n hn
      simp only [groupPlain, Bool.and_eq_true] at h
      simp only [groupNeeds, List.mem_cons, List.mem_append] at hn
      simp only [groupIncludes, List.mem_cons, List.mem_append]
      rcases hn with hn | (hn | hn) | hn
      · exact Or.inl hn
      · exact Or.inr (Or.inl (Or.inl (fieldsNeeds_sub types gf h.1 n hn)))
      · exact Or.inr (Or.inl (Or.inr hn))
      · exact Or.inr (Or.inr (groupsNeeds_sub types gg h.2 n hn))
  theorem groupsNeeds_sub (types : List Elem) (gs : List GroupDef) (h : groupsPlain types gs = true) :
      ∀ n ∈ groupsNeeds types gs, n ∈ groupsIncludes types gs := by
    match gs with
    | [] => intro n hn; simp [groupsNeeds] at hn
    | g :: gs' =>
      intro n hn
      simp only [groupsPlain, Bool.and_eq_true] at h
      simp only [groupsNeeds, List.mem_append] at hn
      simp only [groupsIncludes, List.mem_append]
      rcases hn with hn | hn
      · exact Or.inl (groupNeeds_sub types g h.1 n hn)
      · exact Or.inr (groupsNeeds_sub types gs' h.2 n hn)
end

theorem levelNeeds_sub (types : List Elem) (fields : List FieldDef) (datas : List DataDef) (gs : List GroupDef)
    (h : levelPlain types fields gs = true) :
    ∀ n ∈ levelNeeds types fields datas gs, n ∈ levelIncludes types fields datas gs := by
  intro n hn
  simp only [levelPlain, Bool.and_eq_true] at h
  simp only [levelNeeds, List.mem_append] at hn
  simp only [levelIncludes, List.mem_append]
  rcases hn with (hn | hn) | hn
  · exact Or.inl (Or.inl (fieldsNeeds_sub types fields h.1 n hn))
  · exact Or.inl (Or.inr hn)
  · exact Or.inr (groupsNeeds_sub types gs h.2 n hn)

theorem reachable_sup (types : List Elem) (fuel : Nat) (acc : List String) :
    ∀ n ∈ acc, n ∈ reachable types fuel acc := by
  induction fuel generalizing acc with
  | zero => intro n hn; simpa [reachable] using hn
  | succ f ih =>
    intro n hn
    simp only [reachable]
    split
    · exact hn
    · exact ih _ n (List.mem_append_left _ hn)

end Sbepp.Gen.Scope

namespace Sbepp.Gen.Scope
open Sbepp Sbepp.Schema

/-! ### public paths -/

mutual
  theorem inlineDecls_ns (file path : String) (e : Elem) (as : List Assigned) :
      ∀ d ∈ (inlineDecls file path e as).1, d.ns = "detail.types" := by
    match e, as with
    | .ref _ _ _ _, as => intro d hd; simp [inlineDecls] at hd
    | .composite n _ elems _, a :: as =>
      intro d hd
      simp only [inlineDecls, List.mem_cons] at hd
      rcases hd with hd | hd
      · subst hd; rfl
      · exact inlineDeclsL_ns file (path ++ n ++ ".") elems as d hd
    | .composite _ _ _ _, [] => intro d hd; simp [inlineDecls] at hd
    | .type t, a :: as => intro d hd; simp only [inlineDecls, List.mem_singleton] at hd; subst hd; rfl
    | .type _, [] => intro d hd; simp [inlineDecls] at hd
    | .enum _ _ _ _ _, a :: as => intro d hd; simp only [inlineDecls, List.mem_singleton] at hd; subst hd; rfl
    | .enum _ _ _ _ _, [] => intro d hd; simp [inlineDecls] at hd
    | .set _ _ _ _ _, a :: as => intro d hd; simp only [inlineDecls, List.mem_singleton] at hd; subst hd; rfl
    | .set _ _ _ _ _, [] => intro d hd; simp [inlineDecls] at hd
  theorem inlineDeclsL_ns (file path : String) (es : List Elem) (as : List Assigned) :
      ∀ d ∈ (inlineDeclsL file path es as).1, d.ns = "detail.types" := by
    match es with
    | [] => intro d hd; simp [inlineDeclsL] at hd
    | e :: es' =>
      intro d hd
      simp only [inlineDeclsL, List.mem_append] at hd
      rcases hd with hd | hd
      · exact inlineDecls_ns file path e as d hd
      · exact inlineDeclsL_ns file path es' _ d hd
end

theorem find_skip {α} (p : α → Bool) (xs ys : List α) (h : ∀ x ∈ xs, p x = false) :
    (xs ++ ys).find? p = ys.find? p := by
  induction xs with
  | nil => rfl
  | cons x xs ih =>
    simp only [List.cons_append, List.find?_cons, h x (List.mem_cons_self)]
    exact ih (fun y hy => h y (List.mem_cons_of_mem _ hy))

theorem publicTypeDecls_find (e : Elem) (impl : String) :
    (publicTypeDecls e impl).find? (fun d => d.ns == "types" && d.name == e.name) =
      some ⟨"types", e.name, "types." ++ e.name,
        if impl == e.name then typeTemplateKind e else aliasKind e, e.name⟩ := by
  unfold publicTypeDecls
  by_cases h : (impl == e.name) = true
  · simp [h]
  · have : (("detail.types" : String) == "types") = false := by decide
    simp [h, this]

theorem publicTypeDecls_other (e : Elem) (impl n : String) (hn : e.name ≠ n) :
    ∀ d ∈ publicTypeDecls e impl, (d.ns == "types" && d.name == n) = false := by
  intro d hd
  unfold publicTypeDecls at hd
  have hdt : (("detail.types" : String) == "types") = false := by decide
  by_cases h : (impl == e.name) = true
  · simp only [h, if_true, List.mem_singleton] at hd
    subst hd
    simp [hn]
  · simp only [h, Bool.false_eq_true, if_false, List.mem_cons, List.not_mem_nil, or_false] at hd
    rcases hd with hd | hd <;> subst hd <;> simp [hn, hdt]

/-- **public type names resolve**: with pairwise distinct type names, `::S::types::N` denotes the type `N`
    of the schema whatever the names generator decided (class in `S::types`, or alias of a mangled class) -/
theorem typeDecls_resolve (types : List Elem) (pubs inls : List Assigned)
    (hn : (types.map Elem.name).Nodup) (e : Elem) (he : e ∈ types) :
    resolvePublic (typeDecls types pubs inls) "types" e.name = some ("types." ++ e.name) := by
  induction types generalizing pubs inls with
  | nil => cases he
  | cons e0 es ih =>
    simp only [List.map_cons, List.nodup_cons] at hn
    simp only [typeDecls]
    by_cases h0 : e0.name = e.name
    · -- the head declares the name
      unfold resolvePublic
      rw [List.append_assoc, List.find?_append]
      rw [← h0, publicTypeDecls_find]
      simp
    · have he' : e ∈ es := by
        rcases List.mem_cons.mp he with h | h
        · exact absurd (by rw [h]) h0
        · exact h
      unfold resolvePublic
      rw [List.append_assoc, find_skip _ _ _ (publicTypeDecls_other e0 _ e.name h0)]
      have hskip : ∀ d ∈ (inlineOf e0 inls).1, (d.ns == "types" && d.name == e.name) = false := by
        intro d hd
        have hns : d.ns = "detail.types" := by
          unfold inlineOf at hd
          cases e0 with
          | composite n o elems a => exact inlineDeclsL_ns _ _ elems inls d hd
          | type t => simp at hd
          | ref _ _ _ _ => simp at hd
          | enum _ _ _ _ _ => simp at hd
          | set _ _ _ _ _ => simp at hd
        have : (("detail.types" : String) == "types") = false := by decide
        simp [hns, this]
      rw [find_skip _ _ _ hskip]
      exact ih _ _ hn.2 he'

mutual
  theorem groupDecls_ns (path : String) (g : GroupDef) (as : List MAssigned) :
      ∀ d ∈ (groupDecls path g as).1, d.ns = "detail.messages" := by
    match g, as with
    | .mk n _ _ _ _ groups _ _, a :: as =>
      intro d hd
      simp only [groupDecls, List.mem_cons] at hd
      rcases hd with hd | hd | hd
      · subst hd; rfl
      · subst hd; rfl
      · exact groupDeclsL_ns (path ++ n ++ ".") groups as d hd
    | .mk _ _ _ _ _ _ _ _, [] => intro d hd; simp [groupDecls] at hd
  theorem groupDeclsL_ns (path : String) (gs : List GroupDef) (as : List MAssigned) :
      ∀ d ∈ (groupDeclsL path gs as).1, d.ns = "detail.messages" := by
    match gs with
    | [] => intro d hd; simp [groupDeclsL] at hd
    | g :: gs' =>
      intro d hd
      simp only [groupDeclsL, List.mem_append] at hd
      rcases hd with hd | hd
      · exact groupDecls_ns path g as d hd
      · exact groupDeclsL_ns path gs' _ d hd
end

theorem publicMessageDecls_find (m : MessageDef) (impl : String) :
    ((publicMessageDecls m impl).find? (fun d => d.ns == "messages" && d.name == m.name)).map (·.entity) =
      some ("messages." ++ m.name) := by
  unfold publicMessageDecls
  by_cases h : (impl == m.name) = true
  · simp [h]
  · have : (("detail.messages" : String) == "messages") = false := by decide
    simp [h, this]

theorem publicMessageDecls_other (m : MessageDef) (impl n : String) (hn : m.name ≠ n) :
    ∀ d ∈ publicMessageDecls m impl, (d.ns == "messages" && d.name == n) = false := by
  intro d hd
  unfold publicMessageDecls at hd
  have hdt : (("detail.messages" : String) == "messages") = false := by decide
  by_cases h : (impl == m.name) = true
  · simp only [h, if_true, List.mem_singleton] at hd
    subst hd
    simp [hn]
  · simp only [h, Bool.false_eq_true, if_false, List.mem_cons, List.not_mem_nil, or_false] at hd
    rcases hd with hd | hd <;> subst hd <;> simp [hn, hdt]

theorem messageDecls_resolve (msgs : List MessageDef) (as : List MAssigned)
    (hn : (msgs.map (·.name)).Nodup) (m : MessageDef) (hm : m ∈ msgs) :
    resolvePublic (messageDecls msgs as) "messages" m.name = some ("messages." ++ m.name) := by
  induction msgs generalizing as with
  | nil => cases hm
  | cons m0 ms ih =>
    simp only [List.map_cons, List.nodup_cons] at hn
    simp only [messageDecls]
    by_cases h0 : m0.name = m.name
    · unfold resolvePublic
      rw [List.append_assoc, List.find?_append]
      have := publicMessageDecls_find m0 (mimplHead as m0.name)
      rw [← h0]
      cases hf : (publicMessageDecls m0 (mimplHead as m0.name)).find?
          (fun d => d.ns == "messages" && d.name == m0.name) with
      | none => simp [hf] at this
      | some d => simp only [hf, Option.map_some, Option.some.injEq] at this; simp [this]
    · have hm' : m ∈ ms := by
        rcases List.mem_cons.mp hm with h | h
        · exact absurd (by rw [h]) h0
        · exact h
      unfold resolvePublic
      rw [List.append_assoc, find_skip _ _ _ (publicMessageDecls_other m0 _ m.name h0)]
      have hskip : ∀ d ∈ (groupDeclsL ("messages." ++ m0.name ++ ".") m0.groups as.tail).1,
          (d.ns == "messages" && d.name == m.name) = false := by
        intro d hd
        have hns := groupDeclsL_ns _ _ _ d hd
        have : (("detail.messages" : String) == "messages") = false := by decide
        simp [hns, this]
      rw [find_skip _ _ _ hskip]
      exact ih _ hn.2 hm'

end Sbepp.Gen.Scope

namespace Sbepp.Gen.Scope
open Sbepp Sbepp.Schema
open Sbepp.Extracted

/-! ### names the templates give a meaning to -/

/-- every identifier that `Extracted.Templates` lists: template parameters, captured parameters and locals,
    identifiers used unqualified by the generated classes, members of the runtime base classes, free functions
    generated next to types, platform macros, and `std` -/
def hazardNames : List String :=
  Templates.classTemplates.flatMap (fun c => c.tparams ++ c.typeCaptured ++
    (if c.kind == "requiredType" || c.kind == "optionalType" then c.unqualified else [])) ++
  Templates.memberTemplates.flatMap (fun m => m.own ++ m.captured) ++
  Templates.dotMembers ++ Templates.baseMembers.flatMap (·.2.2) ++
  Templates.namespaceFunctions.flatMap (·.2) ++ Templates.objectMacros ++ Templates.functionMacros ++ ["std"]

def hazardName (n : String) : Bool := hazardNames.contains n

theorem not_hazard {n : String} (h : hazardName n = false) : n ∉ hazardNames := by
  simpa [hazardName] using h

theorem classTParams_sub (kind : String) : ∀ x ∈ classTParams kind, x ∈ hazardNames := by
  intro x hx
  simp only [classTParams, List.mem_flatMap, List.mem_filter] at hx
  obtain ⟨c, ⟨hc, _⟩, hxc⟩ := hx
  simp only [hazardNames, List.mem_append, List.mem_flatMap]
  exact Or.inl (Or.inl (Or.inl (Or.inl (Or.inl (Or.inl (Or.inl ⟨c, hc, Or.inl (Or.inl hxc)⟩))))))

theorem classTypeCaptured_sub (kind : String) : ∀ x ∈ classTypeCaptured kind, x ∈ hazardNames := by
  intro x hx
  simp only [classTypeCaptured, List.mem_flatMap, List.mem_filter] at hx
  obtain ⟨c, ⟨hc, _⟩, hxc⟩ := hx
  simp only [hazardNames, List.mem_append, List.mem_flatMap]
  exact Or.inl (Or.inl (Or.inl (Or.inl (Or.inl (Or.inl (Or.inl ⟨c, hc, Or.inl (Or.inr hxc)⟩))))))

theorem classUnqualified_sub (kind : String) (hk : (kind == "requiredType" || kind == "optionalType") = true) :
    ∀ x ∈ classUnqualified kind, x ∈ hazardNames := by
  intro x hx
  simp only [classUnqualified, List.mem_flatMap, List.mem_filter] at hx
  obtain ⟨c, ⟨hc, hck⟩, hxc⟩ := hx
  have hck' : c.kind = kind := by simpa using hck
  simp only [hazardNames, List.mem_append, List.mem_flatMap]
  refine Or.inl (Or.inl (Or.inl (Or.inl (Or.inl (Or.inl (Or.inl ⟨c, hc, Or.inr ?_⟩))))))
  rw [hck']
  simp only [hk, if_true]
  exact hxc

theorem memberOwn_sub (kinds : List String) : ∀ x ∈ kinds.flatMap memberOwn, x ∈ hazardNames := by
  intro x hx
  simp only [memberOwn, List.mem_flatMap, List.mem_filter] at hx
  obtain ⟨k, _, m, ⟨hm, _⟩, hxm⟩ := hx
  simp only [hazardNames, List.mem_append, List.mem_flatMap]
  exact Or.inl (Or.inl (Or.inl (Or.inl (Or.inl (Or.inl (Or.inr ⟨m, hm, Or.inl hxm⟩))))))

theorem memberCaptured_sub (kinds : List String) : ∀ x ∈ kinds.flatMap memberCaptured, x ∈ hazardNames := by
  intro x hx
  simp only [memberCaptured, List.mem_flatMap, List.mem_filter] at hx
  obtain ⟨k, _, m, ⟨hm, _⟩, hxm⟩ := hx
  simp only [hazardNames, List.mem_append, List.mem_flatMap]
  exact Or.inl (Or.inl (Or.inl (Or.inl (Or.inl (Or.inl (Or.inr ⟨m, hm, Or.inr hxm⟩))))))

theorem macros_sub : ∀ x, (x ∈ Templates.objectMacros ∨ x ∈ Templates.functionMacros) → x ∈ hazardNames := by
  intro x hx
  simp only [hazardNames, List.mem_append]
  rcases hx with hx | hx
  · exact Or.inl (Or.inl (Or.inr hx))
  · exact Or.inl (Or.inr hx)

theorem macroProblems_nil (entity name : String) (fn : Bool) (h : hazardName name = false) :
    macroProblems entity name fn = [] := by
  have hn := not_hazard h
  have h1 : name ∉ Templates.objectMacros := fun hx => hn (macros_sub _ (Or.inl hx))
  have h2 : name ∉ Templates.functionMacros := fun hx => hn (macros_sub _ (Or.inr hx))
  simp [macroProblems, h1, h2]

theorem memberProblems_nil (scope : String) (kinds : List String) (entity name : String)
    (h : hazardName name = false) : memberProblems scope kinds entity name = [] := by
  have hn := not_hazard h
  have h1 : name ∉ classTParams scope := fun hx => hn (classTParams_sub _ _ hx)
  have h2 : ∀ x ∈ kinds, name ∉ memberCaptured x := fun x hx hm =>
    hn (memberCaptured_sub kinds _ (List.mem_flatMap.mpr ⟨x, hx, hm⟩))
  have h3 : ∀ x ∈ kinds, name ∉ memberOwn x := fun x hx hm =>
    hn (memberOwn_sub kinds _ (List.mem_flatMap.mpr ⟨x, hx, hm⟩))
  simp only [memberProblems, macroProblems_nil entity name true h, List.append_nil]
  simp [h1]
  exact ⟨h2, h3⟩

end Sbepp.Gen.Scope

namespace Sbepp.Gen.Scope
open Sbepp Sbepp.Schema
open Sbepp.Extracted

theorem flatMap_nil {α β} (f : α → List β) (xs : List α) (h : ∀ x ∈ xs, f x = []) : xs.flatMap f = [] := by
  induction xs with
  | nil => rfl
  | cons x xs ih =>
    simp only [List.flatMap_cons, h x (List.mem_cons_self), List.nil_append]
    exact ih (fun y hy => h y (List.mem_cons_of_mem _ hy))

mutual
  theorem elemMemberProblems_nil (types : List Elem) (path : String) (e : Elem)
      (h : ∀ n ∈ elemNames e, hazardName n = false) : elemMemberProblems types path e = [] := by
    match e with
    | .type _ => simp [elemMemberProblems]
    | .ref _ _ _ _ => simp [elemMemberProblems]
    | .enum n _ _ values _ =>
      simp only [elemMemberProblems]
      apply flatMap_nil
      intro v hv
      simp only [valueProblems]
      exact macroProblems_nil _ _ _ (h v.name (by simp [elemNames]; exact Or.inr ⟨v, hv, rfl⟩))
    | .set n _ _ choices _ =>
      simp only [elemMemberProblems]
      apply flatMap_nil
      intro c hc
      simp only [choiceProblems]
      exact memberProblems_nil _ _ _ _ (h c.name (by simp [elemNames]; exact Or.inr ⟨c, hc, rfl⟩))
    | .composite n _ elems _ =>
      simp only [elemMemberProblems]
      exact elemsMemberProblems_nil types _ elems (fun m hm => h m (by simp [elemNames]; exact Or.inr hm))
  theorem elemsMemberProblems_nil (types : List Elem) (path : String) (es : List Elem)
      (h : ∀ n ∈ elemsNames es, hazardName n = false) : elemsMemberProblems types path es = [] := by
    match es with
    | [] => simp [elemsMemberProblems]
    | e :: es' =>
      simp only [elemsMemberProblems]
      have hname : hazardName e.name = false := by
        apply h
        simp only [elemsNames, List.mem_append]
        left
        cases e <;> simp [elemNames, Elem.name]
      rw [memberProblems_nil _ _ _ _ hname,
        elemMemberProblems_nil types path e (fun m hm => h m (by simp [elemsNames]; exact Or.inl hm)),
        elemsMemberProblems_nil types path es' (fun m hm => h m (by simp [elemsNames]; exact Or.inr hm))]
      rfl
end

/-- names of a level: its fields, data members, all its groups and everything below them -/
def levelNames (fields : List FieldDef) (datas : List DataDef) (groups : List GroupDef) : List String :=
  fields.map (·.name) ++ groupsNames groups ++ datas.map (·.name)

theorem groupName_mem (g : GroupDef) : groupName g ∈ groupNames g := by
  cases g; simp [groupName, groupNames]

theorem groupsNames_mem (gs : List GroupDef) (g : GroupDef) (hg : g ∈ gs) : ∀ n ∈ groupNames g, n ∈ groupsNames gs := by
  induction gs with
  | nil => cases hg
  | cons g0 gs ih =>
    intro n hn
    simp only [groupsNames, List.mem_append]
    rcases List.mem_cons.mp hg with h | h
    · subst h; exact Or.inl hn
    · exact Or.inr (ih h n hn)

theorem lastMember_mem (groups : List GroupDef) (datas : List DataDef) (n : String)
    (h : lastMember groups datas = some n) : n ∈ groupsNames groups ∨ n ∈ datas.map (·.name) := by
  unfold lastMember at h
  cases hd : datas.getLast? with
  | some d =>
    simp only [hd, Option.some.injEq] at h
    subst h
    exact Or.inr (List.mem_map.mpr ⟨d, List.mem_of_getLast? hd, rfl⟩)
  | none =>
    cases hg : groups.getLast? with
    | some g =>
      simp only [hd, hg, Option.some.injEq] at h
      subst h
      exact Or.inl (groupsNames_mem groups g (List.mem_of_getLast? hg) _ (groupName_mem g))
    | none => simp [hd, hg] at h

mutual
  theorem levelProblems_nil (types : List Elem) (scope path : String) (fields : List FieldDef)
      (datas : List DataDef) (all gs : List GroupDef)
      (hf : ∀ n ∈ fields.map (·.name), hazardName n = false)
      (hd : ∀ n ∈ datas.map (·.name), hazardName n = false)
      (hall : ∀ n ∈ groupsNames all, hazardName n = false)
      (hgs : ∀ n ∈ groupsNames gs, hazardName n = false) :
      levelProblems types scope path fields datas all gs = [] := by
    match gs with
    | [] =>
      simp only [levelProblems]
      have h1 : fields.flatMap (fun f => memberProblems scope
          (fieldAccessors (constField types f) (targetKind types f.type)) (path ++ f.name) f.name) = [] :=
        flatMap_nil _ _ (fun f hfm => memberProblems_nil _ _ _ _ (hf f.name (List.mem_map.mpr ⟨f, hfm, rfl⟩)))
      have h2 : all.flatMap (fun g => memberProblems scope ["groupAccessor", "cursorGroup", "byTag"]
          (path ++ groupName g) (groupName g)) = [] :=
        flatMap_nil _ _ (fun g hg => memberProblems_nil _ _ _ _
          (hall _ (groupsNames_mem all g hg _ (groupName_mem g))))
      have h3 : datas.flatMap (fun d => memberProblems scope ["dataAccessor", "cursorData", "byTag"]
          (path ++ d.name) d.name) = [] :=
        flatMap_nil _ _ (fun d hdm => memberProblems_nil _ _ _ _ (hd d.name (List.mem_map.mpr ⟨d, hdm, rfl⟩)))
      rw [h1, h2, h3]
      cases hl : lastMember all datas with
      | none => simp
      | some n =>
        have hz : hazardName n = false := by
          rcases lastMember_mem all datas n hl with h | h
          · exact hall n h
          · exact hd n h
        have : n ∉ memberCaptured "lastMember" := fun hm =>
          not_hazard hz (memberCaptured_sub ["lastMember"] n (by simpa using hm))
        simp [this]
    | g :: gs' =>
      simp only [levelProblems]
      rw [groupProblems_nil types path g (fun n hn => hgs n (by simp [groupsNames]; exact Or.inl hn)),
        levelProblems_nil types scope path fields datas all gs' hf hd hall
          (fun n hn => hgs n (by simp [groupsNames]; exact Or.inr hn))]
      rfl
  theorem groupProblems_nil (types : List Elem) (path : String) (g : GroupDef)
      (h : ∀ n ∈ groupNames g, hazardName n = false) : groupProblems types path g = [] := by
    match g with
    | .mk n _ _ _ fields groups datas _ =>
      simp only [groupProblems]
      exact levelProblems_nil types "entry" _ fields datas groups groups
        (fun m hm => h m (by simp [groupNames]; exact Or.inr (Or.inl (List.mem_map.mp hm))))
        (fun m hm => h m (by simp [groupNames]; exact Or.inr (Or.inr (Or.inr (List.mem_map.mp hm)))))
        (fun m hm => h m (by simp [groupNames]; exact Or.inr (Or.inr (Or.inl hm))))
        (fun m hm => h m (by simp [groupNames]; exact Or.inr (Or.inr (Or.inl hm))))
end

end Sbepp.Gen.Scope

namespace Sbepp.Gen.Scope
open Sbepp Sbepp.Schema
open Sbepp.Extracted

theorem dotMembers_sub : ∀ x ∈ Templates.dotMembers, x ∈ hazardNames := by
  intro x hx
  simp only [hazardNames, List.mem_append]
  exact Or.inl (Or.inl (Or.inl (Or.inl (Or.inl (Or.inr hx)))))

theorem baseMembers_sub (kinds : List String) : ∀ x ∈ baseMembersOf kinds, x ∈ hazardNames := by
  intro x hx
  simp only [baseMembersOf, List.mem_flatMap, List.mem_filter] at hx
  obtain ⟨b, ⟨hb, _⟩, hxb⟩ := hx
  simp only [hazardNames, List.mem_append, List.mem_flatMap]
  exact Or.inl (Or.inl (Or.inl (Or.inl (Or.inr ⟨b, hb, hxb⟩))))

theorem nsFunctions_sub : ∀ x ∈ Templates.namespaceFunctions.flatMap (·.2), x ∈ hazardNames := by
  intro x hx
  simp only [hazardNames, List.mem_append]
  exact Or.inl (Or.inl (Or.inl (Or.inr hx)))

theorem std_hazard : "std" ∈ hazardNames := by
  simp [hazardNames]

theorem valueClassProblems_nil (kind entity impl : String) (h : hazardName impl = false)
    (hk : (kind == "requiredType" || kind == "optionalType") = true) :
    valueClassProblems kind entity impl = [] := by
  have hn := not_hazard h
  have h1 : impl ∉ classUnqualified kind := fun hx => hn (classUnqualified_sub _ hk _ hx)
  have h2 : impl ∉ Templates.dotMembers := fun hx => hn (dotMembers_sub _ hx)
  have h3 : impl ∉ baseMembersOf [kind] := fun hx => hn (baseMembers_sub _ _ hx)
  simp [valueClassProblems, h1, h2, h3]

theorem classProblems_nil (kind entity impl : String) (h : hazardName impl = false) :
    classProblems kind entity impl = [] := by
  have hn := not_hazard h
  have h1 : impl ∉ classTParams kind := fun hx => hn (classTParams_sub _ _ hx)
  have h2 : impl ∉ classTypeCaptured kind := fun hx => hn (classTypeCaptured_sub _ _ hx)
  simp [classProblems, h1, h2, macroProblems_nil entity impl false h]

theorem nsDeclProblems_nil (ds : List NsDecl) (h : ∀ d ∈ ds, hazardName d.name = false) :
    nsDeclProblems ds = [] := by
  unfold nsDeclProblems
  apply flatMap_nil
  intro d hd
  have hz := h d hd
  have hn := not_hazard hz
  have h1 : (if (d.kind == "requiredType" || d.kind == "optionalType") = true then
      valueClassProblems d.kind d.entity d.name else []) = [] := by
    by_cases hk : (d.kind == "requiredType" || d.kind == "optionalType") = true
    · simp only [hk, if_true]; exact valueClassProblems_nil _ _ _ hz hk
    · simp [hk]
  have h2 : d.name ∉ baseMembersOf ["groupFlat", "groupNested"] := fun hx => hn (baseMembers_sub _ _ hx)
  have h3 : d.name ∉ classTypeCaptured "enumVisit" := fun hx => hn (classTypeCaptured_sub _ _ hx)
  have h4 : macroProblems d.entity d.name false = [] := macroProblems_nil _ _ _ hz
  have h5 : classProblems d.kind d.entity d.name = [] := classProblems_nil _ _ _ hz
  have h6 : d.name ≠ "std" := fun hx => hn (hx ▸ std_hazard)
  have h7 : d.name ∉ Templates.namespaceFunctions.flatMap (·.2) := fun hx => hn (nsFunctions_sub _ hx)
  have h7' : (Templates.namespaceFunctions.flatMap (·.2)).contains d.name = false := by simpa using h7
  have h6' : (d.name == "std") = false := by simpa using h6
  simp only [h1, h4, h5, stdProblems, h6', h7', Bool.false_and]
  simp [h2, h3]

theorem elemsNames_mem (es : List Elem) (e : Elem) (he : e ∈ es) : ∀ n ∈ elemNames e, n ∈ elemsNames es := by
  induction es with
  | nil => cases he
  | cons e0 es ih =>
    intro n hn
    simp only [elemsNames, List.mem_append]
    rcases List.mem_cons.mp he with hh | hh
    · subst hh; exact Or.inl hn
    · exact Or.inr (ih hh n hn)

/-- if no declared name (schema names and the implementation names chosen for them) is an identifier the
    template tables list, the model predicts no name problem -/
theorem nameProblems_nil (s : SchemaDef) (ds : List NsDecl) (hds : nsDecls s = some ds)
    (h1 : ∀ d ∈ ds, hazardName d.name = false) (h2 : ∀ n ∈ allNames s, hazardName n = false) :
    nameProblems s = [] := by
  have hd : declProblems s = [] := by
    unfold declProblems
    simp only [hds]
    exact nsDeclProblems_nil ds h1
  have ht : s.types.flatMap (typeMemberProblems s.types) = [] := by
    apply flatMap_nil
    intro e he
    have hsub : ∀ n ∈ elemNames e, hazardName n = false := by
      intro n hn
      apply h2
      simp only [allNames, List.mem_append]
      exact Or.inl (elemsNames_mem s.types e he n hn)
    unfold typeMemberProblems
    cases e with
    | composite n o elems a =>
      exact elemsMemberProblems_nil _ _ elems (fun m hm => hsub m (by simp [elemNames]; exact Or.inr hm))
    | type t => simp [elemMemberProblems]
    | ref _ _ _ _ => simp [elemMemberProblems]
    | enum n enc o vs a => exact elemMemberProblems_nil _ _ _ hsub
    | set n enc o cs a => exact elemMemberProblems_nil _ _ _ hsub
  have hm : s.messages.flatMap (messageProblems s.types) = [] := by
    apply flatMap_nil
    intro m hmem
    have hsub : ∀ n ∈ m.name :: m.fields.map (·.name) ++ groupsNames m.groups ++ m.datas.map (·.name),
        hazardName n = false := by
      intro n hn
      apply h2
      simp only [allNames]
      exact List.mem_append_right _ (List.mem_flatMap.mpr ⟨m, hmem, hn⟩)
    unfold messageProblems
    exact levelProblems_nil _ _ _ _ _ _ _
      (fun n hn => hsub n (by simp only [List.cons_append, List.mem_cons, List.mem_append]; exact Or.inr (Or.inl (Or.inl hn))))
      (fun n hn => hsub n (by simp only [List.cons_append, List.mem_cons, List.mem_append]; exact Or.inr (Or.inr hn)))
      (fun n hn => hsub n (by simp only [List.cons_append, List.mem_cons, List.mem_append]; exact Or.inr (Or.inl (Or.inr hn))))
      (fun n hn => hsub n (by simp only [List.cons_append, List.mem_cons, List.mem_append]; exact Or.inr (Or.inl (Or.inr hn))))
  unfold nameProblems
  rw [hd, ht, hm]
  rfl

end Sbepp.Gen.Scope

namespace Sbepp.Gen.Scope
open Sbepp Sbepp.Schema

theorem nodupB_nodup (xs : List String) (h : nodupB xs = true) : xs.Nodup := by
  induction xs with
  | nil => exact List.nodup_nil
  | cons x xs ih =>
    simp only [nodupB, Bool.and_eq_true, Bool.not_eq_true', List.contains_eq_mem, decide_eq_false_iff_not] at h
    exact List.nodup_cons.mpr ⟨h.1, ih h.2⟩

theorem publicTypeDecls_ns (e : Elem) (impl : String) :
    ∀ d ∈ publicTypeDecls e impl, d.ns = "types" ∨ d.ns = "detail.types" := by
  intro d hd
  unfold publicTypeDecls at hd
  by_cases h : (impl == e.name) = true
  · simp only [h, if_true, List.mem_singleton] at hd; subst hd; exact Or.inl rfl
  · simp only [h, Bool.false_eq_true, if_false, List.mem_cons, List.not_mem_nil, or_false] at hd
    rcases hd with hd | hd <;> subst hd
    · exact Or.inr rfl
    · exact Or.inl rfl

theorem typeDecls_ns (types : List Elem) (pubs inls : List Assigned) :
    ∀ d ∈ typeDecls types pubs inls, d.ns = "types" ∨ d.ns = "detail.types" := by
  induction types generalizing pubs inls with
  | nil => intro d hd; simp [typeDecls] at hd
  | cons e es ih =>
    intro d hd
    simp only [typeDecls, List.mem_append] at hd
    rcases hd with (hd | hd) | hd
    · exact publicTypeDecls_ns e _ d hd
    · right
      unfold inlineOf at hd
      cases e with
      | composite n o elems a => exact inlineDeclsL_ns _ _ elems inls d hd
      | type t => simp at hd
      | ref _ _ _ _ => simp at hd
      | enum _ _ _ _ _ => simp at hd
      | set _ _ _ _ _ => simp at hd
    · exact ih _ _ d hd

/-- both public namespaces resolve -/
theorem nsDecls_resolve (s : SchemaDef) (ds : List NsDecl) (hds : nsDecls s = some ds)
    (ht : (s.types.map Elem.name).Nodup) (hm : (s.messages.map (·.name)).Nodup) :
    (∀ e ∈ s.types, resolvePublic ds "types" e.name = some ("types." ++ e.name)) ∧
    (∀ m ∈ s.messages, resolvePublic ds "messages" m.name = some ("messages." ++ m.name)) := by
  unfold nsDecls at hds
  cases htn : typeNames s.types with
  | none => simp [htn] at hds
  | some ts =>
    cases hmn : messageNames s.messages with
    | none => simp [htn, hmn] at hds
    | some ms =>
      simp only [htn, hmn, Option.some.injEq] at hds
      subst hds
      constructor
      · intro e he
        have := typeDecls_resolve s.types (ts.out.filter (·.isPublic)) (ts.out.filter (fun a => !a.isPublic)) ht e he
        unfold resolvePublic at this ⊢
        rw [List.find?_append]
        cases hf : (typeDecls s.types (ts.out.filter (·.isPublic)) (ts.out.filter (fun a => !a.isPublic))).find?
            (fun d => d.ns == "types" && d.name == e.name) with
        | none => simp [hf] at this
        | some d => simp only [hf, Option.map_some, Option.some.injEq] at this; simp [this]
      · intro m hmem
        have := messageDecls_resolve s.messages ms.out hm m hmem
        unfold resolvePublic at this ⊢
        have hskip : ∀ d ∈ typeDecls s.types (ts.out.filter (·.isPublic)) (ts.out.filter (fun a => !a.isPublic)),
            (d.ns == "messages" && d.name == m.name) = false := by
          intro d hd
          have h1 : (("types" : String) == "messages") = false := by decide
          have h2 : (("detail.types" : String) == "messages") = false := by decide
          rcases typeDecls_ns _ _ _ d hd with h | h <;> simp [h, h1, h2]
        rw [find_skip _ _ _ hskip]
        exact this

end Sbepp.Gen.Scope

namespace Sbepp.Gen.Scope

theorem nodup_of_map {α β} (f : α → β) (xs : List α) (h : (xs.map f).Nodup) : xs.Nodup := by
  induction xs with
  | nil => exact List.nodup_nil
  | cons x xs ih =>
    simp only [List.map_cons, List.nodup_cons] at h
    exact List.nodup_cons.mpr ⟨fun hx => h.1 (List.mem_map.mpr ⟨x, hx, rfl⟩), ih h.2⟩

end Sbepp.Gen.Scope

namespace Sbepp.Gen.Scope
open Sbepp Sbepp.Schema

mutual
  theorem groupPlain_of_flag (types : List Elem) (g : GroupDef)
      (h : Extracted.Templates.valueRefRecordsDependency = true) : groupPlain types g = true := by
    match g with
    | .mk _ _ _ _ gf gg _ _ =>
      simp only [groupPlain, Bool.and_eq_true, List.all_eq_true]
      exact ⟨fun f _ => constFieldPlain_of_flag types f h, groupsPlain_of_flag types gg h⟩
  theorem groupsPlain_of_flag (types : List Elem) (gs : List GroupDef)
      (h : Extracted.Templates.valueRefRecordsDependency = true) : groupsPlain types gs = true := by
    match gs with
    | [] => rfl
    | g :: gs' =>
      simp only [groupsPlain, Bool.and_eq_true]
      exact ⟨groupPlain_of_flag types g h, groupsPlain_of_flag types gs' h⟩
end

theorem levelPlain_of_flag (types : List Elem) (fields : List FieldDef) (groups : List GroupDef)
    (h : Extracted.Templates.valueRefRecordsDependency = true) : levelPlain types fields groups = true := by
  simp only [levelPlain, Bool.and_eq_true, List.all_eq_true]
  exact ⟨fun f _ => constFieldPlain_of_flag types f h, groupsPlain_of_flag types groups h⟩

end Sbepp.Gen.Scope
