/-
  Lemmas about `Sbepp.Gen.Files`: disk lookups, the write loop without write
  faults, which faults are recorded where.
-/
import Sbepp.Gen.Files

namespace Sbepp.Gen.Files

theorem get_set_same (d : Disk) (p : String) (c : Content) : (d.set p c).get p = some c := by
  simp [Disk.set, Disk.get, List.lookup]

theorem lookup_filter_ne (l : List (String × Content)) (p q : String) (h : q ≠ p) :
    (l.filter (fun e => e.1 != p)).lookup q = l.lookup q := by
  induction l with
  | nil => rfl
  | cons e r ih =>
    obtain ⟨a, b⟩ := e
    by_cases ha : a = p
    · subst ha
      have : (q == a) = false := by simpa using h
      simp [List.filter, List.lookup, this, ih]
    · have hne : (a != p) = true := by simpa using ha
      simp only [List.filter, hne, List.lookup]
      cases hq : (q == a) <;> simp [ih]

theorem get_set_other (d : Disk) (p q : String) (c : Content) (h : q ≠ p) : (d.set p c).get q = d.get q := by
  have hq : (q == p) = false := by simpa using h
  simp [Disk.set, Disk.get, List.lookup, hq, lookup_filter_ne _ _ _ h]

/-- without write faults `os << data` puts all of `data` into the file -/
theorem writeData_clean (sched : Schedule) (hw : ∀ k, sched .write k = none) (fuel cnt : Nat) (data : Content) :
    (writeData sched (fuel + 1) cnt data).data = data ∧ (writeData sched (fuel + 1) cnt data).fired = [] := by
  unfold writeData
  split
  · rename_i h; simp [h]
  · simp [hw]

theorem writeData_fired_write (sched : Schedule) : ∀ (fuel cnt : Nat) (data : Content),
    ∀ f ∈ (writeData sched fuel cnt data).fired, f.1 = Family.write
  | 0, _, _ => by simp [writeData]
  | fuel + 1, cnt, data => by
    have ih := writeData_fired_write sched fuel (cnt + 1) (data.drop (data.length / 2))
    unfold writeData
    split
    · simp
    · split
      · simp
      · simp
      · split
        · simp
        · intro f hf
          simp only [List.mem_cons] at hf
          rcases hf with rfl | hf
          · rfl
          · exact ih f hf
      · split <;> simp

/-- mkdir never touches files; on success it records no fault, on failure a mkdir fault -/
theorem mkdirs_spec (sched : Schedule) : ∀ (ds : List String) (st : St),
    (mkdirs sched ds st).2.disk.files = st.disk.files ∧
    ((mkdirs sched ds st).1 = true → (mkdirs sched ds st).2.fired = st.fired) ∧
    ((mkdirs sched ds st).1 = false → ∃ k, (Family.mkdir, k) ∈ (mkdirs sched ds st).2.fired)
  | [], st => by simp [mkdirs]
  | d :: r, st => by
    unfold mkdirs
    split
    · exact mkdirs_spec sched r st
    · split
      · simp
      · exact mkdirs_spec sched r _

theorem mkdirs_noFault (sched : Schedule) (hm : ∀ k, sched .mkdir k = none) : ∀ (ds : List String) (st : St),
    (mkdirs sched ds st).1 = true
  | [], st => rfl
  | d :: r, st => by
    unfold mkdirs
    split
    · exact mkdirs_noFault sched hm r st
    · simp only [hm]
      exact mkdirs_noFault sched hm r _

/-- one `write_file` -/
theorem writeFile_true (sched : Schedule) (st : St) (p : String) (data : Content)
    (h : (writeFile sched st p data).1 = true) :
    (writeFile sched st p data).2.disk = st.disk.set p (writeData sched (data.length + 1) st.nWrite data).data ∧
    (∀ f ∈ (writeFile sched st p data).2.fired, f ∈ st.fired ∨ f.1 = Family.write ∨ f.1 = Family.close) := by
  unfold writeFile at h ⊢
  split
  · rename_i ho; simp [ho] at h
  · refine ⟨rfl, ?_⟩
    intro f hf
    simp only [List.mem_append] at hf
    rcases hf with (hf | hf) | hf
    · exact Or.inl hf
    · exact Or.inr (Or.inl (writeData_fired_write sched _ _ _ f hf))
    · right; right
      unfold closeFault at hf
      split at hf
      · simp only [List.mem_singleton] at hf; subst hf; rfl
      · simp at hf

theorem writeFile_false (sched : Schedule) (st : St) (p : String) (data : Content)
    (h : (writeFile sched st p data).1 = false) :
    (Family.open, st.nOpen + 1) ∈ (writeFile sched st p data).2.fired ∧
    (writeFile sched st p data).2.disk = st.disk := by
  unfold writeFile at h ⊢
  split
  · simp
  · rename_i ho; simp [ho] at h

def paths (fs : List (String × Content)) : List String := fs.map (·.1)

/-- all files of a successful emission without write faults are complete;
    nothing else changes -/
theorem writeFiles_complete (sched : Schedule) (hw : ∀ k, sched .write k = none) :
    ∀ (fs : List (String × Content)) (st : St), (paths fs).Nodup → (writeFiles sched fs st).1 = true →
      (∀ pc ∈ fs, (writeFiles sched fs st).2.disk.get pc.1 = some pc.2) ∧
      (∀ q, q ∉ paths fs → (writeFiles sched fs st).2.disk.get q = st.disk.get q)
  | [], st, _, _ => by
    simp [writeFiles, paths]
  | (p, c) :: r, st, hnd, h => by
    unfold writeFiles at h ⊢
    cases hwf : writeFile sched st p c with
    | mk o s1 =>
      rw [hwf] at h
      cases o with
      | false => simp at h
      | true =>
        simp only [] at h ⊢
        have h1 := writeFile_true sched st p c (by rw [hwf])
        rw [hwf] at h1
        have hd : s1.disk = st.disk.set p c := by
          rw [h1.1, (writeData_clean sched hw _ _ _).1]
        simp only [paths, List.map_cons, List.nodup_cons] at hnd
        have ih := writeFiles_complete sched hw r s1 hnd.2 h
        refine ⟨?_, ?_⟩
        · intro pc hpc
          rcases List.mem_cons.mp hpc with rfl | hpc
          · rw [ih.2 p hnd.1, hd, get_set_same]
          · exact ih.1 pc hpc
        · intro q hq
          simp only [paths, List.map_cons, List.mem_cons, not_or] at hq
          rw [ih.2 q hq.2, hd, get_set_other _ _ _ _ hq.1]

/-- which faults a successful / failed emission recorded -/
theorem writeFiles_fired (sched : Schedule) :
    ∀ (fs : List (String × Content)) (st : St),
      ((writeFiles sched fs st).1 = true →
        ∀ f ∈ (writeFiles sched fs st).2.fired, f ∈ st.fired ∨ f.1 = Family.write ∨ f.1 = Family.close) ∧
      ((writeFiles sched fs st).1 = false → ∃ k, (Family.open, k) ∈ (writeFiles sched fs st).2.fired)
  | [], st => by
    simp only [writeFiles]
    exact ⟨fun _ f hf => Or.inl hf, by simp⟩
  | (p, c) :: r, st => by
    unfold writeFiles
    cases hwf : writeFile sched st p c with
    | mk o s1 =>
      cases o with
      | false =>
        simp only []
        refine ⟨by simp, fun _ => ?_⟩
        have := (writeFile_false sched st p c (by rw [hwf])).1
        rw [hwf] at this
        exact ⟨_, this⟩
      | true =>
        simp only []
        have h1 := (writeFile_true sched st p c (by rw [hwf])).2
        rw [hwf] at h1
        have ih := writeFiles_fired sched r s1
        refine ⟨?_, ih.2⟩
        intro h f hf
        rcases ih.1 h f hf with h' | h'
        · exact h1 f h'
        · exact Or.inr h'

/-- without open faults the emission does not stop -/
theorem writeFiles_noFault (sched : Schedule) (ho : ∀ k, sched .open k = none) :
    ∀ (fs : List (String × Content)) (st : St), (writeFiles sched fs st).1 = true
  | [], st => rfl
  | (p, c) :: r, st => by
    unfold writeFiles
    have : (writeFile sched st p c).1 = true := by
      unfold writeFile
      simp only [ho]
    cases hwf : writeFile sched st p c with
    | mk o s1 =>
      rw [hwf] at this
      simp only [] at this
      subst this
      exact writeFiles_noFault sched ho r s1

end Sbepp.Gen.Files
