/-
  Lemmas about `Sbepp.Gen.Files`: disk lookups, the write loop, which faults
  are recorded where.
-/
import Sbepp.Gen.Files

namespace Sbepp.Gen.Files

theorem get_set_same (d : Disk) (p : String) (c : Content) : (d.set p c).get p = some c := by
  simp [Disk.set, Disk.get, List.lookup]

theorem lookup_filter_ne (l : List (String × Content)) (p q : String) (h : q ≠ p) :
    (l.filter (fun e => e.1 != p)).lookup q = l.lookup q := by
  induction l with
  | nil => rfl
  | cons e r ih =>
    obtain ⟨a, b⟩ := e
    by_cases ha : a = p
    · subst ha
      have : (q == a) = false := by simpa using h
      simp [List.filter, List.lookup, this, ih]
    · have hne : (a != p) = true := by simpa using ha
      simp only [List.filter, hne, List.lookup]
      cases hq : (q == a) <;> simp [ih]

theorem get_set_other (d : Disk) (p q : String) (c : Content) (h : q ≠ p) : (d.set p c).get q = d.get q := by
  have hq : (q == p) = false := by simpa using h
  simp [Disk.set, Disk.get, List.lookup, hq, lookup_filter_ne _ _ _ h]

/-- a delivered fault that is an error (everything but a short count) -/
def IsError (f : Family × Nat × Mode) : Prop := f.2.2 ≠ Mode.short

/-- if no call returned an error, all of `data` is in the file and only short
    counts were delivered -/
theorem writeData_ok (sched : Schedule) : ∀ (fuel cnt : Nat) (data : Content), data.length < fuel →
    (writeData sched fuel cnt data).failed = false →
    (writeData sched fuel cnt data).data = data ∧ ∀ f ∈ (writeData sched fuel cnt data).fired, f.2.2 = Mode.short
  | 0, _, _, h, _ => by omega
  | fuel + 1, cnt, data, hl, hf => by
    have ih := writeData_ok sched fuel (cnt + 1) (data.drop (data.length / 2))
    by_cases hd : data = []
    · simp [writeData, hd]
    · cases hm : sched .write (cnt + 1) with
      | none => simp [writeData, hd, hm]
      | some m =>
        cases m with
        | fail => simp [writeData, hd, hm] at hf
        | short =>
          by_cases hlt : data.length < 2
          · simp [writeData, hd, hm, hlt] at hf
          · simp only [writeData, hd, hm, hlt, if_false] at hf ⊢
            have hlen : (data.drop (data.length / 2)).length < fuel := by
              simp only [List.length_drop]; omega
            have := ih hlen hf
            refine ⟨by rw [this.1, List.take_append_drop], ?_⟩
            intro f hmem
            simp only [List.mem_cons] at hmem
            rcases hmem with rfl | hmem
            · rfl
            · exact this.2 f hmem
        | shortfail =>
          by_cases hlt : data.length < 2
          · simp [writeData, hd, hm, hlt] at hf
          · simp [writeData, hd, hm, hlt] at hf

/-- if a call returned an error, an error fault was delivered -/
theorem writeData_failed (sched : Schedule) : ∀ (fuel cnt : Nat) (data : Content),
    (writeData sched fuel cnt data).failed = true → ∃ f ∈ (writeData sched fuel cnt data).fired, IsError f
  | 0, _, _, h => by simp [writeData] at h
  | fuel + 1, cnt, data, hf => by
    have ih := writeData_failed sched fuel (cnt + 1) (data.drop (data.length / 2))
    by_cases hd : data = []
    · simp [writeData, hd] at hf
    · cases hm : sched .write (cnt + 1) with
      | none => simp [writeData, hd, hm] at hf
      | some m =>
        cases m with
        | fail => simp [writeData, hd, hm, IsError]
        | short =>
          by_cases hlt : data.length < 2
          · simp [writeData, hd, hm, hlt, IsError]
          · simp only [writeData, hd, hm, hlt, if_false] at hf ⊢
            obtain ⟨f, hmem, he⟩ := ih hf
            exact ⟨f, by simp [hmem], he⟩
        | shortfail =>
          by_cases hlt : data.length < 2
          · simp [writeData, hd, hm, hlt, IsError]
          · simp [writeData, hd, hm, hlt, IsError]

/-- without write faults nothing fails -/
theorem writeData_clean (sched : Schedule) (hw : ∀ k, sched .write k = none) (fuel cnt : Nat) (data : Content) :
    (writeData sched (fuel + 1) cnt data).failed = false := by
  unfold writeData
  split
  · rfl
  · simp [hw]

/-- mkdir never touches files; on success it records no fault, on failure an error -/
theorem mkdirs_spec (sched : Schedule) : ∀ (ds : List String) (st : St),
    (mkdirs sched ds st).2.disk.files = st.disk.files ∧
    ((mkdirs sched ds st).1 = true → (mkdirs sched ds st).2.fired = st.fired) ∧
    ((mkdirs sched ds st).1 = false → ∃ f ∈ (mkdirs sched ds st).2.fired, IsError f)
  | [], st => by simp [mkdirs]
  | d :: r, st => by
    unfold mkdirs
    split
    · exact mkdirs_spec sched r st
    · split
      · refine ⟨rfl, by simp, fun _ => ⟨(.mkdir, st.nMkdir + 1, .fail), by simp, by simp [IsError]⟩⟩
      · exact mkdirs_spec sched r _

theorem mkdirs_noFault (sched : Schedule) (hm : ∀ k, sched .mkdir k = none) : ∀ (ds : List String) (st : St),
    (mkdirs sched ds st).1 = true
  | [], st => rfl
  | d :: r, st => by
    unfold mkdirs
    split
    · exact mkdirs_noFault sched hm r st
    · simp only [hm]
      exact mkdirs_noFault sched hm r _

theorem closeFault_cases (sched : Schedule) (k : Nat) :
    closeFault sched k = [] ∨ closeFault sched k = [(Family.close, k, Mode.fail)] := by
  unfold closeFault
  split <;> simp

/-- one successful `write_file`: the file is complete, only short counts were delivered -/
theorem writeFile_true (sched : Schedule) (st : St) (p : String) (data : Content)
    (h : (writeFile sched st p data).1 = true) :
    (writeFile sched st p data).2.disk = st.disk.set p data ∧
    (∀ f ∈ (writeFile sched st p data).2.fired, f ∈ st.fired ∨ f.2.2 = Mode.short) := by
  unfold writeFile at h ⊢
  split
  · rename_i ho; simp [ho] at h
  · rename_i ho
    simp only [ho, Bool.and_eq_true, Bool.not_eq_true', List.isEmpty_iff] at h
    have wd := writeData_ok sched (data.length + 1) st.nWrite data (by omega) h.1
    refine ⟨by simp only [wd.1], ?_⟩
    intro f hf
    simp only [List.mem_append, h.2, List.not_mem_nil, or_false] at hf
    rcases hf with hf | hf
    · exact Or.inl hf
    · exact Or.inr (wd.2 f hf)

/-- a failed `write_file` delivered an error -/
theorem writeFile_false (sched : Schedule) (st : St) (p : String) (data : Content)
    (h : (writeFile sched st p data).1 = false) :
    ∃ f ∈ (writeFile sched st p data).2.fired, IsError f := by
  unfold writeFile at h ⊢
  split
  · exact ⟨(.open, st.nOpen + 1, .fail), by simp, by simp [IsError]⟩
  · rename_i ho
    simp only [ho, Bool.and_eq_false_iff, Bool.not_eq_false'] at h
    rcases h with h | h
    · obtain ⟨f, hm, he⟩ := writeData_failed sched _ _ _ h
      exact ⟨f, by simp [hm], he⟩
    · rcases closeFault_cases sched (st.nClose + 1) with hc | hc
      · rw [hc] at h; simp at h
      · exact ⟨(.close, st.nClose + 1, .fail), by simp [hc], by simp [IsError]⟩

def paths (fs : List (String × Content)) : List String := fs.map (·.1)

/-- all files of a successful emission are complete; nothing else changes -/
theorem writeFiles_complete (sched : Schedule) :
    ∀ (fs : List (String × Content)) (st : St), (paths fs).Nodup → (writeFiles sched fs st).1 = true →
      (∀ pc ∈ fs, (writeFiles sched fs st).2.disk.get pc.1 = some pc.2) ∧
      (∀ q, q ∉ paths fs → (writeFiles sched fs st).2.disk.get q = st.disk.get q)
  | [], st, _, _ => by
    simp [writeFiles, paths]
  | (p, c) :: r, st, hnd, h => by
    unfold writeFiles at h ⊢
    cases hwf : writeFile sched st p c with
    | mk o s1 =>
      rw [hwf] at h
      cases o with
      | false => simp at h
      | true =>
        simp only [] at h ⊢
        have h1 := writeFile_true sched st p c (by rw [hwf])
        rw [hwf] at h1
        have hd : s1.disk = st.disk.set p c := h1.1
        simp only [paths, List.map_cons, List.nodup_cons] at hnd
        have ih := writeFiles_complete sched r s1 hnd.2 h
        refine ⟨?_, ?_⟩
        · intro pc hpc
          rcases List.mem_cons.mp hpc with rfl | hpc
          · rw [ih.2 p hnd.1, hd, get_set_same]
          · exact ih.1 pc hpc
        · intro q hq
          simp only [paths, List.map_cons, List.mem_cons, not_or] at hq
          rw [ih.2 q hq.2, hd, get_set_other _ _ _ _ hq.1]

/-- which faults a successful / failed emission recorded -/
theorem writeFiles_fired (sched : Schedule) :
    ∀ (fs : List (String × Content)) (st : St),
      ((writeFiles sched fs st).1 = true →
        ∀ f ∈ (writeFiles sched fs st).2.fired, f ∈ st.fired ∨ f.2.2 = Mode.short) ∧
      ((writeFiles sched fs st).1 = false → ∃ f ∈ (writeFiles sched fs st).2.fired, IsError f)
  | [], st => by
    simp only [writeFiles]
    exact ⟨fun _ f hf => Or.inl hf, by simp⟩
  | (p, c) :: r, st => by
    unfold writeFiles
    cases hwf : writeFile sched st p c with
    | mk o s1 =>
      cases o with
      | false =>
        simp only []
        refine ⟨by simp, fun _ => ?_⟩
        have := writeFile_false sched st p c (by rw [hwf])
        rw [hwf] at this
        exact this
      | true =>
        simp only []
        have h1 := (writeFile_true sched st p c (by rw [hwf])).2
        rw [hwf] at h1
        have ih := writeFiles_fired sched r s1
        refine ⟨?_, ih.2⟩
        intro h f hf
        rcases ih.1 h f hf with h' | h'
        · exact h1 f h'
        · exact Or.inr h'

/-- without faults the emission does not stop -/
theorem writeFiles_noFault (sched : Schedule) (ho : ∀ k, sched .open k = none) (hw : ∀ k, sched .write k = none)
    (hc : ∀ k, sched .close k = none) :
    ∀ (fs : List (String × Content)) (st : St), (writeFiles sched fs st).1 = true
  | [], st => rfl
  | (p, c) :: r, st => by
    unfold writeFiles
    have : (writeFile sched st p c).1 = true := by
      unfold writeFile
      simp only [ho, writeData_clean sched hw, closeFault, hc]
      rfl
    cases hwf : writeFile sched st p c with
    | mk o s1 =>
      rw [hwf] at this
      simp only [] at this
      subst this
      exact writeFiles_noFault sched ho hw hc r s1

end Sbepp.Gen.Files
