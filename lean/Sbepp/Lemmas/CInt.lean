/-
  Lemmas about the C++ integer model used to evaluate extracted kernels
  symbolically.  All are stated for a value given as a structure literal
  `⟨t, b⟩` so that `simp` can use them after unfolding the evaluator.
-/
import Sbepp.Base.Kernel

namespace Sbepp
namespace CVal

theorem toInt_mk_unsigned (t : CTy) (b : Nat) (ht : t.signed = false) :
    toInt ⟨t, b⟩ = (b : Int) := by
  simp [toInt, ht]

theorem toInt_mk_small (t : CTy) (b : Nat) (hb : b < 2 ^ (t.bits - 1)) :
    toInt ⟨t, b⟩ = (b : Int) := by
  unfold toInt
  have : ¬ (2 ^ (t.bits - 1) ≤ b) := by omega
  simp [this]

theorem toInt_mk_neg (t : CTy) (b : Nat) (ht : t.signed = true) (hb : 2 ^ (t.bits - 1) ≤ b) :
    toInt ⟨t, b⟩ = (b : Int) - ((2 ^ t.bits : Nat) : Int) := by
  simp [toInt, ht, hb]

theorem wrap_nat (t : CTy) (i : Nat) (h : i < 2 ^ t.bits) : wrap t (i : Int) = ⟨t, i⟩ := by
  unfold wrap
  congr 1
  have : ((i : Int) % ((2 ^ t.bits : Nat) : Int)) = (i : Int) := by
    apply Int.emod_eq_of_lt <;> omega
  rw [this]; simp

theorem wrap_neg (t : CTy) (i : Nat) (h0 : 0 < i) (h : i ≤ 2 ^ t.bits) :
    wrap t (-(i : Int)) = ⟨t, 2 ^ t.bits - i⟩ := by
  unfold wrap
  congr 1
  have hp : (0 : Int) < ((2 ^ t.bits : Nat) : Int) := by
    have : 0 < 2 ^ t.bits := Nat.two_pow_pos _
    omega
  have : (-(i : Int)) % ((2 ^ t.bits : Nat) : Int) = ((2 ^ t.bits - i : Nat) : Int) := by
    rw [Int.emod_def]
    have hdiv : (-(i : Int)) / ((2 ^ t.bits : Nat) : Int) = -1 := by
      apply Int.ediv_eq_iff_of_pos hp |>.mpr <;> constructor <;> omega
    rw [hdiv]; omega
  rw [this]; simp

theorem wrap_sub (t : CTy) (a i : Nat) (ha : a < 2 ^ t.bits) (hi : i ≤ a) :
    wrap t ((a : Int) - (i : Int)) = ⟨t, a - i⟩ := by
  have : ((a : Int) - (i : Int)) = ((a - i : Nat) : Int) := by omega
  rw [this]; exact wrap_nat t _ (by omega)

@[simp] theorem ofBool_bits (b : Bool) : (ofBool b).bits = if b then 1 else 0 := rfl
@[simp] theorem ofBool_ty (b : Bool) : (ofBool b).ty = .bool := rfl
@[simp] theorem wrap_ty (t : CTy) (i : Int) : (wrap t i).ty = t := rfl

theorem isTrue_mk (t : CTy) (b : Nat) : isTrue ⟨t, b⟩ = (b != 0) := rfl

end CVal
end Sbepp

namespace Sbepp
namespace CVal

/-! ### canonical form: every well-formed value is `wrap t i` for an in-range `i` -/

theorem mk_mod_eq_wrap (t : CTy) (a : Nat) : (⟨t, a % 2 ^ t.bits⟩ : CVal) = wrap t (a : Int) := by
  unfold wrap
  congr 1

theorem two_pow_pred_double (t : CTy) : 2 ^ t.bits = 2 * 2 ^ (t.bits - 1) := by
  cases t <;> decide

theorem toInt_wrap (t : CTy) (i : Int) (h : inRange t i = true) : (wrap t i).toInt = i := by
  have hd := two_pow_pred_double t
  have hpos : 0 < 2 ^ (t.bits - 1) := Nat.two_pow_pos _
  unfold inRange at h
  by_cases hs : t.signed = true
  · simp only [hs, if_true, Bool.and_eq_true, decide_eq_true_eq] at h
    by_cases hneg : i < 0
    · obtain ⟨k, hk⟩ : ∃ k : Nat, i = -(k : Int) := ⟨i.natAbs, by omega⟩
      subst hk
      have hk0 : 0 < k := by omega
      rw [wrap_neg t k hk0 (by omega)]
      rw [toInt_mk_neg t _ hs (by omega)]
      omega
    · obtain ⟨k, hk⟩ : ∃ k : Nat, i = (k : Int) := ⟨i.toNat, by omega⟩
      subst hk
      rw [wrap_nat t k (by omega)]
      exact toInt_mk_small t k (by omega)
  · have hs' : t.signed = false := by simpa using hs
    simp only [hs', Bool.false_eq_true, if_false, Bool.and_eq_true, decide_eq_true_eq] at h
    obtain ⟨k, hk⟩ : ∃ k : Nat, i = (k : Int) := ⟨i.toNat, by omega⟩
    subst hk
    rw [wrap_nat t k (by omega)]
    exact toInt_mk_unsigned t k hs'

theorem conv_wrap (t t' : CTy) (i : Int) (h : inRange t i = true) (hb : t' ≠ .bool) :
    conv t' (wrap t i) = wrap t' i := by
  unfold conv
  rw [toInt_wrap t i h]
  cases t' <;> simp_all

theorem promote_wrap_small (t : CTy) (i : Int) (h : inRange t i = true) (hr : t.rank < 3) :
    (wrap t i).promote = wrap .i32 i := by
  unfold promote
  simp only [wrap_ty, CTy.promote, hr, if_true]
  exact conv_wrap t .i32 i h (by decide)

theorem promote_wrap_big (t : CTy) (i : Int) (h : inRange t i = true) (hr : ¬ t.rank < 3) :
    (wrap t i).promote = wrap t i := by
  unfold promote
  simp only [wrap_ty, CTy.promote, hr, if_false]
  exact conv_wrap t t i h (by intro hc; subst hc; simp [CTy.rank] at hr)

end CVal
end Sbepp

namespace Sbepp
namespace CVal

/-! ### conversions of structure literals at the bit level -/

theorem conv_mk_nonneg (t t' : CTy) (b : Nat) (ht' : t' ≠ .bool)
    (hsmall : t.signed = false ∨ b < 2 ^ (t.bits - 1)) (hfit : b < 2 ^ t'.bits) :
    conv t' ⟨t, b⟩ = ⟨t', b⟩ := by
  have hti : toInt ⟨t, b⟩ = (b : Int) := by
    cases hsmall with
    | inl h => exact toInt_mk_unsigned t b h
    | inr h => exact toInt_mk_small t b h
  unfold conv
  rw [hti, wrap_nat t' b hfit]
  cases t' <;> simp_all

theorem conv_mk_neg (t t' : CTy) (b : Nat) (ht' : t' ≠ .bool) (ht : t.signed = true)
    (hb : 2 ^ (t.bits - 1) ≤ b) (hb2 : b < 2 ^ t.bits) (hw : t.bits ≤ t'.bits) :
    conv t' ⟨t, b⟩ = ⟨t', 2 ^ t'.bits - 2 ^ t.bits + b⟩ := by
  have hti := toInt_mk_neg t b ht hb
  have hle : 2 ^ t.bits ≤ 2 ^ t'.bits := Nat.pow_le_pow_right (by decide) hw
  unfold conv
  rw [hti]
  have hneg : ((b : Int) - ((2 ^ t.bits : Nat) : Int)) = -(((2 ^ t.bits - b : Nat)) : Int) := by omega
  rw [hneg, wrap_neg t' _ (by omega) (by omega)]
  have : 2 ^ t'.bits - (2 ^ t.bits - b) = 2 ^ t'.bits - 2 ^ t.bits + b := by omega
  rw [this]
  cases t' <;> simp_all

theorem promote_mk (t : CTy) (b : Nat) :
    promote ⟨t, b⟩ = conv t.promote ⟨t, b⟩ := rfl

end CVal
end Sbepp
