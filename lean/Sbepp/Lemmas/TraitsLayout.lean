/-
  C18 helper lemmas about the derived traits: actual presence, sizes and
  offsets against the validator layout model (`Schema.Resolve`), default
  ranges against the SBE table.
-/
import Sbepp.Lemmas.Traits
import Sbepp.Lemmas.ResolveWF

namespace Sbepp.Gen.Traits
open Sbepp Sbepp.Schema Sbepp.Spec.Traits

/-! ### presence -/

theorem actualPresence_spec (types : List Elem) (f : FieldDef) (p : Presence)
    (h : actualPresence types f = .ok p) : specPresence types f = some p := by
  unfold actualPresence at h
  unfold specPresence
  split at h
  · rename_i hp
    simp only [Except.ok.injEq] at h
    simp [hp, h]
  · rename_i hp
    simp only [hp]
    split at h
    · simp at h
    · rename_i t hl
      simp only [Except.ok.injEq] at h
      simp [hl, h]
    · rename_i hl
      simp only [Except.ok.injEq] at h
      simp [hl, h]
    · rename_i hl
      simp only [Except.ok.injEq] at h
      simp only [hl, Bool.false_eq_true, if_false, Option.some.injEq]
      rw [← h]
      cases f.presence <;> rfl
    · rename_i hl
      simp only [Except.ok.injEq] at h
      simp [hl, h]
    · simp at h

/-! ### default ranges -/

open Sbepp.Spec.Scalar in
theorem genDefault_sbe (a : Attr) (p : Prim) : Rt.Scalar.genDefault a p = some (sbeDefault p a) := by
  cases p <;> cases a <;> decide +kernel

/-! ### sizes do not depend on fuel, path or base -/

def SizeDetE (types : List Elem) (f1 : Nat) : Prop :=
  ∀ f2 p1 b1 p2 b2 e s1 l1 s2 l2, elemLeaves types f1 p1 b1 e = .ok (s1, l1) →
    elemLeaves types f2 p2 b2 e = .ok (s2, l2) → s1 = s2

def SizeDetC (types : List Elem) (f1 : Nat) : Prop :=
  ∀ f2 p1 b1 p2 b2 cur es t1 l1 t2 l2, compLeaves types f1 p1 b1 cur es = .ok (t1, l1) →
    compLeaves types f2 p2 b2 cur es = .ok (t2, l2) → t1 = t2

theorem size_det (types : List Elem) : ∀ f1, SizeDetE types f1 ∧ SizeDetC types f1 := by
  intro f1
  induction f1 with
  | zero =>
    constructor
    · intro f2 p1 b1 p2 b2 e s1 l1 s2 l2 h1 _
      simp [elemLeaves] at h1
    · intro f2 p1 b1 p2 b2 cur es t1 l1 t2 l2 h1 h2
      cases es with
      | nil =>
        cases f2 <;> simp only [compLeaves, Except.ok.injEq, Prod.mk.injEq] at h1 h2 <;> omega
      | cons _ _ => simp [compLeaves] at h1
  | succ f1 ih =>
    obtain ⟨ihE, ihC⟩ := ih
    constructor
    · intro f2 p1 b1 p2 b2 e s1 l1 s2 l2 h1 h2
      cases f2 with
      | zero => simp [elemLeaves] at h2
      | succ f2 =>
        cases e with
        | type t =>
          cases hps : primSize? t.prim with
          | none => simp [elemLeaves, hps] at h1
          | some ps =>
            simp only [elemLeaves, hps] at h1 h2
            split at h1 <;> split at h2 <;> simp only [Except.ok.injEq, Prod.mk.injEq] at h1 h2 <;>
              rw [← h1.1, ← h2.1]
        | enum n enc o vs a =>
          simp only [elemLeaves, bind, Except.bind] at h1 h2
          split at h1
          · simp at h1
          · rename_i p hp
            simp only [hp] at h2
            simp only [Except.ok.injEq, Prod.mk.injEq] at h1 h2
            rw [← h1.1, ← h2.1]
        | set n enc o cs a =>
          simp only [elemLeaves, bind, Except.bind] at h1 h2
          split at h1
          · simp at h1
          · rename_i p hp
            simp only [hp] at h2
            simp only [Except.ok.injEq, Prod.mk.injEq] at h1 h2
            rw [← h1.1, ← h2.1]
        | ref n ty o a =>
          simp only [elemLeaves] at h1 h2
          split at h1
          · simp at h1
          · rename_i target hl
            simp only [hl] at h2
            exact ihE f2 _ _ _ _ _ _ _ _ _ h1 h2
        | composite n o elems a =>
          simp only [elemLeaves] at h1 h2
          exact ihC f2 _ _ _ _ _ _ _ _ _ _ h1 h2
    · intro f2 p1 b1 p2 b2 cur es t1 l1 t2 l2 h1 h2
      cases es with
      | nil =>
        cases f2 <;> simp only [compLeaves, Except.ok.injEq, Prod.mk.injEq] at h1 h2 <;> omega
      | cons e rest =>
        cases f2 with
        | zero => simp [compLeaves] at h2
        | succ f2 =>
          simp only [compLeaves] at h1 h2
          by_cases hc : isConstElem types e = true
          · simp only [hc, if_true] at h1 h2
            split at h1
            · simp at h1
            · split at h2
              · simp at h2
              · exact ihC f2 _ _ _ _ _ _ _ _ _ _ h1 h2
          · simp only [hc, Bool.false_eq_true, if_false] at h1 h2
            split at h1
            · simp at h1
            · rename_i off hoff
              simp only [hoff] at h2
              split at h1
              · simp at h1
              · rename_i sz1 lv1 he1
                split at h2
                · simp at h2
                · rename_i sz2 lv2 he2
                  have hsz : sz1 = sz2 := ihE f2 _ _ _ _ _ _ _ _ _ he1 he2
                  subst hsz
                  split at h1
                  · simp at h1
                  split at h2
                  · simp at h2
                  split at h1
                  · simp at h1
                  · rename_i tot1 lvr1 hr1
                    split at h2
                    · simp at h2
                    · rename_i tot2 lvr2 hr2
                      simp only [Except.ok.injEq, Prod.mk.injEq] at h1 h2
                      have := ihC f2 _ _ _ _ _ _ _ _ _ _ hr1 hr2
                      omega

/-- the size of an encoding is the same in every context the validator model computes it in -/
theorem size_indep (types : List Elem) (f1 f2 : Nat) (p1 p2 : List String) (b1 b2 : Nat) (e : Elem)
    (s1 s2 : Nat) (l1 l2 : List NLeaf) (h1 : elemLeaves types f1 p1 b1 e = .ok (s1, l1))
    (h2 : elemLeaves types f2 p2 b2 e = .ok (s2, l2)) : s1 = s2 :=
  (size_det types f1).1 f2 p1 b1 p2 b2 e s1 l1 s2 l2 h1 h2

/-! ### offsets of composite elements -/

theorem placeAt_iff (o : Option Nat) (cur off : Nat) :
    placeAt o cur = .ok off ↔ (o = some off ∧ ¬ off < cur) ∨ (o = none ∧ off = cur) := by
  unfold placeAt
  cases o with
  | none => simp [eq_comm]
  | some x =>
    simp only [Option.some.injEq, reduceCtorEq, false_and, or_false]
    split
    · rename_i hlt
      simp only [reduceCtorEq, false_iff, not_and, Decidable.not_not]
      intro hx; subst hx; exact hlt
    · rename_i hlt
      simp only [Except.ok.injEq]
      constructor
      · intro h; subst h; exact ⟨rfl, hlt⟩
      · intro h; exact h.1

theorem encSize_eq (types : List Elem) (e : Elem) (sz : Nat) (h : encSize types e = .ok sz) :
    ∃ lv, elemLeaves types FUEL [] 0 e = .ok (sz, lv) := by
  unfold encSize at h
  split at h
  · rename_i r hr
    simp only [Except.ok.injEq] at h
    subst h
    exact ⟨r.2, hr⟩
  · simp at h

/-- **element offsets are layout offsets**: the leaves the validator model lays out for a
    non-constant element `e` of a composite are exactly `e`'s own leaves placed at
    `base + off`, where `off` is the element's `offset` trait -/
theorem comp_offset_layout (types : List Elem) : ∀ (before : List Elem) (fuel : Nat) (path : List String)
    (base cur : Nat) (e : Elem) (after : List Elem) (total : Nat) (lv : List NLeaf) (cur' off : Nat),
    compLeaves types fuel path base cur (before ++ e :: after) = .ok (total, lv) →
    isConstElem types e = false →
    runOffset types cur before = .ok cur' → placeAt e.offset cur' = .ok off →
    ∃ fuel' sz lvb lve lva,
      elemLeaves types fuel' (path ++ [e.name]) (base + off) e = .ok (sz, lve) ∧ lv = lvb ++ lve ++ lva := by
  intro before
  induction before with
  | nil =>
    intro fuel path base cur e after total lv cur' off h hc hrun hplace
    simp only [runOffset, Except.ok.injEq] at hrun
    subst hrun
    cases fuel with
    | zero => simp [compLeaves] at h
    | succ f =>
      simp only [List.nil_append, compLeaves, hc, Bool.false_eq_true, if_false] at h
      split at h
      · simp at h
      · rename_i off1 hoff
        unfold storedOffset at hoff
        have hoff1 : off1 = off := by
          rcases (placeAt_iff _ _ _).mp hplace with ⟨ho, _⟩ | ⟨ho, hcur⟩
          · simp only [ho] at hoff
            split at hoff
            · simp at hoff
            · simpa using hoff.symm
          · simp only [ho] at hoff
            simp only [Except.ok.injEq] at hoff
            omega
        subst hoff1
        split at h
        · simp at h
        · rename_i sz lv1 he
          split at h
          · simp at h
          split at h
          · simp at h
          · rename_i tot lv2 _
            simp only [Except.ok.injEq, Prod.mk.injEq] at h
            exact ⟨f, sz, [], lv1, lv2, he, by simp [h.2]⟩
  | cons x xs ih =>
    intro fuel path base cur e after total lv cur' off h hc hrun hplace
    cases fuel with
    | zero => simp [compLeaves] at h
    | succ f =>
      simp only [List.cons_append, compLeaves] at h
      by_cases hx : isConstElem types x = true
      · simp only [hx, if_true] at h
        simp only [runOffset, hx, if_true] at hrun
        split at h
        · simp at h
        · exact ih f path base cur e after total lv cur' off h hc hrun hplace
      · simp only [hx, Bool.false_eq_true, if_false] at h
        simp only [runOffset, hx, Bool.false_eq_true, if_false] at hrun
        split at h
        · simp at h
        · rename_i offx hoffx
          unfold storedOffset at hoffx
          split at h
          · simp at h
          · rename_i szx lvx hex
            split at h
            · simp at h
            split at h
            · simp at h
            · rename_i tot lvr hr
              simp only [Except.ok.injEq, Prod.mk.injEq] at h
              split at hrun
              · simp at hrun
              · rename_i offx' hplx
                have hoffeq : offx' = offx := by
                  rcases (placeAt_iff _ _ _).mp hplx with ⟨ho, _⟩ | ⟨ho, hcur⟩
                  · simp only [ho] at hoffx
                    split at hoffx
                    · simp at hoffx
                    · simpa using hoffx
                  · simp only [ho] at hoffx
                    simp only [Except.ok.injEq] at hoffx
                    omega
                subst hoffeq
                split at hrun
                · simp at hrun
                · rename_i szx' henc
                  obtain ⟨lv0, hl0⟩ := encSize_eq types x szx' henc
                  have hszeq : szx' = szx := size_indep types _ _ _ _ _ _ x _ _ _ _ hl0 hex
                  subst hszeq
                  obtain ⟨fuel', sz, lvb, lve, lva, he, hlv⟩ :=
                    ih f path base (offx' + szx') e after tot lvr cur' off hr hc hrun hplace
                  exact ⟨fuel', sz, lvx ++ lvb, lve, lva, he, by rw [← h.2, hlv]; simp [List.append_assoc]⟩

/-! ### offsets of fields -/

/-- the leaves of one field placed at `off`: a primitive field is one leaf, any other
    field the leaves of its encoding -/
def FieldLeavesAt (types : List Elem) (f : FieldDef) (off sz : Nat) (lve : List NLeaf) : Prop :=
  (isPrimitive f.type = true ∧ sz = (primSize? f.type).getD 0 ∧
    lve = [{ path := [f.name], off := off, size := sz, prim := f.type, count := 1, kind := "type" }]) ∨
  (isPrimitive f.type = false ∧ ∃ enc, lookup types f.type = some enc ∧
    elemLeaves types FUEL [f.name] off enc = .ok (sz, lve))

theorem fieldSize_eq (types : List Elem) (f : FieldDef) (off sz sz' : Nat) (lve : List NLeaf)
    (h : FieldLeavesAt types f off sz lve) (hs : fieldSize types f = .ok sz') : sz' = sz := by
  unfold fieldSize at hs
  rcases h with ⟨hp, hsz, _⟩ | ⟨hp, enc, hl, he⟩
  · simp only [hp, if_true, Except.ok.injEq] at hs
    omega
  · simp only [hp, Bool.false_eq_true, if_false, hl] at hs
    obtain ⟨lv0, hl0⟩ := encSize_eq types enc sz' hs
    exact size_indep types _ _ _ _ _ _ enc _ _ _ _ hl0 he

/-- one step of `fieldLeaves` on a non-constant field -/
theorem fieldLeaves_cons (types : List Elem) (cur : Nat) (f : FieldDef) (rest : List FieldDef) (total : Nat)
    (lv : List NLeaf) (pres : Presence) (h : fieldLeaves types cur (f :: rest) = .ok (total, lv))
    (hp : actualPresence types f = .ok pres) (hc : (pres == Presence.constant) = false) :
    ∃ off sz lve lvr, placeAt f.offset cur = .ok off ∧ FieldLeavesAt types f off sz lve ∧
      fieldLeaves types (off + sz) rest = .ok (total, lvr) ∧ lv = lve ++ lvr := by
  simp only [fieldLeaves, bind, Except.bind, hp, hc, Bool.false_eq_true, if_false] at h
  split at h
  · simp at h
  · rename_i off hoff
    unfold storedOffset at hoff
    have hplace : placeAt f.offset cur = .ok off := by
      apply (placeAt_iff _ _ _).mpr
      cases ho : f.offset with
      | none =>
        simp only [ho, Except.ok.injEq] at hoff
        exact Or.inr ⟨rfl, hoff.symm⟩
      | some o =>
        simp only [ho] at hoff
        split at hoff
        · simp at hoff
        · rename_i hlt
          simp only [Except.ok.injEq] at hoff
          subst hoff
          exact Or.inl ⟨rfl, hlt⟩
    split at h
    · simp at h
    · rename_i szlv hszlv
      obtain ⟨sz, lve⟩ := szlv
      split at h
      · simp at h
      split at h
      · simp at h
      · rename_i tl hr
        obtain ⟨tot, lvr⟩ := tl
        simp only [Except.ok.injEq, Prod.mk.injEq] at h
        refine ⟨off, sz, lve, lvr, hplace, ?_, by rw [← h.1]; exact hr, h.2.symm⟩
        split at hszlv
        · rename_i hprim
          simp only [Except.ok.injEq, Prod.mk.injEq] at hszlv
          exact Or.inl ⟨hprim, hszlv.1.symm, by rw [← hszlv.2, ← hszlv.1]⟩
        · rename_i hprim
          split at hszlv
          · rename_i enc hl
            exact Or.inr ⟨by simpa using hprim, enc, hl, hszlv⟩
          · simp at hszlv

/-- one step of `fieldLeaves` on a constant field -/
theorem fieldLeaves_cons_const (types : List Elem) (cur : Nat) (f : FieldDef) (rest : List FieldDef) (total : Nat)
    (lv : List NLeaf) (h : fieldLeaves types cur (f :: rest) = .ok (total, lv))
    (hp : actualPresence types f = .ok .constant) : fieldLeaves types cur rest = .ok (total, lv) := by
  simp only [fieldLeaves, bind, Except.bind, hp, beq_self_eq_true, if_true] at h
  split at h
  · simp at h
  · exact h

/-- **field offsets are layout offsets**: the leaves the validator model lays out for a
    non-constant field are exactly the field's own leaves placed at its `offset` trait -/
theorem field_offset_layout (types : List Elem) : ∀ (before : List FieldDef) (cur : Nat) (f : FieldDef)
    (after : List FieldDef) (total : Nat) (lv : List NLeaf) (pres : Presence) (cur' off : Nat),
    fieldLeaves types cur (before ++ f :: after) = .ok (total, lv) →
    actualPresence types f = .ok pres → (pres == Presence.constant) = false →
    runFieldOffset types cur before = .ok cur' → placeAt f.offset cur' = .ok off →
    ∃ sz lvb lve lva, FieldLeavesAt types f off sz lve ∧ lv = lvb ++ lve ++ lva := by
  intro before
  induction before with
  | nil =>
    intro cur f after total lv pres cur' off h hp hc hrun hplace
    simp only [runFieldOffset, Except.ok.injEq] at hrun
    subst hrun
    obtain ⟨off1, sz, lve, lvr, hpl, hfl, _, hlv⟩ := fieldLeaves_cons types cur f after total lv pres h hp hc
    rw [hplace] at hpl
    simp only [Except.ok.injEq] at hpl
    subst hpl
    exact ⟨sz, [], lve, lvr, hfl, by simp [hlv]⟩
  | cons x xs ih =>
    intro cur f after total lv pres cur' off h hp hc hrun hplace
    simp only [List.cons_append] at h
    simp only [runFieldOffset] at hrun
    split at hrun
    · simp at hrun
    · rename_i px hpx
      by_cases hcx : (px == Presence.constant) = true
      · simp only [hcx, if_true] at hrun
        have hpx' : actualPresence types x = .ok .constant := by
          rw [hpx]; congr 1; simpa using hcx
        exact ih cur f after total lv pres cur' off (fieldLeaves_cons_const types cur x _ total lv h hpx') hp hc hrun hplace
      · have hcx' : (px == Presence.constant) = false := by simpa using hcx
        simp only [hcx', Bool.false_eq_true, if_false] at hrun
        obtain ⟨offx, szx, lvx, lvr, hplx, hflx, hrest, hlv⟩ := fieldLeaves_cons types cur x _ total lv px h hpx hcx'
        rw [hplx] at hrun
        simp only at hrun
        split at hrun
        · simp at hrun
        · rename_i szx' hfs
          have : szx' = szx := fieldSize_eq types x offx szx szx' lvx hflx hfs
          subst this
          obtain ⟨sz, lvb, lve, lva, hfl, hl⟩ := ih (offx + szx') f after total lvr pres cur' off hrest hp hc hrun hplace
          exact ⟨sz, lvx ++ lvb, lve, lva, hfl, by rw [hlv, hl]; simp [List.append_assoc]⟩

end Sbepp.Gen.Traits
