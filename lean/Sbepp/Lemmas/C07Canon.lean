/-
  Lemmas for C07 (enumerator values): stripping leading zeros yields THE decimal representation of the value,
  so two accepted integer texts denote the same number exactly when their canonical texts
  (`Spec.Rules.canonInt`, what the validator compares since c7e26c2) are equal.
-/
import Sbepp.Gen.Accept
import Sbepp.Lemmas.C07Literals

namespace Sbepp.Gen.Literals
open Sbepp

theorem zero_toNat : '0'.toNat = 48 := rfl

theorem isDigit_bounds (c : Char) (h : c.isDigit = true) : 48 ≤ c.toNat ∧ c.toNat ≤ 57 := by
  simp only [Char.isDigit, Bool.and_eq_true, decide_eq_true_eq] at h
  exact ⟨UInt32.le_iff_toNat_le.mp h.1, UInt32.le_iff_toNat_le.mp h.2⟩

theorem digitChar_of_isDigit (c : Char) (h : c.isDigit = true) : Nat.digitChar (c.toNat - 48) = c := by
  obtain ⟨h1, h2⟩ := isDigit_bounds c h
  apply Char.toNat_inj.mp
  have : c.toNat = 48 ∨ c.toNat = 49 ∨ c.toNat = 50 ∨ c.toNat = 51 ∨ c.toNat = 52 ∨ c.toNat = 53 ∨ c.toNat = 54 ∨
      c.toNat = 55 ∨ c.toNat = 56 ∨ c.toNat = 57 := by omega
  rcases this with e | e | e | e | e | e | e | e | e | e <;> rw [e] <;> rfl

theorem isDigit_sub_lt (c : Char) (h : c.isDigit = true) : c.toNat - 48 < 10 := by
  have := isDigit_bounds c h
  omega

/-- `digitsVal` succeeds on digit strings only and computes `Nat.ofDigitChars` -/
theorem digitsVal_spec : ∀ (cs : List Char) (acc n : Nat), digitsVal 10 cs acc = some n →
    n = Nat.ofDigitChars 10 cs acc ∧ ∀ c ∈ cs, c.isDigit = true := by
  intro cs
  induction cs with
  | nil => intro acc n h; simp [digitsVal] at h; simp [h]
  | cons c cs ih =>
    intro acc n h
    simp only [digitsVal, digitVal?] at h
    by_cases hd : c.isDigit = true
    · have hlt : c.toNat - '0'.toNat < 10 := by rw [zero_toNat]; exact isDigit_sub_lt c hd
      simp only [hd, if_true, hlt] at h
      obtain ⟨h1, h2⟩ := ih _ _ h
      refine ⟨?_, ?_⟩
      · rw [h1, Nat.ofDigitChars_cons, Nat.mul_comm]
      · intro x hx
        rcases List.mem_cons.mp hx with e | e
        · exact e ▸ hd
        · exact h2 x e
    · simp [hd] at h

theorem ofDigitChars_zero_cons (cs : List Char) : Nat.ofDigitChars 10 ('0' :: cs) 0 = Nat.ofDigitChars 10 cs 0 := by
  simp [Nat.ofDigitChars_cons]

theorem ofDigitChars_dropWhile (cs : List Char) :
    Nat.ofDigitChars 10 (cs.dropWhile (· == '0')) 0 = Nat.ofDigitChars 10 cs 0 := by
  induction cs with
  | nil => rfl
  | cons c cs ih =>
    by_cases hc : c = '0'
    · subst hc
      simp only [List.dropWhile_cons, beq_self_eq_true, if_true]
      rw [ih, ofDigitChars_zero_cons]
    · have : (c == '0') = false := by simpa using hc
      simp [List.dropWhile_cons, this]

/-- a digit string that does not start with `0` is the decimal representation of its value -/
theorem toDigits_ofDigitChars : ∀ (r : List Char) (ds : List Char), ds = r.reverse → ds ≠ [] →
    (∀ c ∈ ds, c.isDigit = true) → ds.head? ≠ some '0' → Nat.toDigits 10 (Nat.ofDigitChars 10 ds 0) = ds := by
  intro r
  induction r with
  | nil => intro ds h hne; simp at h; exact absurd h hne
  | cons c r ih =>
    intro ds h _ hdig hhead
    rw [List.reverse_cons] at h
    subst h
    have hc : c.isDigit = true := hdig c (by simp)
    by_cases hr : r = []
    · subst hr
      simp only [List.reverse_nil, List.nil_append]
      rw [Nat.ofDigitChars_cons, Nat.ofDigitChars_nil]
      simp only [Nat.mul_zero, Nat.zero_add, zero_toNat]
      rw [Nat.toDigits_of_lt_base (isDigit_sub_lt c hc), digitChar_of_isDigit c hc]
    · have hne : r.reverse ≠ [] := by simpa using hr
      have hd' : ∀ x ∈ r.reverse, x.isDigit = true := fun x hx => hdig x (by simp at hx ⊢; exact Or.inl hx)
      have hh' : r.reverse.head? ≠ some '0' := by
        cases hrr : r.reverse with
        | nil => exact absurd hrr hne
        | cons a t => rw [hrr] at hhead; simpa using hhead
      have := ih r.reverse rfl hne hd' hh'
      rw [Nat.ofDigitChars_append, Nat.ofDigitChars_cons, Nat.ofDigitChars_nil, zero_toNat]
      have hpos : 0 < Nat.ofDigitChars 10 r.reverse 0 := by
        rcases Nat.eq_zero_or_pos (Nat.ofDigitChars 10 r.reverse 0) with h0 | h0
        · rw [h0, Nat.toDigits_zero] at this
          rw [← this] at hh'
          exact absurd rfl hh'
        · exact h0
      have happ := Nat.toDigits_append_toDigits (b := 10) (n := Nat.ofDigitChars 10 r.reverse 0) (d := c.toNat - 48)
        (by decide) hpos (isDigit_sub_lt c hc)
      rw [← happ, this, Nat.toDigits_of_lt_base (isDigit_sub_lt c hc), digitChar_of_isDigit c hc]

theorem dropWhile_head (cs : List Char) : (cs.dropWhile (· == '0')).head? ≠ some '0' := by
  induction cs with
  | nil => simp
  | cons c cs ih =>
    by_cases hc : c = '0'
    · subst hc; simpa [List.dropWhile_cons] using ih
    · have : (c == '0') = false := by simpa using hc
      simp [List.dropWhile_cons, this]
      exact hc

/-- **stripping leading zeros gives THE decimal representation of the value** -/
theorem stripZeros_canonical {ds : List Char} {n : Nat} (h : decimal ds = some n) :
    stripZeros ds = Nat.toDigits 10 n := by
  unfold decimal at h
  cases hne : ds.isEmpty with
  | true => simp [hne] at h
  | false =>
    simp only [hne, Bool.false_eq_true, if_false] at h
    obtain ⟨hn, hdig⟩ := digitsVal_spec ds 0 n h
    have hne' : ds ≠ [] := by simpa using hne
    unfold stripZeros
    cases hd : ds.dropWhile (· == '0') with
    | nil =>
      -- all zeros
      have hv : n = 0 := by rw [hn, ← ofDigitChars_dropWhile, hd]; rfl
      cases hl : ds.getLast? with
      | none => exact absurd (List.getLast?_eq_none_iff.mp hl) hne'
      | some c =>
        have hc := allZeros_last ds hd c hl
        subst hc
        simp [hv, Nat.toDigits_zero]
    | cons a t =>
      have hmem : ∀ (l : List Char), ∀ c ∈ l.dropWhile (· == '0'), c ∈ l := by
        intro l
        induction l with
        | nil => intro c hc; simp at hc
        | cons y ys ih =>
          intro c hc
          by_cases hy : y = '0'
          · subst hy
            simp only [List.dropWhile_cons, beq_self_eq_true, if_true] at hc
            exact List.mem_cons_of_mem _ (ih c hc)
          · have : (y == '0') = false := by simpa using hy
            simpa [List.dropWhile_cons, this] using hc
      have hsub : ∀ c ∈ a :: t, c.isDigit = true := fun c hc => hdig c (hmem ds c (hd ▸ hc))
      have hh : (a :: t).head? ≠ some '0' := hd ▸ dropWhile_head ds
      have := toDigits_ofDigitChars (a :: t).reverse (a :: t) (by simp) (by simp) hsub hh
      rw [← hd, ofDigitChars_dropWhile, ← hn, hd] at this
      exact this.symm

/-! ### the validator's canonical text -/

/-- `canonInt` in terms of `stripZeros` -/
theorem canonInt_unfold (cs : List Char) :
    Spec.Rules.canonInt cs =
      (if (cs.head? == some '-') = true then
         (if ('-' :: stripZeros (cs.drop 1) == ['-', '0']) = true then ['0'] else '-' :: stripZeros (cs.drop 1))
       else (if (stripZeros cs == ['-', '0']) = true then ['0'] else stripZeros cs)) := by
  unfold Spec.Rules.canonInt stripZeros
  by_cases hneg : (cs.head? == some '-') = true
  · simp only [hneg, if_true, List.singleton_append]
    cases hd : List.dropWhile (fun x => x == '0') (List.drop 1 cs) with
    | nil => cases (List.drop 1 cs).getLast? <;> rfl
    | cons a t => rfl
  · simp only [hneg, Bool.false_eq_true, if_false, List.nil_append]
    cases hd : List.dropWhile (fun x => x == '0') cs with
    | nil => cases cs.getLast? <;> rfl
    | cons a t => rfl

theorem toDigits_eq_zero (n : Nat) (h : Nat.toDigits 10 n = ['0']) : n = 0 := by
  have := @Nat.ofDigitChars_ten_toDigits n
  rw [h] at this
  simpa [Nat.ofDigitChars_cons] using this.symm

theorem toDigits_head_ne_minus (n : Nat) : (Nat.toDigits 10 n).head? ≠ some '-' := by
  cases h : Nat.toDigits 10 n with
  | nil => simp
  | cons c t =>
    have : c.isDigit = true := Nat.isDigit_of_mem_toDigits (by decide) (by decide) (h ▸ List.mem_cons_self)
    intro hc
    simp only [List.head?_cons, Option.some.injEq] at hc
    subst hc
    exact absurd this (by decide)

/-- the canonical text of an integer -/
def intDigits (v : Int) : List Char :=
  if v < 0 then '-' :: Nat.toDigits 10 v.natAbs else Nat.toDigits 10 v.toNat

theorem decimal_head_ne_minus {cs : List Char} {n : Nat} (h : decimal cs = some n) : cs.head? ≠ some '-' := by
  unfold decimal at h
  cases hne : cs.isEmpty with
  | true => simp [hne] at h
  | false =>
    simp only [hne, Bool.false_eq_true, if_false] at h
    obtain ⟨_, hdig⟩ := digitsVal_spec cs 0 n h
    cases cs with
    | nil => simp
    | cons c t =>
      intro hc
      simp only [List.head?_cons, Option.some.injEq] at hc
      subst hc
      exact absurd (hdig _ List.mem_cons_self) (by decide)

/-- **`canonInt` is a function of the value**: for every text `from_chars` accepts, the validator's canonical
    text (leading zeros stripped keeping one digit, `-0` = `0`) is the decimal representation of the number -/
theorem canonInt_of_value {cs : List Char} {v : Int} (h : fromChars true cs = some v) :
    Spec.Rules.canonInt cs = intDigits v := by
  rw [canonInt_unfold]
  unfold fromChars at h
  split at h
  · rename_i ds
    simp only [if_true] at h
    obtain ⟨n, hn, hv⟩ := Option.map_eq_some_iff.mp h
    have hb := stripZeros_canonical hn
    simp only [List.head?_cons, beq_self_eq_true, if_true, List.drop_one, List.tail_cons, hb]
    subst hv
    by_cases h0 : n = 0
    · subst h0
      simp [Nat.toDigits_zero, intDigits]
    · have hne : Nat.toDigits 10 n ≠ ['0'] := fun e => h0 (toDigits_eq_zero n e)
      have hneg : -(Int.ofNat n) < 0 := by simp; omega
      have : ('-' :: Nat.toDigits 10 n == ['-', '0']) = false := by
        simp only [beq_eq_false_iff_ne, ne_eq, List.cons.injEq, true_and]
        exact hne
      simp only [this, Bool.false_eq_true, if_false, intDigits, hneg, if_true]
      simp
  · rename_i hnm
    obtain ⟨n, hn, hv⟩ := Option.map_eq_some_iff.mp h
    have hb := stripZeros_canonical hn
    have hh := decimal_head_ne_minus hn
    have hneg : (cs.head? == some '-') = false := by simpa using hh
    simp only [hneg, Bool.false_eq_true, if_false, hb]
    subst hv
    have h2 : (Nat.toDigits 10 n == ['-', '0']) = false := by
      simp only [beq_eq_false_iff_ne, ne_eq]
      intro e
      have := toDigits_head_ne_minus n
      rw [e] at this
      exact this rfl
    have hnn : ¬ (Int.ofNat n < 0) := by simp
    simp only [h2, Bool.false_eq_true, if_false, intDigits, hnn]
    simp

/-- two texts of the same number have the same canonical text -/
theorem canonInt_eq_of_value_eq {a b : List Char} {v : Int} (ha : fromChars true a = some v)
    (hb : fromChars true b = some v) : Spec.Rules.canonInt a = Spec.Rules.canonInt b := by
  rw [canonInt_of_value ha, canonInt_of_value hb]

/-! ### from distinct canonical texts to distinct `case` labels -/

theorem repeats_nil {α} (key : α → String) : ∀ (vs : List α) (seen : List String),
    Spec.Rules.repeats key seen vs = [] → (vs.map key).Nodup ∧ ∀ x ∈ vs, key x ∉ seen := by
  intro vs
  induction vs with
  | nil => intro seen _; exact ⟨List.nodup_nil, fun _ h => by cases h⟩
  | cons x rest ih =>
    intro seen h
    unfold Spec.Rules.repeats at h
    by_cases hc : seen.contains (key x) = true
    · rw [if_pos hc] at h; cases h
    · rw [if_neg hc] at h
      obtain ⟨h1, h2⟩ := ih _ h
      have hx : key x ∉ seen := by simpa using hc
      refine ⟨?_, ?_⟩
      · simp only [List.map_cons]
        refine List.nodup_cons.mpr ⟨?_, h1⟩
        intro hm
        obtain ⟨y, hy, hky⟩ := List.mem_map.mp hm
        exact h2 y hy (hky ▸ List.mem_cons_self)
      · intro y hy
        rcases List.mem_cons.mp hy with e | e
        · exact e ▸ hx
        · exact fun hm => h2 y e (List.mem_cons_of_mem _ hm)

theorem dupInt_false_of_nodup (xs : List Int) (h : xs.Nodup) : dupInt xs = false := by
  induction xs with
  | nil => rfl
  | cons x xs ih =>
    have hc := List.nodup_cons.mp h
    simp [dupInt, hc.1, ih hc.2]

theorem nodup_filterMap {α} (key : α → String) (f : α → Option Int) (vs : List α) (h : (vs.map key).Nodup)
    (hk : ∀ a ∈ vs, ∀ b ∈ vs, ∀ x, f a = some x → f b = some x → key a = key b) : (vs.filterMap f).Nodup := by
  induction vs with
  | nil => exact List.nodup_nil
  | cons a rest ih =>
    have hc : key a ∉ rest.map key ∧ (rest.map key).Nodup := List.nodup_cons.mp h
    have ih' := ih hc.2 (fun a ha b hb => hk a (List.mem_cons_of_mem _ ha) b (List.mem_cons_of_mem _ hb))
    simp only [List.filterMap_cons]
    cases hfa : f a with
    | none => exact ih'
    | some x =>
      refine List.nodup_cons.mpr ⟨?_, ih'⟩
      intro hm
      obtain ⟨b, hb, hfb⟩ := List.mem_filterMap.mp hm
      have := hk a List.mem_cons_self b (List.mem_cons_of_mem _ hb) x hfa hfb
      exact hc.1 (List.mem_map.mpr ⟨b, hb, this.symm⟩)

/-- the validator's check of one valid value of an enum over primitive `p` (named `pn`) -/
def enumValidated (pn : String) (p : Prim) (v : Schema.ValidValue) : Bool :=
  if pn == "char" then v.value.toList.length == 1 else (parseIntFor p v.value.toList).isSome

/-- two validated valid values that denote the same number / character have the same validator key -/
theorem enumKey_of_value (hs : Extracted.Templates.stripsLeadingZeros = true)
    (he : Extracted.Templates.escapesLiterals = true) (pn : String) (p : Prim) (a b : Schema.ValidValue)
    (ha : enumValidated pn p a = true) (hb : enumValidated pn p b = true) (x : Int)
    (hxa : enumeratorValue (pn == "char") p a.value = some x) (hxb : enumeratorValue (pn == "char") p b.value = some x) :
    Spec.Rules.enumValueKey pn a = Spec.Rules.enumValueKey pn b := by
  unfold Spec.Rules.enumValueKey
  unfold enumValidated at ha hb
  unfold enumeratorValue at hxa hxb
  by_cases hc : (pn == "char") = true
  · simp only [hc, if_true] at ha hb hxa hxb ⊢
    cases hal : a.value.toList with
    | nil => simp [hal] at ha
    | cons c t =>
      cases t with
      | cons _ _ => simp [hal] at ha
      | nil =>
        cases hbl : b.value.toList with
        | nil => simp [hbl] at hb
        | cons d u =>
          cases u with
          | cons _ _ => simp [hbl] at hb
          | nil =>
            simp only [hal, he, Bool.not_true, Bool.and_false, Bool.false_eq_true, if_false, Option.some.injEq] at hxa
            simp only [hbl, he, Bool.not_true, Bool.and_false, Bool.false_eq_true, if_false, Option.some.injEq] at hxb
            have hcd : c = d := by
              apply Char.toNat_inj.mp
              have := hxa.trans hxb.symm
              exact Int.ofNat.inj this
            apply String.toList_inj.mp
            rw [hal, hbl, hcd]
  · simp only [hc, Bool.false_eq_true, if_false] at ha hb hxa hxb ⊢
    cases hpa : parseIntFor p a.value.toList with
    | none => simp [hpa] at ha
    | some va =>
      cases hpb : parseIntFor p b.value.toList with
      | none => simp [hpb] at hb
      | some vb =>
        have ea := (integer_literal_value p _ va hpa (Or.inl hs)).1
        have eb := (integer_literal_value p _ vb hpb (Or.inl hs)).1
        rw [ea] at hxa
        rw [eb] at hxb
        have e1 : va = x := Option.some.inj hxa
        have e2 : vb = x := Option.some.inj hxb
        subst e1
        have fa := fromChars_signed (parseIntFor_spec hpa).1
        have fb := fromChars_signed (parseIntFor_spec hpb).1
        rw [e2] at fb
        rw [canonInt_eq_of_value_eq fa fb]

/-- **the validator's rule gives the model's**: when no two validated valid values of an enum have the same
    canonical text (`Spec.Rules.repeats (enumValueKey prim) [] vs = []`, the rule of c7e26c2 as C08 states it), no
    two of them denote the same number / character, i.e. the generated `switch` has no duplicate `case` -/
theorem enum_values_distinct_of_keys (hs : Extracted.Templates.stripsLeadingZeros = true)
    (he : Extracted.Templates.escapesLiterals = true) (pn : String) (p : Prim) (vs : List Schema.ValidValue)
    (hv : ∀ v ∈ vs, enumValidated pn p v = true)
    (hk : Spec.Rules.repeats (Spec.Rules.enumValueKey pn) [] vs = []) :
    dupInt (vs.filterMap (fun v => enumeratorValue (pn == "char") p v.value)) = false := by
  apply dupInt_false_of_nodup
  apply nodup_filterMap (Spec.Rules.enumValueKey pn) _ vs (repeats_nil _ vs [] hk).1
  intro a ha b hb x hxa hxb
  exact enumKey_of_value hs he pn p a b (hv a ha) (hv b hb) x hxa hxb

end Sbepp.Gen.Literals
