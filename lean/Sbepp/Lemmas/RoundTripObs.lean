/-
  What is observable of the tree the encoder leaves in the buffer is what was
  encoded: `specL (fillL v mid) = specL v` — fields read the values that were
  set (leaves sorted, non-overlapping), group sizes, entry sizes and data
  payloads are those of `v`; the gaps (taken from the previous contents `mid`)
  are not observable.
-/
import Sbepp.Lemmas.RoundTrip
import Sbepp.Lemmas.ResolveWF

namespace Sbepp.Spec
open Sbepp Sbepp.Schema Sbepp.Observe

mutual
  theorem specL_fill (bo : ByteOrder) (pfx : String) (l : NLevel) (v : LVal) (mid : List Nat)
      (he : EncL bo l.erase v) (hs : SortedL l) (hlen : mid.length = (flattenL bo l.erase v).length) :
      specL bo pfx l (fillL bo l.erase v mid) = specL bo pfx l v := by
    match l, v with
    | .mk bl lv gs ds, .mk block gvs dvs =>
      simp only [NLevel.erase] at he hlen ⊢
      obtain ⟨hblk, hlv, hgs, hds⟩ := he
      obtain ⟨hsl, hsg⟩ := hs
      simp only [flattenL, List.length_append, hblk] at hlen
      simp only [fillL, specL]
      have l1 : (mid.take bl).length = bl := by rw [List.length_take]; omega
      have hb : ∀ lf ∈ lv.map NLeaf.leaf, lf.off + lf.size ≤ block.length := fun lf h => by rw [hblk]; exact hlv lf h
      have hp : ∀ lf ∈ lv.map NLeaf.leaf, lf.off + lf.size ≤ (mid.take bl).length := fun lf h => by rw [l1]; exact hlv lf h
      have hleaves : lv.map (fun l => leafObs bo pfx l
            (slice (writeLeaves (mid.take bl) 0 block (lv.map NLeaf.leaf)) l.off l.size))
          = lv.map (fun l => leafObs bo pfx l (slice block l.off l.size)) := by
        apply List.map_congr_left
        intro x hx
        have := writeLeaves_get (mid.take bl) block (lv.map NLeaf.leaf) x.leaf (List.mem_map_of_mem hx) hsl hb hp
        simp only [NLeaf.leaf] at this
        rw [this]
      rw [hleaves, specGs_fill bo pfx gs gvs _ hgs hsg (by rw [List.length_take, List.length_drop]; omega)]
  theorem specGs_fill (bo : ByteOrder) (pfx : String) (gs : List NGroup) (gvs : List GVal) (mid : List Nat)
      (he : EncGs bo (eraseGs gs) gvs) (hs : SortedGs gs) (hlen : mid.length = (flattenGs bo (eraseGs gs) gvs).length) :
      specGs bo pfx gs (fillGs bo (eraseGs gs) gvs mid) = specGs bo pfx gs gvs := by
    match gs, gvs with
    | [], [] => simp [eraseGs, fillGs, specGs]
    | [], _ :: _ => simp [eraseGs, EncGs] at he
    | _ :: _, [] => simp [eraseGs, EncGs] at he
    | g :: gs, v :: vs =>
      simp only [eraseGs] at he hlen ⊢
      obtain ⟨hg, hrest⟩ := he
      obtain ⟨sg, srest⟩ := hs
      simp only [flattenGs, List.length_append] at hlen
      simp only [fillGs, specGs]
      rw [specG_fill bo pfx g v _ hg sg (by rw [List.length_take]; omega),
          specGs_fill bo pfx gs vs _ hrest srest (by rw [List.length_drop]; omega)]
  theorem specG_fill (bo : ByteOrder) (pfx : String) (g : NGroup) (v : GVal) (mid : List Nat)
      (he : EncG bo g.erase v) (hs : SortedG g) (hlen : mid.length = (flattenG bo g.erase v).length) :
      specG bo pfx g (fillG bo g.erase v mid) = specG bo pfx g v := by
    match g, v with
    | .mk name dim l, .mk hdr es =>
      simp only [NGroup.erase] at he hlen ⊢
      obtain ⟨hh, hbl, hnum, hex, hes⟩ := he
      simp only [flattenG, List.length_append, hh] at hlen
      simp only [fillG, specG]
      have l1 : (mid.take dim.dim.size).length = dim.dim.size := by rw [List.length_take]; omega
      have l2 : (mid.drop dim.dim.size).length = (flattenEs bo l.erase es).length := by
        rw [List.length_drop]; omega
      have lh := fillHdr_length bo dim.dim l.erase.blockLen es.length _ l1 hbl hnum hex
      have lE := (encEs_spec bo l.erase es [] (mid.drop dim.dim.size) [] hes l2).2
      rw [fillEs_length, lh, lE, l2, hh, specEs_fill bo (pfx ++ name) 0 l es _ hes hs l2]
  theorem specEs_fill (bo : ByteOrder) (pfx : String) (i : Nat) (l : NLevel) (es : List LVal) (mid : List Nat)
      (he : EncEs bo l.erase es) (hs : SortedL l) (hlen : mid.length = (flattenEs bo l.erase es).length) :
      specEs bo pfx i l (fillEs bo l.erase es mid) = specEs bo pfx i l es := by
    match es with
    | [] => simp [fillEs, specEs]
    | e :: es =>
      obtain ⟨hE, hrest⟩ := he
      simp only [flattenEs, List.length_append] at hlen
      simp only [fillEs, specEs]
      have l1 : (mid.take (flattenL bo l.erase e).length).length = (flattenL bo l.erase e).length := by
        rw [List.length_take]; omega
      have lL := (encL_spec bo l.erase e [] _ [] hE l1).2
      rw [lL, l1, specL_fill bo _ l e _ hE hs l1,
          specEs_fill bo pfx (i + 1) l es _ hrest hs (by rw [List.length_drop]; omega)]
end

end Sbepp.Spec
