/-
  The trait-level `size_bytes(counts…, total_data_size)` formula equals the
  length of the wire image when its parameters have their documented meaning
  (total number of entries per group in pre-order, total payload size) and every
  block has its compiled length.
-/
import Sbepp.Gen.SizeFormula
import Sbepp.Lemmas.Walk

namespace Sbepp.Gen
open Sbepp Sbepp.Schema

mutual
  /-- number of groups in the tree (= number of count parameters) -/
  def nGroups : List NGroup → Nat
    | [] => 0
    | g :: gs => nGroup g + nGroups gs
  def nGroup : NGroup → Nat
    | .mk _ _ (.mk _ _ cgs _) => 1 + nGroups cgs
end

theorem addCounts_length (a b : List Nat) (h : a.length = b.length) : (addCounts a b).length = a.length := by
  induction a generalizing b with
  | nil => cases b <;> simp_all [addCounts]
  | cons x xs ih =>
    cases b with
    | nil => simp at h
    | cons y ys => simp only [addCounts, List.length_cons]; rw [ih ys (by simpa using h)]

theorem addCounts_append (a1 a2 b1 b2 : List Nat) (h : a1.length = b1.length) :
    addCounts (a1 ++ a2) (b1 ++ b2) = addCounts a1 b1 ++ addCounts a2 b2 := by
  induction a1 generalizing b1 with
  | nil => cases b1 <;> simp_all [addCounts]
  | cons x xs ih =>
    cases b1 with
    | nil => simp at h
    | cons y ys => simp only [List.cons_append, addCounts]; rw [ih ys (by simpa using h)]

mutual
  theorem zeroCounts_length (gs : List NGroup) : (zeroCounts gs).length = nGroups gs := by
    match gs with
    | [] => simp [zeroCounts, nGroups]
    | (.mk _ _ (.mk _ _ cgs _)) :: rest =>
      simp only [zeroCounts, nGroups, nGroup, List.length_cons, List.length_append]
      rw [zeroCounts_length cgs, zeroCounts_length rest]; omega
end

mutual
  /-- terms consume exactly `nGroups` counts; the rest is returned untouched -/
  theorem groupsTerms_rest (gs : List NGroup) (cs rest : List Nat) (h : cs.length = nGroups gs) :
      (groupsTerms gs (cs ++ rest)).2 = rest ∧ (groupsTerms gs (cs ++ rest)).1 = (groupsTerms gs cs).1 := by
    match gs with
    | [] =>
      simp only [nGroups] at h
      have : cs = [] := List.eq_nil_of_length_eq_zero h
      subst this; simp [groupsTerms]
    | g :: gs =>
      simp only [nGroups] at h
      -- split cs at nGroup g
      have hs : cs = cs.take (nGroup g) ++ cs.drop (nGroup g) := (List.take_append_drop _ _).symm
      have l1 : (cs.take (nGroup g)).length = nGroup g := by rw [List.length_take]; omega
      have l2 : (cs.drop (nGroup g)).length = nGroups gs := by rw [List.length_drop]; omega
      generalize cs.take (nGroup g) = c1 at hs l1
      generalize cs.drop (nGroup g) = c2 at hs l2
      subst hs
      simp only [groupsTerms]
      have e1 := groupTerms_rest g c1 (c2 ++ rest) l1
      have e2 := groupTerms_rest g c1 c2 l1
      rw [List.append_assoc, e1.1, e1.2, e2.1, e2.2]
      have e3 := groupsTerms_rest gs c2 rest l2
      rw [e3.1, e3.2]
      exact ⟨rfl, rfl⟩
  theorem groupTerms_rest (g : NGroup) (cs rest : List Nat) (h : cs.length = nGroup g) :
      (groupTerms g (cs ++ rest)).2 = rest ∧ (groupTerms g (cs ++ rest)).1 = (groupTerms g cs).1 := by
    match g with
    | .mk _ _ (.mk bl _ cgs ds) =>
      simp only [nGroup] at h
      cases cs with
      | nil => simp at h; omega
      | cons n cs' =>
        simp only [List.length_cons] at h
        simp only [List.cons_append, groupTerms]
        have e := groupsTerms_rest cgs cs' rest (by omega)
        have e0 := groupsTerms_rest cgs cs' [] (by omega)
        simp only [List.append_nil] at e0
        rw [e.1, e.2]
        exact ⟨rfl, rfl⟩
end

mutual
  theorem groupsTerms_zero (gs : List NGroup) : (groupsTerms gs (zeroCounts gs)).1 = 0 := by
    match gs with
    | [] => simp [groupsTerms, zeroCounts]
    | (.mk n d (.mk bl lv cgs ds)) :: rest =>
      simp only [zeroCounts, groupsTerms, List.cons_append]
      have hl : (0 :: zeroCounts cgs).length = nGroup (.mk n d (.mk bl lv cgs ds)) := by
        simp only [List.length_cons, nGroup, zeroCounts_length]; omega
      have e := groupTerms_rest (.mk n d (.mk bl lv cgs ds)) (0 :: zeroCounts cgs) (zeroCounts rest) hl
      simp only [List.cons_append] at e
      rw [e.1, e.2]
      simp only [groupTerms, Nat.zero_mul, Nat.zero_add]
      rw [groupsTerms_zero cgs, groupsTerms_zero rest]
end

mutual
  theorem groupsTerms_add (gs : List NGroup) (a b : List Nat) (ha : a.length = nGroups gs) (hb : b.length = nGroups gs) :
      (groupsTerms gs (addCounts a b)).1 = (groupsTerms gs a).1 + (groupsTerms gs b).1 := by
    match gs with
    | [] =>
      simp only [nGroups] at ha hb
      have : a = [] := List.eq_nil_of_length_eq_zero ha
      have : b = [] := List.eq_nil_of_length_eq_zero hb
      subst_vars; simp [groupsTerms, addCounts]
    | g :: gs =>
      simp only [nGroups] at ha hb
      have hsa : a = a.take (nGroup g) ++ a.drop (nGroup g) := (List.take_append_drop _ _).symm
      have hsb : b = b.take (nGroup g) ++ b.drop (nGroup g) := (List.take_append_drop _ _).symm
      have la1 : (a.take (nGroup g)).length = nGroup g := by rw [List.length_take]; omega
      have la2 : (a.drop (nGroup g)).length = nGroups gs := by rw [List.length_drop]; omega
      have lb1 : (b.take (nGroup g)).length = nGroup g := by rw [List.length_take]; omega
      have lb2 : (b.drop (nGroup g)).length = nGroups gs := by rw [List.length_drop]; omega
      generalize a.take (nGroup g) = a1 at hsa la1
      generalize a.drop (nGroup g) = a2 at hsa la2
      generalize b.take (nGroup g) = b1 at hsb lb1
      generalize b.drop (nGroup g) = b2 at hsb lb2
      subst hsa hsb
      rw [addCounts_append a1 a2 b1 b2 (by omega)]
      simp only [groupsTerms]
      have lab : (addCounts a1 b1).length = nGroup g := by rw [addCounts_length a1 b1 (by omega)]; exact la1
      have e1 := groupTerms_rest g (addCounts a1 b1) (addCounts a2 b2) lab
      have e2 := groupTerms_rest g a1 a2 la1
      have e3 := groupTerms_rest g b1 b2 lb1
      rw [e1.1, e1.2, e2.1, e2.2, e3.1, e3.2]
      rw [groupTerms_add g a1 b1 la1 lb1, groupsTerms_add gs a2 b2 la2 lb2]
      omega
  theorem groupTerms_add (g : NGroup) (a b : List Nat) (ha : a.length = nGroup g) (hb : b.length = nGroup g) :
      (groupTerms g (addCounts a b)).1 = (groupTerms g a).1 + (groupTerms g b).1 := by
    match g with
    | .mk _ _ (.mk bl _ cgs ds) =>
      simp only [nGroup] at ha hb
      cases a with
      | nil => simp at ha; omega
      | cons x xs =>
        cases b with
        | nil => simp at hb; omega
        | cons y ys =>
          simp only [List.length_cons] at ha hb
          simp only [addCounts, groupTerms]
          rw [groupsTerms_add cgs xs ys (by omega) (by omega), Nat.add_mul]
          omega
end

mutual
  theorem countsGs_length (gs : List NGroup) (gvs : List GVal) : (countsGs gs gvs).length = nGroups gs := by
    match gs, gvs with
    | [], _ => cases gvs <;> simp [countsGs, zeroCounts, nGroups]
    | g :: gs, [] => simp only [countsGs]; exact zeroCounts_length _
    | g :: gs, v :: vs =>
      simp only [countsGs, nGroups, List.length_append]
      rw [countsG_length g v, countsGs_length gs vs]
  theorem countsG_length (g : NGroup) (v : GVal) : (countsG g v).length = nGroup g := by
    match g, v with
    | .mk _ _ (.mk _ _ cgs _), .mk _ es =>
      simp only [countsG, nGroup, List.length_cons]
      rw [countsEs_length cgs es]; omega
  theorem countsEs_length (cgs : List NGroup) (es : List LVal) : (countsEs cgs es).length = nGroups cgs := by
    match es with
    | [] => simp only [countsEs]; exact zeroCounts_length _
    | (.mk _ gvs _) :: es =>
      simp only [countsEs]
      rw [addCounts_length _ _ (by rw [countsGs_length cgs gvs, countsEs_length cgs es]), countsGs_length cgs gvs]
end

/-! ### shape: every block has its compiled length, lists match the layout -/
mutual
  def ShapeL : NLevel → LVal → Prop
    | .mk bl _ gs ds, .mk block gvs dvs => block.length = bl ∧ ShapeGs gs gvs ∧ dvs.length = ds.length
  def ShapeGs : List NGroup → List GVal → Prop
    | [], [] => True
    | g :: gs, v :: vs => ShapeG g v ∧ ShapeGs gs vs
    | _, _ => False
  def ShapeG : NGroup → GVal → Prop
    | .mk _ dim l, .mk hdr es => hdr.length = dim.dim.size ∧ ShapeEs l es
  def ShapeEs : NLevel → List LVal → Prop
    | _, [] => True
    | l, e :: es => ShapeL l e ∧ ShapeEs l es
end

theorem flattenDs_length (bo : ByteOrder) (ds : List NData) (dvs : List (List Nat)) (h : dvs.length = ds.length) :
    (flattenDs bo (ds.map (fun d => (⟨d.lenSize⟩ : DataL))) dvs).length = sumDataHdrs ds + sumLens dvs := by
  induction ds generalizing dvs with
  | nil => cases dvs <;> simp_all [flattenDs, sumDataHdrs, sumLens]
  | cons d ds ih =>
    cases dvs with
    | nil => simp at h
    | cons p ps =>
      simp only [List.map_cons, flattenDs, flattenD, List.length_append, put_length, sumDataHdrs, sumLens]
      rw [ih ps (by simpa using h)]; omega

def _root_.Sbepp.Schema.NLevel.bl : NLevel → Nat | .mk b _ _ _ => b
def _root_.Sbepp.Schema.NLevel.gs : NLevel → List NGroup | .mk _ _ g _ => g
def _root_.Sbepp.Schema.NLevel.ds : NLevel → List NData | .mk _ _ _ d => d
def _root_.Sbepp.Schema.NGroup.dimSize : NGroup → Nat | .mk _ dim _ => dim.dim.size

/-- bytes of one level that do not depend on the value: block + nested headers -/
def levelStatic (l : NLevel) : Nat := l.bl + sumDims l.gs + sumDataHdrs l.ds

mutual
  theorem sizeL (bo : ByteOrder) (l : NLevel) (v : LVal) (h : ShapeL l v) :
      (flattenL bo l.erase v).length
        = levelStatic l + (groupsTerms l.gs (countsGs l.gs v.groups)).1 + totalData v := by
    match l, v with
    | .mk bl lv gs ds, .mk block gvs dvs =>
      obtain ⟨hb, hgs, hds⟩ := h
      simp only [NLevel.erase, flattenL, List.length_append, totalData, levelStatic, NLevel.bl, NLevel.gs,
        NLevel.ds, LVal.groups]
      rw [hb, sizeGs bo gs gvs hgs, flattenDs_length bo ds dvs hds]
      omega
  theorem sizeGs (bo : ByteOrder) (gs : List NGroup) (gvs : List GVal) (h : ShapeGs gs gvs) :
      (flattenGs bo (eraseGs gs) gvs).length
        = sumDims gs + (groupsTerms gs (countsGs gs gvs)).1 + totalDataGs gvs := by
    match gs, gvs with
    | [], [] => simp [eraseGs, flattenGs, sumDims, groupsTerms, countsGs, zeroCounts, totalDataGs]
    | [], _ :: _ => simp [ShapeGs] at h
    | _ :: _, [] => simp [ShapeGs] at h
    | g :: gs, v :: vs =>
      obtain ⟨hg, hrest⟩ := h
      simp only [eraseGs, flattenGs, List.length_append, countsGs, groupsTerms]
      have e := groupTerms_rest g (countsG g v) (countsGs gs vs) (countsG_length g v)
      rw [e.1, e.2, sizeG bo g v hg, sizeGs bo gs vs hrest]
      match g, v with
      | .mk _ dim _, .mk _ es => simp only [sumDims, totalDataGs, NGroup.dimSize, GVal.entries]; omega
  theorem sizeG (bo : ByteOrder) (g : NGroup) (v : GVal) (h : ShapeG g v) :
      (flattenG bo g.erase v).length
        = g.dimSize + (groupTerms g (countsG g v)).1 + totalDataEs v.entries := by
    match g, v with
    | .mk _ dim (.mk bl lv cgs ds), .mk hdr es =>
      obtain ⟨hh, hes⟩ := h
      simp only [NGroup.erase, flattenG, List.length_append, countsG, groupTerms, NGroup.dimSize, GVal.entries]
      have hE := sizeEs bo (.mk bl lv cgs ds) es hes
      simp only [levelStatic, NLevel.bl, NLevel.gs, NLevel.ds] at hE
      rw [hh, hE]; omega
  theorem sizeEs (bo : ByteOrder) (l : NLevel) (es : List LVal) (h : ShapeEs l es) :
      (flattenEs bo l.erase es).length
        = es.length * levelStatic l + (groupsTerms l.gs (countsEs l.gs es)).1 + totalDataEs es := by
    match es with
    | [] =>
      match l with
      | .mk bl lv cgs ds => simp [flattenEs, countsEs, groupsTerms_zero, totalDataEs, NLevel.gs]
    | e :: es =>
      obtain ⟨he, hrest⟩ := h
      simp only [flattenEs, List.length_append, List.length_cons, totalDataEs]
      rw [sizeL bo l e he, sizeEs bo l es hrest]
      match l, e with
      | .mk bl lv cgs ds, .mk block gvs dvs =>
        simp only [countsEs, NLevel.gs, LVal.groups]
        rw [groupsTerms_add cgs _ _ (countsGs_length cgs gvs) (countsEs_length cgs es)]
        rw [Nat.succ_mul]
        omega
end

/-- **messageSize_eq**: with the documented parameter meaning the generated
    `message_traits<M>::size_bytes(counts…, total_data_size)` equals header +
    image length, for every group tree and every value whose blocks have their
    compiled lengths. -/
theorem messageSize_eq (bo : ByteOrder) (m : NMessage) (root : LVal) (h : ShapeL m.level root) :
    messageSize m (countsGs m.level.gs root.groups) (totalData root)
      = m.hdrSize + (flattenL bo m.level.erase root).length := by
  rw [sizeL bo m.level root h]
  unfold messageSize levelStatic
  cases hm : m.level with
  | mk bl lv gs ds => simp only [NLevel.bl, NLevel.gs, NLevel.ds]; omega

end Sbepp.Gen
