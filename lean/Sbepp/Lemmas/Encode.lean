/-
  Encoding theorem: an in-order encode (`Spec.encL`, the byte-level meaning of
  header fills, setters, group header fills and data assignments executed in
  schema order) of a value into a buffer `pre ++ mid ++ post` leaves
  `pre ++ image ++ post`, where `image` is the wire image of the value whose
  gaps (bytes of a block that belong to no leaf, padding members of dimension
  headers) are the previous contents `mid`.  `pre` and `post` are untouched.
-/
import Sbepp.Spec.Encode
import Sbepp.Lemmas.Walk

namespace Sbepp.Spec
open Sbepp

/-! ### writes inside a framed region -/

theorem writeAt_mid (pre mid post bs : List Nat) (off : Nat) (h : off + bs.length ≤ mid.length) :
    writeAt (pre ++ mid ++ post) (pre.length + off) bs = pre ++ writeAt mid off bs ++ post := by
  have hsplit : mid = mid.take off ++ (mid.drop off).take bs.length ++ (mid.drop off).drop bs.length := by
    rw [List.append_assoc, List.take_append_drop, List.take_append_drop]
  have hl1 : (mid.take off).length = off := by rw [List.length_take]; omega
  have hl2 : ((mid.drop off).take bs.length).length = bs.length := by
    rw [List.length_take, List.length_drop]; omega
  have e1 : pre ++ mid ++ post = (pre ++ mid.take off) ++ (mid.drop off).take bs.length
      ++ ((mid.drop off).drop bs.length ++ post) := by
    conv => lhs; rw [hsplit]
    simp [List.append_assoc]
  have e2 : pre.length + off = (pre ++ mid.take off).length := by rw [List.length_append, hl1]
  rw [e1, e2, writeAt_append_mid _ _ _ bs hl2.symm]
  have e3 : writeAt mid off bs = mid.take off ++ bs ++ (mid.drop off).drop bs.length := by
    have := writeAt_append_mid (mid.take off) ((mid.drop off).take bs.length) ((mid.drop off).drop bs.length) bs hl2.symm
    rw [← hsplit, hl1] at this
    exact this
  rw [e3]; simp [List.append_assoc]

theorem writeAt_len (buf : List Nat) (pos : Nat) (bs : List Nat) (h : pos + bs.length ≤ buf.length) :
    (writeAt buf pos bs).length = buf.length := writeAt_length buf pos bs h

theorem slice_length (buf : List Nat) (pos n : Nat) (h : pos + n ≤ buf.length) : (slice buf pos n).length = n := by
  simp [slice, List.length_take, List.length_drop]; omega

theorem writeLeaves_length (buf block : List Nat) (pos : Nat) (lv : List Leaf)
    (hb : ∀ lf ∈ lv, lf.off + lf.size ≤ block.length) (hp : ∀ lf ∈ lv, pos + lf.off + lf.size ≤ buf.length) :
    (writeLeaves buf pos block lv).length = buf.length := by
  induction lv generalizing buf with
  | nil => rfl
  | cons lf rest ih =>
    simp only [writeLeaves]
    have h1 := hb lf (by simp)
    have h2 := hp lf (by simp)
    have hs := slice_length block lf.off lf.size h1
    have hw : (writeAt buf (pos + lf.off) (slice block lf.off lf.size)).length = buf.length :=
      writeAt_len _ _ _ (by rw [hs]; omega)
    rw [ih _ (fun x hx => hb x (by simp [hx])) (fun x hx => by rw [hw]; exact hp x (by simp [hx])), hw]

theorem writeLeaves_mid (pre mid post block : List Nat) (lv : List Leaf)
    (hb : ∀ lf ∈ lv, lf.off + lf.size ≤ block.length) (hm : ∀ lf ∈ lv, lf.off + lf.size ≤ mid.length) :
    writeLeaves (pre ++ mid ++ post) pre.length block lv = pre ++ writeLeaves mid 0 block lv ++ post := by
  induction lv generalizing mid with
  | nil => rfl
  | cons lf rest ih =>
    simp only [writeLeaves, Nat.zero_add]
    have h1 := hb lf (by simp)
    have h2 := hm lf (by simp)
    have hs := slice_length block lf.off lf.size h1
    rw [writeAt_mid pre mid post _ lf.off (by rw [hs]; exact h2)]
    have hw : (writeAt mid lf.off (slice block lf.off lf.size)).length = mid.length :=
      writeAt_len _ _ _ (by rw [hs]; exact h2)
    exact ih _ (fun x hx => hb x (by simp [hx])) (fun x hx => by rw [hw]; exact hm x (by simp [hx]))

theorem writeExtras_length (bo : ByteOrder) (buf : List Nat) (pos : Nat) (xs : List (Leaf × Nat))
    (h : ∀ x ∈ xs, pos + x.1.off + x.1.size ≤ buf.length) : (writeExtras bo buf pos xs).length = buf.length := by
  induction xs generalizing buf with
  | nil => rfl
  | cons x rest ih =>
    obtain ⟨lf, v⟩ := x
    simp only [writeExtras]
    have h1 := h (lf, v) (by simp)
    have hw : (writeAt buf (pos + lf.off) (put bo lf.size v)).length = buf.length :=
      writeAt_len _ _ _ (by simp only [put_length]; exact h1)
    rw [ih _ (fun y hy => by rw [hw]; exact h y (by simp [hy])), hw]

theorem writeExtras_mid (bo : ByteOrder) (pre mid post : List Nat) (xs : List (Leaf × Nat))
    (h : ∀ x ∈ xs, x.1.off + x.1.size ≤ mid.length) :
    writeExtras bo (pre ++ mid ++ post) pre.length xs = pre ++ writeExtras bo mid 0 xs ++ post := by
  induction xs generalizing mid with
  | nil => rfl
  | cons x rest ih =>
    obtain ⟨lf, v⟩ := x
    simp only [writeExtras, Nat.zero_add]
    have h1 := h (lf, v) (by simp)
    rw [writeAt_mid pre mid post _ lf.off (by simp only [put_length]; exact h1)]
    have hw : (writeAt mid lf.off (put bo lf.size v)).length = mid.length :=
      writeAt_len _ _ _ (by simp only [put_length]; exact h1)
    exact ih _ (fun y hy => by rw [hw]; exact h y (by simp [hy]))

/-! ### the image with gaps taken from the previous contents -/

/-- dimension header after `fill_group_header`: previous bytes with blockLength,
    numInGroup (and the optional counters) overwritten -/
def fillHdr (bo : ByteOrder) (dim : Dim) (bl n : Nat) (old : List Nat) : List Nat :=
  writeExtras bo (writeAt (writeAt old dim.blOff (put bo dim.blSize bl)) dim.numOff (put bo dim.numSize n)) 0 dim.extras

mutual
  /-- `mid` has exactly the length of the image of `v` -/
  def fillL (bo : ByteOrder) : Level → LVal → List Nat → LVal
    | .mk bl lv gs _, .mk block gvs dvs, mid =>
      .mk (writeLeaves (mid.take bl) 0 block lv)
        (fillGs bo gs gvs ((mid.drop bl).take (flattenGs bo gs gvs).length)) dvs
  def fillGs (bo : ByteOrder) : List Group → List GVal → List Nat → List GVal
    | g :: gs, v :: vs, mid =>
      fillG bo g v (mid.take (flattenG bo g v).length) :: fillGs bo gs vs (mid.drop (flattenG bo g v).length)
    | _, _, _ => []
  def fillG (bo : ByteOrder) : Group → GVal → List Nat → GVal
    | .mk dim l, .mk _ es, mid =>
      .mk (fillHdr bo dim l.blockLen es.length (mid.take dim.size)) (fillEs bo l es (mid.drop dim.size))
  def fillEs (bo : ByteOrder) : Level → List LVal → List Nat → List LVal
    | _, [], _ => []
    | l, e :: es, mid =>
      fillL bo l e (mid.take (flattenL bo l e).length) :: fillEs bo l es (mid.drop (flattenL bo l e).length)
end

/-! ### what the value tree must satisfy to be encodable (no extension:
    every block has its compiled length; counts and lengths fit their header
    members; leaves and header members lie inside their blocks) -/
mutual
  def EncL (bo : ByteOrder) : Level → LVal → Prop
    | .mk bl lv gs ds, .mk block gvs dvs =>
      block.length = bl ∧ (∀ lf ∈ lv, lf.off + lf.size ≤ bl) ∧ EncGs bo gs gvs ∧ ConfDs ds dvs
  def EncGs (bo : ByteOrder) : List Group → List GVal → Prop
    | [], [] => True
    | g :: gs, v :: vs => EncG bo g v ∧ EncGs bo gs vs
    | _, _ => False
  def EncG (bo : ByteOrder) : Group → GVal → Prop
    | .mk dim l, .mk hdr es =>
      hdr.length = dim.size ∧ dim.blOff + dim.blSize ≤ dim.size ∧ dim.numOff + dim.numSize ≤ dim.size ∧
      (∀ x ∈ dim.extras, x.1.off + x.1.size ≤ dim.size) ∧ EncEs bo l es
  def EncEs (bo : ByteOrder) : Level → List LVal → Prop
    | _, [] => True
    | l, e :: es => EncL bo l e ∧ EncEs bo l es
end

theorem fillHdr_length (bo : ByteOrder) (dim : Dim) (bl n : Nat) (old : List Nat) (ho : old.length = dim.size)
    (h1 : dim.blOff + dim.blSize ≤ dim.size) (h2 : dim.numOff + dim.numSize ≤ dim.size)
    (h3 : ∀ x ∈ dim.extras, x.1.off + x.1.size ≤ dim.size) : (fillHdr bo dim bl n old).length = dim.size := by
  unfold fillHdr
  have w1 : (writeAt old dim.blOff (put bo dim.blSize bl)).length = old.length :=
    writeAt_len _ _ _ (by simp only [put_length]; omega)
  have w2 : (writeAt (writeAt old dim.blOff (put bo dim.blSize bl)) dim.numOff (put bo dim.numSize n)).length
      = old.length := by rw [writeAt_len _ _ _ (by simp only [put_length]; omega), w1]
  rw [writeExtras_length bo _ 0 _ (fun x hx => by rw [w2, ho]; simpa using h3 x hx), w2, ho]

theorem encDs_spec (bo : ByteOrder) (ds : List DataL) (dvs : List (List Nat)) (pre mid post : List Nat)
    (hc : ConfDs ds dvs) (hlen : mid.length = (flattenDs bo ds dvs).length) :
    encDs bo ds dvs (pre ++ mid ++ post) pre.length
      = (pre ++ flattenDs bo ds dvs ++ post, pre.length + mid.length) := by
  induction ds generalizing dvs pre mid with
  | nil =>
    cases dvs with
    | nil =>
      simp only [flattenDs, List.length_nil] at hlen
      have : mid = [] := List.eq_nil_of_length_eq_zero hlen
      subst this; simp [encDs, flattenDs]
    | cons _ _ => simp [ConfDs] at hc
  | cons d ds ih =>
    cases dvs with
    | nil => simp [ConfDs] at hc
    | cons p ps =>
      obtain ⟨_, hrest⟩ := hc
      simp only [flattenDs, flattenD, List.length_append, put_length] at hlen
      simp only [encDs, flattenDs, flattenD]
      -- split mid = m1 (length prefix) ++ m2 (payload) ++ m3
      have hsplit : mid = mid.take d.lenSize ++ (mid.drop d.lenSize).take p.length
          ++ (mid.drop d.lenSize).drop p.length := by
        rw [List.append_assoc, List.take_append_drop, List.take_append_drop]
      have l1 : (mid.take d.lenSize).length = d.lenSize := by rw [List.length_take]; omega
      have l2 : ((mid.drop d.lenSize).take p.length).length = p.length := by
        rw [List.length_take, List.length_drop]; omega
      have l3 : ((mid.drop d.lenSize).drop p.length).length = (flattenDs bo ds ps).length := by
        rw [List.length_drop, List.length_drop]; omega
      generalize hm1 : mid.take d.lenSize = m1 at hsplit l1
      generalize hm2 : (mid.drop d.lenSize).take p.length = m2 at hsplit l2
      generalize hm3 : (mid.drop d.lenSize).drop p.length = m3 at hsplit l3
      have w1 : writeAt (pre ++ mid ++ post) pre.length (put bo d.lenSize p.length)
          = pre ++ put bo d.lenSize p.length ++ (m2 ++ m3 ++ post) := by
        have := writeAt_append_mid pre m1 (m2 ++ m3 ++ post) (put bo d.lenSize p.length) (by simp [l1])
        rw [hsplit]; simpa [List.append_assoc] using this
      rw [w1]
      have w2 : writeAt (pre ++ put bo d.lenSize p.length ++ (m2 ++ m3 ++ post)) (pre.length + d.lenSize) p
          = (pre ++ put bo d.lenSize p.length) ++ p ++ (m3 ++ post) := by
        have := writeAt_append_mid (pre ++ put bo d.lenSize p.length) m2 (m3 ++ post) p l2.symm
        simp only [List.length_append, put_length] at this
        simpa [List.append_assoc] using this
      rw [w2]
      have e1 : pre.length + d.lenSize + p.length = (pre ++ put bo d.lenSize p.length ++ p).length := by
        simp only [List.length_append, put_length]
      have e2 : pre ++ put bo d.lenSize p.length ++ p ++ (m3 ++ post)
          = (pre ++ put bo d.lenSize p.length ++ p) ++ m3 ++ post := by simp [List.append_assoc]
      rw [e1, e2, ih ps (pre ++ put bo d.lenSize p.length ++ p) m3 hrest l3]
      have : mid.length = d.lenSize + p.length + m3.length := by
        rw [hsplit]; simp only [List.length_append, l1, l2]
      simp only [List.length_append, put_length, List.append_assoc, this, l3, Prod.mk.injEq, true_and]
      omega

/-- split a list of known length into three consecutive parts -/
theorem split3 (mid : List Nat) (a b : Nat) (h : a + b ≤ mid.length) :
    ∃ m1 m2 m3, mid = m1 ++ m2 ++ m3 ∧ m1 = mid.take a ∧ m2 = (mid.drop a).take b ∧ m3 = (mid.drop a).drop b
      ∧ m1.length = a ∧ m2.length = b ∧ m3.length = mid.length - a - b := by
  refine ⟨mid.take a, (mid.drop a).take b, (mid.drop a).drop b, ?_, rfl, rfl, rfl, ?_, ?_, ?_⟩
  · rw [List.append_assoc, List.take_append_drop, List.take_append_drop]
  · rw [List.length_take]; omega
  · rw [List.length_take, List.length_drop]; omega
  · rw [List.length_drop, List.length_drop]

mutual
  theorem encL_spec (bo : ByteOrder) (l : Level) (v : LVal) (pre mid post : List Nat)
      (he : EncL bo l v) (hlen : mid.length = (flattenL bo l v).length) :
      encL bo l v (pre ++ mid ++ post) pre.length
          = (pre ++ flattenL bo l (fillL bo l v mid) ++ post, pre.length + mid.length)
        ∧ (flattenL bo l (fillL bo l v mid)).length = mid.length := by
    match l, v with
    | .mk bl lv gs ds, .mk block gvs dvs =>
      obtain ⟨hblk, hlv, hgs, hds⟩ := he
      simp only [flattenL, List.length_append, hblk] at hlen
      obtain ⟨m1, m2, m3, hsplit, hm1, hm2, hm3, l1, l2, l3⟩ :=
        split3 mid bl (flattenGs bo gs gvs).length (by omega)
      have l3' : m3.length = (flattenDs bo ds dvs).length := by omega
      simp only [encL, fillL, flattenL]
      rw [← hm1, ← hm2]
      -- block
      have hb : ∀ lf ∈ lv, lf.off + lf.size ≤ block.length := fun lf h => by rw [hblk]; exact hlv lf h
      have hm : ∀ lf ∈ lv, lf.off + lf.size ≤ m1.length := fun lf h => by rw [l1]; exact hlv lf h
      have w1 : writeLeaves (pre ++ mid ++ post) pre.length block lv
          = pre ++ writeLeaves m1 0 block lv ++ (m2 ++ m3 ++ post) := by
        have := writeLeaves_mid pre m1 (m2 ++ m3 ++ post) block lv hb hm
        rw [hsplit]; simpa [List.append_assoc] using this
      have lb : (writeLeaves m1 0 block lv).length = bl := by
        rw [writeLeaves_length m1 block 0 lv hb (fun lf h => by simpa using hm lf h), l1]
      rw [w1]
      -- groups
      have e1 : pre.length + bl = (pre ++ writeLeaves m1 0 block lv).length := by rw [List.length_append, lb]
      have e2 : pre ++ writeLeaves m1 0 block lv ++ (m2 ++ m3 ++ post)
          = (pre ++ writeLeaves m1 0 block lv) ++ m2 ++ (m3 ++ post) := by simp [List.append_assoc]
      obtain ⟨hG, lG⟩ := encGs_spec bo gs gvs (pre ++ writeLeaves m1 0 block lv) m2 (m3 ++ post) hgs l2
      rw [e1, e2, hG]
      -- data
      have e3 : (pre ++ writeLeaves m1 0 block lv).length + m2.length
          = (pre ++ writeLeaves m1 0 block lv ++ flattenGs bo gs (fillGs bo gs gvs m2)).length := by
        simp only [List.length_append, lG]
      have e4 : pre ++ writeLeaves m1 0 block lv ++ flattenGs bo gs (fillGs bo gs gvs m2) ++ (m3 ++ post)
          = (pre ++ writeLeaves m1 0 block lv ++ flattenGs bo gs (fillGs bo gs gvs m2)) ++ m3 ++ post := by
        simp [List.append_assoc]
      show encDs bo ds dvs _ _ = _ ∧ _
      rw [e3, e4, encDs_spec bo ds dvs _ m3 post hds l3']
      have hmid : mid.length = bl + m2.length + m3.length := by
        rw [hsplit]; simp only [List.length_append, l1]
      constructor
      · simp only [List.length_append, lb, lG, List.append_assoc, hmid, Prod.mk.injEq, true_and]; omega
      · simp only [List.length_append, lb, lG, hmid, l3']
  theorem encGs_spec (bo : ByteOrder) (gs : List Group) (gvs : List GVal) (pre mid post : List Nat)
      (he : EncGs bo gs gvs) (hlen : mid.length = (flattenGs bo gs gvs).length) :
      encGs bo gs gvs (pre ++ mid ++ post) pre.length
          = (pre ++ flattenGs bo gs (fillGs bo gs gvs mid) ++ post, pre.length + mid.length)
        ∧ (flattenGs bo gs (fillGs bo gs gvs mid)).length = mid.length := by
    match gs, gvs with
    | [], [] =>
      simp only [flattenGs, List.length_nil] at hlen
      have : mid = [] := List.eq_nil_of_length_eq_zero hlen
      subst this; simp [encGs, fillGs, flattenGs]
    | [], _ :: _ => simp [EncGs] at he
    | _ :: _, [] => simp [EncGs] at he
    | g :: gs, v :: vs =>
      obtain ⟨hg, hrest⟩ := he
      simp only [flattenGs, List.length_append] at hlen
      obtain ⟨m0, m1, m2, hsplit, _, hm1, hm2, l0, l1, l2⟩ := split3 mid 0 (flattenG bo g v).length (by omega)
      have hm0 : m0 = [] := List.eq_nil_of_length_eq_zero l0
      subst hm0
      simp only [List.nil_append, List.drop_zero] at hsplit hm1 hm2
      have l2' : m2.length = (flattenGs bo gs vs).length := by omega
      simp only [encGs, fillGs, flattenGs]
      rw [← hm1, ← hm2]
      obtain ⟨hG, lG⟩ := encG_spec bo g v pre m1 (m2 ++ post) hg l1
      have e0 : pre ++ mid ++ post = pre ++ m1 ++ (m2 ++ post) := by rw [hsplit]; simp [List.append_assoc]
      rw [e0, hG]
      have e1 : pre.length + m1.length = (pre ++ flattenG bo g (fillG bo g v m1)).length := by
        simp only [List.length_append, lG]
      have e2 : pre ++ flattenG bo g (fillG bo g v m1) ++ (m2 ++ post)
          = (pre ++ flattenG bo g (fillG bo g v m1)) ++ m2 ++ post := by simp [List.append_assoc]
      obtain ⟨hR, lR⟩ := encGs_spec bo gs vs (pre ++ flattenG bo g (fillG bo g v m1)) m2 post hrest l2'
      show encGs bo gs vs _ _ = _ ∧ _
      rw [e1, e2, hR]
      have hmid : mid.length = m1.length + m2.length := by rw [hsplit]; simp only [List.length_append]
      constructor
      · simp only [List.length_append, lG, List.append_assoc, hmid, Prod.mk.injEq, true_and]; omega
      · simp only [List.length_append, lG, lR, hmid]
  theorem encG_spec (bo : ByteOrder) (g : Group) (v : GVal) (pre mid post : List Nat)
      (he : EncG bo g v) (hlen : mid.length = (flattenG bo g v).length) :
      encG bo g v (pre ++ mid ++ post) pre.length
          = (pre ++ flattenG bo g (fillG bo g v mid) ++ post, pre.length + mid.length)
        ∧ (flattenG bo g (fillG bo g v mid)).length = mid.length := by
    match g, v with
    | .mk dim l, .mk hdr es =>
      obtain ⟨hh, hbl, hnum, hex, hes⟩ := he
      simp only [flattenG, List.length_append, hh] at hlen
      obtain ⟨m0, m1, m2, hsplit, _, hm1, hm2, l0, l1, l2⟩ := split3 mid 0 dim.size (by omega)
      have hm0 : m0 = [] := List.eq_nil_of_length_eq_zero l0
      subst hm0
      simp only [List.nil_append, List.drop_zero] at hsplit hm1 hm2
      have l2' : m2.length = (flattenEs bo l es).length := by omega
      simp only [encG, fillG, flattenG]
      rw [← hm1, ← hm2]
      -- header writes
      have e0 : pre ++ mid ++ post = pre ++ m1 ++ (m2 ++ post) := by rw [hsplit]; simp [List.append_assoc]
      have w1 : writeAt (pre ++ mid ++ post) (pre.length + dim.blOff) (put bo dim.blSize l.blockLen)
          = pre ++ writeAt m1 dim.blOff (put bo dim.blSize l.blockLen) ++ (m2 ++ post) := by
        rw [e0]; exact writeAt_mid pre m1 _ _ dim.blOff (by simp only [put_length]; omega)
      have lw1 : (writeAt m1 dim.blOff (put bo dim.blSize l.blockLen)).length = m1.length :=
        writeAt_len _ _ _ (by simp only [put_length]; omega)
      rw [w1]
      have w2 : writeAt (pre ++ writeAt m1 dim.blOff (put bo dim.blSize l.blockLen) ++ (m2 ++ post))
            (pre.length + dim.numOff) (put bo dim.numSize es.length)
          = pre ++ writeAt (writeAt m1 dim.blOff (put bo dim.blSize l.blockLen)) dim.numOff
              (put bo dim.numSize es.length) ++ (m2 ++ post) :=
        writeAt_mid pre _ _ _ dim.numOff (by simp only [put_length]; omega)
      have lw2 : (writeAt (writeAt m1 dim.blOff (put bo dim.blSize l.blockLen)) dim.numOff
            (put bo dim.numSize es.length)).length = m1.length := by
        rw [writeAt_len _ _ _ (by simp only [put_length]; omega), lw1]
      rw [w2]
      have w3 := writeExtras_mid bo pre (writeAt (writeAt m1 dim.blOff (put bo dim.blSize l.blockLen)) dim.numOff
              (put bo dim.numSize es.length)) (m2 ++ post) dim.extras
              (fun x hx => by rw [lw2, l1]; exact hex x hx)
      rw [w3]
      have lh : (fillHdr bo dim l.blockLen es.length m1).length = dim.size :=
        fillHdr_length bo dim _ _ m1 l1 hbl hnum hex
      have hfh : writeExtras bo (writeAt (writeAt m1 dim.blOff (put bo dim.blSize l.blockLen)) dim.numOff
              (put bo dim.numSize es.length)) 0 dim.extras = fillHdr bo dim l.blockLen es.length m1 := rfl
      rw [hfh]
      have e1 : pre.length + dim.size = (pre ++ fillHdr bo dim l.blockLen es.length m1).length := by
        rw [List.length_append, lh]
      have e2 : pre ++ fillHdr bo dim l.blockLen es.length m1 ++ (m2 ++ post)
          = (pre ++ fillHdr bo dim l.blockLen es.length m1) ++ m2 ++ post := by simp [List.append_assoc]
      obtain ⟨hE, lE⟩ := encEs_spec bo l es (pre ++ fillHdr bo dim l.blockLen es.length m1) m2 post hes l2'
      show encEs bo l es _ _ = _ ∧ _
      rw [e1, e2, hE]
      have hmid : mid.length = dim.size + m2.length := by rw [hsplit]; simp only [List.length_append, l1]
      constructor
      · simp only [List.length_append, lh, List.append_assoc, hmid, Prod.mk.injEq, true_and]; omega
      · simp only [List.length_append, lh, lE, hmid]
  theorem encEs_spec (bo : ByteOrder) (l : Level) (es : List LVal) (pre mid post : List Nat)
      (he : EncEs bo l es) (hlen : mid.length = (flattenEs bo l es).length) :
      encEs bo l es (pre ++ mid ++ post) pre.length
          = (pre ++ flattenEs bo l (fillEs bo l es mid) ++ post, pre.length + mid.length)
        ∧ (flattenEs bo l (fillEs bo l es mid)).length = mid.length := by
    match es with
    | [] =>
      simp only [flattenEs, List.length_nil] at hlen
      have : mid = [] := List.eq_nil_of_length_eq_zero hlen
      subst this; simp [encEs, fillEs, flattenEs]
    | e :: es =>
      obtain ⟨hE, hrest⟩ := he
      simp only [flattenEs, List.length_append] at hlen
      obtain ⟨m0, m1, m2, hsplit, _, hm1, hm2, l0, l1, l2⟩ := split3 mid 0 (flattenL bo l e).length (by omega)
      have hm0 : m0 = [] := List.eq_nil_of_length_eq_zero l0
      subst hm0
      simp only [List.nil_append, List.drop_zero] at hsplit hm1 hm2
      have l2' : m2.length = (flattenEs bo l es).length := by omega
      simp only [encEs, fillEs, flattenEs]
      rw [← hm1, ← hm2]
      obtain ⟨hL, lL⟩ := encL_spec bo l e pre m1 (m2 ++ post) hE l1
      have e0 : pre ++ mid ++ post = pre ++ m1 ++ (m2 ++ post) := by rw [hsplit]; simp [List.append_assoc]
      rw [e0, hL]
      have e1 : pre.length + m1.length = (pre ++ flattenL bo l (fillL bo l e m1)).length := by
        simp only [List.length_append, lL]
      have e2 : pre ++ flattenL bo l (fillL bo l e m1) ++ (m2 ++ post)
          = (pre ++ flattenL bo l (fillL bo l e m1)) ++ m2 ++ post := by simp [List.append_assoc]
      obtain ⟨hR, lR⟩ := encEs_spec bo l es (pre ++ flattenL bo l (fillL bo l e m1)) m2 post hrest l2'
      show encEs bo l es _ _ = _ ∧ _
      rw [e1, e2, hR]
      have hmid : mid.length = m1.length + m2.length := by rw [hsplit]; simp only [List.length_append]
      constructor
      · simp only [List.length_append, lL, List.append_assoc, hmid, Prod.mk.injEq, true_and]; omega
      · simp only [List.length_append, lL, lR, hmid]
end

end Sbepp.Spec
