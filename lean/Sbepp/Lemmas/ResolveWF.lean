/-
  What the validator model guarantees about every layout it accepts: at every
  level the leaves (flattened non-constant fields) are in ascending,
  non-overlapping order and lie inside the block — "no accepted schema has
  overlapping fields or members outside their block" (C08), the hypothesis of
  the wire theorems (C01–C03).
-/
import Sbepp.Schema.Resolve
import Sbepp.Lemmas.Frame
import Sbepp.Lemmas.Decode

namespace Sbepp.Schema
open Sbepp Sbepp.Spec

def Within (lv : List NLeaf) (lo hi : Nat) : Prop := ∀ l ∈ lv, lo ≤ l.off ∧ l.off + l.size ≤ hi

def SortedN (lv : List NLeaf) : Prop := Sorted (lv.map NLeaf.leaf)

theorem within_nil (lo hi : Nat) : Within [] lo hi := by intro l h; simp at h

theorem within_mono {lv : List NLeaf} {lo hi lo' hi' : Nat} (h : Within lv lo hi) (h1 : lo' ≤ lo) (h2 : hi ≤ hi') :
    Within lv lo' hi' := fun l hl => by have := h l hl; omega

theorem within_append {a b : List NLeaf} {lo hi : Nat} (ha : Within a lo hi) (hb : Within b lo hi) :
    Within (a ++ b) lo hi := by
  intro l hl
  rcases List.mem_append.mp hl with h | h
  · exact ha l h
  · exact hb l h

theorem sortedN_nil : SortedN [] := by simp [SortedN, Sorted]

theorem sortedN_append {a b : List NLeaf} {lo mid hi : Nat} (sa : SortedN a) (sb : SortedN b)
    (wa : Within a lo mid) (wb : Within b mid hi) : SortedN (a ++ b) := by
  unfold SortedN at *
  induction a with
  | nil => simpa using sb
  | cons x xs ih =>
    simp only [List.cons_append, List.map_cons, Sorted] at sa ⊢
    obtain ⟨hx, hxs⟩ := sa
    refine ⟨?_, ih hxs (fun l hl => wa l (by simp [hl]))⟩
    intro y hy
    simp only [List.map_append, List.mem_append, List.mem_map] at hy
    rcases hy with ⟨l, hl, rfl⟩ | ⟨l, hl, rfl⟩
    · exact hx _ (List.mem_map.mpr ⟨l, hl, rfl⟩)
    · have h1 := wa x (by simp)
      have h2 := wb l hl
      simp only [NLeaf.leaf]; omega

theorem sortedN_single (l : NLeaf) : SortedN [l] := by simp [SortedN, Sorted]

theorem within_single (l : NLeaf) (lo hi : Nat) (h1 : lo ≤ l.off) (h2 : l.off + l.size ≤ hi) : Within [l] lo hi := by
  intro x hx; simp at hx; subst hx; exact ⟨h1, h2⟩

/-- statement about `elemLeaves` -/
def ElemOK (types : List Elem) (fuel : Nat) : Prop :=
  ∀ path base e sz lv, elemLeaves types fuel path base e = .ok (sz, lv) →
    Within lv base (base + sz) ∧ SortedN lv

/-- statement about `compLeaves` -/
def CompOK (types : List Elem) (fuel : Nat) : Prop :=
  ∀ path base cur elems total lv, compLeaves types fuel path base cur elems = .ok (total, lv) →
    cur ≤ total ∧ Within lv (base + cur) (base + total) ∧ SortedN lv

theorem elem_comp_ok (types : List Elem) : ∀ fuel, ElemOK types fuel ∧ CompOK types fuel := by
  intro fuel
  induction fuel with
  | zero =>
    constructor
    · intro path base e sz lv h; simp [elemLeaves] at h
    · intro path base cur elems total lv h
      cases elems with
      | nil =>
        simp only [compLeaves, Except.ok.injEq, Prod.mk.injEq] at h
        obtain ⟨rfl, rfl⟩ := h
        exact ⟨Nat.le_refl _, within_nil _ _, sortedN_nil⟩
      | cons _ _ => simp [compLeaves] at h
  | succ fuel ih =>
    obtain ⟨ihE, ihC⟩ := ih
    constructor
    · intro path base e sz lv h
      cases e with
      | type t =>
        simp only [elemLeaves] at h
        split at h
        · simp at h
        · rename_i ps _
          split at h
          · simp only [Except.ok.injEq, Prod.mk.injEq] at h
            obtain ⟨_, rfl⟩ := h
            exact ⟨within_nil _ _, sortedN_nil⟩
          · simp only [Except.ok.injEq, Prod.mk.injEq] at h
            obtain ⟨rfl, rfl⟩ := h
            exact ⟨within_single _ _ _ (Nat.le_refl _) (Nat.le_refl _), sortedN_single _⟩
      | enum n enc o vs atr =>
        simp only [elemLeaves, bind, Except.bind] at h
        split at h
        · simp at h
        · simp only [Except.ok.injEq, Prod.mk.injEq] at h
          obtain ⟨rfl, rfl⟩ := h
          exact ⟨within_single _ _ _ (Nat.le_refl _) (Nat.le_refl _), sortedN_single _⟩
      | set n enc o cs atr =>
        simp only [elemLeaves, bind, Except.bind] at h
        split at h
        · simp at h
        · simp only [Except.ok.injEq, Prod.mk.injEq] at h
          obtain ⟨rfl, rfl⟩ := h
          exact ⟨within_single _ _ _ (Nat.le_refl _) (Nat.le_refl _), sortedN_single _⟩
      | ref n ty o atr =>
        simp only [elemLeaves] at h
        split at h
        · simp at h
        · exact ihE _ _ _ _ _ h
      | composite n o elems atr =>
        simp only [elemLeaves] at h
        have := ihC _ _ _ _ _ _ h
        simp only [Nat.add_zero] at this
        exact ⟨this.2.1, this.2.2⟩
    · intro path base cur elems total lv h
      cases elems with
      | nil =>
        simp only [compLeaves, Except.ok.injEq, Prod.mk.injEq] at h
        obtain ⟨rfl, rfl⟩ := h
        exact ⟨Nat.le_refl _, within_nil _ _, sortedN_nil⟩
      | cons e rest =>
        simp only [compLeaves] at h
        split at h
        · -- constant element
          split at h
          · simp at h
          · exact ihC _ _ _ _ _ _ h
        · split at h
          · simp at h
          · rename_i off hoff
            split at h
            · simp at h
            · rename_i sz lv1 he
              by_cases hov : offsetMax < off + sz
              · rw [if_pos hov] at h; simp at h
              rw [if_neg hov] at h
              split at h
              · simp at h
              · rename_i total' lv2 hr
                simp only [Except.ok.injEq, Prod.mk.injEq] at h
                obtain ⟨rfl, rfl⟩ := h
                have hcur : cur ≤ off := by
                  unfold storedOffset at hoff
                  split at hoff
                  · split at hoff
                    · simp at hoff
                    · simp only [Except.ok.injEq] at hoff; omega
                  · simp only [Except.ok.injEq] at hoff; omega
                obtain ⟨w1, s1⟩ := ihE _ _ _ _ _ he
                obtain ⟨c2, w2, s2⟩ := ihC _ _ _ _ _ _ hr
                refine ⟨by omega, ?_, ?_⟩
                · exact within_append (within_mono w1 (by omega) (by omega)) (within_mono w2 (by omega) (Nat.le_refl _))
                · exact sortedN_append s1 s2 (lo := base + off) (mid := base + (off + sz)) (hi := base + total')
                    (within_mono w1 (Nat.le_refl _) (by omega)) w2

theorem field_ok (types : List Elem) : ∀ (fields : List FieldDef) (cur total : Nat) (lv : List NLeaf),
    fieldLeaves types cur fields = .ok (total, lv) →
      cur ≤ total ∧ Within lv cur total ∧ SortedN lv := by
  intro fields
  induction fields with
  | nil =>
    intro cur total lv h
    simp only [fieldLeaves, Except.ok.injEq, Prod.mk.injEq] at h
    obtain ⟨rfl, rfl⟩ := h
    exact ⟨Nat.le_refl _, within_nil _ _, sortedN_nil⟩
  | cons f rest ih =>
    intro cur total lv h
    simp only [fieldLeaves, bind, Except.bind] at h
    split at h
    · simp at h
    · rename_i pres _
      split at h
      · -- constant field: skipped
        split at h
        · simp at h
        · exact ih _ _ _ h
      · split at h
        · simp at h
        · rename_i off hoff
          have hcur : cur ≤ off := by
            unfold storedOffset at hoff
            split at hoff
            · split at hoff
              · simp at hoff
              · simp only [Except.ok.injEq] at hoff; omega
            · simp only [Except.ok.injEq] at hoff; omega
          split at h
          · simp at h
          · rename_i szlv hszlv
            obtain ⟨sz, lv1⟩ := szlv
            by_cases hov : offsetMax < off + sz
            · rw [if_pos hov] at h; simp at h
            rw [if_neg hov] at h
            split at h
            · simp at h
            · rename_i tl hr
              obtain ⟨total', lv2⟩ := tl
              simp only [Except.ok.injEq, Prod.mk.injEq] at h
              obtain ⟨rfl, rfl⟩ := h
              obtain ⟨c2, w2, s2⟩ := ih _ _ _ hr
              have hfirst : Within lv1 off (off + sz) ∧ SortedN lv1 := by
                split at hszlv
                · simp only [Except.ok.injEq, Prod.mk.injEq] at hszlv
                  obtain ⟨rfl, rfl⟩ := hszlv
                  exact ⟨within_single _ _ _ (Nat.le_refl _) (Nat.le_refl _), sortedN_single _⟩
                · split at hszlv
                  · exact (elem_comp_ok types FUEL).1 _ _ _ _ _ hszlv
                  · simp at hszlv
              refine ⟨by omega, ?_, ?_⟩
              · exact within_append (within_mono hfirst.1 hcur (by omega)) (within_mono w2 (by omega) (Nat.le_refl _))
              · exact sortedN_append hfirst.2 s2 (lo := off) (mid := off + sz) (hi := total') hfirst.1 w2

open Sbepp.Observe

mutual
  /-- leaves sorted (ascending, non-overlapping) at every level -/
  def SortedL : NLevel → Prop
    | .mk _ lv gs _ => SortedN lv ∧ SortedGs gs
  def SortedGs : List NGroup → Prop
    | [] => True
    | g :: gs => SortedG g ∧ SortedGs gs
  def SortedG : NGroup → Prop
    | .mk _ _ l => SortedL l
end

theorem level_ok (types : List Elem) (fields : List FieldDef) (custom : Option Nat) (computed b : Nat)
    (lv : List NLeaf) (hf : fieldLeaves types 0 fields = .ok (computed, lv)) (hb : blockLength custom computed = .ok b) :
    (∀ l ∈ lv, l.off + l.size ≤ b) ∧ SortedN lv := by
  obtain ⟨_, w, s⟩ := field_ok types fields 0 computed lv hf
  have hle : computed ≤ b := by
    unfold blockLength at hb
    split at hb
    · split at hb
      · simp at hb
      · simp only [Except.ok.injEq] at hb; omega
    · simp only [Except.ok.injEq] at hb; omega
  exact ⟨fun l hl => by have := (w l hl).2; omega, s⟩

mutual
  theorem groups_ok (types : List Elem) (gs : List GroupDef) (rs : List NGroup)
      (h : resolveGroups types gs = .ok rs) : WFGs rs ∧ SortedGs rs := by
    match gs with
    | [] =>
      simp only [resolveGroups, Except.ok.injEq] at h
      subst h; exact ⟨trivial, trivial⟩
    | g :: gs =>
      simp only [resolveGroups] at h
      split at h
      · simp at h
      · rename_i r hr
        split at h
        · simp at h
        · rename_i rs' hrs
          simp only [Except.ok.injEq] at h
          subst h
          obtain ⟨w1, s1⟩ := group_ok types g r hr
          obtain ⟨w2, s2⟩ := groups_ok types gs rs' hrs
          exact ⟨⟨w1, w2⟩, ⟨s1, s2⟩⟩
  theorem group_ok (types : List Elem) (g : GroupDef) (r : NGroup)
      (h : resolveGroup types g = .ok r) : WFG r ∧ SortedG r := by
    match g with
    | .mk name id dimType bl fields groups datas atr =>
      simp only [resolveGroup] at h
      split at h
      · simp at h
      · rename_i computed lv hf
        split at h
        · simp at h
        · rename_i b hb
          split at h
          · simp at h
          · rename_i dim hd
            split at h
            · simp at h
            · rename_i gs hgs
              split at h
              · simp at h
              · rename_i ds hds
                simp only [Except.ok.injEq] at h
                subst h
                obtain ⟨hin, hs⟩ := level_ok types fields bl computed b lv hf hb
                obtain ⟨w, s⟩ := groups_ok types groups gs hgs
                exact ⟨⟨hin, w⟩, ⟨hs, s⟩⟩
end

/-- **resolve_wf**: every message layout the validator model accepts has, at
    every level of its group tree, leaves that are sorted, pairwise disjoint and
    inside the block. -/
theorem resolve_wf (s : SchemaDef) (m : MessageDef) (r : NMessage) (h : resolveMessage s m = .ok r) :
    WFL r.level ∧ SortedL r.level := by
  simp only [resolveMessage, bind, Except.bind] at h
  split at h
  · simp at h
  · rename_i cl hf
    obtain ⟨computed, lv⟩ := cl
    split at h
    · simp at h
    · rename_i b hb
      split at h
      · simp at h
      · rename_i gs hgs
        split at h
        · simp at h
        · rename_i ds hds
          split at h
          · split at h
            · simp at h
            · rename_i hl hh
              obtain ⟨hsz, hlv⟩ := hl
              simp only [Except.ok.injEq] at h
              subst h
              obtain ⟨hin, hs⟩ := level_ok s.types m.fields m.blockLength computed b lv hf hb
              obtain ⟨w, sg⟩ := groups_ok s.types m.groups gs hgs
              exact ⟨⟨hin, w⟩, ⟨hs, sg⟩⟩
          · simp at h

end Sbepp.Schema
