/-
  Lemmas for C04.

  A. the generator's cursor-offset fold agrees with the validator's offsets;
  B. one cursor step = the documented protocol over the random-access geometry;
  C. a complete in-order traversal ends where `endL` (random-access `size_bytes`) ends.
-/
import Sbepp.Rt.Cursor
import Sbepp.Spec.CursorProtocol
import Sbepp.Lemmas.Walk

namespace Sbepp.Gen
open Sbepp Sbepp.Schema

/-! ## A. offsets -/

/-- what `fieldSpans` accepts obeys the validator's offset rule -/
theorem fieldSpans_valid (types : List Elem) (fs : List FieldDef) :
    ∀ (cur total : Nat) (sp : List FieldSpan), fieldSpans types cur fs = .ok (total, sp) → SpansFrom cur sp := by
  induction fs with
  | nil =>
    intro cur total sp h
    simp only [fieldSpans, Except.ok.injEq, Prod.mk.injEq] at h
    obtain ⟨_, rfl⟩ := h
    trivial
  | cons f rest ih =>
    intro cur total sp h
    simp only [fieldSpans, bind, Except.bind] at h
    split at h
    · simp at h
    · rename_i pres _
      split at h
      · -- constant field: no span
        split at h
        · simp at h
        · exact ih _ _ _ h
      · split at h
        · simp at h
        · rename_i off hoff
          split at h
          · simp at h
          · rename_i szlv hszlv
            split at h
            · simp at h
            split at h
            · simp at h
            · rename_i r hr
              obtain ⟨sz, lv⟩ := szlv
              obtain ⟨total', sp'⟩ := r
              simp only [Except.ok.injEq, Prod.mk.injEq] at h
              obtain ⟨_, rfl⟩ := h
              refine ⟨?_, ih _ _ _ hr⟩
              simp only
              cases hfo : f.offset with
              | none => simp only [hfo] at hoff; simp only [Except.ok.injEq] at hoff; exact hoff.symm
              | some o =>
                simp only [hfo] at hoff
                split at hoff
                · simp at hoff
                · simp only [Except.ok.injEq] at hoff
                  exact ⟨by omega, hoff.symm⟩

/-- the spans are the fields of the wire layout model: `Schema.fieldLeaves`
    accepts the same lists, with the same total, and its leaves are the
    concatenation of the spans' leaves -/
theorem fieldSpans_leaves (types : List Elem) (fs : List FieldDef) :
    ∀ (cur total : Nat) (sp : List FieldSpan), fieldSpans types cur fs = .ok (total, sp) →
      fieldLeaves types cur fs = .ok (total, sp.flatMap (·.leaves)) := by
  induction fs with
  | nil =>
    intro cur total sp h
    simp only [fieldSpans, Except.ok.injEq, Prod.mk.injEq] at h
    obtain ⟨rfl, rfl⟩ := h
    simp [fieldLeaves]
  | cons f rest ih =>
    intro cur total sp h
    simp only [fieldSpans, bind, Except.bind] at h
    simp only [fieldLeaves, storedOffset, bind, Except.bind]
    split at h
    · simp at h
    · rename_i pres hpres
      split at h
      · rename_i hconst
        rw [if_pos hconst]
        split at h
        · simp at h
        · rename_i hnc
          have := ih _ _ _ h
          split
          · rename_i a b c d heq; exact absurd heq (hnc a b c d)
          · exact this
      · rename_i hconst
        rw [if_neg hconst]
        cases hfo : f.offset with
        | none =>
          simp only [hfo] at h ⊢
          by_cases hp : isPrimitive f.type = true
          · simp only [hp, if_true] at h ⊢
            split at h
            · simp at h
            rename_i hov
            rw [if_neg hov]
            split at h
            · simp at h
            · rename_i r hr
              simp only [Except.ok.injEq, Prod.mk.injEq] at h
              obtain ⟨rfl, rfl⟩ := h
              rw [ih _ _ _ hr]
              simp
          · simp only [hp] at h ⊢
            cases hl : lookup types f.type with
            | none => simp [hl] at h
            | some enc =>
              simp only [hl] at h ⊢
              cases he : elemLeaves types FUEL [f.name] cur enc with
              | error e => simp [he] at h
              | ok szlv =>
                simp only [he] at h ⊢
                simp only [Bool.false_eq_true, if_false] at h ⊢
                split at h
                · simp at h
                rename_i hov
                rw [if_neg hov]
                split at h
                · simp at h
                · rename_i r hr
                  simp only [Except.ok.injEq, Prod.mk.injEq] at h
                  obtain ⟨rfl, rfl⟩ := h
                  rw [ih _ _ _ hr]
                  simp
        | some o =>
          simp only [hfo] at h ⊢
          by_cases ho : o < cur
          · simp [ho] at h
          · simp only [ho, if_false] at h ⊢
            by_cases hp : isPrimitive f.type = true
            · simp only [hp, if_true] at h ⊢
              split at h
              · simp at h
              rename_i hov
              rw [if_neg hov]
              split at h
              · simp at h
              · rename_i r hr
                simp only [Except.ok.injEq, Prod.mk.injEq] at h
                obtain ⟨rfl, rfl⟩ := h
                rw [ih _ _ _ hr]
                simp
            · simp only [hp] at h ⊢
              cases hl : lookup types f.type with
              | none => simp [hl] at h
              | some enc =>
                simp only [hl] at h ⊢
                cases he : elemLeaves types FUEL [f.name] o enc with
                | error e => simp [he] at h
                | ok szlv =>
                  simp only [he] at h ⊢
                  simp only [Bool.false_eq_true, if_false] at h ⊢
                  split at h
                  · simp at h
                  rename_i hov
                  rw [if_neg hov]
                  split at h
                  · simp at h
                  · rename_i r hr
                    simp only [Except.ok.injEq, Prod.mk.injEq] at h
                    obtain ⟨rfl, rfl⟩ := h
                    rw [ih _ _ _ hr]
                    simp

/-- the fold of the generator reproduces the validator's offsets: ABS =
    validator offset + header size, REL = distance from the previous field's
    end, the last field and only the last is flagged -/
theorem cursorFold_expected (hdr : Nat) (sp : List FieldSpan) :
    ∀ cur, SpansFrom cur sp → cursorFold hdr cur (sp.map FieldSpan.cfield) = .ok (expectedOffs hdr cur sp) := by
  induction sp with
  | nil => intro cur _; rfl
  | cons s rest ih =>
    intro cur h
    obtain ⟨hs, hrest⟩ := h
    have hv : getValidOffset s.custom cur = .ok s.off := by
      unfold getValidOffset
      cases hc : s.custom with
      | none => simp only [hc] at hs; simp [hs]
      | some o =>
        simp only [hc] at hs
        obtain ⟨h1, h2⟩ := hs
        simp [h1, h2]
    cases rest with
    | nil =>
      simp only [List.map_cons, List.map_nil, cursorFold, FieldSpan.cfield, hv, expectedOffs, List.isEmpty_nil]
    | cons t rest' =>
      have := ih (s.off + s.size) hrest
      simp only [List.map_cons, FieldSpan.cfield] at this ⊢
      simp only [cursorFold, hv, this, expectedOffs, List.isEmpty_cons]

theorem expectedOffs_length (hdr : Nat) (sp : List FieldSpan) : ∀ cur, (expectedOffs hdr cur sp).length = sp.length := by
  induction sp with
  | nil => intro; rfl
  | cons s rest ih => intro cur; simp [expectedOffs, ih]

/-- pointwise reading of `expectedOffs` -/
theorem expectedOffs_abs (hdr : Nat) (sp : List FieldSpan) :
    ∀ cur (i : Nat) (s : FieldSpan) (o : COff), sp[i]? = some s → (expectedOffs hdr cur sp)[i]? = some o →
      o.abs = s.off + hdr ∧ (o.last = true ↔ i + 1 = sp.length) := by
  induction sp with
  | nil => intro cur i s o h; simp at h
  | cons t rest ih =>
    intro cur i s o hs ho
    cases i with
    | zero =>
      simp only [List.getElem?_cons_zero, Option.some.injEq] at hs
      simp only [expectedOffs, List.getElem?_cons_zero, Option.some.injEq] at ho
      subst hs; subst ho
      refine ⟨rfl, ?_⟩
      cases rest <;> simp
    | succ j =>
      simp only [List.getElem?_cons_succ] at hs
      simp only [expectedOffs, List.getElem?_cons_succ] at ho
      have := ih _ j s o hs ho
      refine ⟨this.1, ?_⟩
      rw [this.2]; simp

/-- every span of an accepted level is at or after the end of the previous one -/
def SpansOrdered : Nat → List FieldSpan → Prop
  | _, [] => True
  | cur, s :: rest => cur ≤ s.off ∧ SpansOrdered (s.off + s.size) rest

theorem spansFrom_ordered (sp : List FieldSpan) : ∀ cur, SpansFrom cur sp → SpansOrdered cur sp := by
  induction sp with
  | nil => intro _ _; trivial
  | cons s rest ih =>
    intro cur h
    obtain ⟨hs, hrest⟩ := h
    refine ⟨?_, ih _ hrest⟩
    cases hc : s.custom with
    | none => simp only [hc] at hs; omega
    | some o => simp only [hc] at hs; omega

/-- end of the last span (`cur` if there is none) -/
def lastEnd : Nat → List FieldSpan → Nat
  | cur, [] => cur
  | _, s :: rest => lastEnd (s.off + s.size) rest

theorem fieldSpans_total (types : List Elem) (fs : List FieldDef) :
    ∀ (cur total : Nat) (sp : List FieldSpan), fieldSpans types cur fs = .ok (total, sp) → total = lastEnd cur sp := by
  induction fs with
  | nil =>
    intro cur total sp h
    simp only [fieldSpans, Except.ok.injEq, Prod.mk.injEq] at h
    obtain ⟨rfl, rfl⟩ := h
    rfl
  | cons f rest ih =>
    intro cur total sp h
    simp only [fieldSpans, bind, Except.bind] at h
    split at h
    · simp at h
    · split at h
      · split at h
        · simp at h
        · exact ih _ _ _ h
      · split at h
        · simp at h
        · split at h
          · simp at h
          · split at h
            · simp at h
            split at h
            · simp at h
            · rename_i r hr
              simp only [Except.ok.injEq, Prod.mk.injEq] at h
              obtain ⟨rfl, rfl⟩ := h
              simp only [lastEnd]
              exact ih _ _ _ hr

theorem spansOrdered_within (sp : List FieldSpan) :
    ∀ cur, SpansOrdered cur sp → cur ≤ lastEnd cur sp ∧ ∀ s ∈ sp, s.off + s.size ≤ lastEnd cur sp := by
  induction sp with
  | nil => intro cur _; exact ⟨Nat.le_refl _, fun s hs => by simp at hs⟩
  | cons t rest ih =>
    intro cur h
    obtain ⟨h1, h2⟩ := h
    obtain ⟨i1, i2⟩ := ih _ h2
    simp only [lastEnd]
    refine ⟨by omega, ?_⟩
    intro s hs
    simp only [List.mem_cons] at hs
    rcases hs with rfl | hs
    · exact i1
    · exact i2 s hs

/-! ### every level tree the resolver produces is well formed, and the generator
    model compiles it without throwing -/

mutual
  def ValidC : CLevel → Prop
    | .mk _ bl sp _ gs _ => SpansFrom 0 sp ∧ (∀ s ∈ sp, s.off + s.size ≤ bl) ∧ ValidCGs gs
  def ValidCGs : List CGroup → Prop
    | [] => True
    | g :: gs => ValidCG g ∧ ValidCGs gs
  def ValidCG : CGroup → Prop
    | .mk _ _ l => l.hdr = 0 ∧ ValidC l
end

theorem blockLength_ge (custom : Option Nat) (computed b : Nat) (h : blockLength custom computed = .ok b) :
    computed ≤ b := by
  unfold blockLength at h
  cases custom with
  | none => simp only [Except.ok.injEq] at h; omega
  | some c =>
    simp only at h
    split at h
    · simp at h
    · simp only [Except.ok.injEq] at h; omega

theorem validLevel_of_fieldSpans (types : List Elem) (fields : List FieldDef) (computed b hdr nd : Nat)
    (sp : List FieldSpan) (gs : List CGroup) (ds : List NData)
    (h : fieldSpans types 0 fields = .ok (computed, sp)) (hb : computed ≤ b) (hgs : ValidCGs gs) :
    ValidC (.mk hdr b sp nd gs ds) := by
  have hv := fieldSpans_valid types fields 0 computed sp h
  have ht := fieldSpans_total types fields 0 computed sp h
  have hw := spansOrdered_within sp 0 (spansFrom_ordered sp 0 hv)
  refine ⟨hv, ?_, hgs⟩
  intro s hs
  have := hw.2 s hs
  omega

mutual
  theorem cresolveGroups_valid (types : List Elem) (gds : List GroupDef) (gs : List CGroup)
      (h : cresolveGroups types gds = .ok gs) : ValidCGs gs := by
    match gds with
    | [] =>
      simp only [cresolveGroups, Except.ok.injEq] at h
      subst h; trivial
    | gd :: rest =>
      simp only [cresolveGroups] at h
      split at h
      · simp at h
      · rename_i r hr
        split at h
        · simp at h
        · rename_i rs hrs
          simp only [Except.ok.injEq] at h
          subst h
          exact ⟨cresolveGroup_valid types gd r hr, cresolveGroups_valid types rest rs hrs⟩
  theorem cresolveGroup_valid (types : List Elem) (gd : GroupDef) (g : CGroup)
      (h : cresolveGroup types gd = .ok g) : ValidCG g := by
    match gd with
    | .mk name id dimType bl fields groups datas attrs =>
      simp only [cresolveGroup] at h
      split at h
      · simp at h
      · rename_i computed sp hsp
        split at h
        · simp at h
        · rename_i b hb
          split at h
          · simp at h
          · rename_i dim hdim
            split at h
            · simp at h
            · rename_i gs hgs
              split at h
              · simp at h
              · rename_i ds hds
                simp only [Except.ok.injEq] at h
                subst h
                exact ⟨rfl, validLevel_of_fieldSpans types fields computed b 0 _ sp gs ds hsp
                  (blockLength_ge bl computed b hb) (cresolveGroups_valid types groups gs hgs)⟩
end

theorem cresolveMessage_valid (s : SchemaDef) (m : MessageDef) (cm : CMessage)
    (h : cresolveMessage s m = .ok cm) : ValidC cm.level ∧ cm.level.hdr = cm.hdrSize := by
  simp only [cresolveMessage, bind, Except.bind] at h
  split at h
  · simp at h
  · rename_i csp hsp
    obtain ⟨computed, sp⟩ := csp
    split at h
    · simp at h
    · rename_i b hb
      split at h
      · simp at h
      · rename_i gs hgs
        split at h
        · simp at h
        · rename_i ds hds
          split at h
          · split at h
            · simp at h
            · rename_i hh hcomp
              simp only [Except.ok.injEq] at h
              subst h
              exact ⟨validLevel_of_fieldSpans s.types m.fields computed b _ _ sp gs ds hsp
                (blockLength_ge m.blockLength computed b hb) (cresolveGroups_valid s.types m.groups gs hgs), rfl⟩
          · simp at h

end Sbepp.Gen

namespace Sbepp.Rt.Cursor
open Sbepp Sbepp.Gen Sbepp.Cursor Sbepp.Spec.CursorProtocol

/-! ## B. one step -/

/-- how an outcome of the protocol specification shows in the model -/
def toOut (buf : List Nat) : SpecOut → Out Step
  | .ok res cur => .ok ⟨res, cur, buf⟩
  | .reported => .error .wrongCursor
  | .noSuchCall => .error .noSuchMethod

/-- the accessor constants the generator emits for span `s` whose predecessor
    ends at `pe` (see `expectedOffs`) -/
def accOf (hdr pe : Nat) (s : FieldSpan) (last : Bool) : Acc := ⟨s.off - pe, s.off + hdr, s.size, s.isView, last⟩

/-- the geometry of that field in a level that starts at `lvl` (see `fieldGeos`) -/
def geoOf (lvl pe : Nat) (s : FieldSpan) (buf : List Nat) : FieldGeo :=
  ⟨lvl + pe, lvl + s.off, s.size, s.isView, slice buf (lvl + s.off) s.size⟩

/-- `[.., stop)` lies inside the view: what the size checks test -/
def Inside (endp : Option Nat) (stop : Nat) : Prop := ∀ e, endp = some e → stop ≤ e

theorem sizeOk_of_inside (endp : Option Nat) (b off size stop : Nat) (h : Inside endp stop) (hb : b + off + size ≤ stop) :
    sizeOk endp (some b) off size = true := by
  unfold sizeOk
  cases endp with
  | none => rfl
  | some e =>
    have := h e rfl
    simp; omega

/-- the size check is sound: what passes it lies inside the view -/
theorem sizeOk_sound (e b off size : Nat) (h : sizeOk (some e) (some b) off size = true) : b + off + size ≤ e := by
  unfold sizeOk at h
  simp at h
  omega

theorem sizeCheck_sound (e : Nat) (begin : Option Nat) (off size : Nat) (h : sizeCheck (some e) begin off size = .ok ()) :
    ∃ b, begin = some b ∧ b + off + size ≤ e := by
  unfold sizeCheck at h
  split at h
  · rename_i hs
    cases begin with
    | none => simp [sizeOk] at hs
    | some b => exact ⟨b, rfl, sizeOk_sound e b off size hs⟩
  · simp at h

theorem sizeCheck_of_inside (endp : Option Nat) (b off size stop : Nat) (h : Inside endp stop) (hb : b + off + size ≤ stop) :
    sizeCheck endp (some b) off size = .ok () := by
  unfold sizeCheck; rw [sizeOk_of_inside endp b off size stop h hb]; rfl

theorem assertCursor_true (endp : Option Nat) : assertCursor endp true = .ok () := by
  unfold assertCursor; simp

theorem assertCursor_false (e : Nat) : assertCursor (some e) false = .error .wrongCursor := by
  unfold assertCursor; simp

theorem atField_iff (v : LView) (cur : Option Nat) (hdr pe off : Nat) (hv : v.lvl = v.addr + hdr) (hpe : pe ≤ off) :
    atField v cur (off - pe) (off + hdr) = decide (cur = some (v.lvl + pe)) := by
  unfold atField
  cases cur with
  | none => simp
  | some p =>
    simp only [Option.map_some, Option.some.injEq]
    by_cases h : p = v.lvl + pe
    · subst h; simp; omega
    · simp [h]; omega

theorem atAddr_iff (cur : Option Nat) (a : Nat) : atAddr cur a = decide (cur = some a) := by
  unfold atAddr
  cases cur with
  | none => simp
  | some p => by_cases h : p = a <;> simp [h]

section field
variable (v : LView) (buf : List Nat) (cur : Option Nat) (hdr pe : Nat) (s : FieldSpan) (last : Bool)

/-- **cursor_step (fields)**, legal and illegal positions at once: in a checked
    build for every cursor value, in an unchecked build whenever the documented
    precondition holds, the call does what the protocol says — same value /
    view address as the random-access accessor (`getLeaf` at `lvl + off`),
    cursor at `Post`, or the wrong position is reported before anything is read. -/
theorem stepField_spec (w : Wrapper) (hv : v.lvl = v.addr + hdr) (hpe : pe ≤ s.off)
    (hin : Inside v.endp (v.lvl + s.off + s.size))
    (hc : v.endp.isSome = true ∨ (needsPre w = true → cur = some (v.lvl + pe))) :
    stepField w v buf cur (accOf hdr pe s last)
      = toOut buf (specField (geoOf v.lvl pe s buf) last v.blockEnd w cur) := by
  have hat := atField_iff v cur hdr pe s.off hv hpe
  have hI1 : sizeCheck v.endp (some v.addr) (s.off + hdr) s.size = .ok () :=
    sizeCheck_of_inside _ _ _ _ _ hin (by omega)
  have hI0 : sizeCheck v.endp (some v.addr) (s.off + hdr) 0 = .ok () :=
    sizeCheck_of_inside _ _ _ _ _ hin (by omega)
  have hP1 : sizeCheck v.endp (some (v.lvl + pe)) (s.off - pe) s.size = .ok () :=
    sizeCheck_of_inside _ _ _ _ _ hin (by omega)
  have hP0 : sizeCheck v.endp (some (v.lvl + pe)) (s.off - pe) 0 = .ok () :=
    sizeCheck_of_inside _ _ _ _ _ hin (by omega)
  have e1 : v.lvl + pe + (s.off - pe) = v.lvl + s.off := by omega
  have e2 : v.addr + (s.off + hdr) = v.lvl + s.off := by omega
  by_cases hleg : needsPre w = true ∧ cur ≠ some (v.lvl + pe)
  · -- wrong position: reported (the build is checked by `hc`)
    obtain ⟨hn, hne⟩ := hleg
    have hchk : v.endp.isSome = true := by
      rcases hc with h | h
      · exact h
      · exact absurd (h hn) hne
    obtain ⟨e, he⟩ := Option.isSome_iff_exists.mp hchk
    have hatf : atField v cur (s.off - pe) (s.off + hdr) = false := by rw [hat]; simp [hne]
    have hcond : needsPre w = true ∧ cur ≠ some (geoOf v.lvl pe s buf).pre := ⟨hn, hne⟩
    have hspec : specField (geoOf v.lvl pe s buf) last v.blockEnd w cur = .reported := by
      unfold specField; rw [if_pos hcond]
    rw [hspec]
    cases w <;> simp only [needsPre] at hn <;>
      cases hiv : s.isView <;> cases last <;>
      simp [stepField, accOf, hiv, toOut, C.get_value, C.get_last_value, C.get_static_field_view,
        C.get_last_static_field_view, DM.get_value, DM.get_last_value, DM.get_static_field_view,
        DM.get_last_static_field_view, S.get_value, S.get_last_value, S.get_static_field_view,
        S.get_last_static_field_view, bind, Except.bind, hatf, he, assertCursor_false] <;> contradiction
  · have hcond : ¬ (needsPre w = true ∧ cur ≠ some (geoOf v.lvl pe s buf).pre) := hleg
    have hspec : specField (geoOf v.lvl pe s buf) last v.blockEnd w cur
        = .ok (fieldRes (geoOf v.lvl pe s buf) w) (fieldPost (geoOf v.lvl pe s buf) last v.blockEnd cur w) := by
      unfold specField; rw [if_neg hcond]
    rw [hspec]
    by_cases hn : needsPre w = true
    · have hcur : cur = some (v.lvl + pe) := by
        by_cases h : cur = some (v.lvl + pe)
        · exact h
        · exact absurd ⟨hn, h⟩ hleg
      subst hcur
      have hatf : atField v (some (v.lvl + pe)) (s.off - pe) (s.off + hdr) = true := by rw [hat]; simp
      cases w <;> simp only [needsPre] at hn <;>
        cases hiv : s.isView <;> cases last <;>
        simp [stepField, accOf, hiv, toOut, fieldRes, fieldPost, geoOf, C.get_value, C.get_last_value,
          C.get_static_field_view, C.get_last_static_field_view, DM.get_value, DM.get_last_value,
          DM.get_static_field_view, DM.get_last_static_field_view, S.get_value, S.get_last_value,
          S.get_static_field_view, S.get_last_static_field_view, bind, Except.bind, hatf, assertCursor_true,
          hP1, hP0, deref, e1] <;> (try contradiction) <;> omega
    · cases w <;> simp only [needsPre] at hn <;>
        cases hiv : s.isView <;> cases last <;>
        simp [stepField, accOf, hiv, toOut, fieldRes, fieldPost, geoOf, I.get_value, I.get_last_value,
          I.get_static_field_view, I.get_last_static_field_view, IDM.get_value, IDM.get_last_value,
          IDM.get_static_field_view, IDM.get_last_static_field_view, bind, Except.bind, hI1, hI0, e2] <;>
        (try contradiction) <;> omega

/-- **cursor_step (setters)**: the bytes go where the random-access setter
    (`setLeaf`) puts them, the cursor moves as for the getter; `skip` has no setter -/
theorem stepSet_spec (w : Wrapper) (value : List Nat) (hv : v.lvl = v.addr + hdr) (hpe : pe ≤ s.off)
    (hin : Inside v.endp (v.lvl + s.off + s.size))
    (hc : v.endp.isSome = true ∨ (needsPre w = true → cur = some (v.lvl + pe))) :
    stepSet w v buf cur (accOf hdr pe s last) value
      = toOut (setLeaf buf v.lvl ⟨s.off, s.size⟩ value) (specFieldSet (geoOf v.lvl pe s buf) last v.blockEnd w cur) := by
  have hat := atField_iff v cur hdr pe s.off hv hpe
  have hI1 : sizeCheck v.endp (some v.addr) (s.off + hdr) s.size = .ok () :=
    sizeCheck_of_inside _ _ _ _ _ hin (by omega)
  have hP1 : sizeCheck v.endp (some (v.lvl + pe)) (s.off - pe) s.size = .ok () :=
    sizeCheck_of_inside _ _ _ _ _ hin (by omega)
  have e1 : v.lvl + pe + (s.off - pe) = v.lvl + s.off := by omega
  have e2 : v.addr + (s.off + hdr) = v.lvl + s.off := by omega
  cases hw : w with
  | skip => simp [stepSet, specFieldSet, toOut]
  | plain | dontMove =>
    all_goals (subst hw)
    all_goals (
      by_cases hcur : cur = some (v.lvl + pe)
      · subst hcur
        have hatf : atField v (some (v.lvl + pe)) (s.off - pe) (s.off + hdr) = true := by rw [hat]; simp
        cases last <;>
          simp [stepSet, accOf, specFieldSet, needsPre, geoOf, toOut, fieldPost, setLeaf, C.set_value, C.set_last_value,
            DM.set_value, DM.set_last_value, bind, Except.bind, hatf, assertCursor_true, hP1, deref, e1] <;> omega
      · have hchk : v.endp.isSome = true := by
          rcases hc with h | h
          · exact h
          · exact absurd (h (by simp [needsPre])) hcur
        obtain ⟨e, he⟩ := Option.isSome_iff_exists.mp hchk
        have hatf : atField v cur (s.off - pe) (s.off + hdr) = false := by rw [hat]; simp [hcur]
        cases last <;>
          simp [stepSet, accOf, specFieldSet, needsPre, geoOf, toOut, hcur, C.set_value, C.set_last_value,
            DM.set_value, DM.set_last_value, bind, Except.bind, hatf, he, assertCursor_false])
  | init | initDontMove =>
    all_goals (subst hw)
    all_goals (
      cases last <;>
        simp [stepSet, accOf, specFieldSet, needsPre, geoOf, toOut, fieldPost, setLeaf, I.set_value, I.set_last_value,
          IDM.set_value, IDM.set_last_value, bind, Except.bind, hI1, e2] <;> omega)

end field

/-! ### what a checked build reads or writes lies inside the view
    (provable since `SBEPP_SIZE_CHECK` rejects `begin > end`) -/

theorem ptr_shape (e : Nat) (c : Bool) (ptr : Option Nat) (off size : Nat) (F : Nat → Step) (st : Step)
    (h : (do assertCursor (some e) c; sizeCheck (some e) ptr off size; let p ← deref ptr; Except.ok (F p) : Out Step) = .ok st) :
    ∃ p, ptr = some p ∧ p + off + size ≤ e ∧ st = F p := by
  simp only [bind, Except.bind] at h
  split at h
  · simp at h
  · split at h
    · simp at h
    · rename_i hs
      obtain ⟨b, hb, hle⟩ := sizeCheck_sound e ptr off size (by
        cases hsc : sizeCheck (some e) ptr off size with
        | error x => rw [hsc] at hs; simp at hs
        | ok u => rfl)
      subst hb
      simp only [deref, Except.ok.injEq] at h
      exact ⟨b, rfl, hle, h.symm⟩

/-- the same shape without an access through the cursor (`skip_cursor_wrapper::get_last_value`) -/
theorem ptr_shape0 (e : Nat) (c : Bool) (ptr : Option Nat) (off size : Nat) (st0 st : Step)
    (h : (do assertCursor (some e) c; sizeCheck (some e) ptr off size; Except.ok st0 : Out Step) = .ok st) :
    ∃ p, ptr = some p ∧ p + off + size ≤ e ∧ st = st0 := by
  simp only [bind, Except.bind] at h
  split at h
  · simp at h
  · split at h
    · simp at h
    · rename_i hs
      obtain ⟨b, hb, hle⟩ := sizeCheck_sound e ptr off size (by
        cases hsc : sizeCheck (some e) ptr off size with
        | error x => rw [hsc] at hs; simp at hs
        | ok u => rfl)
      simp only [Except.ok.injEq] at h
      exact ⟨b, hb, hle, h.symm⟩

theorem view_shape (e addr abs size : Nat) (st0 st : Step)
    (h : (do sizeCheck (some e) (some addr) abs size; Except.ok st0 : Out Step) = .ok st) :
    addr + abs + size ≤ e ∧ st = st0 := by
  simp only [bind, Except.bind] at h
  split at h
  · simp at h
  · rename_i hs
    obtain ⟨b, hb, hle⟩ := sizeCheck_sound e (some addr) abs size (by
      cases hsc : sizeCheck (some e) (some addr) abs size with
      | error x => rw [hsc] at hs; simp at hs
      | ok u => rfl)
    simp only [Option.some.injEq] at hb
    subst hb
    simp only [Except.ok.injEq] at h
    exact ⟨hle, h.symm⟩

/-- **checked field accesses stay inside the view**: in a checked build, whenever
    a cursor-based getter of a scalar field returns (through any of the five
    wrappers, at a legal position or not), the bytes it returned were read from
    `[start, start + size)` with `start + size ≤ end` -/
theorem checked_get_inside (w : Wrapper) (v : LView) (buf : List Nat) (cur : Option Nat) (a : Acc) (e : Nat) (st : Step)
    (he : v.endp = some e) (hnv : a.isView = false) (h : stepField w v buf cur a = .ok st) :
    ∃ start, start + a.size ≤ e ∧ (w ≠ .skip → st.res = .value (slice buf start a.size)) := by
  cases w <;> cases hl : a.last <;> simp only [stepField, hnv, hl] at h
  all_goals first
    | (simp only [C.get_value, C.get_last_value, DM.get_value, DM.get_last_value, S.get_value, S.get_last_value, he] at h
       obtain ⟨p, _, hle, hst⟩ := ptr_shape e _ cur a.rel a.size _ st h
       exact ⟨p + a.rel, by omega, fun hne => by first | exact absurd rfl hne | rw [hst]⟩)
    | (simp only [I.get_value, I.get_last_value, IDM.get_value, IDM.get_last_value, he] at h
       obtain ⟨hle, hst⟩ := view_shape e v.addr a.abs a.size _ st h
       exact ⟨v.addr + a.abs, by omega, fun _ => by rw [hst]⟩)
    | (simp only [S.get_last_value, he] at h
       obtain ⟨p, _, hle, _⟩ := ptr_shape0 e _ cur a.rel a.size _ st h
       exact ⟨p + a.rel, by omega, fun hne => absurd rfl hne⟩)

/-- the same for setters: the bytes are written at `start` with `start + size ≤ end` -/
theorem checked_set_inside (w : Wrapper) (v : LView) (buf : List Nat) (cur : Option Nat) (a : Acc) (value : List Nat)
    (e : Nat) (st : Step) (he : v.endp = some e) (h : stepSet w v buf cur a value = .ok st) :
    ∃ start, start + a.size ≤ e ∧ st.buf = writeAt buf start value := by
  cases w <;> cases hl : a.last <;> simp only [stepSet, hl] at h
  all_goals first
    | (simp only [C.set_value, C.set_last_value, DM.set_value, DM.set_last_value, he] at h
       obtain ⟨p, _, hle, hst⟩ := ptr_shape e _ cur a.rel a.size _ st h
       exact ⟨p + a.rel, by omega, by rw [hst]⟩)
    | (simp only [I.set_value, I.set_last_value, IDM.set_value, IDM.set_last_value, he] at h
       obtain ⟨hle, hst⟩ := view_shape e v.addr a.abs a.size _ st h
       exact ⟨v.addr + a.abs, by omega, by rw [hst]⟩)
    | simp at h

/-! ### positions never go backwards -/

theorem iter_ge (f : Nat → Nat) (hf : ∀ q, q ≤ f q) : ∀ n q, q ≤ iter f n q := by
  intro n
  induction n with
  | zero => intro q; simp [iter]
  | succ n ih => intro q; simp only [iter]; exact Nat.le_trans (hf q) (ih (f q))

theorem endDs_ge (bo : ByteOrder) (buf : List Nat) (ds : List DataL) : ∀ p, p ≤ endDs bo buf ds p := by
  induction ds with
  | nil => intro p; simp [endDs]
  | cons d ds ih => intro p; simp only [endDs]; exact Nat.le_trans (by omega) (ih _)

mutual
  theorem endL_ge (bo : ByteOrder) (buf : List Nat) (l : Level) (pos wbl : Nat) :
      pos + wbl ≤ endL bo buf l pos wbl := by
    match l with
    | .mk _ _ gs ds =>
      simp only [endL]
      exact Nat.le_trans (endGs_ge bo buf gs (pos + wbl)) (endDs_ge bo buf ds _)
  theorem endGs_ge (bo : ByteOrder) (buf : List Nat) (gs : List Group) (p : Nat) : p ≤ endGs bo buf gs p := by
    match gs with
    | [] => simp [endGs]
    | g :: gs =>
      simp only [endGs]
      exact Nat.le_trans (Nat.le_trans (by omega) (endG_ge bo buf g p)) (endGs_ge bo buf gs _)
  theorem endG_ge (bo : ByteOrder) (buf : List Nat) (g : Group) (p : Nat) : p + g.dim.size ≤ endG bo buf g p := by
    match g with
    | .mk dim l =>
      simp only [endG, Group.dim]
      exact iter_ge _ (fun q => Nat.le_trans (by omega) (endL_ge bo buf l q _)) _ _
end

theorem groupPos_zero (bo : ByteOrder) (buf : List Nat) (gs : List Group) (pos wbl : Nat) :
    groupPos bo buf gs pos wbl 0 = pos + wbl := by simp [groupPos, endGs]

section group
variable (bo : ByteOrder) (v : LView) (buf : List Nat) (cur : Option Nat)

/-- the geometry of the `k`-th group as random access finds it -/
def groupGeoOf (bo : ByteOrder) (buf : List Nat) (gs : List Group) (lvl wbl k : Nat) (g : Group) : GroupGeo :=
  ⟨groupPos bo buf gs lvl wbl k, groupPos bo buf gs lvl wbl k + g.dim.size, endG bo buf g (groupPos bo buf gs lvl wbl k)⟩

/-- **cursor_step (groups)**: the first group of a level unconditionally, a
    later one when the cursor is at the end of the previous group — or, in a
    checked build, with the wrong position reported. -/
theorem stepGroup_spec (w : Wrapper) (gs : List Group) (k : Nat) (g : Group)
    (hin : Inside v.endp (groupPos bo buf gs v.lvl v.wbl k + g.dim.size))
    (hc : v.endp.isSome = true ∨ (needsPre w = true → k ≠ 0 → cur = some (groupPos bo buf gs v.lvl v.wbl k))) :
    stepGroup w bo v buf cur gs k g
      = toOut buf (specGroup (groupGeoOf bo buf gs v.lvl v.wbl k g) (k == 0) w cur) := by
  have hge := endG_ge bo buf g (groupPos bo buf gs v.lvl v.wbl k)
  cases k with
  | zero =>
    have h0 := groupPos_zero bo buf gs v.lvl v.wbl
    have hH : groupHeader v.endp g.dim (v.lvl + v.wbl) = .ok () := by
      unfold groupHeader; rw [h0] at hin; exact sizeCheck_of_inside _ _ _ _ _ hin (by omega)
    rw [h0] at hge
    have hspec : specGroup (groupGeoOf bo buf gs v.lvl v.wbl 0 g) ((0 : Nat) == 0) w cur
        = .ok (viewRes (v.lvl + v.wbl) w) (groupPost (groupGeoOf bo buf gs v.lvl v.wbl 0 g) true cur w) := by
      unfold specGroup; simp [groupGeoOf, h0]
    rw [hspec]
    cases w <;>
      simp [stepGroup, toOut, groupPost, viewRes, groupGeoOf, h0, C.get_first_group_view, I.get_first_group_view,
        IDM.get_first_group_view, DM.get_first_group_view, S.get_first_group_view, groupSizeBytes, LView.blockEnd,
        bind, Except.bind, hH] <;> omega
  | succ j =>
    simp only [stepGroup, groupGeoOf]
    generalize groupPos bo buf gs v.lvl v.wbl (j + 1) = start at *
    have hH : groupHeader v.endp g.dim start = .ok () := by
      unfold groupHeader; exact sizeCheck_of_inside _ _ _ _ _ hin (by omega)
    have hk : ((j + 1 == 0) = true) = False := by simp
    by_cases hleg : needsPre w = true ∧ cur ≠ some start
    · obtain ⟨hn, hne⟩ := hleg
      have hchk : v.endp.isSome = true := by
        rcases hc with h | h
        · exact h
        · exact absurd (h hn (by omega)) hne
      obtain ⟨e, he⟩ := Option.isSome_iff_exists.mp hchk
      have hspec : specGroup ⟨start, start + g.dim.size, endG bo buf g start⟩ ((j + 1) == 0) w cur = .reported := by
        unfold specGroup; simp [hn, hne]
      rw [hspec]
      have hat : atAddr cur start = false := by rw [atAddr_iff]; simp [hne]
      cases w <;> simp only [needsPre] at hn <;>
        simp [toOut, C.get_group_view, DM.get_group_view, S.get_group_view, bind, Except.bind, hat, he,
          assertCursor_false] <;> contradiction
    · have hspec : specGroup ⟨start, start + g.dim.size, endG bo buf g start⟩ ((j + 1) == 0) w cur
          = .ok (viewRes start w) (groupPost ⟨start, start + g.dim.size, endG bo buf g start⟩ false cur w) := by
        unfold specGroup
        have : ¬ (needsPre w = true ∧ ¬ (((j + 1) == 0) = true) ∧
            cur ≠ some (GroupGeo.mk start (start + g.dim.size) (endG bo buf g start)).start) := by
          intro ⟨h1, _, h3⟩; exact hleg ⟨h1, h3⟩
        rw [if_neg this]; simp
      rw [hspec]
      by_cases hn : needsPre w = true
      · have hcur : cur = some start := by
          by_cases h : cur = some start
          · exact h
          · exact absurd ⟨hn, h⟩ hleg
        subst hcur
        have hat : atAddr (some start) start = true := by rw [atAddr_iff]; simp
        cases w <;> simp only [needsPre] at hn <;>
          simp [toOut, groupPost, viewRes, C.get_group_view, DM.get_group_view, S.get_group_view,
            groupSizeBytes, bind, Except.bind, hat, assertCursor_true, deref, hH] <;> (try contradiction) <;> omega
      · cases w <;> simp only [needsPre] at hn <;>
          simp [toOut, groupPost, viewRes, I.get_group_view, IDM.get_group_view, bind, Except.bind, hH] <;>
          (try contradiction)

end group

theorem dataPos_first (bo : ByteOrder) (buf : List Nat) (l : Level) (pos wbl : Nat) (h : l.groups.isEmpty = true) :
    dataPos bo buf l pos wbl 0 = pos + wbl := by
  have : l.groups = [] := List.isEmpty_iff.mp h
  simp [dataPos, this, endGs, endDs]

section data
variable (bo : ByteOrder) (v : LView) (buf : List Nat) (cur : Option Nat)

/-- the geometry of the `k`-th data member as random access finds it -/
def dataGeoOf (bo : ByteOrder) (buf : List Nat) (l : Level) (lvl wbl k : Nat) (d : DataL) : DataGeo :=
  ⟨dataPos bo buf l lvl wbl k,
   dataPos bo buf l lvl wbl k + d.lenSize + rd bo buf (dataPos bo buf l lvl wbl k) d.lenSize⟩

/-- **cursor_step (data)** -/
theorem stepData_spec (w : Wrapper) (l : Level) (k : Nat) (d : DataL)
    (hin : Inside v.endp (dataPos bo buf l v.lvl v.wbl k + d.lenSize))
    (hc : v.endp.isSome = true ∨
      (needsPre w = true → ¬ (k = 0 ∧ l.groups.isEmpty = true) → cur = some (dataPos bo buf l v.lvl v.wbl k))) :
    stepData w bo v buf cur l k d
      = toOut buf (specData (dataGeoOf bo buf l v.lvl v.wbl k d) (k == 0 && l.groups.isEmpty) w cur) := by
  by_cases hfirst : k = 0 ∧ l.groups.isEmpty = true
  · obtain ⟨hk, hg⟩ := hfirst
    subst hk
    have h0 := dataPos_first bo buf l v.lvl v.wbl hg
    have hS : sizeCheck v.endp (some (v.lvl + v.wbl)) 0 d.lenSize = .ok () := by
      rw [h0] at hin; exact sizeCheck_of_inside _ _ _ _ _ hin (by omega)
    have hspec : specData (dataGeoOf bo buf l v.lvl v.wbl 0 d) ((0 : Nat) == 0 && l.groups.isEmpty) w cur
        = .ok (viewRes (v.lvl + v.wbl) w) (dataPost (dataGeoOf bo buf l v.lvl v.wbl 0 d) true cur w) := by
      unfold specData; simp [dataGeoOf, h0, hg]
    rw [hspec]
    cases w <;>
      simp [stepData, hg, toOut, dataPost, viewRes, dataGeoOf, h0, C.get_first_data_view, I.get_first_data_view,
        IDM.get_first_data_view, DM.get_first_data_view, S.get_first_data_view, dataSizeBytes, LView.blockEnd,
        bind, Except.bind, hS] <;> omega
  · have hb : (k == 0 && l.groups.isEmpty) = false := by
      cases hk : (k == 0) <;> cases hg : l.groups.isEmpty <;> simp_all
    have hif : ¬ (k = 0 ∧ l.groups.isEmpty = true) := hfirst
    simp only [stepData, dataGeoOf, hb, if_neg hif]
    generalize dataPos bo buf l v.lvl v.wbl k = start at *
    have hS : sizeCheck v.endp (some start) 0 d.lenSize = .ok () :=
      sizeCheck_of_inside _ _ _ _ _ hin (by omega)
    by_cases hleg : needsPre w = true ∧ cur ≠ some start
    · obtain ⟨hn, hne⟩ := hleg
      have hchk : v.endp.isSome = true := by
        rcases hc with h | h
        · exact h
        · exact absurd (h hn hfirst) hne
      obtain ⟨e, he⟩ := Option.isSome_iff_exists.mp hchk
      have hspec : specData ⟨start, start + d.lenSize + rd bo buf start d.lenSize⟩ false w cur = .reported := by
        unfold specData; simp [hn, hne]
      rw [hspec]
      have hat : atAddr cur start = false := by rw [atAddr_iff]; simp [hne]
      cases w <;> simp only [needsPre] at hn <;>
        simp [toOut, C.get_data_view, DM.get_data_view, S.get_data_view, bind, Except.bind, hat, he,
          assertCursor_false] <;> contradiction
    · have hspec : specData ⟨start, start + d.lenSize + rd bo buf start d.lenSize⟩ false w cur
          = .ok (viewRes start w) (dataPost ⟨start, start + d.lenSize + rd bo buf start d.lenSize⟩ false cur w) := by
        unfold specData
        have : ¬ (needsPre w = true ∧ ¬ (false = true) ∧
            cur ≠ some (DataGeo.mk start (start + d.lenSize + rd bo buf start d.lenSize)).start) := by
          intro ⟨h1, _, h3⟩; exact hleg ⟨h1, h3⟩
        rw [if_neg this]
      rw [hspec]
      by_cases hn : needsPre w = true
      · have hcur : cur = some start := by
          by_cases h : cur = some start
          · exact h
          · exact absurd ⟨hn, h⟩ hleg
        subst hcur
        have hat : atAddr (some start) start = true := by rw [atAddr_iff]; simp
        cases w <;> simp only [needsPre] at hn <;>
          simp [toOut, dataPost, viewRes, C.get_data_view, DM.get_data_view, S.get_data_view,
            dataSizeBytes, bind, Except.bind, hat, assertCursor_true, deref, hS] <;> (try contradiction) <;> omega
      · cases w <;> simp only [needsPre] at hn <;>
          simp [toOut, dataPost, viewRes, I.get_data_view, IDM.get_data_view, dataSizeBytes, bind, Except.bind, hS] <;>
          (try contradiction) <;> omega

end data

/-! ## C. complete traversal -/

/-- the accessors generated for the spans from `pe` on -/
def accsOf (hdr : Nat) : Nat → List FieldSpan → List Acc
  | _, [] => []
  | pe, s :: rest => accOf hdr pe s rest.isEmpty :: accsOf hdr (s.off + s.size) rest

theorem mkAccs_expected (hdr : Nat) (sp : List FieldSpan) :
    ∀ pe, mkAccs sp (expectedOffs hdr pe sp) = accsOf hdr pe sp := by
  induction sp with
  | nil => intro pe; rfl
  | cons s rest ih => intro pe; simp [expectedOffs, mkAccs, accsOf, accOf, ih]

theorem accsOf_isEmpty (hdr pe : Nat) (sp : List FieldSpan) : (accsOf hdr pe sp).isEmpty = sp.isEmpty := by
  cases sp <;> simp [accsOf]

/-- plain step on a field at its required position -/
theorem stepField_plain (v : LView) (buf : List Nat) (hdr pe : Nat) (s : FieldSpan) (last : Bool)
    (hv : v.lvl = v.addr + hdr) (hpe : pe ≤ s.off) (hin : Inside v.endp (v.lvl + s.off + s.size)) :
    ∃ res, stepField .plain v buf (some (v.lvl + pe)) (accOf hdr pe s last)
      = .ok ⟨res, some (if last then v.blockEnd else v.lvl + s.off + s.size), buf⟩ := by
  rw [stepField_spec v buf (some (v.lvl + pe)) hdr pe s last .plain hv hpe hin (Or.inr (fun _ => rfl))]
  refine ⟨fieldRes (geoOf v.lvl pe s buf) .plain, ?_⟩
  simp [specField, geoOf, toOut, fieldPost]

/-- all fields of a level in order: the cursor ends at the end of the block -/
theorem travFields_end (v : LView) (buf : List Nat) (hdr : Nat) (hv : v.lvl = v.addr + hdr) :
    ∀ (sp : List FieldSpan) (pe : Nat), SpansOrdered pe sp → sp ≠ [] →
      (∀ s ∈ sp, Inside v.endp (v.lvl + s.off + s.size)) →
      travFields v buf (accsOf hdr pe sp) (some (v.lvl + pe)) = .ok (some v.blockEnd) := by
  intro sp
  induction sp with
  | nil => intro pe _ h; exact absurd rfl h
  | cons s rest ih =>
    intro pe hord _ hin
    obtain ⟨hpe, hrest⟩ := hord
    obtain ⟨res, hstep⟩ := stepField_plain v buf hdr pe s rest.isEmpty hv hpe (hin s (by simp))
    simp only [accsOf, travFields, hstep]
    cases rest with
    | nil => simp [accsOf, travFields]
    | cons t rest' =>
      simp only [List.isEmpty_cons, Bool.false_eq_true, if_false]
      have := ih (s.off + s.size) hrest (by simp) (fun x hx => hin x (by simp [hx]))
      rw [Nat.add_assoc]; exact this

theorem endDs_append (bo : ByteOrder) (buf : List Nat) (a b : List DataL) :
    ∀ p, endDs bo buf (a ++ b) p = endDs bo buf b (endDs bo buf a p) := by
  induction a with
  | nil => intro p; rfl
  | cons d a ih => intro p; simp only [List.cons_append, endDs]; exact ih _

theorem endGs_append (bo : ByteOrder) (buf : List Nat) (a b : List Group) :
    ∀ p, endGs bo buf (a ++ b) p = endGs bo buf b (endGs bo buf a p) := by
  induction a with
  | nil => intro p; simp [endGs]
  | cons g a ih => intro p; simp only [List.cons_append, endGs]; exact ih _

/-- plain step on a data member at its required position -/
theorem stepData_plain (bo : ByteOrder) (v : LView) (buf : List Nat) (l : Level) (k : Nat) (d : DataL)
    (hin : Inside v.endp (dataPos bo buf l v.lvl v.wbl k + d.lenSize)) :
    stepData .plain bo v buf (some (dataPos bo buf l v.lvl v.wbl k)) l k d
      = .ok ⟨.view (dataPos bo buf l v.lvl v.wbl k),
             some (dataPos bo buf l v.lvl v.wbl k + d.lenSize + rd bo buf (dataPos bo buf l v.lvl v.wbl k) d.lenSize),
             buf⟩ := by
  rw [stepData_spec bo v buf _ .plain l k d hin (Or.inr (fun _ _ => rfl))]
  simp [specData, dataGeoOf, toOut, dataPost, viewRes]

/-- all data members of a level in order, starting where the groups end -/
theorem travDs_end (bo : ByteOrder) (v : LView) (buf : List Nat) (l : Level) :
    ∀ (rest done : List DataL), l.datas = done ++ rest →
      Inside v.endp (endDs bo buf rest (endDs bo buf done (endGs bo buf l.groups (v.lvl + v.wbl)))) →
      travDs bo v buf l rest done.length (some (endDs bo buf done (endGs bo buf l.groups (v.lvl + v.wbl))))
        = .ok (some (endDs bo buf rest (endDs bo buf done (endGs bo buf l.groups (v.lvl + v.wbl))))) := by
  intro rest
  induction rest with
  | nil => intro done _ _; simp [travDs, endDs]
  | cons d rest ih =>
    intro done hl hin
    have hpos : dataPos bo buf l v.lvl v.wbl done.length
        = endDs bo buf done (endGs bo buf l.groups (v.lvl + v.wbl)) := by
      simp [dataPos, hl]
    have hge := endDs_ge bo buf rest
      (endDs bo buf done (endGs bo buf l.groups (v.lvl + v.wbl)) + d.lenSize
        + rd bo buf (endDs bo buf done (endGs bo buf l.groups (v.lvl + v.wbl))) d.lenSize)
    have hin1 : Inside v.endp (dataPos bo buf l v.lvl v.wbl done.length + d.lenSize) := by
      intro e he
      have := hin e he
      simp only [endDs] at this
      rw [hpos]; omega
    have hstep := stepData_plain bo v buf l done.length d hin1
    rw [hpos] at hstep
    simp only [travDs, hstep]
    have hl' : l.datas = (done ++ [d]) ++ rest := by simp [hl]
    have := ih (done ++ [d]) hl' (by simpa [endDs_append, endDs] using hin)
    simpa [endDs_append, endDs] using this

theorem iter_add {α : Type} (f : α → α) : ∀ (a b : Nat) (q : α), iter f (a + b) q = iter f b (iter f a q) := by
  intro a
  induction a with
  | zero => intro b q; simp [iter]
  | succ a ih => intro b q; rw [Nat.succ_add]; simp only [iter]; exact ih b (f q)

theorem iter_le_iter (f : Nat → Nat) (hf : ∀ q, q ≤ f q) (i n q : Nat) (h : i ≤ n) : iter f i q ≤ iter f n q := by
  obtain ⟨d, rfl⟩ := Nat.exists_eq_add_of_le h
  rw [iter_add]; exact iter_ge f hf d _

theorem iter_succ' {α : Type} (f : α → α) (n : Nat) (q : α) : iter f (n + 1) q = f (iter f n q) := by
  rw [iter_add f n 1 q]; rfl

/-- a loop whose `i`-th body maps position `iter f i q` to the next one -/
theorem iterE_end (F : Option Nat → Out (Option Nat)) (f : Nat → Nat) :
    ∀ (n q : Nat), (∀ i, i < n → F (some (iter f i q)) = .ok (some (f (iter f i q)))) →
      iterE F n (some q) = .ok (some (iter f n q)) := by
  intro n
  induction n with
  | zero => intro q _; rfl
  | succ n ih =>
    intro q h
    have h0 := h 0 (by omega)
    simp only [iter] at h0
    simp only [iterE, h0, iter]
    exact ih (f q) (fun i hi => by have := h (i + 1) (by omega); simpa [iter] using this)

/-- plain step on a group at its required position -/
theorem stepGroup_plain (bo : ByteOrder) (v : LView) (buf : List Nat) (gs : List Group) (k : Nat) (g : Group)
    (hin : Inside v.endp (groupPos bo buf gs v.lvl v.wbl k + g.dim.size)) :
    stepGroup .plain bo v buf (some (groupPos bo buf gs v.lvl v.wbl k)) gs k g
      = .ok ⟨.view (groupPos bo buf gs v.lvl v.wbl k), some (groupPos bo buf gs v.lvl v.wbl k + g.dim.size), buf⟩ := by
  rw [stepGroup_spec bo v buf _ .plain gs k g hin (Or.inr (fun _ _ => rfl))]
  simp [specGroup, groupGeoOf, toOut, groupPost, viewRes]

/-- the first variable-length member ignores the incoming cursor -/
theorem stepGroup_first_indep (bo : ByteOrder) (v : LView) (buf : List Nat) (gs : List Group) (g : Group)
    (c c' : Option Nat) : stepGroup .plain bo v buf c gs 0 g = stepGroup .plain bo v buf c' gs 0 g := rfl

theorem stepData_first_indep (bo : ByteOrder) (v : LView) (buf : List Nat) (l : Level) (d : DataL)
    (h : l.groups.isEmpty = true) (c c' : Option Nat) :
    stepData .plain bo v buf c l 0 d = stepData .plain bo v buf c' l 0 d := by
  simp [stepData, h, C.get_first_data_view]

/-! what makes a generated level tree well formed: the accessors are the ones
    `compileLevel` produces for ordered spans inside the block, and the
    empty-entry constructor exists exactly for levels without members -/
mutual
  def GoodL (hdr : Nat) : GLevel → Prop
    | .mk accs ec bl _ gs ds =>
      (∃ sp : List FieldSpan, Gen.SpansOrdered 0 sp ∧ (∀ s ∈ sp, s.off + s.size ≤ bl) ∧ accs = accsOf hdr 0 sp)
        ∧ ec = (accs.isEmpty && gs.isEmpty && ds.isEmpty) ∧ GoodGs gs
  def GoodGs : List GGroup → Prop
    | [] => True
    | g :: gs => GoodG g ∧ GoodGs gs
  def GoodG : GGroup → Prop
    | .mk _ l => GoodL 0 l
end

/-! every level the walk visits has a wire block length ≥ the compiled one
    (the documented condition for reading a message of a newer schema version) -/
mutual
  def FitL (bo : ByteOrder) (buf : List Nat) : GLevel → Nat → Nat → Prop
    | .mk _ _ bl _ gs _, lvl, wbl => bl ≤ wbl ∧ FitGs bo buf gs (lvl + wbl)
  def FitGs (bo : ByteOrder) (buf : List Nat) : List GGroup → Nat → Prop
    | [], _ => True
    | g :: gs, p => FitG bo buf g p ∧ FitGs bo buf gs (endG bo buf g.erase p)
  def FitG (bo : ByteOrder) (buf : List Nat) : GGroup → Nat → Prop
    | .mk dim l, p =>
      ∀ i, i < rd bo buf (p + dim.numOff) dim.numSize →
        FitL bo buf l (iter (fun q => endL bo buf l.erase q (rd bo buf (p + dim.blOff) dim.blSize)) i (p + dim.size))
          (rd bo buf (p + dim.blOff) dim.blSize)
end

theorem inside_mono {endp : Option Nat} {a b : Nat} (h : Inside endp b) (hab : a ≤ b) : Inside endp a :=
  fun e he => Nat.le_trans hab (h e he)

theorem derefEntry_ok (ec : Bool) (endp : Option Nat) (q bl : Nat) (hin : Inside endp (q + bl)) :
    derefEntry ec endp (some q) bl = .ok (⟨q, q, bl, endp⟩, some (if ec then q + bl else q)) := by
  unfold derefEntry
  cases ec with
  | false => simp
  | true => simp [sizeCheck_of_inside endp q 0 bl (q + bl) hin (by omega)]

theorem cursorRange_ok (bo : ByteOrder) (buf : List Nat) (endp : Option Nat) (dim : Dim) (p : Nat)
    (hin : Inside endp (p + dim.size)) :
    cursorRange bo buf endp dim p = .ok ⟨rd bo buf (p + dim.blOff) dim.blSize, 0, rd bo buf (p + dim.numOff) dim.numSize⟩ := by
  unfold cursorRange groupHeader
  simp [bind, Except.bind, sizeCheck_of_inside endp p 0 dim.size (p + dim.size) hin (by omega)]

mutual
  /-- **cursor_traversal_end**, buffer form: a complete in-order traversal of a
      level with the plain cursor ends where the random-access `size_bytes`
      walk (`endL`) ends -/
  theorem travL_end (bo : ByteOrder) (buf : List Nat) (G : GLevel) (hdr : Nat) (v : LView) (cur : Option Nat)
      (hg : GoodL hdr G) (hv : v.lvl = v.addr + hdr) (hf : FitL bo buf G v.lvl v.wbl)
      (hin : Inside v.endp (endL bo buf G.erase v.lvl v.wbl))
      (hcur : cur = some (if G.emptyCtor then v.lvl + v.wbl else v.lvl)) :
      travL bo buf G v cur = .ok (some (endL bo buf G.erase v.lvl v.wbl)) := by
    match G with
    | .mk accs ec bl lv gs ds =>
      obtain ⟨⟨sp, hord, hblk, haccs⟩, hec, hgs⟩ := hg
      obtain ⟨hbl, hfgs⟩ := hf
      simp only [GLevel.emptyCtor] at hcur
      simp only [GLevel.erase, endL] at hin ⊢
      have hgeD := endDs_ge bo buf ds (endGs bo buf (eraseGGs gs) (v.lvl + v.wbl))
      have hgeG := endGs_ge bo buf (eraseGGs gs) (v.lvl + v.wbl)
      -- groups then data, from the block end
      have hrest : ∀ c1 : Option Nat, c1 = some (v.lvl + v.wbl) →
          (match travGs bo buf (eraseGGs gs) gs 0 v c1 with
           | Except.error e => Except.error e
           | Except.ok c2 => travDs bo v buf (GLevel.mk accs ec bl lv gs ds).erase ds 0 c2)
            = .ok (some (endDs bo buf ds (endGs bo buf (eraseGGs gs) (v.lvl + v.wbl)))) := by
        intro c1 hc1
        subst hc1
        have h1 := travGs_end bo buf (eraseGGs gs) gs [] v (by simp) hgs (by simpa [endGs] using hfgs)
          (by simpa [endGs] using inside_mono hin hgeD)
        simp only [List.length_nil, endGs] at h1
        rw [h1]
        have h2 := travDs_end bo v buf (GLevel.mk accs ec bl lv gs ds).erase ds [] (by simp [GLevel.erase, Level.datas])
          (by simpa [GLevel.erase, Level.groups, endDs] using hin)
        simpa [GLevel.erase, Level.groups, endDs] using h2
      cases sp with
      | nil =>
        -- no cursor accessor for fields
        simp only [accsOf] at haccs
        subst haccs
        simp only [travL, travFields]
        simp only [List.isEmpty_nil, Bool.true_and] at hec
        cases gs with
        | cons g gs' =>
          -- the first group initializes the cursor itself
          have : travGs bo buf (eraseGGs (g :: gs')) (g :: gs') 0 v cur
              = travGs bo buf (eraseGGs (g :: gs')) (g :: gs') 0 v (some (v.lvl + v.wbl)) := by
            match g with
            | .mk dim l => simp only [travGs, travG, stepGroup_first_indep bo v buf _ _ cur (some (v.lvl + v.wbl))]
          rw [this]
          exact hrest _ rfl
        | nil =>
          cases ds with
          | cons d ds' =>
            have h0 := hrest (some (v.lvl + v.wbl)) rfl
            simp only [travGs] at h0 ⊢
            have hgi : (GLevel.mk [] ec bl lv [] (d :: ds')).erase.groups.isEmpty = true := by
              simp [GLevel.erase, eraseGGs, Level.groups]
            simp only [travDs, stepData_first_indep bo v buf _ d hgi cur (some (v.lvl + v.wbl))] at h0 ⊢
            exact h0
          | nil =>
            simp only [List.isEmpty_nil, Bool.and_self] at hec
            subst hec
            simp only [if_true] at hcur
            exact hrest cur hcur
      | cons s0 sp' =>
        have hne : ec = false := by rw [hec, haccs]; simp [accsOf]
        subst hne
        simp at hcur
        have hfields := travFields_end v buf hdr hv (s0 :: sp') 0 hord (by simp)
          (fun s hs => by
            have := hblk s hs
            exact inside_mono hin (by omega))
        simp only [Nat.add_zero] at hfields
        subst hcur
        simp only [travL, haccs, hfields]
        exact hrest _ (by simp [LView.blockEnd])
  theorem travGs_end (bo : ByteOrder) (buf : List Nat) (all : List Group) (rest : List GGroup) (done : List Group)
      (v : LView) (hall : all = done ++ eraseGGs rest) (hg : GoodGs rest)
      (hf : FitGs bo buf rest (endGs bo buf done (v.lvl + v.wbl)))
      (hin : Inside v.endp (endGs bo buf (eraseGGs rest) (endGs bo buf done (v.lvl + v.wbl)))) :
      travGs bo buf all rest done.length v (some (endGs bo buf done (v.lvl + v.wbl)))
        = .ok (some (endGs bo buf (eraseGGs rest) (endGs bo buf done (v.lvl + v.wbl)))) := by
    match rest with
    | [] => simp [travGs, eraseGGs, endGs]
    | g :: rest' =>
      obtain ⟨hg1, hg2⟩ := hg
      obtain ⟨hf1, hf2⟩ := hf
      simp only [eraseGGs, endGs] at hin ⊢
      have hge := endGs_ge bo buf (eraseGGs rest') (endG bo buf g.erase (endGs bo buf done (v.lvl + v.wbl)))
      have h1 := travG_end bo buf all g done (eraseGGs rest') v (by simpa [eraseGGs] using hall) hg1 hf1
        (inside_mono hin hge)
      simp only [travGs, h1]
      have h2 := travGs_end bo buf all rest' (done ++ [g.erase]) v (by simp [hall, eraseGGs]) hg2
        (by simpa [endGs_append, endGs] using hf2) (by simpa [endGs_append, endGs] using hin)
      simpa [endGs_append, endGs] using h2
  theorem travG_end (bo : ByteOrder) (buf : List Nat) (all : List Group) (g : GGroup) (done more : List Group)
      (v : LView) (hall : all = done ++ g.erase :: more) (hg : GoodG g)
      (hf : FitG bo buf g (endGs bo buf done (v.lvl + v.wbl)))
      (hin : Inside v.endp (endG bo buf g.erase (endGs bo buf done (v.lvl + v.wbl)))) :
      travG bo buf all g done.length v (some (endGs bo buf done (v.lvl + v.wbl)))
        = .ok (some (endG bo buf g.erase (endGs bo buf done (v.lvl + v.wbl)))) := by
    match g with
    | .mk dim l =>
      have hpos : groupPos bo buf all v.lvl v.wbl done.length = endGs bo buf done (v.lvl + v.wbl) := by
        simp [groupPos, hall]
      generalize hstart : endGs bo buf done (v.lvl + v.wbl) = start at *
      have hge := endG_ge bo buf (GGroup.mk dim l).erase start
      simp only [GGroup.erase, Group.dim] at hge hin ⊢
      have hinH : Inside v.endp (start + dim.size) := inside_mono hin hge
      have hstep := stepGroup_plain bo v buf all done.length (.mk dim l.erase) (by rw [hpos]; exact hinH)
      rw [hpos] at hstep
      simp only [Group.dim] at hstep
      simp only [travG, hstep, cursorRange_ok bo buf v.endp dim start hinH]
      simp only [endG] at hin ⊢
      simp only [FitG] at hf
      generalize hbl : rd bo buf (start + dim.blOff) dim.blSize = wbl' at *
      generalize hn : rd bo buf (start + dim.numOff) dim.numSize = n at *
      have hmono : ∀ q, q ≤ endL bo buf l.erase q wbl' := fun q => Nat.le_trans (by omega) (endL_ge bo buf l.erase q wbl')
      apply iterE_end _ (fun q => endL bo buf l.erase q wbl') n (start + dim.size)
      intro i hi
      generalize hq : iter (fun q => endL bo buf l.erase q wbl') i (start + dim.size) = q
      have hnext : endL bo buf l.erase q wbl' ≤ iter (fun q => endL bo buf l.erase q wbl') n (start + dim.size) := by
        have := iter_le_iter _ hmono (i + 1) n (start + dim.size) (by omega)
        rw [iter_succ', hq] at this; exact this
      have hinE : Inside v.endp (endL bo buf l.erase q wbl') := inside_mono hin hnext
      have hd := derefEntry_ok l.emptyCtor v.endp q wbl' (inside_mono hinE (endL_ge bo buf l.erase q wbl'))
      simp only [hd]
      have hfi := hf i (by omega)
      rw [hq] at hfi
      exact travL_end bo buf l 0 ⟨q, q, wbl', v.endp⟩ _ hg rfl hfi hinE rfl
end

/-! ### a well-formed image satisfies `FitL` -/
mutual
  theorem fitL_of_conf (bo : ByteOrder) (G : GLevel) (val : LVal) (wbl : Nat) (buf pre post : List Nat)
      (hc : ConfL bo G.erase val wbl) (hbuf : buf = pre ++ flattenL bo G.erase val ++ post) :
      FitL bo buf G pre.length wbl := by
    match G, val with
    | .mk accs ec bl lv gs ds, .mk block gvs dvs =>
      simp only [GLevel.erase, ConfL] at hc
      obtain ⟨hblk, hle, hgs, hds⟩ := hc
      refine ⟨hle, ?_⟩
      have hb1 : buf = (pre ++ block) ++ flattenGs bo (eraseGGs gs) gvs ++ (flattenDs bo ds dvs ++ post) := by
        rw [hbuf]; simp [GLevel.erase, flattenL, List.append_assoc]
      have := fitGs_of_conf bo gs gvs buf (pre ++ block) _ hgs hb1
      simpa [List.length_append, hblk] using this
  theorem fitGs_of_conf (bo : ByteOrder) (gs : List GGroup) (gvs : List GVal) (buf pre post : List Nat)
      (hc : ConfGs bo (eraseGGs gs) gvs) (hbuf : buf = pre ++ flattenGs bo (eraseGGs gs) gvs ++ post) :
      FitGs bo buf gs pre.length := by
    match gs, gvs with
    | [], _ => trivial
    | _ :: _, [] => simp [eraseGGs, ConfGs] at hc
    | g :: gs, v :: vs =>
      simp only [eraseGGs, ConfGs] at hc
      obtain ⟨hg, hrest⟩ := hc
      have hb1 : buf = pre ++ flattenG bo g.erase v ++ (flattenGs bo (eraseGGs gs) vs ++ post) := by
        rw [hbuf]; simp [eraseGGs, flattenGs, List.append_assoc]
      refine ⟨fitG_of_conf bo g v buf pre _ hg hb1, ?_⟩
      rw [endG_spec bo g.erase v buf pre _ hg hb1]
      have hb2 : buf = (pre ++ flattenG bo g.erase v) ++ flattenGs bo (eraseGGs gs) vs ++ post := by
        rw [hbuf]; simp [eraseGGs, flattenGs, List.append_assoc]
      have := fitGs_of_conf bo gs vs buf (pre ++ flattenG bo g.erase v) post hrest hb2
      simpa [List.length_append] using this
  theorem fitG_of_conf (bo : ByteOrder) (g : GGroup) (v : GVal) (buf pre post : List Nat)
      (hc : ConfG bo g.erase v) (hbuf : buf = pre ++ flattenG bo g.erase v ++ post) :
      FitG bo buf g pre.length := by
    match g, v with
    | .mk dim l, .mk hdr es =>
      simp only [GGroup.erase, ConfG] at hc
      obtain ⟨hlen, hbl, hnum, hn, hes⟩ := hc
      simp only [FitG]
      have hb1 : buf = pre ++ hdr ++ (flattenEs bo l.erase es ++ post) := by
        rw [hbuf]; simp [GGroup.erase, flattenG, List.append_assoc]
      have hrn : rd bo buf (pre.length + dim.numOff) dim.numSize = es.length := by
        rw [hb1, rd_mid bo pre hdr _ dim.numOff dim.numSize (by omega), hn]
      have hrb : rd bo buf (pre.length + dim.blOff) dim.blSize = get bo (slice hdr dim.blOff dim.blSize) := by
        rw [hb1, rd_mid bo pre hdr _ dim.blOff dim.blSize (by omega)]
      rw [hrn, hrb]
      intro i hi
      have hb2 : buf = (pre ++ hdr) ++ flattenEs bo l.erase es ++ post := by
        rw [hbuf]; simp [GGroup.erase, flattenG, List.append_assoc]
      have := fitEs_of_conf bo l es _ buf (pre ++ hdr) post hes hb2 i hi
      simpa [List.length_append, hlen] using this
  theorem fitEs_of_conf (bo : ByteOrder) (l : GLevel) (es : List LVal) (wbl : Nat) (buf pre post : List Nat)
      (hc : ConfEs bo l.erase es wbl) (hbuf : buf = pre ++ flattenEs bo l.erase es ++ post) :
      ∀ i, i < es.length → FitL bo buf l (iter (fun q => endL bo buf l.erase q wbl) i pre.length) wbl := by
    match es with
    | [] => intro i hi; simp at hi
    | e :: es =>
      obtain ⟨he, hrest⟩ := hc
      have hb1 : buf = pre ++ flattenL bo l.erase e ++ (flattenEs bo l.erase es ++ post) := by
        rw [hbuf]; simp [flattenEs, List.append_assoc]
      intro i hi
      cases i with
      | zero => simp only [iter]; exact fitL_of_conf bo l e wbl buf pre _ he hb1
      | succ j =>
        simp only [iter]
        rw [endL_spec bo l.erase e wbl buf pre _ he hb1]
        have hb2 : buf = (pre ++ flattenL bo l.erase e) ++ flattenEs bo l.erase es ++ post := by
          rw [hbuf]; simp [flattenEs, List.append_assoc]
        have := fitEs_of_conf bo l es wbl buf (pre ++ flattenL bo l.erase e) post hrest hb2 j
          (by simp only [List.length_cons] at hi; omega)
        simpa [List.length_append] using this
end

/-! ### what `compileLevel` produces is `GoodL`, and it never throws on a valid tree -/

theorem eraseDatas_isEmpty (ds : List Schema.NData) : (eraseDatas ds).isEmpty = ds.isEmpty := by
  cases ds <;> simp [eraseDatas]

mutual
  theorem compileLevel_good (C : CLevel) (hv : ValidC C) :
      ∃ G, compileLevel C = .ok G ∧ GoodL C.hdr G ∧ G.erase = C.erase ∧ G.emptyCtor = C.hasEmptyCtor := by
    match C with
    | .mk hdr bl sp nd gs ds =>
      obtain ⟨hsp, hblk, hgs⟩ := hv
      obtain ⟨ggs, hc, hgood, her⟩ := compileGroups_good gs hgs
      have hoffs := cursorFold_expected hdr sp 0 hsp
      refine ⟨GLevel.mk (mkAccs sp (expectedOffs hdr 0 sp)) (sp.isEmpty && gs.isEmpty && ds.isEmpty) bl
        ((sp.flatMap (·.leaves)).map Schema.NLeaf.leaf) ggs (eraseDatas ds), ?_, ?_, ?_, rfl⟩
      · simp only [compileLevel, cursorOffsets, hoffs, hc]
      · refine ⟨⟨sp, spansFrom_ordered sp 0 hsp, hblk, mkAccs_expected hdr sp 0⟩, ?_, hgood⟩
        rw [mkAccs_expected, accsOf_isEmpty, eraseDatas_isEmpty]
        have : ggs.isEmpty = gs.isEmpty := by
          have hl : (eraseGGs ggs).length = (eraseCGs gs).length := by rw [her]
          cases ggs <;> cases gs <;> simp_all [eraseGGs, eraseCGs]
        rw [this]
      · simp only [GLevel.erase, CLevel.erase, her]
  theorem compileGroups_good (gs : List CGroup) (hv : ValidCGs gs) :
      ∃ ggs, compileGroups gs = .ok ggs ∧ GoodGs ggs ∧ eraseGGs ggs = eraseCGs gs := by
    match gs with
    | [] => exact ⟨[], rfl, trivial, rfl⟩
    | g :: rest =>
      obtain ⟨hg, hrest⟩ := hv
      obtain ⟨gg, h1, g1, e1⟩ := compileGroup_good g hg
      obtain ⟨ggs, h2, g2, e2⟩ := compileGroups_good rest hrest
      exact ⟨gg :: ggs, by simp only [compileGroups, h1, h2], ⟨g1, g2⟩, by simp only [eraseGGs, eraseCGs, e1, e2]⟩
  theorem compileGroup_good (g : CGroup) (hv : ValidCG g) :
      ∃ gg, compileGroup g = .ok gg ∧ GoodG gg ∧ gg.erase = g.erase := by
    match g with
    | .mk name dim l =>
      obtain ⟨hh, hl⟩ := hv
      obtain ⟨G, hc, hgood, her, _⟩ := compileLevel_good l hl
      refine ⟨.mk dim.dim G, by simp only [compileGroup, hc], ?_, by simp only [GGroup.erase, CGroup.erase, her]⟩
      simp only [GoodG]
      rw [← hh]; exact hgood
end

/-! ### the per-member statements, read through `geoWalk` and member indices -/

theorem fieldGeos_length (lvl : Nat) (bytesAt : Nat → Nat → List Nat) (sp : List FieldSpan) :
    ∀ pe, (fieldGeos lvl bytesAt pe sp).length = sp.length := by
  induction sp with
  | nil => intro; rfl
  | cons s rest ih => intro pe; simp [fieldGeos, ih]

/-- the `i`-th accessor and the `i`-th field geometry belong to the same span and
    the same predecessor end -/
theorem field_index (hdr lvl : Nat) (buf : List Nat) (sp : List FieldSpan) :
    ∀ (pe i : Nat) (a : Acc), Gen.SpansOrdered pe sp → (accsOf hdr pe sp)[i]? = some a →
      ∃ pe' s, pe' ≤ s.off ∧ s ∈ sp ∧ a = accOf hdr pe' s (i + 1 == sp.length) ∧
        (fieldGeos lvl (fun p n => slice buf p n) pe sp)[i]? = some (geoOf lvl pe' s buf) := by
  induction sp with
  | nil => intro pe i a _ h; simp [accsOf] at h
  | cons s rest ih =>
    intro pe i a hord h
    obtain ⟨hpe, hrest⟩ := hord
    cases i with
    | zero =>
      simp only [accsOf, List.getElem?_cons_zero, Option.some.injEq] at h
      refine ⟨pe, s, hpe, by simp, ?_, by simp [fieldGeos, geoOf]⟩
      rw [← h]
      cases rest <;> simp [accOf]
    | succ j =>
      simp only [accsOf, List.getElem?_cons_succ] at h
      obtain ⟨pe', t, h1, h2, h3, h4⟩ := ih (s.off + s.size) j a hrest h
      refine ⟨pe', t, h1, by simp [h2], ?_, by simpa [fieldGeos] using h4⟩
      rw [h3]; simp

theorem groupGeosWalk_get (bo : ByteOrder) (buf : List Nat) (gs : List Group) :
    ∀ (p k : Nat) (g : Group), gs[k]? = some g →
      (groupGeosWalk bo buf gs p)[k]?
        = some ⟨endGs bo buf (gs.take k) p, endGs bo buf (gs.take k) p + g.dim.size,
                endG bo buf g (endGs bo buf (gs.take k) p)⟩ := by
  induction gs with
  | nil => intro p k g h; simp at h
  | cons g0 rest ih =>
    intro p k g h
    cases k with
    | zero =>
      simp only [List.getElem?_cons_zero, Option.some.injEq] at h
      subst h
      simp [groupGeosWalk, endGs]
    | succ j =>
      simp only [List.getElem?_cons_succ] at h
      simpa [groupGeosWalk, endGs] using ih (endG bo buf g0 p) j g h

theorem dataGeosWalk_get (bo : ByteOrder) (buf : List Nat) (ds : List DataL) :
    ∀ (p k : Nat) (d : DataL), ds[k]? = some d →
      (dataGeosWalk bo buf ds p)[k]?
        = some ⟨endDs bo buf (ds.take k) p,
                endDs bo buf (ds.take k) p + d.lenSize + rd bo buf (endDs bo buf (ds.take k) p) d.lenSize⟩ := by
  induction ds with
  | nil => intro p k d h; simp at h
  | cons d0 rest ih =>
    intro p k d h
    cases k with
    | zero =>
      simp only [List.getElem?_cons_zero, Option.some.injEq] at h
      subst h
      simp [dataGeosWalk, endDs]
    | succ j =>
      simp only [List.getElem?_cons_succ] at h
      simpa [dataGeosWalk, endDs] using ih _ j d h

theorem groupGeosWalk_isEmpty (bo : ByteOrder) (buf : List Nat) (gs : List Group) (p : Nat) :
    (groupGeosWalk bo buf gs p).isEmpty = gs.isEmpty := by
  cases gs <;> simp [groupGeosWalk]

/-- **cursor_step** in its general form: for every member of a level, addressed
    by index, every way of passing the cursor and every cursor value, a checked
    build does exactly what the documented protocol says over the geometry the
    random-access accessors compute (`geoWalk`) -/
theorem step_eq_protocol (bo : ByteOrder) (v : LView) (buf : List Nat) (cur : Option Nat) (w : Wrapper)
    (hdr : Nat) (sp : List FieldSpan) (bl : Nat) (lv : List Leaf) (gs : List Group) (ds : List DataL)
    (hv : v.lvl = v.addr + hdr) (hord : Gen.SpansOrdered 0 sp) (hchk : v.endp.isSome = true) :
    (∀ i a, (accsOf hdr 0 sp)[i]? = some a → (∀ s ∈ sp, Inside v.endp (v.lvl + s.off + s.size)) →
      stepField w v buf cur a
        = toOut buf (specGet (geoWalk bo buf sp gs ds v.lvl v.wbl) (.field i) w cur))
    ∧ (∀ k g, gs[k]? = some g → Inside v.endp (groupPos bo buf gs v.lvl v.wbl k + g.dim.size) →
      stepGroup w bo v buf cur gs k g
        = toOut buf (specGet (geoWalk bo buf sp gs ds v.lvl v.wbl) (.group k) w cur))
    ∧ (∀ k d, ds[k]? = some d → Inside v.endp (dataPos bo buf (.mk bl lv gs ds) v.lvl v.wbl k + d.lenSize) →
      stepData w bo v buf cur (.mk bl lv gs ds) k d
        = toOut buf (specGet (geoWalk bo buf sp gs ds v.lvl v.wbl) (.data k) w cur)) := by
  refine ⟨?_, ?_, ?_⟩
  · intro i a ha hin
    obtain ⟨pe', s, h1, h2, h3, h4⟩ := field_index hdr v.lvl buf sp 0 i a hord ha
    simp only [specGet, geoWalk, h4, fieldGeos_length]
    rw [h3]
    exact stepField_spec v buf cur hdr pe' s _ w hv h1 (hin s h2) (Or.inl hchk)
  · intro k g hg hin
    have := groupGeosWalk_get bo buf gs (v.lvl + v.wbl) k g hg
    simp only [specGet, geoWalk, this]
    exact stepGroup_spec bo v buf cur w gs k g hin (Or.inl hchk)
  · intro k d hd hin
    have := dataGeosWalk_get bo buf ds (endGs bo buf gs (v.lvl + v.wbl)) k d hd
    simp only [specGet, geoWalk, this, groupGeosWalk_isEmpty]
    exact stepData_spec bo v buf cur w (.mk bl lv gs ds) k d hin (Or.inl hchk)

/-! ### on a well-formed image the random-access geometry is the geometry of the value tree
    (what the driver uses as the independent expectation) -/

theorem groupGeos_tree (bo : ByteOrder) (gs : List Group) :
    ∀ (gvs : List GVal) (buf pre post : List Nat), ConfGs bo gs gvs → buf = pre ++ flattenGs bo gs gvs ++ post →
      groupGeosWalk bo buf gs pre.length = groupGeosTree bo gs gvs pre.length := by
  induction gs with
  | nil => intro gvs buf pre post _ _; cases gvs <;> simp [groupGeosWalk, groupGeosTree]
  | cons g gs ih =>
    intro gvs buf pre post hc hbuf
    cases gvs with
    | nil => simp [ConfGs] at hc
    | cons v vs =>
      obtain ⟨hg, hrest⟩ := hc
      have hb1 : buf = pre ++ flattenG bo g v ++ (flattenGs bo gs vs ++ post) := by
        rw [hbuf]; simp [flattenGs, List.append_assoc]
      have hend := endG_spec bo g v buf pre _ hg hb1
      have hb2 : buf = (pre ++ flattenG bo g v) ++ flattenGs bo gs vs ++ post := by
        rw [hbuf]; simp [flattenGs, List.append_assoc]
      have := ih vs buf (pre ++ flattenG bo g v) post hrest hb2
      simp only [List.length_append] at this
      simp only [groupGeosWalk, groupGeosTree, hend, this]

theorem dataGeos_tree (bo : ByteOrder) (ds : List DataL) :
    ∀ (dvs : List (List Nat)) (buf pre post : List Nat), ConfDs ds dvs → buf = pre ++ flattenDs bo ds dvs ++ post →
      dataGeosWalk bo buf ds pre.length = dataGeosTree ds dvs pre.length := by
  induction ds with
  | nil => intro dvs buf pre post _ _; cases dvs <;> simp [dataGeosWalk, dataGeosTree]
  | cons d ds ih =>
    intro dvs buf pre post hc hbuf
    cases dvs with
    | nil => simp [ConfDs] at hc
    | cons pl pls =>
      obtain ⟨⟨hlen, _⟩, hrest⟩ := hc
      have hb1 : buf = pre ++ put bo d.lenSize pl.length ++ (pl ++ flattenDs bo ds pls ++ post) := by
        rw [hbuf]; simp [flattenDs, flattenD, List.append_assoc]
      have hrd : rd bo buf pre.length d.lenSize = pl.length := by
        rw [hb1]; exact rd_put bo pre _ d.lenSize pl.length hlen
      have hb2 : buf = (pre ++ put bo d.lenSize pl.length ++ pl) ++ flattenDs bo ds pls ++ post := by
        rw [hbuf]; simp [flattenDs, flattenD, List.append_assoc]
      have := ih pls buf (pre ++ put bo d.lenSize pl.length ++ pl) post hrest hb2
      simp only [List.length_append, put_length] at this
      simp only [dataGeosWalk, dataGeosTree, hrd, this]

/-- the two instantiations of the protocol's geometry coincide on every buffer
    that contains a well-formed image of the level -/
theorem geoWalk_eq_geoTree (bo : ByteOrder) (sp : List FieldSpan) (bl : Nat) (lv : List Leaf) (gs : List Group)
    (ds : List DataL) (val : LVal) (wbl : Nat) (buf pre post : List Nat)
    (hc : ConfL bo (.mk bl lv gs ds) val wbl) (hbuf : buf = pre ++ flattenL bo (.mk bl lv gs ds) val ++ post) :
    geoWalk bo buf sp gs ds pre.length wbl = geoTree bo sp gs ds val pre.length (fun p n => slice buf p n) := by
  match val with
  | .mk block gvs dvs =>
    obtain ⟨hblk, _, hgs, hds⟩ := hc
    have hb1 : buf = (pre ++ block) ++ flattenGs bo gs gvs ++ (flattenDs bo ds dvs ++ post) := by
      rw [hbuf]; simp [flattenL, List.append_assoc]
    have h1 := groupGeos_tree bo gs gvs buf (pre ++ block) _ hgs hb1
    have h2 := endGs_spec bo gs gvs buf (pre ++ block) _ hgs hb1
    have hb2 : buf = (pre ++ block ++ flattenGs bo gs gvs) ++ flattenDs bo ds dvs ++ post := by
      rw [hbuf]; simp [flattenL, List.append_assoc]
    have h3 := dataGeos_tree bo ds dvs buf (pre ++ block ++ flattenGs bo gs gvs) post hds hb2
    simp only [List.length_append, hblk] at h1 h2 h3
    simp only [geoWalk, geoTree, LVal.block, LVal.groups, LVal.datas, hblk, h1, h2, h3]

/-! ### cursor ranges -/

/-- inside the precondition `pos < size()` the converted difference is the difference -/
theorem subIndex_of_le (w a b : Nat) (h : b ≤ a) : subIndex w a b = a - b := by
  unfold subIndex; rw [if_pos h]

/-- **sub-range clause**: in a checked build, for every `pos` and `count`, the
    range object a group view hands out is exactly the documented one —
    `[0, size)`, `[pos, size)`, `[pos, pos + count)` with the block length of the
    dimension header — and a violated precondition is reported -/
theorem mkRange_spec (bo : ByteOrder) (buf : List Nat) (e : Nat) (dim : Dim) (p : Nat) (k : RangeKind)
    (hin : p + dim.size ≤ e) :
    mkRange bo buf (some e) dim p k
      = match rangeSpec (rd bo buf (p + dim.numOff) dim.numSize) k with
        | some (s, l) => .ok ⟨rd bo buf (p + dim.blOff) dim.blSize, s, l⟩
        | none => .error .precondition := by
  have hH : sizeCheck (some e) (some p) 0 dim.size = .ok () :=
    sizeCheck_of_inside (some e) p 0 dim.size (p + dim.size) (fun e' he => by cases he; exact hin) (by omega)
  cases k with
  | all => simp [mkRange, cursorRange, groupHeader, rangeSpec, bind, Except.bind, hH]
  | sub pos =>
    by_cases hp : pos < rd bo buf (p + dim.numOff) dim.numSize
    · simp [mkRange, cursorSubrange1, groupHeader, rangeSpec, bind, Except.bind, hH, hp,
        subIndex_of_le _ _ _ (Nat.le_of_lt hp)]
    · simp [mkRange, cursorSubrange1, groupHeader, rangeSpec, bind, Except.bind, hH, hp]
  | subn pos count =>
    by_cases hp : pos < rd bo buf (p + dim.numOff) dim.numSize
    · by_cases hc : count ≤ rd bo buf (p + dim.numOff) dim.numSize - pos
      · simp [mkRange, cursorSubrange2, groupHeader, rangeSpec, bind, Except.bind, hH, hp, hc]
      · simp [mkRange, cursorSubrange2, groupHeader, rangeSpec, bind, Except.bind, hH, hp, hc]
    · simp [mkRange, cursorSubrange2, groupHeader, rangeSpec, bind, Except.bind, hH, hp]

/-- in an unchecked build the same ranges, without the precondition tests -/
theorem mkRange_unchecked (bo : ByteOrder) (buf : List Nat) (dim : Dim) (p : Nat) (k : RangeKind) (s l : Nat)
    (h : rangeSpec (rd bo buf (p + dim.numOff) dim.numSize) k = some (s, l)) :
    mkRange bo buf none dim p k = .ok ⟨rd bo buf (p + dim.blOff) dim.blSize, s, l⟩ := by
  cases k with
  | all =>
    simp only [rangeSpec, Option.some.injEq, Prod.mk.injEq] at h
    obtain ⟨rfl, rfl⟩ := h
    simp [mkRange, cursorRange, groupHeader, sizeCheck, sizeOk, bind, Except.bind]
  | sub pos =>
    simp only [rangeSpec] at h
    split at h
    · rename_i hp
      simp only [Option.some.injEq, Prod.mk.injEq] at h
      obtain ⟨rfl, rfl⟩ := h
      simp [mkRange, cursorSubrange1, groupHeader, sizeCheck, sizeOk, bind, Except.bind,
        subIndex_of_le _ _ _ (Nat.le_of_lt hp)]
    · simp at h
  | subn pos count =>
    simp only [rangeSpec] at h
    split at h
    · simp only [Option.some.injEq, Prod.mk.injEq] at h
      obtain ⟨rfl, rfl⟩ := h
      simp [mkRange, cursorSubrange2, groupHeader, sizeCheck, sizeOk, bind, Except.bind]
    · simp at h

/-- **iteration clause**: with the cursor at the start of entry `s` of a group
    whose header is at `p`, a complete iteration of a range of `len` entries
    (each entry created by `*it` and traversed in order) visits the entries
    `s .. s+len-1` at their random-access addresses `entryPos g p i` and leaves
    the cursor at the end of entry `s+len-1` (= start of entry `s+len`) -/
theorem range_iteration_end (bo : ByteOrder) (buf : List Nat) (dim : Dim) (l : GLevel) (endp : Option Nat)
    (p wbl s len : Nat) (hg : GoodL 0 l)
    (hf : ∀ i, s ≤ i → i < s + len →
      FitL bo buf l (iter (fun q => endL bo buf l.erase q wbl) i (p + dim.size)) wbl)
    (hin : Inside endp (iter (fun q => endL bo buf l.erase q wbl) (s + len) (p + dim.size))) :
    iterE (fun c =>
        match derefEntry l.emptyCtor endp c wbl with
        | .error e => .error e
        | .ok (ev, c') => travL bo buf l ev c') len
        (some (iter (fun q => endL bo buf l.erase q wbl) s (p + dim.size)))
      = .ok (some (iter (fun q => endL bo buf l.erase q wbl) (s + len) (p + dim.size))) := by
  have hmono : ∀ q, q ≤ endL bo buf l.erase q wbl := fun q => Nat.le_trans (by omega) (endL_ge bo buf l.erase q wbl)
  rw [iter_add]
  apply iterE_end _ (fun q => endL bo buf l.erase q wbl) len
  intro i hi
  rw [← iter_add]
  generalize hq : iter (fun q => endL bo buf l.erase q wbl) (s + i) (p + dim.size) = q
  have hnext : endL bo buf l.erase q wbl ≤ iter (fun q => endL bo buf l.erase q wbl) (s + len) (p + dim.size) := by
    have := iter_le_iter _ hmono (s + i + 1) (s + len) (p + dim.size) (by omega)
    rw [iter_succ', hq] at this; exact this
  have hinE : Inside endp (endL bo buf l.erase q wbl) := inside_mono hin hnext
  have hd := derefEntry_ok l.emptyCtor endp q wbl (inside_mono hinE (endL_ge bo buf l.erase q wbl))
  simp only [hd]
  have hfi := hf (s + i) (by omega) (by omega)
  rw [hq] at hfi
  exact travL_end bo buf l 0 ⟨q, q, wbl, endp⟩ _ hg rfl hfi hinE rfl

end Sbepp.Rt.Cursor
